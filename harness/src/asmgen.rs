//! Assembler-level generators and reference semantics: statement lists → expected memory image / label table /
//! well-formedness classes, computed independently of the crate (oracle for C01, C02, C21, C23, C24, C26).
use crate::util::*;
use crate::proggen::*;
use std::collections::{BTreeMap, BTreeSet};

pub fn up(s: &str) -> String { s.to_uppercase() }
pub fn mn(s: &GStmt) -> String { s.mnem.to_uppercase() }

/// reference layout of a statement list, tolerant of ill-formed input
#[derive(Default, Debug)]
pub struct Layout {
    /// address of each statement (None outside a block)
    pub addr: Vec<Option<u32>>,
    /// closed non-empty blocks in source order: (start, len, index of the .orig statement)
    pub blocks: Vec<(u32, u32, usize)>,
    /// every binding of a label name (upper-cased): addresses, external flag of the first binding, first spelling
    pub binds: BTreeMap<String, (Vec<u32>, bool, String)>,
    /// classes of violated well-formedness conditions
    pub bad: BTreeSet<&'static str>,
    /// spellings of labels involved in duplicate / undefined / range / external-use faults
    pub culprit_labels: BTreeSet<String>,
}

pub fn pc_operand(s: &GStmt) -> Option<(usize, u32)> {
    match mn(s).as_str() { "LD" | "LDI" | "LEA" | "ST" | "STI" => Some((1, 9)), "JSR" => Some((0, 11)), m if m.starts_with("BR") => Some((0, 9)), "NOP" if !s.ops.is_empty() => Some((0, 9)), _ => None }
}

pub fn layout(stmts: &[GStmt]) -> Layout {
    let mut l = Layout::default();
    let mut cur: Option<(u32, u32, usize)> = None; // (start, lc, orig index)
    let mut open_blocks: Vec<(u32, u32, usize)> = vec![]; // also unclosed ones, for the IO/wrap conditions
    for (i, s) in stmts.iter().enumerate() {
        let m = mn(s);
        if !s.labels.is_empty() {
            match cur { None => { l.bad.insert("structure"); } Some((_, lc, _)) => for n in &s.labels { let e = l.binds.entry(up(n)).or_insert((vec![], false, n.clone())); e.0.push(lc); } }
        }
        match m.as_str() {
            ".ORIG" => { if let Some(c) = cur { l.bad.insert("structure"); open_blocks.push(c); } let Op::ImmU(a) = s.ops[0] else { unreachable!() }; cur = Some((a, a, i)); l.addr.push(None); continue; }
            ".END" => { match cur.take() { None => { l.bad.insert("structure"); } Some((st, lc, oi)) => { if lc > st { l.blocks.push((st, lc - st, oi)); } open_blocks.push((st, lc, oi)); } } l.addr.push(None); continue; }
            ".EXTERNAL" => { let Op::Lbl(n) = &s.ops[0] else { unreachable!() }; let e = l.binds.entry(up(n)).or_insert((vec![], true, n.clone())); e.0.push(0); l.addr.push(cur.map(|c| c.1)); continue; }
            _ => {}
        }
        match cur.as_mut() { None => { l.bad.insert("structure"); l.addr.push(None); } Some(c) => { l.addr.push(Some(c.1)); c.1 += s.size; } }
    }
    if let Some(c) = cur { l.bad.insert("structure"); open_blocks.push(c); }
    for (n, (addrs, _, sp)) in &l.binds { let mut a = addrs.clone(); a.sort(); a.dedup(); if a.len() > 1 { l.bad.insert("dup"); l.culprit_labels.insert(up(n)); let _ = sp; } }
    for &(st, end, _) in &open_blocks { if end > st { if end > 0x10000 { l.bad.insert("wrap"); l.bad.insert("io"); } else if end > 0xFE00 { l.bad.insert("io"); } } }
    for (i, a) in l.blocks.iter().enumerate() { for b in l.blocks.iter().skip(i + 1) { if a.0 < b.0 + b.1 && b.0 < a.0 + a.1 { l.bad.insert("overlap"); } } }
    for (i, s) in stmts.iter().enumerate() {
        if let Some((idx, bits)) = pc_operand(s) { if let Op::Lbl(n) = &s.ops[idx] {
            match l.binds.get(&up(n)) {
                None => { l.bad.insert("undef"); l.culprit_labels.insert(up(n)); }
                Some((_, true, _)) => { l.bad.insert("extuse"); l.culprit_labels.insert(up(n)); }
                Some((addrs, false, _)) => if let Some(pc) = l.addr[i] { let d = ((addrs[0] as i64 - (pc as i64 + 1)) as i16) as i64; if d < -(1 << (bits - 1)) || d >= (1 << (bits - 1)) { l.bad.insert("range"); l.culprit_labels.insert(up(n)); } }
            }
        } }
        if mn(s) == ".FILL" { if let Op::Lbl(n) = &s.ops[0] { if !l.binds.contains_key(&up(n)) { l.bad.insert("undef"); l.culprit_labels.insert(up(n)); } } }
    }
    l
}

pub fn kind_class(kind: &str) -> &'static str {
    match kind { "undetlabel" | "undetstmt" | "unclosed" | "unopened" | "nestedorig" => "structure", "duplabel" => "dup", "nolabel" => "undef", "offs9" | "offs11" => "range",
        "offext" => "extuse", "overlap" => "overlap", "io" => "io", "wrap" => "wrap", _ => "?" }
}

fn reg(o: &Op) -> u16 { if let Op::Reg(r) = o { *r as u16 } else { panic!("reg expected") } }
fn imm(o: &Op) -> i32 { match o { Op::Imm(v) => *v, Op::ImmU(v) => *v as i32, _ => panic!("imm expected") } }

/// reference encoding of a well-formed statement at address `pc` (labels resolved through `lab`): the words it occupies
pub fn encode(s: &GStmt, pc: u32, lab: &dyn Fn(&str) -> u32) -> Vec<Option<u16>> {
    let off = |o: &Op, bits: u32| -> u16 { let v: i64 = match o { Op::Lbl(n) => lab(n) as i64 - (pc as i64 + 1), o => imm(o) as i64 }; (v as u16) & ((1u16 << bits) - 1) };
    let m = mn(s);
    let w = |x: u16| vec![Some(x)];
    match m.as_str() {
        "ADD" | "AND" => { let opc = if m == "ADD" { 0x1000 } else { 0x5000 }; let tail = match &s.ops[2] { Op::Reg(r) => *r as u16, o => 0x20 | ((imm(o) as u16) & 0x1F) }; w(opc | reg(&s.ops[0]) << 9 | reg(&s.ops[1]) << 6 | tail) }
        "BR" | "BRNZP" => w(0x0E00 | off(&s.ops[0], 9)), "BRN" => w(0x0800 | off(&s.ops[0], 9)), "BRZ" => w(0x0400 | off(&s.ops[0], 9)), "BRP" => w(0x0200 | off(&s.ops[0], 9)),
        "BRNZ" => w(0x0C00 | off(&s.ops[0], 9)), "BRNP" => w(0x0A00 | off(&s.ops[0], 9)), "BRZP" => w(0x0600 | off(&s.ops[0], 9)),
        "JMP" => w(0xC000 | reg(&s.ops[0]) << 6), "JSRR" => w(0x4000 | reg(&s.ops[0]) << 6), "JSR" => w(0x4800 | off(&s.ops[0], 11)),
        "LD" => w(0x2000 | reg(&s.ops[0]) << 9 | off(&s.ops[1], 9)), "LDI" => w(0xA000 | reg(&s.ops[0]) << 9 | off(&s.ops[1], 9)), "LEA" => w(0xE000 | reg(&s.ops[0]) << 9 | off(&s.ops[1], 9)),
        "ST" => w(0x3000 | reg(&s.ops[0]) << 9 | off(&s.ops[1], 9)), "STI" => w(0xB000 | reg(&s.ops[0]) << 9 | off(&s.ops[1], 9)),
        "LDR" => w(0x6000 | reg(&s.ops[0]) << 9 | reg(&s.ops[1]) << 6 | (imm(&s.ops[2]) as u16 & 0x3F)), "STR" => w(0x7000 | reg(&s.ops[0]) << 9 | reg(&s.ops[1]) << 6 | (imm(&s.ops[2]) as u16 & 0x3F)),
        "NOT" => w(0x903F | reg(&s.ops[0]) << 9 | reg(&s.ops[1]) << 6), "RET" => w(0xC1C0), "RTI" => w(0x8000), "TRAP" => w(0xF000 | (imm(&s.ops[0]) as u16 & 0xFF)),
        "NOP" => w(if s.ops.is_empty() { 0 } else { off(&s.ops[0], 9) }),
        "GETC" => w(0xF020), "OUT" | "PUTC" => w(0xF021), "PUTS" => w(0xF022), "IN" => w(0xF023), "PUTSP" => w(0xF024), "HALT" => w(0xF025),
        ".FILL" => w(match &s.ops[0] { Op::Lbl(n) => lab(n) as u16, o => imm(o) as u16 }),
        ".BLKW" => vec![None; imm(&s.ops[0]) as usize],
        ".STRINGZ" => { let Op::Str(b) = &s.ops[0] else { panic!() }; let mut v: Vec<Option<u16>> = b.iter().map(|x| Some(*x as u16)).collect(); v.push(Some(0)); v }
        _ => vec![],
    }
}

/// expected object image of a well-formed program: blocks sorted by start, labels (upper-cased) with address and external flag,
/// relocation entries (address of every `.fill` of an external label)
pub struct Expected { pub blocks: Vec<(u16, Vec<Option<u16>>)>, pub labels: BTreeMap<String, (u16, bool)>, pub rel: Vec<(u16, String)> }

pub fn expected(stmts: &[GStmt]) -> Expected {
    let l = layout(stmts);
    assert!(l.bad.is_empty(), "expected() on an ill-formed program: {:?}", l.bad);
    let labels: BTreeMap<String, (u16, bool)> = l.binds.iter().map(|(k, (a, e, _))| (k.clone(), (a[0] as u16, *e))).collect();
    let lab = |n: &str| -> u32 { labels[&up(n)].0 as u32 };
    let mut blocks: Vec<(u16, Vec<Option<u16>>)> = vec![]; let mut cur: Option<(u16, Vec<Option<u16>>)> = None; let mut rel = vec![];
    for (i, s) in stmts.iter().enumerate() {
        match mn(s).as_str() {
            ".ORIG" => { let Op::ImmU(a) = s.ops[0] else { unreachable!() }; cur = Some((a as u16, vec![])); }
            ".END" => { let b = cur.take().unwrap(); if !b.1.is_empty() { blocks.push(b); } }
            ".EXTERNAL" => {}
            _ => { let pc = l.addr[i].unwrap(); if mn(s) == ".FILL" { if let Op::Lbl(n) = &s.ops[0] { if labels[&up(n)].1 { rel.push((pc as u16, up(n))); } } } cur.as_mut().unwrap().1.extend(encode(s, pc, &lab)); }
        }
    }
    blocks.sort_by_key(|b| b.0); rel.sort();
    Expected { blocks, labels, rel }
}

pub fn dump_blocks(b: &[(u16, Vec<Option<u16>>)]) -> String {
    b.iter().map(|(a, ws)| format!("{:04x}:{}", a, ws.iter().map(|w| match w { Some(w) => format!("{:04x}", w), None => "_".into() }).collect::<Vec<_>>().join(","))).collect::<Vec<_>>().join(";")
}
/// `B[..]` part of an `ok B[..] S[..]` dump line
pub fn dump_field<'a>(dump: &'a str, tag: &str) -> Option<&'a str> {
    let i = dump.find(&format!("{tag}["))? + tag.len() + 1;
    let mut depth = 1; let b = dump.as_bytes();
    for j in i..b.len() { if b[j] == b'[' { depth += 1; } if b[j] == b']' { depth -= 1; if depth == 0 { return Some(&dump[i..j]); } } }
    None
}

/// configuration of one generated source file
#[derive(Clone)]
pub struct FileCfg {
    /// candidate origins (each block takes the next one)
    pub origins: Vec<u32>,
    /// label names this file may define
    pub names: Vec<String>,
    /// labels declared `.external` in this file and used in `.fill`
    pub externals: Vec<String>,
    pub max_stmts: usize,
    /// chance (out of 8) that a statement is data
    pub data_bias: u64,
}

/// a well-formed file: blocks at the given origins (kept disjoint by the caller's spacing), every name defined exactly once,
/// externals declared at a random place (before, between or after their uses; inside or outside a block) and used in `.fill`
thread_local! { pub static TOUCH_BLOCKS: std::cell::Cell<bool> = const { std::cell::Cell::new(false) }; }

pub fn gen_file(rng: &mut Rng, cfg: &FileCfg) -> Vec<GStmt> {
    let nblocks = (1 + rng.below(cfg.origins.len().min(3) as u64)) as usize;
    let mut stmts: Vec<GStmt> = vec![]; let mut unplaced = cfg.names.clone();
    let mut fill_targets: Vec<String> = cfg.names.clone(); fill_targets.extend(cfg.externals.iter().cloned());
    for b in 0..nblocks {
        stmts.push(GStmt { labels: vec![], mnem: ".orig".into(), ops: vec![Op::ImmU(cfg.origins[b])], size: 0 });
        let n = 1 + rng.below((cfg.max_stmts / nblocks).max(1) as u64) as usize;
        for _ in 0..n {
            let mut s = if rng.below(8) >= cfg.data_bias { gen_instr(rng, &[]) } else { gen_data(rng, &fill_targets) };
            while !unplaced.is_empty() && rng.chance(1, 3) { s.labels.push(unplaced.remove(0)); }
            stmts.push(s);
        }
        for e in &cfg.externals { if rng.chance(1, 2) { stmts.push(GStmt { labels: vec![], mnem: ".fill".into(), ops: vec![Op::Lbl(if rng.bool() { e.clone() } else { e.to_lowercase() })], size: 1 }); } }
        let mut e = GStmt { labels: vec![], mnem: ".end".into(), ops: vec![], size: 0 };
        if b + 1 == nblocks { while let Some(l) = unplaced.pop() { e.labels.push(l); } }
        stmts.push(e);
    }
    // touching blocks: sometimes one block is moved so that it starts exactly where another one ends (the blocks appear in
    // either address order in the source); abandoned if the moved block would then collide with anything
    if nblocks >= 2 && TOUCH_BLOCKS.with(|c| c.get()) && rng.chance(1, 2) {
        let l = layout(&stmts);
        if l.bad.is_empty() && l.blocks.len() >= 2 {
            let i = rng.below(l.blocks.len() as u64) as usize; let mut j = rng.below(l.blocks.len() as u64 - 1) as usize; if j >= i { j += 1; }
            let (si, li, _) = l.blocks[i]; let (_, _, oj) = l.blocks[j];
            let old = stmts[oj].ops[0].clone();
            stmts[oj].ops[0] = Op::ImmU(si + li);
            if !layout(&stmts).bad.is_empty() { stmts[oj].ops[0] = old; }
        }
    }
    // .external declarations anywhere (index 0 = before the first .orig, len = after the last .end)
    for e in &cfg.externals { let at = rng.below(stmts.len() as u64 + 1) as usize; stmts.insert(at, GStmt { labels: vec![], mnem: ".external".into(), ops: vec![Op::Lbl(e.clone())], size: 0 }); }
    // PC-relative label operands where the distance fits (forward and backward), sometimes exactly at the limits
    let l = layout(&stmts);
    let lab_addr: Vec<(String, u32)> = l.binds.iter().filter(|(_, v)| !v.1).map(|(_, v)| (v.2.clone(), v.0[0])).collect();
    for (i, s) in stmts.iter_mut().enumerate() {
        let Some((idx, bits)) = pc_operand(s) else { continue };
        let Some(pc) = l.addr[i] else { continue };
        if rng.chance(1, 2) { for (n, a) in &lab_addr { let d = *a as i64 - (pc as i64 + 1); if d >= -(1 << (bits - 1)) && d < (1 << (bits - 1)) && rng.bool() { s.ops[idx] = Op::Lbl(if rng.bool() { n.clone() } else { n.to_lowercase() }); break; } } }
    }
    stmts
}

pub fn fresh_names(rng: &mut Rng, n: usize, avoid: &[String]) -> Vec<String> {
    let mut names: Vec<String> = vec![];
    while names.len() < n { let c = label_name(rng); if !names.iter().chain(avoid.iter()).any(|x| up(x) == up(&c)) { names.push(c); } }
    names
}

/// a single well-formed file with 0-4 labels, sometimes externals, origins anywhere from x0000 to just below xFE00
pub fn gen_single(rng: &mut Rng, max_stmts: usize, allow_ext: bool) -> Vec<GStmt> {
    let k = rng.below(5) as usize; let names = fresh_names(rng, k, &[]);
    let externals = if allow_ext && rng.chance(1, 3) { let k = 1 + rng.below(2) as usize; fresh_names(rng, k, &names) } else { vec![] };
    let mut base = *rng.pick(&[0x0000u32, 0x0200, 0x2FF0, 0x3000, 0x3000, 0x4000, 0x8000, 0xC000, 0xF000]);
    let mut origins = vec![];
    for _ in 0..3 { if base < 0xFA00 { origins.push(base); } base += 0x400 + rng.below(0x800) as u32; }
    // blocks need not appear in address order in the source
    for i in (1..origins.len()).rev() { let j = rng.below(i as u64 + 1) as usize; origins.swap(i, j); }
    if rng.chance(1, 6) { // a block ending exactly at xFE00
        let mut f = gen_file(rng, &FileCfg { origins: vec![0xFD00], names, externals, max_stmts: max_stmts.min(12), data_bias: 3 });
        let l = layout(&f); let end = l.blocks.iter().map(|b| b.0 + b.1).max().unwrap_or(0xFD00);
        if end < 0xFE00 { let pos = f.iter().rposition(|s| mn(s) == ".END").unwrap(); let n = 0xFE00 - end; f.insert(pos, GStmt { labels: vec![], mnem: ".blkw".into(), ops: vec![Op::ImmU(n)], size: n }); }
        return f;
    }
    gen_file(rng, &FileCfg { origins, names, externals, max_stmts, data_bias: 3 })
}

/// inject one fault; returns a description
pub fn inject_fault(rng: &mut Rng, stmts: &mut Vec<GStmt>) -> &'static str {
    let find = |stmts: &Vec<GStmt>, m: &str| -> Vec<usize> { stmts.iter().enumerate().filter(|(_, s)| mn(s) == m).map(|(i, _)| i).collect() };
    let blk = |n: u32| GStmt { labels: vec![], mnem: ".blkw".into(), ops: vec![Op::ImmU(n)], size: n };
    match rng.below(14) {
        0 => { let e = find(stmts, ".END"); if e.is_empty() { return "none"; } let i = *rng.pick(&e); let s = stmts.remove(i); if !s.labels.is_empty() { /* labels vanish with it */ } "missing .end" }
        1 => { let e = find(stmts, ".ORIG"); if e.is_empty() { return "none"; } let i = *rng.pick(&e); stmts.remove(i); "missing .orig" }
        2 => { stmts.insert(0, gen_instr(rng, &[])); "statement before the first .orig" }
        3 => { let mut s = gen_instr(rng, &[]); s.labels.push("STRAY".into()); stmts.push(s); "labelled statement after the last .end" }
        4 => { stmts.push(GStmt { labels: vec![], mnem: ".end".into(), ops: vec![], size: 0 }); "extra .end" }
        5 => { // duplicate label, different case, different address
            let l = layout(stmts); let Some((_, (a, _, sp))) = l.binds.iter().find(|(_, v)| !v.1) else { return "none" }; let (a0, sp) = (a[0], sp.clone());
            let cand: Vec<usize> = (0..stmts.len()).filter(|&i| l.addr[i].is_some() && l.addr[i] != Some(a0) && stmts[i].size > 0).collect(); if cand.is_empty() { return "none"; }
            let i = *rng.pick(&cand); stmts[i].labels.push(if rng.bool() { sp.to_lowercase() } else { sp.to_uppercase() }); "duplicate label" }
        6 => { // undefined label operand
            let cand: Vec<usize> = (0..stmts.len()).filter(|&i| pc_operand(&stmts[i]).is_some() || mn(&stmts[i]) == ".FILL").collect(); if cand.is_empty() { return "none"; }
            let i = *rng.pick(&cand); let idx = pc_operand(&stmts[i]).map(|p| p.0).unwrap_or(0); stmts[i].ops[idx] = Op::Lbl("NOWHERE".into()); "undefined label" }
        7 | 8 => { // label exactly one past (7) or exactly at (8) the reach of a 9- or 11-bit offset, forwards or backwards
            let e = find(stmts, ".END"); if e.is_empty() { return "none"; } let pos = *rng.pick(&e); let wide = rng.bool(); let (m, lim) = if wide { ("JSR", 1024i64) } else { (*rng.pick(&["LD", "ST", "LEA", "BRz", "LDI"]), 256i64) };
            let over = rng.below(2) == 0; let fwd = rng.bool();
            let mk = |rng: &mut Rng| { let mut ops = vec![]; if m != "JSR" && !m.starts_with("BR") { ops.push(Op::Reg(rng.below(8) as u8)); } ops.push(Op::Lbl("FARLBL".into())); GStmt { labels: vec![], mnem: m.into(), ops, size: 1 } };
            let tgt = GStmt { labels: vec!["FARLBL".into()], mnem: ".fill".into(), ops: vec![Op::ImmU(7)], size: 1 };
            if fwd { // distance = gap ; in range iff gap <= lim-1
                let gap = if over { lim } else { lim - 1 }; let u = mk(rng); stmts.insert(pos, tgt); if gap > 0 { stmts.insert(pos, blk(gap as u32)); } stmts.insert(pos, u);
            } else { // target before: distance = -(gap+2) ; in range iff gap+2 <= lim
                let gap = if over { lim - 1 } else { lim - 2 }; let u = mk(rng); stmts.insert(pos, u); stmts.insert(pos, blk(gap as u32)); stmts.insert(pos, tgt);
            }
            if over { "label one past the offset range" } else { "label exactly at the offset limit" } }
        9 | 10 => { // block ending at / one past xFE00, or at / past x10000
            let (start, len): (u32, u32) = *rng.pick(&[(0xFDF0, 16), (0xFDF0, 17), (0xFDFF, 1), (0xFDFF, 2), (0xFE00, 1), (0xFFF0, 16), (0xFFF0, 17), (0xFFFF, 1), (0xFFFF, 2), (0x8000, 0x7E00), (0x8000, 0x7E01), (0x0001, 0xFFFF), (0xFE00, 0)]);
            stmts.push(GStmt { labels: vec![], mnem: ".orig".into(), ops: vec![Op::ImmU(start)], size: 0 });
            let mut left = len; while left > 0 { let n = left.min(if rng.bool() { 0xFFFF } else { 1 + rng.below(40) as u32 }); if rng.chance(1, 4) && left >= 1 { stmts.push(gen_instr(rng, &[])); left -= 1; } else { stmts.push(blk(n)); left -= n; } }
            stmts.push(GStmt { labels: vec![], mnem: ".end".into(), ops: vec![], size: 0 }); "block near the I/O page or the end of memory" }
        11 => { // overlapping or touching block
            let l = layout(stmts); let Some(&(st, len, _)) = l.blocks.first() else { return "none" };
            let (s2, n2): (i64, u32) = *rng.pick(&[(st as i64 + len as i64, 3), (st as i64 + len as i64 - 1, 3), (st as i64 - 3, 3), (st as i64 - 3, 4), (st as i64, 1), (st as i64 + 1, 1)]);
            if s2 < 0 || s2 + n2 as i64 > 0xFE00 { return "none"; }
            stmts.push(GStmt { labels: vec![], mnem: ".orig".into(), ops: vec![Op::ImmU(s2 as u32)], size: 0 }); stmts.push(blk(n2)); stmts.push(GStmt { labels: vec![], mnem: ".end".into(), ops: vec![], size: 0 }); "overlapping or touching block" }
        12 => { // external label as a PC-relative operand
            let cand: Vec<usize> = (0..stmts.len()).filter(|&i| pc_operand(&stmts[i]).is_some()).collect(); if cand.is_empty() { return "none"; }
            let i = *rng.pick(&cand); let idx = pc_operand(&stmts[i]).unwrap().0; stmts[i].ops[idx] = Op::Lbl("XTRN".into());
            let at = rng.below(stmts.len() as u64 + 1) as usize; stmts.insert(at, GStmt { labels: vec![], mnem: ".external".into(), ops: vec![Op::Lbl("xtrn".into())], size: 0 }); "external label in a PC-relative operand" }
        _ => { // nested .orig
            let e = find(stmts, ".ORIG"); if e.is_empty() { return "none"; } let i = *rng.pick(&e); stmts.insert(i + 1, GStmt { labels: vec![], mnem: ".orig".into(), ops: vec![Op::ImmU(0x5000)], size: 0 }); "nested .orig" }
    }
}
