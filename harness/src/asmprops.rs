//! Generators + oracles for the assembler-side properties: C01 C02 C21 C23 C24 C26 (single file), C20 C22 (linking),
//! C17 C18 C19 (object formats), C07 (disassemble → reassemble).
use crate::util::*;
use crate::exec::Exec;
use crate::c25::hexs;
use crate::proggen::*;
use crate::asmgen::*;
use std::collections::{BTreeMap, BTreeSet, HashSet};

fn hx(s: &str) -> String { hexs(s.as_bytes()) }
fn unhex_str(h: &str) -> String { if h == "-" { String::new() } else { String::from_utf8(crate::c25::unhex(h).unwrap_or_default()).unwrap_or_default() } }
fn run(out: &mut Out, ex: &mut Exec, l: &str) -> String { let r = ex.line(l); out.op(l, &r); r }

/// labels of a dump line as (NAME, addr, src_start, ext)
pub fn dump_labels(d: &str) -> Vec<(String, u16, usize, bool)> {
    let Some(f) = dump_field(d, "L") else { return vec![] };
    f.split(',').filter(|x| !x.is_empty()).map(|e| { let p: Vec<&str> = e.split(':').collect(); (unhex_str(p[0]), u16::from_str_radix(p[1], 16).unwrap(), p[2].parse().unwrap(), p[3] == "1") }).collect()
}
pub fn dump_rel(d: &str) -> Vec<(u16, String)> {
    let Some(f) = dump_field(d, "R") else { return vec![] };
    f.split(',').filter(|x| !x.is_empty()).map(|e| { let (a, n) = e.split_once(':').unwrap(); (u16::from_str_radix(a, 16).unwrap(), unhex_str(n)) }).collect()
}
pub fn dump_lines(d: &str) -> Vec<(usize, u16)> {
    let Some(f) = dump_field(d, "M") else { return vec![] };
    f.split(',').filter(|x| !x.is_empty()).map(|e| { let (l, a) = e.split_once(':').unwrap(); (l.parse().unwrap(), u16::from_str_radix(a, 16).unwrap()) }).collect()
}
pub fn dump_src(d: &str) -> Option<String> { let i = d.find("] T")?; let h = d[i + 3..].trim_end_matches(']'); Some(unhex_str(h)) }

/// C01: assembled image = reference encoding
pub fn c01(out: &mut Out, ex: &mut Exec, seed: u64, thorough: bool) {
    let mut rng = Rng::new(seed); let n = if thorough { 60_000 } else { 3_000 }; let mut seen = HashSet::new();
    for i in 0..n {
        let stmts = gen_single(&mut rng, 30, true);
        let exp = expected(&stmts);
        let text = render(&mut rng, &stmts);
        let dbg = i % 2;
        let r = run(out, ex, &format!("asm s {dbg} {}", hx(&text))); out.evaluations += 1;
        if !r.starts_with("ok ") { out.fail(out.lines, format!("well-formed program rejected: {r} :: {text:?}"), format!("asm s {dbg} {}", hx(&text))); continue; }
        let want = dump_blocks(&exp.blocks);
        if dump_field(&r, "B") != Some(&want) { out.fail(out.lines, format!("image differs from the reference encoding: got B[{}] want B[{}] for {:?}", dump_field(&r, "B").unwrap_or("?"), want, text), format!("asm s {dbg} {}", hx(&text))); }
        let has_ext = exp.labels.values().any(|v| v.1);
        if dbg == 1 || has_ext {
            let got: BTreeMap<String, (u16, bool)> = dump_labels(&r).into_iter().map(|(n, a, _, e)| (n, (a, e))).collect();
            if got != exp.labels { out.fail(out.lines, format!("label table differs: got {:?} want {:?} for {:?}", got, exp.labels, text), format!("asm s {dbg} {}", hx(&text))); }
            let mut rel = dump_rel(&r); rel.sort();
            if rel != exp.rel { out.fail(out.lines, format!("relocation table differs: got {:?} want {:?}", rel, exp.rel), format!("asm s {dbg} {}", hx(&text))); }
        } else if !r.contains("S[none]") { out.fail(out.lines, "assemble() without debug symbols and without externals kept a symbol table".into(), format!("asm s {dbg} {}", hx(&text))); }
        for s in &stmts { out.hist.hit(&format!("stmt_{}", mn(s))); }
        out.hist.hit(&format!("blocks_{}", exp.blocks.len())); if has_ext { out.hist.hit("with_externals"); }
        if exp.blocks.iter().any(|b| b.0 as u32 + b.1.len() as u32 == 0xFE00) { out.hist.hit("block_ends_at_fe00"); }
        if seen.insert(text.clone()) { out.nontrivial += 1; }
        if out.samples.len() < 4 { let mut j = Json::obj(); j.set("source", Json::s(text)); j.set("image", Json::s(want)); out.sample(j); }
    }
    out.rule = "programs from the statement grammar (every opcode, alias and directive; operands at, inside and at the limits of their fields; forward/backward label operands in random case; 1-3 blocks at origins x0000..xFA00 and blocks ending exactly at xFE00; labels on .end; .external before/between/after uses, inside and outside blocks), random surface syntax, assembled with and without debug symbols; the object dump (blocks, labels, externals, relocations, line map) compared with the model and the block/label/relocation part with a reference encoder written from the ISA tables".into();
}

/// C02 + C26: accepted exactly when well-formed; error kinds name a violated condition; spans well-formed
pub fn c02(out: &mut Out, ex: &mut Exec, seed: u64, thorough: bool, check_spans: bool) {
    let mut rng = Rng::new(seed); let n = if thorough { 80_000 } else { 5_000 }; let mut seen = HashSet::new();
    for i in 0..n {
        let mut stmts = gen_single(&mut rng, 14, true);
        let nf = match i % 5 { 0 => 0, 1 | 2 | 3 => 1, _ => 2 + rng.below(2) };
        let mut faults = vec![]; for _ in 0..nf { faults.push(inject_fault(&mut rng, &mut stmts)); }
        let l = layout(&stmts);
        let text = render(&mut rng, &stmts);
        let dbg = rng.below(2);
        let line = format!("asm s {dbg} {}", hx(&text));
        let r = run(out, ex, &line); out.evaluations += 1;
        for f in &faults { out.hist.hit(&format!("fault_{}", f.replace(' ', "_"))); }
        if r.starts_with("panic") { out.fail(out.lines, format!("assembler panicked: {r} :: {text:?}"), line.clone()); continue; }
        if r.starts_with("perr") { out.fail(out.lines, format!("generated program did not parse: {r} :: {text:?}"), line.clone()); continue; }
        let ok = r.starts_with("ok ");
        if ok != l.bad.is_empty() { out.fail(out.lines, format!("accepted={ok} but violated conditions = {:?} (faults {:?}) :: {text:?} -> {}", l.bad, faults, r.chars().take(120).collect::<String>()), line.clone()); }
        else if !ok {
            let mut it = r.split(' '); it.next(); let kind = it.next().unwrap_or("?"); let spans = it.next().unwrap_or("");
            let cls = kind_class(kind);
            if !l.bad.contains(cls) { out.fail(out.lines, format!("error kind `{kind}` names no violated condition (violated: {:?}, faults {:?}) :: {text:?}", l.bad, faults), line.clone()); }
            out.hist.hit(&format!("err_{kind}"));
            if check_spans {
                if r.starts_with("panic-in-span") { out.fail(out.lines, format!("querying the error's spans panicked: {r}"), line.clone()); }
                let sp: Vec<(usize, usize)> = spans.split(',').filter(|x| !x.is_empty()).filter_map(|x| x.split_once("..")).map(|(a, b)| (a.parse().unwrap_or(usize::MAX), b.parse().unwrap_or(0))).collect();
                if sp.is_empty() { out.fail(out.lines, format!("error `{kind}` carries no span"), line.clone()); }
                for &(a, b) in &sp { if !(a <= b && b <= text.len() && text.is_char_boundary(a) && text.is_char_boundary(b)) { out.fail(out.lines, format!("span {a}..{b} of `{kind}` not inside the {}-byte source", text.len()), line.clone()); } }
                if matches!(kind, "duplabel" | "nolabel" | "offs9" | "offs11" | "offext" | "undetlabel") {
                    for &(a, b) in &sp { if a <= b && b <= text.len() && text.is_char_boundary(a) && text.is_char_boundary(b) {
                        let t = up(&text[a..b]);
                        let is_label = if kind == "undetlabel" { l.binds.is_empty() || true } else { l.culprit_labels.contains(&t) };
                        let looks = !t.is_empty() && t.chars().all(|c| c.is_alphanumeric() || c == '_');
                        if !(is_label && looks) { out.fail(out.lines, format!("span {a}..{b} = {:?} of `{kind}` is not a spelling of an offending label ({:?})", &text[a..b], l.culprit_labels), line.clone()); }
                    } }
                }
            }
        } else { out.hist.hit("accepted"); }
        if seen.insert(text.clone()) { out.nontrivial += 1; }
        if out.samples.len() < 5 && nf > 0 { let mut j = Json::obj(); j.set("source", Json::s(text)); j.set("faults", Json::s(format!("{faults:?}"))); j.set("result", Json::s(r.chars().take(100).collect::<String>())); out.sample(j); }
    }
    out.rule = "generated programs with 0 (20%), 1 (60%) or 2-3 (20%) injected faults of 14 kinds (missing/extra .end, missing/nested .orig, statements and labels outside blocks, duplicate labels in another case, undefined labels, a label exactly at and exactly one past the reach of 9- and 11-bit offsets in both directions, blocks ending at/after xFE00 and x10000 incl. one-statement jumps, touching and overlapping blocks, external labels in PC-relative operands), assembled with and without debug symbols; oracle: an independent scan computes the set of violated conditions; accepted iff the set is empty, and the error kind must belong to it; spans: non-empty, inside the source, on char boundaries, label errors cover a spelling of an offending label".into();
}

/// C23: symbol-table queries
pub fn c23(out: &mut Out, ex: &mut Exec, seed: u64, thorough: bool) {
    let mut rng = Rng::new(seed); let n = if thorough { 30_000 } else { 2_000 }; let mut seen = HashSet::new();
    let rc = |rng: &mut Rng, s: &str| -> String { s.chars().map(|c| if rng.bool() { c.to_ascii_uppercase() } else { c.to_ascii_lowercase() }).collect() };
    for _ in 0..n {
        let mut stmts = gen_single(&mut rng, 16, true);
        // repeated labels on one address, in another case
        if rng.chance(1, 3) { let l = layout(&stmts); if let Some((_, v)) = l.binds.iter().find(|(_, v)| !v.1) { let name = v.2.clone(); if let Some(s) = stmts.iter_mut().find(|s| s.labels.iter().any(|x| *x == name)) { s.labels.push(rc(&mut rng, &name)); } } }
        let exp = expected(&stmts);
        let text = render(&mut rng, &stmts);
        let line = format!("asm s 1 {}", hx(&text));
        let r = run(out, ex, &line);
        if !r.starts_with("ok ") { out.fail(out.lines, format!("well-formed program rejected: {r}"), line.clone()); continue; }
        let got: BTreeMap<String, (u16, bool)> = dump_labels(&r).into_iter().map(|(n, a, _, e)| (n, (a, e))).collect();
        if got != exp.labels { out.fail(out.lines, format!("label listing differs: got {:?} want {:?}", got, exp.labels), line.clone()); }
        let srcs: BTreeMap<String, usize> = dump_labels(&r).into_iter().map(|(n, _, s, _)| (n, s)).collect();
        for (name, (addr, _ext)) in &exp.labels {
            for _ in 0..2 {
                let q = rc(&mut rng, name);
                let a = run(out, ex, &format!("oq s lookup {}", hx(&q))); out.evaluations += 1;
                if a != format!("{:04x}", addr) { out.fail(out.lines, format!("lookup_label({q:?}) = {a}, expected {:04x}", addr), format!("{line}\noq s lookup {}", hx(&q))); }
                let sp = run(out, ex, &format!("oq s src {}", hx(&q))); out.evaluations += 1;
                match sp.split_once("..").and_then(|(a, b)| Some((a.parse::<usize>().ok()?, b.parse::<usize>().ok()?))) {
                    Some((a, b)) if a <= b && b <= text.len() && text.is_char_boundary(a) && text.is_char_boundary(b) => {
                        if up(&text[a..b]) != *name { out.fail(out.lines, format!("get_label_source({q:?}) covers {:?}, not a spelling of {name}", &text[a..b]), format!("{line}\noq s src {}", hx(&q))); }
                        // first occurrence: no earlier definition or declaration of the name
                        if srcs.get(name) != Some(&a) { out.fail(out.lines, format!("get_label_source({q:?}) starts at {a}, table says {:?}", srcs.get(name)), line.clone()); }
                        let first = first_occurrence(&text, name);
                        if first != Some(a) { out.fail(out.lines, format!("get_label_source({q:?}) = {a}..{b} is not the label's first occurrence as a definition/declaration ({first:?}) in {text:?}"), format!("{line}\noq s src {}", hx(&q))); }
                    }
                    _ => out.fail(out.lines, format!("get_label_source({q:?}) = {sp} for a label of the program"), format!("{line}\noq s src {}", hx(&q))),
                }
            }
            let rv = run(out, ex, &format!("oq s rev {:04x}", addr)); out.evaluations += 1;
            let want: BTreeSet<String> = exp.labels.iter().filter(|(_, v)| v.0 == *addr).map(|(k, _)| k.clone()).collect();
            let gotset: BTreeSet<String> = rv.trim_matches(|c| c == '[' || c == ']').split(',').filter(|x| !x.is_empty()).map(unhex_str).collect();
            if gotset != want { out.fail(out.lines, format!("labels recorded at {:04x}: {:?}, expected {:?}", addr, gotset, want), line.clone()); }
            // the real rev_lookup_label result must be one of them
            if let Some(o) = ex.objs.get("s") { if let Some(t) = o.symbol_table() { match t.rev_lookup_label(*addr) { Some(l) if want.contains(l) => {}, other => out.fail(out.lines, format!("rev_lookup_label({:04x}) = {:?}, not a label recorded there ({:?})", addr, other, want), line.clone()) } } }
        }
        for bogus in ["NOSUCH", "q_q_q", ""] { if exp.labels.contains_key(&up(bogus)) { continue; }
            let a = run(out, ex, &format!("oq s lookup {}", hx(bogus))); let b = run(out, ex, &format!("oq s src {}", hx(bogus))); out.evaluations += 2;
            if a != "none" || b != "none" { out.fail(out.lines, format!("queries for the absent name {bogus:?} answered {a} / {b}"), line.clone()); } }
        if seen.insert(text.clone()) { out.nontrivial += 1; }
        out.hist.hit(&format!("labels_{}", exp.labels.len().min(6)));
    }
    out.rule = "generated programs (ASCII labels in mixed case, repeated labels on one address, labels on .end lines, .external declarations), assembled with debug symbols; for every label, under two random-case spellings: lookup_label, get_label_source (span text = a spelling of the label, = its first defining occurrence), labels recorded at its address (real rev_lookup_label must return one of them), full listing with addresses and external flags; absent names answer nothing; all answers also compared with the model".into();
}

/// byte offset of the first occurrence of `name` (case-insensitive) as a label definition or .external operand: the first token
/// equal to the name that is not an instruction operand. Approximated textually: the first whole-word match outside comments
/// and string literals whose previous token is not a comma-or-mnemonic operand position.
pub fn first_occurrence(text: &str, name: &str) -> Option<usize> {
    // tokenise roughly: words of [A-Za-z0-9_], skipping comments and strings; remember whether a word starts a statement or follows `.external`
    let b = text.as_bytes(); let mut i = 0; let mut line_tokens: Vec<(usize, String)> = vec![]; let mut best: Option<usize> = None;
    let flush = |toks: &mut Vec<(usize, String)>, best: &mut Option<usize>| {
        // labels = leading words before the first keyword/directive; operand of .external
        let kw = ["ADD", "AND", "NOT", "BR", "BRP", "BRZ", "BRZP", "BRN", "BRNP", "BRNZ", "BRNZP", "JMP", "JSR", "JSRR", "LD", "LDI", "LDR", "LEA", "ST", "STI", "STR", "TRAP", "NOP", "RET", "RTI", "GETC", "OUT", "PUTC", "PUTS", "IN", "PUTSP", "HALT"];
        let mut k = 0;
        while k < toks.len() { let t = up(&toks[k].1); if t.starts_with('.') || kw.contains(&t.as_str()) { break; } if t == up(name) && best.is_none() { *best = Some(toks[k].0); } k += 1; }
        if k < toks.len() && up(&toks[k].1) == ".EXTERNAL" && k + 1 < toks.len() && up(&toks[k + 1].1) == up(name) && best.is_none() { *best = Some(toks[k + 1].0); }
        toks.clear();
    };
    // statements may continue after a label-only line, so only flush at a line end that follows a keyword/directive; simpler: treat the whole text
    // as one token stream and restart "statement start" after each nucleus line end.
    let mut nucleus_seen = false;
    while i < b.len() {
        let c = b[i] as char;
        if c == ';' { while i < b.len() && b[i] != b'\n' { i += 1; } continue; }
        if c == '"' { i += 1; while i < b.len() && b[i] != b'"' && b[i] != b'\n' { if b[i] == b'\\' { i += 1; } i += 1; } i += 1; continue; }
        if c == '\n' { if nucleus_seen { flush(&mut line_tokens, &mut best); nucleus_seen = false; } i += 1; continue; }
        if c.is_ascii_alphanumeric() || c == '_' || c == '.' || c == '#' || c == '-' {
            let st = i; i += 1; while i < b.len() && ((b[i] as char).is_ascii_alphanumeric() || b[i] == b'_') { i += 1; }
            let w = text[st..i].to_string();
            let u = up(&w);
            if u.starts_with('.') || ["ADD", "AND", "NOT", "BR", "BRP", "BRZ", "BRZP", "BRN", "BRNP", "BRNZ", "BRNZP", "JMP", "JSR", "JSRR", "LD", "LDI", "LDR", "LEA", "ST", "STI", "STR", "TRAP", "NOP", "RET", "RTI", "GETC", "OUT", "PUTC", "PUTS", "IN", "PUTSP", "HALT"].contains(&u.as_str()) { nucleus_seen = true; }
            line_tokens.push((st, w)); continue;
        }
        i += 1;
    }
    flush(&mut line_tokens, &mut best);
    best
}

/// C24: line ↔ address mapping
pub fn c24(out: &mut Out, ex: &mut Exec, seed: u64, thorough: bool) {
    let mut rng = Rng::new(seed); let n = if thorough { 40_000 } else { 2_500 }; let mut seen = HashSet::new();
    for _ in 0..n {
        let stmts = gen_single(&mut rng, 18, true);
        let l = layout(&stmts);
        let text = render(&mut rng, &stmts);
        let line = format!("asm s 1 {}", hx(&text));
        let r = run(out, ex, &line);
        if !r.starts_with("ok ") { out.fail(out.lines, format!("well-formed program rejected: {r}"), line.clone()); continue; }
        // line of each statement's nucleus, from the real parser's spans (C03 checks those)
        let ast = lc3_ensemble::parse::parse_ast(&text).expect("parsed above");
        let mut want: BTreeMap<usize, u16> = BTreeMap::new();
        for (s, st) in stmts.iter().zip(ast.iter()) { if s.size > 0 { let ln = text[..st.span.start].matches('\n').count(); want.insert(ln, l.addr[stmts.iter().position(|x| std::ptr::eq(x, s)).unwrap()].unwrap() as u16); } }
        let got: BTreeMap<usize, u16> = dump_lines(&r).into_iter().collect();
        out.evaluations += 1;
        if got != want { out.fail(out.lines, format!("line map {:?} differs from statements-with-memory {:?} in {text:?}", got, want), line.clone()); }
        let addrs: BTreeSet<u16> = got.values().copied().collect();
        if addrs.len() != got.len() { out.fail(out.lines, format!("two lines map to one address: {:?}", got), line.clone()); }
        let nlines = text.matches('\n').count() + 1;
        for ln in 0..nlines + 2 { let a = run(out, ex, &format!("oq s line {ln}")); out.evaluations += 1;
            let w = want.get(&ln).map(|a| format!("{:04x}", a)).unwrap_or("none".into());
            if a != w { out.fail(out.lines, format!("lookup_line({ln}) = {a}, expected {w}"), format!("{line}\noq s line {ln}")); } }
        for (ln, a) in &want { let r2 = run(out, ex, &format!("oq s revline {:04x}", a)); out.evaluations += 1; if r2 != ln.to_string() { out.fail(out.lines, format!("rev_lookup_line({:04x}) = {r2}, expected {ln}", a), format!("{line}\noq s revline {:04x}", a)); } }
        for probe in [0u16, 0x2FFF, 0xFFFF] { if !addrs.contains(&probe) { let r2 = run(out, ex, &format!("oq s revline {:04x}", probe)); if r2 != "none" { out.fail(out.lines, format!("rev_lookup_line({:04x}) = {r2} for an address no statement starts at", probe), line.clone()); } } }
        if stmts.iter().any(|s| mn(s) == ".EXTERNAL") { out.hist.hit("with_external"); }
        if seen.insert(text.clone()) { out.nontrivial += 1; }
    }
    out.rule = "generated programs (statements on varied lines, label-only lines, comments, blank lines, CRLF, .blkw/.stringz of varied sizes, .external inside and outside blocks), assembled with debug symbols; oracle: the line map equals {line of each statement that occupies memory -> its first address} (lines from the parser's spans, addresses from the reference layout), is injective, lookup_line/rev_lookup_line agree with it for every line (+2 past the end) and every mapped address; everything also compared with the model".into();
}

/// C21: external references never silently unresolved
pub fn c21(out: &mut Out, ex: &mut Exec, seed: u64, thorough: bool) {
    let mut rng = Rng::new(seed); let n = if thorough { 30_000 } else { 2_000 }; let mut seen = HashSet::new();
    for i in 0..n {
        let k = rng.below(3) as usize; let names = fresh_names(&mut rng, k, &[]);
        let k = 1 + rng.below(2) as usize; let externals = fresh_names(&mut rng, k, &names);
        let mut user = gen_file(&mut rng, &FileCfg { origins: vec![0x3000, 0x3800], names: names.clone(), externals: externals.clone(), max_stmts: 12, data_bias: 4 });
        // make sure every external is used at least once
        for e in &externals { if !user.iter().any(|s| mn(s) == ".FILL" && matches!(&s.ops[0], Op::Lbl(n) if up(n) == up(e))) { let pos = user.iter().rposition(|s| mn(s) == ".END").unwrap(); user.insert(pos, GStmt { labels: vec![], mnem: ".fill".into(), ops: vec![Op::Lbl(e.clone())], size: 1 }); } }
        let exp = expected(&user);
        let utext = render(&mut rng, &user);
        let dbg = i % 2;
        let l1 = format!("asm u {dbg} {}", hx(&utext)); let r1 = run(out, ex, &l1); out.evaluations += 1;
        if !r1.starts_with("ok ") { out.fail(out.lines, format!("program with externals rejected: {r1} :: {utext:?}"), l1.clone()); continue; }
        let decl_pos = user.iter().position(|s| mn(s) == ".EXTERNAL").unwrap(); let use_pos = user.iter().position(|s| mn(s) == ".FILL" && matches!(&s.ops[0], Op::Lbl(n) if externals.iter().any(|e| up(e) == up(n)))).unwrap();
        out.hist.hit(if decl_pos < use_pos { "declared_before_first_use" } else { "declared_after_first_use" }); out.hist.hit(if dbg == 1 { "debug" } else { "no_debug" });
        run(out, ex, "sim new 0 0 0 0 0");
        let ld = run(out, ex, "oload u"); out.evaluations += 1;
        if ld != "err:unresolved" { out.fail(out.lines, format!("loading a file with unresolved external {:?} answered `{ld}` (debug={dbg}) :: {utext:?}", externals), format!("{l1}\nsim new 0 0 0 0 0\noload u")); }
        let mut rel = dump_rel(&r1); rel.sort(); if rel != exp.rel { out.fail(out.lines, format!("relocation entries {:?}, expected {:?} :: {utext:?}", rel, exp.rel), l1.clone()); }
        // definer: defines every external at a known address
        let mut def = vec![GStmt { labels: vec![], mnem: ".orig".into(), ops: vec![Op::ImmU(0x5000)], size: 0 }];
        for e in &externals { for _ in 0..rng.below(3) { def.push(gen_instr(&mut rng, &[])); } let mut s = gen_data(&mut rng, &[]); s.labels.push(if rng.bool() { e.to_lowercase() } else { e.clone() }); def.push(s); }
        def.push(GStmt { labels: vec![], mnem: ".end".into(), ops: vec![], size: 0 });
        let dexp = expected(&def); let dtext = render(&mut rng, &def);
        let l2 = format!("asm d 1 {}", hx(&dtext)); let r2 = run(out, ex, &l2);
        if !r2.starts_with("ok ") { out.fail(out.lines, format!("definer rejected: {r2}"), l2.clone()); continue; }
        let (a, b) = if rng.bool() { ("u", "d") } else { ("d", "u") };
        let l3 = format!("link k {a} {b}"); let r3 = run(out, ex, &l3); out.evaluations += 1;
        if !r3.starts_with("ok ") { out.fail(out.lines, format!("link of user and definer failed: {r3}"), format!("{l1}\n{l2}\n{l3}")); continue; }
        // every word that referred to an external now holds the label's address
        let img: BTreeMap<u16, Option<u16>> = parse_blocks(dump_field(&r3, "B").unwrap_or("")).into_iter().flat_map(|(a, ws)| ws.into_iter().enumerate().map(move |(i, w)| (a.wrapping_add(i as u16), w))).collect();
        for (addr, name) in &exp.rel { let want = dexp.labels[name].0; if img.get(addr) != Some(&Some(want)) { out.fail(out.lines, format!("after linking, word x{:04X} (.fill {name}) holds {:?}, expected x{:04X} (debug={dbg}) :: {utext:?}", addr, img.get(addr), want), format!("{l1}\n{l2}\n{l3}")); } }
        if !dump_rel(&r3).is_empty() { out.fail(out.lines, format!("relocations still pending after linking the definer: {:?}", dump_rel(&r3)), format!("{l1}\n{l2}\n{l3}")); }
        run(out, ex, "sim new 0 0 0 0 0"); let ld2 = run(out, ex, "oload k"); out.evaluations += 1;
        if ld2 != "ok" { out.fail(out.lines, format!("loading the fully linked file answered `{ld2}`"), format!("{l1}\n{l2}\n{l3}\nsim new 0 0 0 0 0\noload k")); }
        if seen.insert(utext.clone()) { out.nontrivial += 1; }
        if out.samples.len() < 3 { let mut j = Json::obj(); j.set("user", Json::s(utext)); j.set("definer", Json::s(dtext)); out.sample(j); }
    }
    out.rule = "generated programs with 1-2 .external declarations placed before, between or after their .fill uses (inside or outside blocks), assembled with and without debug symbols; oracle: a relocation entry exists for exactly the .fill words of external labels, loading fails with UnresolvedExternal, after linking (either order) with a generated definer every such word holds the label's address, no relocation is left and loading succeeds; all dumps compared with the model".into();
}

pub fn parse_blocks(f: &str) -> Vec<(u16, Vec<Option<u16>>)> {
    f.split(';').filter(|x| !x.is_empty()).map(|b| { let (a, ws) = b.split_once(':').unwrap(); (u16::from_str_radix(a, 16).unwrap(), ws.split(',').filter(|x| !x.is_empty()).map(|w| if w == "_" { None } else { Some(u16::from_str_radix(w, 16).unwrap()) }).collect()) }).collect()
}
