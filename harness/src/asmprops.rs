//! Generators + oracles for the assembler-side properties: C01 C02 C21 C23 C24 C26 (single file), C20 C22 (linking),
//! C17 C18 C19 (object formats), C07 (disassemble → reassemble).
use crate::util::*;
use crate::exec::Exec;
use crate::c25::hexs;
use crate::proggen::*;
use crate::asmgen::*;
use std::collections::{BTreeMap, BTreeSet, HashSet};

fn hx(s: &str) -> String { hexs(s.as_bytes()) }
fn unhex_str(h: &str) -> String { if h == "-" { String::new() } else { String::from_utf8(crate::c25::unhex(h).unwrap_or_default()).unwrap_or_default() } }
fn run(out: &mut Out, ex: &mut Exec, l: &str) -> String { let r = ex.line(l); out.op(l, &r); r }

/// labels of a dump line as (NAME, addr, src_start, ext)
pub fn dump_labels(d: &str) -> Vec<(String, u16, usize, bool)> {
    let Some(f) = dump_field(d, "L") else { return vec![] };
    f.split(',').filter(|x| !x.is_empty()).map(|e| { let p: Vec<&str> = e.split(':').collect(); (unhex_str(p[0]), u16::from_str_radix(p[1], 16).unwrap(), p[2].parse().unwrap(), p[3] == "1") }).collect()
}
pub fn dump_rel(d: &str) -> Vec<(u16, String)> {
    let Some(f) = dump_field(d, "R") else { return vec![] };
    f.split(',').filter(|x| !x.is_empty()).map(|e| { let (a, n) = e.split_once(':').unwrap(); (u16::from_str_radix(a, 16).unwrap(), unhex_str(n)) }).collect()
}
pub fn dump_lines(d: &str) -> Vec<(usize, u16)> {
    let Some(f) = dump_field(d, "M") else { return vec![] };
    f.split(',').filter(|x| !x.is_empty()).flat_map(|e| { let (l, a) = e.split_once(':').unwrap(); let l: usize = l.parse().unwrap(); a.split('.').filter(|x| !x.is_empty()).enumerate().map(move |(i, w)| (l.wrapping_add(i), u16::from_str_radix(w, 16).unwrap())).collect::<Vec<_>>() }).collect()
}
pub fn dump_src(d: &str) -> Option<String> { let i = d.find("] T")?; let h = d[i + 3..].trim_end_matches(']'); Some(unhex_str(h)) }

/// C01: assembled image = reference encoding
pub fn c01(out: &mut Out, ex: &mut Exec, seed: u64, thorough: bool) {
    NON_ASCII_LITERALS.with(|c| c.set(true));
    let mut rng = Rng::new(seed); let n = if thorough { 60_000 } else { 3_000 }; let mut seen = HashSet::new();
    for i in 0..n {
        // every fourth program uses labels with non-ASCII letters in both cases (keys go through Unicode upper-casing)
        NON_ASCII_LABELS.with(|c| c.set(i % 4 == 3));
        // every third program may have two blocks that touch (one starts where another ends), in either source order
        TOUCH_BLOCKS.with(|c| c.set(i % 3 == 1));
        let stmts = gen_single(&mut rng, 30, true);
        TOUCH_BLOCKS.with(|c| c.set(false));
        let exp = expected(&stmts);
        let text = render(&mut rng, &stmts);
        let dbg = i % 2;
        let r = run(out, ex, &format!("asm s {dbg} {}", hx(&text))); out.evaluations += 1;
        if !r.starts_with("ok ") { out.fail(out.lines, format!("well-formed program rejected: {r} :: {text:?}"), format!("asm s {dbg} {}", hx(&text))); continue; }
        let want = dump_blocks(&exp.blocks);
        if dump_field(&r, "B") != Some(&want) { out.fail(out.lines, format!("image differs from the reference encoding: got B[{}] want B[{}] for {:?}", dump_field(&r, "B").unwrap_or("?"), want, text), format!("asm s {dbg} {}", hx(&text))); }
        let has_ext = exp.labels.values().any(|v| v.1);
        if dbg == 1 || has_ext {
            let got: BTreeMap<String, (u16, bool)> = dump_labels(&r).into_iter().map(|(n, a, _, e)| (n, (a, e))).collect();
            if got != exp.labels { out.fail(out.lines, format!("label table differs: got {:?} want {:?} for {:?}", got, exp.labels, text), format!("asm s {dbg} {}", hx(&text))); }
            let mut rel = dump_rel(&r); rel.sort();
            if rel != exp.rel { out.fail(out.lines, format!("relocation table differs: got {:?} want {:?}", rel, exp.rel), format!("asm s {dbg} {}", hx(&text))); }
        } else if !r.contains("S[none]") { out.fail(out.lines, "assemble() without debug symbols and without externals kept a symbol table".into(), format!("asm s {dbg} {}", hx(&text))); }
        for s in &stmts { out.hist.hit(&format!("stmt_{}", mn(s))); }
        out.hist.hit(&format!("blocks_{}", exp.blocks.len())); if has_ext { out.hist.hit("with_externals"); }
        if exp.blocks.iter().any(|b| b.0 as u32 + b.1.len() as u32 == 0xFE00) { out.hist.hit("block_ends_at_fe00"); }
        if seen.insert(text.clone()) { out.nontrivial += 1; }
        if out.samples.len() < 4 { let mut j = Json::obj(); j.set("source", Json::s(text)); j.set("image", Json::s(want)); out.sample(j); }
    }
    out.rule = "programs from the statement grammar (every opcode, alias and directive; operands at, inside and at the limits of their fields; forward/backward label operands in random case; 1-3 blocks at origins x0000..xFA00 and blocks ending exactly at xFE00; labels on .end; .external before/between/after uses, inside and outside blocks), random surface syntax, assembled with and without debug symbols; the object dump (blocks, labels, externals, relocations, line map) compared with the model and the block/label/relocation part with a reference encoder written from the ISA tables".into();
}

/// C02 + C26: accepted exactly when well-formed; error kinds name a violated condition; spans well-formed
pub fn c02(out: &mut Out, ex: &mut Exec, seed: u64, thorough: bool, check_spans: bool) {
    let mut rng = Rng::new(seed); let n = if thorough { 80_000 } else { 5_000 }; let mut seen = HashSet::new();
    for i in 0..n {
        // every fourth program uses labels with non-ASCII letters (not in the span-checking variant: finding F21 has its own stream)
        if !check_spans { NON_ASCII_LABELS.with(|c| c.set(i % 4 == 3)); }
        NON_ASCII_LITERALS.with(|c| c.set(i % 2 == 1));
        TOUCH_BLOCKS.with(|c| c.set(i % 3 == 1));
        let mut stmts = gen_single(&mut rng, 14, true);
        TOUCH_BLOCKS.with(|c| c.set(false));
        let mut nf = match i % 5 { 0 => 0, 1 | 2 | 3 => 1, _ => 2 + rng.below(2) };
        // a name both declared `.external` and defined at x0000 is bound to one address only (an external declaration
        // counts as address 0): well-formed, in either order of declaration and definition
        if i % 29 == 11 {
            let name = label_name(&mut rng);
            let ext = GStmt { labels: vec![], mnem: ".external".into(), ops: vec![Op::Lbl(if rng.bool() { name.clone() } else { name.to_uppercase() })], size: 0 };
            let mut first = gen_instr(&mut rng, &[]); first.labels.push(name.clone());
            let mut blk = vec![GStmt { labels: vec![], mnem: ".orig".into(), ops: vec![Op::ImmU(0)], size: 0 }, first];
            for _ in 0..rng.below(4) { blk.push(gen_instr(&mut rng, &[])); }
            blk.push(GStmt { labels: vec![], mnem: ".end".into(), ops: vec![], size: 0 });
            stmts = if rng.bool() { let mut v = vec![ext]; v.extend(blk); v } else { blk.push(ext); blk };
            nf = 0; out.hist.hit("external_and_defined_at_zero");
        }
        let mut faults = vec![]; for _ in 0..nf { faults.push(inject_fault(&mut rng, &mut stmts)); }
        let l = layout(&stmts);
        let text = render(&mut rng, &stmts);
        let dbg = rng.below(2);
        let line = format!("asm s {dbg} {}", hx(&text));
        let r = run(out, ex, &line); out.evaluations += 1;
        for f in &faults { out.hist.hit(&format!("fault_{}", f.replace(' ', "_"))); }
        if r.starts_with("panic") { out.fail(out.lines, format!("assembler panicked: {r} :: {text:?}"), line.clone()); continue; }
        if r.starts_with("perr") { out.fail(out.lines, format!("generated program did not parse: {r} :: {text:?}"), line.clone()); continue; }
        let ok = r.starts_with("ok ");
        if ok != l.bad.is_empty() { out.fail(out.lines, format!("accepted={ok} but violated conditions = {:?} (faults {:?}) :: {text:?} -> {}", l.bad, faults, r.chars().take(120).collect::<String>()), line.clone()); }
        else if !ok {
            let mut it = r.split(' '); it.next(); let kind = it.next().unwrap_or("?"); let spans = it.next().unwrap_or("");
            let cls = kind_class(kind);
            if !l.bad.contains(cls) { out.fail(out.lines, format!("error kind `{kind}` names no violated condition (violated: {:?}, faults {:?}) :: {text:?}", l.bad, faults), line.clone()); }
            out.hist.hit(&format!("err_{kind}"));
            if check_spans {
                if r.starts_with("panic-in-span") { out.fail(out.lines, format!("querying the error's spans panicked: {r}"), line.clone()); }
                let sp: Vec<(usize, usize)> = spans.split(',').filter(|x| !x.is_empty()).filter_map(|x| x.split_once("..")).map(|(a, b)| (a.parse().unwrap_or(usize::MAX), b.parse().unwrap_or(0))).collect();
                if sp.is_empty() { out.fail(out.lines, format!("error `{kind}` carries no span"), line.clone()); }
                for &(a, b) in &sp { if !(a <= b && b <= text.len() && text.is_char_boundary(a) && text.is_char_boundary(b)) { out.fail(out.lines, format!("span {a}..{b} of `{kind}` not inside the {}-byte source", text.len()), line.clone()); } }
                if matches!(kind, "duplabel" | "nolabel" | "offs9" | "offs11" | "offext" | "undetlabel") {
                    for &(a, b) in &sp { if a <= b && b <= text.len() && text.is_char_boundary(a) && text.is_char_boundary(b) {
                        let t = up(&text[a..b]);
                        let is_label = if kind == "undetlabel" { l.binds.is_empty() || true } else { l.culprit_labels.contains(&t) };
                        let looks = !t.is_empty() && t.chars().all(|c| c.is_alphanumeric() || c == '_');
                        if !(is_label && looks) { out.fail(out.lines, format!("span {a}..{b} = {:?} of `{kind}` is not a spelling of an offending label ({:?})", &text[a..b], l.culprit_labels), line.clone()); }
                    } }
                }
            }
        } else { out.hist.hit("accepted"); }
        if seen.insert(text.clone()) { out.nontrivial += 1; }
        if out.samples.len() < 5 && nf > 0 { let mut j = Json::obj(); j.set("source", Json::s(text)); j.set("faults", Json::s(format!("{faults:?}"))); j.set("result", Json::s(r.chars().take(100).collect::<String>())); out.sample(j); }
    }
    if check_spans {
        // non-ASCII labels: upper-casing may change the byte length of the name (known finding F21 when it does)
        let mut f21 = 0;
        for i in 0..if thorough { 3000 } else { 300 } {
            let ch = *rng.pick(&['ŉ', 'ǰ', 'ﬁ', 'ß', 'é', 'ΐ', 'ſ', 'ı', 'ö', 'ǆ']);
            let name: String = format!("{}{}{}", rng.pick(&["L", "x_", "Lab"]), ch, if rng.bool() { "2" } else { "" });
            let changes = name.to_uppercase().len() != name.len();
            let pad = " ".repeat(rng.below(3) as usize);
            let text = if i % 2 == 0 { format!(".orig x3000\n{pad}{name} ADD R0,R0,#0\n{name}: ADD R0,R0,#1\n.end") } else { format!(".orig x3000\n{name}\n ADD R0,R0,#0\n.external {name}\n.end") };
            let line = format!("asm s 1 {}", hx(&text));
            let r = run(out, ex, &line); out.evaluations += 1;
            let mut it = r.split(' '); it.next(); let kind = it.next().unwrap_or("?"); let spans = it.next().unwrap_or("");
            if kind != "duplabel" { out.fail(out.lines, format!("duplicate non-ASCII label not rejected as duplabel: {r} :: {text:?}"), line.clone()); continue; }
            for x in spans.split(',') { let Some((a, b)) = x.split_once("..") else { continue }; let (a, b): (usize, usize) = (a.parse().unwrap_or(usize::MAX), b.parse().unwrap_or(0));
                let ok = a <= b && b <= text.len() && text.is_char_boundary(a) && text.is_char_boundary(b) && up(&text[a..b]) == up(&name);
                if !ok { let tag = if changes { "F21:uppercase-changes-byte-length " } else { "" };
                    if changes { f21 += 1; if f21 > 3 { continue; } }
                    out.fail(out.lines, format!("{tag}span {a}..{b} of duplabel does not cover the label {name:?} (upper-cased {:?}) in {text:?}", name.to_uppercase()), line.clone()); } }
            out.hist.hit(if changes { "nonascii_label_length_changing" } else { "nonascii_label_same_length" });
        }
    }
    if check_spans {
        // failing links: the error's spans must be queryable (first(), iter()) without panicking
        for _ in 0..if thorough { 2000 } else { 250 } {
            let k = 2 + rng.below(2) as usize; let set = gen_linkset(&mut rng, k, false);
            if link_expect(&set.files).ok { continue; }
            let mut pre = String::new(); let mut okasm = true;
            for (j, f) in set.files.iter().enumerate() { let t = render(&mut rng, f); let l = format!("asm f{j} 1 {}", hx(&t)); let r = run(out, ex, &l); pre.push_str(&l); pre.push('\n'); if !r.starts_with("ok ") { okasm = false; } }
            if !okasm { continue; }
            let mut acc = "f0".to_string();
            for j in 1..k { let dst = format!("t{j}"); let l = format!("link {dst} {acc} f{j}"); let r = run(out, ex, &l); out.evaluations += 1; pre.push_str(&l); pre.push('\n');
                if r.starts_with("panic") { out.fail(out.lines, format!("a failing link() gave an error whose spans cannot be queried: {r} ({:?})", set.note), pre.clone()); break; }
                if r.starts_with("aerr") { out.hist.hit(&format!("link_err_{}", r.split(' ').nth(1).unwrap_or("?"))); break; }
                acc = dst; }
        }
    }
    out.rule = "generated programs with 0 (20%), 1 (60%) or 2-3 (20%) injected faults of 14 kinds (missing/extra .end, missing/nested .orig, statements and labels outside blocks, duplicate labels in another case, undefined labels, a label exactly at and exactly one past the reach of 9- and 11-bit offsets in both directions, blocks ending at/after xFE00 and x10000 incl. one-statement jumps, touching and overlapping blocks, external labels in PC-relative operands), assembled with and without debug symbols; oracle: an independent scan computes the set of violated conditions; accepted iff the set is empty, and the error kind must belong to it; spans: non-empty, inside the source, on char boundaries, label errors cover a spelling of an offending label".into();
}

/// C23: symbol-table queries
pub fn c23(out: &mut Out, ex: &mut Exec, seed: u64, thorough: bool) {
    let mut rng = Rng::new(seed); let n = if thorough { 30_000 } else { 2_000 }; let mut seen = HashSet::new();
    NON_ASCII_LABELS.with(|c| c.set(true));
    // string literals with multi-byte characters: a label after one sits at start + UTF-8 bytes
    NON_ASCII_LITERALS.with(|c| c.set(true));
    // random case, Unicode-aware (the generated non-ASCII letters have single-character case mappings of equal UTF-8 length)
    let rc = |rng: &mut Rng, s: &str| -> String { s.chars().map(|c| if rng.bool() { c.to_uppercase().next().unwrap() } else { c.to_lowercase().next().unwrap() }).collect() };
    // for labels with letters whose upper-casing changes the byte length only the ASCII letters change case (the query keeps the
    // byte length of the spelling, as the property's "span text is the label's first occurrence" needs)
    let rc_full = |rng: &mut Rng, s: &str| -> String { s.chars().map(|c| if rng.bool() { c.to_uppercase().next().unwrap() } else { c.to_lowercase().next().unwrap() }).collect() };
    let rc_ascii = |rng: &mut Rng, s: &str| -> String { s.chars().map(|c| if !c.is_ascii() { c } else if rng.bool() { c.to_ascii_uppercase() } else { c.to_ascii_lowercase() }).collect() };
    for i in 0..n {
        let lenchg = i % 4 == 3;
        crate::proggen::LEN_CHANGING_LABELS.with(|c| c.set(lenchg));
        let rc = |rng: &mut Rng, s: &str| -> String { if lenchg { rc_ascii(rng, s) } else { rc(rng, s) } };
        let mut stmts = gen_single(&mut rng, 16, true);
        // repeated labels on one address, in another case
        if rng.chance(1, 3) { let l = layout(&stmts); if let Some((_, v)) = l.binds.iter().find(|(_, v)| !v.1) { let name = v.2.clone(); if let Some(s) = stmts.iter_mut().find(|s| s.labels.iter().any(|x| *x == name)) { s.labels.push(rc(&mut rng, &name)); } } }
        let exp = expected(&stmts);
        let text = render(&mut rng, &stmts);
        let line = format!("asm s 1 {}", hx(&text));
        let r = run(out, ex, &line);
        if !r.starts_with("ok ") { out.fail(out.lines, format!("well-formed program rejected: {r}"), line.clone()); continue; }
        let got: BTreeMap<String, (u16, bool)> = dump_labels(&r).into_iter().map(|(n, a, _, e)| (n, (a, e))).collect();
        if got != exp.labels { out.fail(out.lines, format!("label listing differs: got {:?} want {:?}", got, exp.labels), line.clone()); }
        let srcs: BTreeMap<String, usize> = dump_labels(&r).into_iter().map(|(n, _, s, _)| (n, s)).collect();
        let first_spelling: BTreeMap<String, String> = layout(&stmts).binds.iter().map(|(k, v)| (k.clone(), v.2.clone())).collect();
        for (name, (addr, _ext)) in &exp.labels {
            for qi in 0..2 {
                // length-changing programs: one query is the first spelling with its ASCII letters in random case (must work
                // exactly), the other a random-case spelling of the upper-cased name, whose byte length may differ from the
                // spelling in the text: get_label_source takes the span length from the query (finding F23)
                let spelled = first_spelling.get(name).cloned().unwrap_or_else(|| name.clone());
                let q = if lenchg && qi == 0 { rc_ascii(&mut rng, &spelled) } else if lenchg { rc_full(&mut rng, name) } else { rc(&mut rng, name) };
                let f23 = if q.len() != spelled.len() { "F23:query-spelling-of-different-byte-length " } else { "" };
                let a = run(out, ex, &format!("oq s lookup {}", hx(&q))); out.evaluations += 1;
                if a != format!("{:04x}", addr) { out.fail(out.lines, format!("lookup_label({q:?}) = {a}, expected {:04x}", addr), format!("{line}\noq s lookup {}", hx(&q))); }
                let sp = run(out, ex, &format!("oq s src {}", hx(&q))); out.evaluations += 1;
                match sp.split_once("..").and_then(|(a, b)| Some((a.parse::<usize>().ok()?, b.parse::<usize>().ok()?))) {
                    Some((a, b)) if a <= b && b <= text.len() && text.is_char_boundary(a) && text.is_char_boundary(b) => {
                        if up(&text[a..b]) != *name { out.fail(out.lines, format!("{f23}get_label_source({q:?}) covers {:?}, not a spelling of {name}", &text[a..b]), format!("{line}\noq s src {}", hx(&q))); }
                        // first occurrence: no earlier definition or declaration of the name
                        if srcs.get(name) != Some(&a) { out.fail(out.lines, format!("get_label_source({q:?}) starts at {a}, table says {:?}", srcs.get(name)), line.clone()); }
                        let first = first_occurrence(&text, name);
                        if first != Some(a) { out.fail(out.lines, format!("get_label_source({q:?}) = {a}..{b} is not the label's first occurrence as a definition/declaration ({first:?}) in {text:?}"), format!("{line}\noq s src {}", hx(&q))); }
                    }
                    _ => out.fail(out.lines, format!("{f23}get_label_source({q:?}) = {sp} for a label of the program"), format!("{line}\noq s src {}", hx(&q))),
                }
            }
            let rv = run(out, ex, &format!("oq s rev {:04x}", addr)); out.evaluations += 1;
            let want: BTreeSet<String> = exp.labels.iter().filter(|(_, v)| v.0 == *addr).map(|(k, _)| k.clone()).collect();
            let gotset: BTreeSet<String> = rv.trim_matches(|c| c == '[' || c == ']').split(',').filter(|x| !x.is_empty()).map(unhex_str).collect();
            if gotset != want { out.fail(out.lines, format!("labels recorded at {:04x}: {:?}, expected {:?}", addr, gotset, want), line.clone()); }
            // the real rev_lookup_label result must be one of them
            if let Some(o) = ex.objs.get("s") { if let Some(t) = o.symbol_table() { match t.rev_lookup_label(*addr) { Some(l) if want.contains(l) => {}, other => out.fail(out.lines, format!("rev_lookup_label({:04x}) = {:?}, not a label recorded there ({:?})", addr, other, want), line.clone()) } } }
        }
        for bogus in ["NOSUCH", "q_q_q", ""] { if exp.labels.contains_key(&up(bogus)) { continue; }
            let a = run(out, ex, &format!("oq s lookup {}", hx(bogus))); let b = run(out, ex, &format!("oq s src {}", hx(bogus))); out.evaluations += 2;
            if a != "none" || b != "none" { out.fail(out.lines, format!("queries for the absent name {bogus:?} answered {a} / {b}"), line.clone()); } }
        if seen.insert(text.clone()) { out.nontrivial += 1; }
        out.hist.hit(&format!("labels_{}", exp.labels.len().min(6)));
    }
    out.rule = "generated programs (labels in mixed case with non-ASCII letters, every fourth program with letters whose upper-casing changes the UTF-8 length; repeated labels on one address, labels on .end lines, .external declarations), assembled with debug symbols; for every label, under two random-case spellings: lookup_label, get_label_source (span text = a spelling of the label, = its first defining occurrence), labels recorded at its address (real rev_lookup_label must return one of them), full listing with addresses and external flags; absent names answer nothing; all answers also compared with the model".into();
}

/// byte offset of the first occurrence of `name` (case-insensitive) as a label definition or .external operand: the first token
/// equal to the name that is not an instruction operand. Approximated textually: the first whole-word match outside comments
/// and string literals whose previous token is not a comma-or-mnemonic operand position.
pub fn first_occurrence(text: &str, name: &str) -> Option<usize> {
    const KW: [&str; 32] = ["ADD", "AND", "NOT", "BR", "BRP", "BRZ", "BRZP", "BRN", "BRNP", "BRNZ", "BRNZP", "JMP", "JSR", "JSRR", "LD", "LDI", "LDR", "LEA", "ST", "STI", "STR", "TRAP", "NOP", "RET", "RTI", "GETC", "OUT", "PUTC", "PUTS", "IN", "PUTSP", "HALT"];
    // words (Unicode alphanumerics, '_', leading '.', '#', '-') outside comments and string literals, statement by statement:
    // a statement = leading label words, then a mnemonic or directive, then operands up to the end of that line
    let cs: Vec<(usize, char)> = text.char_indices().collect();
    let mut i = 0; let mut in_operands = false; let mut after_external = false;
    while i < cs.len() {
        let (pos, c) = cs[i];
        if c == ';' { while i < cs.len() && cs[i].1 != '\n' { i += 1; } continue; }
        if c == '"' { i += 1; while i < cs.len() && cs[i].1 != '"' && cs[i].1 != '\n' { if cs[i].1 == '\\' { i += 1; } i += 1; } i += 1; continue; }
        if c == '\n' { in_operands = false; after_external = false; i += 1; continue; }
        if c.is_alphanumeric() || c == '_' || c == '.' || c == '#' || c == '-' {
            let st = i; i += 1; while i < cs.len() && (cs[i].1.is_alphanumeric() || cs[i].1 == '_') { i += 1; }
            let end = if i < cs.len() { cs[i].0 } else { text.len() };
            let w = up(&text[pos..end]); let _ = st;
            if in_operands { if after_external && w == up(name) { return Some(pos); } after_external = false; continue; }
            if w.starts_with('.') || KW.contains(&w.as_str()) { in_operands = true; after_external = w == ".EXTERNAL"; continue; }
            if w == up(name) { return Some(pos); }
            continue;
        }
        i += 1;
    }
    None
}

/// C24: line ↔ address mapping
pub fn c24(out: &mut Out, ex: &mut Exec, seed: u64, thorough: bool) {
    NON_ASCII_LITERALS.with(|c| c.set(true));
    let mut rng = Rng::new(seed); let n = if thorough { 40_000 } else { 2_500 }; let mut seen = HashSet::new();
    for i in 0..n {
        NON_ASCII_LABELS.with(|c| c.set(i % 3 == 2));
        let stmts = gen_single(&mut rng, 18, true);
        let l = layout(&stmts);
        let text = render(&mut rng, &stmts);
        let line = format!("asm s 1 {}", hx(&text));
        let r = run(out, ex, &line);
        if !r.starts_with("ok ") { out.fail(out.lines, format!("well-formed program rejected: {r}"), line.clone()); continue; }
        // line of each statement's nucleus, from the real parser's spans (C03 checks those)
        let ast = lc3_ensemble::parse::parse_ast(&text).expect("parsed above");
        let mut want: BTreeMap<usize, u16> = BTreeMap::new();
        for (s, st) in stmts.iter().zip(ast.iter()) { if s.size > 0 { let ln = text[..st.span.start].matches('\n').count(); want.insert(ln, l.addr[stmts.iter().position(|x| std::ptr::eq(x, s)).unwrap()].unwrap() as u16); } }
        let got: BTreeMap<usize, u16> = dump_lines(&r).into_iter().collect();
        out.evaluations += 1;
        if got != want { out.fail(out.lines, format!("line map {:?} differs from statements-with-memory {:?} in {text:?}", got, want), line.clone()); }
        let addrs: BTreeSet<u16> = got.values().copied().collect();
        if addrs.len() != got.len() { out.fail(out.lines, format!("two lines map to one address: {:?}", got), line.clone()); }
        let nlines = text.matches('\n').count() + 1;
        for ln in 0..nlines + 2 { let a = run(out, ex, &format!("oq s line {ln}")); out.evaluations += 1;
            let w = want.get(&ln).map(|a| format!("{:04x}", a)).unwrap_or("none".into());
            if a != w { out.fail(out.lines, format!("lookup_line({ln}) = {a}, expected {w}"), format!("{line}\noq s line {ln}")); } }
        for (ln, a) in &want { let r2 = run(out, ex, &format!("oq s revline {:04x}", a)); out.evaluations += 1; if r2 != ln.to_string() { out.fail(out.lines, format!("rev_lookup_line({:04x}) = {r2}, expected {ln}", a), format!("{line}\noq s revline {:04x}", a)); } }
        for probe in [0u16, 0x2FFF, 0xFFFF] { if !addrs.contains(&probe) { let r2 = run(out, ex, &format!("oq s revline {:04x}", probe)); if r2 != "none" { out.fail(out.lines, format!("rev_lookup_line({:04x}) = {r2} for an address no statement starts at", probe), line.clone()); } } }
        if stmts.iter().any(|s| mn(s) == ".EXTERNAL") { out.hist.hit("with_external"); }
        if seen.insert(text.clone()) { out.nontrivial += 1; }
        // every fourth case: two files assembled with debug symbols and linked; the merged source is first + LF + second, so
        // the second file's statements sit count_lines(first) lines further down (also when the first text ends in a line
        // break or is empty of statements' trailing lines)
        if i % 4 == 1 {
            let na = fresh_names(&mut rng, 2, &[]); let nb = fresh_names(&mut rng, 2, &na);
            let fa = gen_file(&mut rng, &FileCfg { origins: vec![0x3000, 0x3400], names: na, externals: vec![], max_stmts: 8, data_bias: 3 });
            let fb = gen_file(&mut rng, &FileCfg { origins: vec![0x5000, 0x5400], names: nb, externals: vec![], max_stmts: 8, data_bias: 3 });
            let (ta, tb) = (render(&mut rng, &fa), render(&mut rng, &fb));
            let l1 = format!("asm la 1 {}", hx(&ta)); let l2 = format!("asm lb 1 {}", hx(&tb)); let l3 = "link lk la lb".to_string();
            let (r1, r2) = (run(out, ex, &l1), run(out, ex, &l2)); let r3 = run(out, ex, &l3); out.evaluations += 1;
            let pre = format!("{l1}\n{l2}\n{l3}");
            if !(r1.starts_with("ok ") && r2.starts_with("ok ") && r3.starts_with("ok ")) { out.fail(out.lines, format!("two well-formed disjoint files did not assemble/link: {} / {} / {}", r1.chars().take(40).collect::<String>(), r2.chars().take(40).collect::<String>(), r3.chars().take(40).collect::<String>()), pre.clone()); continue; }
            let mut want: BTreeMap<usize, u16> = BTreeMap::new();
            let shift = ta.matches('\n').count() + 1;
            for (f, tx, off) in [(&fa, &ta, 0usize), (&fb, &tb, shift)] {
                let lay = layout(f); let ast = lc3_ensemble::parse::parse_ast(tx).expect("parsed above");
                for (k, (s, st)) in f.iter().zip(ast.iter()).enumerate() { if s.size > 0 { want.insert(off + tx[..st.span.start].matches('\n').count(), lay.addr[k].unwrap() as u16); } }
            }
            let got: BTreeMap<usize, u16> = dump_lines(&r3).into_iter().collect();
            if got != want { out.fail(out.lines, format!("line map of the linked file {:?} differs from statements-with-memory {:?} (first source {:?})", got, want, ta), pre.clone()); }
            let nlines = shift + tb.matches('\n').count() + 1;
            for ln in 0..nlines + 2 { let a = run(out, ex, &format!("oq lk line {ln}")); out.evaluations += 1;
                let w = want.get(&ln).map(|a| format!("{:04x}", a)).unwrap_or("none".into());
                if a != w { out.fail(out.lines, format!("linked: lookup_line({ln}) = {a}, expected {w}"), format!("{pre}\noq lk line {ln}")); } }
            for (ln, a) in &want { let r2 = run(out, ex, &format!("oq lk revline {:04x}", a)); out.evaluations += 1; if r2 != ln.to_string() { out.fail(out.lines, format!("linked: rev_lookup_line({:04x}) = {r2}, expected {ln}", a), format!("{pre}\noq lk revline {:04x}", a)); } }
            out.hist.hit("linked_pair"); if ta.ends_with('\n') { out.hist.hit("linked_first_ends_with_newline"); }
        }
    }
    out.rule = "generated programs (statements on varied lines, label-only lines, comments, blank lines, CRLF, .blkw/.stringz of varied sizes, .external inside and outside blocks), assembled with debug symbols; oracle: the line map equals {line of each statement that occupies memory -> its first address} (lines from the parser's spans, addresses from the reference layout), is injective, lookup_line/rev_lookup_line agree with it for every line (+2 past the end) and every mapped address; every fourth case two such files are linked and the same is required of the merged table (second file's lines shifted by the first text's line count); everything also compared with the model".into();
}

/// C21: external references never silently unresolved
pub fn c21(out: &mut Out, ex: &mut Exec, seed: u64, thorough: bool) {
    let mut rng = Rng::new(seed); let n = if thorough { 30_000 } else { 2_000 }; let mut seen = HashSet::new();
    for i in 0..n {
        NON_ASCII_LABELS.with(|c| c.set(i % 3 == 2));
        let k = rng.below(3) as usize; let names = fresh_names(&mut rng, k, &[]);
        let k = 1 + rng.below(2) as usize; let externals = fresh_names(&mut rng, k, &names);
        let mut user = gen_file(&mut rng, &FileCfg { origins: vec![0x3000, 0x3800], names: names.clone(), externals: externals.clone(), max_stmts: 12, data_bias: 4 });
        // make sure every external is used at least once
        for e in &externals { if !user.iter().any(|s| mn(s) == ".FILL" && matches!(&s.ops[0], Op::Lbl(n) if up(n) == up(e))) { let pos = user.iter().rposition(|s| mn(s) == ".END").unwrap(); user.insert(pos, GStmt { labels: vec![], mnem: ".fill".into(), ops: vec![Op::Lbl(e.clone())], size: 1 }); } }
        let exp = expected(&user);
        let utext = render(&mut rng, &user);
        let dbg = i % 2;
        let l1 = format!("asm u {dbg} {}", hx(&utext)); let r1 = run(out, ex, &l1); out.evaluations += 1;
        if !r1.starts_with("ok ") { out.fail(out.lines, format!("program with externals rejected: {r1} :: {utext:?}"), l1.clone()); continue; }
        let decl_pos = user.iter().position(|s| mn(s) == ".EXTERNAL").unwrap(); let use_pos = user.iter().position(|s| mn(s) == ".FILL" && matches!(&s.ops[0], Op::Lbl(n) if externals.iter().any(|e| up(e) == up(n)))).unwrap();
        out.hist.hit(if decl_pos < use_pos { "declared_before_first_use" } else { "declared_after_first_use" }); out.hist.hit(if dbg == 1 { "debug" } else { "no_debug" });
        run(out, ex, "sim new 0 0 0 0 0");
        let ld = run(out, ex, "oload u"); out.evaluations += 1;
        if ld != "err:unresolved" { out.fail(out.lines, format!("loading a file with unresolved external {:?} answered `{ld}` (debug={dbg}) :: {utext:?}", externals), format!("{l1}\nsim new 0 0 0 0 0\noload u")); }
        let mut rel = dump_rel(&r1); rel.sort(); if rel != exp.rel { out.fail(out.lines, format!("relocation entries {:?}, expected {:?} :: {utext:?}", rel, exp.rel), l1.clone()); }
        // definer: defines every external at a known address
        let mut def = vec![GStmt { labels: vec![], mnem: ".orig".into(), ops: vec![Op::ImmU(0x5000)], size: 0 }];
        for e in &externals { for _ in 0..rng.below(3) { def.push(gen_instr(&mut rng, &[])); } let mut s = gen_data(&mut rng, &[]); s.labels.push(if rng.bool() { e.to_lowercase() } else { e.clone() }); def.push(s); }
        def.push(GStmt { labels: vec![], mnem: ".end".into(), ops: vec![], size: 0 });
        let dexp = expected(&def); let dtext = render(&mut rng, &def);
        let l2 = format!("asm d 1 {}", hx(&dtext)); let r2 = run(out, ex, &l2);
        if !r2.starts_with("ok ") { out.fail(out.lines, format!("definer rejected: {r2}"), l2.clone()); continue; }
        let (a, b) = if rng.bool() { ("u", "d") } else { ("d", "u") };
        let l3 = format!("link k {a} {b}"); let r3 = run(out, ex, &l3); out.evaluations += 1;
        if !r3.starts_with("ok ") { out.fail(out.lines, format!("link of user and definer failed: {r3}"), format!("{l1}\n{l2}\n{l3}")); continue; }
        // every word that referred to an external now holds the label's address
        let img: BTreeMap<u16, Option<u16>> = parse_blocks(dump_field(&r3, "B").unwrap_or("")).into_iter().flat_map(|(a, ws)| ws.into_iter().enumerate().map(move |(i, w)| (a.wrapping_add(i as u16), w))).collect();
        for (addr, name) in &exp.rel { let want = dexp.labels[name].0; if img.get(addr) != Some(&Some(want)) { out.fail(out.lines, format!("after linking, word x{:04X} (.fill {name}) holds {:?}, expected x{:04X} (debug={dbg}) :: {utext:?}", addr, img.get(addr), want), format!("{l1}\n{l2}\n{l3}")); } }
        if !dump_rel(&r3).is_empty() { out.fail(out.lines, format!("relocations still pending after linking the definer: {:?}", dump_rel(&r3)), format!("{l1}\n{l2}\n{l3}")); }
        run(out, ex, "sim new 0 0 0 0 0"); let ld2 = run(out, ex, "oload k"); out.evaluations += 1;
        if ld2 != "ok" { out.fail(out.lines, format!("loading the fully linked file answered `{ld2}`"), format!("{l1}\n{l2}\n{l3}\nsim new 0 0 0 0 0\noload k")); }
        // every third case: a second user of the same externals; the two users are linked with each other first (the labels
        // stay external, the relocation entries of both are pending), then the definer is linked in, on either side
        if i % 3 == 0 {
            let mut avoid = names.clone(); avoid.extend(externals.iter().cloned());
            let names2 = fresh_names(&mut rng, 1, &avoid);
            let mut user2 = gen_file(&mut rng, &FileCfg { origins: vec![0x4000], names: names2, externals: externals.clone(), max_stmts: 8, data_bias: 4 });
            for e in &externals { if !user2.iter().any(|s| mn(s) == ".FILL" && matches!(&s.ops[0], Op::Lbl(n) if up(n) == up(e))) { let pos = user2.iter().rposition(|s| mn(s) == ".END").unwrap(); user2.insert(pos, GStmt { labels: vec![], mnem: ".fill".into(), ops: vec![Op::Lbl(e.clone())], size: 1 }); } }
            let exp2 = expected(&user2); let u2text = render(&mut rng, &user2);
            let l4 = format!("asm u2 {dbg} {}", hx(&u2text)); let r4 = run(out, ex, &l4); out.evaluations += 1;
            if r4.starts_with("ok ") {
                let (a, b) = if rng.bool() { ("u", "u2") } else { ("u2", "u") };
                let l5 = format!("link w {a} {b}"); let r5 = run(out, ex, &l5); out.evaluations += 1;
                let pre = format!("{l1}\n{l2}\n{l4}\n{l5}");
                if !r5.starts_with("ok ") { out.fail(out.lines, format!("link of two users of the same externals failed: {r5}"), pre.clone()); }
                else {
                    let mut want: Vec<(u16, String)> = exp.rel.iter().cloned().chain(exp2.rel.iter().cloned()).collect(); want.sort();
                    let mut got = dump_rel(&r5); got.sort();
                    if got != want { out.fail(out.lines, format!("after linking two users the pending relocations are {:?}, expected {:?}", got, want), pre.clone()); }
                    let (a, b) = if rng.bool() { ("w", "d") } else { ("d", "w") };
                    let l6 = format!("link k2 {a} {b}"); let r6 = run(out, ex, &l6); out.evaluations += 1;
                    if !r6.starts_with("ok ") { out.fail(out.lines, format!("link of the two users with the definer failed: {r6}"), format!("{pre}\n{l6}")); }
                    else {
                        let img = image_of(&r6);
                        for (addr, name) in &want { let w = dexp.labels[name].0; if img.get(addr) != Some(&Some(w)) { out.fail(out.lines, format!("two users linked first, then the definer: word x{:04X} (.fill {name}) holds {:?}, expected x{:04X} (debug={dbg})", addr, img.get(addr), w), format!("{pre}\n{l6}")); } }
                        if !dump_rel(&r6).is_empty() { out.fail(out.lines, format!("relocations still pending after linking the definer to two users: {:?}", dump_rel(&r6)), format!("{pre}\n{l6}")); }
                        run(out, ex, "sim new 0 0 0 0 0"); let ld3 = run(out, ex, "oload k2"); out.evaluations += 1;
                        if ld3 != "ok" { out.fail(out.lines, format!("loading (user+user)+definer answered `{ld3}`"), format!("{pre}\n{l6}\nsim new 0 0 0 0 0\noload k2")); }
                        out.hist.hit("two_users_then_definer");
                    }
                }
            } else { out.fail(out.lines, format!("second user rejected: {r4} :: {u2text:?}"), l4.clone()); }
        }
        if seen.insert(utext.clone()) { out.nontrivial += 1; }
        if out.samples.len() < 3 { let mut j = Json::obj(); j.set("user", Json::s(utext)); j.set("definer", Json::s(dtext)); out.sample(j); }
    }
    out.rule = "generated programs with 1-2 .external declarations placed before, between or after their .fill uses (inside or outside blocks), assembled with and without debug symbols; oracle: a relocation entry exists for exactly the .fill words of external labels, loading fails with UnresolvedExternal, after linking (either order) with a generated definer every such word holds the label's address, no relocation is left and loading succeeds; every third case a second user of the same externals is linked to the first user before the definer (both users' entries pending, then all resolved); all dumps compared with the model".into();
}

pub fn parse_blocks(f: &str) -> Vec<(u16, Vec<Option<u16>>)> {
    f.split(';').filter(|x| !x.is_empty()).map(|b| { let (a, ws) = b.split_once(':').unwrap(); (u16::from_str_radix(a, 16).unwrap(), ws.split(',').filter(|x| !x.is_empty()).map(|w| if w == "_" { None } else { Some(u16::from_str_radix(w, 16).unwrap()) }).collect()) }).collect()
}

/// text of a slot's printed statement for a word (from `disasm`)
fn image_of(dump: &str) -> BTreeMap<u16, Option<u16>> {
    parse_blocks(dump_field(dump, "B").unwrap_or("")).into_iter().flat_map(|(a, ws)| ws.into_iter().enumerate().map(move |(i, w)| (a.wrapping_add(i as u16), w))).collect()
}

/// C07: every word disassembles to text that reassembles to the same word
pub fn c07(out: &mut Out, ex: &mut Exec, seed: u64, thorough: bool) {
    let mut rng = Rng::new(seed);
    let origins = [0x3000u16, 0x0000, 0xFDFF, 0x8123];
    for w in 0..=0xFFFFu32 {
        let d = run(out, ex, &format!("disasm {:04x}", w));
        let t = unhex_str(&d);
        let n_or = if thorough { origins.len() } else if w % 16 == 0 { 2 } else { 1 };
        for k in 0..n_or {
            let o = if thorough { origins[k] } else { origins[(w as usize + k + rng.below(2) as usize) % origins.len()] };
            let src = format!(".orig x{:04X}\n{}\n.end\n", o, t);
            let line = format!("asm s 0 {}", hx(&src));
            let r = run(out, ex, &line); out.evaluations += 1;
            let want = format!("ok B[{:04x}:{:04x}] S[none]", o, w);
            if r != want { out.fail(out.lines, format!("word x{:04X} disassembles to {:?}, which assembles at x{:04X} to `{}`", w, t, o, r.chars().take(80).collect::<String>()), format!("disasm {:04x}\n{line}", w)); }
        }
        let kind = if t.starts_with(".fill") { "fill".to_string() } else { t.split(' ').next().unwrap_or("").to_string() };
        out.hist.hit(&format!("as_{kind}"));
        if w < 0x200 && !t.starts_with(".fill") { out.fail(out.lines, format!("word x{:04X} (< x0200) disassembled as {:?}, not .fill", w, t), format!("disasm {:04x}", w)); }
    }
    for (w, name) in [(0xC1C0u16, "RET"), (0xF025, "HALT"), (0xF020, "GETC"), (0xF021, "PUTC"), (0xF022, "PUTS"), (0xF023, "IN"), (0xF024, "PUTSP"), (0x8000, "RTI")] {
        let t = unhex_str(&ex.line(&format!("disasm {:04x}", w))); if t != name { out.fail(out.lines, format!("alias word x{:04X} printed as {:?}, expected {name}", w, t), format!("disasm {:04x}", w)); } }
    out.exhaustive = true; out.nontrivial = 65536;
    out.rule = format!("all 65536 words: disassemble_line + Display (compared with the model's disassembler/printer), the text assembled inside .orig/.end at {} (origins x3000, x0000, xFDFF, x8123) must give exactly that word; words below x0200 must come back as .fill, alias words by name", if thorough { "every one of 4 origins" } else { "1-2 of 4 origins per word" });
}

/// a set of files for linking: disjoint regions by default, optional shared/conflicting labels, externals, overlaps
pub struct LinkSet { pub files: Vec<Vec<GStmt>>, pub note: Vec<&'static str> }

pub fn gen_linkset(rng: &mut Rng, k: usize, debug_mix: bool) -> LinkSet {
    let _ = debug_mix;
    let mut files: Vec<Vec<GStmt>> = vec![]; let mut note = vec![]; let mut all_names: Vec<String> = vec![]; let mut defs: Vec<Vec<String>> = vec![];
    for i in 0..k {
        let nn = rng.below(3) as usize; let names = fresh_names(rng, nn, &all_names); all_names.extend(names.iter().cloned()); defs.push(names);
        let _ = i;
    }
    for i in 0..k {
        // externals: labels defined by other files (sometimes nobody defines them)
        let mut externals: Vec<String> = vec![];
        for j in 0..k { if j != i { for n in &defs[j] { if rng.chance(1, 3) { externals.push(n.clone()); } } } }
        if rng.chance(1, 6) { externals.push("NOBODY".into()); note.push("external nobody defines"); }
        let base = 0x3000 + 0x1000 * i as u32;
        let b2 = base + 0x400 + rng.below(0x200) as u32; let f = gen_file(rng, &FileCfg { origins: vec![base, b2], names: defs[i].clone(), externals, max_stmts: 10, data_bias: 4 });
        files.push(f);
    }
    // variations
    match rng.below(8) {
        0 => { // conflicting label: the same name at different addresses in two files
            let (a, b) = (0, 1 + rng.below(k as u64 - 1) as usize);
            for f in [a, b] { let pos = files[f].iter().position(|s| s.size > 0).unwrap(); files[f][pos].labels.push(if f == a { "Clash".into() } else { "CLASH".into() }); }
            note.push("conflicting label"); }
        1 => { // overlapping blocks: a block of file b placed inside file a's first block
            let la = layout(&files[0]); if let Some(&(st, len, _)) = la.blocks.first() { let at = st + rng.below(len as u64) as u32;
                let b = 1 + rng.below(k as u64 - 1) as usize; files[b].push(GStmt { labels: vec![], mnem: ".orig".into(), ops: vec![Op::ImmU(at)], size: 0 }); files[b].push(GStmt { labels: vec![], mnem: ".fill".into(), ops: vec![Op::ImmU(1)], size: 1 }); files[b].push(GStmt { labels: vec![], mnem: ".end".into(), ops: vec![], size: 0 }); note.push("overlapping blocks"); } }
        2 => { // touching blocks and the same label at the same address from both sides
            let la = layout(&files[0]); if let Some(&(st, len, oi)) = la.blocks.first() { let end = st + len;
                let epos = files[0].iter().enumerate().position(|(i, s)| i > oi && mn(s) == ".END").unwrap(); files[0][epos].labels.push("Seam".into());
                let b = 1 + rng.below(k as u64 - 1) as usize; files[b].push(GStmt { labels: vec![], mnem: ".orig".into(), ops: vec![Op::ImmU(end)], size: 0 }); files[b].push(GStmt { labels: vec!["SEAM".into()], mnem: ".fill".into(), ops: vec![Op::ImmU(2)], size: 1 }); files[b].push(GStmt { labels: vec![], mnem: ".end".into(), ops: vec![], size: 0 }); note.push("touching blocks with a shared label"); } }
        3 => { // the same block start in two files
            let la = layout(&files[0]); if let Some(&(st, _, _)) = la.blocks.first() { let b = 1 + rng.below(k as u64 - 1) as usize; files[b].push(GStmt { labels: vec![], mnem: ".orig".into(), ops: vec![Op::ImmU(st)], size: 0 }); files[b].push(GStmt { labels: vec![], mnem: ".blkw".into(), ops: vec![Op::ImmU(1)], size: 1 }); files[b].push(GStmt { labels: vec![], mnem: ".end".into(), ops: vec![], size: 0 }); note.push("same block start"); } }
        4 => { // a file without a single word: its labels sit on the `.end` of an empty block, its externals are only declared
            let j = rng.below(k as u64) as usize;
            let at = 0x3000 + 0x1000 * j as u32 + 0x800;
            let mut f = vec![GStmt { labels: vec![], mnem: ".orig".into(), ops: vec![Op::ImmU(at)], size: 0 }];
            f.push(GStmt { labels: defs[j].clone(), mnem: ".end".into(), ops: vec![], size: 0 });
            for jj in 0..k { if jj != j { for n in &defs[jj] { if rng.chance(1, 2) { f.push(GStmt { labels: vec![], mnem: ".external".into(), ops: vec![Op::Lbl(n.clone())], size: 0 }); } } } }
            files[j] = f; note.push("file without words"); }
        5 => { // the first file is the empty source (debug symbols with an empty text)
            files[0] = vec![]; note.push("empty first file"); }
        _ => {}
    }
    LinkSet { files, note }
}

/// reference result of linking a set of well-formed files (order-free)
pub struct LinkExpect { pub ok: bool, pub image: BTreeMap<u16, Option<u16>>, pub labels: BTreeMap<String, (u16, bool)>, pub rel: Vec<(u16, String)> }
pub fn link_expect(files: &[Vec<GStmt>]) -> LinkExpect {
    let exps: Vec<Expected> = files.iter().map(|f| expected(f)).collect();
    let mut ok = true;
    let blocks: Vec<(u32, u32)> = exps.iter().flat_map(|e| e.blocks.iter().map(|b| (b.0 as u32, b.1.len() as u32))).collect();
    for i in 0..blocks.len() { for j in i + 1..blocks.len() { let (a, b) = (blocks[i], blocks[j]); if a.0 < b.0 + b.1 && b.0 < a.0 + a.1 { ok = false; } } }
    let mut labels: BTreeMap<String, (u16, bool)> = BTreeMap::new();
    for e in &exps { for (n, (a, x)) in &e.labels { match labels.get(n).copied() { None => { labels.insert(n.clone(), (*a, *x)); } Some((a0, x0)) => { if x0 && !*x { labels.insert(n.clone(), (*a, false)); } else if !x0 && !*x && a0 != *a { ok = false; } } } } }
    let mut image = BTreeMap::new(); for e in &exps { for (a, ws) in &e.blocks { for (i, w) in ws.iter().enumerate() { image.insert(a.wrapping_add(i as u16), *w); } } }
    let mut rel = vec![];
    for e in &exps { for (a, n) in &e.rel { if labels[n].1 { rel.push((*a, n.clone())); } else { image.insert(*a, Some(labels[n].0)); } } }
    rel.sort();
    LinkExpect { ok, image, labels, rel }
}

/// every way of linking files 0..k: (expression tree as a list of `link` ops, name of the result slot)
pub fn link_plans(k: usize, rng: &mut Rng, max_plans: usize) -> Vec<Vec<(String, String, String)>> {
    // permutations, left-nested; plus for k>=3 right-nested and balanced bracketings of some permutations
    fn perms(k: usize) -> Vec<Vec<usize>> { let mut out = vec![]; let mut a: Vec<usize> = (0..k).collect(); fn go(a: &mut Vec<usize>, n: usize, out: &mut Vec<Vec<usize>>) { if n == 1 { out.push(a.clone()); return; } for i in 0..n { go(a, n - 1, out); if n % 2 == 0 { a.swap(i, n - 1); } else { a.swap(0, n - 1); } } } go(&mut a, k, &mut out); out }
    let mut plans = vec![];
    for p in perms(k) {
        let mut ops = vec![]; let mut acc = format!("f{}", p[0]); for (i, x) in p.iter().enumerate().skip(1) { let dst = format!("t{i}"); ops.push((dst.clone(), acc.clone(), format!("f{x}"))); acc = dst; } plans.push(ops);
        if k >= 3 { let mut ops = vec![]; let mut acc = format!("f{}", p[k - 1]); for i in (0..k - 1).rev() { let dst = format!("t{i}"); ops.push((dst.clone(), format!("f{}", p[i]), acc.clone())); acc = dst; } plans.push(ops); }
        if k == 4 { plans.push(vec![("ta".into(), format!("f{}", p[0]), format!("f{}", p[1])), ("tb".into(), format!("f{}", p[2]), format!("f{}", p[3])), ("tc".into(), "ta".into(), "tb".into())]); }
    }
    while plans.len() > max_plans { let i = rng.below(plans.len() as u64) as usize; plans.swap_remove(i); }
    plans
}

/// C20 (order independence, union, externals) and C22 (debug info after linking)
pub fn c20(out: &mut Out, ex: &mut Exec, seed: u64, thorough: bool, debug_info: bool) {
    let mut rng = Rng::new(seed); let n = if thorough { 6_000 } else { 400 }; let mut seen = HashSet::new();
    for i in 0..n {
        NON_ASCII_LABELS.with(|c| c.set(i % 3 == 2));
        let k = if debug_info { 2 + rng.below(2) as usize } else { 2 + rng.below(3) as usize };
        let set = gen_linkset(&mut rng, k, false);
        let exp = link_expect(&set.files);
        let texts: Vec<String> = set.files.iter().map(|f| render(&mut rng, f)).collect();
        let mut prelude = String::new(); let mut asm_ok = true; let mut dumps = vec![];
        for (i, t) in texts.iter().enumerate() { let l = format!("asm f{i} 1 {}", hx(t)); let r = run(out, ex, &l); prelude.push_str(&l); prelude.push('\n'); if !r.starts_with("ok ") { out.fail(out.lines, format!("file {i} of a link set rejected: {r} :: {t:?}"), l.clone()); asm_ok = false; } dumps.push(r); }
        if !asm_ok { continue; }
        for nt in &set.note { out.hist.hit(&format!("set_{}", nt.replace(' ', "_"))); }
        let plans = link_plans(k, &mut rng, if thorough { 40 } else { 12 });
        let mut first: Option<String> = None;
        for plan in &plans {
            let mut res = String::new(); let mut replay = prelude.clone(); let mut failed = false;
            for (dst, a, b) in plan { let l = format!("link {dst} {a} {b}"); let r = run(out, ex, &l); out.evaluations += 1; replay.push_str(&l); replay.push('\n'); if !r.starts_with("ok ") { failed = true; res = r; break; } res = r; }
            if res.starts_with("panic") { out.fail(out.lines, format!("link panicked: {res}"), replay.clone()); continue; }
            if failed == exp.ok { out.fail(out.lines, format!("link success={} but expected success={} ({:?}): {}", !failed, exp.ok, set.note, res.chars().take(100).collect::<String>()), replay.clone()); continue; }
            out.hist.hit(if failed { "link_rejected" } else { "link_ok" });
            if failed { continue; }
            if !debug_info {
                let img = image_of(&res);
                if img != exp.image { let diff: Vec<String> = exp.image.iter().filter(|(a, w)| img.get(a) != Some(w)).take(4).map(|(a, w)| format!("x{:04X}: got {:?} want {:?}", a, img.get(a), w)).collect(); out.fail(out.lines, format!("linked image is not the union with externals resolved: {:?} ({:?})", diff, set.note), replay.clone()); }
                let labels: BTreeMap<String, (u16, bool)> = dump_labels(&res).into_iter().map(|(n, a, _, e)| (n, (a, e))).collect();
                if labels != exp.labels { out.fail(out.lines, format!("linked label table {:?}, expected {:?}", labels, exp.labels), replay.clone()); }
                let mut rel = dump_rel(&res); rel.sort(); if rel != exp.rel { out.fail(out.lines, format!("pending relocations {:?}, expected {:?}", rel, exp.rel), replay.clone()); }
                let canon = format!("{:?}|{:?}|{:?}", img, labels, rel);
                match &first { None => first = Some(canon), Some(f) => if *f != canon { out.fail(out.lines, "two link orders gave different results".into(), replay.clone()); } }
            } else {
                // C22: every mapped address reads the same source line as in its own file; label spans cover the label text
                let last = plan.last().unwrap().0.clone();
                let src = dump_src(&res).unwrap_or_default();
                for (i, d) in dumps.iter().enumerate() {
                    for (ln, addr) in dump_lines(d) {
                        let want = run(out, ex, &format!("oq f{i} readline {ln}"));
                        let l2 = run(out, ex, &format!("oq {last} revline {:04x}", addr)); out.evaluations += 1;
                        let got = match l2.parse::<usize>() { Ok(l2) => run(out, ex, &format!("oq {last} readline {l2}")), Err(_) => format!("no-line({l2})") };
                        if got != want { out.fail(out.lines, format!("after linking, the line of x{:04X} reads {:?}, in its own file {:?}", addr, unhex_str(got.trim_start_matches("ok ")), unhex_str(want.trim_start_matches("ok "))), format!("{replay}oq {last} revline {:04x}", addr)); }
                    }
                }
                for (name, _, _, _) in dump_labels(&res) {
                    let sp = run(out, ex, &format!("oq {last} src {}", hx(&name))); out.evaluations += 1;
                    match sp.split_once("..").and_then(|(a, b)| Some((a.parse::<usize>().ok()?, b.parse::<usize>().ok()?))) {
                        Some((a, b)) if a <= b && b <= src.len() && src.is_char_boundary(a) && src.is_char_boundary(b) && up(&src[a..b]) == name => {}
                        other => out.fail(out.lines, format!("after linking, get_label_source({name}) = {sp} covers {:?} in the combined source", other.and_then(|(a, b)| src.get(a..b))), format!("{replay}oq {last} src {}", hx(&name))),
                    }
                }
            }
        }
        if seen.insert(texts.join("\u{1}")) { out.nontrivial += 1; }
        out.hist.hit(&format!("files_{k}"));
    }
    out.rule = if debug_info { "pairs and triples of generated files with debug symbols (shared externals, touching blocks with a shared label, conflicting labels, overlapping blocks), linked in every order and bracketing; oracle: for every address with a line mapping in its own file, rev_lookup_line + read_line on the linked file give the same text; every label's get_label_source covers a spelling of the label in the combined source; all answers compared with the model".into() }
        else { "sets of 2-4 generated files (labels unique per file; externals referring to other files' labels or to nobody; variations: the same name at different addresses, a block inside another file's block, touching blocks with the same label at the seam, the same block start), linked in every permutation, left- and right-nested (and balanced for 4); oracle: success iff blocks are disjoint and no label has two addresses; image = union with every .fill of a defined external replaced; labels, external flags and pending relocations as computed from the set; identical across orders; all dumps compared with the model".into() };
}

/// sprinkle comments / blank lines with awkward characters into a source text (only where the lexer allows anything)
pub fn awkward_source(rng: &mut Rng, text: &str) -> String {
    let junk = |rng: &mut Rng| -> String { (0..rng.below(10)).map(|_| if rng.chance(1, 6) { rng.pick(&[" | ", " | x | ", "====", "\\u{41}", "\\n", "????", " |", "| ", "LINE | ADDR | SOURCE", ".TEXT"]).to_string() } else { rng.pick(&['"', '\\', '\t', '\'', ' ', '|', '=', '#', '.', 'é', '→', '😀', '\u{7f}', '\u{1}', '\u{0}', '\r', '\u{a0}', '\u{2028}', 'a', '?', '{', '}', 'u', 'x', '0', 'n']).to_string() }).collect() };
    let mut out = String::new();
    for l in text.split_inclusive('\n') {
        if rng.chance(1, 5) { out.push_str(&" ".repeat(rng.below(4) as usize)); if rng.bool() { out.push(';'); out.push_str(&junk(rng).replace('\n', "")); } out.push_str(if rng.chance(1, 3) { "\r\n" } else { "\n" }); }
        if rng.chance(1, 6) && l.ends_with('\n') && !l.contains('"') { let body = l.trim_end_matches(['\n', '\r']); out.push_str(body); out.push_str(" ;"); out.push_str(&junk(rng)); out.push_str(if l.ends_with("\r\n") { "\r\n" } else { "\n" }); } else { out.push_str(l); }
    }
    if rng.chance(1, 4) { out.push_str(&" \t".repeat(rng.below(3) as usize)); }
    if rng.chance(1, 4) { out.push(';'); out.push_str(&junk(rng)); }
    out
}

/// produce an object in slot `o`: assembled (with/without debug, with externals) or linked; returns the replay prelude
pub fn make_object(out: &mut Out, ex: &mut Exec, rng: &mut Rng, i: u64) -> Option<(String, &'static str)> {
    // every third object uses label / external names with non-ASCII letters (name lengths in bytes vs characters differ)
    NON_ASCII_LABELS.with(|c| c.set(i % 3 == 2));
    match i % 4 {
        0 | 1 => { let stmts = gen_single(rng, 20, true); let t0 = render(rng, &stmts); let text = awkward_source(rng, &t0); let dbg = if i % 4 == 0 { 1 } else { rng.below(2) };
            let l = format!("asm o {dbg} {}", hx(&text)); let r = run(out, ex, &l); if !r.starts_with("ok ") { out.fail(out.lines, format!("well-formed program rejected: {r} :: {text:?}"), l); return None; } Some((l + "\n", if dbg == 1 { "assembled_debug" } else { "assembled_plain" })) }
        2 => { let text = *rng.pick(&["", ".orig x3000\n.end", ";only a comment", ".external Q", ".orig x3000\n.blkw 3\n.end\n\n\n", "\n\n", " ", ".orig x0\nA .fill a\n.end"]); let l = format!("asm o 1 {}", hx(text)); let r = run(out, ex, &l); if !r.starts_with("ok ") { return None; } Some((l + "\n", "tiny")) }
        _ => { let k = 2 + rng.below(2) as usize; let set = gen_linkset(rng, k, false); if !link_expect(&set.files).ok { return None; }
            let mut pre = String::new(); for (j, f) in set.files.iter().enumerate() { let t0 = render(rng, f); let t = awkward_source(rng, &t0); let dbg = if rng.chance(1, 4) { 0 } else { 1 }; let l = format!("asm f{j} {dbg} {}", hx(&t)); let r = run(out, ex, &l); pre.push_str(&l); pre.push('\n'); if !r.starts_with("ok ") { out.fail(out.lines, format!("link-set file rejected: {r}"), l); return None; } }
            let mut acc = "f0".to_string(); for j in 1..k { let dst = if j + 1 == k { "o".to_string() } else { format!("t{j}") }; let l = format!("link {dst} {acc} f{j}"); let r = run(out, ex, &l); pre.push_str(&l); pre.push('\n'); if !r.starts_with("ok ") { out.fail(out.lines, format!("link failed: {r}"), pre.clone()); return None; } acc = dst; }
            Some((pre, "linked")) }
    }
}

/// C17 (binary) / C18 (text): serialize → deserialize gives the same object file
pub fn c17(out: &mut Out, ex: &mut Exec, seed: u64, thorough: bool, text_fmt: bool) {
    NON_ASCII_LITERALS.with(|c| c.set(true));
    let mut rng = Rng::new(seed); let n = if thorough { 40_000 } else { 2_500 };
    let (ser, de) = if text_fmt { ("tser", "tde") } else { ("bser", "bde") };
    for i in 0..n {
        let Some((pre, kind)) = make_object(out, ex, &mut rng, i) else { continue };
        let orig = run(out, ex, "odump o");
        let s = run(out, ex, &format!("{ser} o")); out.evaluations += 1;
        if s.starts_with("panic") || s == "unframed" { out.fail(out.lines, format!("serialize failed: {s}"), format!("{pre}{ser} o")); continue; }
        let back = run(out, ex, &format!("{de} p {s}"));
        if back != format!("ok {orig}") { out.fail(out.lines, format!("{} round trip changed the object file ({kind}): before `{}` after `{}`", if text_fmt { "text" } else { "binary" }, orig.chars().take(400).collect::<String>(), back.chars().take(400).collect::<String>()), format!("{pre}{ser} o\n{de} p {s}")); }
        else { out.hist.hit(&format!("roundtrip_{kind}")); }
        // the real writer's own bytes (not the canonicalised ones), through the real reader
        if let Some(o) = ex.objs.get("o") {
            use lc3_ensemble::asm::encoding::{BinaryFormat, ObjFileFormat, TextFormat};
            let same = crate::util::catch(|| if text_fmt { TextFormat::deserialize(&TextFormat::serialize(o)).as_ref() == Some(o) } else { BinaryFormat::deserialize(&BinaryFormat::serialize(o)).as_ref() == Some(o) });
            if same != Ok(true) { out.fail(out.lines, format!("deserialize(serialize(o)) != o on the implementation ({kind}): {:?}", same), format!("{pre}{ser} o")); }
        }
        if orig.contains("R[") && !orig.contains("R[]") { out.hist.hit("with_relocations"); }
        if orig.contains("S[none]") { out.hist.hit("no_symbol_table"); } else if orig.contains("D[none]") { out.hist.hit("symbols_without_debug"); } else { out.hist.hit("debug_symbols"); }
        out.nontrivial += 1;
    }
    // long runs: one block of 32767 / 32768 / 40000 consecutive one-word statements assembled with debug symbols (a line
    // block and a code block whose lengths need the upper half of a u16); made on the implementation only (the object is
    // not sent through the line protocol), oracle: deserialize(serialize(o)) == o
    for nst in [32767usize, 32768, 40000] {
        let mut src = String::with_capacity(nst * 14 + 32); src.push_str(".orig x3000\n"); for _ in 0..nst { src.push_str("ADD R0,R0,#0\n"); } src.push_str(".end\n");
        let r = ex.line(&format!("asm g 1 {}", hx(&src))); out.evaluations += 1;
        if !r.starts_with("ok ") { out.fail(out.lines, format!("a block of {nst} statements was not assembled: {}", r.chars().take(80).collect::<String>()), format!("long block {nst}")); continue; }
        if let Some(o) = ex.objs.get("g") {
            use lc3_ensemble::asm::encoding::{BinaryFormat, ObjFileFormat, TextFormat};
            let same = crate::util::catch(|| if text_fmt { TextFormat::deserialize(&TextFormat::serialize(o)).as_ref() == Some(o) } else { BinaryFormat::deserialize(&BinaryFormat::serialize(o)).as_ref() == Some(o) });
            if same != Ok(true) { out.fail(out.lines, format!("deserialize(serialize(o)) != o on the implementation for a block of {nst} consecutive statements: {:?}", same), format!("long block {nst}")); }
            else { out.hist.hit("roundtrip_long_block"); }
        }
    }
    out.rule = format!("object files from generated programs (externals, .external anywhere, .blkw, several blocks; sources with comments and blank lines holding quotes, backslashes, tabs, CR, NUL, DEL, NBSP, U+2028, non-ASCII and emoji; CRLF; whitespace-only lines), assembled with and without debug symbols, tiny/empty programs, and results of linking 2-3 files; {} serialization compared with the model's, read back by implementation and model; oracle: the object read back equals the original (dump of blocks, labels with source positions and external flags, relocations, line map, source text) and PartialEq on the implementation; plus three long single-block programs (32767, 32768, 40000 statements) round-tripped on the implementation only", if text_fmt { "text" } else { "binary (label and relocation chunks sorted, their order is unspecified)" });
}

/// C19: reading untrusted object files never panics (nor does using what was read)
pub fn c19(out: &mut Out, ex: &mut Exec, seed: u64, thorough: bool) {
    let mut rng = Rng::new(seed); let n = if thorough { 120_000 } else { 6_000 };
    run(out, ex, &format!("asm base 1 {}", hx(".orig x3000\nA ADD R0,R0,#1\n.fill X\n.external X\nB .blkw 2\n.end\n.orig x5000\nC .stringz \"hi\"\n.end\n")));
    run(out, ex, &format!("asm defx 1 {}", hx(".orig x6000\nX .fill 7\n.end\n")));
    let after = |out: &mut Out, ex: &mut Exec, replay: &str| {
        for l in ["bser p", "tser p", "link q p base", "link q base p", "link q p defx", "link q p p", "sim new 0 0 0 0 0", "oload p", "oq p lookup 41", "oq p rev 3000", "oq p line 1"] {
            let r = run(out, ex, l); out.evaluations += 1;
            if r.starts_with("panic") { out.fail(out.lines, format!("`{l}` on a deserialized object file panicked: {r}"), format!("{replay}\n{l}")); }
        }
    };
    // one hand-made giant: a debug line table with 65536 consecutive addressed lines (one line block longer than a u16 can
    // count), read from the text format, then written to both formats, linked and queried
    {
        let mut t = String::from("LC-3 OBJ FILE\n\n.TEXT\n\n.SYMBOL\n\n.LINKER_INFO\n\n.DEBUG\n====================\nLINE | ADDR | SOURCE\n");
        for i in 0..65536u32 { t.push_str(&format!("{i} | {:04X} | \n", i)); }
        t.push_str("65536 | ???? | \n====================\n");
        let line = format!("tde p {}", hx(&t));
        let r = run(out, ex, &line); out.evaluations += 1;
        out.hist.hit("giant_line_block");
        if r.starts_with("panic") { out.fail(out.lines, format!("deserialize panicked on the 65536-line table: {}", r.chars().take(80).collect::<String>()), "giant line table".into()); }
        else if r.starts_with("ok ") {
            for l in ["oq p line 1", "oq p line 65535", "tser p"] { let r = run(out, ex, l); out.evaluations += 1;
                if r.starts_with("panic") { out.fail(out.lines, format!("`{l}` on the object with a 65536-line block panicked: {}", r.chars().take(80).collect::<String>()), format!("giant line table\n{l}")); } }
            // the binary writer cannot express the block length (it is written modulo 2^16): no framing to canonicalise, so this
            // call is made on the implementation only — it must not panic
            if let Some(o) = ex.objs.get("p") {
                use lc3_ensemble::asm::encoding::{BinaryFormat, ObjFileFormat};
                out.evaluations += 1;
                if crate::util::catch(|| BinaryFormat::serialize(o).len()).is_err() { out.fail(out.lines, "BinaryFormat::serialize panicked on the object with a 65536-line block".into(), "giant line table\nbser p".into()); }
            }
        }
    }
    for i in 0..n {
        let (pre, base_bin, base_txt) = { let mut r2 = Rng::new(seed ^ (i / 8)); match make_object(out, ex, &mut r2, i / 8) { Some((p, _)) => { let b = ex.line("bser o"); let t = ex.line("tser o"); (p, b, t) } None => (String::new(), "-".into(), "-".into()) } };
        let _ = pre;
        let line = match i % 4 {
            0 => { // mutated binary
                let mut b = crate::c25::unhex(&base_bin).unwrap_or_default();
                for _ in 0..1 + rng.below(3) { if b.is_empty() { break; } let p = rng.below(b.len() as u64) as usize; match rng.below(7) { 0 => b[p] = rng.below(256) as u8, 1 => { b.truncate(p); } 2 => b.insert(p, rng.below(6) as u8), 3 => { b.remove(p); } 4 => b[p] = *rng.pick(&[0u8, 1, 2, 3, 4, 5, 0xFF, 0x7F, 0x80]), 5 => { let q = (p + 8).min(b.len()); for x in &mut b[p..q] { *x = 0xFF; } } _ => { let chunk: Vec<u8> = b[p..(p + 24).min(b.len())].to_vec(); b.extend(chunk); } } }
                out.hist.hit("mutated_binary"); format!("bde p {}", hexs(&b)) }
            1 => { // random / hand-shaped binary
                let mut b = vec![0x6F, 0x62, 0x6A, 0x21, 0x10, 0x00, 0x01];
                for _ in 0..rng.below(5) { match rng.below(7) {
                    0 => { let a = *rng.pick(&[0u16, 0x3000, 0xFFFE, 0xFFFF, 0xFE00, 0x3001]); let len = *rng.pick(&[0u16, 1, 2, 3]); b.push(0); b.extend(a.to_le_bytes()); b.extend(len.to_le_bytes()); for _ in 0..len { b.push(*rng.pick(&[0xFFu8, 0, 1])); b.extend(rng.u16().to_le_bytes()); } }
                    1 => { let name = *rng.pick(&["A", "", "X", "é", "LONGNAME"]); b.push(1); b.extend(rng.u16().to_le_bytes()); b.push(rng.below(3) as u8); b.extend(rng.pick(&[0u64, 5, u64::MAX, 1 << 40]).to_le_bytes()); b.extend((name.len() as u64).to_le_bytes()); b.extend(name.as_bytes()); }
                    2 => { let len = rng.below(4) as u16; b.push(2); b.extend(rng.pick(&[0u64, 1, 3, u64::MAX, u64::MAX - 1, 1 << 63]).to_le_bytes()); b.extend(len.to_le_bytes()); let mut a = rng.u16(); for _ in 0..len { b.extend(a.to_le_bytes()); a = a.wrapping_add(rng.below(3) as u16); } }
                    3 => { let s = *rng.pick(&["", "a\nb", "x\n\n", "é"]); b.push(3); b.extend((s.len() as u64).to_le_bytes()); b.extend(s.as_bytes()); }
                    4 => { let name = *rng.pick(&["X", "A", "NOBODY", ""]); b.push(4); b.extend(rng.pick(&[0x3001u16, 0x0000, 0xFFFF, 0x2FFF, 0x3003]).to_le_bytes()); b.extend((name.len() as u64).to_le_bytes()); b.extend(name.as_bytes()); }
                    5 => { // two well-formed line blocks that overlap, touch, or leave a gap (from_blocks must refuse exactly the overlap)
                        let l0 = *rng.pick(&[0u64, 2, 7]); let d = rng.below(5);
                        for (ln, n, a0) in [(l0, 3u16, 0x3000u16), (l0 + d, 2u16, 0x4000u16)] { b.push(2); b.extend(ln.to_le_bytes()); b.extend(n.to_le_bytes()); for k in 0..n { b.extend((a0 + k).to_le_bytes()); } }
                        out.hist.hit(if d < 3 { "line_blocks_overlap" } else if d == 3 { "line_blocks_touch" } else { "line_blocks_apart" }); }
                    _ => { b.push(rng.below(256) as u8); for _ in 0..rng.below(12) { b.push(rng.below(256) as u8); } } } }
                out.hist.hit("shaped_binary"); format!("bde p {}", hexs(&b)) }
            2 => { // mutated text
                let t = unhex_str(&base_txt); let mut ls: Vec<String> = t.split('\n').map(|x| x.to_string()).collect();
                for _ in 0..1 + rng.below(3) { if ls.is_empty() { break; } let p = rng.below(ls.len() as u64) as usize; match rng.below(9) { 0 => { ls.remove(p); } 1 => { let l = ls[p].clone(); ls.insert(p, l); } 2 => { let q = rng.below(ls.len() as u64) as usize; ls.swap(p, q); } 3 => ls[p] = "====================".into(), 4 => ls[p] = rng.pick(&[".TEXT", ".SYMBOL", ".DEBUG", ".LINKER_INFO", ".BOGUS", "", "#x", "LABEL | INDEX", "LINE | ADDR | SOURCE", "0 | ???? | \\", "0 | ???? | \\u{110000}", "0 | ???? | \\u{}", "0 | ???? | \\xZZ", "0 | ???? | \\9", "FFFF", "65536", "+1", "0000 | 300 | X"]).to_string(),
                    5 => { let mut cs: Vec<char> = ls[p].chars().collect(); if !cs.is_empty() { let q = rng.below(cs.len() as u64) as usize; cs[q] = *rng.pick(&['|', ' ', '0', 'F', '?', '=', '\\', 'é', '9', '+', '-']); } ls[p] = cs.into_iter().collect(); }
                    6 => { ls.truncate(p); } 7 => ls[p].push_str(*rng.pick(&[" ", " | ", " | x", "\r", "0"])), _ => { let l = ls[p].clone(); ls[p] = l.replace("????", "3000"); } } }
                out.hist.hit("mutated_text"); format!("tde p {}", hx(&ls.join("\n"))) }
            _ => { // random text
                let words = ["LC-3 OBJ FILE", ".TEXT", ".SYMBOL", ".LINKER_INFO", ".DEBUG", "3000", "1", "2", "F025", "????", "ADDR | EXT | LABEL", "0000 |   1 | X", "ADDR | LABEL", "3001 | X", "LABEL | INDEX", "X     | 10", "====================", "LINE | ADDR | SOURCE", "0    | 3000 | a\\n", "1    | ???? | ", "0    | 3000 | \\u{41}\\t\\\"", "# c", "", " ", "zzz", "0    | 3001 | b", "1    | 3000 | c"];
                let k = rng.below(14); let t: Vec<&str> = (0..k).map(|_| *rng.pick(&words)).collect();
                out.hist.hit("random_text"); format!("tde p {}", hx(&t.join(*rng.pick(&["\n", "\n", "\r\n"])))) }
        };
        let r = run(out, ex, &line); out.evaluations += 1;
        if r.starts_with("panic") { out.fail(out.lines, format!("deserialize panicked: {r}"), line.clone()); continue; }
        if r.starts_with("ok ") { out.hist.hit("accepted"); after(out, ex, &line); } else { out.hist.hit("rejected"); }
        out.nontrivial += 1;
    }
    out.rule = "four input streams: valid binary serializations with 1-3 byte-level mutations (overwrite, truncate, insert, delete, 0xFF runs, duplicated tails); hand-shaped binary files (blocks at xFFFE/xFFFF, labels with huge positions, line blocks at line numbers near 2^64 and 2^63, duplicate/unsorted line addresses, relocations pointing anywhere, invalid UTF-8 via random chunks); valid text serializations with 1-3 line-level mutations (delete/duplicate/swap lines, extra or missing dividers, header swaps, bad escapes, column edits); random sequences of format lines. Every accepted result is re-serialized in both formats, linked with assembled files in both orders and with itself, loaded into a simulator and queried; oracle: no panic anywhere; every answer also compared with the model".into();
}
