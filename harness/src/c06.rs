//! C06 — decode/encode, exhaustive over all 65536 words and all representable instructions.
use crate::util::*;
use crate::exec::Exec;
use lc3_ensemble::ast::sim::SimInstr;
use lc3_ensemble::ast::{ImmOrReg, Offset, Reg};
use lc3_ensemble::sim::SimErr;

fn r(x: Reg) -> u16 { x.reg_no() as u16 }
fn io<const N: u32>(o: Offset<i16, N>) -> u16 { (o.get() as u16) & (((1u32 << N) - 1) as u16) }

/// canonical text of an instruction: mnemonic + raw field values (hex)
pub fn show(i: &SimInstr) -> String {
    match *i {
        SimInstr::BR(cc, off) => format!("br {:x} {:x}", cc, io(off)),
        SimInstr::ADD(d, s, ImmOrReg::Imm(v)) => format!("add {:x} {:x} i {:x}", r(d), r(s), io(v)),
        SimInstr::ADD(d, s, ImmOrReg::Reg(v)) => format!("add {:x} {:x} r {:x}", r(d), r(s), r(v)),
        SimInstr::LD(d, o) => format!("ld {:x} {:x}", r(d), io(o)),
        SimInstr::ST(d, o) => format!("st {:x} {:x}", r(d), io(o)),
        SimInstr::JSR(ImmOrReg::Imm(o)) => format!("jsr i {:x}", io(o)),
        SimInstr::JSR(ImmOrReg::Reg(b)) => format!("jsr r {:x}", r(b)),
        SimInstr::AND(d, s, ImmOrReg::Imm(v)) => format!("and {:x} {:x} i {:x}", r(d), r(s), io(v)),
        SimInstr::AND(d, s, ImmOrReg::Reg(v)) => format!("and {:x} {:x} r {:x}", r(d), r(s), r(v)),
        SimInstr::LDR(d, b, o) => format!("ldr {:x} {:x} {:x}", r(d), r(b), io(o)),
        SimInstr::STR(d, b, o) => format!("str {:x} {:x} {:x}", r(d), r(b), io(o)),
        SimInstr::RTI => "rti".to_string(),
        SimInstr::NOT(d, s) => format!("not {:x} {:x}", r(d), r(s)),
        SimInstr::LDI(d, o) => format!("ldi {:x} {:x}", r(d), io(o)),
        SimInstr::STI(d, o) => format!("sti {:x} {:x}", r(d), io(o)),
        SimInstr::JMP(b) => format!("jmp {:x}", r(b)),
        SimInstr::LEA(d, o) => format!("lea {:x} {:x}", r(d), io(o)),
        SimInstr::TRAP(v) => format!("trap {:x}", v.get()),
    }
}

fn reg(s: &str) -> Option<Reg> { Reg::try_from(u8::from_str_radix(s, 16).ok()?).ok() }
fn off<const N: u32>(s: &str) -> Option<Offset<i16, N>> {
    let v = u16::from_str_radix(s, 16).ok()?;
    if (v as u32) >> N != 0 { return None; }
    Some(Offset::new_trunc(v as i16))
}

pub fn parse(t: &[&str]) -> Option<SimInstr> {
    Some(match t {
        ["br", c, o] => { let c = u8::from_str_radix(c, 16).ok()?; if c > 7 { return None; } SimInstr::BR(c, off(o)?) }
        ["add", d, s, "i", v] => SimInstr::ADD(reg(d)?, reg(s)?, ImmOrReg::Imm(off(v)?)),
        ["add", d, s, "r", v] => SimInstr::ADD(reg(d)?, reg(s)?, ImmOrReg::Reg(reg(v)?)),
        ["ld", d, o] => SimInstr::LD(reg(d)?, off(o)?),
        ["st", d, o] => SimInstr::ST(reg(d)?, off(o)?),
        ["jsr", "i", o] => SimInstr::JSR(ImmOrReg::Imm(off(o)?)),
        ["jsr", "r", b] => SimInstr::JSR(ImmOrReg::Reg(reg(b)?)),
        ["and", d, s, "i", v] => SimInstr::AND(reg(d)?, reg(s)?, ImmOrReg::Imm(off(v)?)),
        ["and", d, s, "r", v] => SimInstr::AND(reg(d)?, reg(s)?, ImmOrReg::Reg(reg(v)?)),
        ["ldr", d, b, o] => SimInstr::LDR(reg(d)?, reg(b)?, off(o)?),
        ["str", d, b, o] => SimInstr::STR(reg(d)?, reg(b)?, off(o)?),
        ["rti"] => SimInstr::RTI,
        ["not", d, s] => SimInstr::NOT(reg(d)?, reg(s)?),
        ["ldi", d, o] => SimInstr::LDI(reg(d)?, off(o)?),
        ["sti", d, o] => SimInstr::STI(reg(d)?, off(o)?),
        ["jmp", b] => SimInstr::JMP(reg(b)?),
        ["lea", d, o] => SimInstr::LEA(reg(d)?, off(o)?),
        ["trap", v] => { let v = u16::from_str_radix(v, 16).ok()?; if v > 0xFF { return None; } SimInstr::TRAP(Offset::new_trunc(v)) }
        _ => return None,
    })
}

/// `dec <whex>` -> `ok <instr> enc=<hex>` | `err illegal` | `err format`
pub fn exec_dec(args: &[&str]) -> String {
    let Some(w) = args.first().and_then(|s| u16::from_str_radix(s, 16).ok()) else { return "bad-op".into() };
    match catch(|| SimInstr::decode(w).map(|i| (show(&i), i.encode()))) {
        Ok(Ok((s, e))) => format!("ok {} enc={}", s, hex16(e)),
        Ok(Err(SimErr::IllegalOpcode)) => "err illegal".into(),
        Ok(Err(SimErr::InvalidInstrFormat)) => "err format".into(),
        Ok(Err(_)) => "err other".into(),
        Err(_) => "panic".into(),
    }
}
/// `enc <instr>` -> `<hex> dec=<instr>|err ...`
pub fn exec_enc(args: &[&str]) -> String {
    let Some(i) = parse(args) else { return "bad-op".into() };
    match catch(|| { let w = i.encode(); (w, SimInstr::decode(w).map(|j| show(&j))) }) {
        Ok((w, Ok(s))) => format!("{} dec={}", hex16(w), s),
        Ok((w, Err(SimErr::IllegalOpcode))) => format!("{} dec=err illegal", hex16(w)),
        Ok((w, Err(_))) => format!("{} dec=err format", hex16(w)),
        Err(_) => "panic".into(),
    }
}

/// canonical-encoding predicate, from the ISA format table (independent of the implementation)
pub fn spec_valid(w: u16) -> bool {
    let op = w >> 12;
    match op {
        1 | 5 => (w >> 5) & 1 == 1 || (w >> 3) & 3 == 0,
        4 => (w >> 11) & 1 == 1 || ((w >> 9) & 3 == 0 && w & 0x3F == 0),
        8 => w & 0xFFF == 0,
        9 => w & 0x3F == 0x3F,
        12 => (w >> 9) & 7 == 0 && w & 0x3F == 0,
        13 => false,
        15 => (w >> 8) & 0xF == 0,
        _ => true,
    }
}

pub fn all_instrs() -> Vec<String> {
    let mut v = vec![];
    for c in 0..8 { for o in 0..512 { v.push(format!("br {:x} {:x}", c, o)); } }
    for m in ["ld", "st", "ldi", "sti", "lea"] { for d in 0..8 { for o in 0..512 { v.push(format!("{} {:x} {:x}", m, d, o)); } } }
    for m in ["add", "and"] { for d in 0..8 { for s in 0..8 {
        for i in 0..32 { v.push(format!("{} {:x} {:x} i {:x}", m, d, s, i)); }
        for r in 0..8 { v.push(format!("{} {:x} {:x} r {:x}", m, d, s, r)); }
    } } }
    for m in ["ldr", "str"] { for d in 0..8 { for b in 0..8 { for o in 0..64 { v.push(format!("{} {:x} {:x} {:x}", m, d, b, o)); } } } }
    for o in 0..2048 { v.push(format!("jsr i {:x}", o)); }
    for b in 0..8 { v.push(format!("jsr r {:x}", b)); v.push(format!("jmp {:x}", b)); }
    v.push("rti".into());
    for d in 0..8 { for s in 0..8 { v.push(format!("not {:x} {:x}", d, s)); } }
    for t in 0..256 { v.push(format!("trap {:x}", t)); }
    v
}

pub fn gen(out: &mut Out, ex: &mut Exec, _seed: u64, _thorough: bool) {
    for w in 0..=u16::MAX {
        let line = format!("dec {}", hex16(w));
        let r = ex.line(&line);
        // oracle: ok iff canonical; re-encode gives w; error kinds
        let good = if spec_valid(w) { r.starts_with("ok ") && r.ends_with(&format!("enc={}", hex16(w))) }
                   else if w >> 12 == 13 { r == "err illegal" } else { r == "err format" };
        if !good { out.fail(out.lines, format!("{line} -> {r} (canonical={}, opcode={:x})", spec_valid(w), w >> 12), line.clone()); }
        out.hist.hit(&format!("dec_{}", r.split(' ').take(2).collect::<Vec<_>>().join("_")));
        if w == 0xC9C0 || w == 0x1021 { let mut s = Json::obj(); s.set("op", Json::s(line.clone())); s.set("impl", Json::s(r.clone())); out.sample(s); }
        out.op(&line, &r);
        out.evaluations += 1;
    }
    for i in all_instrs() {
        let line = format!("enc {}", i);
        let r = ex.line(&line);
        if !r.ends_with(&format!("dec={}", i)) { out.fail(out.lines, format!("{line} -> {r}: decode(encode(i)) != i"), line.clone()); }
        out.hist.hit(&format!("enc_{}", i.split(' ').next().unwrap()));
        out.op(&line, &r);
        out.evaluations += 1;
    }
    out.exhaustive = true;
    out.nontrivial = out.evaluations;
    out.rule = "exhaustive: all 65536 words through decode (+ re-encode), and every representable instruction (all opcode/register/field values) through encode then decode; all cases distinct".into();
}
