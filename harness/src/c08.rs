//! Simulator step properties (C08 and the other step-level properties share this runner).
use crate::util::*;
use crate::exec::Exec;
use crate::simgen::*;
use std::collections::HashSet;

pub struct Stats { pub seen: HashSet<u64>, }

pub fn hash_lines(ls: &[String]) -> u64 { crate::simx::fnv(ls.iter().flat_map(|l| l.bytes().map(|b| b as u64))) }

/// field of a DIGEST line
pub fn field<'a>(d: &'a str, key: &str) -> Option<&'a str> {
    d.split(' ').find_map(|t| t.strip_prefix(key).and_then(|r| r.strip_prefix('=')))
}

/// Runs one case: set-up lines, then `steps` single steps; returns the digests.
pub fn run_case(out: &mut Out, ex: &mut Exec, lines: &[String], steps: usize, rng: &mut Rng, stats: &mut Stats,
                mut on_step: impl FnMut(&mut Out, &str, &str, &[String])) {
    let mut all: Vec<String> = vec![];
    for l in lines { let r = ex.line(l); out.op(l, &r); all.push(l.clone()); if r.starts_with("panic") { out.fail(out.lines, format!("panic during set-up: {l} -> {r}"), all.join("\n")); } }
    let mut prev = ex.line("sim state"); out.op("sim state", &prev); all.push("sim state".into());
    let mut ok_steps = 0; let mut events = 0; let mut errs_in_row = 0;
    for _ in 0..steps {
        let l = "sim step".to_string();
        let r = ex.line(&l); out.op(&l, &r); all.push(l.clone());
        out.evaluations += 1;
        if r.starts_with("panic") { out.fail(out.lines, format!("simulator panicked: {r}"), all.join("\n")); out.hist.hit("panic"); break; }
        let res = r.split(' ').next().unwrap_or("");
        out.hist.hit(&format!("step_{}", if res.starts_with("err:intr") { "err:intr" } else { res }));
        if res == "ok" { ok_steps += 1; errs_in_row = 0; } else { events += 1; errs_in_row += 1; }
        if field(&r, "fn") != field(&prev, "fn") { events += 1; out.hist.hit("frame_change"); }
        if field(&r, "psr").map(|p| &p[..1]) != field(&prev, "psr").map(|p| &p[..1]) { out.hist.hit("privilege_or_prio_change"); }
        on_step(out, &prev, &r, &all);
        prev = r;
        if errs_in_row >= 2 { break; }
        if rng.chance(1, 10) { let l = if rng.bool() { "sim obs take" } else { "sim obs peek" }; let r = ex.line(l); out.op(l, &r); all.push(l.into()); }
    }
    for l in ["sim obs peek", "sim memhash"] { let r = ex.line(l); out.op(l, &r); all.push(l.into()); }
    if stats.seen.insert(hash_lines(&all)) && (ok_steps >= 3 || events >= 1) { out.nontrivial += 1; }
    if out.samples.len() < 3 { let mut s = Json::obj(); s.set("case", Json::Arr(all.iter().take(30).map(|x| Json::s(x.clone())).collect())); s.set("last_digest", Json::s(prev)); out.sample(s); }
}

pub fn gen(out: &mut Out, ex: &mut Exec, seed: u64, thorough: bool) {
    let mut rng = Rng::new(seed);
    let mut stats = Stats { seen: HashSet::new() };
    let n = if thorough { 60_000 } else { 2_500 };
    for id in 0..n {
        let steps = 20 + rng.below(40) as usize;
        let o = CaseOpts { prof: if rng.chance(1, 5) { Prof::Frames } else { Prof::Isa }, strict: false, real: rng.bool(), dbg: rng.chance(1, 3), ign: rng.chance(1, 4), steps };
        let lines = setup(&mut rng, &o, id);
        out.hist.hit(&format!("flags_real{}_ign{}_dbg{}", o.real as u8, o.ign as u8, o.dbg as u8));
        run_case(out, ex, &lines, steps, &mut rng, &mut stats, |_, _, _, _| {});
    }
    // RTI restores whatever PSR word is on the stack, including condition-code fields no instruction produces (000, two or
    // three bits set): every BR mask against every restored CC field, returning to user and to supervisor mode
    let mut rng2 = Rng::new(seed ^ 0xB8_0000);
    for cc in 0..8u16 { for mask in 0..8u16 { for user in [false, true] {
        let psr = (if user { 0x8000 } else { 0 }) | (cc << 8 & 0x0700) | cc;
        let lines: Vec<String> = vec![format!("case rti-br-{cc}-{mask}-{}", user as u8), format!("sim new 0 {} 0 0 0000", (cc + mask) % 2), "sim mmap fff0 ssp".into(),
            "sim rawmem 1000 8000/ffff".into(), format!("sim rawmem 3000 {:04x}/ffff 1021/ffff 1021/ffff 1021/ffff 1021/ffff", mask << 9 | 2),
            format!("sim rawmem 2ffe 3000/ffff {:04x}/ffff", psr), "sim rawreg 6 2ffe ffff".into(), "sim rawreg 0 0000 ffff".into(),
            "sim hostwrite fffc 0002 ffff 1 0 0 0".into(), "sim hostwrite fff0 fe00 ffff 1 0 0 0".into(), "sim setpc 1000".into()];
        out.hist.hit("rti_then_branch");
        run_case(out, ex, &lines, 4, &mut rng2, &mut stats, |out, prev, cur, all| {
            // implementation-side oracle: a BR at x3000 is taken exactly when its mask meets the CC field of the PSR
            if field(prev, "pc") == Some("3000") && cur.starts_with("ok") {
                let pcc = u16::from_str_radix(field(prev, "psr").unwrap_or("0"), 16).unwrap_or(0) & 7;
                let want = if mask & pcc != 0 { "3003" } else { "3001" };
                if field(cur, "pc") != Some(want) { out.fail(out.lines, format!("BR mask {mask:03b} with CC {pcc:03b}: PC {} (expected {want})", field(cur, "pc").unwrap_or("?")), all.join("\n")); }
            }
        });
    } } }
    out.rule = "random machine states (PC/registers biased to region boundaries, memory around PC filled with mostly-valid instructions with boundary operands and ~8% arbitrary words, random PSR privilege/priority/CC, saved SP, keyboard queue, display, scripted vectored/external interrupts, optional keyboard interrupts), real/virtual traps x ignore_privilege x debug_frames, strict off; plus RTI-then-BR cases for every (restored CC field, BR mask, return mode); 20-60 single steps per case, every step's full observable state compared with the model. distinct = distinct case text; non-trivial = at least 3 successful steps or at least one error/trap/interrupt/frame event".into();
}
