//! C15 — Word initialisation tracking, through the verif hook (Word::verif_parts / verif_from_parts).
use crate::util::*;
use crate::exec::Exec;
use lc3_ensemble::sim::mem::Word;

fn w(d: u16, i: u16) -> Word { Word::verif_from_parts(d, i) }

pub fn apply(op: &str, a: Word, b: Word) -> Option<Word> {
    Some(match op { "add" => a + b, "sub" => a - b, "and" => a & b, "not" => !a, _ => return None })
}

/// every other entry point of the same operation (`+=`, `-=`, `&=` with a word, `+=`/`-=` with a `u16` or `i16`
/// constant when the right operand is fully initialised) must give the operator's result
pub fn variants_agree(op: &str, a: Word, b: Word) -> bool {
    let Some(r) = apply(op, a, b) else { return true };
    let same = |x: Word| x.verif_parts() == r.verif_parts();
    let (bd, bi) = b.verif_parts();
    match op {
        "add" => { let mut x = a; x += b; let mut ok = same(x);
            if bi == 0xFFFF { let mut y = a; y += bd; let mut z = a; z += bd as i16; ok = ok && same(y) && same(z); } ok }
        "sub" => { let mut x = a; x -= b; let mut ok = same(x);
            if bi == 0xFFFF { let mut y = a; y -= bd; let mut z = a; z -= bd as i16; ok = ok && same(y) && same(z); } ok }
        "and" => { let mut x = a; x &= b; same(x) }
        _ => true,
    }
}

/// `wop <add|sub|and|not> d1 i1 d2 i2` -> `d i`
pub fn exec(args: &[&str]) -> String {
    if args.len() != 5 { return "bad-op".into(); }
    let p: Vec<Option<u16>> = args[1..].iter().map(|s| u16::from_str_radix(s, 16).ok()).collect();
    if p.iter().any(|x| x.is_none()) { return "bad-op".into(); }
    let p: Vec<u16> = p.into_iter().map(|x| x.unwrap()).collect();
    match catch(|| { let (a, b) = (w(p[0], p[1]), w(p[2], p[3])); if !variants_agree(args[0], a, b) { return Some(None) } Some(apply(args[0], a, b)) }) {
        Ok(Some(None)) => "assign-variant-mismatch".into(),
        Ok(Some(Some(r))) => { let (d, i) = r.verif_parts(); format!("{} {}", hex16(d), hex16(i)) }
        Ok(None) => "bad-op".into(),
        Err(_) => "panic".into(),
    }
}

const MASKS: [u16; 10] = [0xFFFF, 0x0000, 0x0001, 0x8000, 0x5555, 0xAAAA, 0x00FF, 0xFF00, 0xFFFE, 0x7FFF];
const DATA: [u16; 8] = [0, 1, 0x7FFF, 0x8000, 0xFFFF, 0x00FF, 0xFF00, 0x1234];
const OPS: [&str; 4] = ["add", "sub", "and", "not"];

fn one(out: &mut Out, ex: &mut Exec, rng: &mut Rng, op: &str, a: (u16, u16), b: (u16, u16), seen: &mut std::collections::HashSet<(u8, u16, u16, u16, u16)>) {
    let line = format!("wop {} {} {} {} {}", op, hex16(a.0), hex16(a.1), hex16(b.0), hex16(b.1));
    let r = ex.line(&line);
    out.op(&line, &r);
    out.evaluations += 1;
    let opi = OPS.iter().position(|o| *o == op).unwrap() as u8;
    let partial = (a.1 != 0 && a.1 != 0xFFFF) || (b.1 != 0 && b.1 != 0xFFFF);
    if seen.insert((opi, a.0, a.1, b.0, b.1)) && (partial || a.1 != b.1 || a.0 == 0 || b.0 == 0) { out.nontrivial += 1; }
    out.hist.hit(&format!("{}_{}", op, if partial { "partial" } else if a.1 == 0xFFFF && b.1 == 0xFFFF { "full" } else { "mixed_full_empty" }));
    // property oracle: re-randomise the uninitialised bits 16 times; initialised result bits and the mask must not change
    let base = apply(op, w(a.0, a.1), w(b.0, b.1)).unwrap().verif_parts();
    if a.1 == 0xFFFF && b.1 == 0xFFFF {
        let expect = match op { "add" => a.0.wrapping_add(b.0), "sub" => a.0.wrapping_sub(b.0), "and" => a.0 & b.0, _ => !a.0 };
        if base != (expect, 0xFFFF) { out.fail(out.lines, format!("{line}: fully initialised operands gave {:04x}/{:04x}, expected {:04x}/ffff", base.0, base.1, expect), line.clone()); }
    }
    for _ in 0..16 {
        let a2 = ((a.0 & a.1) | (rng.u16() & !a.1), a.1);
        let b2 = ((b.0 & b.1) | (rng.u16() & !b.1), b.1);
        let r2 = apply(op, w(a2.0, a2.1), w(b2.0, b2.1)).unwrap().verif_parts();
        out.evaluations += 1;
        if r2.1 != base.1 || (r2.0 & base.1) != (base.0 & base.1) {
            out.fail(out.lines, format!("{line}: re-randomised operands {:04x}/{:04x} {:04x}/{:04x} give {:04x}/{:04x} vs {:04x}/{:04x}", a2.0, a2.1, b2.0, b2.1, r2.0, r2.1, base.0, base.1),
                     format!("{line}\nwop {} {} {} {} {}", op, hex16(a2.0), hex16(a2.1), hex16(b2.0), hex16(b2.1)));
            break;
        }
    }
    if out.samples.len() < 4 && partial { let mut s = Json::obj(); s.set("op", Json::s(line)); s.set("impl", Json::s(r)); out.sample(s); }
}

pub fn gen(out: &mut Out, ex: &mut Exec, seed: u64, thorough: bool) {
    let mut rng = Rng::new(seed);
    let mut seen = std::collections::HashSet::new();
    // structured grid, exhaustively crossed
    for op in OPS { for &m1 in &MASKS { for &d1 in &DATA { for &m2 in &MASKS { for &d2 in &DATA {
        if op == "not" && (m2 != MASKS[0] || d2 != DATA[0]) { continue; }
        one(out, ex, &mut rng, op, (d1, m1), (d2, m2), &mut seen);
    }}}}}
    // random pairs, biased masks
    let n = if thorough { 1_000_000 } else { 8_000 };
    for _ in 0..n {
        let op = *rng.pick(&OPS);
        let mut m = |rng: &mut Rng| -> u16 { match rng.below(4) { 0 => *rng.pick(&MASKS), 1 => rng.u16() & rng.u16(), 2 => rng.u16() | rng.u16(), _ => rng.u16() } };
        let (m1, m2) = (m(&mut rng), m(&mut rng));
        let mut d = |rng: &mut Rng| -> u16 { if rng.chance(1, 4) { *rng.pick(&DATA) } else { rng.u16() } };
        let (d1, d2) = (d(&mut rng), d(&mut rng));
        one(out, ex, &mut rng, op, (d1, m1), (d2, m2), &mut seen);
    }
    out.rule = "structured grid (10 masks x 8 data values, crossed for both operands, 4 ops) + random pairs with biased masks; each pair also re-evaluated on the implementation with 16 re-randomisations of the uninitialised bits (oracle). distinct = distinct (op,a,b); non-trivial = some mask partial, or masks differ, or a zero operand (the +0 / -0 shortcuts)".into();
}
