//! C25 — SourceInfo position queries.
use crate::util::*;
use crate::exec::Exec;
use lc3_ensemble::asm::SourceInfo;

pub fn unhex(h: &str) -> Option<Vec<u8>> {
    if h == "-" { return Some(vec![]); }
    let cs: Vec<char> = h.chars().collect();
    if cs.len() % 2 != 0 { return None; }
    cs.chunks(2).map(|p| u8::from_str_radix(&format!("{}{}", p[0], p[1]), 16).ok()).collect()
}
pub fn hexs(b: &[u8]) -> String { if b.is_empty() { "-".into() } else { b.iter().map(|x| format!("{:02x}", x)).collect() } }

/// `src set <hex>` | `src line <i>` | `src pos <idx>`
pub fn exec(slot: &mut Option<SourceInfo>, t: &[&str]) -> String {
    match t {
        ["set", h] => {
            let Some(b) = unhex(h) else { return "bad-op".into() };
            let Ok(s) = String::from_utf8(b) else { return "bad-utf8".into() };
            let si = SourceInfo::new(&s);
            let r = format!("lines={}", si.count_lines());
            *slot = Some(si); r
        }
        ["line", i] => {
            let (Some(si), Ok(i)) = (slot.as_ref(), i.parse::<usize>()) else { return "bad-op".into() };
            match catch(|| (si.line_span(i), si.read_line(i).map(|s| s.to_string()))) {
                Ok((Some(sp), Some(txt))) => format!("span={}..{} text={}", sp.start, sp.end, hexs(txt.as_bytes())),
                Ok((None, None)) => "none".into(),
                Ok(_) => "inconsistent".into(),
                Err(_) => "panic".into(),
            }
        }
        ["pos", i] => {
            let (Some(si), Ok(i)) = (slot.as_ref(), i.parse::<usize>()) else { return "bad-op".into() };
            match catch(|| si.get_pos_pair(i)) { Ok((l, c)) => format!("{l} {c}"), Err(_) => "panic".into() }
        }
        _ => "bad-op".into(),
    }
}

const ALPHA: [&str; 12] = ["a", "b", " ", "\t", "\n", "\n", "\r", "\r\n", "é", "\u{00A0}", "\u{2028}", "x"];

fn one(out: &mut Out, ex: &mut Exec, s: &str) {
    let set = format!("src set {}", hexs(s.as_bytes()));
    let r = ex.line(&set); out.op(&set, &r);
    queries(out, ex, s, &set, &r, "src line", "src pos");
}

/// every line and position query on the source `s` that the ops `line_op i` / `pos_op idx` speak about; `set` is the replay
/// prefix that established it and `r` the reply that reported the line count
fn queries(out: &mut Out, ex: &mut Exec, s: &str, set: &str, r: &str, line_op: &str, pos_op: &str) {
    let set = set.to_string();
    let nl = s.bytes().filter(|b| *b == b'\n').count();
    if r != format!("lines={}", nl + 1) { out.fail(out.lines, format!("count_lines of {:?} -> {r}, expected {}", s, nl + 1), set.clone()); }
    let parts: Vec<&str> = s.split('\n').collect();
    let mut starts = vec![0usize]; for (i, b) in s.bytes().enumerate() { if b == b'\n' { starts.push(i + 1); } }
    for i in 0..nl + 4 {
        let l = format!("{line_op} {i}"); let r = ex.line(&l); out.op(&l, &r); out.evaluations += 1;
        let expect = if i <= nl { let raw = parts[i]; let t = raw.trim(); let lead = raw.len() - raw.trim_start().len();
            let a = starts[i] + if t.is_empty() { raw.len() - (raw.len() - raw.trim_end().len()) - 0 } else { lead };
            let a = if t.is_empty() { starts[i] + raw.trim_end().len() } else { a };
            format!("span={}..{} text={}", a, a + t.len(), hexs(t.as_bytes())) } else { "none".into() };
        if r != expect { out.fail(out.lines, format!("line {i} of {:?}: {r}, expected {expect}", s), format!("{set}\n{l}")); }
    }
    for idx in 0..s.len() + 11 {
        let l = format!("{pos_op} {idx}"); let r = ex.line(&l); out.op(&l, &r); out.evaluations += 1;
        let line = if idx <= s.len() { s.as_bytes()[..idx].iter().filter(|b| **b == b'\n').count() } else { nl };
        let expect = format!("{} {}", line, idx - starts[line]);
        if r != expect { out.fail(out.lines, format!("get_pos_pair({idx}) of {:?}: {r}, expected {expect}", s), format!("{set}\n{l}")); }
    }
    out.hist.hit(&format!("lines_{}", (nl + 1).min(6)));
}

pub fn gen(out: &mut Out, ex: &mut Exec, seed: u64, thorough: bool) {
    let mut rng = Rng::new(seed);
    let mut seen = std::collections::HashSet::new();
    // exhaustive short strings over {a, space, \n, \r}
    let small = ["a", " ", "\n", "\r"];
    let maxlen = if thorough { 6 } else { 4 };
    for len in 0..=maxlen {
        let mut idx = vec![0usize; len];
        loop {
            let s: String = idx.iter().map(|i| small[*i]).collect();
            if seen.insert(s.clone()) { one(out, ex, &s); out.nontrivial += 1; }
            let mut k = len; let mut done = true;
            while k > 0 { k -= 1; idx[k] += 1; if idx[k] < small.len() { done = false; break; } idx[k] = 0; }
            if done { break; }
        }
    }
    let n = if thorough { 60_000 } else { 2_500 };
    for _ in 0..n {
        let len = rng.below(41);
        let s: String = (0..len).map(|_| *rng.pick(&ALPHA)).collect();
        if seen.insert(s.clone()) { out.nontrivial += 1; }
        one(out, ex, &s);
        if out.samples.len() < 3 && s.contains('\n') { let mut j = Json::obj(); j.set("source", Json::s(format!("{:?}", s))); out.sample(j); }
    }
    // the same queries on the source text of a LINKED symbol table (the two sources joined by one line feed): two small
    // programs whose texts end in comment lines over the rich alphabet, with and without trailing line breaks
    let nl = if thorough { 3_000 } else { 150 };
    for k in 0..nl {
        let mut mk = |rng: &mut Rng, org: &str| -> String {
            let mut t = format!(".orig {org}\nADD R0,R0,#0\n.end");
            for _ in 0..rng.below(3) { t.push_str(if rng.chance(1, 4) { "\r\n" } else { "\n" }); t.push(';'); for _ in 0..rng.below(8) { t.push_str(*rng.pick(&["a", "b", " ", "\t", "é", "\u{00A0}", "\u{2028}", "x", "\r"])); } }
            t.push_str(*rng.pick(&["", "\n", "\n\n", "\r\n", "  ", "\n \t"]));
            t
        };
        let (a, b) = (mk(&mut rng, "x3000"), mk(&mut rng, "x4000"));
        let l1 = format!("asm a 1 {}", hexs(a.as_bytes())); let r1 = ex.line(&l1); out.op(&l1, &r1);
        let l2 = format!("asm b 1 {}", hexs(b.as_bytes())); let r2 = ex.line(&l2); out.op(&l2, &r2);
        let l3 = "link c a b".to_string(); let r3 = ex.line(&l3); out.op(&l3, &r3);
        if !(r1.starts_with("ok ") && r2.starts_with("ok ") && r3.starts_with("ok ")) { out.fail(out.lines, format!("linked-source case {k} could not be built: {} / {} / {}", &r1[..r1.len().min(40)], &r2[..r2.len().min(40)], &r3[..r3.len().min(40)]), format!("{l1}\n{l2}\n{l3}")); continue; }
        let joined = format!("{a}\n{b}");
        let l4 = "oq c srclines".to_string(); let r4 = ex.line(&l4); out.op(&l4, &r4);
        let want = format!("lines={}", joined.bytes().filter(|x| *x == b'\n').count() + 1);
        let pre = format!("{l1}\n{l2}\n{l3}\n{l4}");
        if r4 != want { out.fail(out.lines, format!("count_lines of the linked source {:?} -> {r4}, expected {want}", joined), pre.clone()); }
        queries(out, ex, &joined, &pre, &want, "oq c srcline", "oq c srcpos");
        out.hist.hit("linked_source"); if a.ends_with('\n') { out.hist.hit("linked_first_ends_with_newline"); }
        if seen.insert(joined) { out.nontrivial += 1; }
    }
    out.rule = format!("all strings of length <= {maxlen} over {{a, space, LF, CR}}, then random strings (length 0-40) over an alphabet rich in LF, CRLF, lone CR, tab, space, NBSP, U+2028, multi-byte letters; for each string every line index 0..lines+2 (span + text) and every byte index 0..len+10 (position pair); oracle recomputes the expected answers from the text with split/trim; then the same queries on the source of a linked symbol table (two debug-assembled programs ending in comment lines over that alphabet, with and without trailing line breaks; expected text = first + LF + second). distinct = distinct source strings");
}
