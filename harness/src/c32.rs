//! C32 — MMIO dispatch across device/port-table op sequences (bounded-exhaustive + random), C31 — reproducibility.
use crate::util::*;
use crate::exec::Exec;
use std::collections::HashSet;

const ALPHA: [&str; 18] = [
    "sim rec 1 1 1000 fe10", "sim rec 1 0 2000 fe10,fe12", "sim rec 0 1 3000 fe00", "sim rec 1 1 4000 3000", "sim rec 1 1 5000 -",
    "sim rmdev 0", "sim rmdev 1", "sim rmdev 2", "sim rmdev 3", "sim rmdev 4", "sim kbset", "sim dsset",
    "sim mmap fe10 pc", "sim mmap fffc mcr", "sim munmap fe10",
    "sim hostread fe10 1 0 1 1", "sim hostwrite fe10 00aa ffff 1 0 1 1", "sim hostwrite fe00 4000 ffff 1 0 1 1",
];

fn run_seq(out: &mut Out, ex: &mut Exec, id: &str, ops: &[String]) {
    let mut v = vec![format!("case {id}"), "sim new 0 0 0 0 0000".to_string()];
    v.extend(ops.iter().cloned());
    v.push("sim hostread fe10 1 0 1 0".into()); v.push("sim hostread fe12 1 0 0 0".into()); v.push("sim hostread fe00 1 0 1 0".into());
    v.push("sim hostwrite fe12 0bad ffff 1 0 1 0".into()); v.push("sim hostread fe12 1 0 0 0".into());
    for i in 3..6 { v.push(format!("sim reclog {i}")); }
    v.push("sim iregs".into());
    for l in &v { let r = ex.line(l); if r.starts_with("panic") { out.fail(out.lines, format!("panic in {l}: {r}"), v.join("\n")); } out.op(l, &r); }
    out.evaluations += 1;
}

pub fn gen(out: &mut Out, ex: &mut Exec, seed: u64, thorough: bool) {
    let mut rng = Rng::new(seed);
    let maxlen = if thorough { 4 } else { 3 };
    // bounded-exhaustive
    let mut idx = vec![0usize; 0];
    let mut count = 0u64;
    for len in 0..=maxlen {
        idx = vec![0; len];
        loop {
            let ops: Vec<String> = idx.iter().map(|i| ALPHA[*i].to_string()).collect();
            run_seq(out, ex, &format!("x{count}"), &ops); count += 1;
            let mut k = len; let mut done = true;
            while k > 0 { k -= 1; idx[k] += 1; if idx[k] < ALPHA.len() { done = false; break; } idx[k] = 0; }
            if done || len == 0 { break; }
        }
    }
    out.hist.add("exhaustive_sequences", count as i64);
    out.nontrivial += count as i64;
    // random long sequences over a wider alphabet
    let n = if thorough { 40_000 } else { 1_500 };
    let mut seen = HashSet::new();
    for id in 0..n {
        let len = 5 + rng.below(36);
        let mut ops = vec![];
        for _ in 0..len {
            let port = |rng: &mut Rng| -> u16 { *rng.pick(&[0xFE00u16, 0xFE02, 0xFE04, 0xFE06, 0xFE10, 0xFE11, 0xFE12, 0xFFFC, 0xFFFE, 0xFFFF, 0x3000, 0xFDFF, 0xFE20]) };
            ops.push(match rng.below(12) {
                11 => { let k = 1 + rng.below(3); let ps: Vec<String> = (0..k).map(|_| hex16(port(&mut rng))).collect(); format!("sim nulldev {}", ps.join(",")) }
                0 | 1 => { let k = rng.below(4); let ps: Vec<String> = (0..k).map(|_| hex16(port(&mut rng))).collect(); format!("sim rec {} {} {} {} w{}", rng.below(2), rng.below(2), hex16(rng.u16()), if ps.is_empty() { "-".into() } else { ps.join(",") }, rng.below(3)) }
                2 => format!("sim rmdev {}", rng.below(8)),
                3 => (if rng.bool() { "sim kbset" } else { "sim dsset" }).to_string(),
                4 => format!("sim mmap {} {}", hex16(port(&mut rng)), rng.pick(&["pc", "psr", "mcr", "ssp"])),
                5 => format!("sim munmap {}", hex16(port(&mut rng))),
                6 | 7 => format!("sim hostread {} 1 0 {} {}", hex16(port(&mut rng)), rng.below(2), rng.below(2)),
                8 | 9 => format!("sim hostwrite {} {} ffff 1 0 1 {}", hex16(port(&mut rng)), hex16(rng.u16()), rng.below(2)),
                _ => format!("sim kbpush {:02x}", rng.below(256)),
            });
        }
        if seen.insert(crate::simx::fnv(ops.iter().flat_map(|l| l.bytes().map(|b| b as u64)))) { out.nontrivial += 1; }
        run_seq(out, ex, &format!("r{id}"), &ops);
        if out.samples.len() < 2 { let mut s = Json::obj(); s.set("ops", Json::Arr(ops.iter().map(|x| Json::s(x.clone())).collect())); out.sample(s); }
    }
    out.exhaustive = false;
    out.rule = format!("all sequences of length <= {maxlen} over an 18-op alphabet (add recording devices on {{xFE10}}, {{xFE10,xFE12}}, {{xFE00}}, {{x3000}}, {{}}; remove device 0-4; set_keyboard; set_display; mmap_internal xFE10/xFFFC; munmap; read/write xFE10, write KBSR), then random sequences of length 5-40 over a wider alphabet; after each sequence probe reads/writes, every recording device's call log and the internal-register map are compared with the model. distinct = distinct op sequence");
}

/// C31: two independent implementation runs of the same configuration must produce identical histories.
pub fn c31(out: &mut Out, ex: &mut Exec, seed: u64, thorough: bool) {
    let mut rng = Rng::new(seed);
    let n = if thorough { 4_000 } else { 160 };
    for id in 0..n {
        let mut prng = rng.fork();
        let prog = crate::simprops2::structured(&mut prng, true);
        let seeded = id % 2 == 0;
        // boundary seeds are part of the stream: 0 (must be an ordinary seed, not "unseeded"), 1, 2^64-1
        let mseed = match id % 16 { 0 => 0, 4 => 1, 8 => u64::MAX, _ => rng.below(1 << 30) };
        let fill = rng.u16();
        let mut v = vec![format!("case {id}")];
        v.push(if seeded { format!("sim newseed 0 0 0 0 {}", mseed) } else { format!("sim new 0 {} 0 0 {:04x}", rng.below(2), fill) });
        v.push("sim mmap fff0 ssp".into()); v.push("sim kbset".into()); v.push("sim dsset".into());
        v.push(format!("sim kbpush {}", (0..4).map(|_| format!("{:02x}", 0x61 + rng.below(26))).collect::<String>()));
        v.push(prog.rawmem());
        v.push("sim rawreg 6 fe00 ffff".into());
        v.push(format!("sim rawmem 0181 0200/ffff")); // timer vector -> an OS routine (E_BAD_TRAP region is fine: prints + halts) — replaced below
        v.pop();
        let (lo, hi) = { let lo = 2 + rng.below(10) as u32; (lo, lo + rng.below(8) as u32) };
        v.push("sim rawmem 1000 8000/ffff".into()); v.push("sim rawmem 0181 1000/ffff".into());
        // inclusive and end-exclusive ranges are sampled by different code paths of the timer
        let incl = rng.bool();
        out.hist.hit(if incl { "timer_range_inclusive" } else { "timer_range_half_open" });
        v.push(crate::c34::timer_line(lo, if incl { hi } else { hi + 2 }, incl, 0x81, 4, true, rng.below(1 << 20), 500));
        if !seeded { v.push("sim known".into()); }
        // a loaded block with reserved (.blkw) words: their data must stay what the initialisation strategy gave
        v.push(format!("sim load 3100:_,{:04x},_,_,{:04x},_", rng.u16(), rng.u16()));
        v.push("sim hostread 3100 1 0 0 0".into()); v.push("sim hostread 3103 1 0 0 0".into());
        for _ in 0..30 + rng.below(60) { v.push("sim step".into()); }
        v.push("sim run 20000".into()); v.push("sim memhash".into());
        // run 1 (recorded, compared with the model), run 2 in a fresh interpreter (compared with run 1)
        let mut r1 = vec![];
        let mut dump_lines: Vec<String> = vec![];
        for l in &v {
            let r = ex.line(l);
            if l.starts_with("sim newseed") {
                // tell the model the seeded image: full raw dump right after creation
                out.op(l, &r);
                for d in ex.sim.as_ref().map(|c| c.raw_dump()).unwrap_or_default() { let rr = ex.line(&d); out.op(&d, &rr); dump_lines.push(d); }
            } else { out.op(l, &r); }
            r1.push(r);
        }
        let mut ex2 = Exec::default();
        let r2: Vec<String> = v.iter().map(|l| ex2.line(l)).collect();
        out.evaluations += 2;
        // every fifth known-strategy case once more on a machine that is REUSED: an earlier user enabled keyboard interrupts
        // (KBSR bit 14) with nothing queued, then the machine was reset; from there on the history must be that of the fresh
        // machine (reset keeps the devices, so the configuration lines are not repeated)
        if !seeded && id % 5 == 1 {
            let k = v.iter().position(|l| l == "sim dsset").unwrap();
            let mut ex3 = Exec::default(); let mut r3: Vec<String> = vec![]; let mut all3: Vec<String> = vec![];
            for (i, l) in v.iter().enumerate() {
                let r = ex3.line(l); out.op(l, &r); all3.push(l.clone()); r3.push(r);
                if i == k { for p in ["sim hostwrite fe00 4000 ffff 1 0 1 0", "sim reset"] { let r = ex3.line(p); out.op(p, &r); all3.push(p.to_string()); } }
            }
            out.evaluations += 1;
            // the `chg=` field lists cells that differ from the interpreter's shadow copy, which the extra reset re-synchronises:
            // it is harness bookkeeping, not machine state (memory is compared by the closing `sim memhash`)
            let strip = |s: &str| -> String { s.split(' ').filter(|t| !t.starts_with("chg=")).collect::<Vec<_>>().join(" ") };
            if let Some(i) = (k + 1..v.len()).find(|&i| strip(&r1[i]) != strip(&r3[i])) {
                out.fail(out.lines, format!("a reset machine diverges from a fresh one with the same configuration at op {} `{}`: fresh `{}` vs reused `{}`", i, v[i], r1[i], r3[i]), all3.join("\n"));
            } else { out.hist.hit("reused_after_reset_identical"); }
        }
        if r1 != r2 {
            let i = r1.iter().zip(r2.iter()).position(|(a, b)| a != b).unwrap_or(0);
            out.fail(out.lines, format!("two runs of the same seeded configuration diverge at op {} `{}`: `{}` vs `{}`", i, v[i], r1[i], r2[i]), v.join("\n"));
        } else { out.hist.hit(if seeded { "seeded_pair_identical" } else { "known_pair_identical" }); }
        out.nontrivial += 1;
        if out.samples.len() < 2 { let mut s = Json::obj(); s.set("config", Json::Arr(v.iter().take(6).map(|x| Json::s(x.chars().take(100).collect::<String>())).collect())); s.set("final", Json::s(r1[r1.len() - 2].clone())); out.sample(s); }
    }
    // seeded timers through their whole configuration history (implementation only): two devices built with the same seed
    // and driven through the same sequence of range changes, exact counts, resets, enables and polls must agree after
    // every operation — also when the timer starts as an exact count and is widened later
    {
        use lc3_ensemble::sim::device::{ExternalDevice, TimerDevice};
        let m = if thorough { 4_000 } else { 200 };
        for k in 0..m {
            let tseed = rng.below(1 << 40);
            let shape = k % 4;
            let (a, b) = { let a = 1 + rng.below(9) as u32; (a, a + 1 + rng.below(9) as u32) };
            let mk = || -> TimerDevice { match shape { 0 => TimerDevice::new(Some(tseed), a..=a, 0x81, 4), 1 => TimerDevice::new(Some(tseed), a..=b, 0x81, 4), 2 => TimerDevice::new(Some(tseed), a..b, 0x81, 4), _ => TimerDevice::new(Some(tseed), 0..=b, 0x81, 4) } };
            let (mut t1, mut t2) = (mk(), mk());
            t1.enabled = true; t2.enabled = true;
            let mut ops = vec![];
            for _ in 0..20 + rng.below(40) { ops.push((rng.below(8), 1 + rng.below(12) as u32, rng.below(10) as u32)); }
            let mut trace = format!("seed={tseed} shape={shape} a={a} b={b}");
            let mut bad = None;
            for (i, (op, x, y)) in ops.iter().enumerate() {
                let f = |t: &mut TimerDevice| -> String { match op {
                    0 => { t.set_range(*x..=*x + *y); "range".into() }
                    1 => { t.set_range(*x..*x + *y + 1); "range-open".into() }
                    2 => { t.set_exact(*x); "exact".into() }
                    3 => { t.reset_remaining(); "reset".into() }
                    4 => { t.io_reset(); "ioreset".into() }
                    _ => { match t.poll_interrupt() { Some(_) => "fire".into(), None => "none".into() } } } };
                let (r1, r2) = (f(&mut t1), f(&mut t2));
                trace.push_str(&format!(" {}:{}", r1, t1.get_remaining()));
                if r1 != r2 || t1.get_remaining() != t2.get_remaining() { bad = Some((i, r1, r2, t1.get_remaining(), t2.get_remaining())); break; }
            }
            out.evaluations += 1;
            match bad {
                Some((i, r1, r2, g1, g2)) => out.fail(out.lines, format!("two timers with the same seed and history diverge at op {i}: {r1}/{g1} vs {r2}/{g2} :: {trace}"), trace.clone()),
                None => out.hist.hit(match shape { 0 => "twin_timers_exact_then_widened", 1 => "twin_timers_inclusive", 2 => "twin_timers_half_open", _ => "twin_timers_from_zero" }),
            }
        }
    }
    out.rule = "twin seeded timers (exact-then-widened, inclusive, half-open, from zero) driven through identical random histories of set_range / set_exact / reset / io_reset / poll must agree after every operation; generated programs with keyboard input and a seeded timer over an inclusive or an end-exclusive range (interrupt handler = RTI), machine initialised with Seeded{seed} (even cases; the full seeded image is dumped to the model) or Known{value} (odd cases; `sim known` checks every register and every word outside the OS image and the I/O page equals the value, uninitialised); 30-90 single steps then run to halt; run twice in independent interpreters: every op's digest (registers, PC, PSR, changed memory, interrupts via frames, output) must be identical, and run 1 is compared with the model; every fifth Known case is repeated on a machine reused after `reset` (an earlier user had enabled keyboard interrupts with nothing queued) and must match the fresh history".into();
}
