//! C34 — timer. `tim ...` ops drive a standalone TimerDevice; the samples the real StdRng draws are passed to the model.
use crate::util::*;
use crate::exec::Exec;
use lc3_ensemble::sim::device::{ExternalDevice, TimerDevice};

pub struct TimCtx { pub t: TimerDevice }

fn mk(seed: u64, lo: u32, hi: u32, incl: bool, vect: u8, prio: u8) -> Option<TimerDevice> {
    use std::ops::Bound::{Excluded, Included};
    if incl { if lo > hi { return None; } } else if lo >= hi { return None; }
    // the same set of values, written in every form `RangeBounds<u32>` allows (chosen by the seed): `lo..hi` / `lo..=hi`,
    // an unbounded start when lo = 0 (`..hi`, `..=hi`), an excluded start when lo >= 1
    Some(match (seed % 3, lo, incl) {
        (1, l, true) if hi == u32::MAX && l >= 1 => TimerDevice::new(Some(seed), l.., vect, prio),
        (1, 0, true) => TimerDevice::new(Some(seed), ..=hi, vect, prio),
        (1, 0, false) => TimerDevice::new(Some(seed), ..hi, vect, prio),
        (2, l, true) if l >= 1 => TimerDevice::new(Some(seed), (Excluded(l - 1), Included(hi)), vect, prio),
        (2, l, false) if l >= 1 => TimerDevice::new(Some(seed), (Excluded(l - 1), Excluded(hi)), vect, prio),
        (_, _, true) => TimerDevice::new(Some(seed), lo..=hi, vect, prio),
        (_, _, false) => TimerDevice::new(Some(seed), lo..hi, vect, prio),
    })
}

/// the first `n` values the timer's generator yields for this seed/range (s0 is the one drawn by `new`)
pub fn sample_stream(seed: u64, lo: u32, hi: u32, incl: bool, n: usize) -> Vec<u32> {
    let mut t = mk(seed, lo, hi, incl, 0, 0).expect("range");
    let mut v = vec![t.get_remaining()];
    for _ in 1..n { t.reset_remaining(); v.push(t.get_remaining()); }
    v
}

/// `sim timer` line with the sample stream appended for the model
pub fn timer_line(lo: u32, hi: u32, incl: bool, vect: u8, prio: u8, en: bool, seed: u64, nsamples: usize) -> String {
    let s = sample_stream(seed, lo, hi, incl, nsamples);
    format!("sim timer {} {} {} {:x} {} {} {} smp={}", lo, hi, incl as u8, vect, prio, en as u8, seed, s.iter().map(|x| x.to_string()).collect::<Vec<_>>().join(","))
}

fn show(t: &TimerDevice, res: &str) -> String { format!("rem={} en={} {}", t.get_remaining(), t.enabled as u8, res) }

/// `tim new seed lo hi incl vect prio [smp=..]` | `tim en b` | `tim poll [smp=..]` | `tim reset [smp=]` | `tim ioreset [smp=]`
/// | `tim range lo hi incl` | `tim exact n`
pub fn exec(slot: &mut Option<TimCtx>, t: &[&str]) -> String {
    match t {
        ["new", seed, lo, hi, incl, vect, prio, ..] => {
            let (Ok(seed), Ok(lo), Ok(hi), Ok(vect), Ok(prio)) = (seed.parse::<u64>(), lo.parse::<u32>(), hi.parse::<u32>(), u8::from_str_radix(vect, 16), prio.parse::<u8>()) else { return "bad-op".into() };
            match mk(seed, lo, hi, *incl == "1", vect, prio) { Some(d) => { let s = show(&d, "new"); *slot = Some(TimCtx { t: d }); s } None => "bad-range".into() }
        }
        _ => {
            let Some(c) = slot else { return "notimer".into() };
            match t {
                ["en", b] => { c.t.enabled = *b == "1"; show(&c.t, "ok") }
                ["poll", ..] => { let r = c.t.poll_interrupt(); let s = match r { Some(i) => format!("fire p{}", i.priority().unwrap_or(9)), None => "none".into() }; show(&c.t, &s) }
                ["reset", ..] => { c.t.reset_remaining(); show(&c.t, "ok") }
                ["ioreset", ..] => { c.t.io_reset(); show(&c.t, "ok") }
                ["range", lo, hi, incl] => {
                    let (Ok(lo), Ok(hi)) = (lo.parse::<u32>(), hi.parse::<u32>()) else { return "bad-op".into() };
                    if *incl == "1" { if lo > hi { return "bad-range".into(); } c.t.set_range(lo..=hi); } else { if lo >= hi { return "bad-range".into(); } c.t.set_range(lo..hi); }
                    show(&c.t, "ok")
                }
                ["exact", n] => { let Ok(n) = n.parse::<u32>() else { return "bad-op".into() }; c.t.set_exact(n); show(&c.t, "ok") }
                _ => "bad-op".into(),
            }
        }
    }
}

pub fn gen(out: &mut Out, ex: &mut Exec, seed: u64, thorough: bool) {
    let mut rng = Rng::new(seed);
    let n = if thorough { 20_000 } else { 500 };
    let polls = if thorough { 3000 } else { 1200 };
    for id in 0..n {
        let (lo, hi, incl) = match rng.below(8) {
            0 => { let k = rng.below(6) as u32; (k, k, true) }
            1 => (0, rng.below(4) as u32, true),
            2 => { let k = 1 + rng.below(100) as u32; (k, k, true) }
            3 => { let lo = rng.below(20) as u32; (lo, lo + 1 + rng.below(30) as u32, false) }
            4 => (1_000_000, 1_000_050, true),
            // ranges that end at u32::MAX (`n..`, `..=u32::MAX`): the upper end must not be incremented
            5 => (u32::MAX - rng.below(3) as u32, u32::MAX, true),
            _ => { let lo = rng.below(30) as u32; (lo, lo + rng.below(40) as u32, true) }
        };
        let (lo_e, hi_e) = (lo, if incl { hi } else { hi - 1 });
        let tseed = rng.below(1 << 20);
        let c = format!("case {id}"); let r = ex.line(&c); out.op(&c, &r);
        let mut all = vec![c];
        // create (impl first, so the drawn sample can be told to the model)
        let l0 = format!("tim new {} {} {} {} 81 {}", tseed, lo, hi, incl as u8, rng.below(9));
        let r0 = ex.line(&l0);
        let rem = |r: &str| -> u32 { crate::c08::field(r, "rem").and_then(|x| x.parse().ok()).unwrap_or(0) };
        let l0m = format!("{l0} smp={}", rem(&r0)); out.op(&l0m, &r0); all.push(l0m);
        let mut enabled = false; let mut cur_rem = rem(&r0);
        let mut range_stable_since_fire = false; let mut gap: i64 = -1; let mut polls_since_arm: i64 = -1;
        // a reset (reset_remaining / io_reset) draws from the current range, enabled or not: from then on the range is "unchanged"
        // for the first-interrupt bound, until the next set_range / set_exact
        let mut range_stable_since_reset = true;
        let (mut rlo, mut rhi) = (lo_e as i64, hi_e as i64);
        let mut fires = 0;
        for _ in 0..polls {
            let (base, draws): (String, bool) = match rng.below(if id % 3 == 0 { 60 } else { 1000 }) {
                0 => { enabled = !enabled; polls_since_arm = if enabled { 0 } else { -1 }; gap = -1; (format!("tim en {}", enabled as u8), false) }
                1 => { gap = -1; polls_since_arm = if enabled { 0 } else { -1 }; range_stable_since_reset = true; ("tim reset".into(), true) }
                2 => { gap = -1; polls_since_arm = if enabled { 0 } else { -1 }; range_stable_since_reset = true; ("tim ioreset".into(), true) }
                3 => { let k = 1 + rng.below(20) as u32; rlo = k as i64; rhi = k as i64; gap = -1; range_stable_since_fire = false; range_stable_since_reset = false; polls_since_arm = -1; (format!("tim exact {k}"), false) }
                4 => { let a = rng.below(10) as u32; let b = a + rng.below(10) as u32; rlo = a as i64; rhi = b as i64; gap = -1; range_stable_since_fire = false; range_stable_since_reset = false; polls_since_arm = -1; (format!("tim range {a} {b} 1"), false) }
                _ => ("tim poll".into(), enabled && cur_rem == 0),
            };
            let r = ex.line(&base);
            let line = if draws { format!("{base} smp={}", rem(&r)) } else { base.clone() };
            out.op(&line, &r); all.push(line); out.evaluations += 1;
            cur_rem = rem(&r);
            if base == "tim poll" {
                let fired = r.contains("fire");
                if !enabled && fired { out.fail(out.lines, format!("disabled timer fired: {r}"), all.join("\n")); }
                if enabled {
                    if fired {
                        fires += 1;
                        if gap >= 0 && range_stable_since_fire && !(rlo <= gap && gap <= rhi) { out.fail(out.lines, format!("{gap} polls between consecutive interrupts, range [{rlo},{rhi}]"), all.join("\n")); }
                        if gap >= 0 && range_stable_since_fire { out.hist.hit(if rlo == rhi { "gap_exact_checked" } else { "gap_range_checked" }); }
                        if polls_since_arm >= 0 && polls_since_arm + 1 > rhi + 1 && (range_stable_since_fire || range_stable_since_reset) { out.fail(out.lines, format!("first interrupt after enable/reset at poll {} > max+1 = {}", polls_since_arm + 1, rhi + 1), all.join("\n")); }
                        gap = 0; range_stable_since_fire = true; polls_since_arm = -1;
                    } else { if gap >= 0 { gap += 1; if range_stable_since_fire && gap > rhi { out.fail(out.lines, format!("more than {rhi} polls without an interrupt after the previous one"), all.join("\n")); gap = -1; } } if polls_since_arm >= 0 { polls_since_arm += 1;
                        if polls_since_arm > rhi + 1 && (range_stable_since_fire || range_stable_since_reset) { out.fail(out.lines, format!("no interrupt within max+1 = {} polls after enable/reset (range [{rlo},{rhi}])", rhi + 1), all.join("\n")); polls_since_arm = -1; } } }
                }
            }
        }
        out.hist.add("fires", fires);
        out.hist.hit(if lo_e == 0 { "range_contains_0" } else if lo_e == hi_e { "exact" } else { "range" });
        if fires >= 2 { out.nontrivial += 1; }
        if out.samples.len() < 3 { let mut s = Json::obj(); s.set("ops", Json::Arr(all.iter().take(14).map(|x| Json::s(x.clone())).collect())); out.sample(s); }
    }
    out.rule = "standalone TimerDevice: random exact counts (incl. 0 and 1), ranges (incl. ranges containing 0, exclusive upper bounds, huge values, ranges ending at u32::MAX incl. `n..`), seeds; long poll sequences with enable/disable toggles, reset_remaining, io_reset, set_range/set_exact mid-run (every third timer reconfigured often); remaining time, enabled flag and fire/none compared with the model after every op (the model consumes the samples the real StdRng drew); oracle: polls strictly between consecutive interrupts within the range, first interrupt within max+1 polls of enable/reset, disabled never fires. non-trivial = at least 2 interrupts".into();
}
