//! C35 — exhaustive: every i16 / u16 value for every N in 1..=16 through Offset::new / new_trunc / get.
use crate::util::*;
use crate::exec::Exec;
use lc3_ensemble::ast::{Offset, OffsetNewErr};

fn res_str<T: Copy + Into<i32>, const N: u32>(r: Result<Offset<T, N>, OffsetNewErr>) -> String
    where Offset<T, N>: OffGet {
    match r {
        Ok(o) => format!("ok {}", hex16(o.get_u16())),
        Err(OffsetNewErr::CannotFitSigned(n)) => format!("err S {n}"),
        Err(OffsetNewErr::CannotFitUnsigned(n)) => format!("err U {n}"),
    }
}
pub trait OffGet { fn get_u16(&self) -> u16; }
impl<const N: u32> OffGet for Offset<i16, N> { fn get_u16(&self) -> u16 { self.get() as u16 } }
impl<const N: u32> OffGet for Offset<u16, N> { fn get_u16(&self) -> u16 { self.get() } }

macro_rules! dispatch {
    ($n:expr, $signed:expr, $trunc:expr, $v:expr, $($k:literal),*) => {
        match ($n, $signed, $trunc) {
            $(
                ($k, true, false)  => catch(|| res_str(Offset::<i16, $k>::new($v as i16))),
                ($k, false, false) => catch(|| res_str(Offset::<u16, $k>::new($v))),
                ($k, true, true)   => catch(|| format!("ok {}", hex16(Offset::<i16, $k>::new_trunc($v as i16).get() as u16))),
                ($k, false, true)  => catch(|| format!("ok {}", hex16(Offset::<u16, $k>::new_trunc($v).get()))),
            )*
            _ => Ok("bad-op".to_string()),
        }
    };
}

/// `off S|U n vhex` / `offt S|U n vhex`
pub fn exec(trunc: bool, args: &[&str]) -> String {
    if args.len() != 3 { return "bad-op".into(); }
    let signed = match args[0] { "S" => true, "U" => false, _ => return "bad-op".into() };
    let (Ok(n), Ok(v)) = (args[1].parse::<u32>(), u16::from_str_radix(args[2], 16)) else { return "bad-op".into() };
    let r = dispatch!(n, signed, trunc, v, 0, 1, 2, 3, 4, 5, 6, 7, 8, 9, 10, 11, 12, 13, 14, 15, 16, 17);
    r.unwrap_or_else(|_| "panic".into())
}

pub fn gen(out: &mut Out, ex: &mut Exec, _seed: u64, _thorough: bool) {
    for n in 1u32..=16 {
        for v in 0..=u16::MAX {
            let iv = v as i16 as i32;
            let low = (v as u32) & ((1u32 << n) - 1);
            for (sg, trunc) in [("S", false), ("S", true), ("U", false), ("U", true)] {
                let line = format!("{} {} {} {}", if trunc { "offt" } else { "off" }, sg, n, hex16(v));
                let r = ex.line(&line);
                // property oracle, computed arithmetically
                let expect = match (sg, trunc) {
                    ("S", false) => if -(1i32 << (n - 1)) <= iv && iv < (1i32 << (n - 1)) { format!("ok {}", hex16(v)) } else { format!("err S {n}") },
                    ("U", false) => if (v as u32) < (1u32 << n) { format!("ok {}", hex16(v)) } else { format!("err U {n}") },
                    ("S", true) => { let e = if low >> (n - 1) & 1 == 1 { (low as i32) - (1i32 << n) } else { low as i32 }; format!("ok {}", hex16(e as i16 as u16)) },
                    _ => format!("ok {}", hex16(low as u16)),
                };
                if r != expect { out.fail(out.lines, format!("{line} -> {r}, expected {expect}"), line.clone()); }
                out.hist.hit(&format!("{}_{}_{}", if trunc { "trunc" } else { "new" }, sg, &r[..2]));
                if n == 5 && v == 16 { let mut s = Json::obj(); s.set("op", Json::s(line.clone())); s.set("impl", Json::s(r.clone())); out.sample(s); }
                out.op(&line, &r);
                out.evaluations += 1;
            }
        }
    }
    out.exhaustive = true;
    out.nontrivial = out.evaluations;
    out.rule = "exhaustive: every u16/i16 bit pattern x N in 1..=16 x {new,new_trunc} x {signed,unsigned}; all cases distinct by construction; non-trivial = all (each is a different (N,value,op)); plus, where offsets are created from source text: literals at the N-bit edges in every operand position (three notations, minus-signed forms), and label operands at the exact N-bit distance edges from instructions at bases on both sides of x7FFF/x8000 (oracle: the true distance fits N bits)".into();
    // the same rule where offsets are created from source text: a non-negative literal written in an N-bit signed operand
    // position fits exactly when it is below 2^(N-1) (no reinterpretation of x8000..xFFFF as negative), an unsigned one
    // (TRAP vector) exactly when it is below 2^N
    for (pre, n, signed) in [("ADD R0, R0, ", 5u32, true), ("AND R0, R0, ", 5, true), ("LDR R0, R1, ", 6, true), ("STR R0, R1, ", 6, true), ("BRnzp ", 9, true), ("LD R0, ", 9, true), ("LEA R0, ", 9, true), ("JSR ", 11, true), ("TRAP ", 8, false)] {
        let lim = if signed { 1u32 << (n - 1) } else { 1u32 << n };
        let mut vals: Vec<u32> = vec![0, 1, lim - 1, lim, lim + 1, 2 * lim - 1, 2 * lim, 0x7FFF, 0x8000, 0x8001, 0xFFFF, 0xFFFE, 0x10000 - lim, 0x10000 - lim - 1, 0xFC00, 0xFF00, 0xFFE0, 0xFFF0];
        vals.sort(); vals.dedup();
        for v in vals { for t in [format!("#{v}"), format!("x{:X}", v), format!("{v}")] {
            let text = format!("{pre}{t}");
            let line = format!("parse {}", crate::c25::hexs(text.as_bytes()));
            let r = ex.line(&line);
            let accept = v < lim;
            if r.starts_with("ok 1 ::") != accept { out.fail(out.lines, format!("`{text}`: accepted={}, expected {accept} ({r})", r.starts_with("ok 1 ::")), line.clone()); }
            out.hist.hit(if accept { "parsed_literal_fits" } else { "parsed_literal_rejected" });
            out.op(&line, &r); out.evaluations += 1;
        } }
    }
    // minus-signed literals: -v fits an N-bit signed position exactly when v <= 2^(N-1); an unsigned position (TRAP vector,
    // .orig address; `.blkw 0` is rejected for another reason) accepts a minus-signed literal exactly when it is zero (`#-0`, `-0`, `x-0`)
    for (pre, n, signed) in [("ADD R0, R0, ", 5u32, true), ("LDR R0, R1, ", 6, true), ("BRnzp ", 9, true), ("LD R0, ", 9, true), ("JSR ", 11, true), ("TRAP ", 8, false), (".orig ", 16, false)] {
        let half = 1u32 << (n - 1);
        let mut vals: Vec<u32> = vec![0, 1, 2, half - 1, half, half + 1, 2 * half - 1, 2 * half, 0x7FFF, 0x8000];
        vals.sort(); vals.dedup();
        for v in vals { for t in [format!("#-{v}"), format!("x-{:X}", v), format!("-{v}")] {
            let text = format!("{pre}{t}");
            let line = format!("parse {}", crate::c25::hexs(text.as_bytes()));
            let r = ex.line(&line);
            let accept = if signed { v <= half } else { v == 0 };
            if r.starts_with("ok 1 ::") != accept { out.fail(out.lines, format!("`{text}`: accepted={}, expected {accept} ({r})", r.starts_with("ok 1 ::")), line.clone()); }
            out.hist.hit(if accept { "parsed_negative_literal_fits" } else { "parsed_negative_literal_rejected" });
            out.op(&line, &r); out.evaluations += 1;
        } }
    }
    // offsets computed from LABELS: the distance from the incremented PC to the label fits an N-bit signed operand exactly when
    // -2^(N-1) <= distance < 2^(N-1), wherever in the address space the instruction sits (in particular with PC and label
    // on opposite sides of x7FFF/x8000, where a signed 16-bit subtraction overflows)
    for (mn, n) in [("LD R0, ", 9u32), ("ST R0, ", 9), ("LEA R0, ", 9), ("LDI R0, ", 9), ("BRnzp ", 9), ("JSR ", 11)] {
        let half = 1i32 << (n - 1);
        for base in [0x3000u32, 0x7F00, 0x7FF0, 0x7FFE, 0x7FFF, 0x8000, 0x8001, 0x8100, 0xC000] {
            for dist in [-half - 1, -half, -half + 1, -2, -1, 0, 1, 2, half - 2, half - 1, half, half + 1] {
                // instruction at `base`; label at base + 1 + dist
                let target = base as i32 + 1 + dist;
                if target < 0x0200 || target > 0xFD00 { continue; }
                let text = if target <= base as i32 {
                    // label first (at `target`), then filler, then the instruction at `base`
                    let fill = base as i32 - target - 1;
                    if fill < 0 { format!(".orig x{:X}\nL {}L\n.end\n", target, mn) }
                    else if fill == 0 { format!(".orig x{:X}\nL .fill 0\n{}L\n.end\n", target, mn) }
                    else { format!(".orig x{:X}\nL .fill 0\n.blkw {}\n{}L\n.end\n", target, fill, mn) }
                } else {
                    let fill = target - base as i32 - 1;
                    if fill == 0 { format!(".orig x{:X}\n{}L\nL .fill 0\n.end\n", base, mn) }
                    else { format!(".orig x{:X}\n{}L\n.blkw {}\nL .fill 0\n.end\n", base, mn, fill) }
                };
                let line = format!("asm s 0 {}", crate::c25::hexs(text.as_bytes()));
                let r = ex.line(&line);
                let accept = -half <= dist && dist < half;
                if r.starts_with("ok ") != accept { out.fail(out.lines, format!("label operand at distance {dist} from x{:04X} ({mn}N={n}): accepted={}, expected {accept} ({})", base, r.starts_with("ok "), r.chars().take(80).collect::<String>()), line.clone()); }
                out.hist.hit(if accept { "label_distance_fits" } else { "label_distance_rejected" });
                out.op(&line, &r); out.evaluations += 1;
            }
        }
    }
    // N outside 1..=16 panics (documented); two instances, outside the property's quantifier.
    for line in ["off S 17 0012", "off U 0 0000"] { let r = ex.line(line); out.op(line, &r); }
}
