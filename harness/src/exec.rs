//! Interpreter of the line protocol on the *implementation* (the Lean driver interprets the same lines on the model).
use crate::*;

#[derive(Default)]
pub struct Exec {
    pub sim: Option<simx::SimCtx>,
    pub tim: Option<c34::TimCtx>,
    pub src: Option<lc3_ensemble::asm::SourceInfo>,
    pub objs: objx::Slots,
}

impl Exec {
    pub fn line(&mut self, line: &str) -> String {
        let toks: Vec<&str> = line.trim().split(' ').collect();
        match toks[0] {
            "case" => line.trim().to_string(),
            "sim" => simx::exec(&mut self.sim, &toks[1..]),
            "tim" => c34::exec(&mut self.tim, &toks[1..]),
            "src" => c25::exec(&mut self.src, &toks[1..]),
            "lex" => lexp::exec_lex(&toks[1..]),
            "parse" => lexp::exec_parse(&toks[1..]),
            "print" => lexp::exec_print(&toks[1..]),
            "disasm" => lexp::exec_disasm(&toks[1..]),
            "asm" | "link" | "odump" | "oq" | "bser" | "bde" | "tser" | "tde" | "oload" => objx::exec(&mut self.objs, &mut self.sim, &toks),
            "off" => c35::exec(false, &toks[1..]),
            "offt" => c35::exec(true, &toks[1..]),
            "wop" => c15::exec(&toks[1..]),
            "dec" => c06::exec_dec(&toks[1..]),
            "enc" => c06::exec_enc(&toks[1..]),
            _ => "bad-op".into(),
        }
    }
}
