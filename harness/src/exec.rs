//! Interpreter of the line protocol on the *implementation* (the Lean driver interprets the same lines on the model).
use crate::*;

#[derive(Default)]
pub struct Exec {
}

impl Exec {
    pub fn line(&mut self, line: &str) -> String {
        let toks: Vec<&str> = line.trim().split(' ').collect();
        match toks[0] {
            "off" => c35::exec(false, &toks[1..]),
            "offt" => c35::exec(true, &toks[1..]),
            "wop" => c15::exec(&toks[1..]),
            "dec" => c06::exec_dec(&toks[1..]),
            "enc" => c06::exec_enc(&toks[1..]),
            _ => "bad-op".into(),
        }
    }
}
