//! Lexer fidelity: all short strings over a token-rich alphabet + random token soups, token by token with spans.
use crate::util::*;
use crate::exec::Exec;
use crate::c25::hexs;

pub const ALPHA: [&str; 40] = ["a", "x", "X", "R", "r", "0", "1", "7", "8", "9", "A", "F", "f", "G", "#", "-", ".", ",", ":", ";",
    "\"", "\\", "_", " ", "\t", "\n", "\r", "é", "٣", "→", "n", "B", "ß", "+", "@", "ſ", "\u{00A0}", "😀", "d", "5"];

pub fn lex_one(out: &mut Out, ex: &mut Exec, s: &str) {
    let l = format!("lex {}", hexs(s.as_bytes()));
    let r = ex.line(&l);
    if r.starts_with("panic") { out.fail(out.lines, format!("lexer panicked on {:?}: {r}", s), l.clone()); }
    // span sanity on the implementation: every span within the text, on char boundaries, non-empty, increasing
    let mut last = 0usize;
    for t in r.split(' ') { if let Some((_, sp)) = t.rsplit_once('@') { if let Some((a, b)) = sp.split_once("..") { if let (Ok(a), Ok(b)) = (a.parse::<usize>(), b.parse::<usize>()) {
        if !(a < b && b <= s.len() && a >= last && s.is_char_boundary(a) && s.is_char_boundary(b)) { out.fail(out.lines, format!("bad token span {t} for {:?}", s), l.clone()); }
        last = b;
    } } } }
    out.hist.hit(if r.contains(" E") || r.starts_with('E') { "lex_error" } else { "lex_ok" });
    out.op(&l, &r); out.evaluations += 1;
}

pub fn gen(out: &mut Out, ex: &mut Exec, seed: u64, thorough: bool, maxlen_quick: usize) {
    let maxlen = if thorough { maxlen_quick + 1 } else { maxlen_quick };
    let mut count = 0i64;
    for len in 0..=maxlen {
        let mut idx = vec![0usize; len];
        loop {
            let s: String = idx.iter().map(|i| ALPHA[*i]).collect();
            lex_one(out, ex, &s); count += 1;
            let mut k = len; let mut done = true;
            while k > 0 { k -= 1; idx[k] += 1; if idx[k] < ALPHA.len() { done = false; break; } idx[k] = 0; }
            if done { break; }
        }
    }
    out.nontrivial += count;
    out.hist.add("exhaustive_short_strings", count);
    let mut rng = Rng::new(seed ^ 0x1e);
    let n = if thorough { 300_000 } else { 15_000 };
    let words = ["ADD", "add", "BRnzp", "brz", "R0", "r7", "R8", "R10", "x3000", "xFFFF", "x10000", "x-1", "X-8000", "x-8001", "#5", "#-5", "-32768", "-32769", "65535", "65536",
        "#65535", "##", "-#1", "x", "xyz", ".orig", ".FILL", ".stringz", ".é", "\"hi\"", "\"a\\nb\"", "\"q\\\"q\"", "\"unclosed", "\"back\\", "\"u\\é\"", "LOOP", "loop:", "_x1", "1abc", "0007", "R007",
        ";comment", "; c\r", "\r\n", "\n", ",", ":", "jſr", "ldı", "aé", "é", "٣", "x٣", "→", "#-", "x-", "-", "#", "R", "r1x", "Xg", "xA", "BRZP", "halt", "PUTSP"];
    let mut seen = std::collections::HashSet::new();
    for _ in 0..n {
        let k = 1 + rng.below(6);
        let mut s = String::new();
        for _ in 0..k { if rng.chance(3, 4) { s.push_str(*rng.pick(&words)); } else { for _ in 0..1 + rng.below(4) { s.push_str(*rng.pick(&ALPHA)); } } s.push_str(*rng.pick(&[" ", " ", "\t", "", ",", "\n", ", "])); }
        if seen.insert(s.clone()) { out.nontrivial += 1; }
        lex_one(out, ex, &s);
        if out.samples.len() < 4 { let mut j = Json::obj(); j.set("text", Json::s(format!("{:?}", s))); out.sample(j); }
    }
}
