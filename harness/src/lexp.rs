//! `lex <hex>` / `parse <hex>`: the real lexer and parser on a text (hex-encoded UTF-8), canonical output.
use crate::util::*;
use crate::c25::{hexs, unhex};
use logos::Logos;
use lc3_ensemble::parse::lex::{Ident, LexErr, Token};

pub fn lexerr(e: LexErr) -> &'static str {
    match e {
        LexErr::DoesNotFitU16 => "nofitu16", LexErr::DoesNotFitI16 => "nofiti16", LexErr::InvalidHex => "badhex",
        LexErr::InvalidNumeric => "baddec", LexErr::InvalidHexEmpty => "emptyhex", LexErr::InvalidDecEmpty => "emptydec",
        LexErr::UnknownIntErr => "unknownint", LexErr::UnclosedStrLit => "unclosed", LexErr::StrLitTooBig => "strbig",
        LexErr::InvalidReg => "badreg", LexErr::InvalidSymbol => "badsym",
    }
}
pub fn tok(t: &Token) -> String {
    match t {
        Token::Unsigned(n) => format!("U{}", n), Token::Signed(n) => format!("S{}", n), Token::Reg(r) => format!("R{}", r),
        Token::Ident(Ident::Label(s)) => format!("L{}", hexs(s.as_bytes())), Token::Ident(i) => format!("K{}", i),
        Token::Directive(s) => format!("D{}", hexs(s.as_bytes())), Token::String(s) => format!("Q{}", hexs(s.as_bytes())),
        Token::Colon => ":".into(), Token::Comma => ",".into(), Token::Comment => ";".into(), Token::NewLine => "N".into(),
    }
}
/// `lex <hex>`: all tokens up to and including the first error, each with its byte span
pub fn exec_lex(args: &[&str]) -> String {
    let Some(b) = args.first().and_then(|h| unhex(h)) else { return "bad-op".into() };
    let Ok(s) = String::from_utf8(b) else { return "bad-utf8".into() };
    match catch(|| {
        let mut out = vec![];
        for (t, sp) in Token::lexer(&s).spanned() {
            match t { Ok(t) => out.push(format!("{}@{}..{}", tok(&t), sp.start, sp.end)), Err(e) => { out.push(format!("E{}@{}..{}", lexerr(e), sp.start, sp.end)); break; } }
        }
        out.join(" ")
    }) { Ok(s) => if s.is_empty() { "-".into() } else { s }, Err(m) => format!("panic {}", m.replace(' ', "_")) }
}

use lc3_ensemble::ast::asm::{AsmInstr, Directive, Stmt, StmtKind};
use lc3_ensemble::ast::{ImmOrReg, Label, PCOffset, Reg};
use lc3_ensemble::err::Error as _;

fn lbl(l: &Label) -> String { format!("l{}@{}", hexs(l.name.as_bytes()), l.span().start) }
fn pc<const N: u32>(o: &PCOffset<i16, N>) -> String { match o { PCOffset::Offset(v) => format!("o{}", v.get()), PCOffset::Label(l) => lbl(l) } }
fn pcu(o: &PCOffset<u16, 16>) -> String { match o { PCOffset::Offset(v) => format!("o{}", v.get()), PCOffset::Label(l) => lbl(l) } }
fn ir<const N: u32>(o: &ImmOrReg<N>) -> String { match o { ImmOrReg::Imm(v) => format!("i{}", v.get()), ImmOrReg::Reg(r) => format!("r{}", r.reg_no()) } }
fn rg(r: &Reg) -> u8 { r.reg_no() }

pub fn canon_instr(i: &AsmInstr) -> String {
    match i {
        AsmInstr::ADD(d, s, o) => format!("add {} {} {}", rg(d), rg(s), ir(o)), AsmInstr::AND(d, s, o) => format!("and {} {} {}", rg(d), rg(s), ir(o)),
        AsmInstr::BR(cc, o) => format!("br {} {}", cc, pc(o)), AsmInstr::JMP(b) => format!("jmp {}", rg(b)), AsmInstr::JSR(o) => format!("jsr {}", pc(o)),
        AsmInstr::JSRR(b) => format!("jsrr {}", rg(b)), AsmInstr::LD(d, o) => format!("ld {} {}", rg(d), pc(o)), AsmInstr::LDI(d, o) => format!("ldi {} {}", rg(d), pc(o)),
        AsmInstr::LDR(d, b, o) => format!("ldr {} {} i{}", rg(d), rg(b), o.get()), AsmInstr::LEA(d, o) => format!("lea {} {}", rg(d), pc(o)),
        AsmInstr::NOT(d, s) => format!("not {} {}", rg(d), rg(s)), AsmInstr::RET => "ret".into(), AsmInstr::RTI => "rti".into(),
        AsmInstr::ST(s, o) => format!("st {} {}", rg(s), pc(o)), AsmInstr::STI(s, o) => format!("sti {} {}", rg(s), pc(o)),
        AsmInstr::STR(s, b, o) => format!("str {} {} i{}", rg(s), rg(b), o.get()), AsmInstr::TRAP(v) => format!("trap {}", v.get()), AsmInstr::NOP(o) => format!("nop {}", pc(o)),
        AsmInstr::GETC => "getc".into(), AsmInstr::OUT => "out".into(), AsmInstr::PUTC => "putc".into(), AsmInstr::PUTS => "puts".into(),
        AsmInstr::IN => "in".into(), AsmInstr::PUTSP => "putsp".into(), AsmInstr::HALT => "halt".into(),
    }
}
pub fn canon_directive(d: &Directive) -> String {
    match d {
        Directive::Orig(a) => format!(".orig {}", a.get()), Directive::Fill(v) => format!(".fill {}", pcu(v)), Directive::Blkw(n) => format!(".blkw {}", n.get()),
        Directive::Stringz(s) => format!(".stringz {}", hexs(s.as_bytes())), Directive::End => ".end".into(), Directive::External(l) => format!(".external {}", lbl(l)),
    }
}
pub fn canon_stmt(s: &Stmt) -> String {
    let ls: Vec<String> = s.labels.iter().map(lbl).collect();
    let k = match &s.nucleus { StmtKind::Instr(i) => canon_instr(i), StmtKind::Directive(d) => canon_directive(d) };
    format!("[{}] {} @{}..{}", ls.join(","), k, s.span.start, s.span.end)
}
pub fn text_arg(args: &[&str]) -> Result<String, String> {
    let b = args.first().and_then(|h| unhex(h)).ok_or("bad-op")?;
    String::from_utf8(b).map_err(|_| "bad-utf8".to_string())
}
/// `parse <hex>`
pub fn exec_parse(args: &[&str]) -> String {
    let s = match text_arg(args) { Ok(s) => s, Err(e) => return e };
    match catch(|| lc3_ensemble::parse::parse_ast(&s)) {
        Ok(Ok(ss)) => format!("ok {} :: {}", ss.len(), ss.iter().map(canon_stmt).collect::<Vec<_>>().join(" || ")),
        Ok(Err(e)) => { let sp = catch(|| e.span().map(|x| x.first())).ok().flatten().unwrap_or(0..0); format!("err {} @{}..{}", hexs(e.to_string().as_bytes()), sp.start, sp.end) }
        Err(m) => format!("panic {}", m.replace(' ', "_")),
    }
}
/// `print <hex>`: parse, Display each statement
pub fn exec_print(args: &[&str]) -> String {
    let s = match text_arg(args) { Ok(s) => s, Err(e) => return e };
    match catch(|| lc3_ensemble::parse::parse_ast(&s)) {
        Ok(Ok(ss)) => format!("ok {}", hexs(ss.iter().map(|x| x.to_string()).collect::<Vec<_>>().join("\n").as_bytes())),
        Ok(Err(_)) => "err".into(),
        Err(m) => format!("panic {}", m.replace(' ', "_")),
    }
}
/// `disasm <whex>`
pub fn exec_disasm(args: &[&str]) -> String {
    let Some(w) = args.first().and_then(|s| u16::from_str_radix(s, 16).ok()) else { return "bad-op".into() };
    match catch(|| {
        use lc3_ensemble::ast::asm::{disassemble, disassemble_line};
        let s = disassemble_line(w).to_string();
        // the slice API must be the word-by-word map of `disassemble_line`
        let v = disassemble(&[w, !w, w.rotate_left(3)]);
        let ok = v.len() == 3 && v[0].to_string() == s && v[1].to_string() == disassemble_line(!w).to_string() && v[2].to_string() == disassemble_line(w.rotate_left(3)).to_string();
        (s, ok)
    }) { Ok((s, true)) => hexs(s.as_bytes()), Ok((_, false)) => "slice-mismatch".into(), Err(_) => "panic".into() }
}
