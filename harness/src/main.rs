//! lc3v-harness: drives the real lc3-ensemble code for the correspondence check (DESIGN §2.1).
//! usage: lc3v-harness <subcommand> --seed N --tier quick|thorough --out DIR
//!        lc3v-harness exec < ops.txt        (replay: interpret op lines on the implementation)
mod util;
mod exec;
mod c35;
mod c15;
mod c06;
mod simx;
mod simgen;
mod c08;
mod simprops;
mod simprog;
mod simprops2;
mod c34;
mod c32;
mod c25;
mod lexp;
mod lexgen;
mod objx;
mod asmgen;
mod asmprops;
mod proggen;
mod parseprops;

use std::io::{BufRead, Write};
use std::path::PathBuf;

fn main() {
    let args: Vec<String> = std::env::args().collect();
    if args.len() < 2 { eprintln!("usage: lc3v-harness <sub> --seed N --tier T --out DIR"); std::process::exit(2); }
    let sub = args[1].clone();
    let mut seed = 1u64; let mut thorough = false; let mut out = PathBuf::from("out");
    let mut i = 2;
    while i < args.len() {
        match args[i].as_str() {
            "--seed" => { seed = args[i + 1].parse().unwrap_or(1); i += 2; }
            "--tier" => { thorough = args[i + 1] == "thorough"; i += 2; }
            "--out" => { out = PathBuf::from(&args[i + 1]); i += 2; }
            _ => { i += 1; }
        }
    }
    if std::env::var("LC3V_PANICS").is_err() { util::silence_panics(); }
    let mut ex = exec::Exec::default();
    if sub == "exec" {
        let stdin = std::io::stdin();
        let stdout = std::io::stdout();
        let mut w = std::io::BufWriter::new(stdout.lock());
        for l in stdin.lock().lines() { let l = l.unwrap(); writeln!(w, "{}", ex.line(&l)).unwrap(); }
        return;
    }
    if sub == "osdump" {
        // the OS image exactly as the simulator loads it (translator input for Lc3V/Gen/OsImage.lean)
        for (a, w) in lc3_ensemble::sim::_os_obj_file().addr_iter() {
            match w { Some(w) => println!("{:04x} {:04x}", a, w), None => println!("{:04x} _", a) }
        }
        return;
    }
    if sub == "unidump" {
        // classification of every non-ASCII Unicode scalar by the real lexer (logos' compiled `\w` / `\d`) and by Rust's
        // `char::to_uppercase` / `char::escape_debug` (translator input for Lc3V/Gen/UniTables.lean)
        use logos::Logos; use lc3_ensemble::parse::lex::{Token, Ident};
        let mut buf = String::new();
        for cp in 0x80u32..=0x10FFFF { let Some(c) = char::from_u32(cp) else { continue };
            buf.clear(); buf.push('a'); buf.push(c);
            let mut lx = Token::lexer(&buf).spanned();
            let word = matches!(lx.next(), Some((Ok(Token::Ident(Ident::Label(_))), sp)) if sp.end == buf.len());
            buf.clear(); buf.push('R'); buf.push(c);
            let mut lx = Token::lexer(&buf).spanned();
            let digit = matches!(lx.next(), Some((Err(_), sp)) if sp.end == buf.len());
            let up: Vec<u32> = c.to_uppercase().map(|x| x as u32).collect();
            let esc: String = c.escape_debug().collect();
            let plain = esc.chars().count() == 1;
            if word { println!("w {:x}", cp); } if digit { println!("d {:x}", cp); }
            if up != vec![cp] { println!("u {:x} {}", cp, up.iter().map(|x| format!("{:x}", x)).collect::<Vec<_>>().join(" ")); }
            if !plain { println!("e {:x}", cp); }
        }
        return;
    }
    let mut o = util::Out::new(&out);
    match sub.as_str() {
        "c35" => c35::gen(&mut o, &mut ex, seed, thorough),
        "c15" => c15::gen(&mut o, &mut ex, seed, thorough),
        "c06" => c06::gen(&mut o, &mut ex, seed, thorough),
        "c08" => c08::gen(&mut o, &mut ex, seed, thorough),
        "c09" => simprops::c09(&mut o, &mut ex, seed, thorough),
        "c14" => simprops::c14(&mut o, &mut ex, seed, thorough),
        "c16" => simprops::c16(&mut o, &mut ex, seed, thorough),
        "c27" => simprops::c27(&mut o, &mut ex, seed, thorough),
        "c28" => simprops::c28(&mut o, &mut ex, seed, thorough),
        "c13" => simprops2::c13(&mut o, &mut ex, seed, thorough),
        "c10" => simprops2::c10(&mut o, &mut ex, seed, thorough),
        "c11" => simprops2::c11(&mut o, &mut ex, seed, thorough, false),
        "c12" => simprops2::c12(&mut o, &mut ex, seed, thorough),
        "c29" => simprops2::c29(&mut o, &mut ex, seed, thorough),
        "c30" => simprops2::c30(&mut o, &mut ex, seed, thorough),
        "c33" => simprops2::c33(&mut o, &mut ex, seed, thorough),
        "lexfid" => { lexgen::gen(&mut o, &mut ex, seed, thorough, 3); o.rule = "lexer fidelity".into(); }
        "c03" => parseprops::c03(&mut o, &mut ex, seed, thorough),
        "c04" => parseprops::c04(&mut o, &mut ex, seed, thorough),
        "c05" => parseprops::c05(&mut o, &mut ex, seed, thorough),
        "c36" => parseprops::c36(&mut o, &mut ex, seed, thorough),
        "c01" => asmprops::c01(&mut o, &mut ex, seed, thorough),
        "c02" => asmprops::c02(&mut o, &mut ex, seed, thorough, false),
        "c26" => asmprops::c02(&mut o, &mut ex, seed, thorough, true),
        "c23" => asmprops::c23(&mut o, &mut ex, seed, thorough),
        "c24" => asmprops::c24(&mut o, &mut ex, seed, thorough),
        "c21" => asmprops::c21(&mut o, &mut ex, seed, thorough),
        "c07" => asmprops::c07(&mut o, &mut ex, seed, thorough),
        "c20" => asmprops::c20(&mut o, &mut ex, seed, thorough, false),
        "c22" => asmprops::c20(&mut o, &mut ex, seed, thorough, true),
        "c17" => asmprops::c17(&mut o, &mut ex, seed, thorough, false),
        "c18" => asmprops::c17(&mut o, &mut ex, seed, thorough, true),
        "c19" => asmprops::c19(&mut o, &mut ex, seed, thorough),
        "c25" => c25::gen(&mut o, &mut ex, seed, thorough),
        "c34" => c34::gen(&mut o, &mut ex, seed, thorough),
        "c32" => c32::gen(&mut o, &mut ex, seed, thorough),
        "c31" => c32::c31(&mut o, &mut ex, seed, thorough),
        _ => { eprintln!("unknown subcommand {sub}"); std::process::exit(2); }
    }
    o.finish();
}
