//! Object-file ops on the implementation: asm / link / odump / oq / bser / bde / tser / tde (slots of ObjectFile).
use crate::util::*;
use crate::c25::{hexs, unhex};
use std::collections::HashMap;
use lc3_ensemble::asm::{assemble, assemble_debug, AsmErr, AsmErrKind, ObjectFile};
use lc3_ensemble::asm::encoding::{BinaryFormat, ObjFileFormat, TextFormat};
use lc3_ensemble::ast::OffsetNewErr;
use lc3_ensemble::parse::parse_ast;
use lc3_ensemble::err::Error as _;

pub type Slots = HashMap<String, ObjectFile>;

pub fn kind_name(k: &AsmErrKind) -> String {
    match k {
        AsmErrKind::UndetAddrLabel => "undetlabel".into(), AsmErrKind::UndetAddrStmt => "undetstmt".into(), AsmErrKind::UnclosedOrig => "unclosed".into(),
        AsmErrKind::UnopenedOrig => "unopened".into(), AsmErrKind::OverlappingOrig => "nestedorig".into(), AsmErrKind::OverlappingLabels => "duplabel".into(),
        AsmErrKind::WrappingBlock => "wrap".into(), AsmErrKind::BlockInIO => "io".into(), AsmErrKind::OverlappingBlocks => "overlap".into(),
        AsmErrKind::OffsetNewErr(OffsetNewErr::CannotFitSigned(n)) => format!("offs{n}"), AsmErrKind::OffsetNewErr(OffsetNewErr::CannotFitUnsigned(n)) => format!("offu{n}"),
        AsmErrKind::OffsetExternal => "offext".into(), AsmErrKind::CouldNotFindLabel => "nolabel".into(),
    }
}
/// spans of an error through the public API; `first()` and `iter()` under catch_unwind
pub fn err_spans(e: &AsmErr) -> Result<Vec<(usize, usize)>, String> {
    catch(|| { let sp = e.span().expect("AsmErr always has a span"); let _ = sp.first(); sp.iter().map(|r| (r.start, r.end)).collect::<Vec<_>>() })
}
pub fn show_aerr(e: &AsmErr) -> String {
    match err_spans(e) { Ok(sp) => format!("aerr {} {}", kind_name(&e.kind), sp.iter().map(|(a, b)| format!("{a}..{b}")).collect::<Vec<_>>().join(",")), Err(m) => format!("panic-in-span {}", m.replace(' ', "_")) }
}

pub fn dump(o: &ObjectFile) -> String {
    let bl = o.verif_blocks().iter().map(|(a, ws)| format!("{:04x}:{}", a, ws.iter().map(|w| match w { Some(w) => format!("{:04x}", w), None => "_".into() }).collect::<Vec<_>>().join(","))).collect::<Vec<_>>().join(";");
    let sym = match o.symbol_table() {
        None => "none".to_string(),
        Some(t) => {
            let mut ls = t.verif_labels(); ls.sort();
            let ls = ls.iter().map(|(n, a, s, e)| format!("{}:{:04x}:{}:{}", hexs(n.as_bytes()), a, s, *e as u8)).collect::<Vec<_>>().join(",");
            let mut rs = t.verif_relocations(); rs.sort();
            let rs = rs.iter().map(|(a, n)| format!("{:04x}:{}", a, hexs(n.as_bytes()))).collect::<Vec<_>>().join(",");
            let d = match t.source_info() {
                None => "none".to_string(),
                Some(si) => format!("M[{}] T{}", t.verif_line_blocks().iter().map(|(l, b)| format!("{}:{}", l, b.iter().map(|a| format!("{:04x}", a)).collect::<Vec<_>>().join("."))).collect::<Vec<_>>().join(","), hexs(si.source().as_bytes())),
            };
            format!("L[{ls}] R[{rs}] D[{d}]")
        }
    };
    format!("B[{bl}] S[{sym}]")
}

/// binary serialization with label (0x01) and relocation (0x04) chunks sorted bytewise; the chunk framing is re-derived here
pub fn canon_bin(bytes: &[u8]) -> Option<Vec<u8>> {
    let mut out = bytes.get(..7)?.to_vec();
    let mut p = 7usize;
    let (mut blocks, mut labels, mut lines, mut srcs, mut rels): (Vec<Vec<u8>>, Vec<Vec<u8>>, Vec<Vec<u8>>, Vec<Vec<u8>>, Vec<Vec<u8>>) = Default::default();
    let rd = |p: usize, n: usize| -> Option<u64> { let s = bytes.get(p..p + n)?; let mut v = 0u64; for (i, b) in s.iter().enumerate() { v |= (*b as u64) << (8 * i); } Some(v) };
    while p < bytes.len() {
        let start = p; let id = bytes[p]; p += 1;
        match id {
            0 => { let len = rd(p + 2, 2)? as usize; p += 4 + 3 * len; blocks.push(bytes.get(start..p)?.to_vec()); }
            1 => { let len = rd(p + 11, 8)? as usize; p += 19 + len; labels.push(bytes.get(start..p)?.to_vec()); }
            2 => { let len = rd(p + 8, 2)? as usize; p += 10 + 2 * len; lines.push(bytes.get(start..p)?.to_vec()); }
            3 => { let len = rd(p, 8)? as usize; p += 8 + len; srcs.push(bytes.get(start..p)?.to_vec()); }
            4 => { let len = rd(p + 2, 8)? as usize; p += 10 + len; rels.push(bytes.get(start..p)?.to_vec()); }
            _ => return None,
        }
    }
    labels.sort(); rels.sort();
    for g in [blocks, labels, lines, srcs, rels] { for c in g { out.extend(c); } }
    Some(out)
}

pub fn exec(slots: &mut Slots, sim: &mut Option<crate::simx::SimCtx>, t: &[&str]) -> String {
    match t {
        ["asm", slot, dbg, h] => {
            let Some(b) = (if *h == "-" { Some(vec![]) } else { unhex(h) }) else { return "bad-op".into() };
            let Ok(src) = String::from_utf8(b) else { return "bad-utf8".into() };
            let r = catch(|| {
                let ast = match parse_ast(&src) { Ok(a) => a, Err(e) => { let sp = e.span().map(|s| s.first()).unwrap_or(0..0); return Err(format!("perr @{}..{}", sp.start, sp.end)); } };
                let r = if *dbg == "1" { assemble_debug(ast, &src) } else { assemble(ast) };
                r.map_err(|e| show_aerr(&e))
            });
            match r { Ok(Ok(o)) => { let d = dump(&o); slots.insert(slot.to_string(), o); format!("ok {d}") } Ok(Err(m)) => m, Err(m) => format!("panic {}", m.replace(' ', "_")) }
        }
        ["link", dst, a, b] => {
            let (Some(oa), Some(ob)) = (slots.get(*a).cloned(), slots.get(*b).cloned()) else { return "noslot".into() };
            match catch(|| ObjectFile::link(oa, ob)) {
                Ok(Ok(o)) => { let d = dump(&o); slots.insert(dst.to_string(), o); format!("ok {d}") }
                Ok(Err(e)) => { match err_spans(&e) { Ok(_) => format!("aerr {}", kind_name(&e.kind)), Err(m) => format!("panic-in-span {}", m.replace(' ', "_")) } }
                Err(m) => format!("panic {}", m.replace(' ', "_")),
            }
        }
        ["odump", slot] => slots.get(*slot).map(dump).unwrap_or("noslot".into()),
        ["oq", slot, q @ ..] => {
            let Some(o) = slots.get(*slot) else { return "noslot".into() };
            let Some(st) = o.symbol_table() else { return "nosym".into() };
            let name = |h: &str| -> Option<String> { String::from_utf8(if h == "-" { vec![] } else { unhex(h)? }).ok() };
            let r = catch(|| match q {
                ["lookup", h] => match name(h) { Some(n) => st.lookup_label(&n).map(|a| format!("{:04x}", a)).unwrap_or("none".into()), None => "bad-utf8".into() },
                ["src", h] => match name(h) { Some(n) => st.get_label_source(&n).map(|r| format!("{}..{}", r.start, r.end)).unwrap_or("none".into()), None => "bad-utf8".into() },
                ["rev", a] => { let Ok(a) = u16::from_str_radix(a, 16) else { return "bad-op".into() };
                    let mut c: Vec<String> = st.verif_labels().into_iter().filter(|l| l.1 == a).map(|l| l.0).collect(); c.sort();
                    format!("[{}]", c.iter().map(|n| hexs(n.as_bytes())).collect::<Vec<_>>().join(",")) }
                ["line", n] => { let Ok(n) = n.parse::<usize>() else { return "bad-op".into() }; st.lookup_line(n).map(|a| format!("{:04x}", a)).unwrap_or("none".into()) }
                ["revline", a] => { let Ok(a) = u16::from_str_radix(a, 16) else { return "bad-op".into() }; st.rev_lookup_line(a).map(|l| l.to_string()).unwrap_or("none".into()) }
                ["lines"] => format!("[{}]", st.line_iter().map(|(l, a)| format!("{}:{:04x}", l, a)).collect::<Vec<_>>().join(",")),
                ["readline", n] => { let Ok(n) = n.parse::<usize>() else { return "bad-op".into() }; match st.source_info().and_then(|s| s.read_line(n)) { Some(l) => format!("ok {}", hexs(l.as_bytes())), None => "none".into() } }
                // the SourceInfo queries of C25 on the symbol table's (possibly linked) source
                ["srclines"] => match st.source_info() { Some(si) => format!("lines={}", si.count_lines()), None => "none".into() },
                ["srcline", n] => { let Ok(n) = n.parse::<usize>() else { return "bad-op".into() }; match st.source_info() { None => "nosrc".into(), Some(si) => match (si.line_span(n), si.read_line(n)) {
                    (Some(sp), Some(txt)) => format!("span={}..{} text={}", sp.start, sp.end, hexs(txt.as_bytes())), (None, None) => "none".into(), _ => "inconsistent".into() } } }
                ["srcpos", n] => { let Ok(n) = n.parse::<usize>() else { return "bad-op".into() }; match st.source_info() { None => "nosrc".into(), Some(si) => { let (l, c) = si.get_pos_pair(n); format!("{l} {c}") } } }
                _ => "bad-op".into(),
            });
            r.unwrap_or_else(|m| format!("panic {}", m.replace(' ', "_")))
        }
        ["bser", slot] => { let Some(o) = slots.get(*slot) else { return "noslot".into() };
            match catch(|| BinaryFormat::serialize(o)) { Ok(b) => canon_bin(&b).map(|c| hexs(&c)).unwrap_or("unframed".into()), Err(m) => format!("panic {}", m.replace(' ', "_")) } }
        ["bde", dst, h] => { let Some(b) = (if *h == "-" { Some(vec![]) } else { unhex(h) }) else { return "bad-op".into() };
            match catch(|| BinaryFormat::deserialize(&b)) { Ok(Some(o)) => { let d = dump(&o); slots.insert(dst.to_string(), o); format!("ok {d}") } Ok(None) => "none".into(), Err(m) => format!("panic {}", m.replace(' ', "_")) } }
        ["tser", slot] => { let Some(o) = slots.get(*slot) else { return "noslot".into() };
            match catch(|| TextFormat::serialize(o)) { Ok(s) => hexs(s.as_bytes()), Err(m) => format!("panic {}", m.replace(' ', "_")) } }
        ["tde", dst, h] => { let Some(b) = (if *h == "-" { Some(vec![]) } else { unhex(h) }) else { return "bad-op".into() };
            let Ok(s) = String::from_utf8(b) else { return "bad-utf8".into() };
            match catch(|| TextFormat::deserialize(&s)) { Ok(Some(o)) => { let d = dump(&o); slots.insert(dst.to_string(), o); format!("ok {d}") } Ok(None) => "none".into(), Err(m) => format!("panic {}", m.replace(' ', "_")) } }
        ["oload", slot] => {
            let (Some(c), Some(o)) = (sim.as_mut(), slots.get(*slot)) else { return "noslot".into() };
            c.load_obj(o)
        }
        _ => "bad-op".into(),
    }
}
