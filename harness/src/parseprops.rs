//! C03 (parser returns what was written), C04 (never panics, spans inside), C05 (numeric tokens), C36 (print/reparse).
use crate::util::*;
use crate::exec::Exec;
use crate::c25::hexs;
use crate::proggen::*;
use std::collections::HashSet;

/// removes spans and label positions from a `parse` result line: what remains is the statement values
pub fn strip_spans(r: &str) -> String {
    let mut out = String::new();
    let mut it = r.chars().peekable();
    while let Some(c) = it.next() {
        if c == '@' { while let Some(d) = it.peek() { if d.is_ascii_digit() || *d == '.' { it.next(); } else { break; } } } else { out.push(c); }
    }
    out.replace("  ", " ").trim_end().to_string()
}

pub fn c03(out: &mut Out, ex: &mut Exec, seed: u64, thorough: bool) {
    crate::lexgen::gen(out, ex, seed, thorough, 3);
    let mut rng = Rng::new(seed);
    let n = if thorough { 50_000 } else { 3_000 };
    let mut seen = HashSet::new();
    for _ in 0..n {
        let p = gen_prog(&mut rng, 24);
        let text = render(&mut rng, &p.stmts);
        let l = format!("parse {}", hexs(text.as_bytes()));
        let r = ex.line(&l); out.op(&l, &r); out.evaluations += 1;
        let expect = format!("ok {} :: {}", p.stmts.len(), p.stmts.iter().map(canon).collect::<Vec<_>>().join(" || "));
        if strip_spans(&r) != expect { out.fail(out.lines, format!("parser did not return the statements written: got `{}` expected `{}` for {:?}", strip_spans(&r), expect, text), l.clone()); }
        else { out.hist.hit("parsed_as_written"); }
        // spans: each statement's span text must start with its mnemonic (any case)
        if let Some(body) = r.split(" :: ").nth(1) { for (st, g) in body.split(" || ").zip(p.stmts.iter()) {
            if let Some((_, sp)) = st.rsplit_once('@') { if let Some((a, b)) = sp.split_once("..") { if let (Ok(a), Ok(b)) = (a.parse::<usize>(), b.parse::<usize>()) {
                let ok = b <= text.len() && a <= b && text.is_char_boundary(a) && text.is_char_boundary(b) && text[a..b].to_uppercase().starts_with(&g.mnem.to_uppercase()) && !text[a..b].ends_with(|c: char| c == ' ' || c == '\t' || c == '\n');
                if !ok { out.fail(out.lines, format!("statement span {a}..{b} does not cover `{}` in {:?}", g.mnem, text), l.clone()); }
            } } }
        } }
        // a second layout of the same statements parses to the same values
        let text2 = render(&mut rng, &p.stmts);
        let l2 = format!("parse {}", hexs(text2.as_bytes()));
        let r2 = ex.line(&l2); out.op(&l2, &r2); out.evaluations += 1;
        if strip_spans(&r2) != expect { out.fail(out.lines, format!("layout changed the parse result: `{}` vs `{}`", strip_spans(&r2), expect), l2.clone()); }
        if seen.insert(text.clone()) { out.nontrivial += 1; }
        if out.samples.len() < 6 { let mut j = Json::obj(); j.set("text", Json::s(text.clone())); j.set("parsed", Json::s(r.chars().take(300).collect::<String>())); out.sample(j); }
    }
    out.rule = "lexer: every string of length <= 3 (thorough 4) over a 40-symbol alphabet and random token soups, token by token with spans; parser: generated statement lists (every opcode/alias/directive, operands at field limits, labels incl. on .end, forward/backward label operands) rendered with random letter case, spacing/tabs, optional colons, labels on their own lines, comments with arbitrary characters, blank lines, LF/CRLF, numeric notation (n, #n, -n, #-n, xH, x-H, leading zeros), string escapes; implementation vs model on values + spans; oracle: parsed values = generated statements, spans cover the nucleus, two layouts of one list parse to the same values".into();
}

/// a scalar from anywhere in Unicode: weighted towards ASCII punctuation the lexer cares about, the BMP, and the code
/// points around which the lexer's classes change (letters, marks, digits of many scripts, ligatures, specials)
pub fn uni_char(rng: &mut Rng) -> char {
    loop {
        let cp = match rng.below(10) {
            0 => *rng.pick(&[0x22u32, 0x5C, 0x0A, 0x2E, 0x23, 0x2D, 0x78, 0x52, 0x3B, 0x3A, 0x2C, 0x20, 0x5F, 0x41, 0x31]),
            1 => 0x80 + rng.below(0x280) as u32, 2 => 0x300 + rng.below(0x400) as u32, 3 => 0x600 + rng.below(0xA00) as u32,
            4 => 0x1E00 + rng.below(0x700) as u32, 5 => 0xFB00 + rng.below(0x500) as u32, 6 => 0x10000 + rng.below(0x10000) as u32,
            7 => rng.below(0x110000) as u32, 8 => *rng.pick(&[0x130u32, 0x131, 0x149, 0x17F, 0x1C5, 0x1F0, 0x390, 0x3C2, 0x587, 0x1E9E, 0x1F80, 0x1FB3, 0x200C, 0x200D, 0x203F, 0x2040, 0x2160, 0x24B6, 0xFB00, 0xFB06, 0xFF10, 0xFF21, 0xFF3F, 0x1D7CE, 0xE0100, 0x10FFFF, 0xFEFF, 0xAD, 0x85]),
            _ => rng.below(0x3000) as u32 };
        if let Some(c) = char::from_u32(cp) { return c; }
    }
}

pub fn c04(out: &mut Out, ex: &mut Exec, seed: u64, thorough: bool) {
    let mut rng = Rng::new(seed);
    let n = if thorough { 400_000 } else { 16_000 };
    let mut seen = HashSet::new();
    let targeted: Vec<String> = vec![
        ".stringz \"abc\\".into(), ".stringz \"abc\\\n".into(), ".stringz \"abc\\\r\n".into(), ".stringz \"a\\é\"".into(), ".stringz \"a\\😀b\"".into(), ".stringz \"\\".into(),
        ".stringz \"unterminated".into(), format!(".stringz \"{}\"", "a".repeat(65534)), format!(".stringz \"{}\"", "a".repeat(65535)), format!(".stringz \"{}\"", "é".repeat(32767)), format!(".stringz \"{}\"", "é".repeat(32768)),
        format!(".stringz \"{}", "b".repeat(70000)), "R99999999999999999999".into(), "ADD R0,R0,#99999999999999999999999999999999999999999".into(), "x99999999999999999".into(), "-".repeat(1000), "#".repeat(1000),
        "\r".into(), "\u{0}".into(), "\u{2028}".into(), "a\u{0301}".into(), "😀".into(), "\"".into(), "\\".into(), ".".into(), ".orig".into(), ".orig x3000 x3000".into(), "LABEL".into(), "LABEL:".into(), ":".into(), ",".into(),
        "ADD".into(), "ADD R1".into(), "ADD R1,".into(), "ADD R1,R2,".into(), ".blkw 0".into(), ".blkw -1".into(), ".fill".into(), ".external".into(), ".external R1".into(), "BR".into(), "NOP NOP".into(), "jſr x".into(), ".ﬆringz".into(),
    ];
    let words = ["ADD", "R1", ",", "#5", "x3000", ".orig", ".end", ".fill", ".stringz", "\"s\"", "\"", "\\", "LOOP", ":", ";c", "\n", "\r\n", "\r", " ", "\t", "é", "٣", "→", "-", "#", "x", "R8", "BRnzp", ".blkw", "0", "-1", "65536", "TRAP", "x25", "@", "\u{0}", "ß", "ŉ"];
    let mut run = |out: &mut Out, ex: &mut Exec, s: &str, kind: &str| {
        let l = format!("parse {}", hexs(s.as_bytes()));
        let r = ex.line(&l); out.evaluations += 1;
        if r.starts_with("panic") { out.fail(out.lines, format!("parse_ast panicked on {} bytes `{}`: {r}", s.len(), s.chars().take(60).collect::<String>().escape_debug()), l.clone()); out.hist.hit("panic"); }
        else if let Some(sp) = r.strip_prefix("err ").and_then(|x| x.rsplit_once('@')).map(|x| x.1) {
            let (a, b) = sp.split_once("..").map(|(a, b)| (a.parse::<usize>().unwrap_or(usize::MAX), b.parse::<usize>().unwrap_or(usize::MAX))).unwrap_or((usize::MAX, 0));
            if !(a <= b && b <= s.len() && s.is_char_boundary(a) && s.is_char_boundary(b)) { out.fail(out.lines, format!("error span {a}..{b} not inside the {}-byte input", s.len()), l.clone()); }
            out.hist.hit(&format!("{kind}_err"));
        } else { out.hist.hit(&format!("{kind}_ok")); }
        out.op(&l, &r);
    };
    for t in &targeted { run(out, ex, t, "targeted"); out.nontrivial += 1; }
    // operand grid: every operand position x boundary values of every field width x every notation (the conversions from
    // token to field are separate code for each signedness)
    for pre in ["ADD R0, R0, ", "AND R7, R7, ", "LDR R1, R2, ", "STR R1, R2, ", "BRnzp ", "BR ", "LD R0, ", "LDI R0, ", "LEA R0, ", "ST R0, ", "STI R0, ", "JSR ", "NOP ", "TRAP ", ".orig ", ".blkw ", ".fill "] {
        for v in [0i64, 1, 15, 16, 31, 32, 255, 256, 1023, 1024, 32767, 32768, 40000, 65535, 65536, 99999] {
            for t in [format!("{v}"), format!("#{v}"), format!("x{:X}", v), format!("X0{:x}", v), format!("-{v}"), format!("#-{v}"), format!("x-{:X}", v)] {
                run(out, ex, &format!("{pre}{t}"), "grid"); out.nontrivial += 1;
            }
        }
    }
    for i in 0..n {
        let s: String = match i % 3 {
            0 => { let k = rng.below(12); (0..k).map(|_| *rng.pick(&words)).collect::<Vec<_>>().join(*rng.pick(&["", " ", " ", ","])) }
            1 => { // mutated program
                let p = gen_prog(&mut rng, 10); let t = render(&mut rng, &p.stmts); let mut cs: Vec<char> = t.chars().collect();
                for _ in 0..1 + rng.below(3) { if cs.is_empty() { break; } let pos = rng.below(cs.len() as u64) as usize;
                    match rng.below(4) { 0 => { cs.remove(pos); } 1 => cs.insert(pos, *rng.pick(&['"', '\\', '\r', 'é', ';', ':', ',', '#', '-', 'x', '\u{0}', '😀', '.', ' ', '\n'])), 2 => cs[pos] = *rng.pick(&['"', '\\', 'R', '9', ',', '\n', 'é']), _ => { cs.truncate(pos); } } }
                cs.into_iter().collect() }
            _ if rng.bool() => { let k = rng.below(8); (0..k).map(|_| uni_char(&mut rng)).collect() }
            _ => { let k = rng.below(10); (0..k).map(|_| char::from_u32(*rng.pick(&[0x20u32, 0x41, 0x22, 0x5C, 0x0A, 0x0D, 0x09, 0xE9, 0x663, 0x2192, 0x1F600, 0x3B, 0x2E, 0x23, 0x2D, 0x30, 0x78, 0x52, 0x2C, 0x3A, 0, 0x7F, 0xA0, 0x2028])).unwrap()).collect() }
        };
        if seen.insert(s.clone()) { out.nontrivial += 1; }
        run(out, ex, &s, ["soup", "mutated", "unicode"][i % 3]);
        if out.samples.len() < 5 && i % 3 == 1 { let mut j = Json::obj(); j.set("text", Json::s(s.clone())); out.sample(j); }
    }
    out.rule = "three input streams: token soups from a 38-word vocabulary (incl. lone CR, NUL, non-ASCII letters/digits/symbols), grammar-based programs with 1-3 random character-level mutations (deletions, insertions of quotes/backslashes/CR/non-ASCII, truncation), arbitrary short Unicode strings; plus targeted cases (backslash before EOL/CRLF/EOF, multi-byte char after backslash, 65534/65535/65536-byte literals, 70000-char unterminated literal, huge numbers, R999..., long runs of - and #); parse_ast under catch_unwind; result kind, error message and span compared with the model; oracle: no panic, error span within 0..=len on char boundaries".into();
}

pub fn c05(out: &mut Out, ex: &mut Exec, seed: u64, thorough: bool) {
    let mut rng = Rng::new(seed);
    let boundaries: Vec<i64> = { let mut v = vec![]; for b in [-65536i64, -32769, -32768, -32767, -1025, -1024, -257, -256, -33, -32, -17, -16, -1, 0, 1, 7, 8, 15, 16, 31, 32, 255, 256, 1023, 1024, 32767, 32768, 65535, 65536, 131071] { for d in -3..=3 { v.push(b + d); } } v };
    let vals: Vec<i64> = if thorough { (-70000..=140000).collect() } else { let mut v: Vec<i64> = (-70000..=140000).step_by(997).collect(); v.extend(boundaries.iter().copied()); v };
    // operand contexts: every value in the quick tier; in the thorough tier every value within +-64 of a power-of-two bound
    // (field limits), every value in [-1100, 2100], and every 97th value elsewhere (the bare-token check still sees every value)
    let near_bound = |v: i64| -> bool { let a = v.abs(); (0..=17).any(|k| (a - (1i64 << k)).abs() <= 64) };
    let ctx_for = |v: i64| -> bool { !thorough || (-1100..=2100).contains(&v) || near_bound(v) || v.rem_euclid(97) == 0 };
    let fits_s = |v: i64, bits: u32| -(1i64 << (bits - 1)) <= v && v < (1i64 << (bits - 1));
    for &v in &vals {
        // notations: unsigned decimal/hash/hex forms for v >= 0, signed forms for v <= 0 (incl. -0)
        let mut forms: Vec<(String, bool)> = vec![]; // (text, signed-token)
        if v >= 0 { forms.push((format!("{v}"), false)); forms.push((format!("#{v}"), false)); forms.push((format!("x{:X}", v), false)); forms.push((format!("X{:x}", v), false)); forms.push((format!("00{v}"), false)); forms.push((format!("x00{:X}", v), false)); }
        if v <= 0 { forms.push((format!("-{}", -v), true)); forms.push((format!("#-{}", -v), true)); forms.push((format!("x-{:X}", -v), true)); forms.push((format!("-000{}", -v), true)); }
        for (t, signed) in forms {
            // bare token
            let l = format!("lex {}", hexs(t.as_bytes())); let r = ex.line(&l); out.op(&l, &r); out.evaluations += 1;
            let tok_ok = if signed { v >= -32768 } else { v <= 65535 };
            let expect_tok = if tok_ok { format!("{}{}@0..{}", if signed { "S" } else { "U" }, v, t.len()) } else { format!("E{}@0..{}", if signed { "nofiti16" } else { "nofitu16" }, t.len()) };
            if r != expect_tok { out.fail(out.lines, format!("token `{t}` lexed as `{r}`, expected `{expect_tok}`"), l.clone()); }
            // operand of every field
            let contexts: [(&str, u32, bool, bool); 11] = [("ADD R0, R0, ", 5, true, false), ("LDR R0, R0, ", 6, true, false), ("BRnzp ", 9, true, false), ("JSR ", 11, true, false),
                ("TRAP ", 8, false, false), (".orig ", 16, false, false), (".blkw ", 16, false, true), (".fill ", 16, false, false), ("LD R7, ", 9, true, false),
                ("NOP ", 9, true, false), ("AND R1, R2, ", 5, true, false)];
            if !ctx_for(v) { continue; }
            for (pre, bits, fsigned, nonzero) in contexts {
                let text = format!("{pre}{t}");
                let l = format!("parse {}", hexs(text.as_bytes())); let r = ex.line(&l); out.op(&l, &r); out.evaluations += 1;
                let accept = if !tok_ok { false } else if pre == ".fill " { true }
                    else if fsigned { v <= 32767 && fits_s(v, bits) } else { v >= 0 && v < (1i64 << bits) && !(nonzero && v == 0) };
                let got_ok = r.starts_with("ok 1 ::");
                if accept != got_ok { out.fail(out.lines, format!("`{text}`: accepted={got_ok}, expected accepted={accept} ({r})"), l.clone()); }
                else if accept {
                    let want = if pre == ".fill " { format!("o{}", (v as i16 as u16 as i64 + if v < -32768 { 0 } else { 0 }).rem_euclid(65536)) } else if fsigned { format!("{}{v}", if pre.starts_with("ADD") || pre.starts_with("AND") || pre.starts_with("LDR") { "i" } else { "o" }) } else { format!("{v}") };
                    let want = if pre == ".fill " { format!("o{}", v.rem_euclid(65536)) } else { want };
                    if !r.contains(&format!(" {want} @")) { out.fail(out.lines, format!("`{text}` parsed to `{r}`, expected operand {want}"), l.clone()); }
                }
                out.hist.hit(&format!("{}_{}", pre.trim().split(' ').next().unwrap(), if got_ok { "accept" } else { "reject" }));
            }
        }
    }
    // registers
    for n in 0..300u32 { for pre in ["R", "r", "R0", "r00"] { let t = format!("{pre}{n}"); let l = format!("lex {}", hexs(t.as_bytes())); let r = ex.line(&l); out.op(&l, &r); out.evaluations += 1;
        let val: u64 = t[1..].parse().unwrap(); let expect = if val < 8 { format!("R{}@0..{}", val, t.len()) } else { format!("Ebadreg@0..{}", t.len()) };
        if r != expect { out.fail(out.lines, format!("register token `{t}` -> `{r}`, expected `{expect}`"), l.clone()); } } }
    // huge values
    for _ in 0..200 { let d: String = (0..20 + rng.below(30)).map(|_| char::from(b'0' + rng.below(10) as u8)).collect(); for t in [format!("1{d}"), format!("#1{d}"), format!("-1{d}"), format!("x1{d}"), format!("R1{d}")] {
        let l = format!("lex {}", hexs(t.as_bytes())); let r = ex.line(&l); out.op(&l, &r); out.evaluations += 1;
        if !r.starts_with('E') { out.fail(out.lines, format!("huge literal `{t}` accepted: {r}"), l.clone()); } } }
    out.exhaustive = thorough;
    out.nontrivial = out.evaluations;
    out.rule = format!("{} integers in [-70000,140000] ({}), each in every notation (n, #n, xH, XH, leading zeros; -n, #-n, x-H) as a bare token and (thorough tier: values within 64 of a power of two, in [-1100,2100], and every 97th other value; quick tier: all listed values) as the operand of imm5, offset6, PCoffset9, PCoffset11, trapvect8, .orig, .blkw, .fill; R/r + every number 0..299 with leading zeros; 40-50 digit literals; oracle: acceptance and value computed arithmetically", vals.len(), if thorough { "every integer" } else { "stride 997 + all boundaries +-3" });
}

pub fn c36(out: &mut Out, ex: &mut Exec, seed: u64, thorough: bool) {
    let mut rng = Rng::new(seed);
    let n = if thorough { 40_000 } else { 2_500 };
    let mut seen = HashSet::new();
    for _ in 0..n {
        let p = gen_prog(&mut rng, 16);
        let text = render(&mut rng, &p.stmts);
        let l1 = format!("parse {}", hexs(text.as_bytes())); let r1 = ex.line(&l1); out.op(&l1, &r1);
        let l2 = format!("print {}", hexs(text.as_bytes())); let r2 = ex.line(&l2); out.op(&l2, &r2);
        out.evaluations += p.stmts.len() as i64;
        let Some(printed_hex) = r2.strip_prefix("ok ") else { out.fail(out.lines, format!("generated program did not parse: {r1}"), l1.clone()); continue };
        let l3 = format!("parse {}", printed_hex); let r3 = ex.line(&l3); out.op(&l3, &r3);
        if strip_spans(&r1) != strip_spans(&r3) { out.fail(out.lines, format!("printed statements reparse differently: `{}` vs `{}`", strip_spans(&r1), strip_spans(&r3)), format!("{l1}\n{l2}\n{l3}")); }
        else { out.hist.hit("reparse_equal"); }
        for s in &p.stmts { out.hist.hit(&format!("stmt_{}", s.mnem.to_uppercase())); }
        if seen.insert(text.clone()) { out.nontrivial += 1; }
        if out.samples.len() < 3 { let mut j = Json::obj(); j.set("source", Json::s(text.clone())); j.set("printed_hex", Json::s(printed_hex.chars().take(200).collect::<String>())); out.sample(j); }
    }
    // literals and labels over all of Unicode
    for _ in 0..n / 2 {
        let body: String = (0..rng.below(6)).map(|_| uni_char(&mut rng)).filter(|c| !matches!(c, '"' | '\\' | '\n' | '\r')).collect();
        let lab: String = std::iter::once('L').chain((0..rng.below(4)).map(|_| uni_char(&mut rng))).collect();
        let text = format!("{lab} .stringz \"{body}\"\n.fill {lab}");
        let l1 = format!("parse {}", hexs(text.as_bytes())); let r1 = ex.line(&l1); out.op(&l1, &r1);
        if !r1.starts_with("ok ") { out.hist.hit("unicode_rejected"); continue; }
        let l2 = format!("print {}", hexs(text.as_bytes())); let r2 = ex.line(&l2); out.op(&l2, &r2); out.evaluations += 2;
        let Some(printed_hex) = r2.strip_prefix("ok ") else { continue };
        let l3 = format!("parse {}", printed_hex); let r3 = ex.line(&l3); out.op(&l3, &r3);
        // the property covers literals of printable ASCII, tab, LF, CR, NUL only; outside it only model = implementation is checked
        let in_scope = body.chars().all(|c| (' '..='~').contains(&c) || c == '\t');
        if !in_scope { out.hist.hit("unicode_literal_out_of_scope"); continue; }
        if strip_spans(&r1) != strip_spans(&r3) { out.fail(out.lines, format!("printed statements reparse differently: `{}` vs `{}` (source {:?})", strip_spans(&r1), strip_spans(&r3), text), format!("{l1}\n{l2}\n{l3}")); }
        else { out.hist.hit("unicode_reparse_equal"); }
    }
    out.rule = "statements obtained by parsing generated programs (every opcode/alias/directive, labels, label operands, .stringz over printable ASCII + tab/LF/CR/NUL/quote/backslash), plus .stringz literals and labels over arbitrary Unicode scalars; printed with Display (compared with the model's printer byte for byte) and reparsed; oracle: the reparsed statements equal the originals up to spans".into();
}
