//! Grammar-based program generator: statement lists (abstract) rendered to text with randomized surface syntax.
use crate::util::*;

#[derive(Clone, Debug)]
pub enum Op { Reg(u8), Imm(i32), ImmU(u32), Lbl(String), Str(Vec<u8>) }

#[derive(Clone, Debug)]
pub struct GStmt { pub labels: Vec<String>, pub mnem: String, pub ops: Vec<Op>, pub size: u32 }

pub fn label_name(rng: &mut Rng) -> String {
    // never a keyword, register or hex-looking
    let first = *rng.pick(&["L", "l", "_", "Z", "q", "LOOP", "data", "Msg", "k9", "T_"]);
    let mut s = String::from(first);
    let nonascii = NON_ASCII_LABELS.with(|c| c.get());
    let lenchg = LEN_CHANGING_LABELS.with(|c| c.get());
    for _ in 0..rng.below(4) { s.push(if lenchg && rng.chance(1, 2) { *rng.pick(&['\u{17F}', '\u{131}', '\u{149}', '\u{1F0}', '\u{FB01}']) } else if nonascii && rng.chance(1, 3) { *rng.pick(&['é', 'É', 'ö', 'Ñ', 'α', 'Ω', 'ж', 'Ж']) } else { *rng.pick(&['a', 'B', '_', '0', '7', 'z', 'Q']) }); }
    s
}
thread_local! { pub static NON_ASCII_LABELS: std::cell::Cell<bool> = const { std::cell::Cell::new(false) }; }
// letters whose upper-casing has another UTF-8 length (ſ→S, ı→I, ŉ→ʼN, ǰ→J̌, ﬁ→FI)
thread_local! { pub static LEN_CHANGING_LABELS: std::cell::Cell<bool> = const { std::cell::Cell::new(false) }; }

/// canonical (span-free) form of what the parser should return for this statement
pub fn canon(s: &GStmt) -> String {
    let ls: Vec<String> = s.labels.iter().map(|l| format!("l{}", crate::c25::hexs(l.as_bytes()))).collect();
    let m = s.mnem.to_lowercase();
    let o = |i: usize| -> String { match &s.ops[i] { Op::Reg(r) => format!("{r}"), Op::Imm(v) => format!("{v}"), Op::ImmU(v) => format!("{v}"), Op::Lbl(l) => format!("l{}", crate::c25::hexs(l.as_bytes())), Op::Str(b) => crate::c25::hexs(b) } };
    let pcv = |i: usize| -> String { match &s.ops[i] { Op::Lbl(_) => o(i), _ => format!("o{}", o(i)) } };
    let irv = |i: usize| -> String { match &s.ops[i] { Op::Reg(r) => format!("r{r}"), _ => format!("i{}", o(i)) } };
    let k = match m.as_str() {
        "add" | "and" => format!("{m} {} {} {}", o(0), o(1), irv(2)),
        "br" | "brn" | "brz" | "brp" | "brnz" | "brnp" | "brzp" | "brnzp" => {
            let cc = match m.as_str() { "br" | "brnzp" => 7, "brn" => 4, "brz" => 2, "brp" => 1, "brnz" => 6, "brnp" => 5, _ => 3 };
            format!("br {cc} {}", pcv(0)) }
        "jmp" | "jsrr" => format!("{m} {}", o(0)),
        "jsr" => format!("jsr {}", pcv(0)),
        "ld" | "ldi" | "lea" | "st" | "sti" => format!("{m} {} {}", o(0), pcv(1)),
        "ldr" | "str" => format!("{m} {} {} i{}", o(0), o(1), o(2)),
        "not" => format!("not {} {}", o(0), o(1)),
        "trap" => format!("trap {}", o(0)),
        "nop" => if s.ops.is_empty() { "nop o0".to_string() } else { format!("nop {}", pcv(0)) },
        ".orig" => format!(".orig {}", o(0)), ".blkw" => format!(".blkw {}", o(0)),
        ".fill" => format!(".fill {}", pcv(0)),
        ".stringz" => format!(".stringz {}", o(0)), ".external" => format!(".external {}", o(0)),
        other => other.to_string(),
    };
    format!("[{}] {}", ls.join(","), k)
}

fn rand_case(rng: &mut Rng, s: &str) -> String { s.chars().map(|c| if rng.bool() { c.to_ascii_uppercase() } else { c.to_ascii_lowercase() }).collect() }

/// a numeric literal denoting `v` in a random notation (signed contexts allow negatives)
pub fn num(rng: &mut Rng, v: i64) -> String {
    let zeros = |rng: &mut Rng| "0".repeat(rng.below(3) as usize);
    // zero also has minus-signed spellings (a signed token of value 0 fits every field, signed or unsigned)
    if v == 0 && rng.chance(1, 3) { return match rng.below(3) { 0 => format!("-{}0", zeros(rng)), 1 => format!("#-{}0", zeros(rng)), _ => format!("{}-{}0", if rng.bool() { "x" } else { "X" }, zeros(rng)) }; }
    if v < 0 {
        match rng.below(3) { 0 => format!("-{}{}", zeros(rng), -v), 1 => format!("#-{}{}", zeros(rng), -v), _ => format!("{}-{}{:X}", if rng.bool() { "x" } else { "X" }, zeros(rng), -v) }
    } else {
        match rng.below(4) { 0 => format!("{}", v), 1 => format!("#{}{}", zeros(rng), v),
            2 => { let h = if rng.bool() { format!("{:X}", v) } else { format!("{:x}", v) }; format!("{}{}{}", if rng.bool() { "x" } else { "X" }, zeros(rng), h) }
            _ => format!("{}{}", zeros(rng), v) }
    }
}

fn ws(rng: &mut Rng, min1: bool) -> String {
    let n = if min1 { 1 + rng.below(3) } else { rng.below(3) };
    (0..n).map(|_| if rng.chance(1, 4) { '\t' } else { ' ' }).collect()
}

pub fn esc_str(rng: &mut Rng, b: &[u8]) -> String {
    let mut s = String::from("\"");
    let text = String::from_utf8(b.to_vec()).expect("generated literals are UTF-8");
    for c in text.chars() { match c { '\n' => s.push_str("\\n"), '\r' => s.push_str("\\r"), '\t' => if rng.bool() { s.push_str("\\t") } else { s.push('\t') }, '\0' => s.push_str("\\0"), '"' => s.push_str("\\\""), '\\' => s.push_str("\\\\"), c => s.push(c) } }
    s.push('"'); s
}

/// render one statement; `canonical` = Display-like layout (used by C36 style tests)
pub fn render_stmt(rng: &mut Rng, s: &GStmt) -> String {
    let mut t = String::new();
    t.push_str(&ws(rng, false));
    for l in &s.labels {
        t.push_str(l);
        if rng.chance(1, 3) { t.push(':'); t.push_str(&ws(rng, false)); } else { t.push_str(&ws(rng, true)); }
        if rng.chance(1, 5) { if rng.chance(1, 3) { t.push_str("; own line"); } t.push_str(if rng.bool() { "\n" } else { "\r\n" }); t.push_str(&ws(rng, false)); }
    }
    t.push_str(&rand_case(rng, &s.mnem));
    for (i, o) in s.ops.iter().enumerate() {
        if i == 0 { t.push_str(&ws(rng, true)); } else { t.push_str(&ws(rng, false)); t.push(','); t.push_str(&ws(rng, false)); }
        match o {
            Op::Reg(r) => { t.push(if rng.bool() { 'R' } else { 'r' }); t.push_str(&format!("{}{}", "0".repeat(rng.below(2) as usize), r)); }
            Op::Imm(v) => t.push_str(&num(rng, *v as i64)),
            Op::ImmU(v) => t.push_str(&num(rng, *v as i64)),
            Op::Lbl(l) => t.push_str(l),
            Op::Str(b) => t.push_str(&esc_str(rng, b)),
        }
    }
    t.push_str(&ws(rng, false));
    if rng.chance(1, 4) { t.push(';'); for _ in 0..rng.below(12) { t.push(*rng.pick(&['a', ' ', '"', '\\', ';', 'é', '#', 'x', '.', ':', ',', '\t', '→'])); } }
    t
}

pub fn render(rng: &mut Rng, ss: &[GStmt]) -> String {
    let mut t = String::new();
    for _ in 0..rng.below(2) { t.push_str(if rng.bool() { "\n" } else { "; header\r\n" }); }
    for (i, s) in ss.iter().enumerate() {
        t.push_str(&render_stmt(rng, s));
        if i + 1 < ss.len() || rng.chance(3, 4) { t.push_str(if rng.chance(1, 4) { "\r\n" } else { "\n" }); for _ in 0..rng.below(2) { t.push_str(&ws(rng, false)); t.push('\n'); } }
    }
    t
}

pub fn field_val(rng: &mut Rng, bits: u32, signed: bool) -> i32 {
    if signed { let lo = -(1i32 << (bits - 1)); let hi = (1i32 << (bits - 1)) - 1; let x = rng.range(lo as i64, hi as i64) as i32; *rng.pick(&[lo, hi, 0, -1, 1, lo + 1, hi - 1, x]) }
    else { let hi = (1i64 << bits) - 1; let x = rng.range(0, hi); *rng.pick(&[0i64, 1, hi, hi - 1, x]) as i32 }
}

/// a random instruction statement; `labels` = label names that exist (for label operands)
pub fn gen_instr(rng: &mut Rng, labels: &[String]) -> GStmt {
    let r = |rng: &mut Rng| Op::Reg(rng.below(8) as u8);
    let pc = |rng: &mut Rng, bits: u32| if !labels.is_empty() && rng.chance(2, 5) { Op::Lbl(rng.pick(labels).clone()) } else { Op::Imm(field_val(rng, bits, true)) };
    let (m, ops): (&str, Vec<Op>) = match rng.below(26) {
        0 => ("ADD", vec![r(rng), r(rng), r(rng)]), 1 => ("ADD", vec![r(rng), r(rng), Op::Imm(field_val(rng, 5, true))]),
        2 => ("AND", vec![r(rng), r(rng), r(rng)]), 3 => ("AND", vec![r(rng), r(rng), Op::Imm(field_val(rng, 5, true))]),
        4 => (*rng.pick(&["BR", "BRn", "BRz", "BRp", "BRnz", "BRnp", "BRzp", "BRnzp"]), vec![pc(rng, 9)]),
        5 => ("JMP", vec![r(rng)]), 6 => ("JSR", vec![pc(rng, 11)]), 7 => ("JSRR", vec![r(rng)]),
        8 => ("LD", vec![r(rng), pc(rng, 9)]), 9 => ("LDI", vec![r(rng), pc(rng, 9)]), 10 => ("LDR", vec![r(rng), r(rng), Op::Imm(field_val(rng, 6, true))]),
        11 => ("LEA", vec![r(rng), pc(rng, 9)]), 12 => ("NOT", vec![r(rng), r(rng)]), 13 => ("RET", vec![]), 14 => ("RTI", vec![]),
        15 => ("ST", vec![r(rng), pc(rng, 9)]), 16 => ("STI", vec![r(rng), pc(rng, 9)]), 17 => ("STR", vec![r(rng), r(rng), Op::Imm(field_val(rng, 6, true))]),
        18 => ("TRAP", vec![Op::ImmU(field_val(rng, 8, false) as u32)]), 19 => ("NOP", if rng.bool() { vec![] } else { vec![pc(rng, 9)] }),
        20 => ("GETC", vec![]), 21 => (*rng.pick(&["OUT", "PUTC"]), vec![]), 22 => ("PUTS", vec![]), 23 => ("IN", vec![]), 24 => ("PUTSP", vec![]), _ => ("HALT", vec![]),
    };
    GStmt { labels: vec![], mnem: m.to_string(), ops, size: 1 }
}

thread_local! { pub static NON_ASCII_LITERALS: std::cell::Cell<bool> = const { std::cell::Cell::new(false) }; }

pub fn gen_data(rng: &mut Rng, labels: &[String]) -> GStmt {
    match rng.below(4) {
        0 => GStmt { labels: vec![], mnem: ".fill".into(), ops: vec![if !labels.is_empty() && rng.chance(1, 3) { Op::Lbl(rng.pick(labels).clone()) } else if rng.bool() { Op::ImmU(rng.u16() as u32) } else { Op::ImmU(((-(rng.below(32768) as i32)) as i16 as u16) as u32) }], size: 1 },
        1 => { let n = 1 + rng.below(6) as u32; GStmt { labels: vec![], mnem: ".blkw".into(), ops: vec![Op::ImmU(n)], size: n } }
        _ => { let n = rng.below(8) as usize; let nonascii = NON_ASCII_LITERALS.with(|c| c.get()) && rng.chance(1, 3); let t: String = (0..n).map(|_| if nonascii && rng.chance(1, 3) { *rng.pick(&['é', '→', '😀', 'ß', '\u{7f}', '\u{a0}']) } else { *rng.pick(&['a', '\'', 'Z', ' ', '"', '\\', '\n', '\t', '\r', '\0', ';', '#', '~', '0']) }).collect(); let b: Vec<u8> = t.into_bytes(); let sz = b.len() as u32 + 1; GStmt { labels: vec![], mnem: ".stringz".into(), ops: vec![Op::Str(b)], size: sz } }
    }
}

/// a well-formed program: 1-3 disjoint blocks, labels defined before use resolution (forward and backward references)
pub struct Prog { pub stmts: Vec<GStmt>, pub label_addr: Vec<(String, u16)>, pub origins: Vec<u16> }

pub fn gen_prog(rng: &mut Rng, max_stmts: usize) -> Prog {
    let nblocks = 1 + rng.below(3) as usize;
    let mut origins: Vec<u16> = vec![];
    let mut base: u32 = *rng.pick(&[0x0000u32, 0x0200, 0x2FF0, 0x3000, 0x3000, 0x4000, 0x8000]);
    // decide label names first so that forward references are possible
    let nlabels = rng.below(5) as usize;
    let mut names: Vec<String> = vec![];
    while names.len() < nlabels { let n = label_name(rng); if !names.iter().any(|x: &String| x.to_uppercase() == n.to_uppercase()) { names.push(n); } }
    let mut stmts = vec![]; let mut label_addr = vec![]; let mut unplaced: Vec<String> = names.clone();
    for b in 0..nblocks {
        origins.push(base as u16);
        stmts.push(GStmt { labels: vec![], mnem: ".orig".into(), ops: vec![Op::ImmU(base)], size: 0 });
        let mut lc = base;
        let n = 1 + rng.below((max_stmts / nblocks).max(1) as u64) as usize;
        for _ in 0..n {
            let mut s = if rng.chance(3, 4) { gen_instr(rng, &[]) } else { gen_data(rng, &names) };
            // label operands only for near targets: replaced below after layout; here keep numeric PC offsets
            while !unplaced.is_empty() && rng.chance(1, 3) { let l = unplaced.remove(0); label_addr.push((l.clone(), lc as u16)); s.labels.push(l); }
            lc += s.size; stmts.push(s);
        }
        let mut e = GStmt { labels: vec![], mnem: ".end".into(), ops: vec![], size: 0 };
        if b + 1 == nblocks { while let Some(l) = unplaced.pop() { label_addr.push((l.clone(), lc as u16)); e.labels.push(l); } }
        stmts.push(e);
        base = lc + rng.below(3) as u32 * rng.below(0x100) as u32;
    }
    // PC-relative label operands: rewrite some numeric PC offsets into labels when the distance fits
    let mut lc_of: Vec<u32> = vec![]; { let mut lc = 0u32; for s in &stmts { if s.mnem == ".orig" { if let Op::ImmU(a) = s.ops[0] { lc = a; } } lc_of.push(lc); lc += s.size; } }
    for (i, s) in stmts.iter_mut().enumerate() {
        let (idx, bits) = match s.mnem.to_uppercase().as_str() { "LD" | "LDI" | "LEA" | "ST" | "STI" => (1usize, 9u32), "JSR" => (0, 11), m if m.starts_with("BR") => (0, 9), "NOP" if !s.ops.is_empty() => (0, 9), _ => continue };
        if rng.chance(1, 2) { for (l, a) in &label_addr { let d = *a as i32 - (lc_of[i] as i32 + 1); if d >= -(1 << (bits - 1)) && d < (1 << (bits - 1)) && rng.bool() { s.ops[idx] = Op::Lbl(if rng.bool() { l.clone() } else { rand_case(rng, l) }); break; } } }
    }
    Prog { stmts, label_addr, origins }
}
