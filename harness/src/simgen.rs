//! Generators of simulator cases (machine states + programs + op sequences) shared by the simulator properties.
use crate::util::*;

pub const BOUNDARY: [u16; 22] = [0x0000, 0x0001, 0x00FF, 0x0100, 0x01FF, 0x0200, 0x2FFE, 0x2FFF, 0x3000, 0x3001, 0x4000,
    0xFDFE, 0xFDFF, 0xFE00, 0xFE02, 0xFE04, 0xFE06, 0xFFF0, 0xFFFC, 0xFFFE, 0xFFFF, 0x7FFF];

pub fn baddr(rng: &mut Rng) -> u16 {
    match rng.below(10) { 0..=4 => *rng.pick(&BOUNDARY), 5..=6 => 0x3000 + (rng.u16() & 0xFF), 7 => 0x2F00 + (rng.u16() & 0xFF), _ => rng.u16() }
}
pub fn soff(rng: &mut Rng, bits: u32) -> u16 {
    let m = (1u32 << bits) - 1;
    let v = match rng.below(8) { 0 => 0, 1 => 1, 2 => m, 3 => 1 << (bits - 1), 4 => (1 << (bits - 1)) - 1, 5 => m - 1, _ => rng.next() as u32 & m };
    v as u16
}

#[derive(Clone, Copy, PartialEq)]
pub enum Prof { Isa, User, Strict, Wild, Frames, Observer }

/// one random (mostly valid) instruction word
pub fn instr(rng: &mut Rng, prof: Prof) -> u16 {
    if rng.chance(1, 12) { return rng.u16(); } // arbitrary word: ~half invalid/reserved
    let r = |rng: &mut Rng| (rng.below(8) as u16);
    let op = match prof {
        Prof::Frames => *rng.pick(&[4u16, 4, 4, 12, 12, 15, 15, 1, 5, 0, 8, 6, 7]),
        _ => *rng.pick(&[0u16, 1, 1, 2, 3, 4, 5, 5, 6, 6, 7, 7, 8, 9, 10, 11, 12, 12, 14, 15, 15]),
    };
    match op {
        0 => (rng.below(8) as u16) << 9 | soff(rng, 9),
        1 | 5 => (op << 12) | r(rng) << 9 | r(rng) << 6 | if rng.bool() { 0x20 | soff(rng, 5) } else { r(rng) },
        2 | 3 | 10 | 11 | 14 => (op << 12) | r(rng) << 9 | soff(rng, 9),
        4 => if rng.bool() { 0x4800 | soff(rng, 11) } else { 0x4000 | r(rng) << 6 },
        6 | 7 => (op << 12) | r(rng) << 9 | (if rng.chance(1, 3) { 6 } else { r(rng) }) << 6 | soff(rng, 6),
        8 => 0x8000,
        9 => 0x903F | r(rng) << 9 | r(rng) << 6,
        12 => 0xC000 | (if rng.chance(1, 3) { 7 } else { r(rng) }) << 6,
        _ => 0xF000 | match rng.below(8) { 0..=4 => 0x20 + rng.below(6) as u16, 5 => 0x25, _ => rng.u16() & 0xFF },
    }
}

pub struct CaseOpts { pub prof: Prof, pub strict: bool, pub real: bool, pub dbg: bool, pub ign: bool, pub steps: usize }

fn cell(d: u16, i: u16) -> String { format!("{}/{}", hex16(d), hex16(i)) }

/// Emits the set-up lines of a random machine state; returns them (exec ops are appended by the caller).
pub fn setup(rng: &mut Rng, o: &CaseOpts, id: u64) -> Vec<String> {
    let mut v = vec![format!("case {id}")];
    let fill = *rng.pick(&[0u16, 0xABCD, 0xFFFF, 0x3000, 0xF025]);
    v.push(format!("sim new {} {} {} {} {}", o.strict as u8, o.real as u8, o.dbg as u8, o.ign as u8, hex16(fill)));
    v.push("sim mmap fff0 ssp".into());
    if rng.chance(9, 10) { v.push("sim kbset".into()); if rng.chance(2, 3) { let n = rng.below(4); let mut s = String::new(); for _ in 0..n { s.push_str(&format!("{:02x}", rng.below(256))); } if n > 0 { v.push(format!("sim kbpush {s}")); } } }
    if rng.chance(9, 10) { v.push("sim dsset".into()); }
    // where the program lives
    let user = match o.prof { Prof::User => true, Prof::Wild => rng.bool(), _ => rng.chance(3, 5) };
    let pc = match o.prof {
        Prof::Wild => baddr(rng),
        _ => if user { if rng.chance(1, 6) { *rng.pick(&[0x3000u16, 0xFDF0, 0xFDFD, 0xFDFF, 0x2FFE]) } else { 0x3000 + (rng.u16() & 0x3FF) } }
             else { *rng.pick(&[0x1000u16, 0x2FF0, 0x2FFE, 0x0500, 0xFFFA, 0xFDFE, 0x3000]) },
    };
    // memory image around the PC
    let init_mask = |rng: &mut Rng| -> u16 { if o.strict || o.prof == Prof::Wild { match rng.below(10) { 0 => 0, 1 => rng.u16(), _ => 0xFFFF } } else { 0xFFFF } };
    let n = 24 + rng.below(24) as u16;
    let start = pc.wrapping_sub(rng.below(6) as u16);
    let mut line = format!("sim rawmem {}", hex16(start));
    let mut jsr_targets: Vec<u16> = vec![];
    for k in 0..n { let w = instr(rng, o.prof); line.push(' '); line.push_str(&cell(w, init_mask(rng)));
        // JSR with an 11-bit offset: remember where it lands (signatures are registered there below)
        if w >> 11 == 0b01001 { let off = (((w & 0x7FF) << 5) as i16) >> 5; jsr_targets.push(start.wrapping_add(k).wrapping_add(1).wrapping_add(off as u16)); } }
    v.push(line);
    // scattered data
    for _ in 0..rng.below(8) {
        let a = baddr(rng);
        let mut line = format!("sim rawmem {}", hex16(a));
        for _ in 0..1 + rng.below(4) { let d = if rng.bool() { baddr(rng) } else { rng.u16() }; line.push(' '); line.push_str(&cell(d, init_mask(rng))); }
        v.push(line);
    }
    // one case in eight (one in three in strict mode) loads an object file with a block that ends exactly at the top of memory
    // or wraps (only the object formats can express it): strict mode consults the table of loaded blocks for every data
    // access; some registers then point into that block
    let mut hi_block: Option<u16> = None;
    if rng.chance(1, if o.strict { 3 } else { 8 }) {
        let start = *rng.pick(&[0xFFF8u16, 0xFFFC, 0xFFFF, 0xFFF0]);
        let len = match rng.below(3) { 0 => 0x10000 - start as u32, 1 => 0x10000 - start as u32 + 3, _ => 1 + rng.below(4) as u32 };
        let cells: Vec<String> = (0..len).map(|_| if rng.chance(1, 3) { "_".to_string() } else { hex16(rng.u16()) }).collect();
        v.push(format!("sim loadraw {}:{}", hex16(start), cells.join(",")));
        hi_block = Some(start);
    }
    // registers
    for r in 0..8 {
        let d = if let (Some(st), true) = (hi_block, (1..=3).contains(&r) && rng.bool()) { st.wrapping_add(rng.below(6) as u16) } else if r == 6 { *rng.pick(&[0x3000u16, 0x2FF0, 0xFE00, 0x0000, 0x0001, 0x3001, 0xF000, 0x2FFF, 0xFFFD, 0xFFFF, 0xFFFA, 0xFFF9]) } else if rng.chance(2, 3) { baddr(rng) } else { rng.u16() };
        let i = if o.strict || o.prof == Prof::Wild { match rng.below(6) { 0 => 0, 1 => rng.u16(), _ => 0xFFFF } } else if rng.chance(1, 8) { 0 } else { 0xFFFF };
        v.push(format!("sim rawreg {} {} {}", r, hex16(d), hex16(i)));
    }
    v.push(format!("sim setpc {}", hex16(pc)));
    // PSR: privilege / priority / cc  (through the MMIO port: masked + CC-normalised)
    let psr = (if user { 0x8000 } else { 0 }) | ((rng.below(8) as u16) << 8) | *rng.pick(&[1u16, 2, 4, 0, 7, 3]);
    v.push(format!("sim hostwrite fffc {} ffff 1 0 0 0", hex16(psr)));
    // saved SP (one case in six keeps the one a new machine starts with)
    let ssp = *rng.pick(&[0x3000u16, 0x2FF0, 0x2FFF, 0x0002, 0x0000, 0xFE00, 0xFE02, 0x1000, 0x0201]);
    if !rng.chance(1, 6) { v.push(format!("sim hostwrite fff0 {} ffff 1 0 0 0", hex16(ssp))); }
    // interrupts
    if rng.chance(1, 3) {
        let mut toks = vec![];
        for _ in 0..o.steps {
            toks.push(if rng.chance(1, 12) {
                if rng.chance(1, 10) { format!("x{}", rng.below(100)) }
                else { format!("v{:x}p{}", *rng.pick(&[0x80u16, 0x81, 0x00, 0x01, 0x02, 0x25, 0xFF, 0x10]), rng.below(9)) }
            } else { "-".to_string() });
        }
        v.push(format!("sim intr {}", toks.join(",")));
    }
    if rng.chance(1, 6) { v.push("sim hostwrite fe00 4000 ffff 1 0 0 0".into()); } // keyboard interrupts on
    if o.dbg {
        // the frame-stack profile registers more signatures, close to the code, so that calls do land on them
        let nsig = if o.prof == Prof::Frames { 2 + rng.below(6) } else { rng.below(3) };
        for _ in 0..nsig {
            let a = if o.prof == Prof::Frames && !jsr_targets.is_empty() && rng.chance(2, 3) { *rng.pick(&jsr_targets) }
                else if rng.bool() || o.prof == Prof::Frames { pc.wrapping_add(rng.below(30) as u16) } else { baddr(rng) };
            if rng.bool() { v.push(format!("sim srdef {} cc {}", hex16(a), rng.below(4))); }
            else { let k = rng.below(3); let rs: Vec<String> = (0..k).map(|_| rng.below(8).to_string()).collect(); v.push(format!("sim srdef {} pbr {}", hex16(a), if rs.is_empty() { "-".to_string() } else { rs.join(",") })); }
        }
        // signatures registered for interrupt and exception handlers: the callee of such a frame is its vector-table
        // entry x0100+v, and the frame's arguments are the ones described by the signature registered there
        if o.prof == Prof::Frames && rng.bool() {
            for _ in 0..1 + rng.below(3) {
                let a = 0x0100 + *rng.pick(&[0x80u16, 0x81, 0x00, 0x01, 0x02, 0x25, 0xFF, 0x10]);
                if rng.bool() { v.push(format!("sim srdef {} cc {}", hex16(a), 1 + rng.below(3))); }
                else { let k = 1 + rng.below(2); let rs: Vec<String> = (0..k).map(|_| rng.below(8).to_string()).collect(); v.push(format!("sim srdef {} pbr {}", hex16(a), rs.join(","))); }
            }
        }
    }
    v
}
