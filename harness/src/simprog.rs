//! A tiny label-resolving assembler used by the harness to build structured LC-3 test programs (words only).
use std::collections::HashMap;

pub enum Item { W(u16), PcRel { base: u16, bits: u32, label: String }, Addr(String) }
pub struct Asm { pub org: u16, pub items: Vec<Item>, pub labels: HashMap<String, u16> }
impl Asm {
    pub fn new(org: u16) -> Self { Asm { org, items: vec![], labels: HashMap::new() } }
    pub fn here(&self) -> u16 { self.org.wrapping_add(self.items.len() as u16) }
    pub fn label(&mut self, l: &str) { let h = self.here(); self.labels.insert(l.to_string(), h); }
    pub fn w(&mut self, w: u16) { self.items.push(Item::W(w)); }
    pub fn rel(&mut self, base: u16, bits: u32, l: &str) { self.items.push(Item::PcRel { base, bits, label: l.to_string() }); }
    pub fn addr(&mut self, l: &str) { self.items.push(Item::Addr(l.to_string())); }
    // instruction helpers
    pub fn add_i(&mut self, dr: u16, sr: u16, imm: i16) { self.w(0x1000 | dr << 9 | sr << 6 | 0x20 | (imm as u16 & 0x1F)); }
    pub fn add_r(&mut self, dr: u16, sr: u16, r2: u16) { self.w(0x1000 | dr << 9 | sr << 6 | r2); }
    pub fn and_i(&mut self, dr: u16, sr: u16, imm: i16) { self.w(0x5000 | dr << 9 | sr << 6 | 0x20 | (imm as u16 & 0x1F)); }
    pub fn not(&mut self, dr: u16, sr: u16) { self.w(0x903F | dr << 9 | sr << 6); }
    pub fn ld(&mut self, dr: u16, l: &str) { self.rel(0x2000 | dr << 9, 9, l); }
    pub fn st(&mut self, sr: u16, l: &str) { self.rel(0x3000 | sr << 9, 9, l); }
    pub fn ldi(&mut self, dr: u16, l: &str) { self.rel(0xA000 | dr << 9, 9, l); }
    pub fn sti(&mut self, sr: u16, l: &str) { self.rel(0xB000 | sr << 9, 9, l); }
    pub fn lea(&mut self, dr: u16, l: &str) { self.rel(0xE000 | dr << 9, 9, l); }
    pub fn ldr(&mut self, dr: u16, b: u16, off: i16) { self.w(0x6000 | dr << 9 | b << 6 | (off as u16 & 0x3F)); }
    pub fn str(&mut self, sr: u16, b: u16, off: i16) { self.w(0x7000 | sr << 9 | b << 6 | (off as u16 & 0x3F)); }
    pub fn br(&mut self, cc: u16, l: &str) { self.rel(cc << 9, 9, l); }
    pub fn jsr(&mut self, l: &str) { self.rel(0x4800, 11, l); }
    pub fn jsrr(&mut self, b: u16) { self.w(0x4000 | b << 6); }
    pub fn jmp(&mut self, b: u16) { self.w(0xC000 | b << 6); }
    pub fn ret(&mut self) { self.w(0xC1C0); }
    pub fn rti(&mut self) { self.w(0x8000); }
    pub fn trap(&mut self, v: u16) { self.w(0xF000 | v); }
    pub fn words(&self) -> Vec<u16> {
        self.items.iter().enumerate().map(|(i, it)| match it {
            Item::W(w) => *w,
            Item::Addr(l) => *self.labels.get(l).unwrap_or_else(|| panic!("label {l}")),
            Item::PcRel { base, bits, label } => {
                let tgt = *self.labels.get(label).unwrap_or_else(|| panic!("label {label}"));
                let pc1 = self.org.wrapping_add(i as u16 + 1);
                let off = tgt.wrapping_sub(pc1);
                base | (off & (((1u32 << bits) - 1) as u16))
            }
        }).collect()
    }
    /// `sim rawmem` line (all words fully initialised)
    pub fn rawmem(&self) -> String {
        let mut s = format!("sim rawmem {:04x}", self.org);
        for w in self.words() { s.push_str(&format!(" {:04x}/ffff", w)); }
        s
    }
}
