//! Generators + implementation-side oracles for the step-level simulator properties C09, C14, C16, C27, C28.
use crate::util::*;
use crate::exec::Exec;
use crate::simgen::*;
use crate::c08::{field, run_case, Stats};
use std::collections::HashSet;

fn hx(s: &str) -> u16 { u16::from_str_radix(s, 16).unwrap_or(0) }
fn chg_addrs(d: &str) -> Vec<u16> {
    field(d, "chg").map(|c| c.split(',').filter(|x| !x.is_empty() && !x.starts_with('+')).map(|x| hx(&x[..4])).collect()).unwrap_or_default()
}

/// C09: adversarial user-mode programs. Oracle: a step that starts in user mode with privilege checks on either
/// (a) changes only user-space cells, or (b) is a supervisor entry that pushes exactly two words on the
/// supervisor stack; a reported access/privilege violation changes no memory and no device buffer.
pub fn c09(out: &mut Out, ex: &mut Exec, seed: u64, thorough: bool) {
    let mut rng = Rng::new(seed);
    let mut stats = Stats { seen: HashSet::new() };
    let n = if thorough { 40_000 } else { 1_800 };
    for id in 0..n {
        let steps = 12 + rng.below(30) as usize;
        let o = CaseOpts { prof: Prof::User, strict: false, real: rng.bool(), dbg: rng.chance(1, 5), ign: false, steps };
        let lines = setup(&mut rng, &o, id);
        run_case(out, ex, &lines, steps, &mut rng, &mut stats, |out, prev, cur, all| {
            let psr0 = hx(field(prev, "psr").unwrap_or("0"));
            if psr0 & 0x8000 == 0 { return; } // not user mode before the step
            out.hist.hit("user_mode_step");
            let psr1 = hx(field(cur, "psr").unwrap_or("0"));
            let res = cur.split(' ').next().unwrap_or("");
            let ssp0 = field(prev, "ssp").map(hx).unwrap_or(0);
            let addrs = chg_addrs(cur);
            let devsame = field(prev, "kb") == field(cur, "kb") && field(prev, "ds") == field(cur, "ds");
            let bad: Vec<u16> = if res == "err:acv" || res == "err:priv" {
                out.hist.hit("user_violation_reported");
                // under real traps the violation is vectored: the entry swaps the stacks and pushes PSR and PC at SSP-1, SSP-2;
                // when SSP is garbage (e.g. xFFFD after an earlier swap) a push can itself fault and the step still ends in
                // the error, with those supervisor-stack cells written — that is part of the vectoring, not of the user's access
                addrs.iter().copied().filter(|a| *a != 0xFFF0 && !(o.real && (*a == ssp0.wrapping_sub(1) || *a == ssp0.wrapping_sub(2)))).collect()
            } else if psr1 & 0x8000 == 0 {
                out.hist.hit("user_to_supervisor_entry");
                addrs.iter().copied().filter(|a| *a != 0xFFF0 && *a != ssp0.wrapping_sub(1) && *a != ssp0.wrapping_sub(2)).collect()
            } else {
                addrs.iter().copied().filter(|a| *a != 0xFFF0 && !(0x3000..0xFE00).contains(a)).collect()
            };
            if !bad.is_empty() || !devsame {
                out.fail(out.lines, format!("user-mode step touched state outside user space: cells {:04x?} devices_unchanged={} :: {} -> {}", bad, devsame, prev, cur), all.join("\n"));
            }
        });
    }
    out.rule = "adversarial user-mode states (PSR[15]=1, privilege checks on): registers/pointers aimed at x0000,x01FF,x2FFF,x3000,xFDFF,xFE00,KBDR,DDR,PSR,MCR,xFFFF and random addresses, every addressing mode incl. fall-through fetch at xFDFF, TRAP and RTI, real and virtual traps; oracle on the implementation: user-mode steps change only user-space cells, or are supervisor entries pushing two words at the saved SP; violations change nothing. distinct = distinct case text; non-trivial = >=3 ok steps or an error/trap event".into();
}

/// C16: wild states, every flag combination; nothing may panic.
pub fn c16(out: &mut Out, ex: &mut Exec, seed: u64, thorough: bool) {
    let mut rng = Rng::new(seed);
    let mut stats = Stats { seen: HashSet::new() };
    let n = if thorough { 60_000 } else { 2_000 };
    for id in 0..n {
        let steps = 10 + rng.below(40) as usize;
        let o = CaseOpts { prof: Prof::Wild, strict: rng.bool(), real: rng.bool(), dbg: rng.bool(), ign: rng.bool(), steps };
        let mut lines = setup(&mut rng, &o, id);
        // internal registers mapped at random I/O addresses, a timer, a recorder
        for _ in 0..rng.below(3) { lines.push(format!("sim mmap {} {}", hex16(0xFE00 | (rng.u16() & 0x1FF)), rng.pick(&["pc", "psr", "mcr", "ssp"]))); }
        if rng.chance(1, 3) { lines.push(format!("sim rec {} {} {} {}", rng.below(2), rng.below(2), hex16(rng.u16()), hex16(0xFE10 + (rng.u16() & 0xF)))); }
        out.hist.hit(&format!("flags_s{}r{}d{}i{}", o.strict as u8, o.real as u8, o.dbg as u8, o.ign as u8));
        run_case(out, ex, &lines, steps, &mut rng, &mut stats, |_, _, _, _| {});
        if rng.chance(1, 4) {
            for l in [format!("sim run {}", 1 + rng.below(300)), "sim state".to_string()] {
                let r = ex.line(&l); out.op(&l, &r); out.evaluations += 1;
                if r.starts_with("panic") { out.fail(out.lines, format!("simulator panicked in {l}: {r}"), format!("{}\n{}", lines.join("\n"), l)); }
            }
        }
    }
    out.rule = "random machine states with arbitrary PC (every region boundary incl. xFFFF/x0000), partially initialised registers and memory, all 16 combinations of strict/real_traps/debug_frames/ignore_privilege, keyboard/display, scripted interrupts, internal registers mapped at random I/O addresses, recording device; 10-50 steps + run_with_limit, then prefetch_pc() (part of every digest); all under catch_unwind. distinct = distinct case text".into();
}

/// C14: the same case with strict off and on; oracle: first difference is a strict error on the strict side.
pub fn c14(out: &mut Out, ex: &mut Exec, seed: u64, thorough: bool) {
    let mut rng = Rng::new(seed);
    let n = if thorough { 30_000 } else { 1_200 };
    let mut seen = HashSet::new();
    for id in 0..n {
        let steps = 10 + rng.below(30) as usize;
        let all_init = rng.chance(1, 4);
        let o = CaseOpts { prof: if all_init { Prof::Isa } else { Prof::Strict }, strict: !all_init, real: rng.bool(), dbg: false, ign: rng.chance(1, 4), steps };
        let mut base = setup(&mut rng, &o, id);
        if rng.chance(1, 3) { base.push(format!("sim load {}:{}", hex16(0x3100 + (rng.u16() & 0xFF)), (0..4 + rng.below(6)).map(|_| if rng.bool() { "_".to_string() } else { hex16(rng.u16()) }).collect::<Vec<_>>().join(","))); }
        let mut runs: Vec<Vec<String>> = vec![];
        for strict in [false, true] {
            let mut lines = base.clone();
            lines[0] = format!("case {}{}", id, if strict { "s" } else { "n" });
            // flip the strict flag in the `sim new` line
            let parts: Vec<String> = lines[1].split(' ').map(|x| x.to_string()).collect();
            lines[1] = format!("sim new {} {} {} {} {}", strict as u8, parts[3], parts[4], parts[5], parts[6]);
            if all_init { lines.push("sim initall".to_string()); }
            let mut digests = vec![];
            for l in &lines { let r = ex.line(l); out.op(l, &r); }
            for _ in 0..steps {
                let r = ex.line("sim step"); out.op("sim step", &r); out.evaluations += 1;
                let stop = !r.starts_with("ok");
                digests.push(r);
                if stop { break; }
            }
            let r = ex.line("sim memhash"); out.op("sim memhash", &r); digests.push(r);
            runs.push(digests);
            if strict && seen.insert(crate::simx::fnv(lines.iter().flat_map(|l| l.bytes().map(|b| b as u64)))) { out.nontrivial += 1; }
        }
        // oracle
        let (ns, st) = (&runs[0], &runs[1]);
        let strict_kinds = ["err:sreg", "err:smem", "err:sio", "err:sjmp", "err:ssr", "err:smaddr", "err:spccurr", "err:spcnext", "err:spsr"];
        let mut i = 0;
        loop {
            if i >= st.len() - 1 { break; }
            let s = &st[i];
            let sres = s.split(' ').next().unwrap();
            if strict_kinds.contains(&sres) { out.hist.hit(&format!("strict_{sres}")); if all_init { out.fail(out.lines, format!("strict error {sres} on a fully initialised machine: {s}"), base.join("\n")); } break; }
            if i >= ns.len() - 1 { out.fail(out.lines, format!("strict run is longer than the non-strict run at step {i}"), base.join("\n")); break; }
            if s != &ns[i] { out.fail(out.lines, format!("step {i} differs and is not a strict error: strict `{}` vs non-strict `{}`", s, ns[i]), base.join("\n")); break; }
            out.hist.hit("paired_step_equal");
            i += 1;
        }
        if st.len() == ns.len() && i == st.len() - 1 && st[i] != ns[i] { out.fail(out.lines, "final memory differs between strict and non-strict runs".to_string(), base.join("\n")); }
        if out.samples.len() < 2 { let mut s = Json::obj(); s.set("case", Json::Arr(base.iter().take(25).map(|x| Json::s(x.clone())).collect())); s.set("strict_last", Json::s(st[st.len() - 2].clone())); out.sample(s); }
    }
    out.rule = "pairs of runs from identical states (partially initialised memory/registers through the hook; 1/4 of the pairs on fully initialised machines), strict off vs on, incl. loaded .blkw blocks, jumps into OS memory and the I/O page, R6-relative accesses; every step compared with the model, and pairwise on the implementation (first difference must be a strict error on the strict side; none on fully initialised machines). distinct = distinct pair text".into();
}

/// C27 / C28 share the generic runner with their own profiles (the model is the oracle; C27 adds a depth check).
pub fn c27(out: &mut Out, ex: &mut Exec, seed: u64, thorough: bool) {
    let mut rng = Rng::new(seed);
    let mut stats = Stats { seen: HashSet::new() };
    let n = if thorough { 40_000 } else { 1_800 };
    // hand-shaped strict-mode cases: a return that strict mode refuses (R7 uninitialised inside a trap routine, or a
    // return address whose cell was never loaded) must not pop a frame; every step compared with the model
    for (k, real) in [(0u32, 0u8), (1, 0), (2, 1), (3, 0)] {
        let mut lines: Vec<String> = vec![format!("case strict-ret-{k}"), format!("sim new 1 {real} 1 0 0000"), "sim mmap fff0 ssp".into()];
        match k {
            // JSR x3010 from x3000, x3001 never loaded: RET is refused (StrictPCNextUninit)
            0 => { lines.push("sim rawmem 3000 480f/ffff".into()); lines.push("sim rawmem 3010 c1c0/ffff".into()); }
            // the same through JSRR R2 and JMP R7 after an instruction in the callee
            1 => { lines.push("sim rawmem 3000 4080/ffff".into()); lines.push("sim rawmem 3010 1020/ffff c1c0/ffff".into()); lines.push("sim rawreg 2 3010 ffff".into()); }
            // TRAP x30 to a routine at x1000 that executes RET while R7 is still uninitialised (StrictJmpAddrUninit)
            2 | _ => { lines.push("sim rawmem 3000 f030/ffff 1020/ffff".into()); lines.push("sim rawmem 0030 1000/ffff".into()); lines.push("sim rawmem 1000 c1c0/ffff 8000/ffff".into()); if k == 3 { lines.push("sim rawreg 7 3001 00ff".into()); } }
        }
        lines.push("sim rawreg 0 0001 ffff".into()); lines.push("sim rawreg 6 fe00 ffff".into()); lines.push("sim hostwrite fff0 3000 ffff 1 0 0 0".into());
        lines.push("sim setpc 3000".into()); lines.push("sim state".into());
        for _ in 0..4 { lines.push("sim step".into()); }
        let mut last_fn: Option<i64> = None; let mut all = vec![];
        for l in &lines { let r = ex.line(l); out.op(l, &r); all.push(l.clone()); out.evaluations += 1;
            if l == "sim step" { let f: i64 = field(&r, "fn").and_then(|x| x.parse().ok()).unwrap_or(0);
                if !r.starts_with("ok") { if let Some(p) = last_fn { if f != p { out.fail(out.lines, format!("a refused strict-mode step changed the frame depth from {p} to {f}: {r}"), all.join("\n")); } } }
                last_fn = Some(f); } }
        out.hist.hit("strict_refused_return");
    }
    for id in 0..n {
        let steps = 20 + rng.below(40) as usize;
        let o = CaseOpts { prof: Prof::Frames, strict: id % 4 == 3, real: rng.bool(), dbg: rng.chance(3, 4), ign: rng.chance(1, 2), steps };
        let lines = setup(&mut rng, &o, id);
        run_case(out, ex, &lines, steps, &mut rng, &mut stats, |out, prev, cur, all| {
            let f0: i64 = field(prev, "fn").and_then(|x| x.parse().ok()).unwrap_or(0);
            let f1: i64 = field(cur, "fn").and_then(|x| x.parse().ok()).unwrap_or(0);
            out.hist.hit(&format!("depth_delta_{}", f1 - f0));
            if (f1 - f0).abs() > 1 { out.fail(out.lines, format!("frame depth changed by {} in one step", f1 - f0), all.join("\n")); }
            if let Some(fr) = field(cur, "fr") { if fr != "-" { let n: i64 = fr.split(|c| c == '|' || c == '#').next().and_then(|x| x.parse().ok()).unwrap_or(-1); if n != f1 { out.fail(out.lines, format!("frame list has {n} entries but depth is {f1}"), all.join("\n")); } } }
        });
    }
    // host-initiated calls (`Simulator::call_subroutine`, public API) at arbitrary pauses — after ordinary steps, after a
    // virtual HALT (PC not advanced), after a refused fetch: the frame's caller is what `prefetch_pc()` reports at that pause
    let mut rng2 = Rng::new(seed ^ 0x5ca1_ab1e_c27);
    for id in 0..n / 6 {
        let steps = 4 + rng2.below(12) as usize;
        let o = CaseOpts { prof: Prof::Frames, strict: id % 5 == 4, real: rng2.bool(), dbg: true, ign: rng2.bool(), steps };
        let mut lines = setup(&mut rng2, &o, 900_000 + id);
        let mut all: Vec<String> = vec![];
        lines.push("sim state".into());
        let pre = rng2.below(steps as u64) as usize;
        for k in 0..steps {
            if k == pre || rng2.chance(1, 6) {
                let pc_line = ex.line("sim state"); let pc = u16::from_str_radix(field(&pc_line, "pc").unwrap_or("0"), 16).unwrap_or(0);
                let tgt = match rng2.below(4) { 0 => pc, 1 => pc.wrapping_add(rng2.below(8) as u16), 2 => *rng2.pick(&[0x0000u16, 0xFFFF, 0xFE00, 0x2FFF, 0x3000]), _ => rng2.u16() };
                lines.push(format!("sim callsub {}", hex16(tgt))); lines.push("sim state".into());
                out.hist.hit("host_call_subroutine");
            }
            lines.push("sim step".into());
            // issue what has been queued so far (the next decision reads the current PC)
            for l in lines.drain(..) { let r = ex.line(&l); out.op(&l, &r); all.push(l.clone()); out.evaluations += 1;
                if r.starts_with("panic") { out.fail(out.lines, format!("panic: {l} -> {r}"), all.join("\n")); } }
        }
        if stats.seen.insert(crate::c08::hash_lines(&all)) { out.nontrivial += 1; }
    }
    out.rule = "call-heavy random programs (JSR/JSRR/RET/TRAP/RTI dense; every fourth case in strict mode, where a RET through an uninitialised R7 or to uninitialised memory is refused and must leave the frames alone), unbalanced returns, interrupts, registered calling-convention and pass-by-register signatures at random addresses, debug frames mostly on; plus host-initiated `call_subroutine` at arbitrary pauses (after steps, virtual HALT, refused fetches); frame depth and the full frame list compared with the model after every step; implementation-side check: |depth delta| <= 1 and list length = depth".into();
}

pub fn c28(out: &mut Out, ex: &mut Exec, seed: u64, thorough: bool) {
    let mut rng = Rng::new(seed);
    let n = if thorough { 40_000 } else { 1_500 };
    let mut seen = HashSet::new();
    for id in 0..n {
        let steps = 10 + rng.below(25) as usize;
        let o = CaseOpts { prof: Prof::Isa, strict: id % 4 == 3, real: rng.bool(), dbg: false, ign: rng.chance(1, 3), steps };
        let lines = setup(&mut rng, &o, id);
        let mut all = vec![];
        for l in &lines { let r = ex.line(l); out.op(l, &r); all.push(l.clone()); }
        for _ in 0..steps {
            let l = match rng.below(12) {
                0 => format!("sim hostread {} 1 0 0 0", hex16(baddr(&mut rng))),
                1 => format!("sim hostwrite {} {} ffff 1 0 0 0", hex16(baddr(&mut rng)), hex16(rng.u16())),
                2 => format!("sim hostread {} 1 0 0 1", hex16(baddr(&mut rng))),
                3 => format!("sim run {}", 1 + rng.below(6)),
                4 if rng.chance(1, 3) => "sim run 0".to_string(), // a run of zero steps still starts a new observation
                _ => "sim step".to_string(),
            };
            let r = ex.line(&l); out.op(&l, &r); all.push(l.clone()); out.evaluations += 1;
            out.hist.hit(l.split(' ').nth(1).unwrap_or(""));
            let q = if rng.chance(1, 3) { "sim obs take" } else { "sim obs peek" };
            let r2 = ex.line(q); out.op(q, &r2); all.push(q.into());
            // a long observer listing is printed as a digest `#<count>:<hash>`: no flags to inspect there
            let listing = !r2.starts_with('#');
            if listing && (r2.contains(":6") || r2.contains(":7")) { out.hist.hit("modified_seen"); }
            if listing && (r2.contains(":4") || r2.contains(":5")) { out.fail(out.lines, format!("observer reports modified without written: {r2}"), all.join("\n")); }
            if !r.starts_with("ok") && !l.contains("host") { break; }
        }
        if seen.insert(crate::simx::fnv(all.iter().flat_map(|l| l.bytes().map(|b| b as u64)))) { out.nontrivial += 1; }
        if out.samples.len() < 2 { let mut s = Json::obj(); s.set("case", Json::Arr(all.iter().rev().take(12).rev().map(|x| Json::s(x.clone())).collect())); out.sample(s); }
    }
    out.rule = "random programs (three quarters non-strict, one quarter strict: the strict-mode peek at the next instruction is not an access); after every step / short run the observer is queried (peek = get_mem_accesses for all addresses, take = take_mem_accesses) and compared with the model's access sets; untracked host reads/writes (omnipotent context) and tracked host reads interleaved; implementation-side check: modified implies written".into();
}
