//! Generators + oracles for C13 (run-style calls), C10 (interrupt transparency), C11/C12 (OS traps), C29, C30, C33.
use crate::util::*;
use crate::exec::Exec;
use crate::simprog::Asm;
use crate::c08::field;
use std::collections::HashSet;

fn strip_chg(d: &str) -> String { d.split(' ').filter(|t| !t.starts_with("chg=") && !t.starts_with("hb=") && !t.starts_with("hh=") && !t.starts_with("mcr=")).collect::<Vec<_>>().join(" ") }

/// A structured terminating user program: loop with calls, nested call, traps, final HALT.
pub fn structured(rng: &mut Rng, with_io: bool) -> Asm {
    let mut a = Asm::new(0x3000);
    a.ld(1, "COUNT"); a.and_i(0, 0, 0); a.and_i(2, 2, 0); a.and_i(3, 3, 0);
    a.label("LOOP");
    a.add_i(0, 0, 1);
    if rng.bool() { a.jsr("SUB"); } else { a.lea(4, "SUB"); a.jsrr(4); }
    if with_io && rng.bool() { a.st(0, "SAVE0"); a.ld(0, "CH"); a.trap(0x21); a.ld(0, "SAVE0"); }
    if with_io && rng.chance(1, 3) { a.st(0, "SAVE0"); a.trap(0x20); a.trap(0x21); a.ld(0, "SAVE0"); }
    if rng.bool() { a.st(2, "DATA"); a.ld(5, "DATA"); }
    a.add_i(1, 1, -1);
    a.br(1, "LOOP"); // BRp
    if with_io && rng.bool() { a.lea(0, "STR"); a.trap(0x22); }
    a.trap(0x25);
    a.label("SUB");
    a.add_i(2, 2, 1);
    if rng.bool() { a.st(7, "SAVE7"); a.jsr("SUB2"); a.ld(7, "SAVE7"); }
    a.ret();
    a.label("SUB2"); a.add_i(3, 3, 1); if rng.chance(1, 4) { a.not(3, 3); }
    // optional: the program itself writes the machine control register (needs supervisor rights or ignore_privilege)
    let mcr_store = MCR_STORE.with(|c| c.get());
    if mcr_store { a.st(5, "SAVE5"); a.ld(5, "MCRV"); a.sti(5, "MCRP"); a.ld(5, "SAVE5"); }
    a.ret();
    if mcr_store { a.label("SAVE5"); a.w(0); a.label("MCRV"); a.w(*rng.pick(&[0x7FFFu16, 0x0001, 0x4000, 0x8000, 0x0000, 0xFFFF])); a.label("MCRP"); a.w(0xFFFE); }
    a.label("COUNT"); a.w(1 + rng.below(4) as u16);
    a.label("CH"); a.w(0x41 + rng.below(26) as u16);
    a.label("SAVE0"); a.w(0); a.label("SAVE7"); a.w(0); a.label("DATA"); a.w(0);
    a.label("STR"); for c in b"ok" { a.w(*c as u16); } a.w(0);
    a
}

thread_local! { pub static MCR_STORE: std::cell::Cell<bool> = const { std::cell::Cell::new(false) }; }

fn base_setup(id: &str, real: bool, dbg: bool, prog: &Asm, kb: &[u8]) -> Vec<String> {
    let mut v = vec![format!("case {id}"), format!("sim new 0 {} {} 0 0000", real as u8, dbg as u8), "sim mmap fff0 ssp".into(), "sim kbset".into(), "sim dsset".into()];
    if !kb.is_empty() { v.push(format!("sim kbpush {}", kb.iter().map(|b| format!("{:02x}", b)).collect::<String>())); }
    v.push(prog.rawmem());
    v.push("sim rawreg 6 fe00 ffff".into()); // user stack pointer
    v
}

fn run_lines(out: &mut Out, ex: &mut Exec, lines: &[String]) -> Vec<String> {
    lines.iter().map(|l| { let r = ex.line(l); out.op(l, &r); r }).collect()
}

/// C13: run / run_with_limit / step_over / step_out / breakpoints / MCR clears; split-vs-unbroken oracle.
pub fn c13(out: &mut Out, ex: &mut Exec, seed: u64, thorough: bool) {
    let mut rng = Rng::new(seed);
    let n = if thorough { 20_000 } else { 700 };
    let mut seen = HashSet::new();
    for id in 0..n {
        let mut prng = rng.fork();
        // every sixth case: the program stores to the MCR (xFFFE) itself, with ignore_privilege: a store whose bit 15 is
        // clear must pause run / run_with_limit / step_over / step_out right after it
        let mcr_store = id % 6 == 5;
        MCR_STORE.with(|c| c.set(mcr_store));
        let prog = structured(&mut prng, true);
        MCR_STORE.with(|c| c.set(false));
        let real = rng.chance(1, 3); let dbg = rng.chance(1, 3);
        let kb: Vec<u8> = (0..6 + rng.below(3)).map(|_| 0x61 + rng.below(26) as u8).collect();
        let nwords = prog.words().len() as u16;
        // every fourth case: a scripted device raises interrupts (vector x81, priority 4, handler = bare RTI at x1000) at some of
        // the first 300 polls: a dispatch takes a step of the run loop but executes no instruction, and every run-style call
        // must still execute exactly the instructions single steps would
        let intr_line: Option<String> = if id % 4 == 3 {
            let mut irng = Rng::new(seed ^ 0x13_0000 ^ id as u64);
            Some(format!("sim intr {}", (0..300).map(|_| if irng.chance(1, 9) { "v81p4" } else { "-" }).collect::<Vec<_>>().join(",")))
        } else { None };
        if intr_line.is_some() { out.hist.hit("interrupts_during_runs"); }
        let base_setup = |id: &str, real: bool, dbg: bool, prog: &Asm, kb: &[u8]| -> Vec<String> { let mut v = base_setup(id, real, dbg, prog, kb); if mcr_store { v[1] = format!("sim new 0 {} {} 1 0000", real as u8, dbg as u8); }
            if let Some(l) = &intr_line { v.push("sim rawmem 1000 8000/ffff".into()); v.push("sim rawmem 0181 1000/ffff".into()); v.push(l.clone()); } v };
        if mcr_store { out.hist.hit("program_stores_to_mcr"); }
        // A: unbroken
        let mut la = base_setup(&format!("{id}a"), real, dbg, &prog, &kb);
        la.push("sim run 20000".into()); la.push("sim memhash".into());
        let ra = run_lines(out, ex, &la);
        // B: chopped into random run-style calls
        let mut lb = base_setup(&format!("{id}b"), real, dbg, &prog, &kb);
        // the instruction counter is a wrapping u64: start some cases close to the wrap-around
        let near_wrap = rng.chance(1, 5);
        if near_wrap { lb.push(format!("sim setrun {}", u64::MAX - rng.below(40))); out.hist.hit("counter_near_wrap"); }
        let mut only_limits = true;
        let limits_only_case = rng.chance(2, 5);
        for _ in 0..(3 + rng.below(12)) {
            let l = match if limits_only_case { rng.below(7) } else { rng.below(14) } {
                0..=4 => format!("sim run {}", 1 + rng.below(25)),
                5 => if rng.chance(1, 3) { out.hist.hit("huge_limit"); format!("sim run {}", u64::MAX - rng.below(3)) } else { format!("sim run {}", 1 + rng.below(25)) },
                6 => "sim step".to_string(),
                7 => { only_limits = false; "sim stepover".to_string() }
                8 => { only_limits = false; "sim stepout".to_string() }
                9 => { only_limits = false; format!("sim bp add pc {:04x}", 0x3000 + rng.below(nwords as u64) as u16) }
                10 => { only_limits = false; format!("sim bp add reg {} {} {:04x}", rng.below(4), rng.pick(&["eq", "ge", "lt", "ne", "gt", "le", "always", "never"]), rng.below(5)) }
                11 => { only_limits = false; format!("sim bp add mem {:04x} {} {:04x}", 0x3000 + rng.below(nwords as u64) as u16, rng.pick(&["eq", "ne", "gt"]), rng.below(3)) }
                12 => { only_limits = false; format!("sim run {} mcrat={}", 5 + rng.below(30), 1 + rng.below(8)) }
                _ => { only_limits = false; "sim runfull".to_string() }
            };
            lb.push(l);
        }
        // remove breakpoints by re-creating none: finish with big runs (breakpoints may stop them repeatedly)
        let rb0 = run_lines(out, ex, &lb);
        out.evaluations += lb.len() as i64;
        for r in &rb0 { out.hist.hit(&format!("res_{}", r.split(' ').next().unwrap_or(""))); if r.contains("hb=1") { out.hist.hit("stopped_at_breakpoint"); } if r.contains("TIMEOUT") { out.hist.hit("timeout"); } }
        // (with a scripted device the comparison is left to the model: its schedule is indexed by polls, and resuming a halted
        // machine polls again, so the split history does not see the same device behaviour as the unbroken one)
        if only_limits && !real && !near_wrap && !mcr_store && intr_line.is_none() {
            let fin = ["sim run 20000".to_string(), "sim memhash".to_string()];
            let rb = run_lines(out, ex, &fin);
            // oracle: split execution ends in the same state and instruction count as the unbroken run
            let (da, db) = (strip_chg(&ra[ra.len() - 2]), strip_chg(&rb[0]));
            if da != db || ra[ra.len() - 1] != rb[1] {
                out.fail(out.lines, format!("split execution differs from unbroken run: unbroken `{}` {} vs split `{}` {}", da, ra[ra.len() - 1], db, rb[1]), lb.iter().chain(fin.iter()).cloned().collect::<Vec<_>>().join("\n"));
            }
            out.hist.hit("split_vs_unbroken_checked");
        }
        if seen.insert(crate::simx::fnv(lb.iter().flat_map(|l| l.bytes().map(|b| b as u64)))) { out.nontrivial += 1; }
        if out.samples.len() < 2 { let mut s = Json::obj(); s.set("ops", Json::Arr(lb.iter().skip(7).map(|x| Json::s(x.clone())).collect())); s.set("unbroken_final", Json::s(ra[ra.len() - 2].clone())); out.sample(s); }
    }
    out.rule = "generated terminating user programs (counted loop, JSR/JSRR subroutine with nested call, GETC/OUT/PUTS traps, HALT), virtual and real traps, debug frames on/off; in every fourth case a scripted device interrupts (vector x81, bare-RTI handler) at random polls among the first 300; random sequences of run_with_limit k, step_in, step_over, step_out, run, breakpoint inserts (PC / register / memory comparators of all kinds) and MCR clears injected at chosen loop iterations; every call's resulting state, instruction count and hit_halt/hit_breakpoint compared with the model; oracle on the implementation: a run chopped into run_with_limit/step_in segments ends in the same state, memory and instruction count as one unbroken run".into();
}

/// C10: interrupts are transparent. Handler kinds: bare RTI; save/restore R0,R1 + bump a supervisor counter; keyboard reader.
pub fn c10(out: &mut Out, ex: &mut Exec, seed: u64, thorough: bool) {
    let mut rng = Rng::new(seed);
    let n = if thorough { 8_000 } else { 350 };
    let mut seen = HashSet::new();
    // handlers in supervisor memory
    let mut h = Asm::new(0x1000);
    h.label("H_RTI"); h.rti();
    h.label("H_CNT"); h.add_i(6, 6, -1); h.str(0, 6, 0); h.add_i(6, 6, -1); h.str(1, 6, 0);
    h.ld(0, "CNT"); h.add_i(0, 0, 1); h.st(0, "CNT"); h.and_i(1, 0, 7);
    h.ldr(1, 6, 0); h.add_i(6, 6, 1); h.ldr(0, 6, 0); h.add_i(6, 6, 1); h.rti();
    h.label("H_KB"); h.add_i(6, 6, -1); h.str(0, 6, 0); h.ldi(0, "KBDRP"); h.st(0, "LASTKEY"); h.ldr(0, 6, 0); h.add_i(6, 6, 1); h.rti();
    // a handler that itself executes a TRAP (user-defined vector x30 -> a routine that is just RTI): traps taken at a raised
    // priority must keep that priority
    h.label("H_TRP"); h.trap(0x30); h.rti();
    h.label("CNT"); h.w(0); h.label("LASTKEY"); h.w(0); h.label("KBDRP"); h.w(0xFE02);
    let (h_rti, h_cnt, h_kb, h_trp) = (h.labels["H_RTI"], h.labels["H_CNT"], h.labels["H_KB"], h.labels["H_TRP"]);
    for id in 0..n {
        let kbint = rng.chance(1, 4);
        let mut prng = rng.fork();
        let prog = structured(&mut prng, !kbint);
        let nsteps_guess = 40 + rng.below(80) as usize;
        let kb: Vec<u8> = if kbint { vec![] } else { (0..6).map(|_| 0x61 + rng.below(26) as u8).collect() };
        let mk = |with_int: bool, rng: &mut Rng, tag: &str| -> Vec<String> {
            let mut v = base_setup(&format!("{id}{tag}"), false, id % 2 == 0, &prog, &kb);
            // every fifth case runs with ignore_privilege: entry and RTI must still switch stacks by the PSR alone
            if id % 5 == 4 { v[1] = format!("sim new 0 0 {} 1 0000", (id % 2 == 0) as u8); }
            // every seventh case the user stack pointer is (partly) uninitialised: entry and RTI must hand the very same
            // word (value and initialisation mask) back to the interrupted program
            if id % 7 == 3 { let k = v.iter().position(|l| l.starts_with("sim rawreg 6")).unwrap(); v[k] = format!("sim rawreg 6 fe00 {}", if id % 2 == 0 { "0000" } else { "0ff0" }); }
            v.push(h.rawmem());
            v.push(format!("sim rawmem 0181 {:04x}/ffff {:04x}/ffff {:04x}/ffff", h_cnt, h_rti, h_trp));
            v.push(format!("sim rawmem 0030 {:04x}/ffff", h_rti));
            v.push(format!("sim rawmem 0180 {:04x}/ffff", h_kb));
            v.push(format!("sim rawmem 0105 {:04x}/ffff", h_cnt));
            v.push(format!("sim rawmem 0141 {:04x}/ffff", h_rti));
            v.push(format!("sim rawmem 017f {:04x}/ffff", h_cnt));
            if with_int {
                let ndev = 1 + rng.below(2);
                for _ in 0..ndev {
                    let mut toks = vec![];
                    // every third device raises vectors below x80 (table entries x0105, x0141, x017F): the table index is x0100 + vector
                    let low = rng.chance(1, 3);
                    for _ in 0..nsteps_guess { toks.push(if rng.chance(1, 9) { let vct = if low { *rng.pick(&[0x05u64, 0x41, 0x7f]) } else { 0x81 + rng.below(3) }; format!("v{:x}p{}", vct, 1 + rng.below(7)) } else { "-".into() }); }
                    v.push(format!("sim intr {}", toks.join(",")));
                }
                if rng.chance(1, 4) { let lo = 40 + rng.below(60); let hi = lo + rng.below(30); let seed = rng.below(1000);
                    v.push(crate::c34::timer_line(lo as u32, hi as u32, true, 0x81, 1 + rng.below(6) as u8, true, seed, 1500)); }
            }
            v
        };
        let mut r2 = rng.fork();
        let mut la = mk(false, &mut r2, "u"); la.push("sim run 30000".into()); la.push("sim memhash u".into());
        let mut r3 = rng.fork();
        let mut lb = mk(true, &mut r3, "i");
        if kbint { lb.push("sim hostwrite fe00 4000 ffff 1 0 1 0".into()); lb.push("sim kbpush 7a79".into()); }
        // step through the first part (every boundary compared), then run to the end
        for _ in 0..(10 + rng.below(40)) { lb.push("sim step".into()); }
        lb.push("sim run 30000".into()); lb.push("sim memhash u".into());
        let ra = run_lines(out, ex, &la);
        let rb = run_lines(out, ex, &lb);
        out.evaluations += lb.len() as i64;
        let taken = rb.iter().filter(|r| r.contains(":i:")).count();
        out.hist.add("steps_inside_interrupt_frames", taken as i64);
        // oracle: same registers, CC, R6, display and user memory as the uninterrupted run
        let pick = |d: &str| -> String { ["pc", "psr", "r", "ds"].iter().map(|k| format!("{}={}", k, field(d, k).unwrap_or("?"))).collect::<Vec<_>>().join(" ") };
        let (fa, fb) = (pick(&ra[ra.len() - 2]), pick(&rb[rb.len() - 2]));
        if kbint { out.hist.hit("keyboard_interrupt_case"); }
        if fa != fb || ra[ra.len() - 1] != rb[rb.len() - 1] {
            out.fail(out.lines, format!("interrupted run differs from uninterrupted run: `{fa}` {} vs `{fb}` {}", ra[ra.len() - 1], rb[rb.len() - 1]), lb.join("\n"));
        } else { out.hist.hit("transparent"); }
        if seen.insert(crate::simx::fnv(lb.iter().flat_map(|l| l.bytes().map(|b| b as u64)))) && lb.iter().any(|l| l.contains("sim intr") || l.contains("sim timer")) { out.nontrivial += 1; }
        if out.samples.len() < 2 { let mut s = Json::obj(); s.set("setup", Json::Arr(lb.iter().take(14).map(|x| Json::s(x.chars().take(160).collect::<String>())).collect())); s.set("final", Json::s(rb[rb.len() - 2].clone())); out.sample(s); }
    }
    out.rule = "generated user programs (loops, calls, traps with I/O; every fifth case with ignore_privilege) run with 1-2 scripted interrupt devices raising vectors x81-x83 (every third device: x05, x41, x7F) at random instruction boundaries with random priorities 1-7 (nesting, competition), optional seeded timer, optional keyboard interrupts (KBSR[14]) with a handler that reads KBDR; handlers: bare RTI, save/restore R0-R1 + supervisor counter, keyboard reader. Every single step of the first 10-50 boundaries and the final state compared with the model; oracle on the implementation: final PC, PSR (CC), R0-R7, display output and user memory equal those of the uninterrupted run. non-trivial = case has an interrupt source".into();
}

/// C11 / C12: OS trap contracts, real vs virtual.
fn trap_prog(rng: &mut Rng, which: u16, text: &[u16]) -> Asm {
    let mut a = Asm::new(0x3000);
    if which == 0x22 || which == 0x24 { a.lea(0, "STR"); } else if which == 0x21 { a.ld(0, "CH"); }
    // set a condition code
    match rng.below(3) { 0 => a.add_i(5, 5, 0), 1 => a.and_i(5, 5, 0), _ => a.not(5, 5) }
    a.trap(which);
    a.st(0, "RES"); // observe R0 after the trap without changing CC
    a.trap(0x25);
    a.label("CH"); a.w(text.first().copied().unwrap_or(0x41));
    a.label("RES"); a.w(0);
    a.label("STR"); for w in text { a.w(*w); }
    // PUTSP stops at the first zero *byte*: after a word with a zero high byte anything may follow in memory
    if which == 0x24 && text.last().map(|w| w >> 8 == 0).unwrap_or(false) && rng.bool() { a.w(0x5958); a.w(0x4100 | (1 + rng.below(200) as u16)); }
    a.w(0);
    a
}

pub fn c11(out: &mut Out, ex: &mut Exec, seed: u64, thorough: bool, paired: bool) {
    let mut rng = Rng::new(seed);
    let n = if thorough { 15_000 } else { 600 };
    let mut seen = HashSet::new();
    for id in 0..n {
        let which = *rng.pick(&[0x20u16, 0x21, 0x22, 0x23, 0x24, 0x25, 0x22, 0x24]);
        let len = rng.below(7) as usize;
        let text: Vec<u16> = (0..len).map(|_| match which {
            0x24 => { let lo = 1 + rng.below(255) as u16; let hi = if rng.chance(1, 4) { 0 } else { 1 + rng.below(255) as u16 }; hi << 8 | lo }
            0x22 => { let lo = 1 + rng.below(255) as u16; if rng.chance(1, 4) { (rng.u16() & 0xFF00) | lo } else { lo } }
            _ => 1 + rng.below(255) as u16 }).collect();
        let kb: Vec<u8> = (0..1 + rng.below(3)).map(|_| rng.below(256) as u8).collect();
        let mut prng = rng.fork();
        let prog = trap_prog(&mut prng, which, &text);
        let regs: Vec<u16> = (0..8).map(|r| if r == 6 { 0xF000 } else { rng.u16() }).collect();
        let mut finals = vec![];
        for real in if paired { vec![false, true] } else { vec![rng.chance(1, 3)] } {
            // every third GETC case: the key arrives late while keyboard interrupts are enabled (KBSR reads x4000, not x0000,
            // while waiting) and the program runs at priority 7, so the request is never taken: GETC must keep polling
            let late = which == 0x20 && id % 3 == 1;
            let mut v = base_setup(&format!("{id}{}", if real { "r" } else { "v" }), real, false, &prog, if late { &[] } else { &kb });
            // every fifth case runs with ignore_privilege: the routines' entry and RTI must still switch stacks by the PSR alone
            // every fourth case runs in strict mode with R1-R5 and R7 (partly) uninitialised: the routines save and restore them
            // through the stack (stack-relative loads and stores are exempt from the strict checks) and must still return
            let strict = id % 4 == 2;
            if id % 5 == 4 || strict { v[1] = format!("sim new {} {} 0 {} 0000", strict as u8, real as u8, (id % 5 == 4) as u8); }
            if strict { out.hist.hit("strict_mode_uninitialised_registers"); }
            for (r, d) in regs.iter().enumerate() {
                // (every other strict case: the user stack pointer itself is uninitialised — entry checks the supervisor stack pointer, after the switch)
                let mask = if strict && r == 6 { if id % 8 == 2 { 0x0000 } else { 0xffff } }
                    else if strict && r != 0 { *[0x0000u16, 0xffff, 0x0ff0].get((id as usize + r) % 3).unwrap() } else { 0xffff };
                v.push(format!("sim rawreg {} {:04x} {:04x}", r, d, mask)); }
            if late { v.push("sim hostwrite fffc 8702 ffff 1 0 0 0".into()); v.push("sim hostwrite fe00 4000 ffff 1 0 0 0".into()); }
            // step to the trap, remember the state, run the trap to its return, then to the end
            let pre_steps = if which == 0x20 || which == 0x23 || which == 0x25 { 1 } else { 2 };
            for _ in 0..pre_steps { v.push("sim step".into()); }
            v.push("sim state".into());
            let state_at = v.len() - 1;
            if late {
                for _ in 0..9 { v.push("sim step".into()); }
                v.push(format!("sim kbpush {}", kb.iter().map(|b| format!("{:02x}", b)).collect::<String>()));
                v.push("sim stepout".into()); out.hist.hit("getc_late_input_with_kb_interrupt_enabled");
            } else { v.push("sim stepover".into()); }
            v.push("sim run 5000".into());
            v.push("sim memhash u".into());
            let r = run_lines(out, ex, &v);
            out.evaluations += 4;
            let before = &r[state_at]; let after = &r[r.len() - 3]; let fin = &r[r.len() - 2];
            out.hist.hit(&format!("trap_{:02x}_{}", which, if real { "real" } else { "virtual" }));
            // contract oracle
            if which != 0x25 {
                let regs_b: Vec<&str> = field(before, "r").unwrap_or("").split(',').collect();
                let regs_a: Vec<&str> = field(after, "r").unwrap_or("").split(',').collect();
                let mut bad = vec![];
                for i in 0..8 { if i == 0 && (which == 0x20 || which == 0x23) { continue; } if regs_b.get(i) != regs_a.get(i) { bad.push(format!("R{i}")); } }
                if field(before, "psr") != field(after, "psr") { bad.push("PSR".into()); }
                let pcb = u16::from_str_radix(field(before, "pc").unwrap_or("0"), 16).unwrap_or(0);
                if field(after, "pc") != Some(&format!("{:04x}", pcb.wrapping_add(1))) { bad.push("PC".into()); }
                // expected output / input consumption
                let dsb = field(before, "ds").unwrap_or("h").trim_start_matches('h').to_string();
                let dsa = field(after, "ds").unwrap_or("h").trim_start_matches('h').to_string();
                let emitted = dsa.strip_prefix(&dsb).unwrap_or("?").to_string();
                let hexs = |bs: &[u8]| bs.iter().map(|b| format!("{:02x}", b)).collect::<String>();
                let expect: String = match which {
                    0x21 => hexs(&[(text.first().copied().unwrap_or(0x41) & 0xFF) as u8]),
                    0x22 => hexs(&text.iter().map(|w| (*w & 0xFF) as u8).collect::<Vec<_>>()),
                    0x24 => { let mut o = vec![]; for w in &text { o.push((*w & 0xFF) as u8); if w >> 8 == 0 { break; } o.push((*w >> 8) as u8); } hexs(&o) }
                    0x23 => format!("{}{}", hexs(b"Input character: "), hexs(&kb[..1])),
                    _ => String::new(),
                };
                if !dsa.starts_with('#') && emitted != expect { bad.push(format!("display emitted {emitted} expected {expect}")); }
                let kba = field(after, "kb").unwrap_or("").to_string();
                let kexp = if which == 0x20 || which == 0x23 { format!("h{}", hexs(&kb[1..])) } else { format!("h{}", hexs(&kb)) };
                if kba != kexp { bad.push(format!("keyboard {kba} expected {kexp}")); }
                if which == 0x20 || which == 0x23 { if regs_a.first().map(|x| &x[..4]) != Some(&format!("{:04x}", kb[0] as u16)) { bad.push("R0 != input byte".into()); } }
                if !bad.is_empty() { out.fail(out.lines, format!("trap x{:02x} contract violated: {} :: before `{}` after `{}`", which, bad.join(", "), before, after), v.join("\n")); }
            }
            let halted = fin.contains("hh=1");
            if !halted { out.fail(out.lines, format!("program did not halt: {fin}"), v.join("\n")); }
            finals.push((fin.clone(), r[r.len() - 1].clone()));
            if seen.insert(crate::simx::fnv(v.iter().flat_map(|l| l.bytes().map(|b| b as u64)))) { out.nontrivial += 1; }
            if out.samples.len() < 3 { let mut s = Json::obj(); s.set("trap", Json::s(format!("x{:02x}", which))); s.set("before", Json::s(before.clone())); s.set("after", Json::s(after.clone())); out.sample(s); }
        }
        if paired {
            // C12 oracle: same display, R0-R5 and user memory under real traps
            let pick = |d: &str| -> String { let r: Vec<&str> = field(d, "r").unwrap_or("").split(',').take(6).collect(); format!("r={} ds={}", r.join(","), field(d, "ds").unwrap_or("?")) };
            if pick(&finals[0].0) != pick(&finals[1].0) || finals[0].1 != finals[1].1 {
                out.fail(out.lines, format!("real-trap run differs from virtual run: `{}` {} vs `{}` {}", pick(&finals[0].0), finals[0].1, pick(&finals[1].0), finals[1].1), format!("case {id}"));
            } else { out.hist.hit("real_equals_virtual"); }
        }
    }
    out.rule = "each built-in trap (GETC, OUT, PUTS, IN, PUTSP, HALT) invoked from user code with random strings (empty, packed with odd length / zero high byte, words with non-zero high bytes for PUTS, bytes x01-xFF), random registers and condition codes, random keyboard queues; stepped to the trap, the trap run with step_over, then to HALT; every result compared with the model; oracle on the implementation: the contract itself (display bytes emitted, keyboard bytes consumed, R0, all other registers, PSR/CC, return address) and halting".into();
}

/// C12: faulting programs under both settings.
pub fn c12(out: &mut Out, ex: &mut Exec, seed: u64, thorough: bool) {
    c11(out, ex, seed, thorough, true);
    let mut rng = Rng::new(seed ^ 0x12);
    let n = if thorough { 6_000 } else { 300 };
    let msgs = [("priv", "\n--- Privilege violation ---"), ("illegal", "\n--- Illegal opcode ---"), ("format", "\n--- Illegal opcode ---"), ("acv", "\n--- Access violation ---")];
    for id in 0..n {
        let mut a = Asm::new(0x3000);
        a.ld(0, "CH"); a.trap(0x21); a.add_i(1, 1, 1);
        let kind = rng.below(6);
        // every seventh case faults in SUPERVISOR mode: the program's own service routine (vector x30 -> x1000, supplied with the
        // program) executes a reserved or malformed instruction; the exception is vectored all the same
        let sup_fault: Option<u16> = if id % 7 == 6 { Some(if id % 2 == 0 { 0xD000 | (id as u16 & 0xFFF) } else { 0x8001 }) } else { None };
        let kind = if sup_fault.is_some() { 6 } else { kind };
        match kind { 6 => a.trap(0x30), 0 => a.rti(), 1 => a.w(0xD000 | rng.u16() & 0xFFF), 2 => a.w(0x8001), 3 => { a.ld(2, "BADP"); a.ldr(3, 2, 0); } 4 => { a.ld(2, "BADP"); a.str(3, 2, 0); } _ => { a.ld(2, "BADP"); a.jmp(2); } }
        a.trap(0x25);
        a.label("CH"); a.w(0x21 + rng.below(90) as u16);
        a.label("BADP"); a.w(*rng.pick(&[0x0000u16, 0x2FFF, 0xFE00, 0xFFFF, 0x0200]));
        let mut res = vec![];
        for real in [false, true] {
            let mut v = base_setup(&format!("f{id}{}", if real { "r" } else { "v" }), real, false, &a, &[]);
            if let Some(w) = sup_fault { v.push("sim rawmem 0030 1000/ffff".into()); v.push(format!("sim rawmem 1000 {:04x}/ffff 8000/ffff", w)); out.hist.hit("fault_in_supervisor_mode"); }
            v.push("sim run 5000".into()); v.push("sim memhash u".into());
            let r = run_lines(out, ex, &v);
            out.evaluations += 1;
            res.push((r[r.len() - 2].clone(), r[r.len() - 1].clone(), v));
        }
        let vres = res[0].0.split(' ').next().unwrap_or("").to_string();
        out.hist.hit(&format!("virtual_{vres}"));
        if let Some((_, msg)) = msgs.iter().find(|(k, _)| vres == format!("err:{k}")) {
            let dsv = field(&res[0].0, "ds").unwrap_or("h").trim_start_matches('h').to_string();
            let dsr = field(&res[1].0, "ds").unwrap_or("h").to_string();
            let expect = format!("h{}{}", dsv, msg.bytes().map(|b| format!("{:02x}", b)).collect::<String>());
            let ok = res[1].0.starts_with("ok") && res[1].0.contains("hh=1") && (dsr == expect || dsr.starts_with('#'));
            if !ok { out.fail(out.lines, format!("virtual {vres} but real traps gave `{}` (expected OS message and halt)", res[1].0), res[1].2.join("\n")); } else { out.hist.hit("exception_message_ok"); }
        }
    }
    out.rule = "C11's trap programs run under both virtual and real traps (same display, R0-R5, user memory, then stop through the OS), plus user programs that fault (RTI in user mode, reserved opcode, malformed instruction, load/store/jump outside user space; every seventh one inside a service routine of its own, i.e. in supervisor mode): virtual traps report the error, real traps print the OS message for that exception and halt; all compared with the model".into();
}

/// C29: loading object images.
pub fn c29(out: &mut Out, ex: &mut Exec, seed: u64, thorough: bool) {
    let mut rng = Rng::new(seed);
    let n = if thorough { 10_000 } else { 500 };
    let mut seen = HashSet::new();
    for id in 0..n {
        let fill = *rng.pick(&[0u16, 0xABCD, 0xFFFF]);
        let mut v = vec![format!("case {id}"), format!("sim new {} 0 0 0 {:04x}", rng.below(2), fill), "sim memhash".into()];
        for _ in 0..1 + rng.below(3) {
            // disjoint blocks in increasing order
            let mut blocks = vec![]; let mut pos: u32 = *rng.pick(&[0u32, 0x0200, 0x2FF0, 0x3000, 0x4000, 0xFD00]);
            for _ in 0..1 + rng.below(4) {
                let len = 1 + rng.below(40) as u32;
                let len = if rng.chance(1, 8) && pos < 0xFE00 { (0xFE00 - pos).min(300) } else { len };
                if pos + len > 0xFE00 { break; }
                let cells: Vec<String> = (0..len).map(|_| if rng.chance(1, 4) { "_".to_string() } else { hex16(rng.u16()) }).collect();
                blocks.push(format!("{:04x}:{}", pos, cells.join(",")));
                pos += len + rng.below(50) as u32 * rng.below(2) as u32;
            }
            if blocks.is_empty() { continue; }
            if rng.chance(1, 3) {
                // images no assembler produces (read from an object file): blocks in the I/O page, reaching xFFFF, wrapping
                let start: u32 = *rng.pick(&[0xFDF8u32, 0xFE00, 0xFFF0, 0xFFFB, 0xFFFE, 0xFFFF]);
                let len = 1 + rng.below(24) as u32;
                let cells: Vec<String> = (0..len).map(|_| if rng.chance(1, 5) { "_".to_string() } else { hex16(rng.u16()) }).collect();
                let mut all = blocks.clone();
                all.push(format!("{:04x}:{}", start, cells.join(",")));
                out.hist.hit(if start + len > 0x10000 { "raw_block_wraps" } else if start + len == 0x10000 { "raw_block_reaches_xffff" } else { "raw_block_high" });
                v.push(format!("sim loadraw {}", all.join(";")));
            } else {
                v.push(format!("sim load {}", blocks.join(";")));
            }
            v.push("sim memhash".into()); v.push("sim state".into());
            if rng.chance(1, 3) { v.push(format!("sim run {}", 1 + rng.below(30))); v.push("sim memhash".into()); }
        }
        let r = run_lines(out, ex, &v);
        out.evaluations += v.len() as i64;
        for x in &r { if x.starts_with("asmfail") || x.starts_with("panic") || x.starts_with("bad-obj") { out.fail(out.lines, format!("load failed: {x}"), v.join("\n")); } }
        if seen.insert(crate::simx::fnv(v.iter().flat_map(|l| l.bytes().map(|b| b as u64)))) { out.nontrivial += 1; }
        if out.samples.len() < 2 { let mut s = Json::obj(); s.set("ops", Json::Arr(v.iter().map(|x| Json::s(x.chars().take(120).collect::<String>())).collect())); out.sample(s); }
    }
    out.rule = "generated object images (1-4 disjoint blocks incl. blocks at x0000 over the OS, ending exactly at xFE00, with .blkw gaps) assembled by the real assembler from .orig/.fill/.blkw text — and, in a third of the loads, images no assembler produces, built through the text object format: blocks in the I/O page, reaching xFFFF or wrapping past it — loaded into simulators with Known(0/xABCD/xFFFF) fill, repeatedly and after execution; full-memory hash (data+init mask of all 65536 words), registers and PC compared with the model after every load".into();
}

/// C30: reset after random histories.
pub fn c30(out: &mut Out, ex: &mut Exec, seed: u64, thorough: bool) {
    let mut rng = Rng::new(seed);
    let n = if thorough { 10_000 } else { 400 };
    let mut seen = HashSet::new();
    for id in 0..n {
        let fill = *rng.pick(&[0u16, 0x1234, 0xFFFF]);
        let (mut st, mut real, dbg, mut ign) = (rng.chance(1, 4), rng.bool(), rng.bool(), rng.chance(1, 4));
        let mut dbgflag = dbg;
        let mut prng = rng.fork();
        let prog = structured(&mut prng, true);
        let mut v = vec![format!("case {id}"), format!("sim new {} {} {} {} {:04x}", st as u8, real as u8, dbg as u8, ign as u8, fill), "sim mmap fff0 ssp".into(), "sim kbset".into(), "sim dsset".into(), prog.rawmem()];
        for _ in 0..3 + rng.below(10) {
            v.push(match rng.below(12) {
                0 => format!("sim run {}", 1 + rng.below(60)), 1 => "sim step".into(), 2 => "sim stepover".into(),
                3 => { st = rng.chance(1, 4); real = rng.bool(); ign = rng.chance(1, 4); format!("sim flags {} {} {}", st as u8, real as u8, ign as u8) }
                4 => { dbgflag = rng.bool(); format!("sim dbgframes {}", dbgflag as u8) }
                5 => format!("sim bp add pc {:04x}", 0x3000 + rng.below(20)), 6 => format!("sim bp rm pc {:04x}", 0x3000 + rng.below(20)),
                7 => format!("sim rec 1 1 {:04x} {:04x}", rng.u16(), 0xFE10 + rng.below(8) as u16),
                8 => format!("sim mmap {:04x} {}", 0xFE20 + rng.below(8) as u16, rng.pick(&["pc", "psr", "mcr", "ssp"])),
                9 => format!("sim hostwrite {:04x} {:04x} ffff 1 0 1 0", *rng.pick(&[0xFFFCu16, 0xFE20, 0xFE21, 0xFE10, 0xFE06, 0x3000, 0x0000]), rng.u16()),
                10 => if rng.bool() { format!("sim kbpush {:02x}", rng.below(256)) } else { format!("sim munmap {:04x}", *rng.pick(&[0xFFFCu16, 0xFFFE, 0xFE20, 0xFE21, 0xFFF0])) },
                _ => format!("sim rmdev {}", 3 + rng.below(3)),
            });
        }
        // every fifth case: the clock-enable bit is ON when reset is called (the host has just stored to the MCR): the handle is
        // kept, but memory — including the raw word at xFFFE — is that of a new machine
        if id % 5 == 4 { v.push(format!("sim hostwrite fffe {:04x} ffff 1 0 1 0", 0x8000 | (id as u16 & 0x7FFF))); out.hist.hit("reset_with_mcr_on"); }
        v.push("sim reset".into()); v.push("sim memhash".into()); v.push("sim iregs".into());
        // configuration survives: breakpoints still stop a run, devices still dispatch
        v.push("sim hostread fe10 1 0 1 0".into()); v.push("sim hostwrite fffc 0302 ffff 1 0 1 0".into()); v.push("sim hostread fffe 1 0 1 0".into()); v.push("sim run 5".into());
        let r = run_lines(out, ex, &v);
        out.evaluations += v.len() as i64;
        // oracle: equals a new simulator with the same (current) flags
        let fresh = vec![format!("case {id}n"), format!("sim new {} {} {} {} {:04x}", st as u8, real as u8, dbgflag as u8, ign as u8, fill), "sim mmap fff0 ssp".into(), "sim state".into(), "sim memhash".into()];
        let rf = run_lines(out, ex, &fresh);
        let pick = |d: &str| -> String { ["pc", "psr", "r", "ssp", "fn", "fr", "ir", "hh", "hb", "pf"].iter().map(|k| format!("{}={}", k, field(d, k).unwrap_or("?"))).collect::<Vec<_>>().join(" ") };
        let dreset = &r[r.len() - 7]; let hreset = &r[r.len() - 6];
        let has_ssp = !dreset.contains("ssp=-");
        // memory mirrors of mapped I/O cells may legitimately differ (host reads); compare hash only when no extra mapping/recorder touched the I/O page
        if pick(dreset) != pick(&rf[3]) && has_ssp { out.fail(out.lines, format!("reset state differs from a new simulator: `{}` vs `{}`", pick(dreset), pick(&rf[3])), v.join("\n")); }
        else { out.hist.hit("reset_equals_new_state"); }
        if hreset == &rf[4] { out.hist.hit("reset_equals_new_memory"); } else { out.hist.hit("memory_hash_differs_(io_mirror)"); }
        if seen.insert(crate::simx::fnv(v.iter().flat_map(|l| l.bytes().map(|b| b as u64)))) { out.nontrivial += 1; }
        if out.samples.len() < 2 { let mut s = Json::obj(); s.set("ops", Json::Arr(v.iter().skip(5).map(|x| Json::s(x.chars().take(100).collect::<String>())).collect())); s.set("after_reset", Json::s(dreset.clone())); out.sample(s); }
    }
    out.rule = "random histories (runs, steps, step_over, flag changes incl. debug_frames, breakpoint inserts/removals, recording devices added/removed, internal registers mapped at I/O addresses, MMIO writes to PSR/PC/MCR/devices, keyboard input; in every fifth case a host store that turns the MCR on directly before) followed by reset; state digest, full-memory hash, internal-register map, device dispatch and breakpoint behaviour after reset compared with the model; oracle on the implementation: registers, PC, PSR, saved SP, frame depth/list, instruction count, halt/breakpoint status equal those of Simulator::new with the current flags".into();
}

/// C33: keyboard/display exactly-once under lock contention (per-step lock holding).
pub fn c33(out: &mut Out, ex: &mut Exec, seed: u64, thorough: bool) {
    let mut rng = Rng::new(seed);
    // device-access instructions of the OS: found by scanning the OS image for LDI/STI through the device pointers
    let os: Vec<(u16, Option<u16>)> = lc3_ensemble::sim::_os_obj_file().addr_iter().collect();
    let cell = |a: u16| os.iter().find(|(x, _)| *x == a).and_then(|(_, w)| *w);
    let mut acc: Vec<(u16, u16)> = vec![]; // (instruction address, device register)
    for (a, w) in &os { if let Some(w) = w { let op = w >> 12; if op == 0xA || op == 0xB { let off = ((*w & 0x1FF) as i16) << 7 >> 7; let p = a.wrapping_add(1).wrapping_add(off as u16); if let Some(t) = cell(p) { if (0xFE00..=0xFE06).contains(&t) { acc.push((*a, t)); } } } } }
    let n = if thorough { 30_000 } else { 1_200 };
    let mut seen = HashSet::new();
    for id in 0..n {
        let len = 1 + rng.below(if id % 10 == 0 { 30 } else { 3 }) as usize;
        let input: Vec<u8> = (0..len).map(|_| 0x41 + rng.below(26) as u8).collect();
        // echo program: GETC; OUT; loop `len` times; then PUTS "!"; HALT
        let mut a = Asm::new(0x3000);
        a.ld(1, "N"); a.label("L"); a.trap(0x20); a.trap(0x21); a.add_i(1, 1, -1); a.br(1, "L");
        // every third case also prints a packed string (PUTSP): two bytes per word, the second one possibly absent
        let packed: &[u8] = match id % 6 { 1 => b"ab", 4 => b"xyz", _ => b"" };
        a.lea(0, "S"); a.trap(0x22);
        if !packed.is_empty() { a.lea(0, "P"); a.trap(0x24); }
        a.trap(0x25);
        a.label("N"); a.w(len as u16); a.label("S"); a.w(0x21); a.w(0);
        a.label("P"); for ch in packed.chunks(2) { a.w(ch[0] as u16 | (*ch.get(1).unwrap_or(&0) as u16) << 8); } a.w(0);
        // with keyboard interrupts enabled the input arrives late: the program must wait in GETC's poll loop
        let late_input = id % 4 == 2;
        let mut v = base_setup(&format!("{id}"), false, false, &a, if late_input { &[] } else { &input });
        // every fourth case: another thread has panicked while holding the keyboard / display buffer guard (a poisoned but
        // free lock): delivery must be unaffected
        match id % 8 { 1 => v.push("sim poison kb".into()), 3 => v.push("sim poison ds".into()), 5 => { v.push("sim poison kb".into()); v.push("sim poison ds".into()); } _ => {} }
        // every fourth case: keyboard interrupts enabled (a not-ready KBSR then reads x4000, not x0000) while the program runs at
        // priority 7, so the request is never taken and GETC must still wait for the ready bit
        if id % 4 == 2 { v.push("sim hostwrite fffc 8702 ffff 1 0 0 0".into()); v.push("sim hostwrite fe00 4000 ffff 1 0 0 0".into()); }
        // every eighth case: KBSR is written with the interrupt-enable bit (14) CLEAR and other bits set (a program clearing IE
        // with `KBSR & xBFFF` writes back the ready bit 15): keyboard interrupts stay off and GETC keeps polling
        if id % 8 == 4 { v.push(format!("sim hostwrite fe00 {} ffff 1 0 0 0", ["8000", "bfff", "8001", "a000"][(id / 8 % 4) as usize])); }
        let exhaustive_bits: Option<u32> = if len <= 2 && id < 4000 { Some(rng.next() as u32 & 0xFFFF) } else { None };
        let p_lock = rng.below(40) as u64;
        // the late-input cases run without lock contention: any failure there is a violation, never the known finding
        let (exhaustive_bits, p_lock) = if late_input { (None, 0) } else { (exhaustive_bits, p_lock) };
        for l in &v { let r = ex.line(l); out.op(l, &r); }
        let mut last = ex.line("sim state"); out.op("sim state", &last); v.push("sim state".into());
        let mut acc_i = 0u32; let mut denied_critical = vec![]; let (mut kl, mut dl) = (false, false);
        // F19 is the race in which the lock is taken BETWEEN a poll that reported ready and the data access it licenses;
        // a data access refused without such a poll directly before it (as the device's previous access) is not that finding
        let (mut k_polled, mut d_polled) = (false, false); let mut denied_unpolled = vec![];
        for _step in 0..4000 {
            if late_input && _step == 40 { let l = format!("sim kbpush {}", input.iter().map(|b| format!("{:02x}", b)).collect::<String>()); let r = ex.line(&l); out.op(&l, &r); v.push(l); }
            let pc = u16::from_str_radix(field(&last, "pc").unwrap_or("0"), 16).unwrap_or(0);
            let dev = acc.iter().find(|(a, _)| *a == pc).map(|(_, t)| *t);
            let (want_k, want_d) = match (dev, exhaustive_bits) {
                (Some(t), Some(bits)) => { let deny = acc_i < 16 && (bits >> acc_i) & 1 == 1; acc_i += 1; (deny && t <= 0xFE02, deny && t >= 0xFE04) }
                (_, None) => (rng.below(100) < p_lock, rng.below(100) < p_lock),
                _ => (false, false),
            };
            // every third case holds shared (read) guards instead of exclusive ones: any guard makes try_write fail
            let kind: u8 = if id % 3 == 2 { 2 } else { 1 };
            if want_k != kl { let l = format!("sim lock kb {}", if want_k { kind } else { 0 }); let r = ex.line(&l); out.op(&l, &r); v.push(l); kl = want_k; }
            if want_d != dl { let l = format!("sim lock ds {}", if want_d { kind } else { 0 }); let r = ex.line(&l); out.op(&l, &r); v.push(l); dl = want_d; }
            if let Some(t) = dev {
                if (t == 0xFE02 && kl && !k_polled) || (t == 0xFE06 && dl && !d_polled) { denied_unpolled.push((pc, t)); }
                match t { 0xFE00 => k_polled = !kl, 0xFE02 => k_polled = false, 0xFE04 => d_polled = !dl, 0xFE06 => d_polled = false, _ => {} }
            }
            if let Some(t) = dev { if (t == 0xFE02 && kl) || (t == 0xFE06 && dl) { denied_critical.push(t); } out.hist.hit(&format!("device_access_{:04x}_{}", t, if (t <= 0xFE02 && kl) || (t >= 0xFE04 && dl) { "denied" } else { "free" })); }
            // every fifth case a debugger watches the keyboard registers between steps with side-effect-free reads (omnipotent
            // context): they must not consume or disturb anything
            if id % 5 == 3 && !kl && rng.chance(1, 5) { for l in ["sim hostread fe02 1 0 0 0", "sim hostread fe00 1 0 0 0"] { let r = ex.line(l); out.op(l, &r); v.push(l.to_string()); } out.hist.hit("debugger_peek_at_keyboard"); }
            last = ex.line("sim step"); out.op("sim step", &last); v.push("sim step".into());
            out.evaluations += 1;
            if last.contains("hh=1") || !last.starts_with("ok") { break; }
            // virtual HALT reached?
            if field(&last, "pc") == Some(&format!("{:04x}", a.labels["N"].wrapping_sub(1))) && field(&last, "pf") == field(&last, "pc") { break; }
        }
        for l in ["sim lock kb 0", "sim lock ds 0", "sim state"] { let r = ex.line(l); out.op(l, &r); last = r; }
        let ds = field(&last, "ds").unwrap_or("").to_string();
        let expect = format!("h{}21{}", input.iter().map(|b| format!("{:02x}", b)).collect::<String>(), packed.iter().map(|b| format!("{:02x}", b)).collect::<String>());
        let kb_left = field(&last, "kb").unwrap_or("").to_string();
        if !ds.starts_with('#') && (ds != expect || kb_left != "h") {
            let key = if !denied_unpolled.is_empty() { "data-access-refused-without-a-ready-poll-before-it" } else if !denied_critical.is_empty() { "F19:lock-held-at-KBDR-read-or-DDR-store" } else { "exactly-once-violated-without-critical-denial" };
            out.fail(out.lines, format!("{key}: echoed `{ds}` (keyboard left `{kb_left}`) for input `{expect}`; denied critical accesses {:04x?}", denied_critical), v.join("\n"));
        } else { out.hist.hit(if denied_critical.is_empty() { "exactly_once_ok" } else { "exactly_once_ok_despite_critical_denial" }); }
        if seen.insert(crate::simx::fnv(v.iter().flat_map(|l| l.bytes().map(|b| b as u64)))) && (kl || dl || v.iter().any(|l| l.starts_with("sim lock"))) { out.nontrivial += 1; }
        if out.samples.len() < 2 { let mut s = Json::obj(); s.set("input", Json::s(expect.clone())); s.set("locks", Json::Arr(v.iter().filter(|l| l.starts_with("sim lock")).take(12).map(|x| Json::s(x.clone())).collect())); s.set("display", Json::s(ds.clone())); out.sample(s); }
    }
    out.rule = "GETC/OUT echo programs (input length 1-3, every 10th up to 30) + PUTS (+ PUTSP of a packed string in every third case), virtual HALT; the harness holds the keyboard / display buffer lock (an exclusive write guard, or in every third case a shared read guard) around chosen step_in calls (try_write then fails deterministically): for short inputs a 16-bit pattern over the first 16 device accesses of the OS routines (KBSR/KBDR/DSR/DDR, identified by PC), otherwise random per-step patterns; in every eighth case KBSR written with bit 14 clear and other bits set (interrupts must stay off); in every fifth case side-effect-free host reads of KBDR/KBSR (a debugger's watch) between steps; every step compared with the model; oracle: display = input bytes exactly once in order, keyboard empty; failures with a lock held at a KBDR read or DDR store that directly follows a free poll of the same device (the race between poll and data access) are the recorded finding F19; a data access refused without such a poll before it, and any other failure, is a violation".into();
}
