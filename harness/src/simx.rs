//! `sim ...` ops of the line protocol, interpreted on the real `Simulator` (the Lean driver interprets the same
//! lines on the model). See DESIGN §4.6 for the canonical observables.
use crate::util::*;
use lc3_ensemble::asm::assemble;
use lc3_ensemble::ast::Reg;
use lc3_ensemble::parse::parse_ast;
use lc3_ensemble::sim::debug::{Breakpoint, Comparator};
use lc3_ensemble::sim::device::{BufferedDisplay, BufferedKeyboard, ExternalDevice, Interrupt, InterruptFromFn, TimerDevice};
use lc3_ensemble::sim::frame::{FrameType, ParameterList};
use lc3_ensemble::sim::mem::{MachineInitStrategy, Word};
use lc3_ensemble::sim::{InternalRegister, MemAccessCtx, MMapInternalErr, SimErr, SimFlags, Simulator};
use std::collections::{BTreeMap, VecDeque};
use std::sync::atomic::{AtomicBool, AtomicU64, Ordering};
use std::sync::{Arc, Mutex};

#[derive(Debug)]
pub struct TagErr(pub u64);
impl std::fmt::Display for TagErr { fn fmt(&self, f: &mut std::fmt::Formatter<'_>) -> std::fmt::Result { write!(f, "tag{}", self.0) } }
impl std::error::Error for TagErr {}

/// Recording device: logs every call, answers reads with base + #reads when `rd`, accepts writes when `wr`.
pub struct Recorder { rd: bool, wr: bool, base: u16, nreads: u16, log: Arc<Mutex<Vec<String>>> }
impl ExternalDevice for Recorder {
    fn io_read(&mut self, addr: u16, effectful: bool) -> Option<u16> {
        self.log.lock().unwrap().push(format!("r{}{}", hex16(addr), if effectful { "e" } else { "n" }));
        if self.rd { let v = self.base.wrapping_add(self.nreads); self.nreads = self.nreads.wrapping_add(1); Some(v) } else { None }
    }
    fn io_write(&mut self, addr: u16, data: u16) -> bool {
        self.log.lock().unwrap().push(format!("w{}={}", hex16(addr), hex16(data)));
        self.wr
    }
    fn io_reset(&mut self) { self.log.lock().unwrap().push("reset".into()); }
    fn poll_interrupt(&mut self) -> Option<Interrupt> { None }
}

pub struct SimCtx {
    pub sim: Simulator,
    pub kb: Option<BufferedKeyboard>,
    pub ds: Option<BufferedDisplay>,
    /// 0 = free, 1 = exclusive (write) guard held by the harness, 2 = shared (read) guard held
    pub kb_locked: u8,
    pub ds_locked: u8,
    pub timers: BTreeMap<u16, Arc<Mutex<TimerDevice>>>,
    pub recorders: BTreeMap<u16, Arc<Mutex<Vec<String>>>>,
    pub ssp_addr: Option<u16>,
    pub iregs: BTreeMap<u16, &'static str>,
    pub fill: u16,
    pub timed_out: bool,
    /// shadow copy of memory as of the last digest / host op (for the `chg=` field)
    pub shadow: Vec<Word>,
}

pub fn err_kind(e: SimErr) -> String {
    match e {
        SimErr::IllegalOpcode => "illegal".into(),
        SimErr::InvalidInstrFormat => "format".into(),
        SimErr::PrivilegeViolation => "priv".into(),
        SimErr::AccessViolation => "acv".into(),
        SimErr::UnresolvedExternal(_) => "unresolved".into(),
        SimErr::Interrupt(e) => match e.into_inner().downcast::<TagErr>() { Ok(t) => format!("intr:{}", t.0), Err(_) => "intr:?".into() },
        SimErr::StrictRegSetUninit => "sreg".into(),
        SimErr::StrictMemSetUninit => "smem".into(),
        SimErr::StrictIOSetUninit => "sio".into(),
        SimErr::StrictJmpAddrUninit => "sjmp".into(),
        SimErr::StrictSRAddrUninit => "ssr".into(),
        SimErr::StrictMemAddrUninit => "smaddr".into(),
        SimErr::StrictPCCurrUninit => "spccurr".into(),
        SimErr::StrictPCNextUninit => "spcnext".into(),
        SimErr::StrictPSRSetUninit => "spsr".into(),
    }
}

fn b(s: &str) -> Option<bool> { match s { "0" => Some(false), "1" => Some(true), _ => None } }
fn h(s: &str) -> Option<u16> { u16::from_str_radix(s, 16).ok() }
fn wd(w: Word) -> String { let (d, i) = w.verif_parts(); format!("{}/{}", hex16(d), hex16(i)) }
fn reg(s: &str) -> Option<Reg> { Reg::try_from(s.parse::<u8>().ok()?).ok() }
fn ctx(t: &[&str]) -> Option<MemAccessCtx> {
    Some(MemAccessCtx { privileged: b(t.first()?)?, strict: b(t.get(1)?)?, io_effects: b(t.get(2)?)?, track_access: b(t.get(3)?)? })
}
fn cmp(k: &str, v: u16) -> Option<Comparator> {
    Some(match k { "never" => Comparator::Never, "lt" => Comparator::Lt(v), "eq" => Comparator::Eq(v), "le" => Comparator::Le(v),
        "gt" => Comparator::Gt(v), "ne" => Comparator::Ne(v), "ge" => Comparator::Ge(v), "always" => Comparator::Always, _ => return None })
}
fn bp(t: &[&str]) -> Option<Breakpoint> {
    Some(match t {
        ["pc", a] => Breakpoint::PC(h(a)?),
        ["reg", r, k, v] => Breakpoint::Reg { reg: reg(r)?, value: cmp(k, h(v)?)? },
        ["mem", a, k, v] => Breakpoint::Mem { addr: h(a)?, value: cmp(k, h(v)?)? },
        _ => return None,
    })
}

pub fn bytes_digest(bs: &[u8]) -> String {
    if bs.len() <= 48 { let mut s = String::from("h"); for x in bs { s.push_str(&format!("{:02x}", x)); } s }
    else { format!("#{}:{:016x}", bs.len(), fnv(bs.iter().map(|x| *x as u64))) }
}
pub fn fnv(it: impl Iterator<Item = u64>) -> u64 {
    let mut hsh: u64 = 0xcbf29ce484222325;
    for x in it { hsh ^= x; hsh = hsh.wrapping_mul(0x100000001b3); }
    hsh
}

impl SimCtx {
    pub fn new(strict: bool, real: bool, dbg: bool, ign: bool, fill: u16) -> Self {
        let flags = SimFlags { strict, use_real_traps: real, machine_init: MachineInitStrategy::Known { value: fill }, debug_frames: dbg, ignore_privilege: ign };
        let sim = Simulator::new(flags);
        let shadow = (0..=u16::MAX).map(|a| sim.mem[a]).collect();
        SimCtx { sim, shadow, kb: None, ds: None, kb_locked: 0, ds_locked: 0, timers: BTreeMap::new(),
                 recorders: BTreeMap::new(), ssp_addr: None, iregs: BTreeMap::from([(0xFFFC, "psr"), (0xFFFE, "mcr")]), fill, timed_out: false }
    }

    /// value of a cell as of creation is not kept; `known` is issued before any execution, when untouched cells still hold it
    fn shadow_initial(&self, a: u16) -> (u16, u16) { self.sim.mem[a].verif_parts() }
    /// `sim rawmem` / `sim rawreg` lines reproducing the whole machine image (for seeded initialisation)
    pub fn raw_dump(&self) -> Vec<String> {
        let mut v = vec![];
        for base in (0..0x10000u32).step_by(512) {
            let mut l = format!("sim rawmem {:04x}", base);
            for a in base..base + 512 { l.push(' '); l.push_str(&wd(self.sim.mem[a as u16])); }
            v.push(l);
        }
        for i in 0..8u8 { let (d, m) = self.sim.reg_file[Reg::try_from(i).unwrap()].verif_parts(); v.push(format!("sim rawreg {} {} {}", i, hex16(d), hex16(m))); }
        v
    }
    pub fn sync_all(&mut self) { for a in 0..=u16::MAX { self.shadow[a as usize] = self.sim.mem[a]; } }
    fn sync(&mut self, a: u16) { self.shadow[a as usize] = self.sim.mem[a]; }

    /// Runs `f` on the simulator with the flagged buffer locks held by this thread (try_write then fails).
    fn with_locks<T>(&mut self, f: impl FnOnce(&mut Simulator) -> T) -> T {
        let kbuf = self.kb.as_ref().map(|k| k.get_buffer().clone());
        let dbuf = self.ds.as_ref().map(|d| d.get_buffer().clone());
        let _g1 = if self.kb_locked == 1 { kbuf.as_ref().map(|k| k.write().unwrap_or_else(|e| e.into_inner())) } else { None };
        let _g2 = if self.ds_locked == 1 { dbuf.as_ref().map(|d| d.write().unwrap_or_else(|e| e.into_inner())) } else { None };
        let _g3 = if self.kb_locked == 2 { kbuf.as_ref().map(|k| k.read().unwrap_or_else(|e| e.into_inner())) } else { None };
        let _g4 = if self.ds_locked == 2 { dbuf.as_ref().map(|d| d.read().unwrap_or_else(|e| e.into_inner())) } else { None };
        f(&mut self.sim)
    }

    /// Executes a run-style call with a watchdog that clears the MCR after 5 s (a non-terminating call would hang).
    fn guarded<T>(&mut self, f: impl FnOnce(&mut Simulator) -> T) -> T {
        let done = Arc::new(AtomicBool::new(false));
        let fired = Arc::new(AtomicBool::new(false));
        let mcr = self.sim.mcr().clone();
        let (d2, f2) = (done.clone(), fired.clone());
        let hnd = std::thread::spawn(move || {
            let t0 = std::time::Instant::now();
            while !d2.load(Ordering::Relaxed) {
                if t0.elapsed().as_secs() >= 5 { f2.store(true, Ordering::Relaxed); mcr.store(false, Ordering::Relaxed); break; }
                std::thread::sleep(std::time::Duration::from_millis(2));
            }
        });
        let r = self.with_locks(f);
        done.store(true, Ordering::Relaxed);
        let _ = hnd.join();
        if fired.load(Ordering::Relaxed) { self.timed_out = true; }
        r
    }

    pub fn digest(&mut self, res: &str, diff: bool) -> String {
        let mut s = String::with_capacity(256);
        s.push_str(res);
        let sim = &mut self.sim;
        s.push_str(&format!(" pc={} psr={} r=", hex16(sim.pc), hex16(sim.psr().get())));
        for i in 0..8u8 { if i > 0 { s.push(','); } s.push_str(&wd(sim.reg_file[Reg::try_from(i).unwrap()])); }
        match self.ssp_addr {
            Some(a) => { let v = sim.read_mem(a, MemAccessCtx::omnipotent()).map(|w| hex16(w.get())).unwrap_or("?".into()); s.push_str(&format!(" ssp={}", v)); }
            None => s.push_str(" ssp=-"),
        }
        s.push_str(&format!(" fn={}", sim.frame_stack.len()));
        match sim.frame_stack.frames() {
            None => s.push_str(" fr=-"),
            Some(fr) => {
                let show = |f: &lc3_ensemble::sim::frame::Frame| {
                    let t = match f.frame_type { FrameType::Subroutine => "s", FrameType::Trap => "t", FrameType::Interrupt => "i" };
                    let fp = f.frame_ptr.map(wd).unwrap_or("-".into());
                    let args: Vec<String> = f.arguments.iter().map(|w| wd(*w)).collect();
                    format!("{}:{}:{}:{}:[{}]", hex16(f.caller_addr), hex16(f.callee_addr), t, fp, args.join(";"))
                };
                let all: Vec<String> = fr.iter().map(show).collect();
                if all.len() <= 4 { s.push_str(&format!(" fr={}|{}", all.len(), all.join("|"))); }
                else {
                    let hsh = fnv(all.iter().flat_map(|x| x.bytes().map(|c| c as u64)));
                    s.push_str(&format!(" fr={}#{:016x}|{}", all.len(), hsh, all[all.len() - 2..].join("|")));
                }
            }
        }
        s.push_str(&format!(" ir={} hh={} hb={} pf={} mcr={}", sim.instructions_run, sim.hit_halt() as u8, sim.hit_breakpoint() as u8,
                            hex16(sim.prefetch_pc()), sim.mcr().load(Ordering::Relaxed) as u8));
        if diff {
            s.push_str(" chg=");
            let mut first = true; let mut n = 0;
            for a in 0..=u16::MAX {
                let w = sim.mem[a];
                if w != self.shadow[a as usize] {
                    self.shadow[a as usize] = w;
                    n += 1;
                    if n <= 12 { if !first { s.push(','); } first = false; s.push_str(&format!("{}:{}", hex16(a), wd(w))); }
                }
            }
            if n > 12 { s.push_str(&format!(",+{}", n - 12)); }
        } else if let Some(a) = self.ssp_addr { self.shadow[a as usize] = sim.mem[a]; }
        let kb = self.kb.as_ref().map(|k| { let g = k.get_buffer().read().unwrap_or_else(|e| e.into_inner()); let v: Vec<u8> = g.iter().copied().collect(); bytes_digest(&v) }).unwrap_or("-".into());
        let ds = self.ds.as_ref().map(|d| { let g = d.get_buffer().read().unwrap_or_else(|e| e.into_inner()); bytes_digest(&g) }).unwrap_or("-".into());
        s.push_str(&format!(" kb={} ds={}", kb, ds));
        for (id, t) in &self.timers { let g = t.lock().unwrap(); s.push_str(&format!(" t{}={}:{}", id, g.get_remaining(), g.enabled as u8)); }
        if self.timed_out { s.push_str(" TIMEOUT"); }
        s
    }

    pub fn load_obj(&mut self, obj: &lc3_ensemble::asm::ObjectFile) -> String { let r = crate::util::catch(|| self.sim.load_obj_file(obj)); let r = match r { Ok(r) => Self::res_str(r), Err(m) => format!("panic {}", m.replace(' ', "_")) }; self.sync_all(); r }
    fn res_str(r: Result<(), SimErr>) -> String { match r { Ok(()) => "ok".into(), Err(e) => format!("err:{}", err_kind(e)) } }

    pub fn exec(&mut self, t: &[&str]) -> String {
        match t {
            ["rawmem", a, rest @ ..] => {
                let Some(mut a) = h(a) else { return "bad-op".into() };
                for c in rest {
                    let Some((d, i)) = c.split_once('/') else { return "bad-op".into() };
                    let (Some(d), Some(i)) = (h(d), h(i)) else { return "bad-op".into() };
                    self.sim.mem[a] = Word::verif_from_parts(d, i);
                    self.sync(a);
                    a = a.wrapping_add(1);
                }
                "ok".into()
            }
            ["rawreg", r, d, i] => {
                let (Some(r), Some(d), Some(i)) = (reg(r), h(d), h(i)) else { return "bad-op".into() };
                self.sim.reg_file[r] = Word::verif_from_parts(d, i); "ok".into()
            }
            ["setrun", n] => {
                // host sets the public instruction counter (to exercise its wrap-around at 2^64)
                let Ok(n) = n.parse::<u64>() else { return "bad-op".into() };
                self.sim.instructions_run = n; "ok".into()
            }
            ["initall"] => {
                // marks every memory word and register fully initialised (keeps the data)
                for a in 0..=u16::MAX { let (d, _) = self.sim.mem[a].verif_parts(); self.sim.mem[a] = Word::verif_from_parts(d, 0xFFFF); }
                for i in 0..8u8 { let r = Reg::try_from(i).unwrap(); let (d, _) = self.sim.reg_file[r].verif_parts(); self.sim.reg_file[r] = Word::verif_from_parts(d, 0xFFFF); }
                self.sync_all();
                "ok".into()
            }
            ["setpc", v] => { let Some(v) = h(v) else { return "bad-op".into() }; self.sim.pc = v; "ok".into() }
            ["callsub", v] => { let Some(v) = h(v) else { return "bad-op".into() }; let r = self.with_locks(|s| s.call_subroutine(v)); Self::res_str(r) }
            ["hostwrite", a, d, i, c @ ..] => {
                let (Some(a), Some(d), Some(i), Some(c)) = (h(a), h(d), h(i), ctx(c)) else { return "bad-op".into() };
                let r = self.with_locks(|s| s.write_mem(a, Word::verif_from_parts(d, i), c));
                self.sync(a);
                Self::res_str(r)
            }
            ["hostread", a, c @ ..] => {
                let (Some(a), Some(c)) = (h(a), ctx(c)) else { return "bad-op".into() };
                let r = self.with_locks(|s| s.read_mem(a, c));
                self.sync(a);
                match r { Ok(w) => format!("ok {}", wd(w)), Err(e) => format!("err:{}", err_kind(e)) }
            }
            ["mmap", a, r] => {
                let Some(a) = h(a) else { return "bad-op".into() };
                let (ir, nm) = match *r { "pc" => (InternalRegister::PC, "pc"), "psr" => (InternalRegister::PSR, "psr"), "mcr" => (InternalRegister::MCR, "mcr"), "ssp" => (InternalRegister::SavedSP, "ssp"), _ => return "bad-op".into() };
                match self.sim.mmap_internal(a, ir) {
                    Ok(()) => { self.iregs.insert(a, nm); self.refresh_ssp(); "ok".into() }
                    Err(MMapInternalErr::NotInIORange) => "err:range".into(),
                    Err(MMapInternalErr::AddrAlreadyMapped) => "err:mapped".into(),
                }
            }
            ["munmap", a] => {
                let Some(a) = h(a) else { return "bad-op".into() };
                let r = self.sim.munmap_internal(a);
                self.iregs.remove(&a); self.refresh_ssp();
                (r as u8).to_string()
            }
            ["flags", s, r, i] => {
                let (Some(s), Some(r), Some(i)) = (b(s), b(r), b(i)) else { return "bad-op".into() };
                self.sim.flags.strict = s; self.sim.flags.use_real_traps = r; self.sim.flags.ignore_privilege = i; "ok".into()
            }
            ["dbgframes", d] => { let Some(d) = b(d) else { return "bad-op".into() }; self.sim.flags.debug_frames = d; "ok".into() }
            ["kbset"] => { let k = BufferedKeyboard::default(); self.sim.device_handler.set_keyboard(k.clone()); self.kb = Some(k); self.kb_locked = 0; "ok".into() }
            ["dsset"] => { let d = BufferedDisplay::default(); self.sim.device_handler.set_display(d.clone()); self.ds = Some(d); self.ds_locked = 0; "ok".into() }
            ["kbpush", hx] => {
                let Some(k) = &self.kb else { return "nokb".into() };
                let mut g = k.get_buffer().write().unwrap_or_else(|e| e.into_inner());
                let cs: Vec<char> = hx.chars().collect();
                for p in cs.chunks(2) { if p.len() == 2 { if let Ok(x) = u8::from_str_radix(&format!("{}{}", p[0], p[1]), 16) { g.push_back(x); } } }
                "ok".into()
            }
            ["poison", which] => {
                // another thread panics while holding the buffer's write guard: the lock is free again but poisoned
                let buf = match *which { "kb" => self.kb.as_ref().map(|k| k.get_buffer().clone()).map(Ok), "ds" => self.ds.as_ref().map(|d| d.get_buffer().clone()).map(Err), _ => return "bad-op".into() };
                let prev = std::panic::take_hook(); std::panic::set_hook(Box::new(|_| {}));
                match buf { Some(Ok(b)) => { let _ = std::thread::spawn(move || { let _g = b.write().unwrap(); panic!("poison") }).join(); }
                            Some(Err(b)) => { let _ = std::thread::spawn(move || { let _g = b.write().unwrap(); panic!("poison") }).join(); }
                            None => {} }
                std::panic::set_hook(prev);
                "ok".into()
            }
            ["lock", which, v] => {
                let v: u8 = match *v { "0" => 0, "1" => 1, "2" => 2, _ => return "bad-op".into() };
                match *which { "kb" => self.kb_locked = v, "ds" => self.ds_locked = v, _ => return "bad-op".into() }
                "ok".into()
            }
            ["timer", lo, hi, incl, vect, prio, en, seed, ..] => {
                let (Ok(lo), Ok(hi), Some(incl), Some(vect), Ok(prio), Some(en), Ok(seed)) =
                    (lo.parse::<u32>(), hi.parse::<u32>(), b(incl), h(vect), prio.parse::<u8>(), b(en), seed.parse::<u64>()) else { return "bad-op".into() };
                let mut t = if incl { TimerDevice::new(Some(seed), lo..=hi, vect as u8, prio) } else { TimerDevice::new(Some(seed), lo..hi, vect as u8, prio) };
                t.enabled = en;
                let arc = Arc::new(Mutex::new(t));
                match self.sim.device_handler.add_device(arc.clone(), &[]) { Ok(id) => { self.timers.insert(id, arc); id.to_string() } Err(_) => "fail".into() }
            }
            ["timeren", id, en] => {
                let (Ok(id), Some(en)) = (id.parse::<u16>(), b(en)) else { return "bad-op".into() };
                match self.timers.get(&id) { Some(t) => { t.lock().unwrap().enabled = en; "ok".into() } None => "notimer".into() }
            }
            ["intr", sched] => {
                let mut q: VecDeque<Option<Interrupt>> = VecDeque::new();
                for tok in sched.split(',') {
                    if tok == "-" || tok.is_empty() { q.push_back(None); }
                    else if let Some(rest) = tok.strip_prefix('v') {
                        let Some((v, p)) = rest.split_once('p') else { return "bad-op".into() };
                        let (Ok(v), Ok(p)) = (u8::from_str_radix(v, 16), p.parse::<u8>()) else { return "bad-op".into() };
                        q.push_back(Some(Interrupt::vectored(v, p)));
                    } else if let Some(rest) = tok.strip_prefix('x') {
                        let Ok(tag) = rest.parse::<u64>() else { return "bad-op".into() };
                        q.push_back(Some(Interrupt::external(TagErr(tag))));
                    } else { return "bad-op".into(); }
                }
                let dev = InterruptFromFn::new(move || q.pop_front().flatten());
                match self.sim.device_handler.add_device(dev, &[]) { Ok(id) => id.to_string(), Err(_) => "fail".into() }
            }
            ["rec", rd, wr, base, ports, rest @ ..] if rest.len() <= 1 => {
                let (Some(rd), Some(wr), Some(base)) = (b(rd), b(wr), h(base)) else { return "bad-op".into() };
                let mut ps = vec![];
                if *ports != "-" { for p in ports.split(',') { let Some(p) = h(p) else { return "bad-op".into() }; ps.push(p); } }
                let log = Arc::new(Mutex::new(vec![]));
                let dev = Recorder { rd, wr, base, nreads: 0, log: log.clone() };
                // how the device is handed over: by value, behind Arc<Mutex<_>>, behind Arc<RwLock<_>> (the crate's blanket impls)
                let res = match rest.first().copied() {
                    None | Some("w0") => self.sim.device_handler.add_device(dev, &ps).map_err(|_| ()),
                    Some("w1") => self.sim.device_handler.add_device(Arc::new(Mutex::new(dev)), &ps).map_err(|_| ()),
                    Some("w2") => self.sim.device_handler.add_device(Arc::new(std::sync::RwLock::new(dev)), &ps).map_err(|_| ()),
                    _ => return "bad-op".into(),
                };
                match res { Ok(id) => { self.recorders.insert(id, log); id.to_string() } Err(_) => "fail".into() }
            }
            ["nulldev", ports] => {
                let mut ps = vec![];
                if *ports != "-" { for p in ports.split(',') { let Some(p) = h(p) else { return "bad-op".into() }; ps.push(p); } }
                match self.sim.device_handler.add_device(lc3_ensemble::sim::device::NullDevice, &ps) { Ok(id) => id.to_string(), Err(_) => "fail".into() }
            }
            ["rmdev", id] => {
                let Ok(id) = id.parse::<u16>() else { return "bad-op".into() };
                self.sim.device_handler.remove_device(id);
                self.timers.remove(&id);
                self.recorders.remove(&id);
                if id == 1 { self.kb = None; } if id == 2 { self.ds = None; }
                "ok".into()
            }
            ["reclog", id] => {
                let Ok(id) = id.parse::<u16>() else { return "bad-op".into() };
                match self.recorders.get(&id) { Some(l) => format!("[{}]", l.lock().unwrap().join(",")), None => "norec".into() }
            }
            ["bp", "add", rest @ ..] => { let Some(x) = bp(rest) else { return "bad-op".into() }; (self.sim.breakpoints.insert(x) as u8).to_string() }
            ["bp", "rm", rest @ ..] => { let Some(x) = bp(rest) else { return "bad-op".into() }; (self.sim.breakpoints.remove(&x) as u8).to_string() }
            ["srdef", a, "cc", n] => {
                let (Some(a), Ok(n)) = (h(a), n.parse::<usize>()) else { return "bad-op".into() };
                let names: Vec<String> = (0..n).map(|i| format!("p{i}")).collect();
                let refs: Vec<&str> = names.iter().map(|s| s.as_str()).collect();
                self.sim.frame_stack.set_subroutine_def(a, ParameterList::with_calling_convention(&refs)); "ok".into()
            }
            ["srdef", a, "pbr", regs] => {
                let Some(a) = h(a) else { return "bad-op".into() };
                let mut ps: Vec<(&str, Reg)> = vec![];
                if *regs != "-" { for r in regs.split(',') { let Some(r) = reg(r) else { return "bad-op".into() }; ps.push(("p", r)); } }
                self.sim.frame_stack.set_subroutine_def(a, ParameterList::with_pass_by_register(&ps, None)); "ok".into()
            }
            ["load", spec] => {
                let mut src = String::new();
                for blk in spec.split(';') {
                    if blk.is_empty() { continue; }
                    let Some((st, ws)) = blk.split_once(':') else { return "bad-op".into() };
                    src.push_str(&format!(".orig x{}\n", st));
                    let mut run = 0usize;
                    for w in ws.split(',') {
                        if w.is_empty() { continue; }
                        if w == "_" { run += 1; } else {
                            if run > 0 { src.push_str(&format!(".blkw {}\n", run)); run = 0; }
                            src.push_str(&format!(".fill x{}\n", w));
                        }
                    }
                    if run > 0 { src.push_str(&format!(".blkw {}\n", run)); }
                    src.push_str(".end\n");
                }
                let obj = match parse_ast(&src).map_err(|e| format!("{e}")).and_then(|a| assemble(a).map_err(|e| format!("{e}"))) { Ok(o) => o, Err(e) => return format!("asmfail {}", e.replace(' ', "_")) };
                let r = Self::res_str(self.sim.load_obj_file(&obj));
                self.sync_all();
                r
            }
            ["loadraw", spec] => {
                // the same image, but built through the text object format (no assembler limits: blocks may lie in the
                // I/O page, reach xFFFF or wrap around)
                let mut txt = String::from("LC-3 OBJ FILE\n\n.TEXT\n");
                for blk in spec.split(';') {
                    if blk.is_empty() { continue; }
                    let Some((st, ws)) = blk.split_once(':') else { return "bad-op".into() };
                    let cells: Vec<&str> = ws.split(',').filter(|w| !w.is_empty()).collect();
                    txt.push_str(&format!("{}\n{}\n", st.to_uppercase(), cells.len()));
                    for w in cells { if w == "_" { txt.push_str("????\n"); } else { txt.push_str(&format!("{}\n", w.to_uppercase())); } }
                }
                let Some(obj) = <lc3_ensemble::asm::encoding::TextFormat as lc3_ensemble::asm::encoding::ObjFileFormat>::deserialize(&txt) else { return "bad-obj".into() };
                let r = Self::res_str(self.guarded(|s| s.load_obj_file(&obj)));
                self.sync_all();
                r
            }
            ["step"] => {
                let r = self.with_locks(|s| s.step_in());
                self.digest(&Self::res_str(r), true)
            }
            ["run", limit, rest @ ..] => {
                let Ok(limit) = limit.parse::<u64>() else { return "bad-op".into() };
                let mcrat = rest.first().and_then(|s| s.strip_prefix("mcrat=")).and_then(|s| s.parse::<u64>().ok());
                let r = match mcrat {
                    None => self.guarded(|s| s.run_with_limit(limit)),
                    Some(k) => {
                        let it = AtomicU64::new(0);
                        self.guarded(|s| { let i0 = s.instructions_run; s.run_while(|sim| {
                            let n = it.fetch_add(1, Ordering::Relaxed) + 1;
                            if n == k { sim.mcr().store(false, Ordering::Relaxed); }
                            sim.instructions_run.wrapping_sub(i0) < limit
                        }) })
                    }
                };
                self.digest(&Self::res_str(r), true)
            }
            ["runfull"] => { let r = self.guarded(|s| s.run()); self.digest(&Self::res_str(r), true) }
            ["stepover"] => { let r = self.guarded(|s| s.step_over()); self.digest(&Self::res_str(r), true) }
            ["stepout"] => { let r = self.guarded(|s| s.step_out()); self.digest(&Self::res_str(r), true) }
            ["reset"] => { self.with_locks(|s| s.reset()); let d = self.digest("ok", false); self.sync_all(); d }
            ["state"] => self.digest("ok", false),
            ["obs", how] => {
                let mut v: Vec<(u16, u8)> = vec![];
                let enc = |a: lc3_ensemble::sim::observer::AccessSet| (a.read() as u8) | ((a.written() as u8) << 1) | ((a.modified() as u8) << 2);
                match *how {
                    "take" => { for (a, f) in self.sim.observer.take_mem_accesses() { v.push((a, enc(f))); } }
                    "peek" => { for a in 0..=u16::MAX { let f = self.sim.observer.get_mem_accesses(a); if f.accessed() { v.push((a, enc(f))); } } }
                    _ => return "bad-op".into(),
                }
                v.sort();
                let parts: Vec<String> = v.iter().map(|(a, f)| format!("{}:{}", hex16(*a), f)).collect();
                if parts.len() <= 24 { format!("[{}]", parts.join(",")) }
                else { format!("#{}:{:016x}", parts.len(), fnv(v.iter().map(|(a, f)| ((*a as u64) << 8) | *f as u64))) }
            }
            ["memhash", "u"] => {
                let hsh = fnv((0x3000..0xFE00u16).map(|a| { let (d, i) = self.sim.mem[a].verif_parts(); ((d as u64) << 16) | i as u64 }));
                format!("{:016x}", hsh)
            }
            ["known"] => {
                // C31: a Known strategy initialises every register and every word outside the OS image / I/O page to the value, uninitialised
                let os: std::collections::HashSet<u16> = lc3_ensemble::sim::_os_obj_file().addr_iter().map(|(a, _)| a).collect();
                let mut bad = 0u32;
                for a in 0..0xFE00u16 { if !os.contains(&a) && self.shadow_initial(a) != (self.fill, 0) { bad += 1; } }
                format!("known bad={bad}")
            }
            ["memhash"] => {
                let hsh = fnv((0..=u16::MAX).map(|a| { let (d, i) = self.sim.mem[a].verif_parts(); ((d as u64) << 16) | i as u64 }));
                format!("{:016x}", hsh)
            }
            ["iregs"] => { let v: Vec<String> = self.iregs.iter().map(|(a, n)| format!("{}:{}", hex16(*a), n)).collect(); format!("[{}]", v.join(",")) }
            _ => "bad-op".into(),
        }
    }

    fn refresh_ssp(&mut self) {
        self.ssp_addr = self.iregs.iter().find(|(_, n)| **n == "ssp").map(|(a, _)| *a);
    }
}

/// `sim new s r d i fill` creates the context; everything else needs one.
pub fn exec(slot: &mut Option<SimCtx>, t: &[&str]) -> String {
    if let ["newseed", s, r, d, i, seed] = t {
        let (Some(s), Some(r), Some(d), Some(i), Ok(seed)) = (b(s), b(r), b(d), b(i), seed.parse::<u64>()) else { return "bad-op".into() };
        let mut c = SimCtx::new(s, r, d, i, 0);
        c.sim = Simulator::new(SimFlags { strict: s, use_real_traps: r, machine_init: MachineInitStrategy::Seeded { seed }, debug_frames: d, ignore_privilege: i });
        c.sync_all();
        *slot = Some(c);
        return "ok".into();
    }
    if let ["new", s, r, d, i, fill] = t {
        let (Some(s), Some(r), Some(d), Some(i), Some(fill)) = (b(s), b(r), b(d), b(i), h(fill)) else { return "bad-op".into() };
        *slot = Some(SimCtx::new(s, r, d, i, fill));
        return "ok".into();
    }
    match slot {
        Some(c) => { let t: Vec<&str> = t.to_vec(); match catch(|| c.exec(&t)) { Ok(s) => s, Err(m) => format!("panic {}", m.replace(' ', "_")) } }
        None => "nosim".into(),
    }
}
