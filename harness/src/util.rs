//! Shared harness utilities: PRNG (every random choice derives from one seed), output files, tiny JSON.
use std::collections::BTreeMap;
use std::fs::File;
use std::io::{BufWriter, Write};
use std::path::{Path, PathBuf};

/// SplitMix64: small, deterministic, seedable.
#[derive(Clone)]
pub struct Rng(pub u64);
impl Rng {
    pub fn new(seed: u64) -> Self { Rng(seed ^ 0x9E37_79B9_7F4A_7C15) }
    pub fn next(&mut self) -> u64 {
        self.0 = self.0.wrapping_add(0x9E37_79B9_7F4A_7C15);
        let mut z = self.0;
        z = (z ^ (z >> 30)).wrapping_mul(0xBF58_476D_1CE4_E5B9);
        z = (z ^ (z >> 27)).wrapping_mul(0x94D0_49BB_1331_11EB);
        z ^ (z >> 31)
    }
    pub fn below(&mut self, n: u64) -> u64 { if n == 0 { 0 } else { self.next() % n } }
    pub fn range(&mut self, lo: i64, hi: i64) -> i64 { lo + self.below((hi - lo + 1) as u64) as i64 }
    pub fn u16(&mut self) -> u16 { self.next() as u16 }
    pub fn bool(&mut self) -> bool { self.next() & 1 == 1 }
    pub fn chance(&mut self, num: u64, den: u64) -> bool { self.below(den) < num }
    pub fn pick<'a, T>(&mut self, xs: &'a [T]) -> &'a T { &xs[self.below(xs.len() as u64) as usize] }
    pub fn fork(&mut self) -> Rng { Rng::new(self.next()) }
}

#[derive(Clone, Debug)]
pub enum Json {
    Null, Bool(bool), Int(i64), Str(String), Arr(Vec<Json>), Obj(BTreeMap<String, Json>),
}
impl Json {
    pub fn obj() -> Json { Json::Obj(BTreeMap::new()) }
    pub fn set(&mut self, k: &str, v: Json) { if let Json::Obj(m) = self { m.insert(k.to_string(), v); } }
    pub fn s(x: impl Into<String>) -> Json { Json::Str(x.into()) }
    pub fn write(&self, out: &mut String) {
        match self {
            Json::Null => out.push_str("null"),
            Json::Bool(b) => out.push_str(if *b { "true" } else { "false" }),
            Json::Int(i) => out.push_str(&i.to_string()),
            Json::Str(s) => {
                out.push('"');
                for c in s.chars() {
                    match c {
                        '"' => out.push_str("\\\""), '\\' => out.push_str("\\\\"),
                        '\n' => out.push_str("\\n"), '\r' => out.push_str("\\r"), '\t' => out.push_str("\\t"),
                        c if (c as u32) < 0x20 => out.push_str(&format!("\\u{:04x}", c as u32)),
                        c => out.push(c),
                    }
                }
                out.push('"');
            }
            Json::Arr(a) => {
                out.push('[');
                for (i, x) in a.iter().enumerate() { if i > 0 { out.push(','); } x.write(out); }
                out.push(']');
            }
            Json::Obj(m) => {
                out.push('{');
                for (i, (k, v)) in m.iter().enumerate() {
                    if i > 0 { out.push(','); }
                    Json::Str(k.clone()).write(out); out.push(':'); v.write(out);
                }
                out.push('}');
            }
        }
    }
}

/// Histogram of labelled events (input distribution, branches hit, ...).
#[derive(Default)]
pub struct Hist(pub BTreeMap<String, i64>);
impl Hist {
    pub fn hit(&mut self, k: &str) { *self.0.entry(k.to_string()).or_insert(0) += 1; }
    pub fn add(&mut self, k: &str, n: i64) { *self.0.entry(k.to_string()).or_insert(0) += n; }
    pub fn json(&self) -> Json { Json::Obj(self.0.iter().map(|(k, v)| (k.clone(), Json::Int(*v))).collect()) }
}

/// A violation of the property itself observed on the implementation (independent of the model).
pub struct OracleFailure { pub case_id: u64, pub what: String, pub replay: String }

/// Output of one harness subcommand: `cases.txt` (ops for the model), `impl.out` (one line per op), `meta.json`.
pub struct Out {
    pub dir: PathBuf,
    pub cases: BufWriter<File>,
    pub imp: BufWriter<File>,
    pub lines: u64,
    pub evaluations: i64,
    pub nontrivial: i64,
    pub rule: String,
    pub exhaustive: bool,
    pub hist: Hist,
    pub samples: Vec<Json>,
    pub oracle_failures: Vec<OracleFailure>,
    pub extra: Json,
}
impl Out {
    pub fn new(dir: &Path) -> Self {
        std::fs::create_dir_all(dir).unwrap();
        Out {
            dir: dir.to_path_buf(),
            cases: BufWriter::with_capacity(1 << 20, File::create(dir.join("cases.txt")).unwrap()),
            imp: BufWriter::with_capacity(1 << 20, File::create(dir.join("impl.out")).unwrap()),
            lines: 0, evaluations: 0, nontrivial: 0, rule: String::new(), exhaustive: false,
            hist: Hist::default(), samples: vec![], oracle_failures: vec![], extra: Json::obj(),
        }
    }
    /// One op: the line sent to the model and the implementation's canonical answer.
    pub fn op(&mut self, case_line: &str, impl_line: &str) {
        debug_assert!(!case_line.contains('\n') && !impl_line.contains('\n'));
        self.cases.write_all(case_line.as_bytes()).unwrap(); self.cases.write_all(b"\n").unwrap();
        self.imp.write_all(impl_line.as_bytes()).unwrap(); self.imp.write_all(b"\n").unwrap();
        self.lines += 1;
    }
    pub fn sample(&mut self, j: Json) { if self.samples.len() < 8 { self.samples.push(j); } }
    pub fn fail(&mut self, case_id: u64, what: String, replay: String) {
        if self.oracle_failures.len() < 50 { self.oracle_failures.push(OracleFailure { case_id, what, replay }); }
        self.hist.hit("oracle_failure");
    }
    pub fn finish(mut self) {
        self.cases.flush().unwrap(); self.imp.flush().unwrap();
        let mut m = Json::obj();
        m.set("lines", Json::Int(self.lines as i64));
        m.set("evaluations", Json::Int(self.evaluations));
        m.set("distinct_nontrivial", Json::Int(self.nontrivial));
        m.set("rule", Json::s(self.rule.clone()));
        m.set("exhaustive", Json::Bool(self.exhaustive));
        m.set("histogram", self.hist.json());
        m.set("samples", Json::Arr(self.samples.clone()));
        m.set("oracle_failures", Json::Arr(self.oracle_failures.iter().map(|f| {
            let mut o = Json::obj();
            o.set("case_id", Json::Int(f.case_id as i64)); o.set("what", Json::s(f.what.clone())); o.set("replay", Json::s(f.replay.clone()));
            o
        }).collect()));
        m.set("extra", self.extra.clone());
        let mut s = String::new(); m.write(&mut s);
        std::fs::write(self.dir.join("meta.json"), s).unwrap();
    }
}

pub fn hex16(v: u16) -> String { format!("{:04x}", v) }

/// Runs `f` catching panics; returns Err(message) on panic.
pub fn catch<T>(f: impl FnOnce() -> T) -> Result<T, String> {
    let r = std::panic::catch_unwind(std::panic::AssertUnwindSafe(f));
    r.map_err(|e| {
        if let Some(s) = e.downcast_ref::<&str>() { s.to_string() }
        else if let Some(s) = e.downcast_ref::<String>() { s.clone() }
        else { "panic".to_string() }
    })
}
pub fn silence_panics() { std::panic::set_hook(Box::new(|_| {})); }
