import Lc3V.Model.Bits
import Lc3V.Model.Offset
