/- Driver/Asm.lean — line-protocol ops for the assembler, linker, symbol-table queries and object formats.
   Object files live in named slots. Not part of the model. -/
import Lc3V.Model.Asm
import Lc3V.Model.ObjBin
import Lc3V.Model.ObjTxt
import Lc3V.Driver.Parse
namespace Lc3V.Driver
open Lc3V

abbrev Slots := List (String × ObjFile)

def slotGet (s : Slots) (k : String) : Option ObjFile := (s.find? (·.1 == k)).map (·.2)
def slotSet (s : Slots) (k : String) (o : ObjFile) : Slots := (k, o) :: s.filter (·.1 != k)

def kindName : AsmErrKind → String
  | .undetAddrLabel => "undetlabel" | .undetAddrStmt => "undetstmt" | .unclosedOrig => "unclosed" | .unopenedOrig => "unopened"
  | .overlappingOrig => "nestedorig" | .overlappingLabels => "duplabel" | .wrappingBlock => "wrap" | .blockInIO => "io"
  | .overlappingBlocks => "overlap"
  | .offsetNewErr (.cannotFitSigned n) => s!"offs{n}" | .offsetNewErr (.cannotFitUnsigned n) => s!"offu{n}"
  | .offsetExternal => "offext" | .couldNotFindLabel => "nolabel"

def showSpans (l : List Span) : String := ",".intercalate (l.map (fun s => s!"{s.1}..{s.2}"))

def showAErr (e : AsmErr) : String := s!"aerr {kindName e.kind} {showSpans e.spans}"

def showCell : Option W → String
  | some w => hex16 w
  | none => "_"

def sortText {α} (key : α → List Char) (l : List α) : List α := Txt.sortBy (fun a b => Txt.textLt (key a) (key b)) l

def dumpObj (o : ObjFile) : String :=
  let bl := ";".intercalate (o.blocks.map (fun b => s!"{hexN 4 b.1}:{",".intercalate (b.2.map showCell)}"))
  let sym := match o.sym with
    | none => "none"
    | some t =>
      let ls := ",".intercalate ((sortText (fun (e : Key × SymData) => e.1) t.labels).map (fun (e : Key × SymData) => s!"{hexText e.1}:{hex16 e.2.addr}:{e.2.srcStart}:{if e.2.ext then 1 else 0}"))
      let rs := ",".intercalate ((Txt.sortBy Txt.relLt t.rel).map (fun (e : W × Key) => s!"{hex16 e.1}:{hexText e.2}"))
      let d := match t.debug with
        | none => "none"
        | some d => s!"M[{",".intercalate (d.lineMap.map (fun (p : Nat × List W) => s!"{p.1}:{".".intercalate (p.2.map hex16)}"))}] T{hexText d.src.src}"
      s!"L[{ls}] R[{rs}] D[{d}]"
  s!"B[{bl}] S[{sym}]"

def bytesLt : List UInt8 → List UInt8 → Bool
  | [], [] => false
  | [], _ :: _ => true
  | _ :: _, [] => false
  | a :: as, b :: bs => if a < b then true else if a > b then false else bytesLt as bs

/-- binary serialization with the label and relocation chunks sorted bytewise (HashMap order is unspecified) -/
def canonBin (o : ObjFile) : List UInt8 :=
  Bin.magic ++ o.blocks.flatMap Bin.serBlock ++
  (match o.sym with
   | none => []
   | some t =>
     (Txt.sortBy bytesLt (t.labels.map Bin.serLabel)).flatten ++
     (match t.debug with
      | none => []
      | some d => d.lineMap.flatMap Bin.serLineBlock ++ Bin.serSrc d.src.src) ++
     (Txt.sortBy bytesLt (t.rel.map Bin.serRel)).flatten)

def optN : Option Nat → String | some n => s!"{n}" | none => "none"
def optW : Option W → String | some w => hex16 w | none => "none"

def cmdObj (slots : Slots) (t : List String) : Slots × String :=
  let bad := (slots, "bad-op")
  match t with
  | ["asm", slot, dbg, h] =>
    match parseText h with
    | none => (slots, "bad-utf8")
    | some cs =>
      match parseAst cs with
      | .error e => (slots, s!"perr @{e.span.1}..{e.span.2}")
      | .ok ast =>
        match assemble ast (if dbg == "1" then some cs else none) with
        | .error e => (slots, showAErr e)
        | .ok o => (slotSet slots slot o, "ok " ++ dumpObj o)
  | ["link", dst, a, b] =>
    match slotGet slots a, slotGet slots b with
    | some oa, some ob =>
      (match ObjFile.link oa ob with
       | .error e => (slots, s!"aerr {kindName e.kind}")
       | .ok o => (slotSet slots dst o, "ok " ++ dumpObj o))
    | _, _ => (slots, "noslot")
  | ["odump", slot] => (slots, match slotGet slots slot with | some o => dumpObj o | none => "noslot")
  | "oq" :: slot :: q =>
    match slotGet slots slot with
    | none => (slots, "noslot")
    | some o =>
      match o.sym with
      | none => (slots, "nosym")
      | some t =>
        match q with
        | ["lookup", h] => (slots, match parseText h with | some n => optW (t.lookupLabel n) | none => "bad-utf8")
        | ["src", h] => (slots, match parseText h with
            | some n => (match t.getLabelSource n with | some s => s!"{s.1}..{s.2}" | none => "none") | none => "bad-utf8")
        | ["rev", a] => (slots, match parseW a with
            | some a => "[" ++ ",".intercalate ((sortText id (t.revLookupAll a)).map hexText) ++ "]" | none => "bad-op")
        | ["line", n] => (slots, match n.toNat? with | some n => optW (t.lookupLine n) | none => "bad-op")
        | ["revline", a] => (slots, match parseW a with | some a => optN (t.revLookupLine a) | none => "bad-op")
        | ["lines"] => (slots, "[" ++ ",".intercalate (t.lineIter.map (fun (p : Nat × W) => s!"{p.1}:{hex16 p.2}")) ++ "]")
        | ["readline", n] => (slots, match n.toNat?, t.debug with
            | some n, some d => (match d.src.readLine n with | some l => "ok " ++ hexText l | none => "none")
            | _, _ => "none")
        | ["srclines"] => (slots, match t.debug with | some d => s!"lines={d.src.countLines}" | none => "none")
        | ["srcline", n] => (slots, match n.toNat?, t.debug with
            | some n, some d => (match d.src.lineSpan n, d.src.readLine n with
              | some sp, some txt => s!"span={sp.1}..{sp.2} text={hexText txt}"
              | none, none => "none"
              | _, _ => "inconsistent")
            | some _, none => "nosrc"
            | _, _ => "bad-op")
        | ["srcpos", n] => (slots, match n.toNat?, t.debug with
            | some n, some d => let p := d.src.getPosPair n; s!"{p.1} {p.2}"
            | some _, none => "nosrc"
            | _, _ => "bad-op")
        | _ => bad
  | ["bser", slot] => (slots, match slotGet slots slot with | some o => hexBytes (canonBin o) | none => "noslot")
  | ["bde", dst, h] =>
    match (if h == "-" then some [] else parseHexBytes h) with
    | none => bad
    | some bs => (match Bin.deserialize bs with
      | some o => (slotSet slots dst o, "ok " ++ dumpObj o)
      | none => (slots, "none"))
  | ["tser", slot] => (slots, match slotGet slots slot with | some o => hexText (Txt.serialize o) | none => "noslot")
  | ["tde", dst, h] =>
    match parseText h with
    | none => (slots, "bad-utf8")
    | some cs => (match Txt.deserialize cs with
      | some o => (slotSet slots dst o, "ok " ++ dumpObj o)
      | none => (slots, "none"))
  | _ => bad

end Lc3V.Driver
