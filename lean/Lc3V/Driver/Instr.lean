import Lc3V.Model.Instr
import Lc3V.Driver.Util
namespace Lc3V.Driver
open SimInstr

def hx (n : Nat) : String :=
  if n = 0 then "0" else
  let rec go (fuel : Nat) (n : Nat) (acc : List Char) : List Char :=
    match fuel with
    | 0 => acc
    | fuel + 1 => if n = 0 then acc else go fuel (n / 16) (hexChar (n % 16) :: acc)
  String.ofList (go 16 n [])

def showInstr : SimInstr → String
  | .br c o => s!"br {hx c.toNat} {hx o.toNat}"
  | .add d s (.imm v) => s!"add {hx d.toNat} {hx s.toNat} i {hx v.toNat}"
  | .add d s (.reg v) => s!"add {hx d.toNat} {hx s.toNat} r {hx v.toNat}"
  | .ld d o => s!"ld {hx d.toNat} {hx o.toNat}"
  | .st d o => s!"st {hx d.toNat} {hx o.toNat}"
  | .jsr (.imm o) => s!"jsr i {hx o.toNat}"
  | .jsr (.reg b) => s!"jsr r {hx b.toNat}"
  | .and d s (.imm v) => s!"and {hx d.toNat} {hx s.toNat} i {hx v.toNat}"
  | .and d s (.reg v) => s!"and {hx d.toNat} {hx s.toNat} r {hx v.toNat}"
  | .ldr d b o => s!"ldr {hx d.toNat} {hx b.toNat} {hx o.toNat}"
  | .str d b o => s!"str {hx d.toNat} {hx b.toNat} {hx o.toNat}"
  | .rti => "rti"
  | .not d s => s!"not {hx d.toNat} {hx s.toNat}"
  | .ldi d o => s!"ldi {hx d.toNat} {hx o.toNat}"
  | .sti d o => s!"sti {hx d.toNat} {hx o.toNat}"
  | .jmp b => s!"jmp {hx b.toNat}"
  | .lea d o => s!"lea {hx d.toNat} {hx o.toNat}"
  | .trap v => s!"trap {hx v.toNat}"

def fld (n : Nat) (s : String) : Option (BitVec n) :=
  match parseHex s with
  | some v => if v < 2 ^ n then some (BitVec.ofNat n v) else none
  | none => none

def parseInstr (t : List String) : Option SimInstr :=
  match t with
  | ["br", c, o] => do pure (.br (← fld 3 c) (← fld 9 o))
  | ["add", d, s, "i", v] => do pure (.add (← fld 3 d) (← fld 3 s) (.imm (← fld 5 v)))
  | ["add", d, s, "r", v] => do pure (.add (← fld 3 d) (← fld 3 s) (.reg (← fld 3 v)))
  | ["ld", d, o] => do pure (.ld (← fld 3 d) (← fld 9 o))
  | ["st", d, o] => do pure (.st (← fld 3 d) (← fld 9 o))
  | ["jsr", "i", o] => do pure (.jsr (.imm (← fld 11 o)))
  | ["jsr", "r", b] => do pure (.jsr (.reg (← fld 3 b)))
  | ["and", d, s, "i", v] => do pure (.and (← fld 3 d) (← fld 3 s) (.imm (← fld 5 v)))
  | ["and", d, s, "r", v] => do pure (.and (← fld 3 d) (← fld 3 s) (.reg (← fld 3 v)))
  | ["ldr", d, b, o] => do pure (.ldr (← fld 3 d) (← fld 3 b) (← fld 6 o))
  | ["str", d, b, o] => do pure (.str (← fld 3 d) (← fld 3 b) (← fld 6 o))
  | ["rti"] => some .rti
  | ["not", d, s] => do pure (.not (← fld 3 d) (← fld 3 s))
  | ["ldi", d, o] => do pure (.ldi (← fld 3 d) (← fld 9 o))
  | ["sti", d, o] => do pure (.sti (← fld 3 d) (← fld 9 o))
  | ["jmp", b] => do pure (.jmp (← fld 3 b))
  | ["lea", d, o] => do pure (.lea (← fld 3 d) (← fld 9 o))
  | ["trap", v] => do pure (.trap (← fld 8 v))
  | _ => none

def showDecErr : DecodeErr → String
  | .illegalOpcode => "err illegal"
  | .invalidInstrFormat => "err format"

def cmdDec (args : List String) : String :=
  match args with
  | [w] => match parseW w with
    | some w => match decode w with
      | .ok i => s!"ok {showInstr i} enc={hex16 (encode i)}"
      | .error e => showDecErr e
    | none => "bad-op"
  | _ => "bad-op"

def cmdEnc (args : List String) : String :=
  match parseInstr args with
  | some i =>
    let w := encode i
    match decode w with
    | .ok j => s!"{hex16 w} dec={showInstr j}"
    | .error e => s!"{hex16 w} dec={showDecErr e}"
  | none => "bad-op"

end Lc3V.Driver
