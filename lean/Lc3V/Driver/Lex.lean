import Lc3V.Model.Lex
import Lc3V.Driver.Source
namespace Lc3V.Driver

def lexErrName : LexErr → String
  | .doesNotFitU16 => "nofitu16" | .doesNotFitI16 => "nofiti16" | .invalidHex => "badhex" | .invalidNumeric => "baddec"
  | .invalidHexEmpty => "emptyhex" | .invalidDecEmpty => "emptydec" | .unknownIntErr => "unknownint"
  | .unclosedStrLit => "unclosed" | .strLitTooBig => "strbig" | .invalidReg => "badreg" | .invalidSymbol => "badsym"

def showTok : Token → String
  | .unsigned n => s!"U{n}" | .signed v => s!"S{v}" | .reg r => s!"R{r}"
  | .ident (.label s) => s!"L{hexText s}" | .ident (.kw k) => s!"K{k.name}"
  | .directive s => s!"D{hexText s}" | .string s => s!"Q{hexText s}"
  | .colon => ":" | .comma => "," | .comment => ";" | .newline => "N"

/-- like `lex`, but keeps the tokens before the first error (the harness prints them too) -/
def lexTrace : Nat → List Char → Nat → List String → List String
  | 0, _, _, acc => acc.reverse
  | _, [], _, acc => acc.reverse
  | fuel + 1, c :: cs, off, acc =>
    if c = ' ' ∨ c = '\t' then lexTrace fuel cs (off + 1) acc
    else
      let l := lexOne (c :: cs)
      let stop := off + blen ((c :: cs).take l.len)
      match l.res with
      | .error e => (s!"E{lexErrName e}@{off}..{stop}" :: acc).reverse
      | .ok t => lexTrace fuel ((c :: cs).drop l.len) stop (s!"{showTok t}@{off}..{stop}" :: acc)

def cmdLex (args : List String) : String :=
  match args with
  | [h] => match parseText h with
    | some cs =>
      let out := lexTrace (cs.length + 1) cs 0 []
      if out.isEmpty then "-" else " ".intercalate out
    | none => "bad-utf8"
  | _ => "bad-op"

end Lc3V.Driver
