import Lc3V.Model.Offset
import Lc3V.Driver.Util
namespace Lc3V.Driver

def showOff {n} : Outcome OffsetNewErr (Offset n) → String
  | .ok o => s!"ok {hex16 o.get}"
  | .err (.cannotFitSigned k) => s!"err S {k}"
  | .err (.cannotFitUnsigned k) => s!"err U {k}"
  | .panic _ => "panic"

def cmdOff (trunc : Bool) (args : List String) : String :=
  match args with
  | [sg, n, v] =>
    match n.toNat?, parseW v with
    | some n, some v =>
      match sg, trunc with
      | "S", false => showOff (newS n v)
      | "U", false => showOff (newU n v)
      | "S", true  => showOff (newTruncS n v)
      | "U", true  => showOff (newTruncU n v)
      | _, _ => "bad-op"
    | _, _ => "bad-op"
  | _ => "bad-op"

end Lc3V.Driver
