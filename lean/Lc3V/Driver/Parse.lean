import Lc3V.Model.Parse
import Lc3V.Model.Print
import Lc3V.Driver.Lex
namespace Lc3V.Driver

def showLabel (l : Label) : String := s!"l{hexText l.name}@{l.start}"
def showPC {n} : PCOff n → String
  | .off v => s!"o{v.toInt}"
  | .label l => showLabel l
def showPCU {n} : PCOff n → String
  | .off v => s!"o{v.toNat}"
  | .label l => showLabel l
def showIR {n} : ImmOrReg n → String
  | .imm v => s!"i{v.toInt}"
  | .reg r => s!"r{r.toNat}"

def canonInstr : AsmInstr → String
  | .add d s o => s!"add {d.toNat} {s.toNat} {showIR o}" | .and d s o => s!"and {d.toNat} {s.toNat} {showIR o}"
  | .br cc o => s!"br {cc.toNat} {showPC o}" | .jmp b => s!"jmp {b.toNat}" | .jsr o => s!"jsr {showPC o}"
  | .jsrr b => s!"jsrr {b.toNat}" | .ld d o => s!"ld {d.toNat} {showPC o}" | .ldi d o => s!"ldi {d.toNat} {showPC o}"
  | .ldr d b o => s!"ldr {d.toNat} {b.toNat} i{o.toInt}" | .lea d o => s!"lea {d.toNat} {showPC o}"
  | .not d s => s!"not {d.toNat} {s.toNat}" | .ret => "ret" | .rti => "rti"
  | .st s o => s!"st {s.toNat} {showPC o}" | .sti s o => s!"sti {s.toNat} {showPC o}"
  | .str s b o => s!"str {s.toNat} {b.toNat} i{o.toInt}" | .trap v => s!"trap {v.toNat}" | .nop o => s!"nop {showPC o}"
  | .getc => "getc" | .out => "out" | .putc => "putc" | .puts => "puts" | .in_ => "in" | .putsp => "putsp" | .halt => "halt"

def canonDirective : Directive → String
  | .orig a => s!".orig {a.toNat}" | .fill v => s!".fill {showPCU v}" | .blkw n => s!".blkw {n.toNat}"
  | .stringz s => s!".stringz {hexText s}" | .end_ => ".end" | .external l => s!".external {showLabel l}"

def canonStmt (s : Stmt) : String :=
  let ls := ",".intercalate (s.labels.map showLabel)
  let k := match s.nucleus with | .instr i => canonInstr i | .directive d => canonDirective d
  s!"[{ls}] {k} @{s.span.1}..{s.span.2}"

def offErrMsg : OffsetNewErr → String
  | .cannotFitUnsigned n => s!"value is too big for unsigned {n}-bit integer"
  | .cannotFitSigned n => s!"value is too big for signed {n}-bit integer"

def lexErrMsg : LexErr → String
  | .doesNotFitU16 => "numeric token does not fit 16-bit unsigned integer"
  | .doesNotFitI16 => "numeric token does not fit 16-bit signed integer"
  | .invalidHex => "invalid hex literal" | .invalidNumeric => "invalid decimal literal"
  | .invalidHexEmpty => "invalid hex literal" | .invalidDecEmpty => "invalid decimal literal"
  | .unknownIntErr => "could not parse integer" | .unclosedStrLit => "unclosed string literal"
  | .strLitTooBig => "string literal is too large" | .invalidReg => "invalid register"
  | .invalidSymbol => "unrecognized symbol"

def parseErrMsg (e : ParseErr) : String :=
  match e.kind with
  | .offsetNew x => offErrMsg x | .lex x => lexErrMsg x | .parse m => m

def showParse (r : PRes (List Stmt)) : String :=
  match r with
  | .ok ss => s!"ok {ss.length} :: {" || ".intercalate (ss.map canonStmt)}"
  | .error e => s!"err {hexBytes (parseErrMsg e).toUTF8.toList} @{e.span.1}..{e.span.2}"

def cmdParse (args : List String) : String :=
  match args with
  | [h] => match parseText h with
    | some cs => showParse (parseAst cs)
    | none => "bad-utf8"
  | _ => "bad-op"

/-- `print <hex>`: parse, then Display every statement (joined by LF), hex-encoded -/
def cmdPrint (args : List String) : String :=
  match args with
  | [h] => match parseText h with
    | some cs => match parseAst cs with
      | .ok ss => "ok " ++ hexText (("\n".toList).intercalate (ss.map showStmt))
      | .error _ => "err"
    | none => "bad-utf8"
  | _ => "bad-op"

/-- `disasm <whex>`: Display of `disassemble_line(word)` -/
def cmdDisasm (args : List String) : String :=
  match args with
  | [w] => match parseW w with
    | some w => hexText (showStmt (disassembleLine w))
    | none => "bad-op"
  | _ => "bad-op"

end Lc3V.Driver
