/- Driver/Sim.lean — `sim ...` ops of the line protocol on the model (mirror of harness/src/simx.rs). -/
import Lc3V.Model.Sim
import Lc3V.Gen.OsImage
import Lc3V.Driver.Util
namespace Lc3V.Driver
open Lc3V Sim

structure SimCtx where
  sim : Sim
  fill : W
  timedOut : Bool := false

def errKind : SimErr → String
  | .illegalOpcode => "illegal" | .invalidInstrFormat => "format" | .privilegeViolation => "priv"
  | .accessViolation => "acv" | .unresolvedExternal => "unresolved" | .interrupt t => s!"intr:{t}"
  | .strictRegSetUninit => "sreg" | .strictMemSetUninit => "smem" | .strictIOSetUninit => "sio"
  | .strictJmpAddrUninit => "sjmp" | .strictSRAddrUninit => "ssr" | .strictMemAddrUninit => "smaddr"
  | .strictPCCurrUninit => "spccurr" | .strictPCNextUninit => "spcnext" | .strictPSRSetUninit => "spsr"

def resStr : Except SimErr Unit → String
  | .ok _ => "ok"
  | .error e => s!"err:{errKind e}"

def wd (w : Word) : String := s!"{hex16 w.data}/{hex16 w.init}"

def pb (s : String) : Option Bool := if s == "0" then some false else if s == "1" then some true else none

def fnvStep (h : UInt64) (x : UInt64) : UInt64 := (h ^^^ x) * 0x100000001b3
def fnvInit : UInt64 := 0xcbf29ce484222325

def bytesDigest (bs : List UInt8) : String :=
  if bs.length ≤ 48 then "h" ++ hexBytes bs
  else s!"#{bs.length}:{hexN 16 (bs.foldl (fun h b => fnvStep h b.toUInt64) fnvInit).toNat}"

def showFrame (f : Frame) : String :=
  let t := match f.ftype with | .subroutine => "s" | .trap => "t" | .interrupt => "i"
  let fp := match f.fp with | some w => wd w | none => "-"
  s!"{hex16 f.caller}:{hex16 f.callee}:{t}:{fp}:[{";".intercalate (f.args.map wd)}]"

def devAt (s : Sim) (i : Nat) : Option Device := s.dev.devices[i]?

/-- lowest I/O address mapped to the saved stack pointer -/
def sspAddr (s : Sim) : Option W :=
  (s.iregs.filter (fun p => p.2 == .savedSp)).foldl (fun acc p =>
    match acc with
    | none => some p.1
    | some a => if p.1.toNat < a.toNat then some p.1 else some a) none

def kbDigest (s : Sim) : String :=
  match devAt s 1 with
  | some (.keyboard buf _ _) => bytesDigest buf
  | _ => "-"
def dsDigest (s : Sim) : String :=
  match devAt s 2 with
  | some (.display buf _) => bytesDigest buf.toList
  | _ => "-"

def timersDigest (s : Sim) : String :=
  let rec go (i : Nat) (ds : List Device) (acc : String) : String :=
    match ds with
    | [] => acc
    | d :: rest =>
      match d with
      | .timer t => go (i + 1) rest (acc ++ s!" t{i}={t.time}:{if t.enabled then 1 else 0}")
      | _ => go (i + 1) rest acc
  go 0 s.dev.devices.toList ""

/-- candidate addresses whose cell may differ: everything in the access log plus `extra` -/
def changed (before after : Sim) (cands : List W) : List (W × Word) :=
  let sorted := (cands.map (·.toNat)).toArray.qsort (· < ·)
  let cs := (sorted.foldl (fun (acc : List Nat) n => match acc with
    | [] => [n]
    | m :: _ => if m = n then acc else n :: acc) []).reverse
  cs.filterMap (fun n =>
    let a : W := BitVec.ofNat 16 n
    if before.memAt a != after.memAt a then some (a, after.memAt a) else none)

/-- the DIGEST line; performs the saved-SP host read like the harness does -/
def digest (c : SimCtx) (res : String) (before : Option Sim) : SimCtx × String :=
  let s := c.sim
  let logAddrs := s.log.map (·.addr)
  let (sspStr, s, extra) := match sspAddr s with
    | some a =>
      match readMem a Ctx.omnipotent s with
      | (.ok w, s') => (hex16 w.data, { s' with log := s.log }, [a])
      | (.error _, s') => ("?", { s' with log := s.log }, [a])
    | none => ("-", s, [])
  let regs := ",".intercalate ((List.range 8).map (fun i => wd (s.reg (BitVec.ofNat 3 i))))
  let fr := match s.frames with
    | none => "-"
    | some fr =>
      let all := fr.toList.map showFrame
      if all.length ≤ 4 then s!"{all.length}|{"|".intercalate all}"
      else
        let h := all.foldl (fun (h : UInt64) (x : String) => x.toUTF8.foldl (fun h b => fnvStep h b.toUInt64) h) fnvInit
        s!"{all.length}#{hexN 16 h.toNat}|{"|".intercalate (all.drop (all.length - 2))}"
  let chg := match before with
    | none => ""
    | some b =>
      let ch := changed b s (logAddrs ++ extra)
      let shown := (ch.take 12).map (fun (p : W × Word) => s!"{hex16 p.1}:{wd p.2}")
      let more := if ch.length > 12 then [s!"+{ch.length - 12}"] else []
      " chg=" ++ ",".intercalate (shown ++ more)
  let line := s!"{res} pc={hex16 s.pc} psr={hex16 s.psr} r={regs} ssp={sspStr} fn={s.frameNo} fr={fr} ir={s.instrRun} hh={if s.hitHalt then 1 else 0} hb={if s.hitBreakpoint then 1 else 0} pf={hex16 s.prefetchPc} mcr={if s.mcr then 1 else 0}{chg} kb={kbDigest s} ds={dsDigest s}{timersDigest s}"
  ({ c with sim := s }, line)

def parseCtx (t : List String) : Option Ctx :=
  match t with
  | [p, s, i, tr] => do pure ⟨← pb p, ← pb s, ← pb i, ← pb tr⟩
  | _ => none

def parseCmp (k : String) (v : W) : Option Comparator :=
  match k with
  | "never" => some .never | "lt" => some (.lt v) | "eq" => some (.eq v) | "le" => some (.le v)
  | "gt" => some (.gt v) | "ne" => some (.ne v) | "ge" => some (.ge v) | "always" => some .always
  | _ => none

def parseReg (s : String) : Option Reg :=
  match s.toNat? with
  | some n => if n < 8 then some (BitVec.ofNat 3 n) else none
  | none => none

def parseBp (t : List String) : Option Breakpoint :=
  match t with
  | ["pc", a] => do pure (.pc (← parseW a))
  | ["reg", r, k, v] => do pure (.reg (← parseReg r) (← parseCmp k (← parseW v)))
  | ["mem", a, k, v] => do pure (.mem (← parseW a) (← parseCmp k (← parseW v)))
  | _ => none

def parseCell (c : String) : Option Word :=
  match c.splitOn "/" with
  | [d, i] => do pure ⟨← parseW d, ← parseW i⟩
  | _ => none

def parseIntrTok (tok : String) : Option (Option Interrupt) :=
  if tok == "-" || tok.isEmpty then some none
  else if tok.startsWith "v" then
    match (tok.drop 1).toString.splitOn "p" with
    | [v, p] => match parseHex v, p.toNat? with
      | some v, some p => if v < 256 ∧ p < 256 then some (some (Interrupt.mkVectored (BitVec.ofNat 8 v) p)) else none
      | _, _ => none
    | _ => none
  else if tok.startsWith "x" then
    match (tok.drop 1).toString.toNat? with
    | some t => some (some (.external t))
    | none => none
  else none

def parseList {α} (f : String → Option α) (s : String) (sep : String) : Option (List α) :=
  (s.splitOn sep).foldr (fun x acc => match f x, acc with
    | some a, some l => some (a :: l)
    | _, _ => none) (some [])

def parseBlocks (spec : String) : Option (List (W × List (Option W))) :=
  let blks := (spec.splitOn ";").filter (fun b => !b.isEmpty)
  blks.foldr (fun blk acc =>
    match blk.splitOn ":", acc with
    | [st, ws], some l =>
      match parseW st with
      | some st =>
        let cells := (ws.splitOn ",").filter (fun w => !w.isEmpty)
        let parsed : Option (List (Option W)) := cells.foldr (fun w acc =>
          match acc with
          | none => none
          | some l => if w == "_" then some (none :: l) else match parseW w with
            | some v => some (some v :: l)
            | none => none) (some [])
        match parsed with
        | some p => some ((st, p) :: l)
        | none => none
      | none => none
    | _, _ => none) (some [])

/-- blocks in `BTreeMap` order (by start address; the assembler rejects overlapping blocks) -/
def sortBlocks (bs : List (W × List (Option W))) : List (W × List (Option W)) :=
  (bs.toArray.qsort (fun a b => a.1.toNat < b.1.toNat)).toList

def fuelBig : Nat := 2000000

def setLock (s : Sim) (which : String) (v : Bool) : Option Sim :=
  match which with
  | "kb" => match devAt s 1 with
    | some (.keyboard buf ie _) => some { s with dev := s.dev.setKeyboard (.keyboard buf ie v) }
    | _ => some s
  | "ds" => match devAt s 2 with
    | some (.display buf _) => some { s with dev := s.dev.setDisplay (.display buf v) }
    | _ => some s
  | _ => none

def obsEnc (f : Nat) : Nat := f

def cmdSimCtx (c : SimCtx) (t : List String) : SimCtx × String :=
  let s := c.sim
  let bad := (c, "bad-op")
  match t with
  | "rawmem" :: a :: rest =>
    match parseW a, parseList parseCell (" ".intercalate rest) " " with
    | some a, some cells =>
      let (s, _) := cells.foldl (fun (acc : Sim × W) w => (acc.1.setMem acc.2 w, acc.2 + 1)) (s, a)
      ({ c with sim := s }, "ok")
    | _, _ => bad
  | ["rawreg", r, d, i] =>
    match parseReg r, parseW d, parseW i with
    | some r, some d, some i => ({ c with sim := s.setReg r ⟨d, i⟩ }, "ok")
    | _, _, _ => bad
  | ["setrun", n] =>
    match n.toNat? with
    | some n => if n < 2 ^ 64 then ({ c with sim := { s with instrRun := n } }, "ok") else bad
    | none => bad
  | ["initall"] =>
    let s' := { s with mem := s.mem.map (fun w => ⟨w.data, Word.ALL⟩), regs := s.regs.map (fun w => ⟨w.data, Word.ALL⟩) }
    ({ c with sim := s' }, "ok")
  | ["setpc", v] => match parseW v with
    | some v => ({ c with sim := { s with pc := v } }, "ok")
    | none => bad
  | ["callsub", v] => match parseW v with
    | some v =>
      let (r, s') := callSubroutine v s
      let r' : Except SimErr Unit := match r with | .ok _ => .ok () | .error (.err e) => .error e | .error .halt => .ok ()
      ({ c with sim := s' }, resStr r')
    | none => bad
  | "hostwrite" :: a :: d :: i :: cx =>
    match parseW a, parseW d, parseW i, parseCtx cx with
    | some a, some d, some i, some cx =>
      let (r, s') := writeMem a ⟨d, i⟩ cx s
      let r' : Except SimErr Unit := match r with | .ok _ => .ok () | .error (.err e) => .error e | .error .halt => .ok ()
      ({ c with sim := { s' with log := s.log } }, resStr r')
    | _, _, _, _ => bad
  | "hostread" :: a :: cx =>
    match parseW a, parseCtx cx with
    | some a, some cx =>
      let (r, s') := readMem a cx s
      let out := match r with | .ok w => s!"ok {wd w}" | .error (.err e) => s!"err:{errKind e}" | .error .halt => "err:halt"
      ({ c with sim := { s' with log := s.log } }, out)
    | _, _ => bad
  | ["mmap", a, r] =>
    match parseW a, (match r with | "pc" => some IReg.pc | "psr" => some .psr | "mcr" => some .mcr | "ssp" => some .savedSp | _ => none) with
    | some a, some r =>
      match mmapInternal s a r with
      | (.ok _, s') => ({ c with sim := s' }, "ok")
      | (.error .notInIORange, s') => ({ c with sim := s' }, "err:range")
      | (.error .addrAlreadyMapped, s') => ({ c with sim := s' }, "err:mapped")
    | _, _ => bad
  | ["munmap", a] => match parseW a with
    | some a => let (r, s') := munmapInternal s a; ({ c with sim := s' }, if r then "1" else "0")
    | none => bad
  | ["flags", st, r, i] => match pb st, pb r, pb i with
    | some st, some r, some i => ({ c with sim := { s with flags := { s.flags with strict := st, realTraps := r, ignorePriv := i } } }, "ok")
    | _, _, _ => bad
  | ["dbgframes", d] => match pb d with
    | some d => ({ c with sim := { s with flags := { s.flags with debugFrames := d } } }, "ok")
    | none => bad
  | ["kbset"] => ({ c with sim := { s with dev := s.dev.setKeyboard (.keyboard [] false false) } }, "ok")
  | ["dsset"] => ({ c with sim := { s with dev := s.dev.setDisplay (.display #[] false) } }, "ok")
  | ["kbpush", hx] =>
    match devAt s 1, parseHexBytes hx with
    | some (.keyboard buf ie l), some bs => ({ c with sim := { s with dev := s.dev.setKeyboard (.keyboard (buf ++ bs) ie l) } }, "ok")
    | some (.keyboard ..), none => bad
    | _, _ => (c, "nokb")
  | ["poison", which] =>
    -- a poisoned (but free) buffer lock: the devices recover the guard, nothing changes
    if which = "kb" ∨ which = "ds" then (c, "ok") else bad
  | ["lock", which, v] => match (if v = "2" then some true else pb v) with   -- 2 = shared guard: try_write fails just the same
    | some v => match setLock s which v with
      | some s' => ({ c with sim := s' }, "ok")
      | none => bad
    | none => bad
  | "timer" :: _lo :: _hi :: _incl :: vect :: prio :: en :: _seed :: rest =>
    let smp := match rest with
      | [x] => if x.startsWith "smp=" then parseList (fun y => y.toNat?) (x.drop 4).toString "," else none
      | _ => none
    match parseHex vect, prio.toNat?, pb en, smp with
    | some vect, some prio, some en, some (s0 :: more) =>
      let tm : Timer := { enabled := en, time := s0, vect := BitVec.ofNat 8 vect, prio := prio, samples := more }
      match s.dev.addDevice (.timer tm) [] with
      | (some id, dev') => ({ c with sim := { s with dev := dev' } }, toString id)
      | (none, _) => (c, "fail")
    | _, _, _, _ => bad
  | ["timeren", id, en] => match id.toNat?, pb en with
    | some id, some en => match devAt s id with
      | some (.timer tm) => ({ c with sim := { s with dev := { s.dev with devices := s.dev.devices.setIfInBounds id (.timer { tm with enabled := en }) } } }, "ok")
      | _ => (c, "notimer")
    | _, _ => bad
  | ["intr", sched] => match parseList parseIntrTok sched "," with
    | some sc => match s.dev.addDevice (.intrScript sc) [] with
      | (some id, dev') => ({ c with sim := { s with dev := dev' } }, toString id)
      | (none, _) => (c, "fail")
    | none => bad
  | ["rec", rd, wr, base, ports] =>
    match pb rd, pb wr, parseW base, (if ports == "-" then some [] else parseList parseW ports ",") with
    | some rd, some wr, some base, some ps =>
      match s.dev.addDevice (.recorder rd wr base 0 []) ps with
      | (some id, dev') => ({ c with sim := { s with dev := dev' } }, toString id)
      | (none, _) => (c, "fail")
    | _, _, _, _ => bad
  | ["rec", rd, wr, base, ports, wrap] =>
    -- `wrap`: how the harness hands the device over (w0 = by value, w1 = Arc<Mutex<_>>, w2 = Arc<RwLock<_>>); with the
    -- locks free all three must behave the same
    if wrap = "w0" ∨ wrap = "w1" ∨ wrap = "w2" then
      match pb rd, pb wr, parseW base, (if ports == "-" then some [] else parseList parseW ports ",") with
      | some rd, some wr, some base, some ps =>
        match s.dev.addDevice (.recorder rd wr base 0 []) ps with
        | (some id, dev') => ({ c with sim := { s with dev := dev' } }, toString id)
        | (none, _) => (c, "fail")
      | _, _, _, _ => bad
    else bad
  | ["nulldev", ports] =>
    match (if ports == "-" then some [] else parseList parseW ports ",") with
    | some ps =>
      match s.dev.addDevice .null ps with
      | (some id, dev') => ({ c with sim := { s with dev := dev' } }, toString id)
      | (none, _) => (c, "fail")
    | none => bad
  | ["rmdev", id] => match id.toNat? with
    | some id => ({ c with sim := { s with dev := s.dev.removeDevice id } }, "ok")
    | none => bad
  | ["reclog", id] => match id.toNat? with
    | some id => match devAt s id with
      | some (.recorder _ _ _ _ log) =>
        let sh := log.map (fun e => match e with
          | .read a e => s!"r{hex16 a}{if e then "e" else "n"}"
          | .write a d => s!"w{hex16 a}={hex16 d}"
          | .reset => "reset")
        (c, s!"[{",".intercalate sh}]")
      | _ => (c, "norec")
    | none => bad
  | "bp" :: "add" :: rest => match parseBp rest with
    | some b =>
      if s.breakpoints.contains b then (c, "0")
      else ({ c with sim := { s with breakpoints := b :: s.breakpoints } }, "1")
    | none => bad
  | "bp" :: "rm" :: rest => match parseBp rest with
    | some b =>
      if s.breakpoints.contains b then ({ c with sim := { s with breakpoints := s.breakpoints.filter (· != b) } }, "1")
      else (c, "0")
    | none => bad
  | ["srdef", a, "cc", n] => match parseW a, n.toNat? with
    | some a, some n => ({ c with sim := { s with srDefs := (a, .callingConvention n) :: s.srDefs.filter (fun p => p.1 != a) } }, "ok")
    | _, _ => bad
  | ["srdef", a, "pbr", regs] =>
    match parseW a, (if regs == "-" then some [] else parseList parseReg regs ",") with
    | some a, some rs => ({ c with sim := { s with srDefs := (a, .passByRegister rs) :: s.srDefs.filter (fun p => p.1 != a) } }, "ok")
    | _, _ => bad
  | ["loadraw", spec] => match parseBlocks spec with
    | some bs =>
      let (r, s') := s.loadObj (sortBlocks bs) false
      ({ c with sim := s' }, resStr r)
    | none => bad
  | ["load", spec] => match parseBlocks spec with
    | some bs =>
      let (r, s') := s.loadObj (sortBlocks bs) false
      ({ c with sim := s' }, resStr r)
    | none => bad
  | ["step"] =>
    let (r, s') := s.stepIn
    digest { c with sim := s' } (resStr r) (some s)
  | "run" :: limit :: rest =>
    match limit.toNat? with
    | some limit =>
      let tw : Option Tripwire := match rest with
        | [] => some (.limit s.instrRun limit)
        | [x] => if x.startsWith "mcrat=" then (x.drop 6).toString.toNat?.map (fun k => Tripwire.mcrAt k s.instrRun limit) else none
        | _ => none
      match tw with
      | some tw =>
        match runWhile tw fuelBig s with
        | some (r, s') => digest { c with sim := s' } (resStr r) (some s)
        | none => (c, "nofuel")
      | none => bad
    | none => bad
  | ["runfull"] => match run fuelBig s with
    | some (r, s') => digest { c with sim := s' } (resStr r) (some s)
    | none => (c, "nofuel")
  | ["stepover"] => match stepOver fuelBig s with
    | some (r, s') => digest { c with sim := s' } (resStr r) (some s)
    | none => (c, "nofuel")
  | ["stepout"] => match stepOut fuelBig s with
    | some (r, s') => digest { c with sim := s' } (resStr r) (some s)
    | none => (c, "nofuel")
  | ["reset"] =>
    let s' := s.reset (fun _ => c.fill) Gen.osBlocks
    digest { c with sim := s' } "ok" none
  | ["state"] => digest c "ok" none
  | ["obs", how] =>
    if how != "take" && how != "peek" then bad else
    let v := s.observer.toList
    let parts := v.map (fun p => s!"{hexN 4 p.1}:{p.2}")
    let out := if parts.length ≤ 24 then s!"[{",".intercalate parts}]"
      else s!"#{parts.length}:{hexN 16 (v.foldl (fun h p => fnvStep h (UInt64.ofNat (p.1 * 256 + p.2))) fnvInit).toNat}"
    let s' := if how == "take" then { s with observer := {} } else s
    ({ c with sim := s' }, out)
  | ["memhash", "u"] =>
    let h := (List.range (0xFE00 - 0x3000)).foldl (fun h i =>
      let w := s.memAt (BitVec.ofNat 16 (0x3000 + i))
      fnvStep h (UInt64.ofNat (w.data.toNat * 65536 + w.init.toNat))) fnvInit
    (c, hexN 16 h.toNat)
  | ["known"] =>
    let osAddrs : List Nat := Gen.osBlocks.flatMap (fun b => (List.range b.2.length).map (fun i => (b.1.toNat + i) % 65536))
    let bad := (List.range 0xFE00).foldl (fun n a =>
      let w := s.memAt (BitVec.ofNat 16 a)
      if !osAddrs.contains a && !(w.data == c.fill && w.init == 0) then n + 1 else n) 0
    (c, s!"known bad={bad}")
  | ["memhash"] =>
    let h := s.mem.toArray.foldl (fun h w => fnvStep h (UInt64.ofNat (w.data.toNat * 65536 + w.init.toNat))) fnvInit
    (c, hexN 16 h.toNat)
  | ["iregs"] =>
    let v := (s.iregs.toArray.qsort (fun a b => a.1.toNat < b.1.toNat)).toList
    let nm : IReg → String | .pc => "pc" | .psr => "psr" | .mcr => "mcr" | .savedSp => "ssp"
    (c, s!"[{",".intercalate (v.map (fun p => s!"{hex16 p.1}:{nm p.2}"))}]")
  | _ => bad

def cmdSim (slot : Option SimCtx) (t : List String) : Option SimCtx × String :=
  match t with
  | ["newseed", st, r, d, i, _seed] =>
    -- the seeded image itself follows as rawmem/rawreg lines (StdRng is not modelled)
    match pb st, pb r, pb d, pb i with
    | some st, some r, some d, some i =>
      let flags : Flags := { strict := st, realTraps := r, debugFrames := d, ignorePriv := i }
      (some { sim := newSim flags (fun _ => 0) Gen.osBlocks false, fill := 0 }, "ok")
    | _, _, _, _ => (slot, "bad-op")
  | ["new", st, r, d, i, fill] =>
    match pb st, pb r, pb d, pb i, parseW fill with
    | some st, some r, some d, some i, some fill =>
      let flags : Flags := { strict := st, realTraps := r, debugFrames := d, ignorePriv := i }
      (some { sim := newSim flags (fun _ => fill) Gen.osBlocks false, fill := fill }, "ok")
    | _, _, _, _, _ => (slot, "bad-op")
  | _ =>
    match slot with
    | some c => let (c', out) := cmdSimCtx c t; (some c', out)
    | none => (none, "nosim")

end Lc3V.Driver
