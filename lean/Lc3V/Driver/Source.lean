import Lc3V.Model.Source
import Lc3V.Driver.Util
namespace Lc3V.Driver

/-- hex-encoded UTF-8 ("-" = empty) → text -/
def parseText (h : String) : Option (List Char) :=
  if h == "-" then some [] else
  match parseHexBytes h with
  | some bs => (String.fromUTF8? (ByteArray.mk bs.toArray)).map String.toList
  | none => none

def hexText (cs : List Char) : String :=
  if cs.isEmpty then "-" else hexBytes (String.ofList cs).toUTF8.toList

def cmdSrc (slot : Option SourceInfo) (t : List String) : Option SourceInfo × String :=
  match t with
  | ["set", h] => match parseText h with
    | some cs => let si := SourceInfo.ofText cs; (some si, s!"lines={si.countLines}")
    | none => (slot, "bad-utf8")
  | ["line", i] => match slot, i.toNat? with
    | some si, some i => match si.lineSpan i, si.readLine i with
      | some sp, some txt => (slot, s!"span={sp.1}..{sp.2} text={hexText txt}")
      | none, none => (slot, "none")
      | _, _ => (slot, "inconsistent")
    | _, _ => (slot, "bad-op")
  | ["pos", i] => match slot, i.toNat? with
    | some si, some i => let p := si.getPosPair i; (slot, s!"{p.1} {p.2}")
    | _, _ => (slot, "bad-op")
  | _ => (slot, "bad-op")

end Lc3V.Driver
