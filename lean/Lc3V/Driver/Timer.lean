import Lc3V.Model.Dev
import Lc3V.Driver.Util
namespace Lc3V.Driver

def parseSmp (rest : List String) : List Nat :=
  match rest with
  | [x] => if x.startsWith "smp=" then ((x.drop 4).toString.splitOn ",").filterMap (fun y => y.toNat?) else []
  | _ => []

def showTim (t : Timer) (res : String) : String := s!"rem={t.time} en={if t.enabled then 1 else 0} {res}"

def cmdTim (slot : Option Timer) (t : List String) : Option Timer × String :=
  match t with
  | "new" :: _seed :: lo :: hi :: incl :: vect :: prio :: rest =>
    match lo.toNat?, hi.toNat?, parseHex vect, prio.toNat? with
    | some lo, some hi, some vect, some prio =>
      if (incl == "1" && lo > hi) || (incl != "1" && lo ≥ hi) then (slot, "bad-range") else
      let tm : Timer := { enabled := false, time := 0, vect := BitVec.ofNat 8 vect, prio := prio, samples := parseSmp rest }
      let tm := tm.reload
      (some tm, showTim tm "new")
    | _, _, _, _ => (slot, "bad-op")
  | _ =>
    match slot with
    | none => (none, "notimer")
    | some tm =>
      match t with
      | ["en", b] => let tm := { tm with enabled := b == "1" }; (some tm, showTim tm "ok")
      | "poll" :: rest =>
        let tm := { tm with samples := parseSmp rest ++ tm.samples }
        let (tm', i) := tm.poll
        let res := match i with
          | some int => s!"fire p{match int.priority with | some p => p | none => 9}"
          | none => "none"
        (some tm', showTim tm' res)
      | "reset" :: rest => let tm := ({ tm with samples := parseSmp rest ++ tm.samples } : Timer).reload; (some tm, showTim tm "ok")
      | "ioreset" :: rest => let tm := ({ tm with samples := parseSmp rest ++ tm.samples } : Timer).reload; (some tm, showTim tm "ok")
      | ["range", lo, hi, incl] =>
        match lo.toNat?, hi.toNat? with
        | some lo, some hi => if (incl == "1" && lo > hi) || (incl != "1" && lo ≥ hi) then (slot, "bad-range") else (some tm, showTim tm "ok")
        | _, _ => (slot, "bad-op")
      | ["exact", n] => match n.toNat? with
        | some _ => (some tm, showTim tm "ok")
        | none => (slot, "bad-op")
      | _ => (slot, "bad-op")

end Lc3V.Driver
