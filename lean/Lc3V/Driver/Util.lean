/- Driver/Util.lean — parsing/printing helpers for the line protocol (DESIGN §4.6). Not part of the model. -/
import Lc3V.Model.Bits
namespace Lc3V.Driver

def hexDigit (c : Char) : Option Nat :=
  if '0' ≤ c ∧ c ≤ '9' then some (c.toNat - '0'.toNat)
  else if 'a' ≤ c ∧ c ≤ 'f' then some (c.toNat - 'a'.toNat + 10)
  else if 'A' ≤ c ∧ c ≤ 'F' then some (c.toNat - 'A'.toNat + 10)
  else none

def parseHex (s : String) : Option Nat :=
  if s.isEmpty then none else
  s.foldl (fun acc c => match acc, hexDigit c with
    | some a, some d => some (a * 16 + d)
    | _, _ => none) (some 0)

def hexChar (n : Nat) : Char :=
  if n < 10 then Char.ofNat (n + '0'.toNat) else Char.ofNat (n - 10 + 'a'.toNat)

def hexN (digits : Nat) (v : Nat) : String :=
  String.ofList ((List.range digits).reverse.map (fun i => hexChar ((v >>> (4 * i)) % 16)))

def hex16 (v : W) : String := hexN 4 v.toNat

def parseW (s : String) : Option W := (parseHex s).map (BitVec.ofNat 16)

/-- hex-encoded UTF-8 bytes → bytes -/
def parseHexBytes (s : String) : Option (List UInt8) :=
  let rec go : List Char → List UInt8 → Option (List UInt8)
    | [], acc => some acc.reverse
    | [_], _ => none
    | a :: b :: rest, acc =>
      match hexDigit a, hexDigit b with
      | some x, some y => go rest (UInt8.ofNat (x * 16 + y) :: acc)
      | _, _ => none
  go s.toList []

def hexBytes (bs : List UInt8) : String :=
  String.ofList (bs.flatMap (fun b => [hexChar (b.toNat / 16), hexChar (b.toNat % 16)]))

end Lc3V.Driver
