import Lc3V.Model.Word
import Lc3V.Driver.Util
namespace Lc3V.Driver

def showWord (w : Word) : String := s!"{hex16 w.data} {hex16 w.init}"

def cmdWop (args : List String) : String :=
  match args with
  | [op, d1, i1, d2, i2] =>
    match parseW d1, parseW i1, parseW d2, parseW i2 with
    | some d1, some i1, some d2, some i2 =>
      let a : Word := ⟨d1, i1⟩
      let b : Word := ⟨d2, i2⟩
      match op with
      | "add" => showWord (Word.add a b)
      | "sub" => showWord (Word.sub a b)
      | "and" => showWord (Word.and a b)
      | "not" => showWord (Word.not a)
      | _ => "bad-op"
    | _, _, _, _ => "bad-op"
  | _ => "bad-op"

end Lc3V.Driver
