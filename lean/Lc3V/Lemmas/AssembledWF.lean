/- Lemmas/AssembledWF.lean — the object files the assembler produces are well-formed in the sense of the binary round-trip
   theorem (C17): sorted blocks within the field widths, unique label names and relocation addresses, a valid line map. -/
import Lc3V.Lemmas.BinRoundtrip2
import Lc3V.Lemmas.LineInj
import Lc3V.Lemmas.C23Core
import Lc3V.Props.C01
set_option linter.unusedSimpArgs false
set_option linter.unusedVariables false
namespace Lc3V

/-- the label a statement declares: one of its labels, or the operand of `.external` -/
def DeclLabel (s : Stmt) (l : Label) : Prop := l ∈ s.labels ∨ s.nucleus = .directive (.external l)

theorem addLabel_entries (labels labels' : List (Key × SymData)) (l : Label) (addr : W) (ext : Bool)
    (h : addLabel labels l addr ext = .ok labels') :
    ∀ e ∈ labels', e ∈ labels ∨ (e.1 = upperS l.name ∧ e.2.srcStart = l.start) := by
  unfold addLabel at h
  dsimp only at h
  cases hl : lookupKey labels (upperS l.name) with
  | some d =>
    rw [hl] at h
    dsimp only at h
    split at h
    · cases h
    · cases h; exact fun e he => Or.inl he
  | none =>
    rw [hl] at h
    cases h
    intro e he
    rcases List.mem_append.mp he with he | he
    · exact Or.inl he
    · simp only [List.mem_singleton] at he
      subst he
      exact Or.inr ⟨rfl, rfl⟩

theorem addLabels_entries (ls : List Label) (addr : W) : ∀ (labels labels' : List (Key × SymData)), addLabels labels ls addr = .ok labels' →
    ∀ e ∈ labels', e ∈ labels ∨ ∃ l ∈ ls, e.1 = upperS l.name ∧ e.2.srcStart = l.start := by
  unfold addLabels
  induction ls with
  | nil => intro labels labels' h e he; simp only [List.foldlM_nil] at h; cases h; exact Or.inl he
  | cons l rest ih =>
    intro labels labels' h e he
    rw [List.foldlM_cons] at h
    cases h1 : addLabel labels l addr false with
    | error x => rw [h1] at h; cases h
    | ok m1 =>
      rw [h1] at h
      rcases ih m1 labels' h e he with h2 | ⟨l', hl', h3⟩
      · rcases addLabel_entries labels m1 l addr false h1 e h2 with h4 | h4
        · exact Or.inl h4
        · exact Or.inr ⟨l, by simp, h4⟩
      · exact Or.inr ⟨l', by simp [hl'], h3⟩

theorem pass1Step_entries (st st' : P1) (s : Stmt) (h : pass1Step st s = .ok st') :
    ∀ e ∈ st'.labels, e ∈ st.labels ∨ ∃ l, DeclLabel s l ∧ e.1 = upperS l.name ∧ e.2.srcStart = l.start := by
  unfold pass1Step at h
  cases h1 : p1Labels st s with
  | error x => rw [h1] at h; cases h
  | ok labels =>
    rw [h1] at h
    dsimp only at h
    cases h2 : p1Special st s labels with
    | error x => rw [h2] at h; cases h
    | ok r =>
      obtain ⟨cursor, labels', rel⟩ := r
      rw [h2] at h
      dsimp only at h
      have hfin : st'.labels = labels' := by
        unfold p1Advance at h
        cases cursor with
        | none => dsimp only at h; injection h with h; rw [← h]
        | some cur =>
          dsimp only at h
          cases hs : cur.shift s.nucleus.wordLen with
          | error k => rw [hs] at h; cases h
          | ok c' => rw [hs] at h; dsimp only at h; injection h with h; rw [← h]
      rw [hfin]
      -- labels: from `p1Labels`
      have hA : ∀ e ∈ labels, e ∈ st.labels ∨ ∃ l ∈ s.labels, e.1 = upperS l.name ∧ e.2.srcStart = l.start := by
        unfold p1Labels at h1
        by_cases he : s.labels.isEmpty = true
        · simp only [he, if_true] at h1; cases h1; exact fun e he => Or.inl he
        · simp only [he, Bool.false_eq_true, if_false] at h1
          cases hc : st.cursor with
          | none => rw [hc] at h1; cases h1
          | some cur => rw [hc] at h1; exact addLabels_entries s.labels cur.lc st.labels labels h1
      -- labels': from `p1Special`
      have hB : ∀ e ∈ labels', e ∈ labels ∨ ∃ l, s.nucleus = .directive (.external l) ∧ e.1 = upperS l.name ∧ e.2.srcStart = l.start := by
        unfold p1Special at h2
        cases hn : s.nucleus with
        | instr i => rw [hn] at h2; cases h2; exact fun e he => Or.inl he
        | directive d =>
          rw [hn] at h2
          cases d with
          | orig a =>
            dsimp only at h2
            cases hc : st.cursor with
            | some c0 => rw [hc] at h2; cases h2
            | none => rw [hc] at h2; cases h2; exact fun e he => Or.inl he
          | end_ =>
            dsimp only at h2
            cases hc : st.cursor with
            | some c0 => rw [hc] at h2; cases h2; exact fun e he => Or.inl he
            | none => rw [hc] at h2; cases h2
          | external l =>
            dsimp only at h2
            cases ha : addLabel labels l 0 true with
            | error x => rw [ha] at h2; cases h2
            | ok m2 =>
              rw [ha] at h2
              cases h2
              intro e he
              rcases addLabel_entries labels labels' l 0 true ha e he with h4 | h4
              · exact Or.inl h4
              · exact Or.inr ⟨l, rfl, h4⟩
          | fill v =>
            cases v with
            | off x => cases h2; exact fun e he => Or.inl he
            | label l =>
              dsimp only at h2
              split at h2
              · cases h2; exact fun e he => Or.inl he
              · split at h2
                · cases h2
                · cases h2; exact fun e he => Or.inl he
          | blkw n => cases h2; exact fun e he => Or.inl he
          | stringz x => cases h2; exact fun e he => Or.inl he
      intro e he
      rcases hB e he with h3 | ⟨l, hl, h4⟩
      · rcases hA e h3 with h5 | ⟨l, hl, h6⟩
        · exact Or.inl h5
        · exact Or.inr ⟨l, Or.inl hl, h6⟩
      · exact Or.inr ⟨l, Or.inr hl, h4⟩

theorem addLabels_unique (ls : List Label) (addr : W) : ∀ (labels labels' : List (Key × SymData)), C23.UniqueKeys labels →
    addLabels labels ls addr = .ok labels' → C23.UniqueKeys labels' := by
  unfold addLabels
  induction ls with
  | nil => intro labels labels' hu h; simp only [List.foldlM_nil] at h; cases h; exact hu
  | cons l rest ih =>
    intro labels labels' hu h
    rw [List.foldlM_cons] at h
    cases h1 : addLabel labels l addr false with
    | error x => rw [h1] at h; cases h
    | ok m1 =>
      rw [h1] at h
      exact ih m1 labels' (C23.addLabel_unique labels m1 l addr false hu h1) h

/-- pass 1 keeps the label names unique and the relocation addresses unique -/
theorem pass1Step_unique (st st' : P1) (s : Stmt) (h : pass1Step st s = .ok st') (hu : C23.UniqueKeys st.labels)
    (hr : (st.rel.map (·.1)).Nodup) : C23.UniqueKeys st'.labels ∧ (st'.rel.map (·.1)).Nodup := by
  unfold pass1Step at h
  cases h1 : p1Labels st s with
  | error x => rw [h1] at h; cases h
  | ok labels =>
    rw [h1] at h
    dsimp only at h
    cases h2 : p1Special st s labels with
    | error x => rw [h2] at h; cases h
    | ok r =>
      obtain ⟨cursor, labels', rel⟩ := r
      rw [h2] at h
      dsimp only at h
      have hfin : st'.labels = labels' ∧ st'.rel = rel := by
        unfold p1Advance at h
        cases cursor with
        | none => dsimp only at h; injection h with h; rw [← h]; exact ⟨rfl, rfl⟩
        | some cur =>
          dsimp only at h
          cases hs : cur.shift s.nucleus.wordLen with
          | error k => rw [hs] at h; cases h
          | ok c' => rw [hs] at h; dsimp only at h; injection h with h; rw [← h]; exact ⟨rfl, rfl⟩
      rw [hfin.1, hfin.2]
      have hA : C23.UniqueKeys labels := by
        unfold p1Labels at h1
        by_cases he : s.labels.isEmpty = true
        · simp only [he, if_true] at h1; cases h1; exact hu
        · simp only [he, Bool.false_eq_true, if_false] at h1
          cases hc : st.cursor with
          | none => rw [hc] at h1; cases h1
          | some cur => rw [hc] at h1; exact addLabels_unique s.labels cur.lc st.labels labels hu h1
      have hrel : ∀ (a : W) (k : Key), ((relInsert st.rel a k).map (·.1)).Nodup := by
        intro a k
        unfold relInsert
        split
        · rw [List.map_map]
          have : ((fun e : W × Key => e.1) ∘ fun e => if (e.1 == a) = true then (a, k) else e) = (fun e => e.1) := by
            funext e
            simp only [Function.comp]
            split
            · rename_i he; have : e.1 = a := by simpa using he
              exact this.symm
            · rfl
          rw [this]; exact hr
        · rename_i hany
          rw [List.map_append]
          apply List.nodup_append.mpr
          refine ⟨hr, by simp, ?_⟩
          intro x hx y hy
          simp only [List.map_cons, List.map_nil, List.mem_singleton] at hy
          subst hy
          intro e
          subst e
          apply hany
          obtain ⟨z, hz, hz2⟩ := List.mem_map.mp hx
          exact List.any_eq_true.mpr ⟨z, hz, by simp [hz2]⟩
      unfold p1Special at h2
      cases hn : s.nucleus with
      | instr i => rw [hn] at h2; cases h2; exact ⟨hA, hr⟩
      | directive d =>
        rw [hn] at h2
        cases d with
        | orig a =>
          dsimp only at h2
          cases hc : st.cursor with
          | some c0 => rw [hc] at h2; cases h2
          | none => rw [hc] at h2; cases h2; exact ⟨hA, hr⟩
        | end_ =>
          dsimp only at h2
          cases hc : st.cursor with
          | some c0 => rw [hc] at h2; cases h2; exact ⟨hA, hr⟩
          | none => rw [hc] at h2; cases h2
        | external l =>
          dsimp only at h2
          cases ha : addLabel labels l 0 true with
          | error x => rw [ha] at h2; cases h2
          | ok m2 =>
            rw [ha] at h2
            cases h2
            exact ⟨C23.addLabel_unique labels labels' l 0 true hA ha, hr⟩
        | fill v =>
          cases v with
          | off x => cases h2; exact ⟨hA, hr⟩
          | label l =>
            dsimp only at h2
            split at h2
            · cases h2; exact ⟨hA, hrel _ _⟩
            · split at h2
              · cases h2
              · cases h2; exact ⟨hA, hr⟩
        | blkw n => cases h2; exact ⟨hA, hr⟩
        | stringz x => cases h2; exact ⟨hA, hr⟩

/-- without source text pass 1 records no lines -/
theorem pass1Step_lines_none (st st' : P1) (s : Stmt) (h : pass1Step st s = .ok st') (hl : st.lines = none) : st'.lines = none := by
  unfold pass1Step at h
  cases h1 : p1Labels st s with
  | error x => rw [h1] at h; cases h
  | ok labels =>
    rw [h1] at h
    dsimp only at h
    cases h2 : p1Special st s labels with
    | error x => rw [h2] at h; cases h
    | ok r =>
      obtain ⟨cursor, labels', rel⟩ := r
      rw [h2] at h
      dsimp only at h
      unfold p1Advance at h
      cases cursor with
      | none => dsimp only at h; injection h with h; rw [← h]; exact hl
      | some cur =>
        dsimp only at h
        cases hs : cur.shift s.nucleus.wordLen with
        | error k => rw [hs] at h; cases h
        | ok c' => rw [hs, hl] at h; dsimp only at h; injection h with h; rw [← h]

theorem pass1_fold_lines_none : ∀ (stmts : List Stmt) (st st' : P1), stmts.foldlM pass1Step st = .ok st' → st.lines = none → st'.lines = none := by
  intro stmts
  induction stmts with
  | nil => intro st st' h hl; simp only [List.foldlM_nil] at h; cases h; exact hl
  | cons s rest ih =>
    intro st st' h hl
    rw [List.foldlM_cons] at h
    cases hs : pass1Step st s with
    | error x => rw [hs] at h; cases h
    | ok st1 => rw [hs] at h; exact ih st1 st' h (pass1Step_lines_none st st1 s hs hl)

/-- every label of the program (statement labels and `.external` operands) has a position and a name that fit 64 bits -/
def LabelsBounded (stmts : List Stmt) : Prop :=
  ∀ s ∈ stmts, ∀ l, DeclLabel s l → l.start < 2 ^ 64 ∧ blen (upperS l.name) < 2 ^ 64

/-- the operands of `.fill LABEL` have names that fit 64 bits -/
def FillLabelsBounded (stmts : List Stmt) : Prop :=
  ∀ s ∈ stmts, ∀ l, s.nucleus = .directive (.fill (.label l)) → blen (upperS l.name) < 2 ^ 64

def EntryOk (e : Key × SymData) : Prop := e.2.srcStart < 2 ^ 64 ∧ blen e.1 < 2 ^ 64

theorem pass1_fold_inv : ∀ (stmts : List Stmt) (st st' : P1), stmts.foldlM pass1Step st = .ok st' → LabelsBounded stmts →
    C23.UniqueKeys st.labels → (st.rel.map (·.1)).Nodup → (∀ e ∈ st.labels, EntryOk e) →
    C23.UniqueKeys st'.labels ∧ (st'.rel.map (·.1)).Nodup ∧ (∀ e ∈ st'.labels, EntryOk e) := by
  intro stmts
  induction stmts with
  | nil => intro st st' h _ hu hr he; simp only [List.foldlM_nil] at h; cases h; exact ⟨hu, hr, he⟩
  | cons s rest ih =>
    intro st st' h hb hu hr he
    rw [List.foldlM_cons] at h
    cases hs : pass1Step st s with
    | error x => rw [hs] at h; cases h
    | ok st1 =>
      rw [hs] at h
      obtain ⟨u1, r1⟩ := pass1Step_unique st st1 s hs hu hr
      have e1 : ∀ e ∈ st1.labels, EntryOk e := by
        intro e hm
        rcases pass1Step_entries st st1 s hs e hm with h1 | ⟨l, hl, hk, hstart⟩
        · exact he e h1
        · have := hb s (by simp) l hl
          exact ⟨by rw [hstart]; exact this.1, by rw [hk]; exact this.2⟩
      exact ih st1 st' h (fun x hx => hb x (by simp [hx])) u1 r1 e1

/-- relocation keys come from `.fill LABEL` operands -/
theorem pass1Step_rel_keys (st st' : P1) (s : Stmt) (h : pass1Step st s = .ok st') :
    ∀ e ∈ st'.rel, (∃ e0 ∈ st.rel, e0.2 = e.2) ∨ ∃ l, s.nucleus = .directive (.fill (.label l)) ∧ e.2 = upperS l.name := by
  unfold pass1Step at h
  cases h1 : p1Labels st s with
  | error x => rw [h1] at h; cases h
  | ok labels =>
    rw [h1] at h
    dsimp only at h
    cases h2 : p1Special st s labels with
    | error x => rw [h2] at h; cases h
    | ok r =>
      obtain ⟨cursor, labels', rel⟩ := r
      rw [h2] at h
      dsimp only at h
      have hfin : st'.rel = rel := by
        unfold p1Advance at h
        cases cursor with
        | none => dsimp only at h; injection h with h; rw [← h]
        | some cur =>
          dsimp only at h
          cases hs : cur.shift s.nucleus.wordLen with
          | error k => rw [hs] at h; cases h
          | ok c' => rw [hs] at h; dsimp only at h; injection h with h; rw [← h]
      rw [hfin]
      have same : rel = st.rel → ∀ e ∈ rel, ∃ e0 ∈ st.rel, e0.2 = e.2 := by
        intro hr e he; rw [hr] at he; exact ⟨e, he, rfl⟩
      unfold p1Special at h2
      cases hn : s.nucleus with
      | instr i => rw [hn] at h2; cases h2; exact fun e he => Or.inl (same rfl e he)
      | directive d =>
        rw [hn] at h2
        cases d with
        | orig a =>
          dsimp only at h2
          cases hc : st.cursor with
          | some c0 => rw [hc] at h2; cases h2
          | none => rw [hc] at h2; cases h2; exact fun e he => Or.inl (same rfl e he)
        | end_ =>
          dsimp only at h2
          cases hc : st.cursor with
          | some c0 => rw [hc] at h2; cases h2; exact fun e he => Or.inl (same rfl e he)
          | none => rw [hc] at h2; cases h2
        | external l =>
          dsimp only at h2
          cases ha : addLabel labels l 0 true with
          | error x => rw [ha] at h2; cases h2
          | ok m2 => rw [ha] at h2; cases h2; exact fun e he => Or.inl (same rfl e he)
        | fill v =>
          cases v with
          | off x => cases h2; exact fun e he => Or.inl (same rfl e he)
          | label l =>
            dsimp only at h2
            split at h2
            · cases h2
              intro e he
              unfold relInsert at he
              split at he
              · obtain ⟨e0, he0, hmap⟩ := List.mem_map.mp he
                split at hmap
                · rw [← hmap]; exact Or.inr ⟨l, rfl, rfl⟩
                · rw [← hmap]; exact Or.inl ⟨e0, he0, rfl⟩
              · rcases List.mem_append.mp he with he | he
                · exact Or.inl ⟨e, he, rfl⟩
                · simp only [List.mem_singleton] at he; rw [he]; exact Or.inr ⟨l, rfl, rfl⟩
            · split at h2
              · cases h2
              · cases h2; exact fun e he => Or.inl (same rfl e he)
        | blkw n => cases h2; exact fun e he => Or.inl (same rfl e he)
        | stringz x => cases h2; exact fun e he => Or.inl (same rfl e he)

theorem pass1_fold_rel_keys : ∀ (stmts : List Stmt) (st st' : P1), stmts.foldlM pass1Step st = .ok st' → FillLabelsBounded stmts →
    (∀ e ∈ st.rel, blen e.2 < 2 ^ 64) → ∀ e ∈ st'.rel, blen e.2 < 2 ^ 64 := by
  intro stmts
  induction stmts with
  | nil => intro st st' h _ he; simp only [List.foldlM_nil] at h; cases h; exact he
  | cons s rest ih =>
    intro st st' h hb he
    rw [List.foldlM_cons] at h
    cases hs : pass1Step st s with
    | error x => rw [hs] at h; cases h
    | ok st1 =>
      rw [hs] at h
      refine ih st1 st' h (fun x hx => hb x (by simp [hx])) ?_
      intro e hm
      rcases pass1Step_rel_keys st st1 s hs e hm with ⟨e0, he0, hk⟩ | ⟨l, hl, hk⟩
      · rw [← hk]; exact he e0 he0
      · rw [hk]; exact hb s (by simp) l hl

theorem sortedKeys_of_pairwise {α} : ∀ (l : List (Nat × α)), l.Pairwise (fun x y => x.1 < y.1) → SortedKeys l := by
  intro l
  induction l with
  | nil => intro _; trivial
  | cons x xs ih =>
    intro h
    have hx := List.pairwise_cons.mp h
    cases xs with
    | nil => trivial
    | cons y ys => exact ⟨hx.1 y (by simp), ih hx.2⟩

/-- a block of an accepted program ends below x10000 (the location counter never wraps) -/
theorem block_extent (blks : List Blk) (tail : List Stmt) (src : Option (List Char)) (t : SymTab) (hwf : ∀ b ∈ blks, b.WF)
    (h : pass1 (blks.flatMap Blk.stmts ++ tail) src = .ok t) (b : Blk) (hb : b ∈ blks) : b.a.toNat + natSize b.body < 65536 := by
  obtain ⟨before, after, hsplit⟩ := List.append_of_mem hb
  subst hsplit
  unfold pass1 at h
  cases hf : ((before ++ b :: after).flatMap Blk.stmts ++ tail).foldlM pass1Step (p1Init src) with
  | error e => rw [hf] at h; cases h
  | ok stf =>
    have hre : (before ++ b :: after).flatMap Blk.stmts ++ tail =
        before.flatMap Blk.stmts ++ ((b.gap ++ b.origS :: b.body) ++ (b.endS :: (after.flatMap Blk.stmts ++ tail))) := by
      simp [Blk.stmts]
    rw [hre] at hf
    obtain ⟨s0, h0, h1⟩ := foldlM_append_ok2 _ _ _ _ _ hf
    obtain ⟨s1, h2, _⟩ := foldlM_append_ok2 _ _ _ _ _ h1
    have hc0 := pass1_blocks_cursor before _ s0 (fun x hx => hwf x (by simp [hx])) rfl h0
    obtain ⟨c, _, _, hnat⟩ := pass1_block_cursor b (hwf b (by simp)) b.body [] (by simp) s0 s1 hc0 h2
    have := c.lc.isLt
    omega

/-- **assembled files are well-formed** (assembling without debug symbols): sorted blocks within the 16-bit fields, and — when
    the symbol table is kept (an external label exists) — unique label names, unique relocation addresses and fields that fit.
    Hypotheses: string literals below 64 K and label positions / names that fit 64 bits (parser and lexer guarantee both). -/
theorem assembled_wf_nodebug (stmts : List Stmt) (obj : ObjFile) (h : assemble stmts none = .ok obj)
    (hstr : ∀ s ∈ stmts, ∀ x, s.nucleus = .directive (.stringz x) → blen x + 1 < 65536)
    (hlab : LabelsBounded stmts) (hfill : FillLabelsBounded stmts) : Bin.WF obj := by
  obtain ⟨blks, tail, t, hprog, hwf, hp1, _, hsorted, _, hmem⟩ := C01.assembled_image_any stmts none obj h
  subst hprog
  have hsym : obj.sym = if t.labels.any (fun e => e.2.ext) then some t else none := by
    unfold assemble at h
    rw [hp1] at h
    dsimp only at h
    unfold pass2 at h
    cases hf : (blks.flatMap Blk.stmts ++ tail).foldlM (pass2Step t) ⟨[], none⟩ with
    | error e => rw [hf] at h; cases h
    | ok st => rw [hf] at h; cases h; simp only [Option.isSome_none, Bool.false_or]
  refine ⟨sortedKeys_of_pairwise _ hsorted, fun e he => ?_, fun t' ht' => ?_⟩
  · obtain ⟨b, hb, ws, hw, _, rfl⟩ := hmem e he
    have hext := block_extent blks tail none t hwf hp1 b hb
    have hss : ShortStrings b.body := by
      intro s hs x hx
      refine hstr s ?_ x hx
      apply List.mem_append_left
      apply List.mem_flatMap.mpr
      exact ⟨b, hb, by unfold Blk.stmts; simp [hs]⟩
    have hl := bodyWords_length t b.body b.a ws hw hss
    simp only
    have := b.a.isLt
    omega
  · rw [hsym] at ht'
    by_cases hany : t.labels.any (fun e => e.2.ext) = true
    · simp only [hany, if_true, Option.some.injEq] at ht'
      subst ht'
      unfold pass1 at hp1
      cases hf : (blks.flatMap Blk.stmts ++ tail).foldlM pass1Step (p1Init none) with
      | error e => rw [hf] at hp1; cases hp1
      | ok st =>
        rw [hf] at hp1
        dsimp only at hp1
        obtain ⟨hu, hr, he⟩ := pass1_fold_inv _ _ st hf hlab (by simp [C23.UniqueKeys, p1Init]) (by simp [p1Init]) (fun e he => by simp [p1Init] at he)
        have hrk := pass1_fold_rel_keys _ _ st hf hfill (fun e he => by simp [p1Init] at he)
        unfold p1Finish at hp1
        cases hc : st.cursor with
        | some c => rw [hc] at hp1; cases hp1
        | none =>
          rw [hc] at hp1
          dsimp only at hp1
          have hlines : st.lines = none := by
            have := pass1_fold_lines_none _ _ st hf rfl
            exact this
          rw [hlines] at hp1
          injection hp1 with hp1
          subst hp1
          refine ⟨hu, fun e he' => he e he', ?_, fun e he' => hrk e (List.mem_filter.mp he').1, (fun d hd => by cases hd), Or.inl ?_⟩
          · exact List.Nodup.sublist (List.Sublist.map _ List.filter_sublist) hr
          · intro hnil
            have hnil' : st.labels = [] := hnil
            simp only at hany
            rw [hnil'] at hany
            simp at hany
    · simp only [hany, Bool.false_eq_true, if_false] at ht'
      cases ht'

end Lc3V
