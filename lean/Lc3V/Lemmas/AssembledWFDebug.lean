/- Lemmas/AssembledWFDebug.lean — files assembled with debug symbols are well-formed too (C17): the line map is strictly
   ascending inside each block because `lookup_line` is injective (C24). -/
import Lc3V.Lemmas.AssembledWF
import Lc3V.Lemmas.C24Core
import Lc3V.Props.C25
set_option linter.unusedSimpArgs false
set_option linter.unusedVariables false
namespace Lc3V
open Bin

theorem strictAsc_of_pointwise : ∀ (l : List W), (∀ i (h : i + 1 < l.length), (l[i]'(by omega)).toNat < (l[i + 1]'h).toNat) → strictAsc l = true := by
  intro l
  induction l with
  | nil => intro _; rfl
  | cons a rest ih =>
    intro h
    cases rest with
    | nil => rfl
    | cons b r2 =>
      simp only [strictAsc, Bool.and_eq_true, decide_eq_true_eq]
      refine ⟨by simpa using h 0 (by simp), ih (fun i hi => ?_)⟩
      have := h (i + 1) (by simp only [List.length_cons] at hi ⊢; omega)
      simpa using this

theorem sortedLE_pointwise : ∀ (l : List W), sortedLE l = true → ∀ i (h : i + 1 < l.length), (l[i]'(by omega)).toNat ≤ (l[i + 1]'h).toNat := by
  intro l
  induction l with
  | nil => intro _ i h; simp at h
  | cons a rest ih =>
    intro hs i h
    cases rest with
    | nil => simp at h
    | cons b r2 =>
      simp only [sortedLE, Bool.and_eq_true, decide_eq_true_eq] at hs
      cases i with
      | zero => simpa using hs.1
      | succ j =>
        have := ih hs.2 j (by simp only [List.length_cons] at h ⊢; omega)
        simpa using this

/-- a strictly ascending list of 16-bit values all at most `N` has at most `N + 1` elements -/
theorem strictAsc_length : ∀ (l : List W) (lo N : Nat), strictAsc l = true → (∀ x ∈ l, lo ≤ x.toNat ∧ x.toNat ≤ N) → l.length ≤ N + 1 - lo := by
  intro l
  induction l with
  | nil => intro lo N _ _; simp
  | cons a rest ih =>
    intro lo N hs hb
    cases rest with
    | nil => have := hb a (by simp); simp; omega
    | cons b r2 =>
      simp only [strictAsc, Bool.and_eq_true, decide_eq_true_eq] at hs
      have ha := hb a (by simp)
      have := ih (a.toNat + 1) N hs.2 (fun x hx => ?_)
      · simp only [List.length_cons] at this ⊢; omega
      · have hbx := hb x (by simp [hx])
        refine ⟨?_, hbx.2⟩
        -- every later element is above `a`
        have hgt : ∀ (l : List W) (y : W), strictAsc (y :: l) = true → ∀ z ∈ l, y.toNat < z.toNat := by
          intro l
          induction l with
          | nil => intro y _ z hz; cases hz
          | cons c cs ihc =>
            intro y hy z hz
            simp only [strictAsc, Bool.and_eq_true, decide_eq_true_eq] at hy
            rcases List.mem_cons.mp hz with rfl | hz
            · exact hy.1
            · have := ihc c hy.2 z hz; omega
        have := hgt (b :: r2) a (by simp only [strictAsc, Bool.and_eq_true, decide_eq_true_eq]; exact hs) x hx
        omega

theorem LinesFrom.lt (si : SourceInfo) (N : Nat) : ∀ (stmts : List Stmt) (L : Nat), LinesFrom si N L stmts → ∀ s ∈ stmts, si.getLine s.span.1 < N := by
  intro stmts
  induction stmts with
  | nil => intro _ _ s hs; cases hs
  | cons x rest ih =>
    intro L h s hs
    rcases List.mem_cons.mp hs with rfl | hs
    · exact h.2.1
    · exact ih _ h.2.2 s hs

theorem count_nl_le_blen (cs : List Char) : cs.count '\n' ≤ blen cs := by
  induction cs with
  | nil => simp [blen]
  | cons c r ih =>
    have := c.utf8Size_pos
    simp only [List.count_cons, blen]
    split <;> omega

theorem mem_recsAll_bound (si : SourceInfo) (blks : List Blk) (hsz : ∀ b ∈ blks, Sized b.body) (p : Nat × Nat) (hp : p ∈ recsAll si blks) :
    ∃ b ∈ blks, p.2 < b.a.toNat + natSize b.body := by
  unfold recsAll at hp
  obtain ⟨b, hb, hpb⟩ := List.mem_flatMap.mp hp
  exact ⟨b, hb, ((recsBody_range si b.body b.a.toNat (hsz b hb)).1 p hpb).2⟩

/-- **files assembled with debug symbols are well-formed** (statements on increasing lines, every statement that gets a line
    entry at least one word long, string literals below 64 K, label positions/names and the source within 64 bits — all
    guaranteed for parser output) -/
theorem assembled_wf_debug (stmts : List Stmt) (src : List Char) (obj : ObjFile) (h : assemble stmts (some src) = .ok obj)
    (hstr : ∀ s ∈ stmts, ∀ x, s.nucleus = .directive (.stringz x) → blen x + 1 < 65536)
    (hlab : LabelsBounded stmts) (hfill : FillLabelsBounded stmts)
    (hsized : ∀ s ∈ stmts, noLine s.nucleus = false → 1 ≤ s.nucleus.wordLen.toNat)
    (hl : LinesFrom (SourceInfo.ofText src) (SourceInfo.ofText src).countLines 0 stmts) (hsrc : blen src < 2 ^ 64) : Bin.WF obj := by
  obtain ⟨blks, tail, t, hprog, hwf, hp1, hexts, hsorted, hall, hmem⟩ := C01.assembled_image_any stmts (some src) obj h
  subst hprog
  have htail : ∀ s ∈ tail, isOrigEnd s.nucleus = false := by
    intro s hs
    have := hexts.2 s hs
    cases hn : s.nucleus with
    | instr i => rfl
    | directive d => rw [hn] at this; cases d <;> first | rfl | cases this
  -- pass 2 succeeded: blocks do not overlap; the symbol table is kept
  have hp2 : ∃ st, (blks.flatMap Blk.stmts ++ tail).foldlM (pass2Step t) ⟨[], none⟩ = .ok st ∧ obj.sym = some t := by
    unfold assemble at h
    rw [hp1] at h
    dsimp only at h
    unfold pass2 at h
    cases hf : (blks.flatMap Blk.stmts ++ tail).foldlM (pass2Step t) ⟨[], none⟩ with
    | error e => rw [hf] at h; cases h
    | ok st => rw [hf] at h; cases h; exact ⟨st, rfl, by simp⟩
  obtain ⟨st2, hf2, hsym⟩ := hp2
  have hclear := (pass2_accepted_clear t blks [] tail st2 hwf htail ⟨List.Pairwise.nil, fun x hx => by cases hx⟩ hf2).1
  have hws : ∀ b ∈ blks, ∃ ws, bodyWords t b.a b.body = .ok ws := fun b hb => let ⟨ws, hw, _⟩ := hall b hb; ⟨ws, hw⟩
  have hmemstmt : ∀ b ∈ blks, ∀ s ∈ b.body, s ∈ blks.flatMap Blk.stmts ++ tail := by
    intro b hb s hs
    apply List.mem_append_left
    exact List.mem_flatMap.mpr ⟨b, hb, by unfold Blk.stmts; simp [hs]⟩
  have hsz : ∀ b ∈ blks, Sized b.body := fun b hb s hs hn => hsized s (hmemstmt b hb s hs) hn
  have hss : ∀ b ∈ blks, ShortStrings b.body := fun b hb s hs x hx => hstr s (hmemstmt b hb s hs) x hx
  have hinj := lookup_line_injective blks tail src t hwf htail hp1 hl hws hclear hsz hss
  refine ⟨sortedKeys_of_pairwise _ hsorted, fun e he => ?_, fun t' ht' => ?_⟩
  · obtain ⟨b, hb, ws, hw, _, rfl⟩ := hmem e he
    have hext := block_extent blks tail (some src) t hwf hp1 b hb
    have hlen := bodyWords_length t b.body b.a ws hw (hss b hb)
    simp only
    have := b.a.isLt
    omega
  · rw [hsym] at ht'
    cases ht'
    obtain ⟨lsf, stf, hf, _, hv, hnone, m, hm, hch, hsle⟩ := final_vector _ src t hp1 hl
    obtain ⟨hu, hr, he⟩ := pass1_fold_inv _ _ stf hf hlab (by simp [C23.UniqueKeys, p1Init]) (by simp [p1Init]) (fun e he => by simp [p1Init] at he)
    have hrk := pass1_fold_rel_keys _ _ stf hf hfill (fun e he => by simp [p1Init] at he)
    -- the final table's labels and relocation entries
    have hfin : t.labels = stf.labels ∧ ∀ e ∈ t.rel, e ∈ stf.rel := by
      unfold pass1 at hp1
      rw [hf] at hp1
      dsimp only at hp1
      unfold p1Finish at hp1
      cases hc : stf.cursor with
      | some c => rw [hc] at hp1; cases hp1
      | none =>
        rw [hc] at hp1
        dsimp only at hp1
        injection hp1 with hp1
        rw [← hp1]
        exact ⟨rfl, fun e he => (List.mem_filter.mp he).1⟩
    have hrelnodup : (t.rel.map (·.1)).Nodup := by
      unfold pass1 at hp1
      rw [hf] at hp1
      dsimp only at hp1
      unfold p1Finish at hp1
      cases hc : stf.cursor with
      | some c => rw [hc] at hp1; cases hp1
      | none =>
        rw [hc] at hp1
        dsimp only at hp1
        injection hp1 with hp1
        rw [← hp1]
        exact List.Nodup.sublist (List.Sublist.map _ List.filter_sublist) hr
    have hget : ∀ k, t.lookupLine k = m.get k := by intro k; simp [SymTab.lookupLine, hm]
    have hno := chained_notOverlapping m 0 hch
    have hne := C24.nonEmpty_of_chained m 0 hch
    refine ⟨by rw [hfin.1]; exact hu, fun e he' => he e (by rw [← hfin.1]; exact he'), hrelnodup,
      fun e he' => hrk e (hfin.2 e he'), fun d hd => ?_, Or.inr (by rw [hm]; rfl)⟩
    rw [hm] at hd
    cases hd
    refine ⟨(chained_sorted m 0 hch).1, hno, fun e hem => ?_, rfl, hsrc⟩
    obtain ⟨st, bl⟩ := e
    have hgetm : ∀ i (hi : i < bl.length), t.lookupLine (st + i) = some bl[i] := by
      intro i hi
      rw [hget]
      exact C24.get_of_mem m hno hne st bl hem i hi
    -- strictly ascending
    have hstrict : strictAsc bl = true := by
      apply strictAsc_of_pointwise
      intro i hi
      have hle := sortedLE_pointwise bl (hsle (st, bl) hem) i hi
      have hneq : bl[i]'(by omega) ≠ bl[i + 1]'hi := by
        intro e
        have h1 := hgetm i (by omega)
        have h2 := hgetm (i + 1) hi
        rw [← e] at h2
        have := hinj _ _ _ h1 h2
        omega
      have : (bl[i]'(by omega)).toNat ≠ (bl[i + 1]'hi).toNat := fun e => hneq (BitVec.eq_of_toNat_eq e)
      omega
    -- values below 65535
    have hval : ∀ x ∈ bl, 0 ≤ x.toNat ∧ x.toNat ≤ 65534 := by
      intro x hx
      obtain ⟨i, hi, hxi⟩ := List.mem_iff_getElem.mp hx
      have hlook := hgetm i hi
      rw [hxi] at hlook
      have hev := lookup_is_event _ src t hp1 hl _ x hlook
      have hrec := evsFold_blocks (SourceInfo.ofText src) blks tail _ stf hwf htail rfl hf
      have hmemr : evNat (st + i, x) ∈ recsAll (SourceInfo.ofText src) blks := by rw [← hrec]; exact List.mem_map_of_mem hev
      obtain ⟨b, hb, hlt⟩ := mem_recsAll_bound _ blks hsz _ hmemr
      have hext := block_extent blks tail (some src) t hwf hp1 b hb
      simp only [evNat] at hlt
      omega
    have hlenb := strictAsc_length bl 0 65534 hstrict hval
    refine ⟨?_, by simp only; omega, hstrict⟩
    -- the block's first line is a line of the source
    have hbne : bl ≠ [] := hne (st, bl) hem
    have hpos : 0 < bl.length := List.length_pos_iff.mpr hbne
    have hl0 := hgetm 0 hpos
    simp only [Nat.add_zero] at hl0
    have hex : ∃ x ∈ blks.flatMap Blk.stmts ++ tail, (SourceInfo.ofText src).getLine x.span.1 = st := by
      apply Classical.byContradiction
      intro hno'
      have := hnone st (fun x hx e => hno' ⟨x, hx, e⟩)
      rw [← hv st, hl0] at this
      cases this
    obtain ⟨x, hx, hlx⟩ := hex
    have hlt := LinesFrom.lt _ _ _ 0 hl x hx
    rw [hlx] at hlt
    have hcl : (SourceInfo.ofText src).countLines ≤ blen src + 1 := by
      have : (SourceInfo.ofText src).countLines = src.count '\n' + 1 := Lc3V.C25.count_lines src
      rw [this]
      have := count_nl_le_blen src
      omega
    simp only
    omega

end Lc3V
