/- Lemmas/BinLink.lean — well-formedness for the BINARY format of linked files (C17).  `BExtra`: name lengths, line blocks
   and source size within the field widths; `binWF_of`: `TOk` (Lemmas/TxtLink) and `BExtra` give `Bin.WF`; `link_bExtra`: `link`
   keeps `BExtra`; `source_bExtra`: every file assembled from source has it; `binary_roundtrip_assembled_or_linked`. -/
import Lc3V.Lemmas.TxtLink
set_option linter.unusedSimpArgs false
set_option linter.unusedVariables false
namespace Lc3V
open Txt C20

/-- size in bytes (plus one) of the source behind a symbol table's debug symbols -/
def db (t : SymTab) : Nat := match t.debug with | some d => blen d.src.src + 1 | none => 0

/-- what the binary format needs beyond `TOk`: name lengths, line blocks and source size within the field widths -/
structure BExtra (t : SymTab) : Prop where
  keyFit : ∀ e ∈ t.labels, blen e.1 < 2 ^ 64
  relFit : ∀ e ∈ t.rel, blen e.2 < 2 ^ 64
  blk : ∀ d, t.debug = some d → (∀ e ∈ d.lineMap, e.2.length < 65536 ∧ Bin.strictAsc e.2 = true) ∧ blen d.src.src < 2 ^ 64

theorem pairwise_keys_nodup (l : List (Key × SymData)) (h : l.Pairwise (fun x y => (x.1 == y.1) = false)) : (l.map (·.1)).Nodup := by
  apply List.pairwise_map.mpr
  exact h.imp (fun hne => by simpa using hne)

theorem pairwise_addr_nodup (l : List (W × Key)) (h : l.Pairwise (fun x y => x.1 ≠ y.1)) : (l.map (·.1)).Nodup :=
  List.pairwise_map.mpr h

/-- `TOk` and `BExtra` make a file well-formed for the binary format -/
theorem binWF_of (o : ObjFile) (t : SymTab) (h : TOk o t) (hx : BExtra t) : Bin.WF o := by
  refine ⟨h.wf.sorted, fun b hb => by have := h.blocks.2 b hb; omega, fun t' ht' => ?_⟩
  rw [h.sym] at ht'; cases ht'
  refine ⟨pairwise_keys_nodup _ h.core.ukeys, fun e he => ⟨h.core.srcFit e he, hx.keyFit e he⟩,
    pairwise_addr_nodup _ h.core.urel, hx.relFit, fun d hd => ?_, ?_⟩
  · rcases h.dbg with ⟨hn, _⟩ | ⟨d', hd', hdok⟩
    · rw [hn] at hd; cases hd
    · rw [hd] at hd'; cases hd'
      obtain ⟨ls, hlen, he, ha, hm⟩ := hdok.vec
      obtain ⟨m, _, _, hr, hc⟩ := lineMap_new_spec ls he ha
      have hmm : d.lineMap = m := by rw [hm, hr]
      obtain ⟨hb1, hb2⟩ := hx.blk d hd
      refine ⟨by rw [hmm]; exact (chained_sorted _ _ hc).1, by rw [hmm]; exact chained_notOverlapping _ _ hc, fun e he' => ?_, hdok.src, hb2⟩
      have h1 := runs_bound ls 0 none (by simp) e (by rw [← hm]; exact he')
      have := hdok.lines
      have hne := chained_nonempty _ _ hc e (by rw [← hmm]; exact he')
      have : 0 < e.2.length := List.length_pos_iff.mpr hne
      rw [hlen] at h1
      exact ⟨by omega, (hb1 e he').1, (hb1 e he').2⟩
  · rcases h.dbg with ⟨_, hne⟩ | ⟨d', hd', _⟩
    · exact Or.inl hne
    · exact Or.inr (by rw [hd']; rfl)

end Lc3V

namespace Lc3V
open Txt C20

/-- `link` keeps `BExtra` (when both files carry debug symbols the two sources and the separating line feed fit 2^64 bytes) -/
theorem link_bExtra (a b r : ObjFile) (ta tb : SymTab) (ha : TOk a ta) (hb : TOk b tb) (xa : BExtra ta) (xb : BExtra tb)
    (hfit : db ta + db tb ≤ 2 ^ 64) (h : ObjFile.link a b = .ok r) (tr : SymTab) (hsr : r.sym = some tr) :
    BExtra tr ∧ db tr = db ta + db tb := by
  obtain ⟨tr', hsr', S⟩ := link_spec a b r ta tb ha.sym hb.sym ha.wf hb.wf h
  rw [hsr] at hsr'; cases hsr'
  obtain ⟨B, st, hbl, hf, hr⟩ := link_inv a b r ta tb ha.sym hb.sym h
  have htr : tr = ⟨st.labels, st.rel, linkDebug ta tb⟩ := by
    rw [hr] at hsr; simp only [Option.some.injEq] at hsr; exact hsr.symm
  obtain ⟨p1, p2, _⟩ := linkFold_pointwise (shiftBy (linkShift ta tb)) (fun _ => rfl) tb.labels _ st hb.core.ukeys hf
  simp only at p1 p2
  have hu : st.labels.Pairwise (fun x y => (x.1 == y.1) = false) :=
    linkFold_unique (shiftBy (linkShift ta tb)) tb.labels _ st hf ha.core.ukeys
  have hkey : ∀ x ∈ st.labels, blen x.1 < 2 ^ 64 := by
    intro x hx
    have hl := lookupKey_of_mem_pw st.labels hu x hx
    by_cases hex : ∃ e ∈ tb.labels, (e.1 == x.1) = true
    · obtain ⟨e, he, hk⟩ := hex
      have hk' : e.1 = x.1 := by simpa using hk
      rw [← hk']; exact xb.keyFit e he
    · have hno : ∀ e ∈ tb.labels, (e.1 == x.1) = false := by
        intro e he
        cases hk : (e.1 == x.1) with
        | false => rfl
        | true => exact absurd ⟨e, he, hk⟩ hex
      have h1 := p1 x.1 hno
      rw [hl] at h1
      exact xa.keyFit _ (lookupKey_some_mem ta.labels x.1 x.2 h1.symm)
  have hrel : ∀ e ∈ st.rel, blen e.2 < 2 ^ 64 := by
    intro e he
    have hp := (S.pending e.1 e.2).mp (by rw [htr]; exact he)
    rcases hp.1 with hm | hm
    · exact xa.relFit _ hm
    · exact xb.relFit _ hm
  rw [htr]
  rcases ha.dbg with ⟨han, _⟩ | ⟨da, had, hda⟩
  · rcases hb.dbg with ⟨hbn, _⟩ | ⟨db', hbd, hdb⟩
    · refine ⟨⟨hkey, hrel, fun d hd => ?_⟩, by simp [db, linkDebug, han, hbn]⟩
      simp [linkDebug, han, hbn] at hd
    · refine ⟨⟨hkey, hrel, fun d hd => ?_⟩, by simp [db, linkDebug, han, hbd]⟩
      simp only [linkDebug, han, hbd, Option.some.injEq] at hd
      subst hd; exact xb.blk _ hbd
  · rcases hb.dbg with ⟨hbn, _⟩ | ⟨db', hbd, hdb⟩
    · refine ⟨⟨hkey, hrel, fun d hd => ?_⟩, by simp [db, linkDebug, had, hbn]⟩
      simp only [linkDebug, had, hbn, Option.some.injEq] at hd
      subst hd; exact xa.blk _ had
    · have hsz : blen (DebugSyms.link da db').src.src = blen da.src.src + 1 + blen db'.src.src := by
        have : (DebugSyms.link da db').src.src = da.src.src ++ '\n' :: db'.src.src := rfl
        have hnl : ('\n' : Char).utf8Size = 1 := by decide
        rw [this, blen_append]; simp only [blen, hnl]; omega
      refine ⟨⟨hkey, hrel, fun d hd => ?_⟩, by simp only [db, linkDebug, had, hbd]; rw [hsz]; omega⟩
      simp only [linkDebug, had, hbd, Option.some.injEq] at hd
      subst hd
      -- the merged line map: A's blocks followed by B's re-keyed blocks
      obtain ⟨lsa, hla, hea, haa, hma⟩ := hda.vec
      obtain ⟨lsb, hlb, heb, hab, hmb⟩ := hdb.vec
      obtain ⟨ma, _, _, hra, hca⟩ := lineMap_new_spec lsa hea haa
      obtain ⟨mb, _, _, hrb, hcb⟩ := lineMap_new_spec lsb heb hab
      have hNa : 0 < da.src.countLines := by rw [hda.src]; exact countLines_pos _
      have hsb : SortedKeys db'.lineMap := by rw [hmb, ← hrb]; exact (chained_sorted _ _ hcb).1
      have hbound : ∀ (dd : DebugSyms) (ls : List (Option W)) (m : LineMap), ls.length = dd.src.countLines → dd.lineMap = runs ls 0 none →
          m = runs ls 0 none → Chained m 0 → ∀ x ∈ dd.lineMap, x.1 < dd.src.countLines := by
        intro dd ls m hl hm hr hc x hx
        rw [hm] at hx
        have h1 := runs_bound ls 0 none (by simp) x hx
        have h2 := chained_nonempty _ _ (by rw [← hr]; exact hc) x hx
        have : 0 < x.2.length := List.length_pos_iff.mpr h2
        omega
      have hka := hbound da lsa ma hla hma hra hca
      have hkb := hbound db' lsb mb hlb hmb hrb hcb
      have hlines : da.src.countLines + db'.src.countLines ≤ 2 ^ 64 := by
        have h1 : da.src.countLines ≤ blen da.src.src + 1 := by
          rw [hda.src, C25.count_lines]; have := count_nl_le_blen da.src.src; simpa [SourceInfo.ofText] using (by omega : da.src.src.count '\n' + 1 ≤ blen da.src.src + 1)
        have h2 : db'.src.countLines ≤ blen db'.src.src + 1 := by
          rw [hdb.src, C25.count_lines]; have := count_nl_le_blen db'.src.src; simpa [SourceInfo.ofText] using (by omega : db'.src.src.count '\n' + 1 ≤ blen db'.src.src + 1)
        simp only [db, had, hbd] at hfit
        omega
      have hsat : ∀ x ∈ db'.lineMap, x.1 + da.src.countLines ≤ 18446744073709551615 := by
        intro x hx; have := hkb x hx; omega
      have hmap := (C22.link_find da db' hsb hka hsat 0).1
      constructor
      · intro e he
        rw [hmap] at he
        rcases List.mem_append.mp he with he | he
        · exact (xa.blk da had).1 e he
        · obtain ⟨z, hz, rfl⟩ := List.mem_map.mp he
          exact (xb.blk db' hbd).1 z hz
      · rw [hsz]
        simp only [db, had, hbd] at hfit
        omega

end Lc3V

namespace Lc3V
open Txt C20

theorem dl_le_db (o : ObjFile) (t : SymTab) (h : TOk o t) : dl t ≤ db t := by
  rcases h.dbg with ⟨hn, _⟩ | ⟨d, hd, hdok⟩
  · simp [dl, db, hn]
  · simp only [dl, db, hd]
    rw [hdok.src, C25.count_lines]
    have := count_nl_le_blen d.src.src
    simp only [SourceInfo.ofText]
    omega

/-- a file assembled from source meets `BExtra` -/
theorem source_bExtra (src : List Char) (stmts : List Stmt) (dbg : Bool) (o : ObjFile) (hp : parseAst src = .ok stmts)
    (hz : 12 * blen src < 2 ^ 64) (ha : assemble stmts (if dbg then some src else none) = .ok o) (t : SymTab) (hs : o.sym = some t) :
    BExtra t := by
  obtain ⟨hwf, _⟩ := C17.source_roundtrip src stmts dbg o hp hz ha
  have hsym := hwf.symOk t hs
  exact ⟨fun e he => (hsym.labelsFit e he).2, hsym.relFit, fun d hd =>
    ⟨fun e he => ⟨((hsym.debugOk d hd).fit e he).2.1, ((hsym.debugOk d hd).fit e he).2.2⟩, (hsym.debugOk d hd).srcFit⟩⟩

end Lc3V

namespace Lc3V.C20
open Lc3V Txt

theorem LTree.bOk : ∀ (t : LTree) (r : ObjFile), t.FromSource → ((t.leaves.map (fun f => db f.2)).sum ≤ 2 ^ 64) → t.eval = .ok r →
    ∃ tr, TOk r tr ∧ BExtra tr ∧ db tr = (t.leaves.map (fun f => db f.2)).sum
  | .leaf o t, r, ⟨src, stmts, dbg, hp, hz, ha, hs⟩, _, he => by
    simp only [LTree.eval, Except.ok.injEq] at he
    subst he
    exact ⟨t, source_tOk src stmts dbg o hp hz ha t hs, source_bExtra src stmts dbg o hp hz ha t hs, by simp [LTree.leaves]⟩
  | .node l rt, r, ⟨hl', hr'⟩, hsum, he => by
    simp only [LTree.eval] at he
    simp only [LTree.leaves, List.map_append, List.sum_append] at hsum ⊢
    cases hl : l.eval with
    | error e => rw [hl] at he; cases he
    | ok a =>
      rw [hl] at he
      simp only at he
      cases hr : rt.eval with
      | error e => rw [hr] at he; cases he
      | ok b =>
        rw [hr] at he
        simp only at he
        obtain ⟨ta, ha, xa, hda⟩ := LTree.bOk l a hl' (by omega) hl
        obtain ⟨tb, hb, xb, hdb⟩ := LTree.bOk rt b hr' (by omega) hr
        have h1 := dl_le_db a ta ha
        have h2 := dl_le_db b tb hb
        obtain ⟨tr, htr, _⟩ := link_tOk_dl a b r ta tb ha hb (by omega) he
        obtain ⟨xr, hdr⟩ := link_bExtra a b r ta tb ha hb xa xb (by rw [hda, hdb]; exact hsum) he tr htr.sym
        exact ⟨tr, htr, xr, by rw [hdr, hda, hdb]⟩

/-- **C17 as stated**: any object file produced by assembling source texts (with or without debug symbols) and linking the
    results in any order and grouping is well-formed for the binary format and is read back from it unchanged (the sources
    with debug symbols, each with one separating byte, together have at most 2^64 bytes) -/
theorem binary_roundtrip_assembled_or_linked (t : LTree) (r : ObjFile) (hs : t.FromSource)
    (hsize : (t.leaves.map (fun f => db f.2)).sum ≤ 2 ^ 64) (he : t.eval = .ok r) :
    Bin.WF r ∧ Bin.deserialize (Bin.serialize r) = some r := by
  obtain ⟨tr, hok, hx, _⟩ := t.bOk r hs hsize he
  have hwf := binWF_of r tr hok hx
  exact ⟨hwf, Bin.deserialize_serialize r hwf⟩

end Lc3V.C20

