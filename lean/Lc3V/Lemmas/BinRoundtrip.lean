/- Lemmas/BinRoundtrip.lean — reading back every chunk kind of the binary object format. -/
import Lc3V.Model.ObjBin
import Lc3V.Lemmas.SortedMap
set_option linter.unusedSimpArgs false
namespace Lc3V
namespace Bin

theorem le_length (k n : Nat) : (le k n).length = k := by
  induction k generalizing n with
  | zero => rfl
  | succ k ih => simp [le, ih]

theorem unle_le (k n : Nat) (h : n < 256 ^ k) : unle (le k n) = n := by
  induction k generalizing n with
  | zero => simp at h; subst h; rfl
  | succ k ih =>
    simp only [le, unle]
    have hb : (UInt8.ofNat (n % 256)).toNat = n % 256 := by
      simp only [UInt8.toNat_ofNat']; omega
    rw [hb, ih (n / 256) (by rw [Nat.pow_succ] at h; omega)]
    omega

theorem takeN_app (n : Nat) (a b : Bytes) (h : a.length = n) : takeN n (a ++ b) = some (a, b) := by
  subst h; unfold takeN; simp

theorem toBA (l : List UInt8) : (⟨l.toArray⟩ : ByteArray) = l.toByteArray := by
  apply ByteArray.ext; simp

/-- UTF-8 decoding inverts encoding -/
theorem fromUtf8_utf8 (s : List Char) : fromUtf8 (utf8 s) = some s := by
  unfold fromUtf8 utf8
  rw [toBA]
  have hv : (s.flatMap String.utf8EncodeChar).toByteArray.IsValidUTF8 := ⟨s, rfl⟩
  unfold String.fromUTF8?
  rw [dif_pos hv]
  simp only [Option.map_some, Option.some.injEq]
  have : String.fromUTF8 _ hv = String.ofList s := by
    apply String.toByteArray_inj.1
    simp [String.fromUTF8, List.utf8Encode]
  rw [this, String.toList_ofList]

theorem utf8_length (s : List Char) : (utf8 s).length = blen s := by
  induction s with
  | nil => rfl
  | cons c cs ih =>
    simp only [utf8, List.flatMap_cons, List.length_append, String.length_utf8EncodeChar, blen] at ih ⊢
    rw [ih]

theorem wordBytes_length (w : Option W) : (wordBytes w).length = 3 := by
  cases w <;> simp [wordBytes, le]

theorem flatMap_wordBytes_length (ws : List (Option W)) : (ws.flatMap wordBytes).length = 3 * ws.length := by
  induction ws with
  | nil => rfl
  | cons w ws ih => simp only [List.flatMap_cons, List.length_append, wordBytes_length, ih, List.length_cons]; omega

theorem unle2_toNat (w : W) : BitVec.ofNat 16 (unle (le 2 w.toNat)) = w := by
  rw [unle_le 2 w.toNat (by have := w.isLt; omega)]
  apply BitVec.eq_of_toNat_eq
  rw [BitVec.toNat_ofNat]; exact Nat.mod_eq_of_lt w.isLt

theorem chunks3_words (ws : List (Option W)) : chunks3 (ws.flatMap wordBytes) = ws := by
  induction ws with
  | nil => rfl
  | cons w ws ih =>
    cases w with
    | none => simp only [List.flatMap_cons, wordBytes, List.cons_append, List.nil_append, chunks3, ih]; simp
    | some v =>
      have h2 : le 2 v.toNat = [UInt8.ofNat (v.toNat % 256), UInt8.ofNat (v.toNat / 256 % 256)] := rfl
      simp only [List.flatMap_cons, wordBytes, h2, List.cons_append, List.nil_append, chunks3, ih, if_true]
      congr 2
      have := unle2_toNat v
      rw [h2] at this
      exact this

theorem chunks2_words (ws : List W) : chunks2 (ws.flatMap (fun w => le 2 w.toNat)) = ws := by
  induction ws with
  | nil => rfl
  | cons v ws ih =>
    have h2 : le 2 v.toNat = [UInt8.ofNat (v.toNat % 256), UInt8.ofNat (v.toNat / 256 % 256)] := rfl
    simp only [List.flatMap_cons, h2, List.cons_append, List.nil_append, chunks2, ih]
    congr 1
    have := unle2_toNat v
    rw [h2] at this
    exact this

theorem flatMap_le2_length (ws : List W) : (ws.flatMap (fun w => le 2 w.toNat)).length = 2 * ws.length := by
  induction ws with
  | nil => rfl
  | cons w ws ih => simp only [List.flatMap_cons, List.length_append, le_length, ih, List.length_cons]; omega

/-! ### one chunk of each kind, followed by anything -/

theorem read_block (st : RdSt) (b : Nat × List (Option W)) (rest : Bytes) (hs : b.1 < 65536) (hl : b.2.length < 65536) :
    ∃ payload, serBlock b = 0x00 :: payload ∧
      readChunk st 0x00 (payload ++ rest) = some ({ st with blocks := insertSortedBy b.1 b.2 st.blocks }, rest) := by
  refine ⟨le 2 b.1 ++ le 2 b.2.length ++ b.2.flatMap wordBytes, rfl, ?_⟩
  unfold readChunk
  simp only [if_true]
  rw [List.append_assoc, List.append_assoc, takeN_app 2 _ _ (le_length 2 b.1)]
  simp only [Option.bind_eq_bind, Option.bind_some, bind]
  rw [takeN_app 2 _ _ (le_length 2 b.2.length)]
  simp only [Option.bind_some]
  rw [unle_le 2 b.2.length (by omega), takeN_app _ _ _ (flatMap_wordBytes_length b.2)]
  simp only [Option.bind_some, pure, unle_le 2 b.1 (by omega), chunks3_words]

theorem read_label (st : RdSt) (e : Key × SymData) (rest : Bytes) (h1 : e.2.srcStart < 2 ^ 64) (h2 : blen e.1 < 2 ^ 64) :
    ∃ payload, serLabel e = 0x01 :: payload ∧
      readChunk st 0x01 (payload ++ rest) = some ({ st with labels := setOrAppend st.labels e.1 e.2 }, rest) := by
  refine ⟨le 2 e.2.addr.toNat ++ [if e.2.ext then 1 else 0] ++ le 8 e.2.srcStart ++ le 8 (blen e.1) ++ utf8 e.1, rfl, ?_⟩
  unfold readChunk
  simp only [show (0x01 : UInt8) ≠ 0x00 by decide, if_false, if_true]
  simp only [List.append_assoc]
  rw [takeN_app 2 _ _ (le_length 2 _)]
  simp only [Option.bind_eq_bind, Option.bind_some, bind]
  rw [takeN_app 1 _ _ (by simp)]
  simp only [Option.bind_some]
  rw [takeN_app 8 _ _ (le_length 8 _)]
  simp only [Option.bind_some]
  rw [takeN_app 8 _ _ (le_length 8 _)]
  simp only [Option.bind_some]
  rw [unle_le 8 (blen e.1) (by omega), takeN_app _ _ _ (utf8_length e.1)]
  simp only [Option.bind_some, fromUtf8_utf8, pure]
  have ha : BitVec.ofNat 16 (unle (le 2 e.2.addr.toNat)) = e.2.addr := unle2_toNat _
  have hs : unle (le 8 e.2.srcStart) = e.2.srcStart := unle_le 8 _ (by omega)
  have he : (unle [if e.2.ext = true then (1 : UInt8) else 0] != 0) = e.2.ext := by
    cases e.2.ext <;> simp [unle]
  rw [ha, hs, he]

theorem read_lineBlock (st : RdSt) (e : Nat × List W) (rest : Bytes) (h1 : e.1 < 2 ^ 64) (h2 : e.2.length < 65536)
    (h3 : strictAsc e.2 = true) :
    ∃ payload, serLineBlock e = 0x02 :: payload ∧
      readChunk st 0x02 (payload ++ rest) =
        some ({ st with debug := some (setOrAppend (st.debug.getD ([], [])).1 e.1 e.2, (st.debug.getD ([], [])).2) }, rest) := by
  refine ⟨le 8 e.1 ++ le 2 e.2.length ++ e.2.flatMap (fun w => le 2 w.toNat), rfl, ?_⟩
  unfold readChunk
  simp only [show (0x02 : UInt8) ≠ 0x00 by decide, show (0x02 : UInt8) ≠ 0x01 by decide, if_false, if_true]
  simp only [List.append_assoc]
  rw [takeN_app 8 _ _ (le_length 8 _)]
  simp only [Option.bind_eq_bind, Option.bind_some, bind]
  rw [takeN_app 2 _ _ (le_length 2 _)]
  simp only [Option.bind_some]
  rw [unle_le 2 e.2.length (by omega), takeN_app _ _ _ (flatMap_le2_length e.2)]
  simp only [Option.bind_some, chunks2_words, h3, if_true, pure, unle_le 8 e.1 (by omega)]

theorem read_src (st : RdSt) (s : List Char) (rest : Bytes) (h : blen s < 2 ^ 64) :
    ∃ payload, serSrc s = 0x03 :: payload ∧
      readChunk st 0x03 (payload ++ rest) =
        some ({ st with debug := some ((st.debug.getD ([], [])).1, (st.debug.getD ([], [])).2 ++ s) }, rest) := by
  refine ⟨le 8 (blen s) ++ utf8 s, rfl, ?_⟩
  unfold readChunk
  simp only [show (0x03 : UInt8) ≠ 0x00 by decide, show (0x03 : UInt8) ≠ 0x01 by decide, show (0x03 : UInt8) ≠ 0x02 by decide, if_false, if_true]
  simp only [List.append_assoc]
  rw [takeN_app 8 _ _ (le_length 8 _)]
  simp only [Option.bind_eq_bind, Option.bind_some, bind]
  rw [unle_le 8 (blen s) (by omega), takeN_app _ _ _ (utf8_length s)]
  simp only [Option.bind_some, fromUtf8_utf8, pure]

theorem read_rel (st : RdSt) (e : W × Key) (rest : Bytes) (h : blen e.2 < 2 ^ 64) :
    ∃ payload, serRel e = 0x04 :: payload ∧
      readChunk st 0x04 (payload ++ rest) = some ({ st with rel := setOrAppend st.rel e.1 e.2 }, rest) := by
  refine ⟨le 2 e.1.toNat ++ le 8 (blen e.2) ++ utf8 e.2, rfl, ?_⟩
  unfold readChunk
  simp only [show (0x04 : UInt8) ≠ 0x00 by decide, show (0x04 : UInt8) ≠ 0x01 by decide, show (0x04 : UInt8) ≠ 0x02 by decide,
    show (0x04 : UInt8) ≠ 0x03 by decide, if_false, if_true]
  simp only [List.append_assoc]
  rw [takeN_app 2 _ _ (le_length 2 _)]
  simp only [Option.bind_eq_bind, Option.bind_some, bind]
  rw [takeN_app 8 _ _ (le_length 8 _)]
  simp only [Option.bind_some]
  rw [unle_le 8 (blen e.2) (by omega), takeN_app _ _ _ (utf8_length e.2)]
  simp only [Option.bind_some, fromUtf8_utf8, pure, unle2_toNat]

/-! ### a run of chunks of one kind -/

theorem readChunks_nil (fuel : Nat) (st : RdSt) : readChunks fuel st [] = some st := by
  cases fuel <;> simp [readChunks]

/-- reading a run of items each of which is one well-formed chunk: the state is folded over the items, the rest of the
    stream is left, and enough fuel remains for it -/
theorem readChunks_items {α : Type} (ser : α → Bytes) (upd : RdSt → α → RdSt) (ok : α → Prop)
    (hchunk : ∀ (st : RdSt) (x : α) (rest : Bytes), ok x → ∃ id payload, ser x = id :: payload ∧
      readChunk st id (payload ++ rest) = some (upd st x, rest)) :
    ∀ (xs : List α) (st : RdSt) (rest : Bytes) (fuel : Nat), (∀ x ∈ xs, ok x) → (xs.flatMap ser ++ rest).length < fuel →
      ∃ fuel', rest.length < fuel' ∧ readChunks fuel st (xs.flatMap ser ++ rest) = readChunks fuel' (xs.foldl upd st) rest := by
  intro xs
  induction xs with
  | nil => intro st rest fuel _ hf; exact ⟨fuel, by simpa using hf, rfl⟩
  | cons x xs ih =>
    intro st rest fuel hok hf
    obtain ⟨id, payload, hser, hread⟩ := hchunk st x (xs.flatMap ser ++ rest) (hok x (by simp))
    obtain ⟨f, rfl⟩ : ∃ f, fuel = f + 1 := ⟨fuel - 1, by omega⟩
    have e : (x :: xs).flatMap ser ++ rest = id :: (payload ++ (xs.flatMap ser ++ rest)) := by
      simp only [List.flatMap_cons, hser, List.cons_append, List.append_assoc]
    rw [e, readChunks, hread]
    simp only [List.foldl_cons]
    apply ih (upd st x) rest f (fun y hy => hok y (by simp [hy]))
    rw [e] at hf
    simp only [List.length_cons, List.length_append] at hf ⊢
    omega

/-! ### folding the reader state -/

def updBlock (st : RdSt) (b : Nat × List (Option W)) : RdSt := { st with blocks := insertSortedBy b.1 b.2 st.blocks }
def updLabel (st : RdSt) (e : Key × SymData) : RdSt := { st with labels := setOrAppend st.labels e.1 e.2 }
def updLine (st : RdSt) (e : Nat × List W) : RdSt :=
  { st with debug := some (setOrAppend (st.debug.getD ([], [])).1 e.1 e.2, (st.debug.getD ([], [])).2) }
def updSrc (st : RdSt) (s : List Char) : RdSt :=
  { st with debug := some ((st.debug.getD ([], [])).1, (st.debug.getD ([], [])).2 ++ s) }
def updRel (st : RdSt) (e : W × Key) : RdSt := { st with rel := setOrAppend st.rel e.1 e.2 }

theorem fold_updBlock (bs : List (Nat × List (Option W))) (st : RdSt) :
    bs.foldl updBlock st = { st with blocks := insAll st.blocks bs } := by
  induction bs generalizing st with
  | nil => rfl
  | cons b bs ih => simp only [List.foldl_cons, ih, updBlock, insAll]

theorem fold_updLabel (ls : List (Key × SymData)) (st : RdSt) :
    ls.foldl updLabel st = { st with labels := ls.foldl (fun m e => setOrAppend m e.1 e.2) st.labels } := by
  induction ls generalizing st with
  | nil => rfl
  | cons b bs ih => simp only [List.foldl_cons, ih, updLabel]

theorem fold_updRel (ls : List (W × Key)) (st : RdSt) :
    ls.foldl updRel st = { st with rel := ls.foldl (fun m e => setOrAppend m e.1 e.2) st.rel } := by
  induction ls generalizing st with
  | nil => rfl
  | cons b bs ih => simp only [List.foldl_cons, ih, updRel]

theorem fold_updLine (ls : List (Nat × List W)) (st : RdSt) (lm : List (Nat × List W)) (src : List Char)
    (h : st.debug = some (lm, src)) :
    ls.foldl updLine st = { st with debug := some (ls.foldl (fun m e => setOrAppend m e.1 e.2) lm, src) } := by
  induction ls generalizing st lm with
  | nil => cases st; simp only at h; subst h; rfl
  | cons b bs ih =>
    simp only [List.foldl_cons]
    rw [ih (updLine st b) (setOrAppend lm b.1 b.2) (by simp [updLine, h])]
    simp [updLine]

/-- appending entries with pairwise different keys to a map that has none of them rebuilds the list -/
theorem fold_setOrAppend {κ β : Type} [BEq κ] [LawfulBEq κ] (ls : List (κ × β)) : ∀ (m : List (κ × β)),
    (ls.map (·.1)).Nodup → (∀ e ∈ ls, ∀ x ∈ m, x.1 ≠ e.1) →
    ls.foldl (fun m e => setOrAppend m e.1 e.2) m = m ++ ls := by
  induction ls with
  | nil => intro m _ _; simp
  | cons e es ih =>
    intro m hnd hfresh
    simp only [List.map_cons, List.nodup_cons] at hnd
    have hno : (m.any (fun x => x.1 == e.1)) = false := by
      apply Bool.eq_false_iff.mpr
      intro h
      obtain ⟨x, hx, hk⟩ := List.any_eq_true.mp h
      exact hfresh e (by simp) x hx (by simpa using hk)
    have step : setOrAppend m e.1 e.2 = m ++ [(e.1, e.2)] := by simp only [setOrAppend, hno, Bool.false_eq_true, if_false]
    simp only [List.foldl_cons, step]
    rw [ih (m ++ [(e.1, e.2)]) hnd.2]
    · simp
    · intro e' he' x hx
      rcases List.mem_append.mp hx with hx | hx
      · exact hfresh e' (by simp [he']) x hx
      · simp only [List.mem_singleton] at hx; subst hx
        intro heq
        exact hnd.1 (List.mem_map.mpr ⟨e', he', heq.symm⟩)

end Bin
end Lc3V
