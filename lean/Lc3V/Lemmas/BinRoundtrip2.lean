/- Lemmas/BinRoundtrip2.lean — `deserialize (serialize o) = some o` for well-formed object files. -/
import Lc3V.Lemmas.BinRoundtrip
set_option linter.unusedSimpArgs false
namespace Lc3V
namespace Bin

theorem sortedLE_of_strictAsc : ∀ ws : List W, strictAsc ws = true → sortedLE ws = true
  | [], _ => rfl
  | [_], _ => rfl
  | a :: b :: rest, h => by
    simp only [strictAsc, Bool.and_eq_true, decide_eq_true_eq] at h
    simp only [sortedLE, Bool.and_eq_true, decide_eq_true_eq]
    exact ⟨by omega, sortedLE_of_strictAsc (b :: rest) h.2⟩

/-- a sorted, non-overlapping line map with ascending blocks is its own normal form -/
theorem fromBlocks_self (m : LineMap) (hs : SortedKeys m) (hno : notOverlapping m = true)
    (hasc : ∀ e ∈ m, strictAsc e.2 = true) : LineMap.fromBlocks m = some m := by
  unfold LineMap.fromBlocks
  have : m.foldl (fun acc b => insertSortedBy b.1 b.2 acc) [] = m := insAll_nil m hs
  simp only [this, hno, if_true]
  have hall : m.all (fun b => sortedLE b.2) = true := by
    apply List.all_eq_true.mpr
    intro e he
    exact sortedLE_of_strictAsc e.2 (hasc e he)
  simp [hall]

structure WFDebug (d : DebugSyms) : Prop where
  sorted : SortedKeys d.lineMap
  disjoint : notOverlapping d.lineMap = true
  fit : ∀ e ∈ d.lineMap, e.1 < 2 ^ 64 ∧ e.2.length < 65536 ∧ strictAsc e.2 = true
  srcOk : d.src = SourceInfo.ofText d.src.src
  srcFit : blen d.src.src < 2 ^ 64

structure WFSym (t : SymTab) : Prop where
  labelsUnique : (t.labels.map (·.1)).Nodup
  labelsFit : ∀ e ∈ t.labels, e.2.srcStart < 2 ^ 64 ∧ blen e.1 < 2 ^ 64
  relUnique : (t.rel.map (·.1)).Nodup
  relFit : ∀ e ∈ t.rel, blen e.2 < 2 ^ 64
  debugOk : ∀ d, t.debug = some d → WFDebug d
  nonEmpty : t.labels ≠ [] ∨ t.debug.isSome = true

/-- the object files the assembler, the linker and the readers produce -/
structure WF (o : ObjFile) : Prop where
  sorted : SortedKeys o.blocks
  fit : ∀ b ∈ o.blocks, b.1 < 65536 ∧ b.2.length < 65536
  symOk : ∀ t, o.sym = some t → WFSym t

theorem sorted_keys_nodup {α} : ∀ (m : List (Nat × α)), SortedKeys m → (m.map (·.1)).Nodup
  | [], _ => List.nodup_nil
  | x :: xs, h => by
    simp only [List.map_cons, List.nodup_cons]
    refine ⟨?_, sorted_keys_nodup xs h.tail⟩
    intro hm
    obtain ⟨y, hy, hk⟩ := List.mem_map.mp hm
    have := h.head_lt y hy
    omega

theorem stripPrefix_magic (body : Bytes) : stripPrefix magic (magic ++ body) = some body := by
  unfold stripPrefix
  simp [List.isPrefixOf_iff_prefix.mpr (List.prefix_append magic body)]

/-- reading the block section -/
theorem read_blocks (bs : Blocks) (st : RdSt) (rest : Bytes) (fuel : Nat) (hfit : ∀ b ∈ bs, b.1 < 65536 ∧ b.2.length < 65536)
    (hf : (bs.flatMap serBlock ++ rest).length < fuel) :
    ∃ fuel', rest.length < fuel' ∧ readChunks fuel st (bs.flatMap serBlock ++ rest) = readChunks fuel' (bs.foldl updBlock st) rest :=
  readChunks_items serBlock updBlock (fun b => b.1 < 65536 ∧ b.2.length < 65536)
    (fun st b rest hb => by obtain ⟨p, h1, h2⟩ := read_block st b rest hb.1 hb.2; exact ⟨0x00, p, h1, h2⟩) bs st rest fuel hfit hf

theorem read_labels (ls : List (Key × SymData)) (st : RdSt) (rest : Bytes) (fuel : Nat)
    (hfit : ∀ e ∈ ls, e.2.srcStart < 2 ^ 64 ∧ blen e.1 < 2 ^ 64) (hf : (ls.flatMap serLabel ++ rest).length < fuel) :
    ∃ fuel', rest.length < fuel' ∧ readChunks fuel st (ls.flatMap serLabel ++ rest) = readChunks fuel' (ls.foldl updLabel st) rest :=
  readChunks_items serLabel updLabel (fun e => e.2.srcStart < 2 ^ 64 ∧ blen e.1 < 2 ^ 64)
    (fun st e rest he => by obtain ⟨p, h1, h2⟩ := read_label st e rest he.1 he.2; exact ⟨0x01, p, h1, h2⟩) ls st rest fuel hfit hf

theorem read_lines (ls : List (Nat × List W)) (st : RdSt) (rest : Bytes) (fuel : Nat)
    (hfit : ∀ e ∈ ls, e.1 < 2 ^ 64 ∧ e.2.length < 65536 ∧ strictAsc e.2 = true) (hf : (ls.flatMap serLineBlock ++ rest).length < fuel) :
    ∃ fuel', rest.length < fuel' ∧ readChunks fuel st (ls.flatMap serLineBlock ++ rest) = readChunks fuel' (ls.foldl updLine st) rest :=
  readChunks_items serLineBlock updLine (fun e => e.1 < 2 ^ 64 ∧ e.2.length < 65536 ∧ strictAsc e.2 = true)
    (fun st e rest he => by obtain ⟨p, h1, h2⟩ := read_lineBlock st e rest he.1 he.2.1 he.2.2; exact ⟨0x02, p, h1, h2⟩) ls st rest fuel hfit hf

theorem read_rels (ls : List (W × Key)) (st : RdSt) (rest : Bytes) (fuel : Nat)
    (hfit : ∀ e ∈ ls, blen e.2 < 2 ^ 64) (hf : (ls.flatMap serRel ++ rest).length < fuel) :
    ∃ fuel', rest.length < fuel' ∧ readChunks fuel st (ls.flatMap serRel ++ rest) = readChunks fuel' (ls.foldl updRel st) rest :=
  readChunks_items serRel updRel (fun e => blen e.2 < 2 ^ 64)
    (fun st e rest he => by obtain ⟨p, h1, h2⟩ := read_rel st e rest he; exact ⟨0x04, p, h1, h2⟩) ls st rest fuel hfit hf

theorem read_source (s : List Char) (st : RdSt) (rest : Bytes) (fuel : Nat) (hfit : blen s < 2 ^ 64)
    (hf : (serSrc s ++ rest).length < fuel) :
    ∃ fuel', rest.length < fuel' ∧ readChunks fuel st (serSrc s ++ rest) = readChunks fuel' (updSrc st s) rest := by
  have := readChunks_items serSrc updSrc (fun s => blen s < 2 ^ 64)
    (fun st s rest hs => by obtain ⟨p, h1, h2⟩ := read_src st s rest hs; exact ⟨0x03, p, h1, h2⟩) [s] st rest fuel
    (by intro x hx; simp only [List.mem_singleton] at hx; subst hx; exact hfit) (by simpa using hf)
  simpa using this

theorem fold_updLine_fields (ls : List (Nat × List W)) : ∀ st : RdSt,
    (ls.foldl updLine st).blocks = st.blocks ∧ (ls.foldl updLine st).labels = st.labels ∧ (ls.foldl updLine st).rel = st.rel ∧
    (ls.foldl updLine st).debug.getD ([], []) =
      (ls.foldl (fun m e => setOrAppend m e.1 e.2) (st.debug.getD ([], [])).1, (st.debug.getD ([], [])).2) := by
  induction ls with
  | nil => intro st; exact ⟨rfl, rfl, rfl, rfl⟩
  | cons e es ih =>
    intro st
    simp only [List.foldl_cons]
    obtain ⟨a, b, c, d⟩ := ih (updLine st e)
    exact ⟨a, b, c, by rw [d]; rfl⟩

/-- the reader's final step on the state reached after a well-formed stream -/
theorem finish (blocks : Blocks) (sym : Option SymTab) (st : RdSt) (body : Bytes)
    (hread : readChunks (body.length + 1) {} body = some st)
    (hfin : finishDebug st.debug = some (sym.bind (·.debug)))
    (hb : st.blocks = blocks)
    (hs : finishSym st (sym.bind (·.debug)) = sym) :
    deserialize (magic ++ body) = some ⟨blocks, sym⟩ := by
  unfold deserialize
  rw [stripPrefix_magic]
  simp only [hread, hfin, hb, hs]

theorem deserialize_serialize (o : ObjFile) (h : WF o) : deserialize (serialize o) = some o := by
  obtain ⟨blocks, sym⟩ := o
  have hsorted : SortedKeys blocks := h.sorted
  have hbfit := h.fit
  cases sym with
  | none =>
    have hser : serialize ⟨blocks, none⟩ = magic ++ (blocks.flatMap serBlock ++ []) := by simp [serialize]
    rw [hser]
    obtain ⟨f', _, hr⟩ := read_blocks blocks {} [] ((blocks.flatMap serBlock ++ []).length + 1) hbfit (by omega)
    apply finish blocks none (blocks.foldl updBlock {}) _ (by rw [hr, readChunks_nil])
    · rw [fold_updBlock]; rfl
    · rw [fold_updBlock]; exact insAll_nil blocks hsorted
    · rw [fold_updBlock]; rfl
  | some t =>
    have hw := h.symOk t rfl
    obtain ⟨labels, rel, debug⟩ := t
    have hlu : (labels.map (·.1)).Nodup := hw.labelsUnique
    have hlf := hw.labelsFit
    have hru : (rel.map (·.1)).Nodup := hw.relUnique
    have hrf := hw.relFit
    have hne := hw.nonEmpty
    cases debug with
    | none =>
      have hser : serialize ⟨blocks, some ⟨labels, rel, none⟩⟩ =
          magic ++ (blocks.flatMap serBlock ++ (labels.flatMap serLabel ++ (rel.flatMap serRel ++ []))) := by
        simp [serialize]
      rw [hser]
      obtain ⟨f1, hf1, hr1⟩ := read_blocks blocks {} (labels.flatMap serLabel ++ (rel.flatMap serRel ++ []))
        ((blocks.flatMap serBlock ++ (labels.flatMap serLabel ++ (rel.flatMap serRel ++ []))).length + 1) hbfit (by omega)
      obtain ⟨f2, hf2, hr2⟩ := read_labels labels (blocks.foldl updBlock {}) (rel.flatMap serRel ++ []) f1 hlf hf1
      obtain ⟨f3, _, hr3⟩ := read_rels rel (labels.foldl updLabel (blocks.foldl updBlock {})) [] f2 hrf hf2
      apply finish blocks (some ⟨labels, rel, none⟩) (rel.foldl updRel (labels.foldl updLabel (blocks.foldl updBlock {}))) _
        (by rw [hr1, hr2, hr3, readChunks_nil])
      · rw [fold_updRel, fold_updLabel, fold_updBlock]; rfl
      · rw [fold_updRel, fold_updLabel, fold_updBlock]; exact insAll_nil blocks hsorted
      · rw [fold_updRel, fold_updLabel, fold_updBlock]
        simp only [Option.bind_some, finishSym]
        rw [fold_setOrAppend labels [] hlu (by intro _ _ x hx; cases hx), fold_setOrAppend rel [] hru (by intro _ _ x hx; cases hx)]
        have hl : labels ≠ [] := by rcases hne with h | h; exact h; simp at h
        have : labels.isEmpty = false := by cases labels with | nil => exact absurd rfl hl | cons a b => rfl
        simp [this]
    | some d =>
      have hd := hw.debugOk d rfl
      obtain ⟨lineMap, src⟩ := d
      have hser : serialize ⟨blocks, some ⟨labels, rel, some ⟨lineMap, src⟩⟩⟩ =
          magic ++ (blocks.flatMap serBlock ++ (labels.flatMap serLabel ++ (lineMap.flatMap serLineBlock ++ (serSrc src.src ++ (rel.flatMap serRel ++ []))))) := by
        simp [serialize]
      rw [hser]
      obtain ⟨f1, hf1, hr1⟩ := read_blocks blocks {} (labels.flatMap serLabel ++ (lineMap.flatMap serLineBlock ++ (serSrc src.src ++ (rel.flatMap serRel ++ []))))
        ((blocks.flatMap serBlock ++ (labels.flatMap serLabel ++ (lineMap.flatMap serLineBlock ++ (serSrc src.src ++ (rel.flatMap serRel ++ []))))).length + 1) hbfit (by omega)
      obtain ⟨f2, hf2, hr2⟩ := read_labels labels (blocks.foldl updBlock {}) (lineMap.flatMap serLineBlock ++ (serSrc src.src ++ (rel.flatMap serRel ++ []))) f1 hlf hf1
      obtain ⟨f3, hf3, hr3⟩ := read_lines lineMap (labels.foldl updLabel (blocks.foldl updBlock {})) (serSrc src.src ++ (rel.flatMap serRel ++ [])) f2 hd.fit hf2
      obtain ⟨f4, hf4, hr4⟩ := read_source src.src (lineMap.foldl updLine (labels.foldl updLabel (blocks.foldl updBlock {}))) (rel.flatMap serRel ++ []) f3 hd.srcFit hf3
      obtain ⟨f5, _, hr5⟩ := read_rels rel (updSrc (lineMap.foldl updLine (labels.foldl updLabel (blocks.foldl updBlock {}))) src.src) [] f4 hrf hf4
      obtain ⟨lb, ll, lr, ld⟩ := fold_updLine_fields lineMap (labels.foldl updLabel (blocks.foldl updBlock {}))
      have hlab : (labels.foldl updLabel (blocks.foldl updBlock {})) = { blocks := insAll [] blocks, labels := [] ++ labels, rel := [], debug := none } := by
        rw [fold_updLabel, fold_updBlock, fold_setOrAppend labels [] hlu (by intro _ _ x hx; cases hx)]
      have hlm : lineMap.foldl (fun m e => setOrAppend m e.1 e.2) [] = lineMap := by
        rw [fold_setOrAppend lineMap [] (sorted_keys_nodup lineMap hd.sorted) (by intro _ _ x hx; cases hx)]; simp
      have lb' : (lineMap.foldl updLine (labels.foldl updLabel (blocks.foldl updBlock {}))).blocks = insAll [] blocks := by rw [lb, hlab]
      have ll' : (lineMap.foldl updLine (labels.foldl updLabel (blocks.foldl updBlock {}))).labels = labels := by rw [ll, hlab]; simp
      have lr' : (lineMap.foldl updLine (labels.foldl updLabel (blocks.foldl updBlock {}))).rel = [] := by rw [lr, hlab]
      have ld' : (lineMap.foldl updLine (labels.foldl updLabel (blocks.foldl updBlock {}))).debug.getD ([], []) = (lineMap, []) := by
        rw [ld, hlab]; simp only [Option.getD_none, hlm]
      have hst : rel.foldl updRel (updSrc (lineMap.foldl updLine (labels.foldl updLabel (blocks.foldl updBlock {}))) src.src) =
          { blocks := insAll [] blocks, labels := labels, rel := rel, debug := some (lineMap, src.src) } := by
        rw [fold_updRel]
        simp only [updSrc, ld', lb', ll', lr', List.nil_append]
        rw [fold_setOrAppend rel [] hru (by intro _ _ x hx; cases hx)]
        simp
      apply finish blocks (some ⟨labels, rel, some ⟨lineMap, src⟩⟩) _ _ (by rw [hr1, hr2, hr3, hr4, hr5, readChunks_nil])
      · rw [hst]
        simp only [finishDebug, Option.bind_some]
        rw [fromBlocks_self lineMap hd.sorted hd.disjoint (fun e he => (hd.fit e he).2.2)]
        have : SourceInfo.ofText src.src = src := hd.srcOk.symm
        simp [this]
      · rw [hst]; exact insAll_nil blocks hsorted
      · rw [hst]; simp [finishSym]

end Bin
end Lc3V
