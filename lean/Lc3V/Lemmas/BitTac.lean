/- Lemmas/BitTac.lean — bit-extensionality tactic for 16-bit mask identities (no bv_decide). -/
import Lc3V.Model.Bits
namespace Lc3V

/-- proves `a = b` for 16-bit vectors by checking each of the 16 bit positions with `simp` -/
macro "bits16" : tactic => `(tactic|
  (apply BitVec.eq_of_getLsbD_eq
   intro i hi
   rcases (by omega : i = 0 ∨ i = 1 ∨ i = 2 ∨ i = 3 ∨ i = 4 ∨ i = 5 ∨ i = 6 ∨ i = 7 ∨ i = 8 ∨ i = 9 ∨ i = 10 ∨
      i = 11 ∨ i = 12 ∨ i = 13 ∨ i = 14 ∨ i = 15) with h|h|h|h|h|h|h|h|h|h|h|h|h|h|h|h <;> subst h <;>
    simp [BitVec.getLsbD_and, BitVec.getLsbD_or, BitVec.getLsbD_not, BitVec.getLsbD_ofNat, BitVec.getLsbD_ushiftRight, BitVec.getLsbD_shiftLeft]))

example (p : W) : (p &&& 0xFFF8 ||| 4) &&& 7 = 4 := by bits16
example (p : W) : (p &&& 0xFFF8 ||| 2) &&& 0xFFF8 = p &&& 0xFFF8 := by bits16

end Lc3V
