/- Lemmas/C01Core.lean — per-statement facts of the assembler (namespace Lc3V.C01); the property module is Props/C01.lean. -/
import Lc3V.Model.Asm
import Lc3V.Props.C35
import Lc3V.Lemmas.Offset
set_option linter.unusedSimpArgs false
namespace Lc3V.C01
open Lc3V

/-- aliases expand to the instruction the ISA table gives -/
theorem alias_expansion (pc : W) (t : SymTab) :
    intoSimInstr .ret pc t = .ok (.jmp 7) ∧ intoSimInstr .getc pc t = .ok (.trap 0x20) ∧
    intoSimInstr .out pc t = .ok (.trap 0x21) ∧ intoSimInstr .putc pc t = .ok (.trap 0x21) ∧
    intoSimInstr .puts pc t = .ok (.trap 0x22) ∧ intoSimInstr .in_ pc t = .ok (.trap 0x23) ∧
    intoSimInstr .putsp pc t = .ok (.trap 0x24) ∧ intoSimInstr .halt pc t = .ok (.trap 0x25) ∧
    (∀ b, intoSimInstr (.jsrr b) pc t = .ok (.jsr (.reg b))) ∧
    (∀ v : BitVec 9, intoSimInstr (.nop (.off v)) pc t = .ok (.br 0 v)) :=
  ⟨rfl, rfl, rfl, rfl, rfl, rfl, rfl, rfl, fun _ => rfl, fun _ => rfl⟩

theorem signExtend_setWidth_of_fits (n : Nat) (h1 : 1 ≤ n) (h2 : n ≤ 16) (x : W) (o : Offset n) (h : newS n x = .ok o) :
    IOff.get (x.setWidth n) = x := by
  have hx : x = truncS n x := by
    unfold newS at h
    rw [if_neg (by omega), if_neg (by omega)] at h
    split at h
    · assumption
    · cases h
  unfold IOff.get
  have : (x.setWidth n).signExtend 16 = truncS n x := by
    apply BitVec.eq_of_toInt_eq
    rw [BitVec.toInt_signExtend_of_le h2, BitVec.toInt_setWidth, truncS_toInt n h1 h2]
  rw [this, ← hx]

/-- a label operand becomes `label address − pc` (pc = address of the following word): the field, sign-extended, is that
    difference; the operand is rejected when the label is undefined, external, or the difference does not fit -/
theorem label_operand (n : Nat) (h1 : 1 ≤ n) (h2 : n ≤ 16) (l : Label) (pc : W) (t : SymTab) :
    (∀ v, replacePcOffset n (.label l) pc t = .ok v →
      ∃ d, lookupKey t.labels (upperS l.name) = some d ∧ d.ext = false ∧ IOff.get v = d.addr - pc) ∧
    (∀ d, lookupKey t.labels (upperS l.name) = some d → d.ext = false →
      (-(2 ^ (n - 1) : Int) ≤ (d.addr - pc).toInt ∧ (d.addr - pc).toInt < 2 ^ (n - 1)) →
      ∃ v, replacePcOffset n (.label l) pc t = .ok v) := by
  constructor
  · intro v h
    unfold replacePcOffset at h
    dsimp only at h
    cases hl : lookupKey t.labels (upperS l.name) with
    | none => rw [hl] at h; cases h
    | some d =>
      rw [hl] at h
      dsimp only at h
      by_cases he : d.ext = true
      · rw [if_pos he] at h; cases h
      · rw [if_neg he] at h
        refine ⟨d, rfl, by simpa using he, ?_⟩
        cases hn : newS n (d.addr - pc) with
        | ok o => rw [hn] at h; cases h; exact signExtend_setWidth_of_fits n h1 h2 _ o hn
        | err e => rw [hn] at h; cases h
        | panic m => rw [hn] at h; cases h
  · intro d hl he hfit
    have hok := (C35.new_signed_iff n h1 h2 (d.addr - pc)).mpr hfit
    unfold replacePcOffset
    dsimp only
    rw [hl]
    dsimp only
    rw [if_neg (by simp [he])]
    cases hn : newS n (d.addr - pc) with
    | ok o => exact ⟨_, rfl⟩
    | err e => rw [hn] at hok; cases hok
    | panic m => rw [hn] at hok; cases hok

/-- the words of the data directives -/
theorem directive_words (t : SymTab) :
    (∀ v : W, directiveWords (.fill (.off v)) t = .ok [some v]) ∧
    (∀ l a, t.lookupLabel l.name = some a → directiveWords (.fill (.label l)) t = .ok [some a]) ∧
    (∀ n : W, directiveWords (.blkw n) t = .ok (List.replicate n.toNat none)) ∧
    (∀ s, directiveWords (.stringz s) t = .ok ((utf8Words s).map some ++ [some 0])) ∧
    directiveWords .end_ t = .ok [] ∧ (∀ a, directiveWords (.orig a) t = .ok []) ∧ (∀ l, directiveWords (.external l) t = .ok []) := by
  refine ⟨fun _ => rfl, ?_, fun _ => rfl, fun _ => rfl, rfl, fun _ => rfl, fun _ => rfl⟩
  intro l a h
  simp [directiveWords, h]

theorem utf8Words_length (s : List Char) : (utf8Words s).length = blen s := by
  induction s with
  | nil => rfl
  | cons c cs ih =>
    simp only [utf8Words, List.flatMap_cons, List.length_append, List.length_map, String.length_utf8EncodeChar, blen] at ih ⊢
    rw [ih]

/-- every directive contributes exactly `word_len` words (string literals are below 65535 bytes, as the lexer guarantees) -/
theorem directive_words_length (d : Directive) (t : SymTab) (ws : List (Option W)) (h : directiveWords d t = .ok ws)
    (hs : ∀ s, d = .stringz s → blen s + 1 < 65536) : ws.length = d.wordLen.toNat := by
  cases d with
  | orig a => cases h; rfl
  | fill v =>
    cases v with
    | off v => cases h; rfl
    | label l =>
      simp only [directiveWords] at h
      split at h <;> cases h
      rfl
  | blkw n => cases h; simp [Directive.wordLen]
  | stringz s =>
    cases h
    have := hs s rfl
    simp only [List.length_append, List.length_map, utf8Words_length, List.length_cons, List.length_nil, Directive.wordLen,
      BitVec.toNat_ofNat]
    omega
  | end_ => cases h; rfl
  | external l => cases h; rfl

/-- invariant of the second pass: inside a block the location counter is block start + number of words emitted -/
def LcInv (st : P2) : Prop := ∀ lc b, st.current = some (lc, b) → lc = b.start + BitVec.ofNat 16 b.words.length

theorem dir_generic (t : SymTab) (st st' : P2) (d : Directive) (sp : Span) (h : LcInv st)
    (hlen : ∀ ws, directiveWords d t = .ok ws → ws.length = d.wordLen.toNat)
    (hs : (match st.current with
      | none => (.error ⟨.undetAddrStmt, [sp]⟩ : ARes P2)
      | some (lc, block) =>
        match directiveWords d t with
        | .error e => .error e
        | .ok ws => .ok { st with current := some (lc + d.wordLen, { block with words := block.words ++ ws }) }) = .ok st') :
    LcInv st' := by
  intro lc' b' hc'
  cases hcur : st.current with
  | none => rw [hcur] at hs; cases hs
  | some p =>
    obtain ⟨lc, b⟩ := p
    rw [hcur] at hs
    dsimp only at hs
    cases hw : directiveWords d t with
    | error e => rw [hw] at hs; cases hs
    | ok ws =>
      rw [hw] at hs
      cases hs
      cases hc'
      have e1 := h lc b hcur
      have e2 := hlen ws hw
      simp only [List.length_append]
      rw [e1]
      have : d.wordLen = BitVec.ofNat 16 ws.length := by
        apply BitVec.eq_of_toNat_eq; rw [BitVec.toNat_ofNat, e2]; exact (Nat.mod_eq_of_lt d.wordLen.isLt).symm
      rw [this]; bv_omega

theorem lcInv_step (t : SymTab) (st st' : P2) (stmt : Stmt) (h : LcInv st) (hs : pass2Step t st stmt = .ok st')
    (hstr : ∀ s, stmt.nucleus = .directive (.stringz s) → blen s + 1 < 65536) : LcInv st' := by
  unfold pass2Step at hs
  intro lc' b' hc'
  cases hn : stmt.nucleus with
  | instr i =>
    rw [hn] at hs
    dsimp only at hs
    cases hcur : st.current with
    | none => rw [hcur] at hs; cases hs
    | some p =>
      obtain ⟨lc, b⟩ := p
      rw [hcur] at hs
      dsimp only at hs
      cases hi : intoSimInstr i (lc + 1) t with
      | error e => rw [hi] at hs; cases hs
      | ok si =>
        rw [hi] at hs
        cases hs
        cases hc'
        have := h lc b hcur
        simp only [List.length_append, List.length_cons, List.length_nil]
        rw [this]; bv_omega
  | directive d =>
    rw [hn] at hs
    cases d with
    | orig a => cases hs; cases hc'; simp
    | end_ =>
      dsimp only at hs
      cases hcur : st.current with
      | none => rw [hcur] at hs; cases hs
      | some p =>
        rw [hcur] at hs
        dsimp only at hs
        split at hs
        · cases hs; cases hc'
        · split at hs
          · cases hs
          · cases hs; cases hc'
    | external l => cases hs; exact h lc' b' hc'
    | fill v => exact dir_generic t st st' (.fill v) stmt.span h (fun ws hw => directive_words_length _ t ws hw (by intro s hx; cases hx)) hs lc' b' hc'
    | blkw n => exact dir_generic t st st' (.blkw n) stmt.span h (fun ws hw => directive_words_length _ t ws hw (by intro s hx; cases hx)) hs lc' b' hc'
    | stringz s => exact dir_generic t st st' (.stringz s) stmt.span h (fun ws hw => directive_words_length _ t ws hw (by intro s' hx; cases hx; exact hstr s hn)) hs lc' b' hc'

/-- the invariant holds after any prefix of the second pass -/
theorem lcInv_fold (t : SymTab) : ∀ (stmts : List Stmt) (st st' : P2), LcInv st → stmts.foldlM (pass2Step t) st = .ok st' →
    (∀ stmt ∈ stmts, ∀ s, stmt.nucleus = .directive (.stringz s) → blen s + 1 < 65536) → LcInv st' := by
  intro stmts
  induction stmts with
  | nil => intro st st' h hs _; simp only [List.foldlM_nil] at hs; cases hs; exact h
  | cons x xs ih =>
    intro st st' h hs hstr
    rw [List.foldlM_cons] at hs
    cases hx : pass2Step t st x with
    | error e => rw [hx] at hs; cases hs
    | ok st1 =>
      rw [hx] at hs
      exact ih st1 st' (lcInv_step t st st1 x h hx (hstr x (by simp))) hs (fun y hy => hstr y (by simp [hy]))

theorem lcInv_init : LcInv ⟨[], none⟩ := by intro lc b h; cases h

theorem lookupKey_append_new (m : List (Key × SymData)) (k : Key) (d : SymData) (h : lookupKey m k = none) :
    lookupKey (m ++ [(k, d)]) k = some d := by
  unfold lookupKey at *
  rw [List.find?_append]
  cases hf : List.find? (fun e => e.1 == k) m with
  | some x => rw [hf] at h; simp at h
  | none => simp

theorem lookupKey_append_old (m : List (Key × SymData)) (k k' : Key) (d d' : SymData) (h : lookupKey m k' = some d') :
    lookupKey (m ++ [(k, d)]) k' = some d' := by
  unfold lookupKey at *
  rw [List.find?_append]
  cases hf : List.find? (fun e => e.1 == k') m with
  | some x => rw [hf] at h; simpa using h
  | none => rw [hf] at h; simp at h

/-- pass 1 binds a label to the address it is given (the location counter of its statement), and never rebinds an
    existing label: a later definition either agrees or is an `OverlappingLabels` error -/
theorem addLabel_spec (labels labels' : List (Key × SymData)) (l : Label) (addr : W) (ext : Bool)
    (h : addLabel labels l addr ext = .ok labels') :
    (∃ d, lookupKey labels' (upperS l.name) = some d ∧ d.addr = addr) ∧
    (∀ k d, lookupKey labels k = some d → lookupKey labels' k = some d) := by
  unfold addLabel at h
  dsimp only at h
  cases hl : lookupKey labels (upperS l.name) with
  | some d =>
    rw [hl] at h
    dsimp only at h
    by_cases hne : d.addr ≠ addr
    · rw [if_pos hne] at h; cases h
    · rw [if_neg hne] at h; cases h
      exact ⟨⟨d, hl, by simpa using hne⟩, fun _ _ hk => hk⟩
  | none =>
    rw [hl] at h
    cases h
    exact ⟨⟨_, lookupKey_append_new _ _ _ hl, rfl⟩, fun k d hk => lookupKey_append_old _ _ _ _ _ hk⟩

/-- a conflicting redefinition is rejected with both spellings' positions -/
theorem addLabel_conflict (labels : List (Key × SymData)) (l : Label) (addr : W) (ext : Bool) (d : SymData)
    (hl : lookupKey labels (upperS l.name) = some d) (hne : d.addr ≠ addr) :
    addLabel labels l addr ext = .error ⟨.overlappingLabels, [d.span (upperS l.name), l.span]⟩ := by
  unfold addLabel
  simp [hl, hne]

end Lc3V.C01
