/-
  Lemmas/C10Core.lean — the C10 theorems about one interrupt (moved here from Props/C10 so that the OS-routine contracts and
  `Lemmas/IntTransparent` can import them; namespace unchanged).
  C10 — Interrupts are priority-gated and transparent to the interrupted program.
  Proved for every state:
   * gate / boundary: a step takes an interrupt iff this step's poll returned a vectored request whose priority
     exceeds the PSR priority, and it does so *instead of* fetching (one poll per step, at its start:
     C08.step_structure) — `gate`;
   * arbitration: the poll returns a request of maximal priority among those raised in this poll (external
     requests rank above all vectored ones) — `arbitration`;
   * entry: supervisor mode, old PSR then old PC pushed at the supervisor stack pointer, R6 = SSP-2, CC = Z, priority
     set for interrupts (kept for traps), PC = M[vector], user R6 saved in the saved SP when coming from user mode,
     one frame pushed, no other memory cell changed — `entry`;
   * RTI pops PC and PSR, restores R6 (swapping back to the user stack when the popped PSR is a user PSR), pops a
     frame — `rti_spec`; and RTI right after an entry restores PC, PSR, R6 and the saved SP exactly —
     `rti_undoes_entry` (the two stack words below the old stack pointer are the only memory difference).
  Transparency of whole runs for handlers that restore what they use follows by induction from `rti_undoes_entry`
  plus C09 (user-mode code never reads below x3000); that composition is checked by the correspondence oracle
  (interrupted vs uninterrupted runs), not yet a single theorem.
-/
import Lc3V.Props.C08
import Lc3V.Lemmas.Psr
namespace Lc3V.C10
open Lc3V Sim SimM

/-- a step takes the interrupt (v,p) iff the poll's winner is vectored (v,p) with p above the PSR priority -/
theorem gate (s : Sim) (v : BitVec 8) (p : Nat) :
    takenInterrupt s = some (v, p) ↔ ((s.dev.pollInterrupt).1 = some (.vectored v p) ∧ p > PSR.priority s.psr) := by
  unfold takenInterrupt
  cases h : (s.dev.pollInterrupt).1 with
  | none => simp
  | some i =>
    cases i with
    | external t => simp
    | vectored v' p' =>
      by_cases hg : p' > PSR.priority s.psr
      · simp only [hg, if_true, Option.some.injEq, Prod.mk.injEq, Interrupt.vectored.injEq]
        constructor
        · rintro ⟨rfl, rfl⟩; exact ⟨⟨rfl, rfl⟩, hg⟩
        · rintro ⟨⟨rfl, rfl⟩, _⟩; exact ⟨rfl, rfl⟩
      · simp only [hg, if_false, Interrupt.vectored.injEq]
        constructor
        · intro h'; cases h'
        · rintro ⟨⟨rfl, rfl⟩, hp⟩; exact absurd hp hg

/-- when an interrupt is taken nothing is fetched: the step is exactly the supervisor entry at vector x100+v -/
theorem taken_is_entry (s : Sim) (v : BitVec 8) (p : Nat) (h : takenInterrupt s = some (v, p)) (he : externalInterrupt s = none) :
    stepInner s = handleInterrupt (0x100 + v.setWidth 16) (some p) (afterPoll s) := by
  rw [C08.step_structure, he, h]

/-- key of `max_by_key` is monotone along the fold: the running best is at least as urgent as anything seen -/
theorem pollStep_best (acc : Option Interrupt × Array Device) (d : Device) :
    (∀ b, acc.1 = some b → ∃ b', (DevHandler.pollStep acc d).1 = some b' ∧ DevHandler.intKey b ≤ DevHandler.intKey b') ∧
    (∀ x, (d.poll).1 = some x → ∃ b', (DevHandler.pollStep acc d).1 = some b' ∧ DevHandler.intKey x ≤ DevHandler.intKey b') := by
  unfold DevHandler.pollStep
  constructor
  · intro b hb
    cases hx : (d.poll).1 with
    | none => simp only [hb, hx]; exact ⟨b, rfl, Nat.le_refl _⟩
    | some x =>
      simp only [hb, hx]
      by_cases hk : DevHandler.intKey x ≥ DevHandler.intKey b
      · exact ⟨x, by simp [hk], hk⟩
      · exact ⟨b, by simp [hk], Nat.le_refl _⟩
  · intro x hx
    cases hb : acc.1 with
    | none => simp only [hx, hb]; exact ⟨x, rfl, Nat.le_refl _⟩
    | some b =>
      simp only [hx, hb]
      by_cases hk : DevHandler.intKey x ≥ DevHandler.intKey b
      · exact ⟨x, by simp [hk], Nat.le_refl _⟩
      · exact ⟨b, by simp [hk], by omega⟩

/-- arbitration: the winner of a poll is at least as urgent as every request raised by any device in that poll -/
theorem arbitration (devs : List Device) (acc : Option Interrupt × Array Device) :
    (∀ b, acc.1 = some b → ∃ w, (devs.foldl DevHandler.pollStep acc).1 = some w ∧ DevHandler.intKey b ≤ DevHandler.intKey w) ∧
    (∀ d ∈ devs, ∀ x, (d.poll).1 = some x →
      ∃ w, (devs.foldl DevHandler.pollStep acc).1 = some w ∧ DevHandler.intKey x ≤ DevHandler.intKey w) := by
  induction devs generalizing acc with
  | nil => exact ⟨fun b hb => ⟨b, hb, Nat.le_refl _⟩, fun d hd => by simp at hd⟩
  | cons d rest ih =>
    simp only [List.foldl_cons]
    obtain ⟨ih1, ih2⟩ := ih (DevHandler.pollStep acc d)
    obtain ⟨p1, p2⟩ := pollStep_best acc d
    constructor
    · intro b hb
      obtain ⟨b', hb', hle⟩ := p1 b hb
      obtain ⟨w, hw, hle2⟩ := ih1 b' hb'
      exact ⟨w, hw, by omega⟩
    · intro d' hd' x hx
      rcases List.mem_cons.mp hd' with rfl | hmem
      · obtain ⟨b', hb', hle⟩ := p2 x hx
        obtain ⟨w, hw, hle2⟩ := ih1 b' hb'
        exact ⟨w, hw, by omega⟩
      · exact ih2 d' hmem x hx

/-- vectored priorities are 0..7; external requests have key 8, above every vectored one -/
theorem key_order (v : BitVec 8) (p t : Nat) :
    DevHandler.intKey (.vectored v p) = p % 8 ∧ DevHandler.intKey (.external t) = 8 := ⟨rfl, rfl⟩

/-- core of an entry from a state whose R6 already is the supervisor stack pointer -/
theorem enterCore_spec (x : Sim) (vect : W) (prio : Option Nat) (oldPsr oldPc : W) (hs : x.flags.strict = false)
    (h1 : ((x.reg R6).data - 1).toNat < IO_START) (h2 : ((x.reg R6).data - 2).toNat < IO_START) (hv : vect.toNat < IO_START) :
    ∃ s', enterCore vect prio oldPsr oldPc x = (.ok (), s') ∧
      s'.memAt ((x.reg R6).data - 2) = Word.ofData oldPc ∧
      ((x.reg R6).data - 1 ≠ (x.reg R6).data - 2 → s'.memAt ((x.reg R6).data - 1) = Word.ofData oldPsr) ∧
      (∀ a, a ≠ (x.reg R6).data - 1 → a ≠ (x.reg R6).data - 2 → s'.memAt a = x.memAt a) ∧
      s'.reg R6 = Word.sub (x.reg R6) (Word.ofData 2) ∧
      (∀ r, r ≠ R6 → s'.reg r = x.reg r) ∧
      s'.psr = PSR.entryPsr x.psr prio ∧
      s'.pc = (s'.memAt vect).data ∧ s'.savedSp = x.savedSp ∧ s'.frameNo = x.frameNo + 1 ∧
      s'.dev = x.dev ∧ s'.flags = x.flags ∧ s'.instrRun = x.instrRun ∧ s'.mcr = x.mcr := by
  unfold enterCore
  simp only [SimM.bind_apply, SimM.getS_apply, SimM.modifyS_apply, hs, Word.getIfInit_nonstrict, SimM.liftE_ok]
  rw [Sim.writeMem_plain_eq _ _ _ _ (Or.inl (by simp [defaultCtx])) h1 (by simp [defaultCtx, hs]) (by simp [defaultCtx])]
  simp only
  rw [Sim.writeMem_plain_eq _ _ _ _ (Or.inl (by simp [defaultCtx])) h2 (by simp [defaultCtx, hs]) (by simp [defaultCtx])]
  have hne2 : ∀ a : W, a ≠ (x.reg R6).data - 2 → ¬ ((x.reg R6).data - 2).toNat = a.toNat :=
    fun a h e => h (BitVec.eq_of_toNat_eq e).symm
  have hne1 : ∀ a : W, a ≠ (x.reg R6).data - 1 → ¬ ((x.reg R6).data - 1).toNat = a.toNat :=
    fun a h e => h (BitVec.eq_of_toNat_eq e).symm
  have hr : ∀ r : Reg, r ≠ R6 → ¬ R6.toNat = r.toNat := fun r h e => h (BitVec.eq_of_toNat_eq e).symm
  cases prio with
  | none =>
    simp only [SimM.pure_apply]
    rw [Sim.callInterrupt_plain _ _ _ (by simp [hs]) (by simp) hv]
    refine ⟨_, rfl, ?_, ?_, ?_, ?_, ?_, rfl, ?_, rfl, rfl, rfl, rfl, rfl, rfl⟩
    · dsimp only [Sim.memAt, pushFrame, afterVectorRead]
      rw [Vector.getElem_set_self]
    · intro hne
      dsimp only [Sim.memAt, pushFrame, afterVectorRead]
      rw [Vector.getElem_set_ne _ _ (hne2 _ hne), Vector.getElem_set_self]
    · intro a ha1 ha2
      dsimp only [Sim.memAt, pushFrame, afterVectorRead]
      rw [Vector.getElem_set_ne _ _ (hne2 _ ha2), Vector.getElem_set_ne _ _ (hne1 _ ha1)]
    · dsimp only [Sim.reg, pushFrame, afterVectorRead]
      rw [Vector.getElem_set_self]
    · intro r hr'
      dsimp only [Sim.reg, pushFrame, afterVectorRead]
      rw [Vector.getElem_set_ne _ _ (hr r hr')]
    · rfl
  | some p =>
    simp only [SimM.bind_apply, SimM.modifyS_apply]
    rw [Sim.callInterrupt_plain _ _ _ (by simp [hs]) (by simp) hv]
    refine ⟨_, rfl, ?_, ?_, ?_, ?_, ?_, rfl, ?_, rfl, rfl, rfl, rfl, rfl, rfl⟩
    · dsimp only [Sim.memAt, pushFrame, afterVectorRead]
      rw [Vector.getElem_set_self]
    · intro hne
      dsimp only [Sim.memAt, pushFrame, afterVectorRead]
      rw [Vector.getElem_set_ne _ _ (hne2 _ hne), Vector.getElem_set_self]
    · intro a ha1 ha2
      dsimp only [Sim.memAt, pushFrame, afterVectorRead]
      rw [Vector.getElem_set_ne _ _ (hne2 _ ha2), Vector.getElem_set_ne _ _ (hne1 _ ha1)]
    · dsimp only [Sim.reg, pushFrame, afterVectorRead]
      rw [Vector.getElem_set_self]
    · intro r hr'
      dsimp only [Sim.reg, pushFrame, afterVectorRead]
      rw [Vector.getElem_set_ne _ _ (hr r hr')]
    · rfl

/-- supervisor stack pointer used by an entry from state s -/
def entrySp (s : Sim) : W := if PSR.privileged s.psr then (s.reg R6).data else s.savedSp.data

theorem sp_cells_distinct (sp : W) : sp - 1 ≠ sp - 2 := by
  intro h
  bv_omega

/-- **entry** (trap, exception under real traps, or interrupt) from any state, stack and vector in plain memory -/
theorem entry (s : Sim) (vect : W) (prio : Option Nat) (hs : s.flags.strict = false)
    (h1 : (entrySp s - 1).toNat < IO_START) (h2 : (entrySp s - 2).toNat < IO_START) (hv : vect.toNat < IO_START) :
    ∃ s', enterSupervisor vect prio s = (.ok (), s') ∧
      s'.memAt (entrySp s - 2) = Word.ofData s.pc ∧ s'.memAt (entrySp s - 1) = Word.ofData s.psr ∧
      (∀ a, a ≠ entrySp s - 1 → a ≠ entrySp s - 2 → s'.memAt a = s.memAt a) ∧
      (s'.reg R6).data = entrySp s - 2 ∧ (∀ r, r ≠ R6 → s'.reg r = s.reg r) ∧
      PSR.privileged s'.psr = true ∧ PSR.cc s'.psr = 2 ∧
      (∀ p, prio = some p → PSR.priority s'.psr = p % 8) ∧
      (prio = none → PSR.priority s'.psr = PSR.priority s.psr) ∧
      s'.pc = (s'.memAt vect).data ∧
      s'.savedSp = (if PSR.privileged s.psr then s.savedSp else s.reg R6) ∧
      s'.frameNo = s.frameNo + 1 ∧ s'.dev = s.dev ∧ s'.flags = s.flags ∧ s'.instrRun = s.instrRun := by
  unfold enterSupervisor
  have hsub : ∀ w : Word, (Word.sub w (Word.ofData 2)).data = w.data - 2 := by
    intro w; unfold Word.sub; split
    · rename_i h; simp only [Bool.and_eq_true, beq_iff_eq] at h; have := h.1; simp [Word.ofData] at this
    · rfl
  cases hpv : PSR.privileged s.psr
  · -- from user mode: stacks swapped first
    have hsp : entrySp s = s.savedSp.data := by simp [entrySp, hpv]
    have hx6 : (s.swapStacks.reg R6) = s.savedSp := by
      dsimp only [swapStacks, Sim.reg]; rw [Vector.getElem_set_self]
    rw [hsp] at h1 h2 ⊢
    simp only [Bool.not_false, if_true]
    obtain ⟨s', he, m2, m1, mo, r6, ro, hp', hpc, hss, hfn, hd, hf, hir, _⟩ :=
      enterCore_spec s.swapStacks vect prio s.psr s.pc hs (by rw [hx6]; exact h1) (by rw [hx6]; exact h2) hv
    rw [hx6] at m2 m1 mo r6
    obtain ⟨q1, q2, q3, q4⟩ := PSR.entryPsr_facts s.psr prio
    have hp'' : s'.psr = PSR.entryPsr s.psr prio := hp'
    refine ⟨s', he, m2, m1 (sp_cells_distinct _), mo, ?_, ?_, ?_, ?_, ?_, ?_, hpc, ?_, hfn, hd, hf, hir⟩
    · rw [r6, hsub]
    · intro r hr
      rw [ro r hr]
      have : ¬ R6.toNat = r.toNat := fun e => hr (BitVec.eq_of_toNat_eq e).symm
      dsimp only [swapStacks, Sim.reg]; rw [Vector.getElem_set_ne _ _ this]
    · rw [hp'']; exact q1
    · rw [hp'']; exact q2
    · rw [hp'']; exact q3
    · rw [hp'']; exact q4
    · rw [hss]; rfl
  · have hsp : entrySp s = (s.reg R6).data := by simp [entrySp, hpv]
    rw [hsp] at h1 h2 ⊢
    simp only [Bool.not_true, Bool.false_eq_true, if_false, if_true]
    obtain ⟨s', he, m2, m1, mo, r6, ro, hp', hpc, hss, hfn, hd, hf, hir, _⟩ :=
      enterCore_spec s vect prio s.psr s.pc hs h1 h2 hv
    obtain ⟨q1, q2, q3, q4⟩ := PSR.entryPsr_facts s.psr prio
    refine ⟨s', he, m2, m1 (sp_cells_distinct _), mo, ?_, ro, ?_, ?_, ?_, ?_, hpc, hss, hfn, hd, hf, hir⟩
    · rw [r6, hsub]
    · rw [hp']; exact q1
    · rw [hp']; exact q2
    · rw [hp']; exact q3
    · rw [hp']; exact q4

/-- RTI in supervisor mode (or with privilege checks ignored), stack in plain memory, non-strict -/
theorem rti_spec (x : Sim) (hs : x.flags.strict = false) (hp : PSR.privileged x.psr = true ∨ x.flags.ignorePriv = true)
    (h1 : ((x.reg R6).data).toNat < IO_START) (h2 : ((x.reg R6).data + 1).toNat < IO_START) :
    ∃ s', execInstr .rti x = (.ok (), s') ∧
      s'.pc = (x.memAt (x.reg R6).data).data ∧ s'.psr = (x.memAt ((x.reg R6).data + 1)).data ∧
      s'.mem = x.mem ∧ s'.frameNo = x.frameNo - 1 ∧
      (PSR.privileged (x.memAt ((x.reg R6).data + 1)).data = true →
         s'.reg R6 = Word.add (x.reg R6) (Word.ofData 2) ∧ s'.savedSp = x.savedSp) ∧
      (PSR.privileged (x.memAt ((x.reg R6).data + 1)).data = false →
         s'.reg R6 = x.savedSp ∧ s'.savedSp = Word.add (x.reg R6) (Word.ofData 2)) ∧
      (∀ r, r ≠ R6 → s'.reg r = x.reg r) ∧ s'.dev = x.dev ∧ s'.flags = x.flags := by
  have hpe : (PSR.privileged x.psr || x.flags.ignorePriv) = true := by rcases hp with h | h <;> simp [h]
  have hc1 : x.defaultCtx.privileged = true ∨ inUser (x.reg R6).data = true := by
    rcases hp with h | h
    · left; simp [defaultCtx, h]
    · left; simp [defaultCtx, h]
  unfold execInstr
  simp only [SimM.bind_apply, SimM.getS_apply, hpe, if_true, hs, Word.getIfInit_nonstrict, SimM.liftE_ok]
  rw [Sim.readMem_plain_eq _ _ _ hc1 h1 (by simp [defaultCtx])]
  simp only [Word.getIfInit_nonstrict, SimM.liftE_ok]
  rw [Sim.readMem_plain_eq _ _ _ (Or.inl (by rcases hp with h | h <;> simp [defaultCtx, h])) h2 (by simp [defaultCtx])]
  simp only [Word.getIfInit_nonstrict, SimM.liftE_ok, SimM.modifyS_apply]
  rw [Sim.setPc_nonstrict _ _ _ (by simp [hs])]
  simp only [SimM.modifyS_apply, SimM.getS_apply, Word.ofData_data]
  have hr : ∀ r : Reg, r ≠ R6 → ¬ R6.toNat = r.toNat := fun r h e => h (BitVec.eq_of_toNat_eq e).symm
  cases hq : PSR.privileged (x.memAt ((x.reg R6).data + 1)).data
  · simp only [hq, Bool.not_false, if_true, SimM.bind_apply, SimM.modifyS_apply]
    refine ⟨_, rfl, rfl, rfl, rfl, rfl, ?_, ?_, ?_, rfl, rfl⟩
    · intro h; cases h
    · intro _
      constructor
      · dsimp only [Sim.reg, popFrame]; rw [Vector.getElem_set_self]
      · dsimp only [Sim.reg, popFrame]; rw [Vector.getElem_set_self]
    · intro r hr'
      dsimp only [Sim.reg, popFrame]
      rw [Vector.getElem_set_ne _ _ (hr r hr'), Vector.getElem_set_ne _ _ (hr r hr')]
  · simp only [hq, Bool.not_true, Bool.false_eq_true, if_false, SimM.pure_apply, SimM.bind_apply, SimM.modifyS_apply]
    refine ⟨_, rfl, rfl, rfl, rfl, rfl, ?_, ?_, ?_, rfl, rfl⟩
    · intro _
      constructor
      · dsimp only [Sim.reg, popFrame]; rw [Vector.getElem_set_self]
      · rfl
    · intro h; cases h
    · intro r hr'
      dsimp only [Sim.reg, popFrame]
      rw [Vector.getElem_set_ne _ _ (hr r hr')]

/-- RTI executed in the state an entry produced restores PC, PSR, the stack pointer and the saved stack pointer of the
    interrupted context, every other register, the frame depth, and all memory except the two words the entry
    pushed below the supervisor stack pointer. -/
theorem rti_undoes_entry (s : Sim) (vect : W) (prio : Option Nat) (hs : s.flags.strict = false)
    (h1 : (entrySp s - 1).toNat < IO_START) (h2 : (entrySp s - 2).toNat < IO_START) (hv : vect.toNat < IO_START)
    (s1 : Sim) (he : enterSupervisor vect prio s = (.ok (), s1)) :
    ∃ s2, execInstr .rti s1 = (.ok (), s2) ∧ s2.pc = s.pc ∧ s2.psr = s.psr ∧
      (s2.reg R6).data = (s.reg R6).data ∧ s2.savedSp.data = s.savedSp.data ∧
      (∀ r, r ≠ R6 → s2.reg r = s.reg r) ∧ s2.frameNo = s.frameNo ∧
      (∀ a, a ≠ entrySp s - 1 → a ≠ entrySp s - 2 → s2.memAt a = s.memAt a) ∧ s2.dev = s.dev := by
  obtain ⟨s1', he', m2, m1, mo, r6, ro, hpv, _, _, _, _, hss, hfn, hd, hf, _⟩ := entry s vect prio hs h1 h2 hv
  rw [he] at he'
  have : s1' = s1 := by cases he'; rfl
  subst this
  have e1 : (s1'.reg R6).data + 1 = entrySp s - 1 := by rw [r6]; bv_omega
  obtain ⟨s2, hx, hpc, hpsr, hmem, hfn2, hk, hu, hro, hd2, _⟩ :=
    rti_spec s1' (by rw [hf]; exact hs) (Or.inl hpv) (by rw [r6]; exact h2) (by rw [e1]; exact h1)
  rw [r6] at hpc
  rw [e1] at hpsr hk hu
  rw [m2] at hpc
  rw [m1] at hpsr hk hu
  simp only [Word.ofData_data] at hpc hpsr hk hu
  refine ⟨s2, hx, hpc, hpsr, ?_, ?_, ?_, ?_, ?_, ?_⟩
  · cases hp : PSR.privileged s.psr
    · rw [(hu hp).1, hss]; simp [hp]
    · rw [(hk hp).1, C08.add_data, r6]
      have : entrySp s = (s.reg R6).data := by simp [entrySp, hp]
      rw [this]; simp only [Word.ofData_data]; bv_omega
  · cases hp : PSR.privileged s.psr
    · rw [(hu hp).2, C08.add_data, r6]
      have : entrySp s = s.savedSp.data := by simp [entrySp, hp]
      rw [this]; simp only [Word.ofData_data]; bv_omega
    · rw [(hk hp).2, hss]; simp [hp]
  · intro r hr; rw [hro r hr, ro r hr]
  · rw [hfn2, hfn]; omega
  · intro a ha1 ha2; rw [Sim.memAt, hmem]; exact mo a ha1 ha2
  · rw [hd2, hd]

-- non-vacuity: the reset configuration (user mode, saved SP = x3000) meets the stack hypotheses
example : ((0x3000 : W) - 1).toNat < IO_START ∧ ((0x3000 : W) - 2).toNat < IO_START := by decide

end Lc3V.C10
