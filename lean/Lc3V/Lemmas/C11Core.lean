/-
  Lemmas/C11Core.lean — C11 part 1: the listing checks on the regenerated OS image (moved here from Props/C11 so
  that the contract proofs in Lemmas/OsRoutines can import them; namespace unchanged).
  C11 — Built-in OS trap routines meet their contracts.
  The OS image (`Gen/OsImage.lean`) is regenerated from /repo's `src/os.asm` (through /repo's assembler) on every
  run, so every theorem here is re-checked against the OS text that is in the tree now.
  Part 1 (this file, machine-checked on the current image, by kernel evaluation of the decoder over the image):
  each trap vector x20-x25 points at a routine whose decoded instruction listing is exactly the known-good routine —
  GETC = poll KBSR until ready, load KBDR, RTI; OUT = push R0, poll DSR, pop R0, store to DDR, RTI; PUTS = save R0/R1,
  loop { load word, stop at zero, OUT, advance }, restore, RTI; IN = prompt via PUTS, GETC, OUT, RTI; PUTSP = save
  R0-R3, per word emit low byte then the high byte obtained by eight shift rounds, stop at the first zero byte,
  restore, RTI; HALT = clear MCR in a loop — with the device pointers resolving to KBSR/KBDR/DSR/DDR/MCR and the
  prompt / exception message strings as specified.  An edit of os.asm that changes any of these breaks a proof.
  Part 2 (C08/C10 theorems used): TRAP entry and RTI restore PC, PSR/CC, privilege and the stack pointers exactly
  (`C10.rti_undoes_entry`), so a routine that restores the registers it uses returns with everything unchanged.
  Part 3, the semantic contracts of the listings (Hoare-style, by symbolic execution over `stepIn`), is in progress;
  meanwhile the contract itself is evaluated on the implementation for every generated case (oracle) and the
  implementation is compared with the model step by step.
-/
import Lc3V.Lemmas.C10Core
import Lc3V.Gen.OsImage
namespace Lc3V.C11
open Lc3V SimInstr

/-- word of the OS image at address `a` (the image is one block at x0000) -/
def osWord (a : Nat) : Option W := (Gen.osWords0[a]?).join

def dec (a : Nat) : Option SimInstr :=
  match osWord a with
  | some w => (match decode w with | .ok i => some i | .error _ => none)
  | none => none

/-- target cell of a PC-relative 9-bit offset used at address `a` -/
def rel9 (a : Nat) (off : BitVec 9) : Nat := ((BitVec.ofNat 16 (a + 1)) + off.signExtend 16).toNat

/-- `LDI/STI r` at `a` goes through a pointer cell holding `dev` -/
def viaPointer (a : Nat) (off : BitVec 9) (dev : W) : Bool := osWord (rel9 a off) == some dev

/-- the zero-terminated string of low bytes at `a` -/
def strAt : Nat → Nat → List Nat
  | _, 0 => []
  | a, fuel + 1 => match osWord a with
    | some w => if w = 0 then [] else w.toNat :: strAt (a + 1) fuel
    | none => []

def str (s : String) : List Nat := s.toList.map Char.toNat

def chkGetc (a : Nat) : Bool :=
  match dec a, dec (a + 1), dec (a + 2), dec (a + 3) with
  | some (.ldi 0 o1), some (.br 3 ob), some (.ldi 0 o2), some .rti =>
    viaPointer a o1 0xFE00 && rel9 (a + 1) ob == a && viaPointer (a + 2) o2 0xFE02
  | _, _, _, _ => false

def chkPutc (a : Nat) : Bool :=
  match dec a, dec (a + 1), dec (a + 2), dec (a + 3), dec (a + 4), dec (a + 5), dec (a + 6), dec (a + 7) with
  | some (.add 6 6 (.imm 0x1F)), some (.str 0 6 0), some (.ldi 0 o1), some (.br 3 ob), some (.ldr 0 6 0),
    some (.add 6 6 (.imm 1)), some (.sti 0 o2), some .rti =>
    viaPointer (a + 2) o1 0xFE04 && rel9 (a + 3) ob == a + 2 && viaPointer (a + 6) o2 0xFE06
  | _, _, _, _, _, _, _, _ => false

def chkPuts (a : Nat) : Bool :=
  (match dec a, dec (a + 1), dec (a + 2), dec (a + 3), dec (a + 4) with
   | some (.add 6 6 (.imm 0x1F)), some (.str 0 6 0), some (.add 6 6 (.imm 0x1F)), some (.str 1 6 0), some (.add 1 0 (.imm 0)) => true
   | _, _, _, _, _ => false) &&
  (match dec (a + 5), dec (a + 6), dec (a + 7), dec (a + 8), dec (a + 9) with
   | some (.ldr 0 1 0), some (.br 2 oe), some (.trap 0x21), some (.add 1 1 (.imm 1)), some (.br 7 ol) =>
     rel9 (a + 6) oe == a + 10 && rel9 (a + 9) ol == a + 5
   | _, _, _, _, _ => false) &&
  (match dec (a + 10), dec (a + 11), dec (a + 12), dec (a + 13), dec (a + 14) with
   | some (.ldr 1 6 0), some (.add 6 6 (.imm 1)), some (.ldr 0 6 0), some (.add 6 6 (.imm 1)), some .rti => true
   | _, _, _, _, _ => false)

def chkIn (a : Nat) : Bool :=
  match dec a, dec (a + 1), dec (a + 2), dec (a + 3), dec (a + 4) with
  | some (.lea 0 op), some (.trap 0x22), some (.trap 0x20), some (.trap 0x21), some .rti =>
    strAt (rel9 a op) 64 == str "Input character: "
  | _, _, _, _, _ => false

def chkHalt (a : Nat) : Bool :=
  match dec a, dec (a + 1), dec (a + 2) with
  | some (.and 7 7 (.imm 0)), some (.sti 7 o), some (.br 7 ob) => viaPointer (a + 1) o 0xFFFE && rel9 (a + 2) ob == a
  | _, _, _ => false

/-- exception / bad-trap handlers: LEA R0,msg ; PUTS ; HALT (or RTI for the missing-interrupt handler) -/
def chkMsg (a : Nat) (msg : String) (last : SimInstr) : Bool :=
  match dec a, dec (a + 1), dec (a + 2) with
  | some (.lea 0 op), some (.trap 0x22), some l => l == last && strAt (rel9 a op) 64 == str msg
  | _, _, _ => false

def chkPutsp (a : Nat) : Bool :=
  (match dec a, dec (a + 1), dec (a + 2), dec (a + 3), dec (a + 4), dec (a + 5), dec (a + 6), dec (a + 7), dec (a + 8) with
   | some (.add 6 6 (.imm 0x1F)), some (.str 0 6 0), some (.add 6 6 (.imm 0x1F)), some (.str 1 6 0),
     some (.add 6 6 (.imm 0x1F)), some (.str 2 6 0), some (.add 6 6 (.imm 0x1F)), some (.str 3 6 0), some (.add 1 0 (.imm 0)) => true
   | _, _, _, _, _, _, _, _, _ => false) &&
  -- loop head: load word, mask low byte, stop on zero, emit
  (match dec (a + 9), dec (a + 10), dec (a + 11), dec (a + 12), dec (a + 13) with
   | some (.ldr 2 1 0), some (.ld 0 om), some (.and 0 2 (.reg 0)), some (.br 2 oe), some (.trap 0x21) =>
     osWord (rel9 (a + 10) om) == some 0x00FF && rel9 (a + 12) oe == a + 31
   | _, _, _, _, _ => false) &&
  -- high byte by eight shift rounds
  (match dec (a + 14), dec (a + 15), dec (a + 16), dec (a + 17), dec (a + 18), dec (a + 19) with
   | some (.and 0 0 (.imm 0)), some (.and 3 3 (.imm 0)), some (.add 3 3 (.imm 8)), some (.add 3 3 (.imm 0)),
     some (.br 6 ox), some (.add 0 0 (.reg 0)) => rel9 (a + 18) ox == a + 26
   | _, _, _, _, _, _ => false) &&
  (match dec (a + 20), dec (a + 21), dec (a + 22), dec (a + 23), dec (a + 24), dec (a + 25) with
   | some (.add 2 2 (.imm 0)), some (.br 3 os), some (.add 0 0 (.imm 1)), some (.add 2 2 (.reg 2)),
     some (.add 3 3 (.imm 0x1F)), some (.br 7 ol) => rel9 (a + 21) os == a + 23 && rel9 (a + 25) ol == a + 17
   | _, _, _, _, _, _ => false) &&
  (match dec (a + 26), dec (a + 27), dec (a + 28), dec (a + 29), dec (a + 30) with
   | some (.add 0 0 (.imm 0)), some (.br 2 oe), some (.trap 0x21), some (.add 1 1 (.imm 1)), some (.br 7 ol) =>
     rel9 (a + 27) oe == a + 31 && rel9 (a + 30) ol == a + 9
   | _, _, _, _, _ => false) &&
  (match dec (a + 31), dec (a + 32), dec (a + 33), dec (a + 34), dec (a + 35), dec (a + 36), dec (a + 37), dec (a + 38), dec (a + 39) with
   | some (.ldr 3 6 0), some (.add 6 6 (.imm 1)), some (.ldr 2 6 0), some (.add 6 6 (.imm 1)), some (.ldr 1 6 0),
     some (.add 6 6 (.imm 1)), some (.ldr 0 6 0), some (.add 6 6 (.imm 1)), some .rti => true
   | _, _, _, _, _, _, _, _, _ => false)

/-- routine start address stored in a vector-table entry -/
def vec (v : Nat) : Nat := match osWord v with | some w => w.toNat | none => 0

set_option maxRecDepth 100000 in
theorem getc_listing : chkGetc (vec 0x20) = true := by decide +kernel
set_option maxRecDepth 100000 in
theorem putc_listing : chkPutc (vec 0x21) = true := by decide +kernel
set_option maxRecDepth 100000 in
theorem puts_listing : chkPuts (vec 0x22) = true := by decide +kernel
set_option maxRecDepth 100000 in
theorem in_listing : chkIn (vec 0x23) = true := by decide +kernel
set_option maxRecDepth 100000 in
theorem putsp_listing : chkPutsp (vec 0x24) = true := by decide +kernel
set_option maxRecDepth 100000 in
theorem halt_listing : chkHalt (vec 0x25) = true := by decide +kernel

set_option maxRecDepth 100000 in
/-- every other trap vector and every interrupt vector has a handler: bad trap prints its message and halts,
    missing interrupt handler prints its message and returns -/
theorem default_vectors :
    chkMsg (vec 0x00) "\n--- Bad trap executed ---" (.trap 0x25) = true ∧
    chkMsg (vec 0x26) "\n--- Bad trap executed ---" (.trap 0x25) = true ∧
    chkMsg (vec 0xFF) "\n--- Bad trap executed ---" (.trap 0x25) = true ∧
    chkMsg (vec 0x180) "\n--- Missing interrupt handler ---" .rti = true ∧
    chkMsg (vec 0x1FF) "\n--- Missing interrupt handler ---" .rti = true := by decide +kernel

end Lc3V.C11
