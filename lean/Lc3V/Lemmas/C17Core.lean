/- Lemmas/C17Core.lean — the C17 theorems proved before session 5 (`roundtrip`, `assembled_roundtrip`,
   `assembled_debug_roundtrip`, `source_roundtrip`, `wf_empty`); moved here from Props/C17.lean so that Lemmas/LinkSource
   and Lemmas/BinLink can build on them.  Namespace unchanged. -/
import Lc3V.Lemmas.BinRoundtrip2
import Lc3V.Lemmas.AssembledWF
import Lc3V.Lemmas.AssembledWFDebug
import Lc3V.Lemmas.ParserDischarge
set_option linter.unusedSimpArgs false
namespace Lc3V.C17
open Lc3V Bin

/-- the round trip, for every well-formed object file -/
theorem roundtrip (o : ObjFile) (h : WF o) : deserialize (serialize o) = some o := deserialize_serialize o h

/-- the empty object file is well-formed -/
theorem wf_empty : WF ⟨[], none⟩ := by
  refine ⟨trivial, ?_, ?_⟩
  · intro b hb; cases hb
  · intro t ht; cases ht

/-- the hypotheses are satisfiable by a file with every kind of content: two blocks (one with an uninitialised word), a
    local and an external label, a relocation entry, a line map and a source text with a non-ASCII character -/
def sample : ObjFile :=
  ⟨[(0x3000, [some 0x1021, none, some 0x0000]), (0x4000, [some 0xF025])],
   some ⟨[(['A'], ⟨0x3000, 12, false⟩), (['X'], ⟨0, 40, true⟩)], [(0x3002, ['X'])],
     some ⟨[(1, [0x3000, 0x3001, 0x3002]), (6, [0x4000])], SourceInfo.ofText ['é', '\n', 'x']⟩⟩⟩

example : WF sample := by
  refine ⟨⟨by decide, trivial⟩, ?_, ?_⟩
  · intro b hb
    simp only [sample, List.mem_cons, List.mem_nil_iff, or_false] at hb
    rcases hb with rfl | rfl <;> decide
  · intro t ht
    simp only [sample, Option.some.injEq] at ht
    subst ht
    refine ⟨by decide, ?_, by decide, ?_, ?_, Or.inl (by simp)⟩
    · intro e he
      simp only [List.mem_cons, List.mem_nil_iff, or_false] at he
      rcases he with rfl | rfl <;> decide
    · intro e he
      simp only [List.mem_cons, List.mem_nil_iff, or_false] at he
      subst he; decide
    · intro d hd
      simp only [Option.some.injEq] at hd
      subst hd
      refine ⟨⟨by decide, trivial⟩, by decide, ?_, rfl, by decide⟩
      intro e he
      simp only [List.mem_cons, List.mem_nil_iff, or_false] at he
      rcases he with rfl | rfl <;> decide

/-- **every assembled file round-trips** (assembling without debug symbols): the object file `assemble` returns is well-formed,
    hence `deserialize (serialize obj) = some obj`.  Hypotheses (guaranteed by lexer and parser for any real source): string
    literals below 64 K, label positions and label names that fit 64 bits. -/
theorem assembled_roundtrip (stmts : List Stmt) (obj : ObjFile) (h : assemble stmts none = .ok obj)
    (hstr : ∀ s ∈ stmts, ∀ x, s.nucleus = .directive (.stringz x) → blen x + 1 < 65536)
    (hlab : LabelsBounded stmts) (hfill : FillLabelsBounded stmts) :
    WF obj ∧ deserialize (serialize obj) = some obj :=
  ⟨assembled_wf_nodebug stmts obj h hstr hlab hfill, roundtrip obj (assembled_wf_nodebug stmts obj h hstr hlab hfill)⟩

/-- **every file assembled with debug symbols round-trips** as well: the line map's blocks are strictly ascending because
    `lookup_line` is injective (C24), within the field widths because the location counter never wraps.  Additional hypotheses
    (all guaranteed for parser output): statements on increasing lines, every statement with a line entry at least one word
    long, the source below 2^64 bytes. -/
theorem assembled_debug_roundtrip (stmts : List Stmt) (src : List Char) (obj : ObjFile) (h : assemble stmts (some src) = .ok obj)
    (hstr : ∀ s ∈ stmts, ∀ x, s.nucleus = .directive (.stringz x) → blen x + 1 < 65536)
    (hlab : LabelsBounded stmts) (hfill : FillLabelsBounded stmts)
    (hsized : ∀ s ∈ stmts, noLine s.nucleus = false → 1 ≤ s.nucleus.wordLen.toNat)
    (hl : LinesFrom (SourceInfo.ofText src) (SourceInfo.ofText src).countLines 0 stmts) (hsrc : blen src < 2 ^ 64) :
    WF obj ∧ deserialize (serialize obj) = some obj :=
  ⟨assembled_wf_debug stmts src obj h hstr hlab hfill hsized hl hsrc,
   roundtrip obj (assembled_wf_debug stmts src obj h hstr hlab hfill hsized hl hsrc)⟩

/-- **source level**: for ANY source text (below 2^64/12 bytes) that parses and assembles — with or without debug symbols —
    the object file is well-formed and deserializing its serialization gives it back.  All side hypotheses of
    `assembled_roundtrip` / `assembled_debug_roundtrip` are facts about parser output (Lemmas/ParserDischarge.lean). -/
theorem source_roundtrip (src : List Char) (stmts : List Stmt) (dbg : Bool) (obj : ObjFile) (hp : parseAst src = .ok stmts)
    (hsrc : 12 * blen src < 2 ^ 64) (h : assemble stmts (if dbg then some src else none) = .ok obj) :
    WF obj ∧ deserialize (serialize obj) = some obj := by
  obtain ⟨hstr, hsized, hlab, hfill, hl⟩ := parsed_program_facts src stmts hp hsrc
  cases dbg with
  | false => exact assembled_roundtrip stmts obj h hstr hlab hfill
  | true => exact assembled_debug_roundtrip stmts src obj h hstr hlab hfill hsized hl (by omega)

end Lc3V.C17
