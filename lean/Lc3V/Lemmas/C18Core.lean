/-
  Lemmas/C18Core.lean — the escape / decimal-field theorems of C18 (moved here from Props/C18 so that Lemmas/TxtBlocks can use
  them; namespace unchanged).
  C18 — Text object format round-trips every object file.   (partial)
  Proved: the part the property singles out — "whatever characters the source text contains": for every string,
  `unescaper::unescape` applied to `str::escape_default` of it gives the string back (two-character escapes, printable
  ASCII, and `\u{…}` with lower-case hex for everything else, for every Unicode scalar), with the amount of fuel the
  model's reader supplies; escaped text contains no line break, so a source line stays one table row; decimal fields
  (block lengths, line numbers, label positions) are read back as the number written.
  Not proved: the table layout (padding, `splitn`, trimming, sorting of rows), the `.TEXT` section and the composition
  into `deserialize (serialize o) = o`; these are exercised by the correspondence check: the model's writer is compared
  byte for byte with the implementation's and both readers must return the original object file.
-/
import Lc3V.Lemmas.Escape
import Lc3V.Lemmas.PrintLex
set_option linter.unusedSimpArgs false
namespace Lc3V.C18
open Lc3V Txt

/-- source text survives escaping and unescaping, for every string -/
theorem source_text_roundtrip (s : Text) : unescape ((escapeDefault s).length + 1) (escapeDefault s) [] = some s := by
  have := unescape_escapeDefault s ((escapeDefault s).length + 1) [] (by have := escapeDefault_length s; omega)
  simpa using this

/-- an escaped line never contains a line break or carriage return, so it stays one row of the line table -/
theorem escaped_has_no_newline (s : Text) : ∀ c ∈ escapeDefault s, c ≠ '\n' ∧ c ≠ '\r' := by
  intro c hc
  unfold escapeDefault at hc
  obtain ⟨x, _, hx⟩ := List.mem_flatMap.mp hc
  unfold escapeDefaultChar at hx
  repeat' split at hx
  all_goals try (simp only [List.mem_cons, List.mem_nil_iff, or_false] at hx; rcases hx with rfl | rfl <;> decide)
  · rename_i h1 h2 h3 _ _ _ _
    simp only [List.mem_singleton] at hx; subst hx
    exact ⟨h3, h2⟩
  · -- \u{hex}
    simp only [List.mem_append, List.mem_cons, List.mem_nil_iff, or_false, List.mem_map] at hx
    rcases hx with (h | h) | h
    · have : c ∈ "\\u{".toList := h
      have : c ∈ ['\\', 'u', '{'] := this
      simp only [List.mem_cons, List.mem_nil_iff, or_false] at this
      rcases this with rfl | rfl | rfl <;> decide
    · obtain ⟨d, hd, rfl⟩ := h
      have hv := char_valid_range x
      have := (hexLower_spec x.toNat (by rcases hv with h | h <;> omega)).1 d.toLower (List.mem_map.mpr ⟨d, hd, rfl⟩)
      constructor <;> (intro e; rw [e] at this; simp [toDigit] at this)
    · subst h; decide

/-- decimal fields are read back as written (`parse::<usize>` of `{}`) -/
theorem decimal_field_roundtrip (n : Nat) (hi : Int) (h : (n : Int) ≤ hi) (h0 : 0 ≤ hi) : parseUInt hi (natDigits n) = some n := by
  unfold parseUInt
  obtain ⟨d, ds, hds⟩ : ∃ d ds, natDigits n = d :: ds := by
    cases hnd : natDigits n with
    | nil => exact absurd hnd (natDigits_ne_nil _)
    | cons d ds => exact ⟨d, ds, rfl⟩
  have hdec := natDigits_isDec n
  have hall : allDigits 10 (natDigits n) := fun x hx => IsDec.digit10 (hdec x hx)
  have hs := digit_not_sign 10 (by omega) d (hall d (by rw [hds]; simp))
  rw [hds, parseInt_nosign _ _ _ _ _ _ hs.1 hs.2, ← hds]
  have := parseDigits_pos 10 (by omega) 0 hi (by omega) (natDigits n) hall 0 (by omega)
  rw [show ((0:Nat):Int) = 0 from rfl] at this
  rw [this]
  have hv : valFrom 10 (natDigits n) 0 = n := valOf_natDigits n
  rw [hv]
  simp [h]

end Lc3V.C18
