/- Lemmas/C20Core.lean — the C20 theorems proved before session 5 (block part of `link`, order independence of labels,
   relocations and image, success condition); moved here from Props/C20.lean so that the grouping theorems
   (Lemmas/LinkGroup, LinkImage, LinkSource) can build on them.  Namespace unchanged. -/
import Lc3V.Lemmas.SortedMap
import Lc3V.Lemmas.C21Core
import Lc3V.Lemmas.LinkPatch
import Lc3V.Lemmas.LinkRel
import Lc3V.Lemmas.LinkOk
set_option linter.unusedSimpArgs false
namespace Lc3V.C20
open Lc3V

theorem rangesOverlap_comm (a0 a1 b0 b1 : Nat) : rangesOverlap a0 a1 b0 b1 = rangesOverlap b0 b1 a0 a1 := by
  unfold rangesOverlap; rw [Bool.and_comm]

def linkFold (a b : Blocks) (d : Bool) : Blocks × Bool :=
  b.foldl (fun (acc : Blocks × Bool) e => ((insertBlockRaw e.1 e.2 acc.1).1, acc.2 || (insertBlockRaw e.1 e.2 acc.1).2)) (a, d)

theorem linkFold_fst (b : Blocks) : ∀ (a : Blocks) (d : Bool), (linkFold a b d).1 = insAll a b := by
  induction b with
  | nil => intro a d; rfl
  | cons y ys ih => intro a d; simp only [linkFold, insAll, List.foldl_cons, insertBlockRaw] at *; exact ih _ _

theorem any_key_iff (m : Blocks) (k : Nat) : (m.any (fun e => e.1 == k)) = true ↔ ∃ x ∈ m, x.1 = k := by
  simp [List.any_eq_true]

/-- the duplicate flag: raised exactly when some start occurs in both files -/
theorem linkFold_dup (b : Blocks) : ∀ (a : Blocks) (d : Bool), SortedKeys a → SortedKeys b →
    ((linkFold a b d).2 = true ↔ d = true ∨ CommonKey a b) := by
  induction b with
  | nil => intro a d _ _; simp [linkFold, CommonKey]
  | cons y ys ih =>
    intro a d ha hb
    have step : linkFold a (y :: ys) d = linkFold (insertSortedBy y.1 y.2 a) ys (d || a.any (fun e => e.1 == y.1)) := by
      simp only [linkFold, List.foldl_cons, insertBlockRaw]
    rw [step, ih _ _ (sorted_insertSortedBy _ _ _ ha) hb.tail]
    constructor
    · rintro (h | ⟨z, hz, w, hw, e⟩)
      · rcases Bool.or_eq_true _ _ |>.mp h with h | h
        · exact Or.inl h
        · obtain ⟨x, hx, hk⟩ := (any_key_iff a y.1).mp h
          exact Or.inr ⟨x, hx, y, by simp, hk⟩
      · rcases (mem_insertSortedBy y.1 y.2 a ha z).mp hz with rfl | ⟨hz', _⟩
        · have := hb.head_lt w hw; simp only at e; omega
        · exact Or.inr ⟨z, hz', w, List.mem_cons_of_mem _ hw, e⟩
    · rintro (h | ⟨x, hx, w, hw, e⟩)
      · left; simp [h]
      · rcases List.mem_cons.mp hw with rfl | hw'
        · left; apply Bool.or_eq_true _ _ |>.mpr; right; exact (any_key_iff a w.1).mpr ⟨x, hx, e⟩
        · by_cases hk : x.1 = y.1
          · left; apply Bool.or_eq_true _ _ |>.mpr; right; exact (any_key_iff a y.1).mpr ⟨x, hx, hk⟩
          · right; exact ⟨x, (mem_insertSortedBy y.1 y.2 a ha x).mpr (Or.inr ⟨hx, hk⟩), w, hw', e⟩

theorem commonKey_comm (a b : Blocks) : CommonKey a b ↔ CommonKey b a := by
  constructor <;> (rintro ⟨x, hx, y, hy, e⟩; exact ⟨y, hy, x, hx, e.symm⟩)

/-- the block part of linking does not depend on the order of the two files -/
theorem linkBlocks_comm (a b : Blocks) (ha : SortedKeys a) (hb : SortedKeys b) : linkBlocks a b = linkBlocks b a := by
  have e1 : ∀ x y : Blocks, linkBlocks x y = (if (linkFold x y false).2 then .error ⟨.overlappingBlocks, [(0, 0)]⟩
      else if adjacentOverlap (linkFold x y false).1 then .error ⟨.overlappingBlocks, [(0, 0)]⟩ else .ok (linkFold x y false).1) := by
    intro x y; rfl
  rw [e1 a b, e1 b a]
  by_cases hc : CommonKey a b
  · have h1 := (linkFold_dup b a false ha hb).mpr (Or.inr hc)
    have h2 := (linkFold_dup a b false hb ha).mpr (Or.inr ((commonKey_comm a b).mp hc))
    rw [h1, h2]; rfl
  · have h1 : (linkFold a b false).2 = false := by
      cases h : (linkFold a b false).2 with
      | false => rfl
      | true => rcases (linkFold_dup b a false ha hb).mp h with h' | h'; cases h'; exact absurd h' hc
    have hc' : ¬ CommonKey b a := fun h => hc ((commonKey_comm a b).mpr h)
    have h2 : (linkFold b a false).2 = false := by
      cases h : (linkFold b a false).2 with
      | false => rfl
      | true => rcases (linkFold_dup a b false hb ha).mp h with h' | h'; cases h'; exact absurd h' hc'
    have heq : (linkFold a b false).1 = (linkFold b a false).1 := by
      rw [linkFold_fst, linkFold_fst]
      apply sorted_ext _ _ (sorted_insAll b a ha) (sorted_insAll a b hb)
      intro x
      rw [mem_insAll b a ha hb hc x, mem_insAll a b hb ha hc' x]
      exact Or.comm
    rw [h1, h2, heq]

/-- a successful link keeps the block map sorted, so results can be linked again -/
theorem linkBlocks_sorted (a b r : Blocks) (ha : SortedKeys a) (h : linkBlocks a b = .ok r) : SortedKeys r := by
  have e1 : linkBlocks a b = (if (linkFold a b false).2 then .error ⟨.overlappingBlocks, [(0, 0)]⟩
      else if adjacentOverlap (linkFold a b false).1 then .error ⟨.overlappingBlocks, [(0, 0)]⟩ else .ok (linkFold a b false).1) := rfl
  rw [e1] at h
  split at h
  · cases h
  · split at h
    · cases h
    · cases h; rw [linkFold_fst]; exact sorted_insAll b a ha

/-! ### the block part succeeds exactly when the blocks are disjoint -/

/-- two blocks are disjoint: one ends at or before the start of the other -/
def BlkBefore (x y : Nat × List (Option W)) : Prop := x.1 + x.2.length ≤ y.1

/-- on a map sorted by start, testing only neighbours finds every overlapping pair -/
theorem adjacent_iff_pairwise : ∀ (m : Blocks), SortedKeys m → (adjacentOverlap m = false ↔ m.Pairwise BlkBefore) := by
  intro m
  induction m with
  | nil => intro _; simp [adjacentOverlap]
  | cons x rest ih =>
    intro hs
    obtain ⟨a, ab⟩ := x
    have hlt := hs.head_lt
    cases rest with
    | nil => simp [adjacentOverlap]
    | cons y ys =>
      obtain ⟨b, bb⟩ := y
      have hab : a < b := hlt (b, bb) (by simp)
      have ihh := ih hs.tail
      simp only [adjacentOverlap, Bool.or_eq_false_iff]
      constructor
      · rintro ⟨h1, h2⟩
        have hp := ihh.mp h2
        have hfirst : a + ab.length ≤ b := by
          simp only [rangesOverlap, Bool.and_eq_false_iff, decide_eq_false_iff_not, Nat.not_lt] at h1
          rcases h1 with h | h
          · omega
          · exact h
        refine List.pairwise_cons.mpr ⟨fun z hz => ?_, hp⟩
        rcases List.mem_cons.mp hz with rfl | hz
        · exact hfirst
        · have := (List.pairwise_cons.mp hp).1 z hz
          unfold BlkBefore at *
          simp only at *
          omega
      · intro hp
        have hp' := List.pairwise_cons.mp hp
        refine ⟨?_, ihh.mpr hp'.2⟩
        have := hp'.1 (b, bb) (by simp)
        unfold BlkBefore at this
        simp only at this
        simp only [rangesOverlap, Bool.and_eq_false_iff, decide_eq_false_iff_not, Nat.not_lt]
        exact Or.inr this

/-- **the block part of linking succeeds exactly when no start occurs in both files and the union of the blocks is pairwise
    disjoint**; the result is then that union, sorted by start -/
theorem linkBlocks_ok_iff (a b : Blocks) (ha : SortedKeys a) (hb : SortedKeys b) :
    (∃ r, linkBlocks a b = .ok r) ↔ (¬ CommonKey a b ∧ (insAll a b).Pairwise BlkBefore) := by
  have e1 : linkBlocks a b = (if (linkFold a b false).2 then .error ⟨.overlappingBlocks, [(0, 0)]⟩
      else if adjacentOverlap (linkFold a b false).1 then .error ⟨.overlappingBlocks, [(0, 0)]⟩ else .ok (linkFold a b false).1) := rfl
  have hdup := linkFold_dup b a false ha hb
  have hsorted : SortedKeys (insAll a b) := sorted_insAll b a ha
  rw [e1, linkFold_fst]
  constructor
  · rintro ⟨r, h⟩
    split at h
    · cases h
    · rename_i hd
      split at h
      · cases h
      · rename_i hadj
        refine ⟨fun hc => hd (hdup.mpr (Or.inr hc)), (adjacent_iff_pairwise _ hsorted).mp (by simpa using hadj)⟩
  · rintro ⟨hc, hp⟩
    have hd : (linkFold a b false).2 = false := by
      cases h : (linkFold a b false).2 with
      | false => rfl
      | true => rcases hdup.mp h with h' | h'; cases h'; exact absurd h' hc
    have hadj := (adjacent_iff_pairwise _ hsorted).mpr hp
    exact ⟨insAll a b, by simp [hd, hadj]⟩

/-- and then the result holds exactly the blocks of both files -/
theorem linkBlocks_members (a b r : Blocks) (ha : SortedKeys a) (hb : SortedKeys b) (h : linkBlocks a b = .ok r) :
    ∀ x, x ∈ r ↔ x ∈ a ∨ x ∈ b := by
  have hok := (linkBlocks_ok_iff a b ha hb).mp ⟨r, h⟩
  have e1 : linkBlocks a b = (if (linkFold a b false).2 then .error ⟨.overlappingBlocks, [(0, 0)]⟩
      else if adjacentOverlap (linkFold a b false).1 then .error ⟨.overlappingBlocks, [(0, 0)]⟩ else .ok (linkFold a b false).1) := rfl
  rw [e1] at h
  split at h
  · cases h
  · split at h
    · cases h
    · cases h
      rw [linkFold_fst]
      exact mem_insAll b a ha hb hok.1

/-! ### the merged label table does not depend on the order -/

theorem lookupKey_none_iff (m : List (Key × SymData)) (K : Key) : lookupKey m K = none → ∀ e ∈ m, (e.1 == K) = false := by
  intro h e he
  unfold lookupKey at h
  have : m.find? (fun e => e.1 == K) = none := by
    cases hf : m.find? (fun e => e.1 == K) with
    | none => rfl
    | some x => rw [hf] at h; cases h
  have := List.find?_eq_none.mp this e he
  simpa using this

theorem lookupKey_some_mem (m : List (Key × SymData)) (K : Key) (d : SymData) (h : lookupKey m K = some d) : (K, d) ∈ m := by
  unfold lookupKey at h
  cases hf : m.find? (fun e => e.1 == K) with
  | none => rw [hf] at h; cases h
  | some x =>
    rw [hf] at h
    simp only [Option.map_some, Option.some.injEq] at h
    have hx := List.find?_some hf
    have hm := List.mem_of_find?_eq_some hf
    have : x.1 = K := by simpa using hx
    rw [← this, ← h]
    exact hm

/-- the part of a table entry that must not depend on the link order: address and external flag -/
def core (d : SymData) : W × Bool := (d.addr, d.ext)

/-- **order independence of the merged labels**: if both `link a b` and `link b a` get through their label folds, every key
    has the same address and external flag in both results (source positions differ by the shift of the combined source).
    Tables have unique keys and external declarations carry address 0, as in every assembled file. -/
theorem labels_order_independent (f g : Key × SymData → Key × SymData)
    (hf : ∀ e, (f e).1 = e.1 ∧ core (f e).2 = core e.2) (hg : ∀ e, (g e).1 = e.1 ∧ core (g e).2 = core e.2)
    (la lb : List (Key × SymData)) (hua : la.Pairwise (fun x y => (x.1 == y.1) = false)) (hub : lb.Pairwise (fun x y => (x.1 == y.1) = false))
    (hza : ∀ e ∈ la, e.2.ext = true → e.2.addr = 0) (hzb : ∀ e ∈ lb, e.2.ext = true → e.2.addr = 0)
    (ra rb : List (W × Key)) (sab sba : LinkSt)
    (hab : lb.foldlM (fun s e => linkLabel s (f e)) ⟨la, ra, []⟩ = .ok sab)
    (hba : la.foldlM (fun s e => linkLabel s (g e)) ⟨lb, rb, []⟩ = .ok sba) (K : Key) :
    (lookupKey sab.labels K).map core = (lookupKey sba.labels K).map core := by
  obtain ⟨p1, p2, p3⟩ := linkFold_pointwise f (fun e => (hf e).1) lb _ sab hub hab
  obtain ⟨q1, q2, q3⟩ := linkFold_pointwise g (fun e => (hg e).1) la _ sba hua hba
  simp only at p1 p2 p3 q1 q2 q3
  have cf : ∀ e, core (f e).2 = core e.2 := fun e => (hf e).2
  have cg : ∀ e, core (g e).2 = core e.2 := fun e => (hg e).2
  cases hla : lookupKey la K with
  | none =>
    cases hlb : lookupKey lb K with
    | none =>
      rw [p1 K (lookupKey_none_iff lb K hlb), q1 K (lookupKey_none_iff la K hla), hla, hlb]
    | some bd =>
      have hm := lookupKey_some_mem lb K bd hlb
      rw [p2 (K, bd) hm, q1 K (lookupKey_none_iff la K hla), hla, hlb]
      simp only [combineSym, Option.map_some]
      rw [cf (K, bd)]
  | some ad =>
    have hma := lookupKey_some_mem la K ad hla
    cases hlb : lookupKey lb K with
    | none =>
      rw [p1 K (lookupKey_none_iff lb K hlb), q2 (K, ad) hma, hla, hlb]
      simp only [combineSym, Option.map_some]
      rw [cg (K, ad)]
    | some bd =>
      have hmb := lookupKey_some_mem lb K bd hlb
      rw [p2 (K, bd) hmb, q2 (K, ad) hma, hla, hlb]
      have e1 := cf (K, bd)
      have e2 := cg (K, ad)
      simp only [core, Prod.mk.injEq] at e1 e2
      have sameAB := p3 (K, bd) hmb ad hla
      have za := hza (K, ad) hma
      have zb := hzb (K, bd) hmb
      simp only at sameAB za zb
      simp only [combineSym, Option.map_some, core]
      cases hae : ad.ext <;> cases hbe : bd.ext <;> simp [hae, hbe, e1.2, e2.2, e1.1, e2.1]
      · have := sameAB hae (by rw [e1.2]; exact hbe)
        rw [this, e1.1]
      · rw [za hae, zb hbe]


theorem sortedKeys_pairwise_ne {α : Type} : ∀ (m : List (Nat × α)), SortedKeys m → m.Pairwise (fun x y => x.1 ≠ y.1) := by
  intro m
  induction m with
  | nil => intro _; exact List.Pairwise.nil
  | cons a rest ih =>
    intro h
    refine List.Pairwise.cons ?_ (ih h.tail)
    intro b hb
    have := h.head_lt b hb
    omega

/-- **`link a b` and `link b a` agree** (files with symbol tables, sorted block maps, tables with unique keys, externals at
    address 0, relocation tables with one entry per address and no address in common — all true of assembled files whose
    blocks do not overlap): both succeed or both fail in the block part; when both succeed they give the same block map
    before patching, the same address and external flag for every label, the same pending relocation entries and the same
    memory image cell by cell. -/
theorem link_order_independent (a b rab rba : ObjFile) (ta tb : SymTab) (hsa : a.sym = some ta) (hsb : b.sym = some tb)
    (hka : SortedKeys a.blocks) (hkb : SortedKeys b.blocks)
    (hua : ta.labels.Pairwise (fun x y => (x.1 == y.1) = false)) (hub : tb.labels.Pairwise (fun x y => (x.1 == y.1) = false))
    (hza : ∀ e ∈ ta.labels, e.2.ext = true → e.2.addr = 0) (hzb : ∀ e ∈ tb.labels, e.2.ext = true → e.2.addr = 0)
    (hra : ta.rel.Pairwise (fun x y => x.1 ≠ y.1)) (hrb : tb.rel.Pairwise (fun x y => x.1 ≠ y.1))
    (hdisj : ∀ x ∈ ta.rel, ∀ y ∈ tb.rel, x.1 ≠ y.1)
    (hab : ObjFile.link a b = .ok rab) (hba : ObjFile.link b a = .ok rba) :
    ∃ tab tba, rab.sym = some tab ∧ rba.sym = some tba ∧
      (∀ K, (lookupKey tab.labels K).map core = (lookupKey tba.labels K).map core) ∧
      (∀ r, r ∈ tab.rel ↔ r ∈ tba.rel) ∧
      (∀ A, cell rab.blocks A = cell rba.blocks A) := by
  unfold ObjFile.link at hab hba
  rw [linkBlocks_comm b.blocks a.blocks hkb hka] at hba
  cases hbl : linkBlocks a.blocks b.blocks with
  | error e => rw [hbl] at hab; cases hab
  | ok blocks =>
    rw [hbl] at hab hba
    rw [hsa, hsb] at hab hba
    dsimp only at hab hba
    have hsorted := linkBlocks_sorted a.blocks b.blocks blocks hka hbl
    have hu := sortedKeys_pairwise_ne blocks hsorted
    unfold linkSyms at hab hba
    dsimp only at hab hba
    cases h1 : tb.labels.foldlM (fun st e => linkLabel st (e.1, { e.2 with srcStart := satAdd e.2.srcStart (linkShift ta tb) }))
        ⟨ta.labels, tb.rel.foldl (fun m e => relInsert m e.1 e.2) ta.rel, []⟩ with
    | error e => rw [h1] at hab; cases hab
    | ok sab =>
      cases h2 : ta.labels.foldlM (fun st e => linkLabel st (e.1, { e.2 with srcStart := satAdd e.2.srcStart (linkShift tb ta) }))
          ⟨tb.labels, ta.rel.foldl (fun m e => relInsert m e.1 e.2) tb.rel, []⟩ with
      | error e => rw [h2] at hba; cases hba
      | ok sba =>
        rw [h1] at hab
        rw [h2] at hba
        cases hab; cases hba
        obtain ⟨q1, _, q3⟩ := Lc3V.link_order_independent
          (fun e => (e.1, { e.2 with srcStart := satAdd e.2.srcStart (linkShift ta tb) }))
          (fun e => (e.1, { e.2 with srcStart := satAdd e.2.srcStart (linkShift tb ta) }))
          (fun _ => ⟨rfl, rfl, rfl⟩) (fun _ => ⟨rfl, rfl, rfl⟩) ta.labels tb.labels hua hub ta.rel tb.rel hra hrb hdisj sab sba h1 h2 blocks hu
        have q0 := labels_order_independent
          (fun e => (e.1, { e.2 with srcStart := satAdd e.2.srcStart (linkShift ta tb) }))
          (fun e => (e.1, { e.2 with srcStart := satAdd e.2.srcStart (linkShift tb ta) }))
          (fun _ => ⟨rfl, rfl⟩) (fun _ => ⟨rfl, rfl⟩) ta.labels tb.labels hua hub hza hzb _ _ sab sba h1 h2
        exact ⟨_, _, rfl, rfl, q0, q1, q3⟩



/-- **when linking two files with symbol tables succeeds**: exactly when no block start occurs in both files, the union
    of the blocks is pairwise disjoint, and no label is defined (non-external) in both files at different addresses -/
theorem link_ok_iff (a b : ObjFile) (ta tb : SymTab) (hsa : a.sym = some ta) (hsb : b.sym = some tb)
    (hka : SortedKeys a.blocks) (hkb : SortedKeys b.blocks)
    (hub : tb.labels.Pairwise (fun x y => (x.1 == y.1) = false)) :
    (∃ r, ObjFile.link a b = .ok r) ↔
      (¬ CommonKey a.blocks b.blocks ∧ (insAll a.blocks b.blocks).Pairwise BlkBefore ∧
       ∀ e ∈ tb.labels, ∀ ad, lookupKey ta.labels e.1 = some ad → ad.ext = false → e.2.ext = false → ad.addr = e.2.addr) := by
  have hconf : ∀ e : Key × SymData, conflictIn ta.labels (e.1, { e.2 with srcStart := satAdd e.2.srcStart (linkShift ta tb) }) = false ↔
      (∀ ad, lookupKey ta.labels e.1 = some ad → ad.ext = false → e.2.ext = false → ad.addr = e.2.addr) := by
    intro e
    unfold conflictIn
    dsimp only
    cases hl : lookupKey ta.labels e.1 with
    | none => simp
    | some ad =>
      simp only [Option.some.injEq, forall_eq']
      cases hae : ad.ext <;> cases hbe : e.2.ext <;> simp [hae, hbe]
  have hfold := linkFold_ok_iff (fun e => (e.1, { e.2 with srcStart := satAdd e.2.srcStart (linkShift ta tb) })) (fun _ => rfl)
    tb.labels ⟨ta.labels, tb.rel.foldl (fun m e => relInsert m e.1 e.2) ta.rel, []⟩ hub
  constructor
  · rintro ⟨r, h⟩
    unfold ObjFile.link at h
    cases hbl : linkBlocks a.blocks b.blocks with
    | error e => rw [hbl] at h; cases h
    | ok blocks =>
      rw [hbl, hsa, hsb] at h
      dsimp only at h
      obtain ⟨c1, c2⟩ := (linkBlocks_ok_iff a.blocks b.blocks hka hkb).mp ⟨blocks, hbl⟩
      refine ⟨c1, c2, ?_⟩
      unfold linkSyms at h
      dsimp only at h
      cases hf : tb.labels.foldlM (fun st e => linkLabel st (e.1, { e.2 with srcStart := satAdd e.2.srcStart (linkShift ta tb) }))
          ⟨ta.labels, tb.rel.foldl (fun m e => relInsert m e.1 e.2) ta.rel, []⟩ with
      | error e => rw [hf] at h; cases h
      | ok st =>
        have := hfold.mp ⟨st, hf⟩
        intro e he
        exact (hconf e).mp (this e he)
  · rintro ⟨c1, c2, c3⟩
    obtain ⟨blocks, hbl⟩ := (linkBlocks_ok_iff a.blocks b.blocks hka hkb).mpr ⟨c1, c2⟩
    obtain ⟨st, hf⟩ := hfold.mpr (fun e he => (hconf e).mpr (c3 e he))
    refine ⟨⟨st.relocs.foldl (fun m r => patchWord m r.1 r.2) blocks, some ⟨st.labels, st.rel, linkDebug ta tb⟩⟩, ?_⟩
    unfold ObjFile.link
    rw [hbl, hsa, hsb]
    dsimp only
    unfold linkSyms
    dsimp only
    rw [hf]

end Lc3V.C20
