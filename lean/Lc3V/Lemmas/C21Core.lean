/- Lemmas/C21Core.lean — the C21 theorems proved before session 5; moved here from Props/C21.lean so that the link
   theorems (Lemmas/C20Core …) can keep using them while Props/C21 builds on Lemmas/LinkSource.  Namespace unchanged. -/
import Lc3V.Model.Asm
import Lc3V.Props.C29
import Lc3V.Lemmas.TwoPass
import Lc3V.Lemmas.LinkPatch
import Lc3V.Lemmas.RelOwn
import Lc3V.Lemmas.ErrSpans
import Lc3V.Lemmas.ParserDischarge
import Lc3V.Props.C01
set_option linter.unusedSimpArgs false
namespace Lc3V.C21
open Lc3V

def isExternalIn (labels : List (Key × SymData)) (k : Key) : Bool :=
  match lookupKey labels k with | some ⟨_, _, true⟩ => true | _ => false

/-- every relocation entry of an assembled file names a label that is external at the end of pass 1 -/
theorem rel_entries_are_external (stmts : List Stmt) (src : Option (List Char)) (t : SymTab) (h : pass1 stmts src = .ok t) :
    ∀ e ∈ t.rel, isExternalIn t.labels e.2 = true := by
  unfold pass1 at h
  split at h
  · cases h
  · rename_i st hst
    unfold p1Finish at h
    split at h
    · cases h
    · cases h
      intro e he
      have := (List.mem_filter.mp he).2
      exact this

/-- a labelled `.fill` inside a block always records a candidate entry, whatever is known about the label at that point -/
theorem fill_records_candidate (st : P1) (stmt : Stmt) (labels : List (Key × SymData)) (l : Label) (cur : Cursor)
    (hn : stmt.nucleus = .directive (.fill (.label l))) (hc : st.cursor = some cur) :
    p1Special st stmt labels = .ok (st.cursor, labels, relInsert st.rel cur.lc (upperS l.name)) := by
  unfold p1Special
  simp only [hn, hc]

/-- the symbol table survives assembling without debug symbols when an external label is declared -/
theorem externals_keep_symbol_table (stmts : List Stmt) (t : SymTab) (debug : Bool) (o : ObjFile)
    (h : pass2 stmts t debug = .ok o) (he : t.labels.any (fun e => e.2.ext) = true) : o.sym = some t := by
  unfold pass2 at h
  split at h
  · cases h
  · cases h; simp [he]

/-- an object file with a symbol table lists its external labels; non-empty exactly when one is declared -/
theorem external_symbols_nonempty (o : ObjFile) (t : SymTab) (hs : o.sym = some t) (k : Key) (d : SymData)
    (hm : (k, d) ∈ t.labels) (he : d.ext = true) : o.externalSymbols ≠ [] := by
  unfold ObjFile.externalSymbols
  rw [hs]
  intro hnil
  have : k ∈ (t.labels.filter (fun e => e.2.ext)).map (·.1) := List.mem_map.mpr ⟨(k, d), List.mem_filter.mpr ⟨hm, he⟩, rfl⟩
  have hnil' : (t.labels.filter (fun e => e.2.ext)).map (·.1) = [] := hnil
  rw [hnil'] at this
  cases this

/-- loading is refused (and the machine untouched) while an external label is unresolved -/
theorem load_refused (s : Sim) (blocks : List (W × List (Option W))) :
    s.loadObj blocks true = (.error .unresolvedExternal, s) := (C29.load_frame s blocks true).2 rfl

/-- linking an external declaration with a definition: the label becomes the definition, its relocation entries (and only
    those) are consumed and become patches of the defining address -/
theorem link_resolves (st : LinkSt) (label : Key) (ad bd : SymData) (hl : lookupKey st.labels label = some ad)
    (hx : ad.ext ≠ bd.ext) :
    linkLabel st (label, bd) = .ok
      ⟨setKey st.labels label (if ad.ext then bd else ad), st.rel.filter (fun r => !(r.2 == label)),
       st.relocs ++ (st.rel.filter (fun r => r.2 == label)).map (fun r => (r.1, (if ad.ext then bd else ad).addr))⟩ := by
  unfold linkLabel
  dsimp only
  rw [hl]
  dsimp only
  have h1 : (ad.ext && bd.ext) = false := by cases ha : ad.ext <;> cases hb : bd.ext <;> simp_all
  have h2 : (ad.ext || bd.ext) = true := by cases ha : ad.ext <;> cases hb : bd.ext <;> simp_all
  simp only [h1, h2, Bool.false_eq_true, if_false, if_true, List.partition_eq_filter_filter]
  congr 2

/-- a patch at an address inside a block sets exactly that word -/
theorem patch_sets_word (start : Nat) (block : List (Option W)) (addr v : W) (h1 : start ≤ addr.toNat)
    (h2 : addr.toNat - start < block.length) :
    patchWord [(start, block)] addr v = [(start, block.set (addr.toNat - start) (some v))] := by
  unfold patchWord
  simp [h1, h2]

/-- an `.external` declaration of a name not bound before makes the name external in the label table after that statement -/
theorem external_declared (st st' : P1) (stmt : Stmt) (l : Label) (h : pass1Step st stmt = .ok st')
    (hn : stmt.nucleus = .directive (.external l)) (hl : stmt.labels = [])
    (hfresh : lookupKey st.labels (upperS l.name) = none) :
    ∃ d, lookupKey st'.labels (upperS l.name) = some d ∧ d.ext = true := by
  unfold pass1Step at h
  have h1 : p1Labels st stmt = .ok st.labels := by unfold p1Labels; simp [hl]
  rw [h1] at h
  dsimp only at h
  have h2 : p1Special st stmt st.labels = .ok (st.cursor, st.labels ++ [(upperS l.name, ⟨0, l.start, true⟩)], st.rel) := by
    unfold p1Special
    simp only [hn, addLabel, hfresh]
  rw [h2] at h
  dsimp only at h
  have hfin : st'.labels = st.labels ++ [(upperS l.name, ⟨0, l.start, true⟩)] := by
    unfold p1Advance at h
    split at h
    · cases h; rfl
    · dsimp only at h; split at h
      · cases h
      · cases h; rfl
  rw [hfin]
  exact ⟨_, C01.lookupKey_append_new _ _ _ hfresh, rfl⟩

/-- **never silently unresolved**: a program that declares a name external (not bound earlier in the file) assembles — with
    or without debug symbols — to an object file whose loading is refused with `UnresolvedExternal`, the machine unchanged -/
theorem unresolved_external_refuses_load (pre post : List Stmt) (stmt : Stmt) (l : Label) (src : Option (List Char)) (o : ObjFile)
    (ha : assemble (pre ++ stmt :: post) src = .ok o)
    (hn : stmt.nucleus = .directive (.external l)) (hl : stmt.labels = [])
    (hfresh : ∀ p1, pre.foldlM pass1Step (p1Init src) = .ok p1 → lookupKey p1.labels (upperS l.name) = none)
    (s : Sim) (blocks : List (W × List (Option W))) :
    o.externalSymbols ≠ [] ∧ s.loadObj blocks (!o.externalSymbols.isEmpty) = (.error .unresolvedExternal, s) := by
  unfold assemble at ha
  split at ha
  · cases ha
  · rename_i t ht
    -- pass 1: the name is external in the final table
    have hext : ∃ d, lookupKey t.labels (upperS l.name) = some d ∧ d.ext = true := by
      unfold pass1 at ht
      split at ht
      · cases ht
      · rename_i st hfold
        obtain ⟨p1, hpre, hrest⟩ := foldlM_append_ok pass1Step pre (stmt :: post) (p1Init src) st hfold
        rw [List.foldlM_cons] at hrest
        cases hs : pass1Step p1 stmt with
        | error e => rw [hs] at hrest; cases hrest
        | ok p1s =>
          rw [hs] at hrest
          obtain ⟨d, hd, he⟩ := external_declared p1 p1s stmt l hs hn hl (hfresh p1 hpre)
          have hkeep := pass1_fold_keeps post p1s st hrest
          unfold p1Finish at ht
          split at ht
          · cases ht
          · cases ht; exact ⟨d, hkeep _ _ hd, he⟩
    obtain ⟨d, hd, he⟩ := hext
    have hmem := C23mem t.labels _ d hd
    have hany : t.labels.any (fun e => e.2.ext) = true := List.any_eq_true.mpr ⟨_, hmem, he⟩
    have hsym := externals_keep_symbol_table _ t src.isSome o ha hany
    have hne := external_symbols_nonempty o t hsym _ d hmem he
    refine ⟨hne, ?_⟩
    have : (!o.externalSymbols.isEmpty) = true := by
      cases hx : o.externalSymbols with
      | nil => exact absurd hx hne
      | cons a b => rfl
    rw [this]
    exact load_refused s blocks
where
  C23mem (m : List (Key × SymData)) (k : Key) (d : SymData) (h : lookupKey m k = some d) : (k, d) ∈ m := by
    unfold lookupKey at h
    cases hf : List.find? (fun e => e.1 == k) m with
    | none => rw [hf] at h; cases h
    | some x =>
      rw [hf] at h
      have h1 := List.find?_some hf
      have h2 := List.mem_of_find?_eq_some hf
      simp only [Option.map_some, Option.some.injEq] at h
      have : x.1 = k := by simpa using h1
      obtain ⟨xk, xd⟩ := x
      simp only at this h
      subst this; subst h
      exact h2

/-- **after linking in a file that defines the label, the word holds the label's address.**  File A declares `K` external and has
    a relocation entry `(A, K)` (its `.fill K` at address `A`); file B defines `K` at address `V` (first entry for `K` in its
    table, not external).  With the merged relocation table holding one entry per address and the cell `A` lying inside a block
    of the merged image, the symbol-table part of `link` succeeds only with a result whose image holds `V` at `A`. -/
theorem link_fills_external (at_ bt : SymTab) (blocks : Blocks) (r : ObjFile) (K : Key) (ad bd : SymData) (A : W)
    (pre post : List (Key × SymData))
    (hA : (A, K) ∈ bt.rel.foldl (fun m e => relInsert m e.1 e.2) at_.rel)
    (hUA : (bt.rel.foldl (fun m e => relInsert m e.1 e.2) at_.rel).Pairwise (fun x y => x.1 ≠ y.1))
    (hl : lookupKey at_.labels K = some ad) (hext : ad.ext = true)
    (hb : bt.labels = pre ++ (K, bd) :: post) (hpre : ∀ e ∈ pre, (e.1 == K) = false) (hdef : bd.ext = false)
    (hu : blocks.Pairwise (fun x y => x.1 ≠ y.1)) (hcell : (cell blocks A).isSome = true)
    (h : linkSyms at_ bt blocks = .ok r) : cell r.blocks A = some (some bd.addr) := by
  unfold linkSyms at h
  dsimp only at h
  rw [hb] at h
  cases hf : (pre ++ (K, bd) :: post).foldlM (fun st e => linkLabel st (e.1, { e.2 with srcStart := satAdd e.2.srcStart (linkShift at_ bt) }))
      ⟨at_.labels, bt.rel.foldl (fun m e => relInsert m e.1 e.2) at_.rel, []⟩ with
  | error e => rw [hf] at h; cases h
  | ok stf =>
    rw [hf] at h
    cases h
    obtain ⟨h1, h2⟩ := linkFold_resolves (fun e => (e.1, { e.2 with srcStart := satAdd e.2.srcStart (linkShift at_ bt) }))
      (fun _ => rfl) (fun _ => ⟨rfl, rfl⟩) _ stf pre post K ad bd A hpre hl hext hdef hA hUA (fun r hr => by cases hr) hf
    exact patch_fold A bd.addr stf.relocs blocks hu hcell (fun r hr => h2 r hr) (Or.inr h1)

/-- **every `.fill EXT` owns its relocation entry, for any source text.**  `src` parses to `stmts` and assembles to `obj`; `s` is a
    `.fill LABEL` statement of the program and the label is external in the pass-1 table `t`.  Then the object file keeps `t`,
    the program is a sequence of blocks in which `s` sits at `b.a + size(pre)`, the relocation table holds exactly that
    address with the label's name, and loading the file is refused with `UnresolvedExternal` (machine unchanged). -/
theorem source_fill_external_owns_entry (src : List Char) (stmts : List Stmt) (dbg : Bool) (obj : ObjFile)
    (hp : parseAst src = .ok stmts) (ha : assemble stmts (if dbg then some src else none) = .ok obj)
    (s : Stmt) (hsm : s ∈ stmts) (l : Label) (hs : s.nucleus = .directive (.fill (.label l)))
    (t : SymTab) (hp1 : pass1 stmts (if dbg then some src else none) = .ok t)
    (d : SymData) (hd : lookupKey t.labels (upperS l.name) = some d) (hext : d.ext = true)
    (sim : Sim) (blocks : List (W × List (Option W))) :
    obj.sym = some t ∧
    (∃ (before : List Blk) (b : Blk) (after : List Blk) (tail pre post : List Stmt),
      stmts = (before ++ b :: after).flatMap Blk.stmts ++ tail ∧ b.WF ∧ b.body = pre ++ s :: post ∧
      (b.a + sizeOf' pre, upperS l.name) ∈ t.rel) ∧
    obj.externalSymbols ≠ [] ∧ sim.loadObj blocks (!obj.externalSymbols.isEmpty) = (.error .unresolvedExternal, sim) := by
  obtain ⟨hstr, hsized, _⟩ := parsed_program_lines src stmts hp
  obtain ⟨blks, tail, t', hprog, hwf, hp1', hexts, hsorted, hall, hmem⟩ := C01.assembled_image_any stmts _ obj ha
  rw [hp1] at hp1'; cases hp1'
  subst hprog
  have htail : ∀ x ∈ tail, isOrigEnd x.nucleus = false := by
    intro x hx
    have := hexts.2 x hx
    cases hn : x.nucleus with
    | instr i => rfl
    | directive d => rw [hn] at this; cases d <;> first | rfl | cases this
  -- pass 2 succeeded: blocks clear of each other; symbol table kept because an external label exists
  have hmemlab : (upperS l.name, d) ∈ t.labels := lookupKey_mem t.labels _ d hd
  have hany : t.labels.any (fun e => e.2.ext) = true := List.any_eq_true.mpr ⟨_, hmemlab, hext⟩
  have hp2 : ∃ st, (blks.flatMap Blk.stmts ++ tail).foldlM (pass2Step t) ⟨[], none⟩ = .ok st ∧ obj.sym = some t := by
    unfold assemble at ha
    rw [hp1] at ha
    dsimp only at ha
    have hsym := externals_keep_symbol_table _ t _ obj ha hany
    unfold pass2 at ha
    cases hf : (blks.flatMap Blk.stmts ++ tail).foldlM (pass2Step t) ⟨[], none⟩ with
    | error e => rw [hf] at ha; cases ha
    | ok st => exact ⟨st, rfl, hsym⟩
  obtain ⟨st2, hf2, hsym⟩ := hp2
  have hclear := (pass2_accepted_clear t blks [] tail st2 hwf htail ⟨List.Pairwise.nil, fun x hx => by cases hx⟩ hf2).1
  have hws : ∀ b ∈ blks, ∃ ws, bodyWords t b.a b.body = .ok ws := fun b hb => let ⟨ws, hw, _⟩ := hall b hb; ⟨ws, hw⟩
  have hmemstmt : ∀ b ∈ blks, ∀ x ∈ b.body, x ∈ blks.flatMap Blk.stmts ++ tail := by
    intro b hb x hx
    apply List.mem_append_left
    exact List.mem_flatMap.mpr ⟨b, hb, by unfold Blk.stmts; simp [hx]⟩
  have hsz : ∀ b ∈ blks, Sized b.body := fun b hb x hx hn => hsized x (hmemstmt b hb x hx) hn
  have hss : ∀ b ∈ blks, ShortStrings b.body := fun b hb x hx y hy => hstr x (hmemstmt b hb x hx) y hy
  -- where `s` sits
  have hin : ∃ b ∈ blks, s ∈ b.body := by
    rcases List.mem_append.mp hsm with h1 | h1
    · obtain ⟨b, hb, hsb⟩ := List.mem_flatMap.mp h1
      refine ⟨b, hb, ?_⟩
      unfold Blk.stmts at hsb
      have hbw := hwf b hb
      rcases List.mem_append.mp hsb with h2 | h2
      · have := hexts.1 b hb s h2; rw [hs] at this; cases this
      · rcases List.mem_cons.mp h2 with h3 | h3
        · rw [h3, hbw.orig] at hs; cases hs
        · rcases List.mem_append.mp h3 with h4 | h4
          · exact h4
          · simp only [List.mem_singleton] at h4
            rw [h4, hbw.end_] at hs; cases hs
    · have := hexts.2 s h1; rw [hs] at this; cases this
  obtain ⟨b, hb, hsb⟩ := hin
  obtain ⟨before, after, hblks⟩ := List.append_of_mem hb
  obtain ⟨pre, post, hbody⟩ := List.append_of_mem hsb
  subst hblks
  have hentry := fill_external_owns_entry before b after tail pre post s l _ t hwf htail hbody hs hp1 hws hclear hsz hss d hd hext
  refine ⟨hsym, ⟨before, b, after, tail, pre, post, rfl, hwf b hb, hbody, hentry⟩, ?_⟩
  have hne := external_symbols_nonempty obj t hsym _ d hmemlab hext
  refine ⟨hne, ?_⟩
  have : (!obj.externalSymbols.isEmpty) = true := by
    cases hx : obj.externalSymbols with
    | nil => exact absurd hx hne
    | cons a r => rfl
  rw [this]
  exact load_refused sim blocks

end Lc3V.C21
