/- Lemmas/C22Core.lean — the C22 theorems at the level of the debug symbols (moved out of Props/C22.lean so that
   Lemmas/ParserFacts.lean and the source-level theorem of Props/C22.lean can both build on them). -/
import Lc3V.Lemmas.SortedMap
import Lc3V.Props.C25
import Lc3V.Lemmas.SourceLines
set_option linter.unusedSimpArgs false
namespace Lc3V.C22
open Lc3V SourceInfo

theorem nlFrom_append (a b : List Char) : ∀ off, nlFrom off (a ++ b) = nlFrom off a ++ nlFrom (off + blen a) b := by
  induction a with
  | nil => intro off; simp [nlFrom, blen]
  | cons c cs ih =>
    intro off
    simp only [List.cons_append, nlFrom, blen]
    by_cases h : c = '\n'
    · subst h
      simp only [if_true, List.cons_append]
      rw [ih (off + 1)]
      have : ('\n' : Char).utf8Size = 1 := by decide
      rw [this, Nat.add_assoc]
    · simp only [h, if_false]
      rw [ih (off + c.utf8Size), Nat.add_assoc]

/-- newline table of the combined source -/
theorem nl_of_link (a b : List Char) :
    (ofText (a ++ '\n' :: b)).nl = nlFrom 0 a ++ [blen a] ++ nlFrom (blen a + 1) b ++ [blen a + 1 + blen b] := by
  unfold ofText
  simp only
  rw [nlFrom_append]
  have : nlFrom (0 + blen a) ('\n' :: b) = blen a :: nlFrom (blen a + 1) b := by simp [nlFrom]
  rw [this, blen_append]
  have : blen ('\n' :: b) = 1 + blen b := by simp only [blen]; rfl
  rw [this]
  simp [Nat.add_assoc]
where
  blen_append (a b : List Char) : blen (a ++ b) = blen a + blen b := by
    induction a with
    | nil => simp [blen]
    | cons c cs ih => simp [blen, ih]; omega

theorem nlFrom_length' (off : Nat) (cs : List Char) : (nlFrom off cs).length = (nlFrom 0 cs).length := by
  rw [C25.nlFrom_length, C25.nlFrom_length]

/-- the combined source has as many lines as both sources together; B's first line is line `lines(A)` -/
theorem count_lines_link (a b : List Char) :
    (ofText (a ++ '\n' :: b)).countLines = (ofText a).countLines + (ofText b).countLines := by
  unfold countLines
  rw [nl_of_link]
  simp only [ofText, List.length_append, List.length_cons, List.length_nil, nlFrom_length' (blen a + 1) b]
  omega

/-- a byte range of B, shifted by the length of the prefix, reads the same text in the combined source -/
theorem slice_shift (p b : List Char) (i j : Nat) (hj : 0 < j) : sliceBytes (p ++ b) (blen p + i) (blen p + j) = sliceBytes b i j := by
  induction p with
  | nil => simp [blen]
  | cons c cs ih =>
    have hpos := c.utf8Size_pos
    simp only [List.cons_append, blen]
    rw [sliceBytes]
    rw [if_neg (by omega), if_neg (by omega)]
    have e1 : c.utf8Size + blen cs + i - c.utf8Size = blen cs + i := by omega
    have e2 : c.utf8Size + blen cs + j - c.utf8Size = blen cs + j := by omega
    rw [e1, e2, ih]

/-- a byte range of A reads the same text after B is appended -/
theorem slice_prefix (a b : List Char) : ∀ (i j : Nat), j ≤ blen a → sliceBytes (a ++ b) i j = sliceBytes a i j := by
  induction a with
  | nil => intro i j hj; simp only [blen, Nat.le_zero] at hj; subst hj; cases b <;> simp [sliceBytes]
  | cons c cs ih =>
    intro i j hj
    simp only [List.cons_append, sliceBytes, blen] at *
    by_cases h0 : j = 0
    · simp [h0]
    · rw [if_neg h0, if_neg h0]
      by_cases hi : i = 0
      · rw [if_pos hi, if_pos hi]
        by_cases hc : c.utf8Size ≤ j
        · rw [if_pos hc, if_pos hc, ih 0 (j - c.utf8Size) (by omega)]
        · rw [if_neg hc, if_neg hc]
      · rw [if_neg hi, if_neg hi, ih _ _ (by omega)]

/-- label positions: B's are shifted by `len A + 1` exactly when both files carry source text -/
theorem label_shift (at_ bt : SymTab) (ad bd : DebugSyms) (ha : at_.debug = some ad) (hb : bt.debug = some bd) :
    linkShift at_ bt = blen ad.src.src + 1 := by
  unfold linkShift; rw [ha, hb]

theorem label_shift_none (at_ bt : SymTab) (h : at_.debug = none ∨ bt.debug = none) : linkShift at_ bt = 0 := by
  unfold linkShift
  rcases h with h | h
  · rw [h]
  · rw [h]; cases at_.debug <;> rfl

/-- the combined debug symbols: source `A ++ "\n" ++ B`, B's line blocks re-keyed by the number of lines of A -/
theorem link_source (a b : DebugSyms) : (DebugSyms.link a b).src.src = a.src.src ++ '\n' :: b.src.src := rfl

theorem foldl_insert_keeps {α} (x : Nat × α) : ∀ (sh m : List (Nat × α)), SortedKeys m → x ∈ m → (∀ y ∈ sh, y.1 ≠ x.1) →
    x ∈ sh.foldl (fun m e => insertSortedBy e.1 e.2 m) m := by
  intro sh
  induction sh with
  | nil => intro m _ hx _; exact hx
  | cons y ys ih =>
    intro m hm hx hfree
    simp only [List.foldl_cons]
    apply ih _ (sorted_insertSortedBy _ _ _ hm)
    · exact (mem_insertSortedBy y.1 y.2 m hm x).mpr (Or.inr ⟨hx, fun e => hfree y (by simp) e.symm⟩)
    · intro z hz; exact hfree z (by simp [hz])

/-- A's line blocks survive linking unless B (re-keyed) defines the same first line -/
theorem link_keeps_a_blocks (a b : DebugSyms) (ha : SortedKeys a.lineMap) (x : Nat × List W) (hx : x ∈ a.lineMap)
    (hfree : ∀ y ∈ b.lineMap, satAdd y.1 a.src.countLines ≠ x.1) : x ∈ (DebugSyms.link a b).lineMap := by
  unfold DebugSyms.link
  dsimp only
  apply foldl_insert_keeps x _ _ ha hx
  intro y hy
  obtain ⟨z, hz, rfl⟩ := List.mem_map.mp hy
  exact hfree z hz

/-! ### line text after linking -/

theorem splitNl_cons_nl (r : List Char) : splitNl ('\n' :: r) = [] :: splitNl r := by simp [splitNl]

theorem splitNl_cons_other (c : Char) (r x : List Char) (xs : List (List Char)) (h : c ≠ '\n') (hs : splitNl r = x :: xs) :
    splitNl (c :: r) = (c :: x) :: xs := by simp [splitNl, h, hs]

theorem splitNl_append (a b : List Char) : splitNl (a ++ '\n' :: b) = splitNl a ++ splitNl b := by
  induction a with
  | nil => simp [splitNl_cons_nl, splitNl]
  | cons c cs ih =>
    simp only [List.cons_append]
    by_cases h : c = '\n'
    · subst h
      rw [splitNl_cons_nl, splitNl_cons_nl, ih]; rfl
    · cases hs : splitNl cs with
      | nil => exact absurd hs (splitNl_ne_nil cs)
      | cons x xs =>
        rw [splitNl_cons_other c cs x xs h hs, splitNl_cons_other c (cs ++ '\n' :: b) x (xs ++ splitNl b) h (by rw [ih, hs]; rfl)]
        rfl

/-- **the text of a line after linking**: in the combined source, a line of A reads what it read in A, and line `l` of B —
    now line `lines(A) + l` — reads what it read in B (`read_line` = the line without surrounding white space, C25) -/
theorem read_line_after_link (a b : List Char) :
    (∀ l, l < (ofText a).countLines → (ofText (a ++ '\n' :: b)).readLine l = (ofText a).readLine l) ∧
    (∀ l, l < (ofText b).countLines → (ofText (a ++ '\n' :: b)).readLine ((ofText a).countLines + l) = (ofText b).readLine l) := by
  have hla := (C25.lines_of_text a).1
  have hlb := (C25.lines_of_text b).1
  have hlab := (C25.lines_of_text (a ++ '\n' :: b)).1
  have hsplit := splitNl_append a b
  constructor
  · intro l hl
    have h1 : l < (splitNl a).length := by rw [hla]; exact hl
    have h2 : l < (splitNl (a ++ '\n' :: b)).length := by rw [hsplit, List.length_append]; omega
    obtain ⟨_, _, _, _, r1⟩ := line_span_trim a l h1
    obtain ⟨_, _, _, _, r2⟩ := line_span_trim (a ++ '\n' :: b) l h2
    rw [r1, r2, hsplit]
    congr 2
    simp only [List.getD_eq_getElem?_getD]
    rw [List.getElem?_append_left h1]
  · intro l hl
    have h1 : l < (splitNl b).length := by rw [hlb]; exact hl
    have h2 : (ofText a).countLines + l < (splitNl (a ++ '\n' :: b)).length := by
      rw [hsplit, List.length_append, hla]; omega
    obtain ⟨_, _, _, _, r1⟩ := line_span_trim b l h1
    obtain ⟨_, _, _, _, r2⟩ := line_span_trim (a ++ '\n' :: b) _ h2
    rw [r1, r2, hsplit]
    congr 2
    simp only [List.getD_eq_getElem?_getD]
    rw [List.getElem?_append_right (by rw [hla]; omega), hla]
    congr 2
    omega

/-- for the linked debug symbols -/
theorem read_line_link (x y : DebugSyms) (hx : x.src = ofText x.src.src) (hy : y.src = ofText y.src.src) :
    (∀ l, l < x.src.countLines → (DebugSyms.link x y).src.readLine l = x.src.readLine l) ∧
    (∀ l, l < y.src.countLines → (DebugSyms.link x y).src.readLine (x.src.countLines + l) = y.src.readLine l) := by
  have := read_line_after_link x.src.src y.src.src
  rw [← hx, ← hy] at this
  exact this

/-! ### address → line → text after linking -/

/-- inserting a key above every key of a sorted map appends -/
theorem insert_above {α} (k : Nat) (v : α) : ∀ (m : List (Nat × α)), (∀ x ∈ m, x.1 < k) → insertSortedBy k v m = m ++ [(k, v)] := by
  intro m
  induction m with
  | nil => intro _; rfl
  | cons e rest ih =>
    intro h
    obtain ⟨k', v'⟩ := e
    have hk : k' < k := h (k', v') (by simp)
    unfold insertSortedBy
    rw [if_neg (by omega), if_neg (by omega), ih (fun x hx => h x (by simp [hx]))]
    rfl

/-- folding a sorted list of keys that are all above the map's keys appends it -/
theorem foldl_insert_above {α} : ∀ (sh m : List (Nat × α)), SortedKeys sh → (∀ x ∈ m, ∀ y ∈ sh, x.1 < y.1) →
    sh.foldl (fun m e => insertSortedBy e.1 e.2 m) m = m ++ sh := by
  intro sh
  induction sh with
  | nil => intro m _ _; simp
  | cons y ys ih =>
    intro m hs hlt
    simp only [List.foldl_cons]
    rw [insert_above y.1 y.2 m (fun x hx => hlt x hx y (by simp))]
    rw [ih (m ++ [(y.1, y.2)]) hs.tail ?_]
    · simp
    · intro x hx z hz
      rcases List.mem_append.mp hx with h1 | h1
      · exact hlt x h1 z (by simp [hz])
      · simp only [List.mem_singleton] at h1
        rw [h1]
        exact hs.head_lt z hz

theorem find_map_shift (m : LineMap) (L : Nat) (a : W) (hsat : ∀ x ∈ m, x.1 + L ≤ 18446744073709551615) :
    LineMap.find (m.map (fun e => (satAdd e.1 L, e.2))) a = (LineMap.find m a).map (· + L) := by
  unfold LineMap.find
  induction m with
  | nil => rfl
  | cons e rest ih =>
    have hs : satAdd e.1 L = e.1 + L := by
      unfold satAdd; have := hsat e (by simp); omega
    simp only [List.map_cons, List.findSome?_cons, hs]
    cases hi : idxOf a e.2 0 with
    | some i => simp only [Option.map_some]; congr 1; omega
    | none =>
      simp only [Option.map_none]
      exact ih (fun x hx => hsat x (by simp [hx]))

theorem sortedKeys_map_shift {α} (L : Nat) : ∀ (m : List (Nat × α)), SortedKeys m → (∀ x ∈ m, x.1 + L ≤ 18446744073709551615) →
    SortedKeys (m.map (fun e => (satAdd e.1 L, e.2))) := by
  intro m
  induction m with
  | nil => intro _ _; trivial
  | cons e rest ih =>
    intro hs hsat
    simp only [List.map_cons]
    apply sortedKeys_cons _ _ (ih hs.tail (fun x hx => hsat x (by simp [hx])))
    intro b hb
    obtain ⟨z, hz, rfl⟩ := List.mem_map.mp hb
    have h1 := hs.head_lt z hz
    have h2 := hsat e (by simp)
    have h3 := hsat z (by simp [hz])
    simp only [satAdd]
    omega

/-- **the address → line query after linking**: when A's line blocks start below A's line count (as the assembler produces
    them) and B's lines shifted by A's line count still fit 64 bits, the linked line map is A's blocks followed by B's
    re-keyed blocks, so an address recorded in A keeps its line and an address recorded only in B gets its line plus the
    number of lines of A -/
theorem link_find (a b : DebugSyms) (hb : SortedKeys b.lineMap)
    (hka : ∀ x ∈ a.lineMap, x.1 < a.src.countLines) (hsat : ∀ x ∈ b.lineMap, x.1 + a.src.countLines ≤ 18446744073709551615) (A : W) :
    (DebugSyms.link a b).lineMap = a.lineMap ++ b.lineMap.map (fun e => (satAdd e.1 a.src.countLines, e.2)) ∧
    (DebugSyms.link a b).lineMap.find A =
      (match a.lineMap.find A with
       | some l => some l
       | none => (b.lineMap.find A).map (· + a.src.countLines)) := by
  have hM : (DebugSyms.link a b).lineMap = a.lineMap ++ b.lineMap.map (fun e => (satAdd e.1 a.src.countLines, e.2)) := by
    unfold DebugSyms.link
    dsimp only
    apply foldl_insert_above _ _ (sortedKeys_map_shift _ _ hb hsat)
    intro x hx y hy
    obtain ⟨z, hz, rfl⟩ := List.mem_map.mp hy
    have h1 := hka x hx
    have h2 := hsat z hz
    simp only [satAdd]
    omega
  refine ⟨hM, ?_⟩
  rw [hM]
  have hshift := find_map_shift b.lineMap a.src.countLines A hsat
  unfold LineMap.find at hshift ⊢
  rw [List.findSome?_append]
  cases h1 : List.findSome? (fun b => Option.map (fun x => b.1 + x) (idxOf A b.2 0)) a.lineMap with
  | some l => rfl
  | none => simp only [Option.none_or]; exact hshift

/-- **C22 at the level of the debug symbols**: after linking, the source line reported for an address reads the same text as in
    the file the address came from -/
theorem linked_line_reads_same_text (a b : DebugSyms) (ha : a.src = ofText a.src.src) (hbs : b.src = ofText b.src.src)
    (hb : SortedKeys b.lineMap) (hka : ∀ x ∈ a.lineMap, x.1 < a.src.countLines)
    (hsat : ∀ x ∈ b.lineMap, x.1 + a.src.countLines ≤ 18446744073709551615) (A : W) :
    (∀ l, a.lineMap.find A = some l → l < a.src.countLines →
      (DebugSyms.link a b).lineMap.find A = some l ∧ (DebugSyms.link a b).src.readLine l = a.src.readLine l) ∧
    (∀ l, a.lineMap.find A = none → b.lineMap.find A = some l → l < b.src.countLines →
      (DebugSyms.link a b).lineMap.find A = some (l + a.src.countLines) ∧
      (DebugSyms.link a b).src.readLine (l + a.src.countLines) = b.src.readLine l) := by
  obtain ⟨_, hf⟩ := link_find a b hb hka hsat A
  obtain ⟨r1, r2⟩ := read_line_link a b ha hbs
  constructor
  · intro l hl hlt
    rw [hf, hl]
    exact ⟨rfl, r1 l hlt⟩
  · intro l hn hl hlt
    rw [hf, hn, hl]
    refine ⟨rfl, ?_⟩
    rw [Nat.add_comm]
    exact r2 l hlt

end Lc3V.C22
