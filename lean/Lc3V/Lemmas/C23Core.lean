/- Lemmas/C23Core.lean — the C23 theorems below source level (moved out of Props/C23.lean so that Lemmas/AssembledWF.lean and
   the source-level theorem of Props/C23.lean can both build on them). -/
import Lc3V.Lemmas.C01Core
set_option linter.unusedSimpArgs false
namespace Lc3V.C23
open Lc3V

/-- address lookup ignores case -/
theorem lookup_ignores_case (t : SymTab) (a b : List Char) (h : upperS a = upperS b) : t.lookupLabel a = t.lookupLabel b := by
  unfold SymTab.lookupLabel; rw [h]

/-- source lookup ignores case: defined for the same names, with the same start -/
theorem source_ignores_case (t : SymTab) (a b : List Char) (h : upperS a = upperS b) :
    (t.getLabelSource a).map (·.1) = (t.getLabelSource b).map (·.1) := by
  unfold SymTab.getLabelSource; rw [h]
  cases lookupKey t.labels (upperS b) <;> rfl

/-- the span returned for a spelling is as long as that spelling -/
theorem source_span_length (t : SymTab) (a : List Char) (sp : Span) (h : t.getLabelSource a = some sp) : sp.2 = sp.1 + blen a := by
  unfold SymTab.getLabelSource at h
  cases hl : lookupKey t.labels (upperS a) with
  | none => rw [hl] at h; cases h
  | some d => rw [hl] at h; cases h; rfl

/-- both lookups answer for exactly the same names -/
theorem lookup_and_source_agree (t : SymTab) (a : List Char) : (t.lookupLabel a).isSome = (t.getLabelSource a).isSome := by
  unfold SymTab.lookupLabel SymTab.getLabelSource
  cases lookupKey t.labels (upperS a) <;> rfl

def UniqueKeys (m : List (Key × SymData)) : Prop := (m.map (·.1)).Nodup

theorem lookupKey_of_mem (m : List (Key × SymData)) (hu : UniqueKeys m) (k : Key) (d : SymData) (h : (k, d) ∈ m) :
    lookupKey m k = some d := by
  induction m with
  | nil => cases h
  | cons x xs ih =>
    unfold lookupKey
    simp only [UniqueKeys, List.map_cons, List.nodup_cons] at hu
    rcases List.mem_cons.mp h with rfl | hx
    · simp [List.find?]
    · have hne : x.1 ≠ k := by
        intro e; apply hu.1; rw [e]; exact List.mem_map.mpr ⟨(k, d), hx, rfl⟩
      have : (x.1 == k) = false := by simpa using hne
      simp only [List.find?, this]
      exact ih hu.2 hx

theorem mem_of_lookupKey (m : List (Key × SymData)) (k : Key) (d : SymData) (h : lookupKey m k = some d) : (k, d) ∈ m := by
  unfold lookupKey at h
  cases hf : List.find? (fun e => e.1 == k) m with
  | none => rw [hf] at h; cases h
  | some x =>
    rw [hf] at h
    have h1 := List.find?_some hf
    have h2 := List.mem_of_find?_eq_some hf
    simp only [Option.map_some, Option.some.injEq] at h
    have : x.1 = k := by simpa using h1
    obtain ⟨xk, xd⟩ := x
    simp only at this h
    subst this; subst h
    exact h2

/-- reverse lookup candidates = the labels whose address lookup gives that address -/
theorem rev_lookup_candidates (t : SymTab) (hu : UniqueKeys t.labels) (a : W) (k : Key) :
    k ∈ t.revLookupAll a ↔ ∃ d, lookupKey t.labels k = some d ∧ d.addr = a := by
  unfold SymTab.revLookupAll
  constructor
  · intro h
    obtain ⟨e, he, rfl⟩ := List.mem_map.mp h
    have hm := (List.mem_filter.mp he)
    exact ⟨e.2, lookupKey_of_mem _ hu _ _ hm.1, by simpa using hm.2⟩
  · rintro ⟨d, hl, ha⟩
    exact List.mem_map.mpr ⟨(k, d), List.mem_filter.mpr ⟨mem_of_lookupKey _ _ _ hl, by simpa using ha⟩, rfl⟩

/-- names not in the table give no result -/
theorem absent_name (t : SymTab) (a : List Char) (h : lookupKey t.labels (upperS a) = none) :
    t.lookupLabel a = none ∧ t.getLabelSource a = none := by
  unfold SymTab.lookupLabel SymTab.getLabelSource; rw [h]; exact ⟨rfl, rfl⟩

/-- pass 1 never creates a second entry for a key -/
theorem addLabel_unique (labels labels' : List (Key × SymData)) (l : Label) (addr : W) (ext : Bool)
    (hu : UniqueKeys labels) (h : addLabel labels l addr ext = .ok labels') : UniqueKeys labels' := by
  unfold addLabel at h
  dsimp only at h
  cases hl : lookupKey labels (upperS l.name) with
  | some d =>
    rw [hl] at h; dsimp only at h
    split at h
    · cases h
    · cases h; exact hu
  | none =>
    rw [hl] at h; cases h
    unfold UniqueKeys at *
    rw [List.map_append, List.nodup_append]
    refine ⟨hu, by simp, ?_⟩
    intro a ha b hb
    simp only [List.map_cons, List.map_nil, List.mem_singleton] at hb
    subst hb
    intro e; subst e
    obtain ⟨x, hx, hxk⟩ := List.mem_map.mp ha
    have := lookupKey_of_mem labels hu x.1 x.2 hx
    rw [hxk, hl] at this; cases this


/-- where a key of the label table can come from: a label of a statement, or an `.external` declaration -/
def Declares (stmt : Stmt) (k : Key) : Prop :=
  (∃ l ∈ stmt.labels, upperS l.name = k) ∨ (∃ l, stmt.nucleus = .directive (.external l) ∧ upperS l.name = k)

theorem addLabel_keys (labels labels' : List (Key × SymData)) (l : Label) (addr : W) (ext : Bool)
    (h : addLabel labels l addr ext = .ok labels') : ∀ e ∈ labels', e ∈ labels ∨ e.1 = upperS l.name := by
  unfold addLabel at h
  dsimp only at h
  split at h
  · split at h
    · cases h
    · cases h; intro e he; exact Or.inl he
  · cases h
    intro e he
    rcases List.mem_append.mp he with h1 | h1
    · exact Or.inl h1
    · simp only [List.mem_singleton] at h1; subst h1; exact Or.inr rfl

theorem addLabels_keys (ls : List Label) (addr : W) : ∀ (m m' : List (Key × SymData)), addLabels m ls addr = .ok m' →
    ∀ e ∈ m', e ∈ m ∨ ∃ l ∈ ls, e.1 = upperS l.name := by
  unfold addLabels
  induction ls with
  | nil => intro m m' h e he; simp only [List.foldlM_nil] at h; cases h; exact Or.inl he
  | cons x xs ih =>
    intro m m' h e he
    rw [List.foldlM_cons] at h
    cases hx : addLabel m x addr false with
    | error e0 => rw [hx] at h; cases h
    | ok m1 =>
      rw [hx] at h
      rcases ih m1 m' h e he with h1 | ⟨l, hl, hk⟩
      · rcases addLabel_keys m m1 x addr false hx e h1 with h2 | h2
        · exact Or.inl h2
        · exact Or.inr ⟨x, by simp, h2⟩
      · exact Or.inr ⟨l, by simp [hl], hk⟩

/-- one pass-1 step only adds keys the statement declares -/
theorem pass1Step_keys (st st' : P1) (stmt : Stmt) (h : pass1Step st stmt = .ok st') :
    ∀ e ∈ st'.labels, e ∈ st.labels ∨ Declares stmt e.1 := by
  unfold pass1Step at h
  split at h
  · cases h
  · rename_i labels hlab
    split at h
    · cases h
    · rename_i cursor labels' rel hsp
      have hfin : st'.labels = labels' := by
        unfold p1Advance at h
        split at h
        · cases h; rfl
        · dsimp only at h; split at h
          · cases h
          · cases h; rfl
      rw [hfin]
      -- part 1: labels of the statement
      have h1 : ∀ e ∈ labels, e ∈ st.labels ∨ Declares stmt e.1 := by
        unfold p1Labels at hlab
        split at hlab
        · cases hlab; intro e he; exact Or.inl he
        · split at hlab
          · cases hlab
          · intro e he
            rcases addLabels_keys _ _ _ _ hlab e he with h2 | ⟨l, hl, hk⟩
            · exact Or.inl h2
            · exact Or.inr (Or.inl ⟨l, hl, hk.symm⟩)
      -- part 2: `.external`
      have h2 : ∀ e ∈ labels', e ∈ labels ∨ Declares stmt e.1 := by
        unfold p1Special at hsp
        generalize hk : stmt.nucleus = k at hsp
        cases k with
        | instr i => cases hsp; intro e he; exact Or.inl he
        | directive d =>
          cases d with
          | orig a => dsimp only at hsp; split at hsp <;> cases hsp; intro e he; exact Or.inl he
          | end_ => dsimp only at hsp; split at hsp <;> cases hsp; intro e he; exact Or.inl he
          | external l =>
            dsimp only at hsp
            split at hsp
            · cases hsp
            · rename_i m hm
              cases hsp
              intro e he
              rcases addLabel_keys _ _ _ _ _ hm e he with h3 | h3
              · exact Or.inl h3
              · exact Or.inr (Or.inr ⟨l, hk, h3.symm⟩)
          | fill v =>
            cases v with
            | off v => cases hsp; intro e he; exact Or.inl he
            | label l =>
              dsimp only at hsp
              split at hsp
              · cases hsp; intro e he; exact Or.inl he
              · split at hsp
                · cases hsp
                · cases hsp; intro e he; exact Or.inl he
          | blkw n => cases hsp; intro e he; exact Or.inl he
          | stringz s => cases hsp; intro e he; exact Or.inl he
      intro e he
      rcases h2 e he with h3 | h3
      · exact h1 e h3
      · exact Or.inr h3

/-- the label table holds no name the program does not define or declare: every entry comes from a label of some
    statement or from an `.external` declaration -/
theorem table_only_program_labels : ∀ (stmts : List Stmt) (st st' : P1), stmts.foldlM pass1Step st = .ok st' →
    ∀ e ∈ st'.labels, e ∈ st.labels ∨ ∃ stmt ∈ stmts, Declares stmt e.1 := by
  intro stmts
  induction stmts with
  | nil => intro st st' h e he; simp only [List.foldlM_nil] at h; cases h; exact Or.inl he
  | cons x xs ih =>
    intro st st' h e he
    rw [List.foldlM_cons] at h
    cases hx : pass1Step st x with
    | error e0 => rw [hx] at h; cases h
    | ok q =>
      rw [hx] at h
      rcases ih q st' h e he with h1 | ⟨stmt, hs, hd⟩
      · rcases pass1Step_keys st q x hx e h1 with h2 | h2
        · exact Or.inl h2
        · exact Or.inr ⟨x, by simp, h2⟩
      · exact Or.inr ⟨stmt, by simp [hs], hd⟩

theorem listing_is_program_labels (stmts : List Stmt) (src : Option (List Char)) (t : SymTab) (h : pass1 stmts src = .ok t) :
    ∀ e ∈ t.labels, ∃ stmt ∈ stmts, Declares stmt e.1 := by
  unfold pass1 at h
  split at h
  · cases h
  · rename_i st hf
    unfold p1Finish at h
    split at h
    · cases h
    · cases h
      intro e he
      rcases table_only_program_labels stmts (p1Init src) st hf e he with h1 | h1
      · cases h1
      · exact h1

end Lc3V.C23
