/- Lemmas/C24Core.lean — the C24 theorems below source level (moved out of Props/C24.lean so that Lemmas/AssembledWFDebug.lean
   and the source-level theorems of Props/C24.lean can both build on them). -/
import Lc3V.Model.Asm
import Lc3V.Lemmas.LineRec
import Lc3V.Lemmas.CursorAt
import Lc3V.Lemmas.LineInj
set_option linter.unusedSimpArgs false
namespace Lc3V.C24
open Lc3V

def NonEmptyBlocks (m : LineMap) : Prop := ∀ b ∈ m, b.2 ≠ []

theorem keys_ge (s0 : Nat) (w0 : List W) (rest : LineMap) (h : notOverlapping ((s0, w0) :: rest) = true) (hne : NonEmptyBlocks rest) :
    ∀ b ∈ rest, s0 + w0.length ≤ b.1 := by
  induction rest generalizing s0 w0 with
  | nil => intro b hb; cases hb
  | cons x xs ih =>
    obtain ⟨s1, w1⟩ := x
    simp only [notOverlapping, Bool.and_eq_true, decide_eq_true_eq] at h
    intro b hb
    rcases List.mem_cons.mp hb with rfl | hb
    · exact h.1
    · have := ih s1 w1 h.2 (fun y hy => hne y (by simp [hy])) b hb
      have : 0 < w1.length := List.length_pos_iff.mpr (hne (s1, w1) (by simp))
      omega

/-- the block `get` selects for a line inside a block is that block -/
theorem lastLE_of_mem (m : LineMap) (hno : notOverlapping m = true) (hne : NonEmptyBlocks m) (s : Nat) (ws : List W)
    (hm : (s, ws) ∈ m) (i : Nat) (hi : i < ws.length) :
    (m.filter (fun b => b.1 ≤ s + i)).getLast? = some (s, ws) := by
  induction m with
  | nil => cases hm
  | cons x xs ih =>
    obtain ⟨s0, w0⟩ := x
    have hrest := keys_ge s0 w0 xs hno (fun y hy => hne y (by simp [hy]))
    have hno' : notOverlapping xs = true := by
      cases xs with
      | nil => rfl
      | cons y ys => obtain ⟨s1, w1⟩ := y; simp only [notOverlapping, Bool.and_eq_true] at hno; exact hno.2
    rcases List.mem_cons.mp hm with heq | hm'
    · cases heq
      have : xs.filter (fun b => b.1 ≤ s + i) = [] := by
        apply List.filter_eq_nil_iff.mpr
        intro b hb
        have := hrest b hb
        simp only [decide_eq_true_eq]; omega
      simp [List.filter, this]
    · have hge := hrest (s, ws) hm'
      have ih' := ih hno' (fun y hy => hne y (by simp [hy])) hm'
      have hs0 : s0 ≤ s + i := by omega
      simp only [List.filter, hs0, decide_true]
      cases hf : List.filter (fun b => decide (b.1 ≤ s + i)) xs with
      | nil => rw [hf] at ih'; cases ih'
      | cons y ys => rw [hf] at ih'; rw [List.getLast?_cons_cons]; exact ih'

/-- a line inside a block maps to the address recorded for it -/
theorem get_of_mem (m : LineMap) (hno : notOverlapping m = true) (hne : NonEmptyBlocks m) (s : Nat) (ws : List W)
    (hm : (s, ws) ∈ m) (i : Nat) (hi : i < ws.length) : m.get (s + i) = some ws[i] := by
  unfold LineMap.get
  rw [lastLE_of_mem m hno hne s ws hm i hi]
  simp [hi]

theorem mem_zip_range (ws : List W) (i : Nat) (x : W) (h : (i, x) ∈ (List.range ws.length).zip ws) :
    ∃ hi : i < ws.length, ws[i] = x := by
  obtain ⟨j, hj, hget⟩ := List.mem_iff_getElem.mp h
  rw [List.getElem_zip] at hget
  simp only [List.getElem_range, Prod.mk.injEq] at hget
  obtain ⟨rfl, rfl⟩ := hget
  simp only [List.length_zip, List.length_range, Nat.min_self] at hj
  exact ⟨hj, rfl⟩

/-- `iter` lists exactly the pairs `get` answers: every enumerated (line, address) is what `lookup_line` returns -/
theorem get_of_iter (m : LineMap) (hno : notOverlapping m = true) (hne : NonEmptyBlocks m) (l : Nat) (a : W)
    (h : (l, a) ∈ m.iter) : m.get l = some a := by
  unfold LineMap.iter at h
  obtain ⟨b, hb, hmap⟩ := List.mem_flatMap.mp h
  obtain ⟨p, hp, heq⟩ := List.mem_map.mp hmap
  obtain ⟨s, ws⟩ := b
  obtain ⟨i, x⟩ := p
  simp only [Prod.mk.injEq] at heq
  obtain ⟨rfl, rfl⟩ := heq
  obtain ⟨hi, hx⟩ := mem_zip_range ws i x hp
  rw [get_of_mem m hno hne s ws hb i hi, hx]

/-- all addresses recorded in the map are pairwise different (what "no address maps to two lines" means) -/
def DistinctAddrs (m : LineMap) : Prop := (m.flatMap (·.2)).Nodup

theorem idxOf_spec (a : W) : ∀ (ws : List W) (k i : Nat) (hi : i < ws.length), ws[i] = a → (∀ j (hj : j < i), ws[j]'(by omega) ≠ a) →
    idxOf a ws k = some (k + i) := by
  intro ws
  induction ws with
  | nil => intro k i hi; simp at hi
  | cons x xs ih =>
    intro k i hi hget hfirst
    unfold idxOf
    cases i with
    | zero => simp only [List.getElem_cons_zero] at hget; simp [hget]
    | succ i =>
      have hx : x ≠ a := by have := hfirst 0 (by omega); simpa using this
      rw [if_neg hx]
      have := ih (k + 1) i (by simpa using hi) (by simpa using hget) (by intro j hj; have := hfirst (j + 1) (by omega); simpa using this)
      rw [this]; congr 1; omega

theorem idxOf_none (a : W) : ∀ (ws : List W) (k : Nat), a ∉ ws → idxOf a ws k = none := by
  intro ws
  induction ws with
  | nil => intro k _; rfl
  | cons x xs ih =>
    intro k h
    unfold idxOf
    have hx : x ≠ a := fun e => h (by rw [e]; simp)
    rw [if_neg hx]
    exact ih (k + 1) (fun hm => h (List.mem_cons_of_mem _ hm))

/-- with pairwise different addresses, the address maps back to its line: `rev_lookup_line` inverts `lookup_line` -/
theorem find_of_mem (m : LineMap) (hd : DistinctAddrs m) (s : Nat) (ws : List W) (hm : (s, ws) ∈ m) (i : Nat) (hi : i < ws.length) :
    m.find ws[i] = some (s + i) := by
  unfold LineMap.find
  induction m with
  | nil => cases hm
  | cons x xs ih =>
    obtain ⟨s0, w0⟩ := x
    unfold DistinctAddrs at hd
    simp only [List.flatMap_cons, List.nodup_append] at hd
    obtain ⟨hd0, hdr, hdis⟩ := hd
    rcases List.mem_cons.mp hm with heq | hm'
    · cases heq
      have : idxOf ws[i] ws 0 = some (0 + i) := by
        apply idxOf_spec _ ws 0 i hi rfl
        intro j hj hje
        have := (List.getElem_inj hd0).mp hje
        omega
      simp [List.findSome?, this]
    · have hnot : ws[i] ∉ w0 := by
        intro hin
        have : ws[i] ∈ xs.flatMap (·.2) := List.mem_flatMap.mpr ⟨(s, ws), hm', List.getElem_mem hi⟩
        exact hdis _ hin _ this rfl
      simp only [List.findSome?, idxOf_none _ w0 0 hnot, Option.map_none]
      exact ih hdr hm'

/-- statements that occupy no memory or open/close a block never record a line -/
theorem no_line_for_markers (st : P1) (stmt : Stmt) (cursor : Option Cursor) (labels : List (Key × SymData)) (rel : List (W × Key))
    (st' : P1) (hk : noLine stmt.nucleus = true) (h : p1Advance st stmt cursor labels rel = .ok st') : st'.lines = st.lines := by
  unfold p1Advance at h
  split at h
  · cases h; rfl
  · dsimp only at h
    split at h
    · cases h
    · cases h
      cases hl : st.lines with
      | none => rfl
      | some p => obtain ⟨ls, s⟩ := p; simp [hk]

/-- any other statement inside a block records its line as the location counter before it (its first word's address) -/
theorem line_recorded (st : P1) (stmt : Stmt) (cur : Cursor) (labels : List (Key × SymData)) (rel : List (W × Key))
    (st' : P1) (ls : List (Option W)) (s : SourceInfo) (hk : noLine stmt.nucleus = false) (hl : st.lines = some (ls, s))
    (h : p1Advance st stmt (some cur) labels rel = .ok st') :
    st'.lines = some (ls.set (s.getLine stmt.span.1) (some cur.lc), s) := by
  unfold p1Advance at h
  dsimp only at h
  split at h
  · cases h
  · cases h; simp [hl, hk]

/-- outside a block nothing is recorded -/
theorem no_line_outside_block (st : P1) (stmt : Stmt) (labels : List (Key × SymData)) (rel : List (W × Key)) (st' : P1)
    (h : p1Advance st stmt none labels rel = .ok st') : st'.lines = st.lines := by
  unfold p1Advance at h; cases h; rfl

example : noLine (.directive (.orig 0x3000)) = true ∧ noLine (.directive .end_) = true ∧
    noLine (.directive (.external ⟨['X'], 0⟩)) = true ∧ noLine (.instr .halt) = false ∧ noLine (.directive (.blkw 3)) = false :=
  ⟨rfl, rfl, rfl, rfl, rfl⟩

/-! ### whole programs -/

/-- **line → address for a whole program** (debug symbols on; statements on strictly increasing lines, as the parser produces
    them).  For the statement `s` of an assembled program: if `s` lies inside a block and is not `.orig`, `.end` or
    `.external`, the line it starts on maps to the location counter pass 1 had on reaching `s` — the address of its first
    word (C01: both passes keep the same counter = block start + words before); otherwise that line maps to nothing.  A line
    on which no statement starts (blank, comment, label-only continuation) maps to nothing. -/
theorem line_maps_to_statement_address (pre post : List Stmt) (s : Stmt) (src : List Char) (t : SymTab) (st_pre : P1)
    (h : pass1 (pre ++ s :: post) (some src) = .ok t)
    (hl : LinesFrom (SourceInfo.ofText src) (SourceInfo.ofText src).countLines 0 (pre ++ s :: post))
    (hpre : pre.foldlM pass1Step (p1Init (some src)) = .ok st_pre) :
    t.lookupLine ((SourceInfo.ofText src).getLine s.span.1) =
      (match st_pre.cursor with
       | some cur => if noLine s.nucleus then none else some cur.lc
       | none => none) ∧
    ∀ k, (∀ x ∈ pre ++ s :: post, (SourceInfo.ofText src).getLine x.span.1 ≠ k) → t.lookupLine k = none := by
  obtain ⟨h1, h2⟩ := lookup_line_spec pre post s src t st_pre h hl hpre
  refine ⟨?_, h2⟩
  rw [h1]
  unfold lineEvent
  cases st_pre.cursor with
  | none => rfl
  | some cur => cases noLine s.nucleus <;> rfl

/-- **line → address, explicitly**: in a program made of `.orig … .end` blocks, the line of the statement at position
    `pre ++ s :: post` of the body of the block `.orig a` maps to `a + size(pre)`: the block's origin plus the sizes of the
    statements before it, i.e. the address of the statement's first word -/
theorem line_maps_to_origin_plus_sizes (before : List Blk) (b : Blk) (more : List Stmt) (pre post : List Stmt) (s : Stmt)
    (src : List Char) (t : SymTab) (hwf : ∀ x ∈ before, x.WF) (hb : b.WF) (hbody : b.body = pre ++ s :: post)
    (hrec : noLine s.nucleus = false)
    (h : pass1 (before.flatMap Blk.stmts ++ (b.stmts ++ more)) (some src) = .ok t)
    (hl : LinesFrom (SourceInfo.ofText src) (SourceInfo.ofText src).countLines 0 (before.flatMap Blk.stmts ++ (b.stmts ++ more))) :
    t.lookupLine ((SourceInfo.ofText src).getLine s.span.1) = some (b.a + sizeOf' pre) :=
  lookup_line_explicit before b more pre post s src t hwf hb hbody hrec h hl

/-- `find` returns a line whose entry is the address, whenever the address occurs in the map -/
theorem find_some_of_mem (a : W) : ∀ (m : LineMap), (∃ b ∈ m, a ∈ b.2) →
    ∃ b' ∈ m, ∃ i, ∃ hi : i < b'.2.length, b'.2[i] = a ∧ m.find a = some (b'.1 + i) := by
  intro m
  induction m with
  | nil => rintro ⟨b, hb, _⟩; cases hb
  | cons x xs ih =>
    intro hex
    obtain ⟨s0, w0⟩ := x
    unfold LineMap.find
    simp only [List.findSome?_cons]
    by_cases hmem : a ∈ w0
    · -- the first occurrence
      have hfirst : ∃ j, ∃ hj : j < w0.length, w0[j] = a ∧ ∀ k (hk : k < j), w0[k]'(by omega) ≠ a := by
        clear hex
        induction w0 with
        | nil => cases hmem
        | cons y ys ihy =>
          by_cases hy : y = a
          · exact ⟨0, by simp, by simpa using hy, fun k hk => by omega⟩
          · have hmem' : a ∈ ys := by
              rcases List.mem_cons.mp hmem with h | h
              · exact absurd h.symm hy
              · exact h
            obtain ⟨j, hj, h1, h2⟩ := ihy hmem'
            refine ⟨j + 1, by simp; omega, by simpa using h1, fun k hk => ?_⟩
            cases k with
            | zero => simpa using hy
            | succ k' => simpa using h2 k' (by omega)
      obtain ⟨j, hj, h1, h2⟩ := hfirst
      have hidx := idxOf_spec a w0 0 j hj h1 h2
      refine ⟨(s0, w0), by simp, j, hj, h1, ?_⟩
      simp [hidx]
    · have hnone := idxOf_none a w0 0 hmem
      obtain ⟨b, hb, hab⟩ := hex
      have hb' : b ∈ xs := by
        rcases List.mem_cons.mp hb with rfl | hb
        · exact absurd hab hmem
        · exact hb
      obtain ⟨b', hb'm, i, hi, h1, h2⟩ := ih ⟨b, hb', hab⟩
      refine ⟨b', by simp [hb'm], i, hi, h1, ?_⟩
      simp only [hnone, Option.map_none]
      exact h2

theorem nonEmpty_of_chained : ∀ (m : LineMap) (lo : Nat), Chained m lo → NonEmptyBlocks m := by
  intro m
  induction m with
  | nil => intro _ _ b hb; cases hb
  | cons x xs ih =>
    obtain ⟨s0, w0⟩ := x
    intro lo h b hb
    rcases List.mem_cons.mp hb with rfl | hb
    · exact h.2.1
    · exact ih _ h.2.2 b hb

/-- on a valid map whose `get` is injective, `find` inverts `get` -/
theorem find_inverts_get (m : LineMap) (lo : Nat) (hch : Chained m lo)
    (hinj : ∀ l1 l2 x, m.get l1 = some x → m.get l2 = some x → l1 = l2) (l : Nat) (a : W) (h : m.get l = some a) :
    m.find a = some l := by
  have hlk : lk m l = some a := by rw [← get_eq_lk m lo hch l]; exact h
  unfold lk at hlk
  obtain ⟨b, hb, hbe⟩ := List.exists_of_findSome?_eq_some hlk
  have hab : a ∈ b.2 := by
    split at hbe
    · exact List.mem_of_getElem? hbe
    · cases hbe
  obtain ⟨b', hb'm, i, hi, h1, h2⟩ := find_some_of_mem a m ⟨b, hb, hab⟩
  have hg := get_of_mem m (chained_notOverlapping m lo hch) (nonEmpty_of_chained m lo hch) b'.1 b'.2 hb'm i hi
  rw [h1] at hg
  rw [h2, hinj _ _ _ hg h]

/-- **the address maps back to the line** (and no address maps to two lines): in an assembled, structured program — statements on
    increasing lines, every recorded statement at least one word long (as the parser guarantees: `.blkw 0` is rejected), string
    literals below 64 K, non-overlapping blocks (what pass 2 checks) — `lookup_line` is injective and `rev_lookup_line` is its
    inverse -/
theorem rev_lookup_inverts (blks : List Blk) (tail : List Stmt) (src : List Char) (t : SymTab)
    (hwf : ∀ b ∈ blks, b.WF) (ht : ∀ s ∈ tail, isOrigEnd s.nucleus = false)
    (h : pass1 (blks.flatMap Blk.stmts ++ tail) (some src) = .ok t)
    (hl : LinesFrom (SourceInfo.ofText src) (SourceInfo.ofText src).countLines 0 (blks.flatMap Blk.stmts ++ tail))
    (hws : ∀ b ∈ blks, ∃ ws, bodyWords t b.a b.body = .ok ws) (hclear : blks.Pairwise (BlkClear t))
    (hsz : ∀ b ∈ blks, Sized b.body) (hstr : ∀ b ∈ blks, ShortStrings b.body) :
    (∀ l1 l2 a, t.lookupLine l1 = some a → t.lookupLine l2 = some a → l1 = l2) ∧
    (∀ l a, t.lookupLine l = some a → t.revLookupLine a = some l) := by
  have hinj := lookup_line_injective blks tail src t hwf ht h hl hws hclear hsz hstr
  refine ⟨hinj, fun l a hla => ?_⟩
  obtain ⟨_, _, _, _, _, _, m, hm, hch, _⟩ := final_vector _ src t h hl
  have hget : ∀ k, t.lookupLine k = m.get k := by intro k; simp [SymTab.lookupLine, hm]
  unfold SymTab.revLookupLine
  rw [hm]
  simp only [Option.bind_some]
  exact find_inverts_get m 0 hch (fun l1 l2 x h1 h2 => hinj l1 l2 x (by rw [hget]; exact h1) (by rw [hget]; exact h2)) l a (by rw [← hget]; exact hla)

/-- lines holding `.orig`, `.end` or `.external` map to nothing -/
theorem marker_lines_map_to_nothing (pre post : List Stmt) (s : Stmt) (src : List Char) (t : SymTab) (st_pre : P1)
    (h : pass1 (pre ++ s :: post) (some src) = .ok t)
    (hl : LinesFrom (SourceInfo.ofText src) (SourceInfo.ofText src).countLines 0 (pre ++ s :: post))
    (hpre : pre.foldlM pass1Step (p1Init (some src)) = .ok st_pre) (hm : noLine s.nucleus = true) :
    t.lookupLine ((SourceInfo.ofText src).getLine s.span.1) = none := by
  rw [(line_maps_to_statement_address pre post s src t st_pre h hl hpre).1]
  cases st_pre.cursor with
  | none => rfl
  | some cur => simp [hm]

/-- `LineSymbolMap::new` answers exactly the per-line vector (Lemmas/LineVec.lean) -/
theorem new_answers_the_vector (ls : List (Option W)) (he : EndsNone ls) (hasc : Asc ls = true) :
    ∃ m, LineMap.new ls = some m ∧ ∀ l, m.get l = (ls[l]?).join := by
  obtain ⟨m, h1, h2, _, _⟩ := lineMap_new_spec ls he hasc
  exact ⟨m, h1, h2⟩

end Lc3V.C24
