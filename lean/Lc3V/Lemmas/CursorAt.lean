/- Lemmas/CursorAt.lean — where the pass-1 location counter stands at each statement of a structured program. -/
import Lc3V.Lemmas.LineRec
set_option linter.unusedSimpArgs false
set_option linter.unusedVariables false
namespace Lc3V

/-- size of a run of statements as a natural number -/
def natSize (l : List Stmt) : Nat := (l.map (fun s => s.nucleus.wordLen.toNat)).sum

/-- a statement inside a block (not `.orig`/`.end`) advances the cursor by exactly its size, without wrapping -/
theorem pass1Step_in_block (st st' : P1) (s : Stmt) (cur : Cursor) (h : pass1Step st s = .ok st') (hc : st.cursor = some cur)
    (hk : isOrigEnd s.nucleus = false) : ∃ c', st'.cursor = some c' ∧ cur.shift s.nucleus.wordLen = .ok c' := by
  unfold pass1Step at h
  cases h1 : p1Labels st s with
  | error e => rw [h1] at h; cases h
  | ok labels =>
    rw [h1] at h
    dsimp only at h
    cases h2 : p1Special st s labels with
    | error e => rw [h2] at h; cases h
    | ok r =>
      obtain ⟨cursor, labels', rel⟩ := r
      rw [h2] at h
      dsimp only at h
      obtain ⟨hcs, _, _⟩ := p1Special_cursor st s labels labels' cursor rel h2
      have hsame : cursor = some cur := by
        rw [hcs, hc]
        cases hn : s.nucleus with
        | instr i => rfl
        | directive d =>
          rw [hn] at hk
          cases d with
          | orig a => cases hk
          | end_ => cases hk
          | external l => rfl
          | fill v => rfl
          | blkw n => rfl
          | stringz x => rfl
      subst hsame
      unfold p1Advance at h
      dsimp only at h
      cases hs : cur.shift s.nucleus.wordLen with
      | error k => rw [hs] at h; cases h
      | ok cur' =>
        rw [hs] at h
        dsimp only at h
        injection h with h
        rw [← h]
        exact ⟨cur', rfl, rfl⟩

/-- over a run of body statements the cursor ends at start + size, as a 16-bit value and as a number (no wrap-around) -/
theorem pass1_body_cursor : ∀ (body : List Stmt) (st st' : P1) (cur : Cursor), body.foldlM pass1Step st = .ok st' →
    st.cursor = some cur → (∀ s ∈ body, isOrigEnd s.nucleus = false) →
    ∃ c', st'.cursor = some c' ∧ c'.lc = cur.lc + sizeOf' body ∧ c'.lc.toNat = cur.lc.toNat + natSize body := by
  intro body
  induction body with
  | nil =>
    intro st st' cur h hc _
    simp only [List.foldlM_nil] at h
    cases h
    exact ⟨cur, hc, by simp [sizeOf'], by simp [natSize]⟩
  | cons s rest ih =>
    intro st st' cur h hc hk
    rw [List.foldlM_cons] at h
    cases hs : pass1Step st s with
    | error e => rw [hs] at h; cases h
    | ok st1 =>
      rw [hs] at h
      obtain ⟨c1, hc1, hshift⟩ := pass1Step_in_block st st1 s cur hs hc (hk s (by simp))
      obtain ⟨c', hc', e1, e2⟩ := ih st1 st' c1 h hc1 (fun x hx => hk x (by simp [hx]))
      refine ⟨c', hc', ?_, ?_⟩
      · rw [e1, shift_lc _ _ _ hshift]
        have := foldl_size rest (0 + s.nucleus.wordLen)
        unfold sizeOf' at this ⊢
        simp only [List.foldl_cons]
        rw [this]
        generalize List.foldl (fun acc s => acc + s.nucleus.wordLen) 0 rest = z
        bv_omega
      · rw [e2, shift_toNat _ _ _ hshift]
        simp only [natSize, List.map_cons, List.sum_cons]
        omega

/-- statements outside blocks leave the cursor at "no block" -/
theorem pass1_gap_cursor : ∀ (gap : List Stmt) (st st' : P1), gap.foldlM pass1Step st = .ok st' → st.cursor = none →
    (∀ s ∈ gap, isOrigEnd s.nucleus = false) → st'.cursor = none := by
  intro gap
  induction gap with
  | nil => intro st st' h hc _; simp only [List.foldlM_nil] at h; cases h; exact hc
  | cons s rest ih =>
    intro st st' h hc hk
    rw [List.foldlM_cons] at h
    cases hs : pass1Step st s with
    | error e => rw [hs] at h; cases h
    | ok st1 =>
      rw [hs] at h
      have hb := pass1Step_stepB st st1 s hs
      rw [hc] at hb
      have hoe := hk s (by simp)
      have : st1.cursor.isSome = false := by
        unfold stepB at hb
        cases hn : s.nucleus with
        | instr i => rw [hn] at hb; simpa using hb.symm
        | directive d =>
          rw [hn] at hb hoe
          cases d with
          | orig a => cases hoe
          | end_ => cases hoe
          | external l => simpa using hb.symm
          | fill v => simpa using hb.symm
          | blkw n => simpa using hb.symm
          | stringz x => simpa using hb.symm
      have hnone : st1.cursor = none := by cases hcur : st1.cursor with | none => rfl | some c => rw [hcur] at this; cases this
      exact ih st1 st' h hnone (fun x hx => hk x (by simp [hx]))

/-- a whole block leaves the cursor at "no block" again; inside it, after the `.orig` and the first part `pre` of the body,
    the cursor stands at `a + size pre` -/
theorem pass1_block_cursor (b : Blk) (hb : b.WF) (pre post : List Stmt) (hbody : b.body = pre ++ post) (st st1 : P1)
    (hc : st.cursor = none) (h : (b.gap ++ b.origS :: pre).foldlM pass1Step st = .ok st1) :
    ∃ c, st1.cursor = some c ∧ c.lc = b.a + sizeOf' pre ∧ c.lc.toNat = b.a.toNat + natSize pre := by
  obtain ⟨s0, h0, h1⟩ := foldlM_append_ok2 _ _ _ _ _ h
  have hc0 := pass1_gap_cursor b.gap st s0 h0 hc hb.gap
  rw [List.foldlM_cons] at h1
  cases ho : pass1Step s0 b.origS with
  | error e => rw [ho] at h1; cases h1
  | ok s1 =>
    rw [ho] at h1
    obtain ⟨_, _, h3⟩ := pass1Step_cursor s0 s1 b.origS ho
    rw [hb.orig, cas_orig] at h3
    obtain ⟨c1, hc1, hlc1⟩ := h3
    have hlc : c1.lc = b.a := by
      rw [hlc1]
      show b.a + (0 : W) = b.a
      simp
    obtain ⟨c', hc', e1, e2⟩ := pass1_body_cursor pre s1 st1 c1 h1 hc1 (fun x hx => hb.body x (by rw [hbody]; simp [hx]))
    exact ⟨c', hc', by rw [e1, hlc], by rw [e2, hlc]⟩

/-- a whole block returns the cursor to "no block" -/
theorem pass1_whole_block_cursor (b : Blk) (hb : b.WF) (st st1 : P1) (hc : st.cursor = none)
    (h : b.stmts.foldlM pass1Step st = .ok st1) : st1.cursor = none := by
  unfold Blk.stmts at h
  have hre : b.gap ++ b.origS :: (b.body ++ [b.endS]) = (b.gap ++ b.origS :: b.body) ++ [b.endS] := by simp
  rw [hre] at h
  obtain ⟨s1, h1, h2⟩ := foldlM_append_ok2 _ _ _ _ _ h
  simp only [List.foldlM_cons, List.foldlM_nil] at h2
  cases he : pass1Step s1 b.endS with
  | error e => rw [he] at h2; cases h2
  | ok s2 =>
    rw [he] at h2
    have h2' : s2 = st1 := by injection h2
    subst h2'
    obtain ⟨_, _, h3⟩ := pass1Step_cursor s1 s2 b.endS he
    rw [hb.end_, cas_end] at h3
    exact h3

theorem pass1_blocks_cursor : ∀ (blks : List Blk) (st st1 : P1), (∀ b ∈ blks, b.WF) → st.cursor = none →
    (blks.flatMap Blk.stmts).foldlM pass1Step st = .ok st1 → st1.cursor = none := by
  intro blks
  induction blks with
  | nil => intro st st1 _ hc h; simp only [List.flatMap_nil, List.foldlM_nil] at h; cases h; exact hc
  | cons b rest ih =>
    intro st st1 hwf hc h
    simp only [List.flatMap_cons] at h
    obtain ⟨s1, h1, h2⟩ := foldlM_append_ok2 _ _ _ _ _ h
    exact ih s1 st1 (fun x hx => hwf x (by simp [hx])) (pass1_whole_block_cursor b (hwf b (by simp)) st s1 hc h1) h2

/-- **line → address, explicitly**: in a program made of blocks, for the statement `s` at position `pre ++ s :: post` of the
    body of block `b` (`.orig a`), assembled with debug symbols and with the statements on increasing lines: if `s` is not
    `.external`, the line of `s` maps to `a + size(pre)` — the block's origin plus the sizes of the statements before it -/
theorem lookup_line_explicit (before : List Blk) (b : Blk) (more : List Stmt) (pre post : List Stmt) (s : Stmt) (src : List Char) (t : SymTab)
    (hwf : ∀ x ∈ before, x.WF) (hb : b.WF) (hbody : b.body = pre ++ s :: post) (hrec : noLine s.nucleus = false)
    (h : pass1 (before.flatMap Blk.stmts ++ (b.stmts ++ more)) (some src) = .ok t)
    (hl : LinesFrom (SourceInfo.ofText src) (SourceInfo.ofText src).countLines 0 (before.flatMap Blk.stmts ++ (b.stmts ++ more))) :
    t.lookupLine ((SourceInfo.ofText src).getLine s.span.1) = some (b.a + sizeOf' pre) := by
  have hsplit : before.flatMap Blk.stmts ++ (b.stmts ++ more) =
      (before.flatMap Blk.stmts ++ (b.gap ++ b.origS :: pre)) ++ s :: (post ++ b.endS :: more) := by
    unfold Blk.stmts; rw [hbody]; simp
  rw [hsplit] at h hl
  -- the state before `s`
  have hf : ∃ stf, ((before.flatMap Blk.stmts ++ (b.gap ++ b.origS :: pre)) ++ s :: (post ++ b.endS :: more)).foldlM pass1Step (p1Init (some src)) = .ok stf := by
    unfold pass1 at h
    cases hh : ((before.flatMap Blk.stmts ++ (b.gap ++ b.origS :: pre)) ++ s :: (post ++ b.endS :: more)).foldlM pass1Step (p1Init (some src)) with
    | error e => rw [hh] at h; cases h
    | ok stf => exact ⟨stf, rfl⟩
  obtain ⟨stf, hstf⟩ := hf
  obtain ⟨st_pre, hp1, _⟩ := foldlM_append_ok2 _ _ _ _ _ hstf
  obtain ⟨s0, hq1, hq2⟩ := foldlM_append_ok2 _ _ _ _ _ hp1
  have hc0 := pass1_blocks_cursor before _ s0 hwf rfl hq1
  obtain ⟨c, hc, hlc, _⟩ := pass1_block_cursor b hb pre (s :: post) hbody s0 st_pre hc0 hq2
  have := (lookup_line_spec _ _ s src t st_pre h hl hp1).1
  rw [this]
  unfold lineEvent
  rw [hc]
  simp [hrec, hlc]

end Lc3V
