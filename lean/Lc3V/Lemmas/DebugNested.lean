/- Lemmas/DebugNested.lean — C22 for nested links: `DOk` (the shape of the debug symbols of every file produced by assembling
   and linking, Lemmas/TxtLink) supplies the hypotheses of `C22.linked_line_reads_same_text` and is kept by `DebugSymbols::link`. -/
import Lc3V.Lemmas.TxtLink
namespace Lc3V.C22
open Lc3V Txt SourceInfo

/-- the shape of debug symbols that meet `DOk`: sorted line blocks, each starting below the line count -/
theorem dOk_shape (d : DebugSyms) (h : DOk d) : SortedKeys d.lineMap ∧ ∀ x ∈ d.lineMap, x.1 < d.src.countLines := by
  obtain ⟨ls, hl, he, ha, hm⟩ := h.vec
  obtain ⟨m, _, _, hr, hc⟩ := lineMap_new_spec ls he ha
  refine ⟨by rw [hm, ← hr]; exact (chained_sorted _ _ hc).1, fun x hx => ?_⟩
  rw [hm] at hx
  have h1 := runs_bound ls 0 none (by simp) x hx
  have h2 := chained_nonempty _ _ (by rw [← hr]; exact hc) x hx
  have : 0 < x.2.length := List.length_pos_iff.mpr h2
  omega

/-- **C22 for nested links**: the debug symbols of any two files produced by assembling and linking (`DOk`) — not only of
    freshly assembled ones — behave under `DebugSymbols::link` as the property says, and the result meets `DOk` again, so
    the statement applies to every link of a nested link -/
theorem nested_link_line_text (a b : DebugSyms) (ha : DOk a) (hb : DOk b) (hfit : a.src.countLines + b.src.countLines ≤ 2 ^ 64) (A : W) :
    DOk (DebugSyms.link a b) ∧
    (∀ l, a.lineMap.find A = some l → l < a.src.countLines →
      (DebugSyms.link a b).lineMap.find A = some l ∧ (DebugSyms.link a b).src.readLine l = a.src.readLine l) ∧
    (∀ l, a.lineMap.find A = none → b.lineMap.find A = some l → l < b.src.countLines →
      (DebugSyms.link a b).lineMap.find A = some (l + a.src.countLines) ∧
      (DebugSyms.link a b).src.readLine (l + a.src.countLines) = b.src.readLine l) := by
  obtain ⟨_, hka⟩ := dOk_shape a ha
  obtain ⟨hsb, hkb⟩ := dOk_shape b hb
  have hNa : 0 < a.src.countLines := by rw [ha.src]; exact countLines_pos _
  have := linked_line_reads_same_text a b ha.src hb.src hsb hka (fun x hx => by have := hkb x hx; omega) A
  exact ⟨ha.link hb hfit, this.1, this.2⟩

end Lc3V.C22
