import Lc3V.Lemmas.DecCheck
namespace Lc3V
open SimInstr
set_option maxRecDepth 100000 in
theorem enc_tbl_add_imm : allBelow 8 (fun d => allBelow 8 (fun s => allBelow 32 (fun v => encChk (.add (BitVec.ofNat 3 d) (BitVec.ofNat 3 s) (.imm (BitVec.ofNat 5 v)))))) = true := by decide +kernel
set_option maxRecDepth 100000 in
theorem enc_tbl_add_reg : allBelow 8 (fun d => allBelow 8 (fun s => allBelow 8 (fun v => encChk (.add (BitVec.ofNat 3 d) (BitVec.ofNat 3 s) (.reg (BitVec.ofNat 3 v)))))) = true := by decide +kernel
end Lc3V
