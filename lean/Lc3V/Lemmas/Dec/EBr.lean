import Lc3V.Lemmas.DecCheck
namespace Lc3V
open SimInstr
set_option maxRecDepth 100000 in
theorem enc_tbl_br : allBelow 8 (fun c => allBelow 512 (fun o => encChk (.br (BitVec.ofNat 3 c) (BitVec.ofNat 9 o)))) = true := by decide +kernel
end Lc3V
