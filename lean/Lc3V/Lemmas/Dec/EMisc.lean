import Lc3V.Lemmas.DecCheck
namespace Lc3V
open SimInstr
set_option maxRecDepth 100000 in
theorem enc_tbl_jsr_imm : allBelow 2048 (fun o => encChk (.jsr (.imm (BitVec.ofNat 11 o)))) = true := by decide +kernel
set_option maxRecDepth 100000 in
theorem enc_tbl_jsr_reg : allBelow 8 (fun r => encChk (.jsr (.reg (BitVec.ofNat 3 r)))) = true := by decide +kernel
theorem enc_tbl_rti : encChk .rti = true := by decide +kernel
set_option maxRecDepth 100000 in
theorem enc_tbl_not : allBelow 8 (fun d => allBelow 8 (fun s => encChk (.not (BitVec.ofNat 3 d) (BitVec.ofNat 3 s)))) = true := by decide +kernel
theorem enc_tbl_jmp : allBelow 8 (fun r => encChk (.jmp (BitVec.ofNat 3 r))) = true := by decide +kernel
set_option maxRecDepth 100000 in
theorem enc_tbl_trap : allBelow 256 (fun v => encChk (.trap (BitVec.ofNat 8 v))) = true := by decide +kernel
end Lc3V
