import Lc3V.Lemmas.DecCheck
namespace Lc3V
open SimInstr
set_option maxRecDepth 100000 in
theorem enc_tbl_sti : allBelow 8 (fun r => allBelow 512 (fun o => encChk (.sti (BitVec.ofNat 3 r) (BitVec.ofNat 9 o)))) = true := by decide +kernel
end Lc3V
