import Lc3V.Lemmas.DecCheck
namespace Lc3V
open SimInstr
set_option maxRecDepth 100000 in
theorem enc_tbl_ldr : allBelow 8 (fun d => allBelow 8 (fun s => allBelow 64 (fun v => encChk (.ldr (BitVec.ofNat 3 d) (BitVec.ofNat 3 s) (BitVec.ofNat 6 v))))) = true := by decide +kernel
end Lc3V
