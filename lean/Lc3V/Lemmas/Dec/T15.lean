import Lc3V.Lemmas.DecCheck
namespace Lc3V
set_option maxRecDepth 100000 in
/-- complete table: all 4096 words with opcode 15 -/
theorem dec_tbl_15 : allBelow 4096 (fun i => decChk (BitVec.ofNat 16 (15 * 4096 + i))) = true := by decide +kernel
end Lc3V
