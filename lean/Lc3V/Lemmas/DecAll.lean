/- Lemmas/DecAll.lean — lifts the complete kernel-checked tables to universally quantified statements. -/
import Lc3V.Lemmas.Dec.T0
import Lc3V.Lemmas.Dec.T1
import Lc3V.Lemmas.Dec.T2
import Lc3V.Lemmas.Dec.T3
import Lc3V.Lemmas.Dec.T4
import Lc3V.Lemmas.Dec.T5
import Lc3V.Lemmas.Dec.T6
import Lc3V.Lemmas.Dec.T7
import Lc3V.Lemmas.Dec.T8
import Lc3V.Lemmas.Dec.T9
import Lc3V.Lemmas.Dec.T10
import Lc3V.Lemmas.Dec.T11
import Lc3V.Lemmas.Dec.T12
import Lc3V.Lemmas.Dec.T13
import Lc3V.Lemmas.Dec.T14
import Lc3V.Lemmas.Dec.T15
import Lc3V.Lemmas.Dec.EBr
import Lc3V.Lemmas.Dec.ER9ld
import Lc3V.Lemmas.Dec.ER9st
import Lc3V.Lemmas.Dec.ER9ldi
import Lc3V.Lemmas.Dec.ER9sti
import Lc3V.Lemmas.Dec.ER9lea
import Lc3V.Lemmas.Dec.EAluadd
import Lc3V.Lemmas.Dec.EAluand
import Lc3V.Lemmas.Dec.ERr6ldr
import Lc3V.Lemmas.Dec.ERr6str
import Lc3V.Lemmas.Dec.EMisc
namespace Lc3V
open SimInstr

/-- The per-word check holds for all 65536 words. -/
theorem decChk_all (w : W) : decChk w = true := by
  have h : ∀ n, n < 16 * 4096 → decChk (BitVec.ofNat 16 n) = true := by
    apply allBelow_chunks (p := fun n => decChk (BitVec.ofNat 16 n))
    intro k hk
    rcases (by omega : k = 0 ∨ k = 1 ∨ k = 2 ∨ k = 3 ∨ k = 4 ∨ k = 5 ∨ k = 6 ∨ k = 7 ∨ k = 8 ∨ k = 9 ∨
      k = 10 ∨ k = 11 ∨ k = 12 ∨ k = 13 ∨ k = 14 ∨ k = 15) with h|h|h|h|h|h|h|h|h|h|h|h|h|h|h|h <;> subst h
    · exact dec_tbl_0
    · exact dec_tbl_1
    · exact dec_tbl_2
    · exact dec_tbl_3
    · exact dec_tbl_4
    · exact dec_tbl_5
    · exact dec_tbl_6
    · exact dec_tbl_7
    · exact dec_tbl_8
    · exact dec_tbl_9
    · exact dec_tbl_10
    · exact dec_tbl_11
    · exact dec_tbl_12
    · exact dec_tbl_13
    · exact dec_tbl_14
    · exact dec_tbl_15
  have := h w.toNat (by have := w.isLt; omega)
  simpa using this

theorem all1 {n} {p : BitVec n → Bool} (h : allBelow (2 ^ n) (fun i => p (BitVec.ofNat n i)) = true) :
    ∀ x, p x = true := forall_bitvec_of_table h

theorem all2 {n m} {p : BitVec n → BitVec m → Bool}
    (h : allBelow (2 ^ n) (fun i => allBelow (2 ^ m) (fun j => p (BitVec.ofNat n i) (BitVec.ofNat m j))) = true) :
    ∀ x y, p x y = true := by
  intro x y
  have h1 := forall_bitvec_of_table (p := fun x => allBelow (2 ^ m) (fun j => p x (BitVec.ofNat m j))) h x
  exact forall_bitvec_of_table (p := fun y => p x y) h1 y

theorem all3 {n m k} {p : BitVec n → BitVec m → BitVec k → Bool}
    (h : allBelow (2 ^ n) (fun i => allBelow (2 ^ m) (fun j => allBelow (2 ^ k) (fun l =>
      p (BitVec.ofNat n i) (BitVec.ofNat m j) (BitVec.ofNat k l)))) = true) :
    ∀ x y z, p x y z = true := by
  intro x y z
  have h1 := forall_bitvec_of_table
    (p := fun x => allBelow (2 ^ m) (fun j => allBelow (2 ^ k) (fun l => p x (BitVec.ofNat m j) (BitVec.ofNat k l)))) h x
  exact all2 (p := fun y z => p x y z) h1 y z

/-- encode-then-decode holds for every representable instruction. -/
theorem encChk_all (i : SimInstr) : encChk i = true := by
  cases i with
  | br cc off => exact all2 (p := fun c o => encChk (.br c o)) enc_tbl_br cc off
  | add dr sr1 sr2 =>
    cases sr2 with
    | imm v => exact all3 (p := fun d s v => encChk (.add d s (.imm v))) enc_tbl_add_imm dr sr1 v
    | reg r => exact all3 (p := fun d s v => encChk (.add d s (.reg v))) enc_tbl_add_reg dr sr1 r
  | ld dr off => exact all2 (p := fun r o => encChk (.ld r o)) enc_tbl_ld dr off
  | st sr off => exact all2 (p := fun r o => encChk (.st r o)) enc_tbl_st sr off
  | jsr op =>
    cases op with
    | imm v => exact all1 (p := fun o => encChk (.jsr (.imm o))) enc_tbl_jsr_imm v
    | reg r => exact all1 (p := fun o => encChk (.jsr (.reg o))) enc_tbl_jsr_reg r
  | and dr sr1 sr2 =>
    cases sr2 with
    | imm v => exact all3 (p := fun d s v => encChk (.and d s (.imm v))) enc_tbl_and_imm dr sr1 v
    | reg r => exact all3 (p := fun d s v => encChk (.and d s (.reg v))) enc_tbl_and_reg dr sr1 r
  | ldr dr b off => exact all3 (p := fun d s v => encChk (.ldr d s v)) enc_tbl_ldr dr b off
  | str sr b off => exact all3 (p := fun d s v => encChk (.str d s v)) enc_tbl_str sr b off
  | rti => exact enc_tbl_rti
  | not dr sr => exact all2 (p := fun d s => encChk (.not d s)) enc_tbl_not dr sr
  | ldi dr off => exact all2 (p := fun r o => encChk (.ldi r o)) enc_tbl_ldi dr off
  | sti sr off => exact all2 (p := fun r o => encChk (.sti r o)) enc_tbl_sti sr off
  | jmp b => exact all1 (p := fun o => encChk (.jmp o)) enc_tbl_jmp b
  | lea dr off => exact all2 (p := fun r o => encChk (.lea r o)) enc_tbl_lea dr off
  | trap v => exact all1 (p := fun o => encChk (.trap o)) enc_tbl_trap v

end Lc3V
