/-
  Lemmas/DecCheck.lean — the Boolean checks evaluated over complete tables (kernel `decide`), and the
  independent validity predicate `specValid` written from the LC-3 ISA instruction formats.
-/
import Lc3V.Model.Instr
namespace Lc3V
open SimInstr

/-- bits [hi:lo] of a word as a number (spec-side helper, independent of `slice`) -/
def bitsOf (w : W) (lo len : Nat) : Nat := (w.toNat / 2 ^ lo) % 2 ^ len

/-- Canonical LC-3 encodings, from the ISA format table: must-be-zero / must-be-one bits per opcode. -/
def specValid (w : W) : Bool :=
  let op := bitsOf w 12 4
  if op = 1 ∨ op = 5 then bitsOf w 5 1 = 1 ∨ bitsOf w 3 2 = 0          -- ADD / AND
  else if op = 4 then bitsOf w 11 1 = 1 ∨ (bitsOf w 9 2 = 0 ∧ bitsOf w 0 6 = 0)  -- JSR / JSRR
  else if op = 8 then bitsOf w 0 12 = 0                                 -- RTI
  else if op = 9 then bitsOf w 0 6 = 63                                 -- NOT
  else if op = 12 then bitsOf w 9 3 = 0 ∧ bitsOf w 0 6 = 0              -- JMP / RET
  else if op = 13 then false                                            -- reserved
  else if op = 15 then bitsOf w 8 4 = 0                                 -- TRAP
  else true                                                             -- BR LD ST LDR STR LDI STI LEA

/-- Everything C06 says about one word. -/
def decChk (w : W) : Bool :=
  match decode w with
  | .ok i => specValid w && encode i == w
  | .error .illegalOpcode => bitsOf w 12 4 == 13
  | .error .invalidInstrFormat => bitsOf w 12 4 != 13 && !specValid w

/-- encode-then-decode for one instruction -/
def encChk (i : SimInstr) : Bool :=
  (match decode (encode i) with | .ok j => j == i | .error _ => false) && specValid (encode i)

theorem allBelow_chunks {p : Nat → Bool} {c m : Nat}
    (h : ∀ k, k < c → allBelow m (fun i => p (k * m + i)) = true) :
    ∀ n, n < c * m → p n = true := by
  intro n hn
  have hm : 0 < m := by
    rcases Nat.eq_zero_or_pos m with h0 | h0
    · subst h0; simp at hn
    · exact h0
  have hk : n / m < c := (Nat.div_lt_iff_lt_mul hm).mpr hn
  have := allBelow_spec (h (n / m) hk) (n % m) (Nat.mod_lt _ hm)
  have e : n / m * m + n % m = n := by rw [Nat.mul_comm]; exact Nat.div_add_mod n m
  rw [e] at this; exact this

end Lc3V
