/- Lemmas/DevInvCore.lean — the device-handler invariant `DevInv` and its preservation by every handler operation
   (moved out of Props/C16.lean so that the whole-step theorem can build on it; names unchanged). -/
import Lc3V.Props.C08
namespace Lc3V.C16
open Lc3V Sim SimM DevHandler

/-- every port's device id is a valid index into `devices` -/
def DevInv (h : DevHandler) : Prop := ∀ i : Fin 512, h.ports[i] < h.devices.size

theorem dispatch_in_bounds (h : DevHandler) (hi : DevInv h) (addr : W) (id : Nat) (hg : h.getDevId addr = some id) :
    id < h.devices.size := by
  unfold getDevId at hg
  cases hp : portIdx addr with
  | none => simp [hp] at hg
  | some i => simp [hp] at hg; rw [← hg]; exact hi i

theorem setPort_inv (h : DevHandler) (p : W) (id : Nat) (hi : DevInv h) : DevInv (h.setPort p id) := by
  unfold setPort
  split
  · exact hi
  · rename_i i _
    split
    · rename_i hc
      intro j
      show (h.ports.set i id)[j] < h.devices.size
      by_cases hij : i.val = j.val
      · have : (h.ports.set i id)[j] = id := by
          simp only [Fin.getElem_fin]; rw [Vector.getElem_set]; simp [hij]
        rw [this]; exact hc.2
      · have : (h.ports.set i id)[j] = h.ports[j] := by
          simp only [Fin.getElem_fin]; rw [Vector.getElem_set]; simp [hij]
        rw [this]; exact hi j
    · exact hi

theorem setPort_size (h : DevHandler) (p : W) (id : Nat) : (h.setPort p id).devices.size = h.devices.size := by
  unfold setPort; split
  · rfl
  · split <;> rfl

theorem new_inv : DevInv DevHandler.new := by
  unfold DevHandler.new
  apply setPort_inv; apply setPort_inv; apply setPort_inv; apply setPort_inv
  intro i
  simp

theorem setKeyboard_inv (h : DevHandler) (d : Device) (hi : DevInv h) : DevInv (h.setKeyboard d) := by
  intro i; unfold setKeyboard; simp only [Array.size_setIfInBounds]; exact hi i

theorem setDisplay_inv (h : DevHandler) (d : Device) (hi : DevInv h) : DevInv (h.setDisplay d) := by
  intro i; unfold setDisplay; simp only [Array.size_setIfInBounds]; exact hi i

theorem foldl_setPort_inv (addrs : List W) (id : Nat) (h : DevHandler) (hi : DevInv h) :
    DevInv (addrs.foldl (fun acc p => acc.setPort p id) h) := by
  induction addrs generalizing h with
  | nil => exact hi
  | cons a rest ih => exact ih _ (setPort_inv h a id hi)

theorem addDevice_inv (h : DevHandler) (d : Device) (addrs : List W) (hi : DevInv h) :
    DevInv (h.addDevice d addrs).2 := by
  unfold addDevice
  split
  · exact hi
  · split
    · apply foldl_setPort_inv
      intro i
      simp only [Array.size_push]
      exact Nat.lt_succ_of_lt (hi i)
    · exact hi

theorem removeDevice_inv (h : DevHandler) (id : Nat) (hi : DevInv h) : DevInv (h.removeDevice id) := by
  unfold removeDevice
  split
  · rename_i hlt
    split
    · intro i; simp only [Array.size_setIfInBounds]; exact hi i
    · intro i
      simp only [Array.size_setIfInBounds, Fin.getElem_fin, Vector.getElem_map]
      split
      · omega
      · exact hi i
  · exact hi

theorem ioRead_inv (h : DevHandler) (a : W) (e : Bool) (hi : DevInv h) : DevInv (h.ioRead a e).2 := by
  unfold DevHandler.ioRead
  split
  · exact hi
  · intro i; simp only [Array.size_setIfInBounds]; exact hi i

theorem ioWrite_inv (h : DevHandler) (a d : W) (hi : DevInv h) : DevInv (h.ioWrite a d).2 := by
  unfold DevHandler.ioWrite
  split
  · exact hi
  · intro i; simp only [Array.size_setIfInBounds]; exact hi i

theorem ioReset_inv (h : DevHandler) (hi : DevInv h) : DevInv h.ioReset := by
  intro i; unfold DevHandler.ioReset; simp only [Array.size_map]; exact hi i

/-- polling visits every device once and keeps their number -/
theorem poll_size (h : DevHandler) : (h.pollInterrupt).2.devices.size = h.devices.size := by
  unfold pollInterrupt
  simp only
  have key : ∀ (l : List Device) (acc : Option Interrupt × Array Device),
      (l.foldl pollStep acc).2.size = acc.2.size + l.length := by
    intro l
    induction l with
    | nil => intro acc; simp
    | cons d rest ih =>
      intro acc
      simp only [List.foldl_cons, ih, List.length_cons]
      simp only [pollStep, Array.size_push]; omega
  rw [← Array.foldl_toList]
  have := key h.devices.toList (none, #[])
  simpa using this

theorem poll_inv (h : DevHandler) (hi : DevInv h) : DevInv (h.pollInterrupt).2 := by
  intro i
  rw [poll_size]
  exact hi i

end Lc3V.C16
