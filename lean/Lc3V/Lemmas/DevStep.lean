/- Lemmas/DevStep.lean — `DevInv` (every port's device id indexes the device list) is an invariant of every step and run. -/
import Lc3V.Lemmas.DevInvCore
set_option linter.unusedSimpArgs false
set_option linter.unusedVariables false
namespace Lc3V
open Sim SimM

def DInv (s : Sim) : Prop := C16.DevInv s.dev

theorem DInv.congr {s s' : Sim} (h : DInv s) (h1 : s'.dev = s.dev) : DInv s' := by unfold DInv; rw [h1]; exact h

def DPres {α} (m : SimM α) : Prop := ∀ s, DInv s → DInv (m s).2

theorem DPres.bind {α β} {m : SimM α} {f : α → SimM β} (h : DPres m) (hf : ∀ a, DPres (f a)) : DPres (m >>= f) := by
  intro s hs
  have h1 := h s hs
  simp only [SimM.bind_apply]
  rcases hm : m s with ⟨r, s'⟩
  rw [hm] at h1
  cases r with
  | ok a => exact hf a s' h1
  | error e => exact h1

theorem DPres.pure {α} (a : α) : DPres (Pure.pure a : SimM α) := fun _ h => h
theorem DPres.throwB {α} (b : StepBreak) : DPres (SimM.throwB b : SimM α) := fun _ h => h
theorem DPres.throwErr {α} (e : SimErr) : DPres (SimM.throwErr e : SimM α) := fun _ h => h
theorem DPres.liftE {α} (x : Except SimErr α) : DPres (SimM.liftE x) := by intro s h; cases x <;> exact h
theorem DPres.getS {β} {f : Sim → SimM β} (h : ∀ s, DPres (f s)) : DPres (SimM.getS >>= f) := by
  intro s hs; simp only [SimM.bind_apply, SimM.getS_apply]; exact h s s hs
theorem DPres.modify (f : Sim → Sim) (h : ∀ s, DInv s → DInv (f s)) : DPres (modifyS f) := fun s hs => h s hs
theorem DPres.ite {α} (c : Prop) [Decidable c] {a b : SimM α} (ha : DPres a) (hb : DPres b) : DPres (if c then a else b) := by
  by_cases h : c <;> simp only [h, if_true, if_false] <;> assumption

macro "dp_same" : tactic => `(tactic| (refine DPres.modify _ ?_; intro s hs; exact hs.congr rfl))

theorem Sim.readMem_dev (a : W) (c : Ctx) (s : Sim) :
    (readMem a c s).2.dev = s.dev ∨ (readMem a c s).2.dev = (s.dev.ioRead a c.ioEffects).2 := by
  obtain ⟨mem, regs, pc, psr, savedSp, frameNo, frames, srDefs, alloca, instrRun, prefetch, pause, observer, mcr, flags, bps, iregs, dev, log⟩ := s
  rcases hr : dev.ioRead a c.ioEffects with ⟨r, dev'⟩
  simp only [readMem, iregLookup, iregRead, hr]
  generalize Option.map (fun x => x.snd) (List.find? (fun p => p.fst == a) iregs) = look
  cases r <;> cases look <;> by_cases h1 : (!c.privileged && !inUser a) = true <;> by_cases h2 : IO_START ≤ a.toNat <;>
    by_cases h3 : c.track = true <;> simp only [h1, h2, h3, if_true, if_false, Bool.false_eq_true] <;>
    first | exact Or.inl rfl | exact Or.inr rfl | exact Or.inl trivial | exact Or.inr trivial | trivial

theorem Sim.writeMem_dev (a : W) (d : Word) (c : Ctx) (s : Sim) :
    (Sim.writeMem a d c s).2.dev = s.dev ∨ (Sim.writeMem a d c s).2.dev = (s.dev.ioWrite a d.data).2 := by
  obtain ⟨mem, regs, pc, psr, savedSp, frameNo, frames, srDefs, alloca, instrRun, prefetch, pause, observer, mcr, flags, bps, iregs, dev, log⟩ := s
  simp only [Sim.writeMem, ioWritePart, storePart, iregLookup, iregWrite, Word.getIfInit, Word.setIfInit]
  generalize Option.map (fun x => x.snd) (List.find? (fun p => p.fst == a) iregs) = look
  rcases look with _ | ir
  · cases hst : c.strict <;> cases hi : d.isInit <;> by_cases h1 : (!c.privileged && !inUser a) = true <;>
      by_cases h2 : IO_START ≤ a.toNat <;> by_cases h3 : c.track = true <;>
      simp only [h1, h2, h3, hst, hi, if_true, if_false, Bool.false_eq_true, Bool.not_true, Bool.not_false, Bool.or_true, Bool.true_or,
        Bool.or_false, Bool.false_or] <;>
      first
        | exact Or.inl rfl
        | exact Or.inl trivial
        | (generalize hw : dev.ioWrite a d.data = rw
           obtain ⟨r, dev'⟩ := rw
           cases r <;> first | exact Or.inr rfl | exact Or.inl rfl | exact Or.inr trivial | exact Or.inl trivial)
  · cases ir <;> cases hst : c.strict <;> cases hi : d.isInit <;> by_cases h1 : (!c.privileged && !inUser a) = true <;>
      by_cases h2 : IO_START ≤ a.toNat <;> by_cases h3 : c.track = true <;>
      simp only [h1, h2, h3, hst, hi, if_true, if_false, Bool.false_eq_true, Bool.not_true, Bool.not_false, Bool.or_true, Bool.true_or,
        Bool.or_false, Bool.false_or] <;>
      first
        | exact Or.inl rfl
        | exact Or.inl trivial

theorem DPres.readMem (a : W) (c : Ctx) : DPres (Sim.readMem a c) := by
  intro s hs
  unfold DInv
  rcases Sim.readMem_dev a c s with h | h <;> rw [h]
  · exact hs
  · exact C16.ioRead_inv _ _ _ hs

theorem DPres.writeMem (a : W) (d : Word) (c : Ctx) : DPres (Sim.writeMem a d c) := by
  intro s hs
  unfold DInv
  rcases Sim.writeMem_dev a d c s with h | h <;> rw [h]
  · exact hs
  · exact C16.ioWrite_inv _ _ _ hs

theorem DPres.setPc (w : Word) (chk : Bool) : DPres (Sim.setPc w chk) := by
  intro s hs
  unfold Sim.setPc
  simp only [SimM.bind_apply, SimM.getS_apply]
  cases hg : w.getIfInit s.flags.strict SimErr.strictJmpAddrUninit with
  | error e => simpa using hs
  | ok addr =>
    simp only [SimM.liftE_ok]
    by_cases h1 : (s.flags.strict && chk) = true
    · by_cases h2 : (!(s.memAt addr).isInit) = true
      · simpa [h1, h2] using hs
      · simp only [h1, h2, if_true, if_false, Bool.false_eq_true, SimM.bind_apply, SimM.pure_apply, SimM.modifyS_apply]
        exact hs.congr rfl
    · simp only [h1, if_false, Bool.false_eq_true, SimM.bind_apply, SimM.pure_apply, SimM.modifyS_apply]
      exact hs.congr rfl

theorem DPres.offsetPc (off : W) (chk : Bool) : DPres (Sim.offsetPc off chk) := by
  unfold Sim.offsetPc
  apply DPres.getS; intro s
  exact DPres.setPc _ _

theorem DPres.setRegIfInit (r : Reg) (v : Word) (b : Bool) : DPres (Sim.setRegIfInit r v b) := by
  unfold Sim.setRegIfInit
  apply DPres.getS; intro s
  refine DPres.bind (DPres.liftE _) (fun w => ?_)
  dp_same

theorem DPres.callSubroutine (addr : W) : DPres (Sim.callSubroutine addr) := by
  unfold Sim.callSubroutine
  refine DPres.bind ?_ (fun _ => DPres.bind ?_ (fun _ => DPres.setPc _ _))
  · dp_same
  · exact DPres.modify _ (fun s hs => hs.congr rfl)

theorem DPres.callInterrupt (vect : W) (ft : FrameType) : DPres (Sim.callInterrupt vect ft) := by
  unfold Sim.callInterrupt
  apply DPres.getS; intro s
  refine DPres.bind (DPres.readMem _ _) (fun w => DPres.bind (DPres.liftE _) (fun addr => DPres.bind ?_ (fun _ => DPres.setPc _ _)))
  exact DPres.modify _ (fun s hs => hs.congr rfl)

theorem DPres.virtualBreak (brk : StepBreak) : DPres (Sim.virtualBreak brk) := by
  unfold Sim.virtualBreak
  apply DPres.getS; intro s
  refine DPres.ite _ (DPres.bind (DPres.offsetPc _ _) (fun _ => DPres.bind ?_ (fun _ => DPres.throwB brk))) (DPres.throwB brk)
  dp_same

theorem DPres.enterCore (vect : W) (priority : Option Nat) (oldPsr oldPc : W) : DPres (Sim.enterCore vect priority oldPsr oldPc) := by
  unfold Sim.enterCore
  refine DPres.bind ?_ (fun _ => ?_)
  · dp_same
  apply DPres.getS; intro s
  refine DPres.bind (DPres.liftE _) (fun sp => DPres.bind ?_ (fun _ => DPres.bind (DPres.writeMem _ _ _) (fun _ =>
    DPres.bind (DPres.writeMem _ _ _) (fun _ => DPres.bind ?_ (fun _ => ?_)))))
  · dp_same
  · dp_same
  · cases priority with
    | none => exact DPres.callInterrupt _ _
    | some p =>
      refine DPres.bind ?_ (fun _ => DPres.callInterrupt _ _)
      dp_same

theorem DPres.enterSupervisor (vect : W) (priority : Option Nat) : DPres (Sim.enterSupervisor vect priority) := by
  intro s hs
  unfold Sim.enterSupervisor
  refine DPres.enterCore vect priority s.psr s.pc _ ?_
  by_cases hp : (!PSR.privileged s.psr) = true <;> simp only [hp, if_true, if_false, Bool.false_eq_true]
  · exact hs.congr rfl
  · exact hs

theorem DPres.handleInterrupt (vect : W) (priority : Option Nat) : DPres (Sim.handleInterrupt vect priority) := by
  intro s hs
  unfold Sim.handleInterrupt
  by_cases h1 : s.gated priority = true
  · simp only [h1, if_true]; exact hs
  · simp only [h1, if_false, Bool.false_eq_true]
    by_cases h2 : (!s.flags.realTraps) = true
    · simp only [h2, if_true]
      cases realIntVect vect with
      | none => exact DPres.enterSupervisor vect priority s hs
      | some brk => exact DPres.virtualBreak brk s hs
    · simp only [h2, if_false, Bool.false_eq_true]
      exact DPres.enterSupervisor vect priority s hs

theorem DPres.execInstr (i : SimInstr) : DPres (Sim.execInstr i) := by
  cases i with
  | br cc off =>
    simp only [Sim.execInstr]
    apply DPres.getS; intro s
    exact DPres.ite _ (DPres.offsetPc _ _) (DPres.pure _)
  | add dr sr1 sr2 =>
    simp only [Sim.execInstr]
    apply DPres.getS; intro s
    refine DPres.bind (DPres.setRegIfInit _ _ _) (fun _ => ?_)
    dp_same
  | and dr sr1 sr2 =>
    simp only [Sim.execInstr]
    apply DPres.getS; intro s
    refine DPres.bind (DPres.setRegIfInit _ _ _) (fun _ => ?_)
    dp_same
  | not dr sr =>
    simp only [Sim.execInstr]
    apply DPres.getS; intro s
    refine DPres.bind (DPres.setRegIfInit _ _ _) (fun _ => ?_)
    dp_same
  | ld dr off =>
    simp only [Sim.execInstr]
    apply DPres.getS; intro s
    refine DPres.bind (DPres.readMem _ _) (fun v => DPres.bind (DPres.setRegIfInit _ _ _) (fun _ => ?_))
    dp_same
  | ldr dr b off =>
    simp only [Sim.execInstr]
    apply DPres.getS; intro s
    refine DPres.bind (DPres.liftE _) (fun base => DPres.bind (DPres.readMem _ _) (fun v => DPres.bind (DPres.setRegIfInit _ _ _) (fun _ => ?_)))
    dp_same
  | ldi dr off =>
    simp only [Sim.execInstr]
    apply DPres.getS; intro s
    refine DPres.bind (DPres.readMem _ _) (fun pw => DPres.bind (DPres.liftE _) (fun ea => ?_))
    apply DPres.getS; intro s2
    refine DPres.bind (DPres.readMem _ _) (fun v => DPres.bind (DPres.setRegIfInit _ _ _) (fun _ => ?_))
    dp_same
  | st sr off =>
    simp only [Sim.execInstr]
    apply DPres.getS; intro s
    exact DPres.writeMem _ _ _
  | str sr b off =>
    simp only [Sim.execInstr]
    apply DPres.getS; intro s
    exact DPres.bind (DPres.liftE _) (fun base => DPres.writeMem _ _ _)
  | sti sr off =>
    simp only [Sim.execInstr]
    apply DPres.getS; intro s
    refine DPres.bind (DPres.readMem _ _) (fun pw => DPres.bind (DPres.liftE _) (fun ea => ?_))
    apply DPres.getS; intro s2
    exact DPres.writeMem _ _ _
  | jsr op =>
    simp only [Sim.execInstr]
    apply DPres.getS; intro s
    exact DPres.bind (DPres.liftE _) (fun addr => DPres.callSubroutine addr)
  | jmp b =>
    simp only [Sim.execInstr]
    apply DPres.getS; intro s
    refine DPres.bind (DPres.setPc _ _) (fun _ => DPres.ite _ ?_ (DPres.pure _))
    exact DPres.modify _ (fun s hs => hs.congr rfl)
  | lea dr off =>
    simp only [Sim.execInstr]
    apply DPres.getS; intro s
    dp_same
  | trap v =>
    simp only [Sim.execInstr]
    apply DPres.getS; intro s
    exact DPres.handleInterrupt _ _
  | rti =>
    simp only [Sim.execInstr]
    apply DPres.getS; intro s
    refine DPres.ite _ ?_ (DPres.throwErr _)
    refine DPres.bind (DPres.liftE _) (fun sp => ?_)
    refine DPres.bind (DPres.readMem _ _) (fun pcw => ?_)
    refine DPres.bind (DPres.liftE _) (fun pc => ?_)
    refine DPres.bind (DPres.readMem _ _) (fun psrw => ?_)
    refine DPres.bind (DPres.liftE _) (fun psr => ?_)
    refine DPres.bind ?_ (fun _ => ?_)
    · dp_same
    refine DPres.bind (DPres.setPc _ _) (fun _ => ?_)
    refine DPres.bind ?_ (fun _ => ?_)
    · dp_same
    apply DPres.getS; intro s3
    refine DPres.ite _ (DPres.bind ?_ (fun _ => ?_)) ?_
    · dp_same
    · exact DPres.modify _ (fun s hs => hs.congr rfl)
    · exact DPres.modify _ (fun s hs => hs.congr rfl)

theorem DPres.fetchExec : DPres Sim.fetchExec := by
  unfold Sim.fetchExec
  apply DPres.getS; intro s
  refine DPres.bind (DPres.readMem _ _) (fun w => DPres.bind (DPres.liftE _) (fun word => DPres.bind (DPres.liftE _) (fun instr => ?_)))
  refine DPres.bind (DPres.offsetPc _ _) (fun _ => DPres.bind ?_ (fun _ => DPres.bind (DPres.execInstr instr) (fun _ => ?_)))
  · dp_same
  · dp_same

theorem DPres.stepInner : DPres Sim.stepInner := by
  intro s hs
  unfold Sim.stepInner
  have h2 : DInv (afterPoll s) := C16.poll_inv _ hs
  simp only
  cases (s.dev.pollInterrupt).1 with
  | none => exact DPres.fetchExec _ h2
  | some i =>
    cases i with
    | external tag => exact h2
    | vectored vect prio =>
      simp only
      by_cases hp : prio > PSR.priority (afterPoll s).psr
      · simp only [hp, if_true]; exact DPres.handleInterrupt _ _ _ h2
      · simp only [hp, if_false]; exact DPres.fetchExec _ h2

/-- **`devices[dev_id]` never indexes out of bounds**: the device-handler invariant is preserved by every step, in every mode -/
theorem step_dev_inv (s : Sim) (hs : DInv s) : DInv (Sim.step s).2 := by
  have h1 := DPres.stepInner s hs
  unfold Sim.step
  rcases hst : Sim.stepInner s with ⟨r, s'⟩
  rw [hst] at h1
  simp only at h1 ⊢
  by_cases hrt : (!s'.flags.realTraps) = true
  · simp only [hrt, if_true]; exact h1
  · simp only [hrt, if_false, Bool.false_eq_true]
    cases r with
    | ok u => exact h1
    | error b =>
      cases b with
      | halt => exact DPres.handleInterrupt _ _ s' h1
      | err e => cases e <;> first | exact DPres.handleInterrupt _ _ s' h1 | exact h1

/-- … and by every run -/
theorem runLoop_dev_inv (tw : Tripwire) : ∀ (fuel iter : Nat) (s : Sim), DInv s →
    match runLoop tw fuel iter s with
    | none => True
    | some (_, s') => DInv s' := by
  intro fuel
  induction fuel with
  | zero => intro iter s hs; simp [runLoop]
  | succ f ih =>
    intro iter s hs
    unfold runLoop
    by_cases hmcr : (!s.mcr) = true
    · simp only [hmcr, if_true]; exact hs
    · simp only [hmcr, if_false, Bool.false_eq_true]
      have ht : DInv (tripwireEval tw iter s).2 := by
        cases tw with
        | always => exact hs
        | limit a b => exact hs
        | over c => exact hs
        | out c => exact hs
        | mcrAt k a b =>
          unfold tripwireEval
          by_cases hk : iter = k <;> simp only [hk, if_true, if_false]
          · exact hs.congr rfl
          · exact hs
      rcases hte : tripwireEval tw iter s with ⟨go, s1⟩
      rw [hte] at ht
      simp only at ht ⊢
      by_cases hgo : (!go) = true
      · simp only [hgo, if_true]; exact ht
      · simp only [hgo, if_false, Bool.false_eq_true]
        have h1 := step_dev_inv s1 ht
        rcases hst : Sim.step s1 with ⟨r, s2⟩
        rw [hst] at h1
        simp only at h1 ⊢
        cases r with
        | error b => cases b <;> exact h1
        | ok u =>
          simp only
          by_cases hbp : s2.breakpoints.any (bpCheck s2) = true
          · simp only [hbp, if_true]; exact h1
          · simp only [hbp, if_false, Bool.false_eq_true]
            exact ih (iter + 1) s2 h1

end Lc3V
