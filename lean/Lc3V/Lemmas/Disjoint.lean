/- Lemmas/Disjoint.lean — the overlap check of the second pass keeps the finished blocks pairwise disjoint. -/
import Lc3V.Lemmas.Image
import Lc3V.Lemmas.Structure
set_option linter.unusedSimpArgs false
set_option linter.unusedVariables false
namespace Lc3V

/-- `x` ends at or before the start of `y` -/
def Before (x y : ObjBlock) : Prop := x.stop ≤ y.start.toNat

/-- the finished blocks in address order, each ending before the next begins; none empty -/
def DoneInv2 (done : List ObjBlock) : Prop := done.Pairwise Before ∧ ∀ x ∈ done, x.words ≠ []

theorem last_filter_rel (p : ObjBlock → Bool) : ∀ (l : List ObjBlock) (P : ObjBlock), l.Pairwise Before →
    (l.filter p).getLast? = some P → ∀ x ∈ l, p x = true → x = P ∨ Before x P := by
  intro l
  induction l with
  | nil => intro P _ _ x hx; cases hx
  | cons z zs ih =>
    intro P hl hP x hx hpx
    have hz := List.pairwise_cons.mp hl
    by_cases hpz : p z = true
    · simp only [List.filter_cons, hpz, if_true] at hP
      cases hf : zs.filter p with
      | nil =>
        rw [hf] at hP
        simp only [List.getLast?_singleton, Option.some.injEq] at hP
        subst hP
        rcases List.mem_cons.mp hx with rfl | hx
        · exact Or.inl rfl
        · have : x ∈ zs.filter p := List.mem_filter.mpr ⟨hx, hpx⟩
          rw [hf] at this; cases this
      | cons y ys =>
        rw [hf, List.getLast?_cons_cons] at hP
        rw [← hf] at hP
        have hPmem : P ∈ zs := by
          have : P ∈ zs.filter p := List.mem_of_getLast? hP
          exact (List.mem_filter.mp this).1
        rcases List.mem_cons.mp hx with rfl | hx
        · exact Or.inr (hz.1 P hPmem)
        · exact ih P hz.2 hP x hx hpx
    · simp only [List.filter_cons, hpz, Bool.false_eq_true, if_false] at hP
      rcases List.mem_cons.mp hx with rfl | hx
      · exact absurd hpx hpz
      · exact ih P hz.2 hP x hx hpx

theorem find_first_rel (p : ObjBlock → Bool) : ∀ (l : List ObjBlock) (Q : ObjBlock), l.Pairwise Before →
    l.find? p = some Q → ∀ x ∈ l, p x = true → x = Q ∨ Before Q x := by
  intro l
  induction l with
  | nil => intro Q _ _ x hx; cases hx
  | cons z zs ih =>
    intro Q hl hQ x hx hpx
    have hz := List.pairwise_cons.mp hl
    by_cases hpz : p z = true
    · simp only [List.find?, hpz, Option.some.injEq] at hQ
      subst hQ
      rcases List.mem_cons.mp hx with rfl | hx
      · exact Or.inl rfl
      · exact Or.inr (hz.1 x hx)
    · have hpz' : p z = false := by simpa using hpz
      simp only [List.find?, hpz'] at hQ
      rcases List.mem_cons.mp hx with rfl | hx
      · exact absurd hpx hpz
      · exact ih Q hz.2 hQ x hx hpx

/-- if the two neighbours examined by the overlap check do not overlap a new non-empty block, no finished block does -/
theorem all_disjoint_of_neighbours (done : List ObjBlock) (hd : DoneInv2 done) (a : W) (n : Nat) (hn : 0 < n)
    (h : (neighbours done a).find? (fun x => rangesOverlap a.toNat (a.toNat + n) x.start.toNat x.stop) = none) :
    ∀ x ∈ done, x.stop ≤ a.toNat ∨ a.toNat + n ≤ x.start.toNat := by
  intro x hx
  have hne : ∀ y ∈ done, y.start.toNat < y.stop := by
    intro y hy
    have := List.length_pos_iff.mpr (hd.2 y hy)
    unfold ObjBlock.stop; omega
  have hnone := List.find?_eq_none.mp h
  by_cases hle : x.start.toNat ≤ a.toNat
  · -- the last block starting at or before `a`
    cases hP : (done.filter (fun b => decide (b.start.toNat ≤ a.toNat))).getLast? with
    | none =>
      have : x ∈ done.filter (fun b => decide (b.start.toNat ≤ a.toNat)) := List.mem_filter.mpr ⟨hx, by simpa using hle⟩
      rw [List.getLast?_eq_none_iff] at hP
      rw [hP] at this; cases this
    | some P =>
      have hPmem : P ∈ done.filter (fun b => decide (b.start.toNat ≤ a.toNat)) := List.mem_of_getLast? hP
      have hPd := (List.mem_filter.mp hPmem)
      have hPle : P.start.toNat ≤ a.toNat := by simpa using hPd.2
      have hPn : P ∈ neighbours done a := by unfold neighbours; simp [hP]
      have hov := hnone P hPn
      have hPstop : P.stop ≤ a.toNat := by
        simp only [rangesOverlap, Bool.and_eq_true, decide_eq_true_eq, not_and, Nat.not_lt] at hov
        by_cases hc : a.toNat < P.stop
        · have := hov hc; omega
        · omega
      rcases last_filter_rel _ done P hd.1 hP x hx (by simpa using hle) with rfl | hb
      · exact Or.inl hPstop
      · left
        unfold Before at hb
        omega
  · -- the first block starting at or after `a`
    have hge : a.toNat ≤ x.start.toNat := by omega
    cases hQ : done.find? (fun b => decide (a.toNat ≤ b.start.toNat)) with
    | none =>
      have := List.find?_eq_none.mp hQ x hx
      simp at this; omega
    | some Q =>
      have hQmem : Q ∈ done := List.mem_of_find?_eq_some hQ
      have hQge : a.toNat ≤ Q.start.toNat := by simpa using List.find?_some hQ
      have hQn : Q ∈ neighbours done a := by unfold neighbours; simp [hQ]
      have hov := hnone Q hQn
      have hQs := hne Q hQmem
      have hQstart : a.toNat + n ≤ Q.start.toNat := by
        simp only [rangesOverlap, Bool.and_eq_true, decide_eq_true_eq, not_and, Nat.not_lt] at hov
        exact hov (by omega)
      rcases find_first_rel _ done Q hd.1 hQ x hx (by simpa using hge) with rfl | hb
      · exact Or.inr hQstart
      · right
        unfold Before at hb
        omega

theorem insertBlock_disj (b : ObjBlock) (hb : b.words ≠ []) : ∀ (l : List ObjBlock), l.Pairwise Before → (∀ x ∈ l, x.words ≠ []) →
    (∀ x ∈ l, x.stop ≤ b.start.toNat ∨ b.stop ≤ x.start.toNat) → (insertBlock b l).Pairwise Before := by
  intro l
  induction l with
  | nil => intro _ _ _; simp [insertBlock]
  | cons y ys ih =>
    intro hl hne hd
    have hy := List.pairwise_cons.mp hl
    have hbpos : b.start.toNat < b.stop := by have := List.length_pos_iff.mpr hb; unfold ObjBlock.stop; omega
    have hypos : ∀ z ∈ y :: ys, z.start.toNat < z.stop := by
      intro z hz; have := List.length_pos_iff.mpr (hne z hz); unfold ObjBlock.stop; omega
    unfold insertBlock
    by_cases h1 : b.start.toNat < y.start.toNat
    · simp only [h1, if_true]
      refine List.pairwise_cons.mpr ⟨fun z hz => ?_, hl⟩
      have hzs := hypos z hz
      have hzy : y.start.toNat ≤ z.start.toNat := by
        rcases List.mem_cons.mp hz with rfl | hz
        · exact Nat.le_refl _
        · have := hy.1 z hz; unfold Before at this; have := hypos y (by simp); omega
      rcases hd z hz with h | h
      · omega
      · exact h
    · simp only [h1, if_false]
      by_cases h2 : b.start = y.start
      · exfalso
        have := hypos y (by simp)
        rcases hd y (by simp) with h | h <;> (rw [h2] at *; omega)
      · simp only [h2, if_false]
        have h3 : y.start.toNat < b.start.toNat := by
          have : y.start.toNat ≠ b.start.toNat := fun e => h2 (BitVec.eq_of_toNat_eq e.symm)
          omega
        refine List.pairwise_cons.mpr ⟨fun z hz => ?_, ih hy.2 (fun x hx => hne x (by simp [hx])) (fun x hx => hd x (by simp [hx]))⟩
        rcases mem_insertBlock b ys z hz with rfl | hz
        · rcases hd y (by simp) with h | h
          · exact h
          · have := hypos y (by simp); omega
        · exact hy.1 z hz

theorem addBlk_inv2 (t : SymTab) (done : List ObjBlock) (b : Blk) (hd : DoneInv2 done)
    (hov : ∀ ws, bodyWords t b.a b.body = .ok ws → ws.isEmpty = false → (neighbours done b.a).find? (fun x =>
        rangesOverlap b.a.toNat (b.a.toNat + ws.length) x.start.toNat x.stop) = none) :
    DoneInv2 (addBlk t done b) := by
  unfold addBlk
  cases hw : bodyWords t b.a b.body with
  | error e => exact hd
  | ok ws =>
    by_cases he : ws.isEmpty = true
    · simp only [he, if_true]; exact hd
    · have he' : ws.isEmpty = false := by simpa using he
      have hne : ws ≠ [] := fun e => by rw [e] at he; exact he rfl
      simp only [he, Bool.false_eq_true, if_false]
      have hall := all_disjoint_of_neighbours done hd b.a ws.length (List.length_pos_iff.mpr hne) (hov ws hw he')
      refine ⟨insertBlock_disj ⟨b.a, ws, b.origS.span⟩ hne done hd.1 hd.2 (fun x hx => ?_), fun x hx => ?_⟩
      · rcases hall x hx with h | h
        · exact Or.inl h
        · exact Or.inr (by unfold ObjBlock.stop; exact h)
      · rcases mem_insertBlock _ _ x hx with rfl | hx
        · exact hne
        · exact hd.2 x hx

/-- the second pass keeps the finished blocks pairwise disjoint -/
theorem pass2_disjoint (t : SymTab) : ∀ (blks : List Blk) (done : List ObjBlock) (tail : List Stmt) (st' : P2),
    (∀ b ∈ blks, b.WF) → (∀ s ∈ tail, isOrigEnd s.nucleus = false) → DoneInv2 done →
    (blks.flatMap Blk.stmts ++ tail).foldlM (pass2Step t) ⟨done, none⟩ = .ok st' → DoneInv2 st'.done := by
  intro blks
  induction blks with
  | nil =>
    intro done tail st' _ ht hd h
    simp only [List.flatMap_nil, List.nil_append] at h
    obtain ⟨this, _⟩ := pass2_gap t done tail st' ht h
    subst this
    exact hd
  | cons b rest ih =>
    intro done tail st' hwf ht hd h
    simp only [List.flatMap_cons, List.append_assoc] at h
    obtain ⟨s1, h1, h2⟩ := foldlM_append_ok2 _ _ _ _ _ h
    obtain ⟨ws, hws, hs1, hov, _⟩ := pass2_block t done b (hwf b (by simp)) s1 h1
    subst hs1
    have a1 := addBlk_inv2 t done b hd (fun ws' hw' he' => by rw [hws] at hw'; cases hw'; exact hov he')
    exact ih (addBlk t done b) tail st' (fun x hx => hwf x (by simp [hx])) ht a1 h2

/-- **no two blocks of an assembled object file overlap**: the block map is in address order and each block ends at or before
    the start of the next -/
theorem assembled_blocks_disjoint (stmts : List Stmt) (src : Option (List Char)) (obj : ObjFile) (h : assemble stmts src = .ok obj) :
    obj.blocks.Pairwise (fun x y => x.1 + x.2.length ≤ y.1) ∧ ∀ x ∈ obj.blocks, x.2 ≠ [] := by
  unfold assemble at h
  cases h1 : pass1 stmts src with
  | error e => rw [h1] at h; cases h
  | ok t =>
    rw [h1] at h
    dsimp only at h
    obtain ⟨blks, tail, e1, e2, e3⟩ := pass1_structure stmts src t h1
    subst e1
    unfold pass2 at h
    cases h2 : (blks.flatMap Blk.stmts ++ tail).foldlM (pass2Step t) ⟨[], none⟩ with
    | error e => rw [h2] at h; cases h
    | ok st =>
      rw [h2] at h
      cases h
      have hd := pass2_disjoint t blks [] tail st (fun b hb => (e2 b hb).1) (fun x hx => (e3 x hx).1)
        ⟨List.Pairwise.nil, fun x hx => by cases hx⟩ h2
      refine ⟨List.Pairwise.map _ (fun x y hxy => hxy) hd.1, fun x hx => ?_⟩
      obtain ⟨y, hy, rfl⟩ := List.mem_map.mp hx
      exact hd.2 y hy

end Lc3V
