/-
  Lemmas/ErrSpans.lean — where the spans of every assembler error come from (C26).

  For ANY statement list: if `assemble` fails, then
    * for a label error (undetermined label address, duplicate label, offset errors, label not found) every span is the span
      of a label token of the program, or — the first span of a duplicate-label error — the recorded position of the first
      definition with the length of its upper-cased name;
    * for every other error every span is the span of a statement of the program.
  The statement is parametric in two predicates `S` (on statement spans) and `L` (on label spans), so that the source-level
  theorem can instantiate them with "inside the text" / "covers the label's text".
-/
import Lc3V.Lemmas.ParserOut
import Lc3V.Lemmas.AssembledWF
set_option linter.unusedSimpArgs false
set_option linter.unusedVariables false
namespace Lc3V

def isLabelErr : AsmErrKind → Bool
  | .undetAddrLabel => true
  | .overlappingLabels => true
  | .offsetNewErr _ => true
  | .offsetExternal => true
  | .couldNotFindLabel => true
  | _ => false

/-- the label operands of a statement's nucleus -/
def StmtKind.labelOps : StmtKind → List Label
  | .instr i => i.labelOps
  | .directive (.fill (.label l)) => [l]
  | .directive (.external l) => [l]
  | _ => []

section
variable (S L : Span → Prop)

def ErrSpec (e : AsmErr) : Prop :=
  match isLabelErr e.kind with
  | true => ∀ sp ∈ e.spans, L sp
  | false => ∀ sp ∈ e.spans, S sp

/-- an error satisfies `ErrSpec`, a result satisfies `Q` -/
def RSpec {α : Type} (Q : α → Prop) (r : ARes α) : Prop :=
  match r with
  | .error e => ErrSpec S L e
  | .ok a => Q a

/-- what is assumed of each statement -/
structure SpanStmtOk (s : Stmt) : Prop where
  span : S s.span
  labs : ∀ l ∈ s.labels, L l.span
  ops : ∀ l ∈ s.nucleus.labelOps, L l.span
  first : ∀ l, DeclLabel s l → L (l.start, l.start + blen (upperS l.name))

def LabelsOk (labels : List (Key × SymData)) : Prop := ∀ e ∈ labels, L (e.2.span e.1)

theorem lookupKey_mem (labels : List (Key × SymData)) (k : Key) (d : SymData) (h : lookupKey labels k = some d) :
    (k, d) ∈ labels := by
  unfold lookupKey at h
  cases hf : labels.find? (fun e => e.1 == k) with
  | none => rw [hf] at h; cases h
  | some e =>
    rw [hf] at h
    simp only [Option.map_some, Option.some.injEq] at h
    have hm := List.mem_of_find?_eq_some hf
    have hk := List.find?_some hf
    have : e.1 = k := by simpa using hk
    obtain ⟨a, b⟩ := e
    simp only at this h
    subst this; subst h
    exact hm

theorem addLabel_spans (labels : List (Key × SymData)) (l : Label) (addr : W) (ext : Bool)
    (hl : L l.span) (hf : L (l.start, l.start + blen (upperS l.name))) (hinv : LabelsOk L labels) :
    RSpec S L (LabelsOk L) (addLabel labels l addr ext) := by
  unfold addLabel
  dsimp only
  cases hk : lookupKey labels (upperS l.name) with
  | some d =>
    dsimp only
    split
    · show ∀ sp ∈ [d.span (upperS l.name), l.span], L sp
      intro sp hsp
      simp only [List.mem_cons, List.mem_nil_iff, or_false] at hsp
      rcases hsp with rfl | rfl
      · exact hinv _ (lookupKey_mem labels _ d hk)
      · exact hl
    · exact hinv
  | none =>
    dsimp only
    intro e he
    rcases List.mem_append.mp he with he | he
    · exact hinv e he
    · simp only [List.mem_singleton] at he
      subst he
      exact hf

theorem addLabels_spans (addr : W) : ∀ (ls : List Label) (labels : List (Key × SymData)),
    (∀ l ∈ ls, L l.span) → (∀ l ∈ ls, L (l.start, l.start + blen (upperS l.name))) → LabelsOk L labels →
    RSpec S L (LabelsOk L) (addLabels labels ls addr) := by
  intro ls
  unfold addLabels
  induction ls with
  | nil => intro labels _ _ hinv; exact hinv
  | cons l rest ih =>
    intro labels hl hf hinv
    rw [List.foldlM_cons]
    have h1 := addLabel_spans S L labels l addr false (hl l (by simp)) (hf l (by simp)) hinv
    cases hx : addLabel labels l addr false with
    | error e => rw [hx] at h1; exact h1
    | ok m =>
      rw [hx] at h1
      exact ih m (fun x hx => hl x (by simp [hx])) (fun x hx => hf x (by simp [hx])) h1

/-- pass-1 state invariant: the open block's `.orig` span is a statement span, recorded label positions are label spans -/
def P1Ok (st : P1) : Prop := (∀ cur, st.cursor = some cur → S cur.blockOrig) ∧ LabelsOk L st.labels

theorem shift_err_kind (c : Cursor) (n : W) (k : AsmErrKind) (h : c.shift n = .error k) : isLabelErr k = false := by
  unfold Cursor.shift at h
  split at h
  · cases h
  · split at h
    · cases h; rfl
    · dsimp only at h
      split at h
      · split at h
        · cases h; rfl
        · cases h
      · split at h <;> (cases h; rfl)

theorem pass1Step_spans (st : P1) (s : Stmt) (hs : SpanStmtOk S L s) (hinv : P1Ok S L st) :
    RSpec S L (P1Ok S L) (pass1Step st s) := by
  unfold pass1Step
  -- labels
  have h1 : RSpec S L (LabelsOk L) (p1Labels st s) := by
    unfold p1Labels
    split
    · exact hinv.2
    · split
      · show ∀ sp ∈ s.labels.map Label.span, L sp
        intro sp hsp
        obtain ⟨l, hl, rfl⟩ := List.mem_map.mp hsp
        exact hs.labs l hl
      · exact addLabels_spans S L _ s.labels st.labels hs.labs (fun l hl => hs.first l (Or.inl hl)) hinv.2
  cases hl : p1Labels st s with
  | error e => rw [hl] at h1; exact h1
  | ok labels =>
    rw [hl] at h1
    dsimp only
    -- special directives
    have h2 : RSpec S L (fun x => (∀ cur, x.1 = some cur → S cur.blockOrig) ∧ LabelsOk L x.2.1) (p1Special st s labels) := by
      have one : ∀ sp ∈ [s.span], S sp := by intro sp hsp; simp only [List.mem_singleton] at hsp; subst hsp; exact hs.span
      unfold p1Special
      cases hn : s.nucleus with
      | instr i => exact ⟨hinv.1, h1⟩
      | directive d =>
        cases d with
        | orig a =>
          dsimp only
          cases hc : st.cursor with
          | some cur =>
            show ∀ sp ∈ [cur.blockOrig, s.span], S sp
            intro sp hsp
            simp only [List.mem_cons, List.mem_nil_iff, or_false] at hsp
            rcases hsp with rfl | rfl
            · exact hinv.1 cur hc
            · exact hs.span
          | none => exact ⟨fun cur hc => (by cases hc; exact hs.span), h1⟩
        | end_ =>
          dsimp only
          cases hc : st.cursor with
          | some cur => exact ⟨fun cur hc => (by cases hc), h1⟩
          | none => exact one
        | external l =>
          dsimp only
          have hops : L l.span := hs.ops l (by rw [hn]; simp [StmtKind.labelOps])
          have ha := addLabel_spans S L labels l 0 true hops (hs.first l (Or.inr hn)) h1
          cases hx : addLabel labels l 0 true with
          | error e => rw [hx] at ha; exact ha
          | ok m => rw [hx] at ha; exact ⟨hinv.1, ha⟩
        | fill v =>
          cases v with
          | off w => exact ⟨hinv.1, h1⟩
          | label l =>
            dsimp only
            cases hc : st.cursor with
            | some cur => exact ⟨fun c h => hinv.1 c (by rw [hc]; exact h), h1⟩
            | none =>
              dsimp only
              split
              · exact one
              · exact ⟨fun c h => hinv.1 c (by rw [hc]; exact h), h1⟩
        | blkw n => exact ⟨hinv.1, h1⟩
        | stringz x => exact ⟨hinv.1, h1⟩
    cases hsp : p1Special st s labels with
    | error e => rw [hsp] at h2; exact h2
    | ok x =>
      obtain ⟨cursor, labels', rel⟩ := x
      rw [hsp] at h2
      dsimp only at h2 ⊢
      unfold p1Advance
      split
      · exact ⟨fun cur hc => (by cases hc), h2.2⟩
      · rename_i cur
        dsimp only
        cases hsh : cur.shift s.nucleus.wordLen with
        | error k =>
          dsimp only
          have hk := shift_err_kind cur _ k hsh
          show ErrSpec S L ⟨k, [s.span]⟩
          unfold ErrSpec
          rw [hk]
          intro sp hsp; simp only [List.mem_singleton] at hsp; subst hsp; exact hs.span
        | ok cur' =>
          dsimp only
          refine ⟨fun c hc => ?_, h2.2⟩
          cases hc
          have hb : cur'.blockOrig = cur.blockOrig := by
            unfold Cursor.shift at hsh
            split at hsh
            · cases hsh; rfl
            · split at hsh
              · cases hsh
              · dsimp only at hsh
                split at hsh
                · split at hsh
                  · cases hsh
                  · cases hsh; rfl
                · split at hsh <;> cases hsh
          rw [hb]; exact h2.1 cur rfl

theorem pass1_fold_spans : ∀ (stmts : List Stmt) (st : P1), (∀ s ∈ stmts, SpanStmtOk S L s) → P1Ok S L st →
    RSpec S L (P1Ok S L) (stmts.foldlM pass1Step st) := by
  intro stmts
  induction stmts with
  | nil => intro st _ hinv; exact hinv
  | cons s rest ih =>
    intro st hs hinv
    rw [List.foldlM_cons]
    have h1 := pass1Step_spans S L st s (hs s (by simp)) hinv
    cases hx : pass1Step st s with
    | error e => rw [hx] at h1; exact h1
    | ok st' => rw [hx] at h1; exact ih st' (fun x hx => hs x (by simp [hx])) h1

theorem pass1_spans (stmts : List Stmt) (src : Option (List Char)) (hs : ∀ s ∈ stmts, SpanStmtOk S L s) (e : AsmErr)
    (h : pass1 stmts src = .error e) : ErrSpec S L e := by
  unfold pass1 at h
  have hf := pass1_fold_spans S L stmts (p1Init src) hs ⟨fun cur hc => (by cases hc), fun e he => (by cases he)⟩
  cases hx : stmts.foldlM pass1Step (p1Init src) with
  | error e' => rw [hx] at h hf; cases h; exact hf
  | ok st =>
    rw [hx] at h hf
    dsimp only at h
    unfold p1Finish at h
    split at h
    · rename_i cur hc
      cases h
      show ∀ sp ∈ [cur.blockOrig], S sp
      intro sp hsp; simp only [List.mem_singleton] at hsp; subst hsp; exact hf.1 cur hc
    · cases h

/-! ### pass 2 -/

def P2Ok (st : P2) : Prop := (∀ b ∈ st.done, S b.origSpan) ∧ (∀ lc b, st.current = some (lc, b) → S b.origSpan)

theorem replacePcOffset_spans (n : Nat) (o : PCOff n) (pc : W) (t : SymTab) (hl : ∀ l ∈ o.labels, L l.span) (e : AsmErr)
    (h : replacePcOffset n o pc t = .error e) : ErrSpec S L e := by
  unfold replacePcOffset at h
  split at h
  · cases h
  · rename_i l
    have hL : L l.span := hl l (by simp [PCOff.labels])
    have one : ∀ sp ∈ [l.span], L sp := by intro sp hsp; simp only [List.mem_singleton] at hsp; subst hsp; exact hL
    split at h
    · cases h; exact one
    · split at h
      · cases h; exact one
      · split at h
        · cases h
        · cases h; exact one
        · cases h; exact one

theorem intoSimInstr_spans (i : AsmInstr) (pc : W) (t : SymTab) (hl : ∀ l ∈ i.labelOps, L l.span) (e : AsmErr)
    (h : intoSimInstr i pc t = .error e) : ErrSpec S L e := by
  have key : ∀ (n : Nat) (o : PCOff n) (f : BitVec n → SimInstr), (∀ l ∈ o.labels, L l.span) →
      (do let v ← replacePcOffset n o pc t; pure (f v) : ARes SimInstr) = .error e → ErrSpec S L e := by
    intro n o f ho hh
    cases hr : replacePcOffset n o pc t with
    | error e' => rw [hr] at hh; cases hh; exact replacePcOffset_spans S L n o pc t ho e hr
    | ok v => rw [hr] at hh; cases hh
  cases i <;> first
    | (simp only [intoSimInstr] at h; cases h; done)
    | exact key _ _ _ hl h

theorem directiveWords_spans (d : Directive) (t : SymTab) (hl : ∀ l ∈ (StmtKind.directive d).labelOps, L l.span) (e : AsmErr)
    (h : directiveWords d t = .error e) : ErrSpec S L e := by
  unfold directiveWords at h
  split at h
  · cases h
  · cases h
  · rename_i l
    split at h
    · cases h
    · cases h
      show ∀ sp ∈ [l.span], L sp
      intro sp hsp; simp only [List.mem_singleton] at hsp; subst hsp
      exact hl l (by simp [StmtKind.labelOps])
  · cases h
  · cases h
  · cases h
  · cases h

theorem neighbours_mem (done : List ObjBlock) (start : W) (b : ObjBlock) (h : b ∈ neighbours done start) : b ∈ done := by
  unfold neighbours at h
  rcases List.mem_append.mp h with h | h
  · cases hg : (done.filter (fun b => b.start.toNat ≤ start.toNat)).getLast? with
    | none => rw [hg] at h; cases h
    | some x =>
      rw [hg] at h
      simp only [Option.toList_some, List.mem_singleton] at h
      subst h
      exact (List.mem_filter.mp (List.mem_of_getLast? hg)).1
  · cases hg : done.find? (fun b => start.toNat ≤ b.start.toNat) with
    | none => rw [hg] at h; cases h
    | some x =>
      rw [hg] at h
      simp only [Option.toList_some, List.mem_singleton] at h
      subst h
      exact List.mem_of_find?_eq_some hg

theorem pass2Step_spans (t : SymTab) (st : P2) (s : Stmt) (hs : SpanStmtOk S L s) (hinv : P2Ok S st) :
    RSpec S L (P2Ok S) (pass2Step t st s) := by
  have one : ∀ sp ∈ [s.span], S sp := by intro sp hsp; simp only [List.mem_singleton] at hsp; subst hsp; exact hs.span
  have hdata : ∀ d : Directive, s.nucleus = .directive d → (∀ l ∈ (StmtKind.directive d).labelOps, L l.span) →
      RSpec S L (P2Ok S) (match st.current with
        | none => .error ⟨.undetAddrStmt, [s.span]⟩
        | some (lc, block) =>
          match directiveWords d t with
          | .error e => .error e
          | .ok ws => .ok { st with current := some (lc + d.wordLen, { block with words := block.words ++ ws }) }) := by
    intro d hn hl
    cases hc : st.current with
    | none => exact one
    | some x =>
      obtain ⟨lc, block⟩ := x
      dsimp only
      cases hd : directiveWords d t with
      | error e => exact directiveWords_spans S L d t hl e hd
      | ok ws => exact ⟨hinv.1, fun lc' b' hc' => (by cases hc'; exact hinv.2 lc block hc)⟩
  unfold pass2Step
  cases hn : s.nucleus with
  | instr i =>
    dsimp only
    cases hc : st.current with
    | none => exact one
    | some x =>
      obtain ⟨lc, block⟩ := x
      dsimp only
      cases hd : intoSimInstr i (lc + 1) t with
      | error e => exact intoSimInstr_spans S L i (lc + 1) t (by have := hs.ops; rw [hn] at this; exact this) e hd
      | ok si => exact ⟨hinv.1, fun lc' b' hc' => (by cases hc'; exact hinv.2 lc block hc)⟩
  | directive d =>
    have hl : ∀ l ∈ (StmtKind.directive d).labelOps, L l.span := by have := hs.ops; rw [hn] at this; exact this
    cases d with
    | orig a => exact ⟨hinv.1, fun lc b hc => (by cases hc; exact hs.span)⟩
    | end_ =>
      dsimp only
      cases hc : st.current with
      | none => exact one
      | some x =>
        obtain ⟨lc, block⟩ := x
        dsimp only
        split
        · exact ⟨hinv.1, fun _ _ hc => (by cases hc)⟩
        · split
          · rename_i ob hf
            have hob : S ob.origSpan := hinv.1 ob (neighbours_mem _ _ ob (List.mem_of_find?_eq_some hf))
            have hbk : S block.origSpan := hinv.2 lc block hc
            show ∀ sp ∈ (if block.origSpan.1 ≤ ob.origSpan.1 then [block.origSpan, ob.origSpan] else [ob.origSpan, block.origSpan]), S sp
            intro sp hsp
            split at hsp <;>
              (simp only [List.mem_cons, List.mem_nil_iff, or_false] at hsp
               rcases hsp with rfl | rfl <;> assumption)
          · refine ⟨fun b hb => ?_, fun _ _ hc => (by cases hc)⟩
            rcases mem_insertBlock block st.done b hb with rfl | hb
            · exact hinv.2 lc _ hc
            · exact hinv.1 b hb
    | external l => exact hinv
    | fill v => exact hdata _ hn hl
    | blkw n => exact hdata _ hn hl
    | stringz x => exact hdata _ hn hl

theorem pass2_fold_spans (t : SymTab) : ∀ (stmts : List Stmt) (st : P2), (∀ s ∈ stmts, SpanStmtOk S L s) → P2Ok S st →
    RSpec S L (P2Ok S) (stmts.foldlM (pass2Step t) st) := by
  intro stmts
  induction stmts with
  | nil => intro st _ hinv; exact hinv
  | cons s rest ih =>
    intro st hs hinv
    rw [List.foldlM_cons]
    have h1 := pass2Step_spans S L t st s (hs s (by simp)) hinv
    cases hx : pass2Step t st s with
    | error e => rw [hx] at h1; exact h1
    | ok st' => rw [hx] at h1; exact ih st' (fun x hx => hs x (by simp [hx])) h1

/-- **every error of `assemble`**: label errors carry label spans (or the recorded first definition), all other errors carry
    statement spans -/
theorem assemble_spans (stmts : List Stmt) (src : Option (List Char)) (hs : ∀ s ∈ stmts, SpanStmtOk S L s) (e : AsmErr)
    (h : assemble stmts src = .error e) : ErrSpec S L e := by
  unfold assemble at h
  cases h1 : pass1 stmts src with
  | error e' => rw [h1] at h; cases h; exact pass1_spans S L stmts src hs e h1
  | ok t =>
    rw [h1] at h
    dsimp only at h
    unfold pass2 at h
    have hf := pass2_fold_spans S L t stmts ⟨[], none⟩ hs ⟨fun b hb => (by cases hb), fun _ _ hc => (by cases hc)⟩
    cases hx : stmts.foldlM (pass2Step t) ⟨[], none⟩ with
    | error e' => rw [hx] at h hf; cases h; exact hf
    | ok st => rw [hx] at h; cases h

end
end Lc3V
