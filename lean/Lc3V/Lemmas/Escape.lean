/- Lemmas/Escape.lean — `unescaper::unescape` inverts `str::escape_default`, for every string. -/
import Lc3V.Model.ObjTxt
import Lc3V.Lemmas.LexNum
set_option linter.unusedSimpArgs false
namespace Lc3V
namespace Txt

/-! ### hexadecimal digits -/

theorem valFrom_acc (radix : Nat) (l : List Char) (a : Nat) : valFrom radix l a = a * radix ^ l.length + valFrom radix l 0 := by
  induction l generalizing a with
  | nil => simp [valFrom]
  | cons c cs ih =>
    simp only [valFrom, List.length_cons, Nat.zero_mul, Nat.zero_add]
    rw [ih (a * radix + digitOf radix c), ih (digitOf radix c), Nat.pow_succ]
    rw [Nat.add_mul, Nat.mul_assoc, Nat.mul_comm radix]
    omega

/-- the lower-cased hex digit of `d < 16` reads back as `d` and is not a closing brace -/
theorem hexDigit_lower : ∀ d : Fin 16,
    toDigit (hexDigitU d.val).toLower 16 = some d.val ∧ (hexDigitU d.val).toLower ≠ '}' := by decide

theorem go_spec : ∀ (fuel v : Nat) (acc : List Char), v < 16 ^ fuel →
    (∀ c ∈ acc.map Char.toLower, (toDigit c 16).isSome = true ∧ c ≠ '}') →
    (∀ c ∈ (hexUpper.go fuel v acc).map Char.toLower, (toDigit c 16).isSome = true ∧ c ≠ '}') ∧
    valFrom 16 ((hexUpper.go fuel v acc).map Char.toLower) 0 = v * 16 ^ acc.length + valFrom 16 (acc.map Char.toLower) 0 ∧
    acc.length ≤ (hexUpper.go fuel v acc).length ∧ (v ≠ 0 → acc.length < (hexUpper.go fuel v acc).length) := by
  intro fuel
  induction fuel with
  | zero =>
    intro v acc hv hacc
    have : v = 0 := by simpa using hv
    subst this
    refine ⟨hacc, by simp [hexUpper.go], Nat.le_refl _, fun h => absurd rfl h⟩
  | succ fuel ih =>
    intro v acc hv hacc
    unfold hexUpper.go
    by_cases h0 : v = 0
    · subst h0; simp only [if_true]; refine ⟨hacc, by simp, Nat.le_refl _, fun h => absurd rfl h⟩
    · rw [if_neg h0]
      have hd := hexDigit_lower ⟨v % 16, Nat.mod_lt _ (by omega)⟩
      simp only at hd
      have hv' : v / 16 < 16 ^ fuel := by rw [Nat.pow_succ] at hv; omega
      have hacc' : ∀ c ∈ (hexDigitU (v % 16) :: acc).map Char.toLower, (toDigit c 16).isSome = true ∧ c ≠ '}' := by
        intro c hc
        simp only [List.map_cons, List.mem_cons] at hc
        rcases hc with rfl | hc
        · exact ⟨by rw [hd.1]; rfl, hd.2⟩
        · exact hacc c hc
      obtain ⟨i1, i2, i3, i4⟩ := ih (v / 16) (hexDigitU (v % 16) :: acc) hv' hacc'
      refine ⟨i1, ?_, ?_, ?_⟩
      · rw [i2]
        simp only [List.length_cons, List.map_cons, valFrom, Nat.zero_mul, Nat.zero_add]
        rw [valFrom_acc 16 _ (digitOf 16 _)]
        have hdig : digitOf 16 (hexDigitU (v % 16)).toLower = v % 16 := by unfold digitOf; rw [hd.1]; rfl
        rw [hdig, List.length_map, Nat.pow_succ]
        have := Nat.div_add_mod v 16
        generalize 16 ^ acc.length = P at *
        have e : v / 16 * (P * 16) + v % 16 * P = (16 * (v / 16) + v % 16) * P := by
          rw [Nat.add_mul]; congr 1; rw [Nat.mul_comm P 16, ← Nat.mul_assoc, Nat.mul_comm (v / 16) 16]
        rw [← Nat.add_assoc, e, this]
      · simp only [List.length_cons] at i3; omega
      · intro _; simp only [List.length_cons] at i3; omega

def hexLower (n : Nat) : Text := (hexUpper 1 n).map Char.toLower

theorem hexLower_spec (n : Nat) (hn : n < 16 ^ 16) :
    (∀ c ∈ hexLower n, (toDigit c 16).isSome = true ∧ c ≠ '}') ∧ valFrom 16 (hexLower n) 0 = n ∧ hexLower n ≠ [] := by
  unfold hexLower hexUpper
  dsimp only
  by_cases h0 : n = 0
  · subst h0; simp only [if_true]; refine ⟨by decide, by decide, by decide⟩
  · rw [if_neg h0]
    obtain ⟨i1, i2, _, i4⟩ := go_spec 16 n [] hn (by intro c hc; cases hc)
    have hlen := i4 h0
    simp only [List.length_nil] at hlen
    have hrep : List.replicate (1 - (hexUpper.go 16 n []).length) '0' = [] := by
      have : 1 - (hexUpper.go 16 n []).length = 0 := by omega
      rw [this]; rfl
    rw [hrep, List.nil_append]
    refine ⟨i1, by simpa [valFrom] using i2, ?_⟩
    intro h; rw [List.map_eq_nil_iff] at h; rw [h] at hlen; simp at hlen

/-! ### one escaped character -/

theorem char_valid_range (c : Char) : c.toNat < 0xD800 ∨ (0xDFFF < c.toNat ∧ c.toNat < 0x110000) := by
  have := c.valid
  unfold UInt32.isValidChar Nat.isValidChar at this
  exact this

theorem unescUnicode_hex (c : Char) (rest : Text) :
    unescUnicode ('{' :: (hexLower c.toNat ++ '}' :: rest)) = some (c, rest) := by
  have hv := char_valid_range c
  have hn : c.toNat < 16 ^ 16 := by rcases hv with h | h <;> omega
  obtain ⟨hd, hval, hne⟩ := hexLower_spec c.toNat hn
  unfold unescUnicode
  have hp : ∀ x ∈ hexLower c.toNat, (decide (x ≠ '}')) = true := by intro x hx; simpa using (hd x hx).2
  have htw : (hexLower c.toNat ++ '}' :: rest).takeWhile (fun x => decide (x ≠ '}')) = hexLower c.toNat := by
    rw [List.takeWhile_append_of_pos hp]; simp
  have hdw : ((hexLower c.toNat ++ '}' :: rest).dropWhile (fun x => decide (x ≠ '}'))).drop 1 = rest := by
    rw [List.dropWhile_append_of_pos hp]; simp
  simp only [htw, hdw]
  -- parse the digits
  obtain ⟨d0, ds, hds⟩ : ∃ d0 ds, hexLower c.toNat = d0 :: ds := by
    cases h : hexLower c.toNat with
    | nil => exact absurd h hne
    | cons a b => exact ⟨a, b, rfl⟩
  have hall : allDigits 16 (hexLower c.toNat) := fun x hx => (hd x hx).1
  have hsign := digit_not_sign 16 (by omega) d0 (hall d0 (by rw [hds]; simp))
  have hparse : radixU 16 0xFFFFFFFF (hexLower c.toNat) = some c.toNat := by
    unfold radixU
    rw [hds, parseInt_nosign _ _ _ _ _ _ hsign.1 hsign.2, ← hds]
    have := parseDigits_pos 16 (by omega) 0 0xFFFFFFFF (by omega) (hexLower c.toNat) hall 0 (by omega)
    rw [show ((0:Nat):Int) = 0 from rfl] at this
    rw [this, hval]
    have : ((c.toNat : Nat) : Int) ≤ 0xFFFFFFFF := by rcases hv with h | h <;> omega
    simp [this]
  rw [hparse]
  simp only [Option.bind_some, charOfNat?, if_pos hv, Option.map_some]
  congr 2
  exact Char.ofNat_toNat c

/-- decoding what `char::escape_default` wrote for one character -/
theorem unescape_char (c : Char) (fuel : Nat) (rest acc : Text) :
    unescape (fuel + 1) (escapeDefaultChar c ++ rest) acc = unescape fuel rest (c :: acc) := by
  have two : ∀ x : Char, escapeDefaultChar c = ['\\', x] → unescOne x rest = some (c, rest) →
      unescape (fuel + 1) (escapeDefaultChar c ++ rest) acc = unescape fuel rest (c :: acc) := by
    intro x hx hu
    rw [hx]
    simp only [List.cons_append, List.nil_append, unescape, ne_eq, not_true_eq_false, if_false, afterBackslash, hu]
  by_cases c1 : c = '\t'
  · subst c1; exact two 't' (by decide) (by simp [unescOne])
  by_cases c2 : c = '\r'
  · subst c2; exact two 'r' (by decide) (by simp [unescOne])
  by_cases c3 : c = '\n'
  · subst c3; exact two 'n' (by decide) (by simp [unescOne])
  by_cases c4 : c = '\''
  · subst c4; exact two '\'' (by decide) (by simp [unescOne])
  by_cases c5 : c = '"'
  · subst c5; exact two '"' (by decide) (by simp [unescOne])
  by_cases c6 : c = '\\'
  · subst c6; exact two '\\' (by decide) (by simp [unescOne])
  by_cases hp : 0x20 ≤ c.toNat ∧ c.toNat ≤ 0x7E
  · have : escapeDefaultChar c = [c] := by unfold escapeDefaultChar; simp only [c1, c2, c3, c4, c5, c6, if_false, hp, and_self, if_true]
    rw [this]
    simp only [List.cons_append, List.nil_append, unescape, ne_eq, c6, not_false_eq_true, if_true]
  · have : escapeDefaultChar c = '\\' :: 'u' :: '{' :: (hexLower c.toNat ++ ['}']) := by
      unfold escapeDefaultChar; simp only [c1, c2, c3, c4, c5, c6, if_false, hp]; rfl
    rw [this]
    simp only [List.cons_append, List.append_assoc, List.nil_append, unescape, ne_eq, not_true_eq_false, if_false, afterBackslash]
    have hu : unescOne 'u' ('{' :: (hexLower c.toNat ++ '}' :: rest)) = some (c, rest) := by
      unfold unescOne
      simp (config := {decide := true}) only [if_false, if_true]
      exact unescUnicode_hex c rest
    rw [hu]

/-- `unescape` inverts `escape_default` on every string (one unit of fuel per character suffices) -/
theorem unescape_escapeDefault (s : Text) : ∀ (fuel : Nat) (acc : Text), s.length ≤ fuel →
    unescape fuel (escapeDefault s) acc = some (acc.reverse ++ s) := by
  induction s with
  | nil => intro fuel acc _; cases fuel <;> simp [escapeDefault, unescape]
  | cons c cs ih =>
    intro fuel acc hf
    obtain ⟨f, rfl⟩ : ∃ f, fuel = f + 1 := ⟨fuel - 1, by simp only [List.length_cons] at hf; omega⟩
    have e : escapeDefault (c :: cs) = escapeDefaultChar c ++ escapeDefault cs := by simp [escapeDefault]
    rw [e, unescape_char, ih f (c :: acc) (by simp only [List.length_cons] at hf; omega)]
    simp

theorem escapeDefault_length (s : Text) : s.length ≤ (escapeDefault s).length := by
  induction s with
  | nil => simp [escapeDefault]
  | cons c cs ih =>
    have e : escapeDefault (c :: cs) = escapeDefaultChar c ++ escapeDefault cs := by simp [escapeDefault]
    have : 1 ≤ (escapeDefaultChar c).length := by
      unfold escapeDefaultChar
      repeat' split
      all_goals simp
    rw [e, List.length_append, List.length_cons]; omega

end Txt
end Lc3V
