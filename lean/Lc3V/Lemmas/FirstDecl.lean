/-
  Lemmas/FirstDecl.lean — the label table of pass 1 records, for every name, the position of its FIRST declaration (C23).

  `declList s` are the labels a statement declares, in the order pass 1 meets them (its own labels, then the operand of
  `.external`); the (name, position) projection of the table is the fold of `stepDecl` — "append unless the name is already
  there" — over all declarations of the program.
-/
import Lc3V.Lemmas.C01Core
import Lc3V.Lemmas.C23Core
set_option linter.unusedSimpArgs false
set_option linter.unusedVariables false
namespace Lc3V

/-- the labels a statement declares, in pass-1 order -/
def declList (s : Stmt) : List Label :=
  s.labels ++ (match s.nucleus with | .directive (.external l) => [l] | _ => [])

def allDecls (stmts : List Stmt) : List Label := stmts.flatMap declList

/-- (name, recorded position) of every table entry -/
def proj (labels : List (Key × SymData)) : List (Key × Nat) := labels.map (fun e => (e.1, e.2.srcStart))

def stepDecl (m : List (Key × Nat)) (l : Label) : List (Key × Nat) :=
  if m.any (fun e => e.1 == upperS l.name) then m else m ++ [(upperS l.name, l.start)]

theorem proj_any (labels : List (Key × SymData)) (k : Key) :
    (proj labels).any (fun e => e.1 == k) = (lookupKey labels k).isSome := by
  unfold proj lookupKey
  induction labels with
  | nil => rfl
  | cons e rest ih =>
    simp only [List.map_cons, List.any_cons, List.find?_cons]
    cases he : (e.1 == k) with
    | true => simp
    | false => simpa using ih

theorem addLabel_proj (labels labels' : List (Key × SymData)) (l : Label) (addr : W) (ext : Bool)
    (h : addLabel labels l addr ext = .ok labels') : proj labels' = stepDecl (proj labels) l := by
  unfold addLabel at h
  dsimp only at h
  unfold stepDecl
  rw [proj_any]
  cases hk : lookupKey labels (upperS l.name) with
  | some d =>
    rw [hk] at h
    dsimp only at h
    split at h
    · cases h
    · cases h; simp
  | none =>
    rw [hk] at h
    cases h
    simp [proj]

theorem addLabels_proj (addr : W) : ∀ (ls : List Label) (labels labels' : List (Key × SymData)),
    addLabels labels ls addr = .ok labels' → proj labels' = ls.foldl stepDecl (proj labels) := by
  intro ls
  unfold addLabels
  induction ls with
  | nil => intro labels labels' h; simp only [List.foldlM_nil] at h; cases h; rfl
  | cons l rest ih =>
    intro labels labels' h
    rw [List.foldlM_cons] at h
    cases hx : addLabel labels l addr false with
    | error e => rw [hx] at h; cases h
    | ok m =>
      rw [hx] at h
      rw [List.foldl_cons, ← addLabel_proj labels m l addr false hx]
      exact ih m labels' h

theorem pass1Step_proj (st st' : P1) (s : Stmt) (h : pass1Step st s = .ok st') :
    proj st'.labels = (declList s).foldl stepDecl (proj st.labels) := by
  unfold pass1Step at h
  cases h1 : p1Labels st s with
  | error e => rw [h1] at h; cases h
  | ok labels =>
    rw [h1] at h
    dsimp only at h
    cases h2 : p1Special st s labels with
    | error e => rw [h2] at h; cases h
    | ok r =>
      obtain ⟨cursor, labels', rel⟩ := r
      rw [h2] at h
      dsimp only at h
      have hfin : st'.labels = labels' := by
        unfold p1Advance at h
        cases cursor with
        | none => dsimp only at h; injection h with h; rw [← h]
        | some cur =>
          dsimp only at h
          cases hs : cur.shift s.nucleus.wordLen with
          | error k => rw [hs] at h; cases h
          | ok c' => rw [hs] at h; dsimp only at h; injection h with h; rw [← h]
      rw [hfin]
      have hA : proj labels = s.labels.foldl stepDecl (proj st.labels) := by
        unfold p1Labels at h1
        by_cases he : s.labels.isEmpty = true
        · simp only [he, if_true] at h1; cases h1
          have : s.labels = [] := by simpa using he
          rw [this]; rfl
        · simp only [he, Bool.false_eq_true, if_false] at h1
          cases hc : st.cursor with
          | none => rw [hc] at h1; cases h1
          | some cur => rw [hc] at h1; exact addLabels_proj cur.lc s.labels st.labels labels h1
      unfold declList
      rw [List.foldl_append, ← hA]
      unfold p1Special at h2
      cases hn : s.nucleus with
      | instr i => rw [hn] at h2; cases h2; rfl
      | directive d =>
        rw [hn] at h2
        cases d with
        | orig a =>
          dsimp only at h2
          cases hc : st.cursor with
          | some c0 => rw [hc] at h2; cases h2
          | none => rw [hc] at h2; cases h2; rfl
        | end_ =>
          dsimp only at h2
          cases hc : st.cursor with
          | some c0 => rw [hc] at h2; cases h2; rfl
          | none => rw [hc] at h2; cases h2
        | external l =>
          dsimp only at h2
          cases ha : addLabel labels l 0 true with
          | error x => rw [ha] at h2; cases h2
          | ok m2 =>
            rw [ha] at h2; cases h2
            simp only [List.foldl_cons, List.foldl_nil]
            exact addLabel_proj labels labels' l 0 true ha
        | fill v =>
          cases v with
          | off w => cases h2; rfl
          | label l =>
            dsimp only at h2
            cases hc : st.cursor with
            | some cur => rw [hc] at h2; cases h2; rfl
            | none =>
              rw [hc] at h2
              dsimp only at h2
              split at h2
              · cases h2
              · cases h2; rfl
        | blkw n => cases h2; rfl
        | stringz x => cases h2; rfl

theorem pass1_fold_proj : ∀ (stmts : List Stmt) (st st' : P1), stmts.foldlM pass1Step st = .ok st' →
    proj st'.labels = (allDecls stmts).foldl stepDecl (proj st.labels) := by
  intro stmts
  induction stmts with
  | nil => intro st st' h; simp only [List.foldlM_nil] at h; cases h; rfl
  | cons s rest ih =>
    intro st st' h
    rw [List.foldlM_cons] at h
    cases hx : pass1Step st s with
    | error e => rw [hx] at h; cases h
    | ok st1 =>
      rw [hx] at h
      unfold allDecls
      rw [List.flatMap_cons, List.foldl_append, ← pass1Step_proj st st1 s hx]
      exact ih st1 st' h

/-- once a name is in the list, the fold never adds another entry for it -/
theorem stepDecl_keeps (k : Key) : ∀ (ls : List Label) (m : List (Key × Nat)), m.any (fun e => e.1 == k) = true →
    ∀ e ∈ ls.foldl stepDecl m, e.1 = k → e ∈ m := by
  intro ls
  induction ls with
  | nil => intro m _ e he _; exact he
  | cons y ys ihy =>
    intro m hm e he hek
    rw [List.foldl_cons] at he
    have hm' : (stepDecl m y).any (fun e => e.1 == k) = true := by
      unfold stepDecl; split
      · exact hm
      · rw [List.any_append, hm]; rfl
    have := ihy (stepDecl m y) hm' e he hek
    unfold stepDecl at this
    split at this
    · exact this
    · rcases List.mem_append.mp this with h3 | h3
      · exact h3
      · simp only [List.mem_singleton] at h3
        rename_i hnot
        rw [h3] at hek
        simp only at hek
        rw [hek] at hnot
        exact absurd hm hnot

/-- an entry of the fold is an entry of the start, or the first declaration of its name (which the start does not hold) -/
theorem stepDecl_fold_first : ∀ (ls : List Label) (m : List (Key × Nat)) (k : Key) (n : Nat), (k, n) ∈ ls.foldl stepDecl m →
    (k, n) ∈ m ∨ ∃ p l q, ls = p ++ l :: q ∧ upperS l.name = k ∧ l.start = n ∧ ∀ l' ∈ p, upperS l'.name ≠ k := by
  intro ls
  induction ls with
  | nil => intro m k n h; exact Or.inl h
  | cons x rest ih =>
    intro m k n h
    rw [List.foldl_cons] at h
    rcases ih (stepDecl m x) k n h with h1 | ⟨p, l, q, hq, hk, hn, hp⟩
    · unfold stepDecl at h1
      split at h1
      · exact Or.inl h1
      · rcases List.mem_append.mp h1 with h2 | h2
        · exact Or.inl h2
        · simp only [List.mem_singleton, Prod.mk.injEq] at h2
          exact Or.inr ⟨[], x, rest, rfl, h2.1.symm, h2.2.symm, fun l' hl' => by cases hl'⟩
    · by_cases hx : upperS x.name = k
      · by_cases hm : m.any (fun e => e.1 == k) = true
        · -- `k` already in `m`: the fold never adds another entry for it
          exact Or.inl (stepDecl_keeps k (x :: rest) m hm (k, n) (by rw [List.foldl_cons]; exact h) rfl)
        · -- `x` is the first declaration of `k`; the entry must be `x`'s
          have hm2 : (stepDecl m x).any (fun e => e.1 == k) = true := by
            unfold stepDecl; rw [hx]; split
            · rename_i h'; exact absurd h' hm
            · simp
          have hin := stepDecl_keeps k rest (stepDecl m x) hm2 (k, n) h rfl
          unfold stepDecl at hin
          rw [hx] at hin
          rw [if_neg hm] at hin
          rcases List.mem_append.mp hin with h3 | h3
          · exact Or.inl h3
          · simp only [List.mem_singleton, Prod.mk.injEq] at h3
            exact Or.inr ⟨[], x, rest, rfl, hx, h3.2.symm, fun l' hl' => by cases hl'⟩
      · exact Or.inr ⟨x :: p, l, q, by rw [hq]; rfl, hk, hn, fun l' hl' => by
          rcases List.mem_cons.mp hl' with rfl | hl'
          · exact hx
          · exact hp l' hl'⟩

/-- **the table records first declarations**: after pass 1, an entry `(K, d)` of the label table comes from the first label of
    the program (in declaration order) whose upper-cased name is `K`, and records that label's position -/
theorem table_records_first_declaration (stmts : List Stmt) (src : Option (List Char)) (t : SymTab) (h : pass1 stmts src = .ok t)
    (k : Key) (d : SymData) (hm : (k, d) ∈ t.labels) :
    ∃ p l q, allDecls stmts = p ++ l :: q ∧ upperS l.name = k ∧ l.start = d.srcStart ∧ ∀ l' ∈ p, upperS l'.name ≠ k := by
  unfold pass1 at h
  cases hf : stmts.foldlM pass1Step (p1Init src) with
  | error e => rw [hf] at h; cases h
  | ok st =>
    rw [hf] at h
    dsimp only at h
    have hlab : t.labels = st.labels := by
      unfold p1Finish at h
      split at h
      · cases h
      · injection h with h; rw [← h]
    have hp := pass1_fold_proj stmts (p1Init src) st hf
    have hin : (k, d.srcStart) ∈ proj st.labels := by
      rw [← hlab]; exact List.mem_map.mpr ⟨(k, d), hm, rfl⟩
    rw [hp] at hin
    rcases stepDecl_fold_first _ _ k d.srcStart hin with h1 | h1
    · simp [proj, p1Init] at h1
    · exact h1

end Lc3V
