/- Lemmas/FrameInv.lean — `frames.size = frameNo` (with debug frames on) is an invariant of every step and run. -/
import Lc3V.Lemmas.SimM
set_option linter.unusedSimpArgs false
set_option linter.unusedVariables false
namespace Lc3V
open Sim SimM

/-- with debug frames on, the frame list has exactly `frameNo` entries -/
def FInv (s : Sim) : Prop := ∀ f, s.frames = some f → f.size = s.frameNo

theorem FInv.congr {s s' : Sim} (h : FInv s) (h1 : s'.frames = s.frames) (h2 : s'.frameNo = s.frameNo) : FInv s' := by
  intro f hf; rw [h2]; exact h f (by rw [← h1]; exact hf)

theorem FInv.push {s : Sim} (h : FInv s) (a b : W) (t : FrameType) : FInv (s.pushFrame a b t) := by
  unfold pushFrame FInv at *
  intro f hf
  simp only at hf ⊢
  cases hfr : s.frames with
  | none => simp [hfr] at hf
  | some fr =>
    simp only [hfr, Option.map_some, Option.some.injEq] at hf
    rw [← hf, Array.size_push, h fr hfr]

theorem FInv.pop {s : Sim} (h : FInv s) : FInv s.popFrame := by
  unfold popFrame FInv at *
  intro f hf
  simp only at hf ⊢
  cases hfr : s.frames with
  | none => simp [hfr] at hf
  | some fr =>
    simp only [hfr, Option.map_some, Option.some.injEq] at hf
    rw [← hf, Array.size_pop, h fr hfr]

def FPres {α} (m : SimM α) : Prop := ∀ s, FInv s → FInv (m s).2

theorem FPres.bind {α β} {m : SimM α} {f : α → SimM β} (h : FPres m) (hf : ∀ a, FPres (f a)) : FPres (m >>= f) := by
  intro s hs
  have h1 := h s hs
  simp only [SimM.bind_apply]
  rcases hm : m s with ⟨r, s'⟩
  rw [hm] at h1
  cases r with
  | ok a => exact hf a s' h1
  | error e => exact h1

theorem FPres.pure {α} (a : α) : FPres (Pure.pure a : SimM α) := fun _ h => h
theorem FPres.throwB {α} (b : StepBreak) : FPres (SimM.throwB b : SimM α) := fun _ h => h
theorem FPres.throwErr {α} (e : SimErr) : FPres (SimM.throwErr e : SimM α) := fun _ h => h
theorem FPres.liftE {α} (x : Except SimErr α) : FPres (SimM.liftE x) := by intro s h; cases x <;> exact h
theorem FPres.getS {β} {f : Sim → SimM β} (h : ∀ s, FPres (f s)) : FPres (SimM.getS >>= f) := by
  intro s hs; simp only [SimM.bind_apply, SimM.getS_apply]; exact h s s hs
theorem FPres.modify (f : Sim → Sim) (h : ∀ s, FInv s → FInv (f s)) : FPres (modifyS f) := fun s hs => h s hs
theorem FPres.ite {α} (c : Prop) [Decidable c] {a b : SimM α} (ha : FPres a) (hb : FPres b) : FPres (if c then a else b) := by
  by_cases h : c <;> simp only [h, if_true, if_false] <;> assumption

macro "fp_same" : tactic => `(tactic| (refine FPres.modify _ ?_; intro s hs; exact hs.congr rfl rfl))

theorem Sim.readMem_frames (a : W) (c : Ctx) (s : Sim) : (readMem a c s).2.frames = s.frames ∧ (readMem a c s).2.frameNo = s.frameNo := by
  obtain ⟨mem, regs, pc, psr, savedSp, frameNo, frames, srDefs, alloca, instrRun, prefetch, pause, observer, mcr, flags, bps, iregs, dev, log⟩ := s
  rcases hr : dev.ioRead a c.ioEffects with ⟨r, dev'⟩
  simp only [readMem, iregLookup, iregRead, hr]
  generalize Option.map (fun x => x.snd) (List.find? (fun p => p.fst == a) iregs) = look
  cases r <;> cases look <;> by_cases h1 : (!c.privileged && !inUser a) = true <;> by_cases h2 : IO_START ≤ a.toNat <;>
    by_cases h3 : c.track = true <;> simp only [h1, h2, h3, if_true, if_false, Bool.false_eq_true] <;>
    first | exact ⟨rfl, rfl⟩ | exact ⟨trivial, trivial⟩ | trivial

theorem Sim.writeMem_frames (a : W) (d : Word) (c : Ctx) (s : Sim) :
    (Sim.writeMem a d c s).2.frames = s.frames ∧ (Sim.writeMem a d c s).2.frameNo = s.frameNo := by
  obtain ⟨mem, regs, pc, psr, savedSp, frameNo, frames, srDefs, alloca, instrRun, prefetch, pause, observer, mcr, flags, bps, iregs, dev, log⟩ := s
  simp only [Sim.writeMem, ioWritePart, storePart, iregLookup, iregWrite, Word.getIfInit, Word.setIfInit]
  generalize Option.map (fun x => x.snd) (List.find? (fun p => p.fst == a) iregs) = look
  rcases look with _ | ir
  · cases hst : c.strict <;> cases hi : d.isInit <;> by_cases h1 : (!c.privileged && !inUser a) = true <;>
      by_cases h2 : IO_START ≤ a.toNat <;> by_cases h3 : c.track = true <;>
      simp only [h1, h2, h3, hst, hi, if_true, if_false, Bool.false_eq_true, Bool.not_true, Bool.not_false, Bool.or_true, Bool.true_or,
        Bool.or_false, Bool.false_or] <;>
      first
        | exact ⟨rfl, rfl⟩
        | exact ⟨trivial, trivial⟩
        | (generalize dev.ioWrite a d.data = rw
           obtain ⟨r, dev'⟩ := rw
           cases r <;> first | exact ⟨rfl, rfl⟩ | exact ⟨trivial, trivial⟩)
  · cases ir <;> cases hst : c.strict <;> cases hi : d.isInit <;> by_cases h1 : (!c.privileged && !inUser a) = true <;>
      by_cases h2 : IO_START ≤ a.toNat <;> by_cases h3 : c.track = true <;>
      simp only [h1, h2, h3, hst, hi, if_true, if_false, Bool.false_eq_true, Bool.not_true, Bool.not_false, Bool.or_true, Bool.true_or,
        Bool.or_false, Bool.false_or] <;>
      first
        | exact ⟨rfl, rfl⟩
        | exact ⟨trivial, trivial⟩

theorem FPres.readMem (a : W) (c : Ctx) : FPres (Sim.readMem a c) := fun s hs =>
  hs.congr (Sim.readMem_frames a c s).1 (Sim.readMem_frames a c s).2

theorem FPres.writeMem (a : W) (d : Word) (c : Ctx) : FPres (Sim.writeMem a d c) := fun s hs =>
  hs.congr (Sim.writeMem_frames a d c s).1 (Sim.writeMem_frames a d c s).2

theorem FPres.setPc (w : Word) (chk : Bool) : FPres (Sim.setPc w chk) := by
  intro s hs
  unfold Sim.setPc
  simp only [SimM.bind_apply, SimM.getS_apply]
  cases hg : w.getIfInit s.flags.strict SimErr.strictJmpAddrUninit with
  | error e => simpa using hs
  | ok addr =>
    simp only [SimM.liftE_ok]
    by_cases h1 : (s.flags.strict && chk) = true
    · by_cases h2 : (!(s.memAt addr).isInit) = true
      · simpa [h1, h2] using hs
      · simp only [h1, h2, if_true, if_false, Bool.false_eq_true, SimM.bind_apply, SimM.pure_apply, SimM.modifyS_apply]
        exact hs.congr rfl rfl
    · simp only [h1, if_false, Bool.false_eq_true, SimM.bind_apply, SimM.pure_apply, SimM.modifyS_apply]
      exact hs.congr rfl rfl

theorem FPres.offsetPc (off : W) (chk : Bool) : FPres (Sim.offsetPc off chk) := by
  unfold Sim.offsetPc
  apply FPres.getS; intro s
  exact FPres.setPc _ _

theorem FPres.setRegIfInit (r : Reg) (v : Word) (b : Bool) : FPres (Sim.setRegIfInit r v b) := by
  unfold Sim.setRegIfInit
  apply FPres.getS; intro s
  refine FPres.bind (FPres.liftE _) (fun w => ?_)
  fp_same

theorem FPres.callSubroutine (addr : W) : FPres (Sim.callSubroutine addr) := by
  unfold Sim.callSubroutine
  refine FPres.bind ?_ (fun _ => FPres.bind ?_ (fun _ => FPres.setPc _ _))
  · fp_same
  · exact FPres.modify _ (fun s hs => hs.push _ _ _)

theorem FPres.callInterrupt (vect : W) (ft : FrameType) : FPres (Sim.callInterrupt vect ft) := by
  unfold Sim.callInterrupt
  apply FPres.getS; intro s
  refine FPres.bind (FPres.readMem _ _) (fun w => FPres.bind (FPres.liftE _) (fun addr => FPres.bind ?_ (fun _ => FPres.setPc _ _)))
  exact FPres.modify _ (fun s hs => hs.push _ _ _)

theorem FPres.virtualBreak (brk : StepBreak) : FPres (Sim.virtualBreak brk) := by
  unfold Sim.virtualBreak
  apply FPres.getS; intro s
  refine FPres.ite _ (FPres.bind (FPres.offsetPc _ _) (fun _ => FPres.bind ?_ (fun _ => FPres.throwB brk))) (FPres.throwB brk)
  fp_same

theorem FPres.enterCore (vect : W) (priority : Option Nat) (oldPsr oldPc : W) : FPres (Sim.enterCore vect priority oldPsr oldPc) := by
  unfold Sim.enterCore
  refine FPres.bind ?_ (fun _ => ?_)
  · fp_same
  apply FPres.getS; intro s
  refine FPres.bind (FPres.liftE _) (fun sp => FPres.bind ?_ (fun _ => FPres.bind (FPres.writeMem _ _ _) (fun _ =>
    FPres.bind (FPres.writeMem _ _ _) (fun _ => FPres.bind ?_ (fun _ => ?_)))))
  · fp_same
  · fp_same
  · cases priority with
    | none => exact FPres.callInterrupt _ _
    | some p =>
      refine FPres.bind ?_ (fun _ => FPres.callInterrupt _ _)
      fp_same

theorem FPres.enterSupervisor (vect : W) (priority : Option Nat) : FPres (Sim.enterSupervisor vect priority) := by
  intro s hs
  unfold Sim.enterSupervisor
  refine FPres.enterCore vect priority s.psr s.pc _ ?_
  by_cases hp : (!PSR.privileged s.psr) = true <;> simp only [hp, if_true, if_false, Bool.false_eq_true]
  · exact hs.congr rfl rfl
  · exact hs

theorem FPres.handleInterrupt (vect : W) (priority : Option Nat) : FPres (Sim.handleInterrupt vect priority) := by
  intro s hs
  unfold Sim.handleInterrupt
  by_cases h1 : s.gated priority = true
  · simp only [h1, if_true]; exact hs
  · simp only [h1, if_false, Bool.false_eq_true]
    by_cases h2 : (!s.flags.realTraps) = true
    · simp only [h2, if_true]
      cases realIntVect vect with
      | none => exact FPres.enterSupervisor vect priority s hs
      | some brk => exact FPres.virtualBreak brk s hs
    · simp only [h2, if_false, Bool.false_eq_true]
      exact FPres.enterSupervisor vect priority s hs

theorem FPres.execInstr (i : SimInstr) : FPres (Sim.execInstr i) := by
  cases i with
  | br cc off =>
    simp only [Sim.execInstr]
    apply FPres.getS; intro s
    exact FPres.ite _ (FPres.offsetPc _ _) (FPres.pure _)
  | add dr sr1 sr2 =>
    simp only [Sim.execInstr]
    apply FPres.getS; intro s
    refine FPres.bind (FPres.setRegIfInit _ _ _) (fun _ => ?_)
    fp_same
  | and dr sr1 sr2 =>
    simp only [Sim.execInstr]
    apply FPres.getS; intro s
    refine FPres.bind (FPres.setRegIfInit _ _ _) (fun _ => ?_)
    fp_same
  | not dr sr =>
    simp only [Sim.execInstr]
    apply FPres.getS; intro s
    refine FPres.bind (FPres.setRegIfInit _ _ _) (fun _ => ?_)
    fp_same
  | ld dr off =>
    simp only [Sim.execInstr]
    apply FPres.getS; intro s
    refine FPres.bind (FPres.readMem _ _) (fun v => FPres.bind (FPres.setRegIfInit _ _ _) (fun _ => ?_))
    fp_same
  | ldr dr b off =>
    simp only [Sim.execInstr]
    apply FPres.getS; intro s
    refine FPres.bind (FPres.liftE _) (fun base => FPres.bind (FPres.readMem _ _) (fun v => FPres.bind (FPres.setRegIfInit _ _ _) (fun _ => ?_)))
    fp_same
  | ldi dr off =>
    simp only [Sim.execInstr]
    apply FPres.getS; intro s
    refine FPres.bind (FPres.readMem _ _) (fun pw => FPres.bind (FPres.liftE _) (fun ea => ?_))
    apply FPres.getS; intro s2
    refine FPres.bind (FPres.readMem _ _) (fun v => FPres.bind (FPres.setRegIfInit _ _ _) (fun _ => ?_))
    fp_same
  | st sr off =>
    simp only [Sim.execInstr]
    apply FPres.getS; intro s
    exact FPres.writeMem _ _ _
  | str sr b off =>
    simp only [Sim.execInstr]
    apply FPres.getS; intro s
    exact FPres.bind (FPres.liftE _) (fun base => FPres.writeMem _ _ _)
  | sti sr off =>
    simp only [Sim.execInstr]
    apply FPres.getS; intro s
    refine FPres.bind (FPres.readMem _ _) (fun pw => FPres.bind (FPres.liftE _) (fun ea => ?_))
    apply FPres.getS; intro s2
    exact FPres.writeMem _ _ _
  | jsr op =>
    simp only [Sim.execInstr]
    apply FPres.getS; intro s
    exact FPres.bind (FPres.liftE _) (fun addr => FPres.callSubroutine addr)
  | jmp b =>
    simp only [Sim.execInstr]
    apply FPres.getS; intro s
    refine FPres.bind (FPres.setPc _ _) (fun _ => FPres.ite _ ?_ (FPres.pure _))
    exact FPres.modify _ (fun s hs => hs.pop)
  | lea dr off =>
    simp only [Sim.execInstr]
    apply FPres.getS; intro s
    fp_same
  | trap v =>
    simp only [Sim.execInstr]
    apply FPres.getS; intro s
    exact FPres.handleInterrupt _ _
  | rti =>
    simp only [Sim.execInstr]
    apply FPres.getS; intro s
    refine FPres.ite _ ?_ (FPres.throwErr _)
    refine FPres.bind (FPres.liftE _) (fun sp => ?_)
    refine FPres.bind (FPres.readMem _ _) (fun pcw => ?_)
    refine FPres.bind (FPres.liftE _) (fun pc => ?_)
    refine FPres.bind (FPres.readMem _ _) (fun psrw => ?_)
    refine FPres.bind (FPres.liftE _) (fun psr => ?_)
    refine FPres.bind ?_ (fun _ => ?_)
    · fp_same
    refine FPres.bind (FPres.setPc _ _) (fun _ => ?_)
    refine FPres.bind ?_ (fun _ => ?_)
    · fp_same
    apply FPres.getS; intro s3
    refine FPres.ite _ (FPres.bind ?_ (fun _ => ?_)) ?_
    · fp_same
    · exact FPres.modify _ (fun s hs => hs.pop)
    · exact FPres.modify _ (fun s hs => hs.pop)

theorem FPres.fetchExec : FPres Sim.fetchExec := by
  unfold Sim.fetchExec
  apply FPres.getS; intro s
  refine FPres.bind (FPres.readMem _ _) (fun w => FPres.bind (FPres.liftE _) (fun word => FPres.bind (FPres.liftE _) (fun instr => ?_)))
  refine FPres.bind (FPres.offsetPc _ _) (fun _ => FPres.bind ?_ (fun _ => FPres.bind (FPres.execInstr instr) (fun _ => ?_)))
  · fp_same
  · fp_same

theorem FPres.stepInner : FPres Sim.stepInner := by
  intro s hs
  unfold Sim.stepInner
  have h2 : FInv (afterPoll s) := hs.congr rfl rfl
  simp only
  cases (s.dev.pollInterrupt).1 with
  | none => exact FPres.fetchExec _ h2
  | some i =>
    cases i with
    | external tag => exact h2
    | vectored vect prio =>
      simp only
      by_cases hp : prio > PSR.priority (afterPoll s).psr
      · simp only [hp, if_true]; exact FPres.handleInterrupt _ _ _ h2
      · simp only [hp, if_false]; exact FPres.fetchExec _ h2

/-- **the frame list always has exactly `depth` entries**: preserved by every step, in every mode -/
theorem step_frames_inv (s : Sim) (hs : FInv s) : FInv (Sim.step s).2 := by
  have h1 := FPres.stepInner s hs
  unfold Sim.step
  rcases hst : Sim.stepInner s with ⟨r, s'⟩
  rw [hst] at h1
  simp only at h1 ⊢
  by_cases hrt : (!s'.flags.realTraps) = true
  · simp only [hrt, if_true]; exact h1
  · simp only [hrt, if_false, Bool.false_eq_true]
    cases r with
    | ok u => exact h1
    | error b =>
      cases b with
      | halt => exact FPres.handleInterrupt _ _ s' h1
      | err e => cases e <;> first | exact FPres.handleInterrupt _ _ s' h1 | exact h1

/-- … and by every run -/
theorem runLoop_frames_inv (tw : Tripwire) : ∀ (fuel iter : Nat) (s : Sim), FInv s →
    match runLoop tw fuel iter s with
    | none => True
    | some (_, s') => FInv s' := by
  intro fuel
  induction fuel with
  | zero => intro iter s hs; simp [runLoop]
  | succ f ih =>
    intro iter s hs
    unfold runLoop
    by_cases hmcr : (!s.mcr) = true
    · simp only [hmcr, if_true]; exact hs
    · simp only [hmcr, if_false, Bool.false_eq_true]
      have ht : FInv (tripwireEval tw iter s).2 := by
        cases tw with
        | always => exact hs
        | limit a b => exact hs
        | over c => exact hs
        | out c => exact hs
        | mcrAt k a b =>
          unfold tripwireEval
          by_cases hk : iter = k <;> simp only [hk, if_true, if_false]
          · exact hs.congr rfl rfl
          · exact hs
      rcases hte : tripwireEval tw iter s with ⟨go, s1⟩
      rw [hte] at ht
      simp only at ht ⊢
      by_cases hgo : (!go) = true
      · simp only [hgo, if_true]; exact ht
      · simp only [hgo, if_false, Bool.false_eq_true]
        have h1 := step_frames_inv s1 ht
        rcases hst : Sim.step s1 with ⟨r, s2⟩
        rw [hst] at h1
        simp only at h1 ⊢
        cases r with
        | error b => cases b <;> exact h1
        | ok u =>
          simp only
          by_cases hbp : s2.breakpoints.any (bpCheck s2) = true
          · simp only [hbp, if_true]; exact h1
          · simp only [hbp, if_false, Bool.false_eq_true]
            exact ih (iter + 1) s2 h1

end Lc3V
