/- Lemmas/Image.lean — the second pass on a whole program: the object file holds exactly the blocks the source describes. -/
import Lc3V.Lemmas.C01Core
set_option linter.unusedSimpArgs false
set_option linter.unusedVariables false
namespace Lc3V

/-- the words one statement contributes when the location counter is `lc` -/
def stmtWords (t : SymTab) (lc : W) (s : Stmt) : ARes (List (Option W)) :=
  match s.nucleus with
  | .instr i =>
    (match intoSimInstr i (lc + 1) t with
     | .error e => .error e
     | .ok si => .ok [some si.encode])
  | .directive d => directiveWords d t

/-- the words of a block body: each statement's words, the location counter advancing by the statement's size -/
def bodyWords (t : SymTab) : W → List Stmt → ARes (List (Option W))
  | _, [] => .ok []
  | lc, s :: rest =>
    match stmtWords t lc s with
    | .error e => .error e
    | .ok ws =>
      match bodyWords t (lc + s.nucleus.wordLen) rest with
      | .error e => .error e
      | .ok rs => .ok (ws ++ rs)

def isOrigEnd : StmtKind → Bool
  | .directive (.orig _) => true
  | .directive .end_ => true
  | _ => false

def isExternal : StmtKind → Bool
  | .directive (.external _) => true
  | _ => false

/-- a statement of a block body advances the second pass by its words -/
theorem pass2Step_body (t : SymTab) (done : List ObjBlock) (lc : W) (b : ObjBlock) (s : Stmt) (st' : P2)
    (hk : isOrigEnd s.nucleus = false) (h : pass2Step t ⟨done, some (lc, b)⟩ s = .ok st') :
    ∃ ws, stmtWords t lc s = .ok ws ∧ st' = ⟨done, some (lc + s.nucleus.wordLen, { b with words := b.words ++ ws })⟩ := by
  unfold pass2Step at h
  unfold stmtWords
  cases hn : s.nucleus with
  | instr i =>
    rw [hn] at h
    dsimp only at h ⊢
    cases hi : intoSimInstr i (lc + 1) t with
    | error e => rw [hi] at h; cases h
    | ok si => rw [hi] at h; cases h; exact ⟨_, rfl, rfl⟩
  | directive d =>
    rw [hn] at h hk
    cases d with
    | orig a => cases hk
    | end_ => cases hk
    | external l => cases h; exact ⟨[], rfl, by simp [StmtKind.wordLen, Directive.wordLen]⟩
    | fill v =>
      dsimp only at h ⊢
      cases hw : directiveWords (.fill v) t with
      | error e => rw [hw] at h; cases h
      | ok ws => rw [hw] at h; cases h; exact ⟨ws, rfl, rfl⟩
    | blkw n =>
      dsimp only at h ⊢
      cases hw : directiveWords (.blkw n) t with
      | error e => rw [hw] at h; cases h
      | ok ws => rw [hw] at h; cases h; exact ⟨ws, rfl, rfl⟩
    | stringz x =>
      dsimp only at h ⊢
      cases hw : directiveWords (.stringz x) t with
      | error e => rw [hw] at h; cases h
      | ok ws => rw [hw] at h; cases h; exact ⟨ws, rfl, rfl⟩

/-- a whole block body -/
theorem pass2_body (t : SymTab) (done : List ObjBlock) : ∀ (body : List Stmt) (lc : W) (b : ObjBlock) (st' : P2),
    (∀ s ∈ body, isOrigEnd s.nucleus = false) → body.foldlM (pass2Step t) ⟨done, some (lc, b)⟩ = .ok st' →
    ∃ ws lc', bodyWords t lc body = .ok ws ∧ st' = ⟨done, some (lc', { b with words := b.words ++ ws })⟩ := by
  intro body
  induction body with
  | nil =>
    intro lc b st' _ h
    simp only [List.foldlM_nil] at h
    cases h
    exact ⟨[], lc, rfl, by simp⟩
  | cons s rest ih =>
    intro lc b st' hk h
    rw [List.foldlM_cons] at h
    cases hs : pass2Step t ⟨done, some (lc, b)⟩ s with
    | error e => rw [hs] at h; cases h
    | ok st1 =>
      rw [hs] at h
      obtain ⟨ws, hws, hst1⟩ := pass2Step_body t done lc b s st1 (hk s (by simp)) hs
      subst hst1
      obtain ⟨rs, lc', hrs, hst'⟩ := ih (lc + s.nucleus.wordLen) _ st' (fun x hx => hk x (by simp [hx])) h
      refine ⟨ws ++ rs, lc', ?_, ?_⟩
      · simp only [bodyWords, hws, hrs]
      · rw [hst']; simp

/-- statements outside blocks: the second pass accepts only `.external` there, and skips it -/
theorem pass2_gap (t : SymTab) (done : List ObjBlock) : ∀ (gap : List Stmt) (st' : P2), (∀ s ∈ gap, isOrigEnd s.nucleus = false) →
    gap.foldlM (pass2Step t) ⟨done, none⟩ = .ok st' → st' = ⟨done, none⟩ ∧ ∀ s ∈ gap, isExternal s.nucleus = true := by
  intro gap
  induction gap with
  | nil => intro st' _ h; simp only [List.foldlM_nil] at h; cases h; exact ⟨rfl, fun s hs => by cases hs⟩
  | cons s rest ih =>
    intro st' hk h
    rw [List.foldlM_cons] at h
    have hs : pass2Step t ⟨done, none⟩ s = .ok ⟨done, none⟩ ∧ isExternal s.nucleus = true := by
      have hoe := hk s (by simp)
      cases hp : pass2Step t ⟨done, none⟩ s with
      | error e => rw [hp] at h; cases h
      | ok st1 =>
        unfold pass2Step at hp
        cases hn : s.nucleus with
        | instr i => rw [hn] at hp; cases hp
        | directive d =>
          rw [hn] at hp hoe
          cases d with
          | orig a => cases hoe
          | end_ => cases hoe
          | external l => cases hp; exact ⟨rfl, rfl⟩
          | fill v => cases hp
          | blkw n => cases hp
          | stringz x => cases hp
    rw [hs.1] at h
    obtain ⟨h1, h2⟩ := ih st' (fun x hx => hk x (by simp [hx])) h
    exact ⟨h1, fun x hx => by rcases List.mem_cons.mp hx with rfl | hx; exact hs.2; exact h2 x hx⟩

/-- one block of the source: statements skipped before it (`.external`), its `.orig`, its body, its `.end` -/
structure Blk where
  gap : List Stmt
  origS : Stmt
  a : W
  body : List Stmt
  endS : Stmt

def Blk.stmts (b : Blk) : List Stmt := b.gap ++ b.origS :: (b.body ++ [b.endS])

structure Blk.WF (b : Blk) : Prop where
  gap : ∀ s ∈ b.gap, isOrigEnd s.nucleus = false
  orig : b.origS.nucleus = .directive (.orig b.a)
  body : ∀ s ∈ b.body, isOrigEnd s.nucleus = false
  end_ : b.endS.nucleus = .directive .end_

theorem foldlM_append_ok2 {σ : Type} (f : σ → Stmt → ARes σ) (pre post : List Stmt) (s0 s2 : σ)
    (h : (pre ++ post).foldlM f s0 = .ok s2) : ∃ s1, pre.foldlM f s0 = .ok s1 ∧ post.foldlM f s1 = .ok s2 := by
  induction pre generalizing s0 with
  | nil => exact ⟨s0, rfl, h⟩
  | cons x xs ih =>
    simp only [List.cons_append, List.foldlM_cons] at h ⊢
    cases hx : f s0 x with
    | error e => rw [hx] at h; cases h
    | ok s1 => rw [hx] at h; exact ih s1 h

/-- what one block adds to the finished blocks -/
def addBlk (t : SymTab) (done : List ObjBlock) (b : Blk) : List ObjBlock :=
  match bodyWords t b.a b.body with
  | .ok ws => if ws.isEmpty then done else insertBlock ⟨b.a, ws, b.origS.span⟩ done
  | .error _ => done

/-- the second pass over one block of the source -/
theorem pass2_block (t : SymTab) (done : List ObjBlock) (b : Blk) (hb : b.WF) (st' : P2)
    (h : b.stmts.foldlM (pass2Step t) ⟨done, none⟩ = .ok st') :
    ∃ ws, bodyWords t b.a b.body = .ok ws ∧ st' = ⟨addBlk t done b, none⟩ ∧
      (ws.isEmpty = false → (neighbours done b.a).find? (fun x =>
        rangesOverlap b.a.toNat (b.a.toNat + ws.length) x.start.toNat x.stop) = none) ∧
      (∀ s ∈ b.gap, isExternal s.nucleus = true) := by
  unfold Blk.stmts at h
  obtain ⟨s1, h1, h2⟩ := foldlM_append_ok2 _ _ _ _ _ h
  obtain ⟨this, hext⟩ := pass2_gap t done b.gap s1 hb.gap h1
  subst this
  rw [List.foldlM_cons] at h2
  have ho : pass2Step t ⟨done, none⟩ b.origS = .ok ⟨done, some (b.a, ⟨b.a, [], b.origS.span⟩)⟩ := by
    unfold pass2Step; rw [hb.orig]
  rw [ho] at h2
  obtain ⟨s2, h3, h4⟩ := foldlM_append_ok2 _ _ _ _ _ h2
  obtain ⟨ws, lc', hws, hs2⟩ := pass2_body t done b.body b.a _ s2 hb.body h3
  subst hs2
  refine ⟨ws, hws, ?_⟩
  simp only [List.foldlM_cons, List.foldlM_nil, List.nil_append] at h4
  unfold pass2Step at h4
  rw [hb.end_] at h4
  dsimp only at h4
  unfold addBlk
  rw [hws]
  by_cases he : ws.isEmpty = true
  · simp only [he, if_true] at h4 ⊢
    cases h4; exact ⟨rfl, (fun h => by cases h), hext⟩
  · simp only [he, Bool.false_eq_true, if_false] at h4 ⊢
    split at h4
    · cases h4
    · rename_i hnone
      cases h4
      refine ⟨rfl, fun _ => ?_, hext⟩
      simpa [ObjBlock.stop] using hnone

/-- the second pass over a whole program: block after block -/
theorem pass2_blocks (t : SymTab) : ∀ (blks : List Blk) (done : List ObjBlock) (tail : List Stmt) (st' : P2),
    (∀ b ∈ blks, b.WF) → (∀ s ∈ tail, isOrigEnd s.nucleus = false) →
    (blks.flatMap Blk.stmts ++ tail).foldlM (pass2Step t) ⟨done, none⟩ = .ok st' →
    st' = ⟨blks.foldl (addBlk t) done, none⟩ ∧ ∀ b ∈ blks, ∃ ws, bodyWords t b.a b.body = .ok ws := by
  intro blks
  induction blks with
  | nil =>
    intro done tail st' _ ht h
    simp only [List.flatMap_nil, List.nil_append] at h
    exact ⟨(pass2_gap t done tail st' ht h).1, fun b hb => by cases hb⟩
  | cons b rest ih =>
    intro done tail st' hwf ht h
    simp only [List.flatMap_cons, List.append_assoc] at h
    obtain ⟨s1, h1, h2⟩ := foldlM_append_ok2 _ _ _ _ _ h
    obtain ⟨ws, hws, hs1, _, _⟩ := pass2_block t done b (hwf b (by simp)) s1 h1
    subst hs1
    obtain ⟨h3, h4⟩ := ih (addBlk t done b) tail st' (fun x hx => hwf x (by simp [hx])) ht h2
    refine ⟨by rw [h3]; rfl, fun x hx => ?_⟩
    rcases List.mem_cons.mp hx with rfl | hx
    · exact ⟨ws, hws⟩
    · exact h4 x hx

/-! ### nothing is lost, nothing is invented -/

/-- the finished blocks are sorted by start (strictly) and non-empty -/
def DoneInv (done : List ObjBlock) : Prop :=
  done.Pairwise (fun x y => x.start.toNat < y.start.toNat) ∧ ∀ x ∈ done, x.words ≠ []

theorem mem_insertBlock (b : ObjBlock) (l : List ObjBlock) (x : ObjBlock) (h : x ∈ insertBlock b l) : x = b ∨ x ∈ l := by
  induction l with
  | nil => simp [insertBlock] at h; exact Or.inl h
  | cons y ys ih =>
    unfold insertBlock at h
    split at h
    · rcases List.mem_cons.mp h with rfl | h
      · exact Or.inl rfl
      · exact Or.inr h
    · split at h
      · rcases List.mem_cons.mp h with rfl | h
        · exact Or.inl rfl
        · exact Or.inr (by simp [h])
      · rcases List.mem_cons.mp h with rfl | h
        · exact Or.inr (by simp)
        · rcases ih h with rfl | h
          · exact Or.inl rfl
          · exact Or.inr (by simp [h])

theorem insertBlock_fresh (b : ObjBlock) (l : List ObjBlock) (hl : l.Pairwise (fun x y => x.start.toNat < y.start.toNat))
    (hfresh : ∀ x ∈ l, x.start ≠ b.start) :
    (insertBlock b l).Pairwise (fun x y => x.start.toNat < y.start.toNat) ∧ b ∈ insertBlock b l ∧ ∀ x ∈ l, x ∈ insertBlock b l := by
  induction l with
  | nil => simp [insertBlock]
  | cons y ys ih =>
    have hy : y.start ≠ b.start := hfresh y (by simp)
    have hys := List.pairwise_cons.mp hl
    unfold insertBlock
    by_cases h1 : b.start.toNat < y.start.toNat
    · simp only [h1, if_true]
      refine ⟨List.pairwise_cons.mpr ⟨fun z hz => ?_, hl⟩, by simp, fun x hx => by simp [List.mem_cons.mp hx]⟩
      rcases List.mem_cons.mp hz with rfl | hz
      · exact h1
      · have := hys.1 z hz; omega
    · have h2 : ¬ b.start = y.start := fun e => hy e.symm
      simp only [h1, h2, if_false]
      obtain ⟨i1, i2, i3⟩ := ih hys.2 (fun x hx => hfresh x (by simp [hx]))
      refine ⟨List.pairwise_cons.mpr ⟨fun z hz => ?_, i1⟩, by simp [i2], fun x hx => ?_⟩
      · rcases mem_insertBlock b ys z hz with rfl | hz
        · have : y.start.toNat ≠ z.start.toNat := fun e => hy (BitVec.eq_of_toNat_eq e)
          omega
        · exact hys.1 z hz
      · rcases List.mem_cons.mp hx with rfl | hx
        · simp
        · simp [i3 x hx]

theorem find_first_le (p : ObjBlock → Bool) : ∀ (l : List ObjBlock), l.Pairwise (fun x y => x.start.toNat < y.start.toNat) →
    ∀ x ∈ l, p x = true → ∃ y, l.find? p = some y ∧ y ∈ l ∧ p y = true ∧ y.start.toNat ≤ x.start.toNat := by
  intro l
  induction l with
  | nil => intro _ x hx; cases hx
  | cons z zs ih =>
    intro hl x hx hp
    have hz := List.pairwise_cons.mp hl
    by_cases hpz : p z = true
    · refine ⟨z, by simp [List.find?, hpz], by simp, hpz, ?_⟩
      rcases List.mem_cons.mp hx with rfl | hx
      · exact Nat.le_refl _
      · exact Nat.le_of_lt (hz.1 x hx)
    · have hx' : x ∈ zs := by
        rcases List.mem_cons.mp hx with rfl | hx
        · exact absurd hp hpz
        · exact hx
      obtain ⟨y, h1, h2, h3, h4⟩ := ih hz.2 x hx' hp
      exact ⟨y, by simp [List.find?, hpz, h1], by simp [h2], h3, h4⟩

/-- a non-empty block that passed the overlap check starts where no finished block starts -/
theorem fresh_of_no_overlap (done : List ObjBlock) (hd : DoneInv done) (a : W) (n : Nat) (hn : 0 < n)
    (h : (neighbours done a).find? (fun x => rangesOverlap a.toNat (a.toNat + n) x.start.toNat x.stop) = none) :
    ∀ x ∈ done, x.start ≠ a := by
  intro x hx he
  obtain ⟨y, h1, h2, h3, h4⟩ := find_first_le (fun b => decide (a.toNat ≤ b.start.toNat)) done hd.1 x hx (by simp [he])
  have hya : y.start.toNat = a.toNat := by
    have : a.toNat ≤ y.start.toNat := by simpa using h3
    rw [he] at h4; omega
  have hmem : y ∈ neighbours done a := by unfold neighbours; simp [h1]
  have hne : 0 < y.words.length := List.length_pos_iff.mpr (hd.2 y h2)
  have hov : rangesOverlap a.toNat (a.toNat + n) y.start.toNat y.stop = true := by
    simp [rangesOverlap, ObjBlock.stop, hya]; omega
  have := List.find?_eq_none.mp h y hmem
  simp [hov] at this

theorem addBlk_inv (t : SymTab) (done : List ObjBlock) (b : Blk) (hd : DoneInv done)
    (hov : ∀ ws, bodyWords t b.a b.body = .ok ws → ws.isEmpty = false → (neighbours done b.a).find? (fun x =>
        rangesOverlap b.a.toNat (b.a.toNat + ws.length) x.start.toNat x.stop) = none) :
    DoneInv (addBlk t done b) ∧ (∀ x ∈ done, x ∈ addBlk t done b) ∧
    (∀ ws, bodyWords t b.a b.body = .ok ws → ws ≠ [] → ⟨b.a, ws, b.origS.span⟩ ∈ addBlk t done b) ∧
    (∀ x ∈ addBlk t done b, x ∈ done ∨ ∃ ws, bodyWords t b.a b.body = .ok ws ∧ ws ≠ [] ∧ x = ⟨b.a, ws, b.origS.span⟩) := by
  unfold addBlk
  cases hw : bodyWords t b.a b.body with
  | error e => exact ⟨hd, fun x hx => hx, (fun ws h => by cases h), fun x hx => Or.inl hx⟩
  | ok ws =>
    by_cases he : ws.isEmpty = true
    · simp only [he, if_true]
      refine ⟨hd, fun x hx => hx, fun ws' h hne => ?_, fun x hx => Or.inl hx⟩
      cases h
      exact absurd (List.isEmpty_iff.mp he) hne
    · have he' : ws.isEmpty = false := by simpa using he
      have hne : ws ≠ [] := fun e => by rw [e] at he; exact he rfl
      simp only [he, Bool.false_eq_true, if_false]
      have hfresh := fresh_of_no_overlap done hd b.a ws.length (List.length_pos_iff.mpr hne) (hov ws hw he')
      obtain ⟨i1, i2, i3⟩ := insertBlock_fresh ⟨b.a, ws, b.origS.span⟩ done hd.1 hfresh
      refine ⟨⟨i1, fun x hx => ?_⟩, i3, (fun ws' h _ => by cases h; exact i2), fun x hx => ?_⟩
      · rcases mem_insertBlock _ _ x hx with rfl | hx
        · exact hne
        · exact hd.2 x hx
      · rcases mem_insertBlock _ _ x hx with rfl | hx
        · exact Or.inr ⟨ws, rfl, hne, rfl⟩
        · exact Or.inl hx

/-- the second pass over a whole program, with the invariants: the finished blocks are exactly the non-empty blocks of the
    source, each with the words of its body, sorted by start -/
theorem pass2_image_gen (t : SymTab) : ∀ (blks : List Blk) (done : List ObjBlock) (tail : List Stmt) (st' : P2),
    (∀ b ∈ blks, b.WF) → (∀ s ∈ tail, isOrigEnd s.nucleus = false) → DoneInv done →
    (blks.flatMap Blk.stmts ++ tail).foldlM (pass2Step t) ⟨done, none⟩ = .ok st' →
    st'.current = none ∧ DoneInv st'.done ∧ (∀ x ∈ done, x ∈ st'.done) ∧
    ((∀ b ∈ blks, ∀ s ∈ b.gap, isExternal s.nucleus = true) ∧ ∀ s ∈ tail, isExternal s.nucleus = true) ∧
    (∀ b ∈ blks, ∃ ws, bodyWords t b.a b.body = .ok ws ∧ (ws ≠ [] → ⟨b.a, ws, b.origS.span⟩ ∈ st'.done)) ∧
    (∀ x ∈ st'.done, x ∈ done ∨ ∃ b ∈ blks, ∃ ws, bodyWords t b.a b.body = .ok ws ∧ ws ≠ [] ∧ x = ⟨b.a, ws, b.origS.span⟩) := by
  intro blks
  induction blks with
  | nil =>
    intro done tail st' _ ht hd h
    simp only [List.flatMap_nil, List.nil_append] at h
    obtain ⟨this, hext⟩ := pass2_gap t done tail st' ht h
    subst this
    exact ⟨rfl, hd, fun x hx => hx, ⟨(fun b hb => by cases hb), hext⟩, (fun b hb => by cases hb), fun x hx => Or.inl hx⟩
  | cons b rest ih =>
    intro done tail st' hwf ht hd h
    simp only [List.flatMap_cons, List.append_assoc] at h
    obtain ⟨s1, h1, h2⟩ := foldlM_append_ok2 _ _ _ _ _ h
    obtain ⟨ws, hws, hs1, hov, hext⟩ := pass2_block t done b (hwf b (by simp)) s1 h1
    subst hs1
    obtain ⟨a1, a2, a3, a4⟩ := addBlk_inv t done b hd (fun ws' hw' he' => by rw [hws] at hw'; cases hw'; exact hov he')
    obtain ⟨r1, r2, r3, rext, r4, r5⟩ := ih (addBlk t done b) tail st' (fun x hx => hwf x (by simp [hx])) ht a1 h2
    refine ⟨r1, r2, fun x hx => r3 x (a2 x hx), ⟨fun x hx => ?_, rext.2⟩, fun x hx => ?_, fun x hx => ?_⟩
    · rcases List.mem_cons.mp hx with rfl | hx
      · exact hext
      · exact rext.1 x hx
    · rcases List.mem_cons.mp hx with rfl | hx
      · exact ⟨ws, hws, fun hne => r3 _ (a3 ws hws hne)⟩
      · exact r4 x hx
    · rcases r5 x hx with hx | ⟨b', hb', ws', h1', h2', h3'⟩
      · rcases a4 x hx with hx | ⟨ws', h1', h2', h3'⟩
        · exact Or.inl hx
        · exact Or.inr ⟨b, by simp, ws', h1', h2', h3'⟩
      · exact Or.inr ⟨b', by simp [hb'], ws', h1', h2', h3'⟩

/-- size of a run of statements -/
def sizeOf' (l : List Stmt) : W := l.foldl (fun acc s => acc + s.nucleus.wordLen) 0

theorem foldl_size (l : List Stmt) (x : W) : l.foldl (fun acc s => acc + s.nucleus.wordLen) x = x + sizeOf' l := by
  unfold sizeOf'
  induction l generalizing x with
  | nil => simp
  | cons s rest ih =>
    simp only [List.foldl_cons]
    rw [ih (x + s.nucleus.wordLen), ih (0 + s.nucleus.wordLen)]
    bv_omega

/-- the words of a body are the words of its statements in order, each taken at block start + size of the statements before it -/
theorem bodyWords_split (t : SymTab) : ∀ (pre : List Stmt) (s : Stmt) (post : List Stmt) (a : W) (ws : List (Option W)),
    bodyWords t a (pre ++ s :: post) = .ok ws →
    ∃ w1 w2 w3, bodyWords t a pre = .ok w1 ∧ stmtWords t (a + sizeOf' pre) s = .ok w2 ∧
      bodyWords t (a + sizeOf' pre + s.nucleus.wordLen) post = .ok w3 ∧ ws = w1 ++ (w2 ++ w3) := by
  intro pre
  induction pre with
  | nil =>
    intro s post a ws h
    simp only [List.nil_append, bodyWords] at h
    have h0 : a + sizeOf' [] = a := by simp [sizeOf']
    rw [h0]
    cases hs : stmtWords t a s with
    | error e => rw [hs] at h; cases h
    | ok w2 =>
      rw [hs] at h
      cases hr : bodyWords t (a + s.nucleus.wordLen) post with
      | error e => rw [hr] at h; cases h
      | ok w3 => rw [hr] at h; cases h; exact ⟨[], w2, w3, rfl, rfl, rfl, rfl⟩
  | cons x xs ih =>
    intro s post a ws h
    simp only [List.cons_append, bodyWords] at h
    cases hx : stmtWords t a x with
    | error e => rw [hx] at h; cases h
    | ok wx =>
      rw [hx] at h
      cases hr : bodyWords t (a + x.nucleus.wordLen) (xs ++ s :: post) with
      | error e => rw [hr] at h; cases h
      | ok wr =>
        rw [hr] at h
        cases h
        obtain ⟨w1, w2, w3, h1, h2, h3, h4⟩ := ih s post _ wr hr
        have hsz : a + sizeOf' (x :: xs) = a + x.nucleus.wordLen + sizeOf' xs := by
          have := foldl_size xs (0 + x.nucleus.wordLen)
          unfold sizeOf' at this ⊢
          simp only [List.foldl_cons]
          rw [this]
          generalize List.foldl (fun acc s => acc + s.nucleus.wordLen) 0 xs = z
          bv_omega
        rw [hsz]
        refine ⟨wx ++ w1, w2, w3, ?_, h2, h3, by rw [h4]; simp⟩
        simp only [bodyWords, hx, h1]

end Lc3V
