/- Lemmas/InitInv.lean — on a machine whose memory, registers and saved stack pointer are all initialised, no piece of a
   step raises a strict-mode error, and the machine stays all-initialised. -/
import Lc3V.Lemmas.SimM
set_option linter.unusedSimpArgs false
set_option linter.unusedVariables false
namespace Lc3V
open Sim SimM

def AllInit (s : Sim) : Prop :=
  (∀ a : W, (s.memAt a).isInit = true) ∧ (∀ r : Reg, (s.reg r).isInit = true) ∧ s.savedSp.isInit = true

/-- not a strict-mode error -/
def NoStrict {α} (r : Except StepBreak α) : Prop := ∀ e, r = .error (.err e) → e.isStrict = false

/-- run from an all-initialised state: stays all-initialised, raises no strict error, and an ok result satisfies `Q` -/
def TriAt {α} (s : Sim) (m : SimM α) (Q : α → Prop) : Prop :=
  AllInit (m s).2 ∧ NoStrict (m s).1 ∧ ∀ a, (m s).1 = .ok a → Q a

def Tri {α} (m : SimM α) (Q : α → Prop) : Prop := ∀ s, AllInit s → TriAt s m Q

theorem AllInit.of_eq {s s' : Sim} (h : AllInit s) (hm : s'.mem = s.mem) (hr : s'.regs = s.regs) (hsp : s'.savedSp = s.savedSp) : AllInit s' := by
  obtain ⟨h1, h2, h3⟩ := h
  refine ⟨fun a => ?_, fun r => ?_, by rw [hsp]; exact h3⟩
  · have := h1 a; unfold Sim.memAt at *; simp only [hm]; exact this
  · have := h2 r; unfold Sim.reg at *; simp only [hr]; exact this

theorem AllInit.setReg {s : Sim} (h : AllInit s) (r : Reg) (w : Word) (hw : w.isInit = true) : AllInit (s.setReg r w) := by
  obtain ⟨h1, h2, h3⟩ := h
  refine ⟨fun a => h1 a, fun r' => ?_, h3⟩
  rw [Sim.reg_setReg]
  by_cases e : r = r' <;> simp only [e, if_true, if_false]
  · exact hw
  · exact h2 r'

theorem AllInit.setMem {s : Sim} (h : AllInit s) (a : W) (w : Word) (hw : w.isInit = true) : AllInit (s.setMem a w) := by
  obtain ⟨h1, h2, h3⟩ := h
  refine ⟨fun a' => ?_, fun r => h2 r, h3⟩
  rw [Sim.memAt_setMem]
  by_cases e : a = a' <;> simp only [e, if_true, if_false]
  · exact hw
  · exact h1 a'

theorem Word.isInit_ofData (d : W) : (Word.ofData d).isInit = true := by simp [Word.isInit, Word.ofData]
theorem Word.isInit_set (w : Word) (d : W) : (w.set d).isInit = true := by simp [Word.isInit, Word.set]
theorem Word.isInit_iff (w : Word) : w.isInit = true ↔ w.init = Word.ALL := by simp [Word.isInit]

theorem Word.isInit_add (a b : Word) (ha : a.isInit = true) (hb : b.isInit = true) : (Word.add a b).isInit = true := by
  rw [Word.isInit_iff] at *
  unfold Word.add
  split
  · exact ha
  · split
    · exact hb
    · simp [ha, hb]

theorem Word.isInit_sub (a b : Word) (ha : a.isInit = true) (hb : b.isInit = true) : (Word.sub a b).isInit = true := by
  rw [Word.isInit_iff] at *
  unfold Word.sub
  split
  · exact ha
  · simp [ha, hb]

theorem Word.isInit_and (a b : Word) (ha : a.isInit = true) (hb : b.isInit = true) : (Word.and a b).isInit = true := by
  rw [Word.isInit_iff] at *
  unfold Word.and
  simp only [ha, hb]
  unfold Word.ALL
  rw [BitVec.and_self, BitVec.allOnes_or, BitVec.allOnes_or]

theorem Word.isInit_not (a : Word) (ha : a.isInit = true) : (Word.not a).isInit = true := by
  rw [Word.isInit_iff] at *
  exact ha

/-! ### the calculus -/

theorem TriAt.intro {α} {s : Sim} {m : SimM α} {Q : α → Prop} (h1 : AllInit (m s).2)
    (h2 : ∀ e, (m s).1 = .error (.err e) → e.isStrict = false) (h3 : ∀ a, (m s).1 = .ok a → Q a) : TriAt s m Q := ⟨h1, h2, h3⟩

theorem Tri.bind {α β} {m : SimM α} {f : α → SimM β} {Q : α → Prop} {Q' : β → Prop} (h : Tri m Q) (hf : ∀ a, Q a → Tri (f a) Q') :
    Tri (m >>= f) Q' := by
  intro s hs
  obtain ⟨h1, h2, h3⟩ := h s hs
  unfold TriAt
  simp only [SimM.bind_apply]
  rcases hm : m s with ⟨r, s'⟩
  rw [hm] at h1 h2 h3
  cases r with
  | ok a => exact hf a (h3 a rfl) s' h1
  | error e => exact ⟨h1, fun e' he => h2 e' (by simpa using he), fun a ha => by cases ha⟩

theorem Tri.weaken {α} {m : SimM α} {Q Q' : α → Prop} (h : Tri m Q) (hq : ∀ a, Q a → Q' a) : Tri m Q' :=
  fun s hs => ⟨(h s hs).1, (h s hs).2.1, fun a ha => hq a ((h s hs).2.2 a ha)⟩

theorem Tri.pure {α} (a : α) (Q : α → Prop) (h : Q a) : Tri (Pure.pure a : SimM α) Q := by
  intro s hs
  refine TriAt.intro hs ?_ ?_
  · intro e he; cases he
  · intro b hb; cases hb; exact h

theorem Tri.getS {β} {f : Sim → SimM β} {Q : β → Prop} (h : ∀ s, AllInit s → TriAt s (f s) Q) : Tri (SimM.getS >>= f) Q := by
  intro s hs
  unfold TriAt
  simp only [SimM.bind_apply, SimM.getS_apply]
  exact h s hs

theorem Tri.modify (f : Sim → Sim) (h : ∀ s, AllInit s → AllInit (f s)) : Tri (modifyS f) (fun _ => True) := by
  intro s hs
  refine TriAt.intro (h s hs) ?_ ?_
  · intro e he; cases he
  · intro _ _; trivial

theorem Tri.throwB {α} (b : StepBreak) (hb : ∀ e, b = .err e → e.isStrict = false) (Q : α → Prop) : Tri (SimM.throwB b : SimM α) Q := by
  intro s hs
  refine TriAt.intro hs ?_ ?_
  · intro e he; cases he; exact hb e rfl
  · intro a ha; cases ha

theorem Tri.throwErr {α} (e : SimErr) (he : e.isStrict = false) (Q : α → Prop) : Tri (SimM.throwErr e : SimM α) Q := by
  intro s hs
  refine TriAt.intro hs ?_ ?_
  · intro e' h; cases h; exact he
  · intro a ha; cases ha

theorem Tri.ite {α} (c : Prop) [Decidable c] {a b : SimM α} {Q : α → Prop} (ha : Tri a Q) (hb : Tri b Q) : Tri (if c then a else b) Q := by
  by_cases h : c <;> simp only [h, if_true, if_false] <;> assumption

theorem Tri.liftE {α} (x : Except SimErr α) (hx : ∀ e, x = .error e → e.isStrict = false) (Q : α → Prop) (hq : ∀ a, x = .ok a → Q a) :
    Tri (SimM.liftE x) Q := by
  intro s hs
  cases x with
  | ok a =>
    refine TriAt.intro hs ?_ ?_
    · intro e he; cases he
    · intro b hb; cases hb; exact hq a rfl
  | error e =>
    refine TriAt.intro hs ?_ ?_
    · intro e' he; cases he; exact hx e rfl
    · intro b hb; cases hb

/-- `get_if_init` on an initialised word: never an error, the value is the data -/
theorem Tri.getIfInit (w : Word) (b : Bool) (e : SimErr) (hw : w.isInit = true) : Tri (SimM.liftE (w.getIfInit b e)) (fun v => v = w.data) := by
  apply Tri.liftE
  · intro e' he; simp [Word.getIfInit, hw] at he
  · intro a ha; simp [Word.getIfInit, hw] at ha; exact ha.symm

theorem Tri.setRegIfInit (r : Reg) (v : Word) (b : Bool) (hv : v.isInit = true) : Tri (Sim.setRegIfInit r v b) (fun _ => True) := by
  intro s hs
  unfold Sim.setRegIfInit
  refine TriAt.intro ?_ ?_ ?_ <;>
    simp only [SimM.bind_apply, SimM.getS_apply, Word.setIfInit, hv, Bool.or_true, if_true, SimM.liftE_ok, SimM.modifyS_apply]
  · exact hs.setReg r v hv
  · intro e he; cases he
  · intro _ _; trivial

end Lc3V
