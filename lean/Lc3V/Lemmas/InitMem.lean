/- Lemmas/InitMem.lean — `read_mem` / `write_mem` on all-initialised machines. -/
import Lc3V.Lemmas.InitInv
set_option linter.unusedSimpArgs false
set_option linter.unusedVariables false
namespace Lc3V
open Sim SimM

/-- what `read_mem` can do to memory, registers and the saved stack pointer; the word it returns -/
theorem Sim.readMem_effect (a : W) (c : Ctx) (s : Sim) :
    (readMem a c s).2.regs = s.regs ∧ (readMem a c s).2.savedSp = s.savedSp ∧
    ((readMem a c s).2.mem = s.mem ∨ ∃ d, (readMem a c s).2.mem = (s.setMem a ((s.memAt a).set d)).mem) ∧
    (∀ w, (readMem a c s).1 = .ok w → w = (readMem a c s).2.memAt a) ∧
    (∀ e, (readMem a c s).1 = .error (.err e) → e = .accessViolation) := by
  obtain ⟨mem, regs, pc, psr, savedSp, frameNo, frames, srDefs, alloca, instrRun, prefetch, pause, observer, mcr, flags, bps, iregs, dev, log⟩ := s
  rcases hr : dev.ioRead a c.ioEffects with ⟨r, dev'⟩
  simp only [readMem, iregLookup, iregRead, hr]
  generalize Option.map (fun x => x.snd) (List.find? (fun p => p.fst == a) iregs) = look
  cases r <;> cases look <;> by_cases h1 : (!c.privileged && !inUser a) = true <;> by_cases h2 : IO_START ≤ a.toNat <;>
    by_cases h3 : c.track = true <;> simp only [h1, h2, h3, if_true, if_false, Bool.false_eq_true] <;>
    (refine ⟨?_, ?_, ?_, ?_, ?_⟩ <;>
      first
        | trivial
        | rfl
        | exact Or.inl rfl
        | exact Or.inl trivial
        | exact Or.inr ⟨_, rfl⟩
        | (intro x hx; first | (cases hx <;> first | rfl | trivial) | (subst hx; first | rfl | trivial)))

theorem Tri.readMem (a : W) (c : Ctx) : Tri (Sim.readMem a c) (fun w => w.isInit = true) := by
  intro s hs
  obtain ⟨h1, h2, h3, h4, h5⟩ := Sim.readMem_effect a c s
  have hinit : AllInit (Sim.readMem a c s).2 := by
    rcases h3 with h3 | ⟨d, h3⟩
    · exact hs.of_eq h3 h1 h2
    · exact (hs.setMem a _ (Word.isInit_set _ d)).of_eq h3 h1 h2
  refine TriAt.intro hinit ?_ ?_
  · intro e he; rw [h5 e he]; rfl
  · intro w hw; rw [h4 w hw]; exact hinit.1 a

/-- what `write_mem` of an initialised word can do to memory, registers and the saved stack pointer; its errors -/
theorem Sim.writeMem_effect (a : W) (d : Word) (c : Ctx) (s : Sim) (hd : d.isInit = true) :
    (Sim.writeMem a d c s).2.regs = s.regs ∧
    ((Sim.writeMem a d c s).2.savedSp = s.savedSp ∨ (Sim.writeMem a d c s).2.savedSp = Word.ofData d.data) ∧
    ((Sim.writeMem a d c s).2.mem = s.mem ∨ (Sim.writeMem a d c s).2.mem = (s.setMem a d).mem) ∧
    (∀ e, (Sim.writeMem a d c s).1 = .error (.err e) → e = .accessViolation) := by
  obtain ⟨mem, regs, pc, psr, savedSp, frameNo, frames, srDefs, alloca, instrRun, prefetch, pause, observer, mcr, flags, bps, iregs, dev, log⟩ := s
  simp only [Sim.writeMem, ioWritePart, storePart, iregLookup, iregWrite, Word.getIfInit, Word.setIfInit, hd, Bool.or_true, if_true]
  generalize dev.ioWrite a d.data = rw
  obtain ⟨r, dev'⟩ := rw
  generalize Option.map (fun x => x.snd) (List.find? (fun p => p.fst == a) iregs) = look
  rcases look with _ | ir
  · cases r <;> by_cases h1 : (!c.privileged && !inUser a) = true <;>
      by_cases h2 : IO_START ≤ a.toNat <;> by_cases h3 : c.track = true <;>
      simp only [h1, h2, h3, if_true, if_false, Bool.false_eq_true] <;>
      (refine ⟨?_, ?_, ?_, ?_⟩ <;>
        first
          | trivial
          | rfl
          | exact Or.inl rfl
          | exact Or.inl trivial
          | exact Or.inr rfl
          | exact Or.inr trivial
          | (intro x hx; first | (cases hx <;> first | rfl | trivial) | (subst hx; first | rfl | trivial)))
  · cases ir <;> cases r <;> by_cases h1 : (!c.privileged && !inUser a) = true <;>
      by_cases h2 : IO_START ≤ a.toNat <;> by_cases h3 : c.track = true <;>
      simp only [h1, h2, h3, if_true, if_false, Bool.false_eq_true] <;>
      (refine ⟨?_, ?_, ?_, ?_⟩ <;>
        first
          | trivial
          | rfl
          | exact Or.inl rfl
          | exact Or.inl trivial
          | exact Or.inr rfl
          | exact Or.inr trivial
          | (intro x hx; first | (cases hx <;> first | rfl | trivial) | (subst hx; first | rfl | trivial)))

theorem Tri.writeMem (a : W) (d : Word) (c : Ctx) (hd : d.isInit = true) : Tri (Sim.writeMem a d c) (fun _ => True) := by
  intro s hs
  obtain ⟨h1, h2, h3, h4⟩ := Sim.writeMem_effect a d c s hd
  have hinit : AllInit (Sim.writeMem a d c s).2 := by
    have hm : ∀ x : W, ((Sim.writeMem a d c s).2.memAt x).isInit = true := by
      intro x
      rcases h3 with h3 | h3
      · unfold Sim.memAt; simp only [h3]; exact hs.1 x
      · have := (hs.setMem a d hd).1 x
        unfold Sim.memAt at *; simp only [h3]; exact this
    refine ⟨hm, fun r => ?_, ?_⟩
    · have := hs.2.1 r; unfold Sim.reg at *; simp only [h1]; exact this
    · rcases h2 with h2 | h2
      · rw [h2]; exact hs.2.2
      · rw [h2]; exact Word.isInit_ofData _
  refine TriAt.intro hinit ?_ ?_
  · intro e he; rw [h4 e he]; rfl
  · intro _ _; trivial

end Lc3V
