/- Lemmas/InitRun.lean — all-initialised machines over whole runs. -/
import Lc3V.Lemmas.InitStep
set_option linter.unusedSimpArgs false
set_option linter.unusedVariables false
namespace Lc3V
open Sim SimM

theorem tripwireEval_allInit (tw : Tripwire) (iter : Nat) (s : Sim) (h : AllInit s) : AllInit (tripwireEval tw iter s).2 := by
  cases tw with
  | always => exact h
  | limit a b => exact h
  | over c => exact h
  | out c => exact h
  | mcrAt k a b =>
    unfold tripwireEval
    by_cases hk : iter = k <;> simp only [hk, if_true, if_false]
    · exact h.of_eq rfl rfl rfl
    · exact h

/-- a run from an all-initialised machine never ends with a strict error and ends all-initialised -/
theorem runLoop_all_init (tw : Tripwire) : ∀ (fuel iter : Nat) (s : Sim), AllInit s →
    match runLoop tw fuel iter s with
    | none => True
    | some (r, s') => AllInit s' ∧ ∀ e, r = .error e → e.isStrict = false := by
  intro fuel
  induction fuel with
  | zero => intro iter s hs; simp [runLoop]
  | succ f ih =>
    intro iter s hs
    unfold runLoop
    by_cases hmcr : (!s.mcr) = true
    · simp only [hmcr, if_true]; exact ⟨hs, fun e he => by cases he⟩
    · simp only [hmcr, if_false, Bool.false_eq_true]
      have ht := tripwireEval_allInit tw iter s hs
      rcases hte : tripwireEval tw iter s with ⟨go, s1⟩
      rw [hte] at ht
      simp only at ht ⊢
      by_cases hgo : (!go) = true
      · simp only [hgo, if_true]; exact ⟨ht, fun e he => by cases he⟩
      · simp only [hgo, if_false, Bool.false_eq_true]
        obtain ⟨h1, h2⟩ := step_all_init s1 ht
        rcases hst : Sim.step s1 with ⟨r, s2⟩
        rw [hst] at h1 h2
        simp only at h1 h2 ⊢
        cases r with
        | error b =>
          cases b with
          | halt => exact ⟨h1, fun e he => by cases he⟩
          | err e => exact ⟨h1, fun e' he => by cases he; exact h2 e rfl⟩
        | ok u =>
          simp only
          by_cases hbp : s2.breakpoints.any (bpCheck s2) = true
          · simp only [hbp, if_true]; exact ⟨h1, fun e he => by cases he⟩
          · simp only [hbp, if_false, Bool.false_eq_true]
            exact ih (iter + 1) s2 h1

end Lc3V
