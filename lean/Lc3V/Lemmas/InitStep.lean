/- Lemmas/InitStep.lean — every piece of a simulator step on an all-initialised machine. -/
import Lc3V.Lemmas.InitMem
set_option linter.unusedSimpArgs false
set_option linter.unusedVariables false
namespace Lc3V
open Sim SimM

abbrev T : Unit → Prop := fun _ => True

theorem Tri.setPc (w : Word) (chk : Bool) (hw : w.isInit = true) : Tri (Sim.setPc w chk) T := by
  intro s hs
  have hm := hs.1 w.data
  unfold Sim.setPc
  refine TriAt.intro ?_ ?_ ?_ <;>
    simp only [SimM.bind_apply, SimM.getS_apply, Word.getIfInit, hw, Bool.or_true, if_true, SimM.liftE_ok]
  · cases s.flags.strict <;> cases chk <;> simp [hm] <;> exact hs.of_eq rfl rfl rfl
  · cases s.flags.strict <;> cases chk <;> simp [hm, NoStrict]
  · intro _ _; trivial

theorem Tri.offsetPc (off : W) (chk : Bool) : Tri (Sim.offsetPc off chk) T := by
  unfold Sim.offsetPc
  apply Tri.getS
  intro s hs
  exact Tri.setPc _ _ (Word.isInit_ofData _) s hs

macro "tri_mod" : tactic => `(tactic| (refine Tri.modify _ ?_; intro s hs; first | exact hs.of_eq rfl rfl rfl | skip))

theorem Tri.callSubroutine (addr : W) : Tri (Sim.callSubroutine addr) T := by
  unfold Sim.callSubroutine
  refine Tri.bind (Tri.modify _ (fun s hs => hs.setReg _ _ (Word.isInit_set _ _))) (fun _ _ => ?_)
  refine Tri.bind (Tri.modify _ (fun s hs => hs.of_eq rfl rfl rfl)) (fun _ _ => ?_)
  exact Tri.setPc _ _ (Word.isInit_ofData _)

theorem Tri.callInterrupt (vect : W) (ft : FrameType) : Tri (Sim.callInterrupt vect ft) T := by
  unfold Sim.callInterrupt
  apply Tri.getS
  intro s hs
  refine (Tri.bind (Tri.readMem _ _) (fun w hw => ?_)) s hs
  refine Tri.bind (Tri.getIfInit w _ _ hw) (fun addr _ => ?_)
  refine Tri.bind (Tri.modify _ (fun s hs => hs.of_eq rfl rfl rfl)) (fun _ _ => ?_)
  exact Tri.setPc _ _ (Word.isInit_ofData _)

theorem Tri.virtualBreak (brk : StepBreak) (hb : ∀ e, brk = .err e → e.isStrict = false) : Tri (Sim.virtualBreak brk) T := by
  unfold Sim.virtualBreak
  apply Tri.getS
  intro s hs
  refine (Tri.ite _ ?_ (Tri.throwB brk hb _)) s hs
  exact Tri.bind (Tri.offsetPc _ _) (fun _ _ => Tri.bind (Tri.modify _ (fun s hs => hs.of_eq rfl rfl rfl)) (fun _ _ => Tri.throwB brk hb _))

theorem Tri.enterCore (vect : W) (priority : Option Nat) (oldPsr oldPc : W) : Tri (Sim.enterCore vect priority oldPsr oldPc) T := by
  unfold Sim.enterCore
  refine Tri.bind (Tri.modify _ (fun s hs => hs.of_eq rfl rfl rfl)) (fun _ _ => ?_)
  apply Tri.getS
  intro s hs
  refine (Tri.bind (Tri.getIfInit _ _ _ (hs.2.1 R6)) (fun sp _ => ?_)) s hs
  refine Tri.bind (Tri.modify _ (fun s hs => hs.setReg _ _ (Word.isInit_sub _ _ (hs.2.1 R6) (Word.isInit_ofData _)))) (fun _ _ => ?_)
  refine Tri.bind (Tri.writeMem _ _ _ (Word.isInit_ofData _)) (fun _ _ => ?_)
  refine Tri.bind (Tri.writeMem _ _ _ (Word.isInit_ofData _)) (fun _ _ => ?_)
  refine Tri.bind (Tri.modify _ (fun s hs => hs.of_eq rfl rfl rfl)) (fun _ _ => ?_)
  cases priority with
  | none => exact Tri.callInterrupt _ _
  | some p => exact Tri.bind (Tri.modify _ (fun s hs => hs.of_eq rfl rfl rfl)) (fun _ _ => Tri.callInterrupt _ _)

theorem AllInit.swapStacks {s : Sim} (h : AllInit s) : AllInit s.swapStacks := by
  have h1 : AllInit (s.setReg R6 s.savedSp) := h.setReg R6 _ h.2.2
  exact ⟨h1.1, h1.2.1, h.2.1 R6⟩

theorem Tri.enterSupervisor (vect : W) (priority : Option Nat) : Tri (Sim.enterSupervisor vect priority) T := by
  intro s hs
  unfold Sim.enterSupervisor
  refine Tri.enterCore vect priority s.psr s.pc _ ?_
  by_cases hp : (!PSR.privileged s.psr) = true <;> simp only [hp, if_true, if_false, Bool.false_eq_true]
  · exact hs.swapStacks
  · exact hs

theorem realIntVect_nonstrict (vect : W) (brk : StepBreak) (h : realIntVect vect = some brk) : ∀ e, brk = .err e → e.isStrict = false := by
  unfold realIntVect at h
  intro e he
  subst he
  split at h
  · cases h
  · split at h
    · cases h; rfl
    · split at h
      · cases h; rfl
      · split at h
        · cases h; rfl
        · cases h

theorem Tri.handleInterrupt (vect : W) (priority : Option Nat) : Tri (Sim.handleInterrupt vect priority) T := by
  intro s hs
  unfold TriAt Sim.handleInterrupt
  by_cases h1 : s.gated priority = true
  · simp only [h1, if_true]
    exact ⟨hs, (fun e he => by cases he), (fun _ _ => trivial)⟩
  · simp only [h1, if_false, Bool.false_eq_true]
    by_cases h2 : (!s.flags.realTraps) = true
    · simp only [h2, if_true]
      cases hv : realIntVect vect with
      | none => exact Tri.enterSupervisor vect priority s hs
      | some brk => exact Tri.virtualBreak brk (realIntVect_nonstrict vect brk hv) s hs
    · simp only [h2, if_false, Bool.false_eq_true]
      exact Tri.enterSupervisor vect priority s hs

theorem AllInit.operand2 {s : Sim} (h : AllInit s) (o : ImmOrReg 5) : (s.operand2 o).isInit = true := by
  cases o with
  | imm v => exact Word.isInit_ofData _
  | reg r => exact h.2.1 r

macro "tri_same" : tactic => `(tactic| (refine Tri.modify _ ?_; intro s hs; exact hs.of_eq rfl rfl rfl))

theorem Tri.execInstr (i : SimInstr) : Tri (Sim.execInstr i) T := by
  cases i with
  | br cc off =>
    simp only [Sim.execInstr]
    apply Tri.getS; intro s hs
    exact (Tri.ite _ (Tri.offsetPc _ _) (Tri.pure _ _ trivial)) s hs
  | add dr sr1 sr2 =>
    simp only [Sim.execInstr]
    apply Tri.getS; intro s hs
    refine (Tri.bind (Tri.setRegIfInit _ _ _ ?_) (fun _ _ => ?_)) s hs
    · exact Word.isInit_add _ _ (hs.2.1 _) (hs.operand2 _)
    · tri_same
  | and dr sr1 sr2 =>
    simp only [Sim.execInstr]
    apply Tri.getS; intro s hs
    refine (Tri.bind (Tri.setRegIfInit _ _ _ ?_) (fun _ _ => ?_)) s hs
    · exact Word.isInit_and _ _ (hs.2.1 _) (hs.operand2 _)
    · tri_same
  | not dr sr =>
    simp only [Sim.execInstr]
    apply Tri.getS; intro s hs
    refine (Tri.bind (Tri.setRegIfInit _ _ _ ?_) (fun _ _ => ?_)) s hs
    · exact Word.isInit_not _ (hs.2.1 _)
    · tri_same
  | ld dr off =>
    simp only [Sim.execInstr]
    apply Tri.getS; intro s hs
    refine (Tri.bind (Tri.readMem _ _) (fun v hv => Tri.bind (Tri.setRegIfInit _ _ _ hv) (fun _ _ => ?_))) s hs
    tri_same
  | ldr dr b off =>
    simp only [Sim.execInstr]
    apply Tri.getS; intro s hs
    refine (Tri.bind (Tri.getIfInit _ _ _ (hs.2.1 _)) (fun base _ =>
      Tri.bind (Tri.readMem _ _) (fun v hv => Tri.bind (Tri.setRegIfInit _ _ _ hv) (fun _ _ => ?_)))) s hs
    tri_same
  | ldi dr off =>
    simp only [Sim.execInstr]
    apply Tri.getS; intro s hs
    refine (Tri.bind (Tri.readMem _ _) (fun pw hpw => Tri.bind (Tri.getIfInit _ _ _ hpw) (fun ea _ => ?_))) s hs
    apply Tri.getS; intro s2 hs2
    refine (Tri.bind (Tri.readMem _ _) (fun v hv => Tri.bind (Tri.setRegIfInit _ _ _ hv) (fun _ _ => ?_))) s2 hs2
    tri_same
  | st sr off =>
    simp only [Sim.execInstr]
    apply Tri.getS; intro s hs
    exact Tri.writeMem _ _ _ (hs.2.1 _) s hs
  | str sr b off =>
    simp only [Sim.execInstr]
    apply Tri.getS; intro s hs
    exact (Tri.bind (Tri.getIfInit _ _ _ (hs.2.1 _)) (fun base _ => Tri.writeMem _ _ _ (hs.2.1 _))) s hs
  | sti sr off =>
    simp only [Sim.execInstr]
    apply Tri.getS; intro s hs
    refine (Tri.bind (Tri.readMem _ _) (fun pw hpw => Tri.bind (Tri.getIfInit _ _ _ hpw) (fun ea _ => ?_))) s hs
    apply Tri.getS; intro s2 hs2
    exact Tri.writeMem _ _ _ (hs2.2.1 _) s2 hs2
  | jsr op =>
    simp only [Sim.execInstr]
    apply Tri.getS; intro s hs
    have hw : (match op with | .imm off => Word.ofData (s.pc + IOff.get off) | .reg b => s.reg b).isInit = true := by
      cases op with
      | imm off => exact Word.isInit_ofData _
      | reg b => exact hs.2.1 b
    exact (Tri.bind (Tri.getIfInit _ _ _ hw) (fun addr _ => Tri.callSubroutine addr)) s hs
  | jmp b =>
    simp only [Sim.execInstr]
    apply Tri.getS; intro s hs
    refine (Tri.bind (Tri.setPc _ _ (hs.2.1 _)) (fun _ _ => Tri.ite _ ?_ (Tri.pure _ _ trivial))) s hs
    tri_same
  | lea dr off =>
    simp only [Sim.execInstr]
    apply Tri.getS; intro s hs
    refine Tri.modify _ ?_ s hs
    intro s1 hs1
    exact hs1.setReg _ _ (Word.isInit_set _ _)
  | trap v =>
    simp only [Sim.execInstr]
    apply Tri.getS; intro s hs
    exact Tri.handleInterrupt _ _ s hs
  | rti =>
    simp only [Sim.execInstr]
    apply Tri.getS; intro s hs
    refine (Tri.ite _ ?_ (Tri.throwErr _ rfl _)) s hs
    refine Tri.bind (Tri.getIfInit _ _ _ (hs.2.1 _)) (fun sp _ => ?_)
    refine Tri.bind (Tri.readMem _ _) (fun pcw hpcw => ?_)
    refine Tri.bind (Tri.getIfInit _ _ _ hpcw) (fun pc _ => ?_)
    refine Tri.bind (Tri.readMem _ _) (fun psrw hpsrw => ?_)
    refine Tri.bind (Tri.getIfInit _ _ _ hpsrw) (fun psr _ => ?_)
    refine Tri.bind (Tri.modify _ ?_) (fun _ _ => ?_)
    · intro s1 hs1; exact hs1.setReg _ _ (Word.isInit_add _ _ (hs1.2.1 R6) (Word.isInit_ofData _))
    refine Tri.bind (Tri.setPc _ _ (Word.isInit_ofData _)) (fun _ _ => ?_)
    refine Tri.bind (Q := T) ?_ (fun _ _ => ?_)
    · tri_same
    apply Tri.getS; intro s3 hs3
    refine (Tri.ite _ (Tri.bind (Tri.modify _ ?_) (fun _ _ => ?_)) ?_) s3 hs3
    · intro s4 hs4; exact hs4.swapStacks
    · tri_same
    · tri_same

theorem Tri.fetchExec : Tri Sim.fetchExec T := by
  unfold Sim.fetchExec
  apply Tri.getS; intro s hs
  refine (Tri.bind (Tri.readMem _ _) (fun w hw => ?_)) s hs
  refine Tri.bind (Tri.getIfInit _ _ _ hw) (fun word _ => ?_)
  refine Tri.bind (Tri.liftE _ ?_ (fun _ => True) (fun _ _ => trivial)) (fun instr _ => ?_)
  · intro e he
    cases hd : SimInstr.decode word with
    | ok i => rw [hd] at he; cases he
    | error de => rw [hd] at he; cases he; cases de <;> rfl
  refine Tri.bind (Tri.offsetPc _ _) (fun _ _ => ?_)
  refine Tri.bind (Q := T) ?_ (fun _ _ => ?_)
  · tri_same
  refine Tri.bind (Tri.execInstr instr) (fun _ _ => ?_)
  tri_same

theorem Tri.stepInner : Tri Sim.stepInner T := by
  intro s hs
  unfold TriAt Sim.stepInner
  have h2 : AllInit (afterPoll s) := hs.of_eq rfl rfl rfl
  simp only
  cases (s.dev.pollInterrupt).1 with
  | none => exact Tri.fetchExec _ h2
  | some i =>
    cases i with
    | external tag => exact ⟨h2, fun e he => by cases he; rfl, fun _ h => by cases h⟩
    | vectored vect prio =>
      simp only
      by_cases hp : prio > PSR.priority (afterPoll s).psr
      · simp only [hp, if_true]; exact Tri.handleInterrupt _ _ _ h2
      · simp only [hp, if_false]; exact Tri.fetchExec _ h2

/-- **an all-initialised machine never sees a strict error**: if every memory word, every register and the saved stack
    pointer are initialised, one `step` (in any mode: strict or not, real or virtual traps) leaves the machine
    all-initialised and does not end with a strict (uninitialised-value) error -/
theorem step_all_init (s : Sim) (hs : AllInit s) : AllInit (Sim.step s).2 ∧ NoStrict (Sim.step s).1 := by
  obtain ⟨h1, h2, _⟩ := Tri.stepInner s hs
  unfold Sim.step
  rcases hst : Sim.stepInner s with ⟨r, s'⟩
  rw [hst] at h1 h2
  simp only at h1 h2 ⊢
  by_cases hrt : (!s'.flags.realTraps) = true
  · simp only [hrt, if_true]; exact ⟨h1, h2⟩
  · simp only [hrt, if_false, Bool.false_eq_true]
    have hh : ∀ v, AllInit (Sim.handleInterrupt v none s').2 ∧ NoStrict (Sim.handleInterrupt v none s').1 :=
      fun v => ⟨(Tri.handleInterrupt v none s' h1).1, (Tri.handleInterrupt v none s' h1).2.1⟩
    cases r with
    | ok u => exact ⟨h1, h2⟩
    | error b =>
      cases b with
      | halt => exact hh _
      | err e => cases e <;> first | exact hh _ | exact ⟨h1, h2⟩

end Lc3V
