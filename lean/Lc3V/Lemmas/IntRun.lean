/- Lemmas/IntRun.lean — C10's third sentence at the level of whole runs (namespace Lc3V.NI).  `Eqv G s1 s2`: two user-mode,
   non-strict, virtual-trap states with the same registers, PC, PSR, flags and the same memory outside `G` (`G` outside user
   space); devices, supervisor stack pointer and bookkeeping may differ.  A relational calculus (`Rel2`: the same computation on
   equivalent states gives the same result and equivalent states; closed under bind; `Rel2.readMem` / `Rel2.writeMem`: a
   user-mode access outside user space is refused on both sides, inside it touches the same word) shows that every
   instruction other than TRAP respects `Eqv` (`Rel2.execInstr`), hence `step_eqv`.  `interrupt_gives_eqv`: an interrupt
   taken from user mode whose handler restores what it uses leaves an equivalent state (from `Rt.interrupt_transparent`;
   the user's R6 comes back as a whole word through the RTI's stack switch).  `interrupted_run_eqv`: any number of such
   interrupts at any instruction boundaries of a program of non-TRAP instructions — the run ends equivalent to the
   uninterrupted run; `interrupted_run_user`: same registers, PC, PSR, flags and all of user memory. -/
import Lc3V.Lemmas.SimM
import Lc3V.Lemmas.InitInv
import Lc3V.Lemmas.Psr
import Lc3V.Lemmas.IntTransparent
set_option linter.unusedSimpArgs false
set_option linter.unusedVariables false
namespace Lc3V.NI
open Lc3V Sim SimM

/-- two machine states that a user-mode program cannot tell apart: same registers, PC, PSR, flags, internal registers, MCR
    and the same memory outside the cells `G` (which lie outside user space); devices, supervisor stack pointer and the
    bookkeeping fields (frames, observer, log, counters) may differ.  Both are in user mode, non-strict. -/
structure Eqv (G : W → Bool) (s1 s2 : Sim) : Prop where
  user : PSR.privileged s1.psr = false
  nip : s1.flags.ignorePriv = false
  ns : s1.flags.strict = false
  vt : s1.flags.realTraps = false
  psr : s1.psr = s2.psr
  pc : s1.pc = s2.pc
  regs : s1.regs = s2.regs
  flags : s1.flags = s2.flags
  mem : ∀ a, G a = false → s1.memAt a = s2.memAt a

theorem Eqv.reg {G : W → Bool} {s1 s2 : Sim} (h : Eqv G s1 s2) (r : Reg) : s1.reg r = s2.reg r := by
  unfold Sim.reg; rw [h.regs]

theorem Eqv.ctx {G : W → Bool} {s1 s2 : Sim} (h : Eqv G s1 s2) : s1.defaultCtx = s2.defaultCtx := by
  unfold Sim.defaultCtx; rw [h.psr, h.flags]

theorem Eqv.ctx_user {G : W → Bool} {s1 s2 : Sim} (h : Eqv G s1 s2) : s1.defaultCtx.privileged = false := by
  simp [Sim.defaultCtx, h.user, h.nip]

/-- outcome of the same computation on two equivalent states -/
def Out2 (G : W → Bool) {α} (o1 o2 : Except StepBreak α × Sim) : Prop := o1.1 = o2.1 ∧ Eqv G o1.2 o2.2

def Rel2 (G : W → Bool) {α} (m : SimM α) : Prop := ∀ s1 s2, Eqv G s1 s2 → Out2 G (m s1) (m s2)

variable {G : W → Bool}

theorem Rel2.bind {α β} {m : SimM α} {f : α → SimM β} (h : Rel2 G m) (hf : ∀ a, Rel2 G (f a)) : Rel2 G (m >>= f) := by
  intro s1 s2 he
  obtain ⟨h1, h2⟩ := h s1 s2 he
  simp only [SimM.bind_apply]
  rcases e1 : m s1 with ⟨r1, t1⟩
  rcases e2 : m s2 with ⟨r2, t2⟩
  rw [e1, e2] at h1 h2
  simp only at h1 h2
  subst h1
  cases r1 with
  | ok a => exact hf a t1 t2 h2
  | error e => exact ⟨rfl, h2⟩

theorem Rel2.pure {α} (a : α) : Rel2 G (Pure.pure a : SimM α) := fun _ _ h => ⟨rfl, h⟩
theorem Rel2.throwErr {α} (e : SimErr) : Rel2 G (SimM.throwErr e : SimM α) := fun _ _ h => ⟨rfl, h⟩
theorem Rel2.throwB {α} (b : StepBreak) : Rel2 G (SimM.throwB b : SimM α) := fun _ _ h => ⟨rfl, h⟩
theorem Rel2.liftE {α} (x : Except SimErr α) : Rel2 G (SimM.liftE x) := by
  intro s1 s2 h; cases x <;> exact ⟨rfl, h⟩

theorem Rel2.getS {β} {f : Sim → SimM β} (h : ∀ s1 s2, Eqv G s1 s2 → Out2 G (f s1 s1) (f s2 s2)) : Rel2 G (SimM.getS >>= f) := by
  intro s1 s2 he
  simp only [SimM.bind_apply, SimM.getS_apply]
  exact h s1 s2 he

theorem Rel2.modify (g : Sim → Sim) (h : ∀ s1 s2, Eqv G s1 s2 → Eqv G (g s1) (g s2)) : Rel2 G (modifyS g) := by
  intro s1 s2 he
  simp only [SimM.modifyS_apply]
  exact ⟨rfl, h s1 s2 he⟩

end Lc3V.NI

namespace Lc3V.NI
open Lc3V Sim SimM

variable {G : W → Bool}

/-- `G` lies outside user space -/
def Outside (G : W → Bool) : Prop := ∀ a, G a = true → inUser a = false

theorem user_not_io (a : W) (h : inUser a = true) : ¬ IO_START ≤ a.toNat := by
  unfold inUser at h; unfold IO_START
  simp only [Bool.and_eq_true, decide_eq_true_eq] at h
  omega

/-- a field update that does not touch what `Eqv` looks at -/
theorem Eqv.of_same {s1 s2 t1 t2 : Sim} (h : Eqv G s1 s2)
    (a1 : t1.psr = s1.psr) (a2 : t2.psr = s2.psr) (b1 : t1.pc = s1.pc) (b2 : t2.pc = s2.pc)
    (c1 : t1.regs = s1.regs) (c2 : t2.regs = s2.regs) (d1 : t1.flags = s1.flags) (d2 : t2.flags = s2.flags)
    (e1 : t1.mem = s1.mem) (e2 : t2.mem = s2.mem) : Eqv G t1 t2 :=
  ⟨by rw [a1]; exact h.user, by rw [d1]; exact h.nip, by rw [d1]; exact h.ns, by rw [d1]; exact h.vt, by rw [a1, a2]; exact h.psr, by rw [b1, b2]; exact h.pc,
   by rw [c1, c2]; exact h.regs, by rw [d1, d2]; exact h.flags, fun a ha => by unfold Sim.memAt; rw [e1, e2]; exact h.mem a ha⟩

macro "eqv_same" he:term : tactic =>
  `(tactic| exact ⟨($he).user, ($he).nip, ($he).ns, ($he).vt, ($he).psr, ($he).pc, ($he).regs, ($he).flags, ($he).mem⟩)

/-- a user-mode read: refused outside user space, otherwise the same word on both sides -/
theorem Rel2.readMem (hG : Outside G) (a : W) (c : Ctx) (hc : c.privileged = false) : Rel2 G (Sim.readMem a c) := by
  intro s1 s2 he
  unfold Sim.readMem
  by_cases hu : inUser a = true
  · have hio := user_not_io a hu
    have hg : G a = false := by
      cases hga : G a with
      | false => rfl
      | true => have := hG a hga; rw [hu] at this; cases this
    simp only [hc, hu, Bool.not_false, Bool.not_true, Bool.and_false, Bool.false_eq_true, if_false, hio]
    by_cases ht : c.track = true
    · simp only [ht, if_true]
      refine ⟨?_, ?_⟩
      · simp only [Except.ok.injEq]; exact he.mem a hg
      · eqv_same he
    · simp only [ht, if_false, Bool.false_eq_true]
      refine ⟨?_, ?_⟩
      · simp only [Except.ok.injEq]; exact he.mem a hg
      · eqv_same he
  · have hu' : inUser a = false := by simpa using hu
    have hcond : (!c.privileged && !inUser a) = true := by rw [hc, hu']; rfl
    rw [if_pos hcond, if_pos hcond]
    refine ⟨rfl, ?_⟩
    eqv_same he

theorem Eqv.setMem {s1 s2 : Sim} (h : Eqv G s1 s2) (a : W) (w : Word) : Eqv G (s1.setMem a w) (s2.setMem a w) :=
  ⟨h.user, h.nip, h.ns, h.vt, h.psr, h.pc, h.regs, h.flags, fun b hb => by
    rw [Sim.memAt_setMem, Sim.memAt_setMem]
    by_cases e : a = b
    · rw [if_pos e, if_pos e]
    · rw [if_neg e, if_neg e]; exact h.mem b hb⟩

/-- a user-mode store (non-strict): refused outside user space, otherwise the same cell gets the same word -/
theorem Rel2.writeMem (a : W) (d : Word) (c : Ctx) (hc : c.privileged = false) (hs : c.strict = false) : Rel2 G (Sim.writeMem a d c) := by
  intro s1 s2 he
  unfold Sim.writeMem
  by_cases hu : inUser a = true
  · have hio := user_not_io a hu
    simp only [hc, hu, Bool.not_false, Bool.not_true, Bool.and_false, Bool.false_eq_true, if_false, ioWritePart, hio, storePart, hs,
      Word.setIfInit, Bool.true_or, if_true]
    by_cases ht : c.track = true
    · simp only [ht, if_true]
      refine ⟨rfl, ?_⟩
      exact Eqv.setMem (s1 := { s1 with log := _, observer := _ }) (s2 := { s2 with log := _, observer := _ }) (by eqv_same he) a d
    · simp only [ht, if_false, Bool.false_eq_true]
      refine ⟨rfl, ?_⟩
      exact Eqv.setMem (s1 := { s1 with log := _ }) (s2 := { s2 with log := _ }) (by eqv_same he) a d
  · have hu' : inUser a = false := by simpa using hu
    have hcond : (!c.privileged && !inUser a) = true := by rw [hc, hu']; rfl
    rw [if_pos hcond, if_pos hcond]
    refine ⟨rfl, ?_⟩
    eqv_same he

end Lc3V.NI

namespace Lc3V.NI
open Lc3V Sim SimM

variable {G : W → Bool}

theorem Eqv.withPc {s1 s2 : Sim} (h : Eqv G s1 s2) (x : W) : Eqv G { s1 with pc := x } { s2 with pc := x } :=
  ⟨h.user, h.nip, h.ns, h.vt, h.psr, rfl, h.regs, h.flags, h.mem⟩

theorem Eqv.withReg {s1 s2 : Sim} (h : Eqv G s1 s2) (r : Reg) (w : Word) : Eqv G (s1.setReg r w) (s2.setReg r w) :=
  ⟨h.user, h.nip, h.ns, h.vt, h.psr, h.pc, by show s1.regs.set r.toNat w r.isLt = s2.regs.set r.toNat w r.isLt; rw [h.regs], h.flags, h.mem⟩

theorem Eqv.withCC {s1 s2 : Sim} (h : Eqv G s1 s2) (v : W) : Eqv G (s1.setCCOf v) (s2.setCCOf v) :=
  ⟨by show PSR.privileged (PSR.setCC _ _) = false; rw [PSR.privileged_setCC]; exact h.user, h.nip, h.ns, h.vt,
   by show PSR.setCC s1.psr _ = PSR.setCC s2.psr _; rw [h.psr], h.pc, h.regs, h.flags, h.mem⟩

theorem Rel2.setPc (w : Word) (chk : Bool) : Rel2 G (Sim.setPc w chk) := by
  intro s1 s2 he
  unfold Sim.setPc
  have h2 : s2.flags.strict = false := by rw [← he.flags]; exact he.ns
  simp only [SimM.bind_apply, SimM.getS_apply, he.ns, h2, Word.getIfInit, Bool.not_false, Bool.true_or, if_true, SimM.liftE_ok,
    Bool.false_and, Bool.false_eq_true, if_false, SimM.pure_apply, SimM.modifyS_apply]
  exact ⟨rfl, he.withPc _⟩

theorem Rel2.offsetPc (off : W) (chk : Bool) : Rel2 G (Sim.offsetPc off chk) := by
  unfold Sim.offsetPc
  apply Rel2.getS
  intro s1 s2 he
  rw [he.pc]
  exact Rel2.setPc _ _ s1 s2 he

theorem Rel2.setRegIfInit (r : Reg) (v : Word) (b : Bool) (hb : b = false) : Rel2 G (Sim.setRegIfInit r v b) := by
  subst hb
  unfold Sim.setRegIfInit
  apply Rel2.getS
  intro s1 s2 he
  simp only [Word.setIfInit, Bool.not_false, Bool.true_or, if_true, SimM.bind_apply, SimM.liftE_ok, SimM.modifyS_apply]
  exact ⟨rfl, he.withReg r v⟩

/-- bookkeeping-only updates -/
theorem Rel2.bookkeeping (g : Sim → Sim) (h1 : ∀ s, (g s).psr = s.psr) (h2 : ∀ s, (g s).pc = s.pc) (h3 : ∀ s, (g s).regs = s.regs)
    (h4 : ∀ s, (g s).flags = s.flags) (h5 : ∀ s, (g s).mem = s.mem) : Rel2 G (modifyS g) :=
  Rel2.modify g (fun s1 s2 he => he.of_same (h1 s1) (h1 s2) (h2 s1) (h2 s2) (h3 s1) (h3 s2) (h4 s1) (h4 s2) (h5 s1) (h5 s2))

theorem Rel2.callSubroutine (addr : W) : Rel2 G (Sim.callSubroutine addr) := by
  unfold Sim.callSubroutine
  refine Rel2.bind (Rel2.modify _ (fun s1 s2 he => ?_)) (fun _ => ?_)
  · have := he.withReg R7 ((s1.reg R7).set s1.pc)
    rw [← he.reg R7, ← he.pc]
    exact this
  · refine Rel2.bind (Rel2.bookkeeping _ (fun _ => rfl) (fun _ => rfl) (fun _ => rfl) (fun _ => rfl) (fun _ => rfl)) (fun _ => ?_)
    exact Rel2.setPc _ _

end Lc3V.NI

namespace Lc3V.NI
open Lc3V Sim SimM

variable {G : W → Bool}

theorem Eqv.operand2 {s1 s2 : Sim} (h : Eqv G s1 s2) (o : ImmOrReg 5) : s1.operand2 o = s2.operand2 o := by
  cases o with
  | imm v => rfl
  | reg r => exact h.reg r

theorem Eqv.ns2 {s1 s2 : Sim} (h : Eqv G s1 s2) : s2.flags.strict = false := by rw [← h.flags]; exact h.ns

theorem Rel2.popFrame : Rel2 G (modifyS Sim.popFrame) :=
  Rel2.bookkeeping _ (fun _ => rfl) (fun _ => rfl) (fun _ => rfl) (fun _ => rfl) (fun _ => rfl)

theorem Rel2.setCC (v : W) : Rel2 G (modifyS (fun s => s.setCCOf v)) := Rel2.modify _ (fun _ _ he => he.withCC v)

/-- **every instruction other than TRAP, executed in user mode (non-strict), cannot tell equivalent states apart** -/
theorem Rel2.execInstr (hG : Outside G) (i : SimInstr) (hnt : ∀ v, i ≠ .trap v) : Rel2 G (Sim.execInstr i) := by
  cases i with
  | br cc off =>
    simp only [Sim.execInstr]
    apply Rel2.getS; intro s1 s2 he
    rw [← he.psr]
    by_cases hc : (cc.setWidth 16 &&& PSR.cc s1.psr) ≠ 0
    · rw [if_pos hc]; exact Rel2.offsetPc _ _ s1 s2 he
    · rw [if_neg hc]; exact Rel2.pure _ s1 s2 he
  | add dr sr1 sr2 =>
    simp only [Sim.execInstr]
    apply Rel2.getS; intro s1 s2 he
    rw [← he.reg, ← he.operand2, he.ns2, he.ns]
    exact (Rel2.bind (Rel2.setRegIfInit _ _ _ rfl) (fun _ => Rel2.setCC _)) s1 s2 he
  | and dr sr1 sr2 =>
    simp only [Sim.execInstr]
    apply Rel2.getS; intro s1 s2 he
    rw [← he.reg, ← he.operand2, he.ns2, he.ns]
    exact (Rel2.bind (Rel2.setRegIfInit _ _ _ rfl) (fun _ => Rel2.setCC _)) s1 s2 he
  | not dr sr =>
    simp only [Sim.execInstr]
    apply Rel2.getS; intro s1 s2 he
    rw [← he.reg, he.ns2, he.ns]
    exact (Rel2.bind (Rel2.setRegIfInit _ _ _ rfl) (fun _ => Rel2.setCC _)) s1 s2 he
  | ld dr off =>
    simp only [Sim.execInstr]
    apply Rel2.getS; intro s1 s2 he
    rw [← he.pc, ← he.ctx, he.ns2, he.ns]
    simp only [Bool.false_and]
    exact (Rel2.bind (Rel2.readMem hG _ _ he.ctx_user) (fun v => Rel2.bind (Rel2.setRegIfInit _ _ _ rfl) (fun _ => Rel2.setCC _))) s1 s2 he
  | ldr dr b off =>
    simp only [Sim.execInstr]
    apply Rel2.getS; intro s1 s2 he
    rw [← he.reg, ← he.ctx, he.ns2, he.ns]
    simp only [Bool.false_and]
    exact (Rel2.bind (Rel2.liftE _) (fun base =>
      Rel2.bind (Rel2.readMem hG _ _ he.ctx_user) (fun v => Rel2.bind (Rel2.setRegIfInit _ _ _ rfl) (fun _ => Rel2.setCC _)))) s1 s2 he
  | ldi dr off =>
    simp only [Sim.execInstr]
    apply Rel2.getS; intro s1 s2 he
    rw [← he.pc, ← he.ctx, he.ns2, he.ns]
    refine (Rel2.bind (Rel2.readMem hG _ _ he.ctx_user) (fun pw => Rel2.bind (Rel2.liftE _) (fun ea => ?_))) s1 s2 he
    apply Rel2.getS; intro t1 t2 ht
    rw [← ht.ctx]
    simp only [Bool.false_and]
    exact (Rel2.bind (Rel2.readMem hG _ _ ht.ctx_user) (fun v => Rel2.bind (Rel2.setRegIfInit _ _ _ rfl) (fun _ => Rel2.setCC _))) t1 t2 ht
  | st sr off =>
    simp only [Sim.execInstr]
    apply Rel2.getS; intro s1 s2 he
    rw [← he.pc, ← he.reg, ← he.ctx, he.ns2, he.ns]
    simp only [Bool.false_and]
    exact Rel2.writeMem _ _ _ (by simp [Sim.defaultCtx, he.user, he.nip]) (by simp) s1 s2 he
  | str sr b off =>
    simp only [Sim.execInstr]
    apply Rel2.getS; intro s1 s2 he
    rw [← he.reg, ← he.reg, ← he.ctx, he.ns2, he.ns]
    simp only [Bool.false_and]
    exact (Rel2.bind (Rel2.liftE _) (fun base => Rel2.writeMem _ _ _ (by simp [Sim.defaultCtx, he.user, he.nip]) (by simp))) s1 s2 he
  | sti sr off =>
    simp only [Sim.execInstr]
    apply Rel2.getS; intro s1 s2 he
    rw [← he.pc, ← he.ctx, he.ns2, he.ns]
    refine (Rel2.bind (Rel2.readMem hG _ _ he.ctx_user) (fun pw => Rel2.bind (Rel2.liftE _) (fun ea => ?_))) s1 s2 he
    apply Rel2.getS; intro t1 t2 ht
    rw [← ht.ctx, ← ht.reg]
    simp only [Bool.false_and]
    exact Rel2.writeMem _ _ _ (by simp [Sim.defaultCtx, ht.user, ht.nip]) (by simp) t1 t2 ht
  | jsr op =>
    simp only [Sim.execInstr]
    apply Rel2.getS; intro s1 s2 he
    rw [← he.pc, he.ns2, he.ns]
    cases op with
    | imm off => exact (Rel2.bind (Rel2.liftE _) (fun addr => Rel2.callSubroutine addr)) s1 s2 he
    | reg b => simp only []; rw [← he.reg]; exact (Rel2.bind (Rel2.liftE _) (fun addr => Rel2.callSubroutine addr)) s1 s2 he
  | jmp b =>
    simp only [Sim.execInstr]
    apply Rel2.getS; intro s1 s2 he
    rw [← he.reg]
    refine (Rel2.bind (Rel2.setPc _ _) (fun _ => ?_)) s1 s2 he
    by_cases hb : b = R7
    · simp only [hb, if_true]; exact Rel2.popFrame
    · simp only [hb, if_false]; exact Rel2.pure _
  | lea dr off =>
    simp only [Sim.execInstr]
    apply Rel2.getS; intro s1 s2 he
    refine Rel2.modify _ (fun t1 t2 ht => ?_) s1 s2 he
    have := ht.withReg dr ((t1.reg dr).set (t1.pc + IOff.get off))
    rw [← ht.reg dr, ← ht.pc]; exact this
  | trap v => exact absurd rfl (hnt v)
  | rti =>
    simp only [Sim.execInstr]
    apply Rel2.getS; intro s1 s2 he
    have h1 : (PSR.privileged s1.psr || s1.flags.ignorePriv) = false := by rw [he.user, he.nip]; rfl
    have h2 : (PSR.privileged s2.psr || s2.flags.ignorePriv) = false := by rw [← he.psr, ← he.flags]; exact h1
    simp only [h1, h2, Bool.false_eq_true, if_false]
    exact Rel2.throwErr _ s1 s2 he

end Lc3V.NI

namespace Lc3V.NI
open Lc3V Sim SimM

variable {G : W → Bool}

theorem out2_bind' {α β} (m : SimM α) (f : α → SimM β) (s1 s2 : Sim) (h : Out2 G (m s1) (m s2))
    (hf : ∀ a t1 t2, m s1 = (.ok a, t1) → Eqv G t1 t2 → Out2 G (f a t1) (f a t2)) : Out2 G ((m >>= f) s1) ((m >>= f) s2) := by
  obtain ⟨h1, h2⟩ := h
  simp only [SimM.bind_apply]
  rcases e1 : m s1 with ⟨r1, t1⟩
  rcases e2 : m s2 with ⟨r2, t2⟩
  rw [e1, e2] at h1 h2
  simp only at h1 h2
  subst h1
  cases r1 with
  | ok a => exact hf a t1 t2 e1 h2
  | error e => exact ⟨rfl, h2⟩

/-- the instruction about to be fetched is not a TRAP -/
def NoTrapNext (s : Sim) : Prop :=
  ∀ w t, Sim.readMem s.pc s.defaultCtx s = (.ok w, t) → ∀ v, SimInstr.decode w.data ≠ .ok (.trap v)

/-- what follows the decoding of an instruction -/
def tailOf (instr : SimInstr) : SimM Unit :=
  Sim.offsetPc 1 false >>= fun _ => modifyS (fun s => { s with prefetch := false }) >>= fun _ =>
    Sim.execInstr instr >>= fun _ => modifyS Sim.countInstr

theorem Rel2.tailOf (hG : Outside G) (instr : SimInstr) (hni : ∀ v, instr ≠ .trap v) : Rel2 G (tailOf instr) :=
  Rel2.bind (Rel2.offsetPc 1 false) (fun _ =>
    Rel2.bind (Rel2.bookkeeping _ (fun _ => rfl) (fun _ => rfl) (fun _ => rfl) (fun _ => rfl) (fun _ => rfl)) (fun _ =>
    Rel2.bind (Rel2.execInstr hG instr hni) (fun _ =>
    Rel2.bookkeeping _ (fun _ => rfl) (fun _ => rfl) (fun _ => rfl) (fun _ => rfl) (fun _ => rfl))))

theorem fetchExec_eq (s : Sim) : Sim.fetchExec s =
    (Sim.readMem s.pc s.defaultCtx >>= fun w => SimM.liftE (w.getIfInit s.flags.strict SimErr.strictPCCurrUninit) >>= fun word =>
      SimM.liftE ((SimInstr.decode word).mapError decodeErr) >>= fun instr => tailOf instr) s := rfl

/-- fetch and execute, on equivalent states -/
theorem fetchExec_eqv (hG : Outside G) (s1 s2 : Sim) (he : Eqv G s1 s2) (hnt : NoTrapNext s1) :
    Out2 G (Sim.fetchExec s1) (Sim.fetchExec s2) := by
  rw [fetchExec_eq, fetchExec_eq, ← he.pc, ← he.ctx, he.ns2, he.ns]
  have hrd := Rel2.readMem hG s1.pc s1.defaultCtx he.ctx_user s1 s2 he
  refine out2_bind' (Sim.readMem s1.pc s1.defaultCtx) _ s1 s2 hrd ?_
  intro w t1 t2 hw ht
  have hgi : w.getIfInit false SimErr.strictPCCurrUninit = .ok w.data := by simp [Word.getIfInit]
  rw [hgi]
  simp only [SimM.bind_apply, SimM.liftE_ok]
  cases hd : SimInstr.decode w.data with
  | error e =>
    simp only [Except.mapError, SimM.liftE_err]
    exact ⟨rfl, ht⟩
  | ok instr =>
    simp only [Except.mapError, SimM.liftE_ok]
    have hni : ∀ v, instr ≠ .trap v := by
      intro v e
      exact hnt w t1 hw v (by rw [hd, e])
    exact Rel2.tailOf hG instr hni t1 t2 ht

theorem Eqv.afterPoll {s1 s2 : Sim} (h : Eqv G s1 s2) : Eqv G (Sim.afterPoll s1) (Sim.afterPoll s2) :=
  ⟨h.user, h.nip, h.ns, h.vt, h.psr, h.pc, h.regs, h.flags, h.mem⟩

/-- **one public step on equivalent states** (virtual traps, no interrupt pending on either side, next instruction not a
    TRAP): the same result, and equivalent states again -/
theorem step_eqv (hG : Outside G) (s1 s2 : Sim) (he : Eqv G s1 s2)
    (q1 : (s1.dev.pollInterrupt).1 = none) (q2 : (s2.dev.pollInterrupt).1 = none) (hnt : NoTrapNext (Sim.afterPoll s1)) :
    Out2 G (Sim.step s1) (Sim.step s2) := by
  have hfe := fetchExec_eqv hG _ _ he.afterPoll hnt
  have hi1 : Sim.stepInner s1 = Sim.fetchExec (Sim.afterPoll s1) := by unfold Sim.stepInner; simp only [q1]
  have hi2 : Sim.stepInner s2 = Sim.fetchExec (Sim.afterPoll s2) := by unfold Sim.stepInner; simp only [q2]
  unfold Sim.step
  rw [hi1, hi2]
  obtain ⟨h1, h2⟩ := hfe
  rcases e1 : Sim.fetchExec (Sim.afterPoll s1) with ⟨r1, t1⟩
  rcases e2 : Sim.fetchExec (Sim.afterPoll s2) with ⟨r2, t2⟩
  rw [e1, e2] at h1 h2
  simp only at h1 h2 ⊢
  subst h1
  have f1 : t1.flags.realTraps = false := h2.vt
  have f2 : t2.flags.realTraps = false := by rw [← h2.flags]; exact f1
  simp only [f1, f2, Bool.not_false, if_true]
  exact ⟨rfl, h2⟩

end Lc3V.NI

namespace Lc3V.NI
open Lc3V Sim SimM

variable {G : W → Bool}

theorem Eqv.symm {s1 s2 : Sim} (h : Eqv G s1 s2) : Eqv G s2 s1 :=
  ⟨by rw [← h.psr]; exact h.user, by rw [← h.flags]; exact h.nip, by rw [← h.flags]; exact h.ns, by rw [← h.flags]; exact h.vt,
   h.psr.symm, h.pc.symm, h.regs.symm, h.flags.symm, fun a ha => (h.mem a ha).symm⟩

theorem Eqv.trans {s1 s2 s3 : Sim} (h : Eqv G s1 s2) (h' : Eqv G s2 s3) : Eqv G s1 s3 :=
  ⟨h.user, h.nip, h.ns, h.vt, h.psr.trans h'.psr, h.pc.trans h'.pc, h.regs.trans h'.regs, h.flags.trans h'.flags,
   fun a ha => (h.mem a ha).trans (h'.mem a ha)⟩

/-- a run of `n` program instructions during which interrupts may be taken at instruction boundaries: a program step
    (no interrupt pending, the instruction is not a TRAP), or an interrupt whose handler returns to an equivalent state -/
inductive IRun (G : W → Bool) : Sim → Nat → Sim → Prop
  | done (s : Sim) : IRun G s 0 s
  | user (s t u : Sim) (n : Nat) : (s.dev.pollInterrupt).1 = none → NoTrapNext (Sim.afterPoll s) → Sim.step s = (.ok (), t) →
      IRun G t n u → IRun G s (n + 1) u
  | intr (s f u : Sim) (n : Nat) : Eqv G s f → IRun G f n u → IRun G s n u

/-- the same program on a machine whose devices never interrupt -/
inductive URun : Sim → Nat → Sim → Prop
  | done (s : Sim) : URun s 0 s
  | step (s t u : Sim) (n : Nat) : (s.dev.pollInterrupt).1 = none → Sim.step s = (.ok (), t) → URun t n u → URun s (n + 1) u

/-- **interrupts whose handlers restore what they use are invisible to the interrupted program, however many are taken and
    wherever**: a user-mode program of non-TRAP instructions (non-strict, virtual traps) interrupted any number of times at
    instruction boundaries ends, after its `n` instructions, in a state equivalent to the one the uninterrupted run ends
    in — same registers, PC, PSR (condition codes), flags and memory outside `G` (the supervisor-stack cells and what the
    handlers may clobber, all outside user space) -/
theorem interrupted_run_eqv (hG : Outside G) : ∀ (s : Sim) (n : Nat) (t : Sim), IRun G s n t →
    ∀ u v, Eqv G s u → URun u n v → Eqv G t v := by
  intro s n t h
  induction h with
  | done s => intro u v he hu; cases hu; exact he
  | user s t' u' n q hnt hst _ ih =>
    intro u v he hu
    cases hu with
    | step _ u1 _ _ q2 hst2 hrest =>
      have ho := step_eqv hG s u he q q2 hnt
      rw [hst, hst2] at ho
      exact ih u1 v ho.2 hrest
  | intr s f u' n hj _ ih =>
    intro u v he hu
    exact ih u v (hj.symm.trans he) hu

/-- and if the uninterrupted program faults at its next instruction, so does the interrupted one, with the same error -/
theorem interrupted_fault_same (hG : Outside G) (s u : Sim) (he : Eqv G s u) (q1 : (s.dev.pollInterrupt).1 = none)
    (q2 : (u.dev.pollInterrupt).1 = none) (hnt : NoTrapNext (Sim.afterPoll s)) : (Sim.step s).1 = (Sim.step u).1 :=
  (step_eqv hG s u he q1 q2 hnt).1

end Lc3V.NI

namespace Lc3V.NI
open Lc3V Sim SimM Rt C10

/-- what an interrupt taken in state `s` may leave different: the I/O page, the two supervisor-stack cells of the entry,
    and what the handler is allowed to clobber (`Eb`) -/
def gOf (s : Sim) (Eb : W → Bool) : W → Bool :=
  fun a => decide (IO_START ≤ a.toNat) || a == entrySp s - 1 || a == entrySp s - 2 || Eb a

theorem regs_ext (s f : Sim) (h : ∀ r : Reg, f.reg r = s.reg r) : f.regs = s.regs := by
  apply Vector.ext
  intro i hi
  have := h (BitVec.ofNat 3 i)
  simp only [Sim.reg] at this
  have hm : (BitVec.ofNat 3 i).toNat = i := by simp [BitVec.toNat_ofNat]; omega
  simpa only [hm] using this

/-- **an interrupt taken from user mode, with a handler that restores what it uses, leaves an equivalent state**: the
    premise of `interrupted_run_eqv`, from `Rt.interrupt_transparent` (the user's R6 is put back as a whole word by the
    final RTI's stack switch) -/
theorem interrupt_gives_eqv {Q : DevHandler → Prop} (QS : QuietSet Q) (s : Sim) (v : BitVec 8) (p : Nat) (Eb : W → Bool) (k : Nat) (t x : Sim)
    (hs : s.flags.strict = false) (huser : PSR.privileged s.psr = false) (hnip : s.flags.ignorePriv = false)
    (hvt : s.flags.realTraps = false) (hgate : p > PSR.priority s.psr)
    (hvirt : realIntVect (0x100 + v.setWidth 16) = none)
    (h1 : (entrySp s - 1).toNat < IO_START) (h2 : (entrySp s - 2).toNat < IO_START)
    (hx : handleInterrupt (0x100 + v.setWidth 16) (some p) s = (.ok (), x))
    (ft : feN k x = (.ok (), t)) (tns : t.flags.strict = false) (tsup : PSR.privileged t.psr = true) (tl : t.pc.toNat < IO_START)
    (hdr : SimInstr.decode (t.memAt t.pc).data = .ok .rti) (tr6 : (t.reg R6).data = (x.reg R6).data)
    (tro : ∀ r, r ≠ R6 → t.reg r = x.reg r) (tctl : ctl t = ctl x)
    (tmem : ∀ a : W, a.toNat < IO_START → Eb a = false → t.memAt a = x.memAt a)
    (hE1 : Eb (entrySp s - 1) = false) (hE2 : Eb (entrySp s - 2) = false) (q_t : Q t.dev) :
    ∃ f, feN (k + 1) x = (.ok (), f) ∧ Eqv (gOf s Eb) s f := by
  obtain ⟨x', hx', _, _, _, hcont⟩ := interrupt_transparent QS s v p (fun a => Eb a = true) k t hs hgate (Or.inl hvirt) h1 h2
  rw [hx] at hx'
  injection hx' with _ hxx
  subst hxx
  obtain ⟨f, hf, hret, _⟩ := hcont ft tns tsup tl hdr tr6 tro tctl
    (fun a ha hne => tmem a ha (by simpa using hne)) (fun h => by rw [hE1] at h; cases h) (fun h => by rw [hE2] at h; cases h) q_t
  refine ⟨f, hf, ?_⟩
  -- the entry facts
  have hv : (0x100 + v.setWidth 16 : W).toNat < IO_START := by
    have := v.isLt
    have e : (0x100 + v.setWidth 16 : W).toNat = 256 + v.toNat := by
      have h0 : (0x100 : W).toNat = 256 := rfl
      simp only [BitVec.toNat_add, BitVec.toNat_setWidth, h0]; omega
    rw [e]; unfold IO_START; omega
  obtain ⟨x0, he, m2, m1, mo, r6, ro, _, _, _, _, _, hss, _, _, _, _⟩ := C10.entry s (0x100 + v.setWidth 16) (some p) hs h1 h2 hv
  have hx0 : handleInterrupt (0x100 + v.setWidth 16) (some p) s = (.ok (), x0) := by
    rw [C08.handle_structure]
    have hg : s.gated (some p) = false := by simp [gated]; omega
    simp only [hg, Bool.false_eq_true, if_false, hvirt, he]
    split <;> rfl
  rw [hx] at hx0
  injection hx0 with _ hxx
  subst hxx
  -- the closing RTI
  have e1 : (t.reg R6).data + 1 = entrySp s - 1 := by rw [tr6, r6]; bv_omega
  obtain ⟨f', hst, _, _, _, _, _, fu, _⟩ := step_rti QS t q_t tns tsup tl hdr (by rw [tr6, r6]; exact h2) (by rw [e1]; exact h1)
  have hff : f' = f := by
    have h' : feN (k + 1) x = feN 1 t := feN_add k 1 ft
    rw [h', feN_succ 0 hst, feN_zero] at hf
    injection hf with _ h2'
  subst hff
  have hpop : (t.memAt ((t.reg R6).data + 1)).data = s.psr := by
    rw [e1, tmem _ h1 hE1, m1]; rfl
  rw [hpop] at fu
  have tss : t.savedSp = x.savedSp := by have := congrArg (·.2.2.1) tctl; simpa only [ctl] using this
  have hr6 : f'.reg R6 = s.reg R6 := by
    rw [(fu huser).1, tss, hss]; simp [huser]
  refine ⟨huser, hnip, hs, hvt, hret.psr.symm, hret.pc.symm, (regs_ext s f' (fun r => ?_)).symm, hret.flags.symm, fun a ha => ?_⟩
  · by_cases h6 : r = R6
    · rw [h6]; exact hr6
    · exact hret.regs r h6 (fun h => by cases h)
  · simp only [gOf, Bool.or_eq_false_iff, decide_eq_false_iff_not, beq_eq_false_iff_ne] at ha
    obtain ⟨⟨⟨h0, hn1⟩, hn2⟩, hEa⟩ := ha
    exact (hret.mem a (by omega) hn1 hn2 (fun h => by rw [hEa] at h; cases h)).symm

end Lc3V.NI

namespace Lc3V.NI
open Lc3V Sim SimM Rt C10

theorem Eqv.mono {G G' : W → Bool} {s1 s2 : Sim} (h : Eqv G' s1 s2) (hsub : ∀ a, G' a = true → G a = true) : Eqv G s1 s2 :=
  ⟨h.user, h.nip, h.ns, h.vt, h.psr, h.pc, h.regs, h.flags, fun a ha => h.mem a (by
    cases hg : G' a with
    | false => rfl
    | true => rw [hsub a hg] at ha; cases ha)⟩

/-- everything outside user space -/
def GU : W → Bool := fun a => !inUser a

theorem outside_GU : Outside GU := fun a h => by simpa [GU] using h

/-- **C10, third sentence, for user programs**: an interrupt taken from user mode whose handler restores what it uses, with
    the supervisor stack and everything the handler clobbers outside user space, leaves the registers, PC, PSR, flags and
    ALL of user memory as they were -/
theorem interrupt_keeps_user_state {Q : DevHandler → Prop} (QS : QuietSet Q) (s : Sim) (v : BitVec 8) (p : Nat) (Eb : W → Bool) (k : Nat) (t x : Sim)
    (hs : s.flags.strict = false) (huser : PSR.privileged s.psr = false) (hnip : s.flags.ignorePriv = false)
    (hvt : s.flags.realTraps = false) (hgate : p > PSR.priority s.psr)
    (hvirt : realIntVect (0x100 + v.setWidth 16) = none)
    (h1 : (entrySp s - 1).toNat < IO_START) (h2 : (entrySp s - 2).toNat < IO_START)
    (u1 : inUser (entrySp s - 1) = false) (u2 : inUser (entrySp s - 2) = false) (uE : ∀ a, Eb a = true → inUser a = false)
    (hx : handleInterrupt (0x100 + v.setWidth 16) (some p) s = (.ok (), x))
    (ft : feN k x = (.ok (), t)) (tns : t.flags.strict = false) (tsup : PSR.privileged t.psr = true) (tl : t.pc.toNat < IO_START)
    (hdr : SimInstr.decode (t.memAt t.pc).data = .ok .rti) (tr6 : (t.reg R6).data = (x.reg R6).data)
    (tro : ∀ r, r ≠ R6 → t.reg r = x.reg r) (tctl : ctl t = ctl x)
    (tmem : ∀ a : W, a.toNat < IO_START → Eb a = false → t.memAt a = x.memAt a)
    (hE1 : Eb (entrySp s - 1) = false) (hE2 : Eb (entrySp s - 2) = false) (q_t : Q t.dev) :
    ∃ f, feN (k + 1) x = (.ok (), f) ∧ Eqv GU s f := by
  obtain ⟨f, hf, he⟩ := interrupt_gives_eqv QS s v p Eb k t x hs huser hnip hvt hgate hvirt h1 h2 hx ft tns tsup tl hdr tr6 tro tctl tmem hE1 hE2 q_t
  refine ⟨f, hf, he.mono ?_⟩
  intro a ha
  simp only [gOf, Bool.or_eq_true, decide_eq_true_eq, beq_iff_eq] at ha
  simp only [GU, Bool.not_eq_true']
  rcases ha with ((h | h) | h) | h
  · unfold inUser; simp only [Bool.and_eq_false_iff, decide_eq_false_iff_not]; unfold IO_START at h; right; omega
  · rw [h]; exact u1
  · rw [h]; exact u2
  · exact uE a h

/-- **… and so is the whole run**: specialisation of `interrupted_run_eqv` to `GU` — after `n` program instructions the
    interrupted and the uninterrupted run agree on registers, PC, PSR, flags and all of user memory -/
theorem interrupted_run_user (s : Sim) (n : Nat) (t : Sim) (h : IRun GU s n t) (u v : Sim) (he : Eqv GU s u) (hu : URun u n v) :
    t.regs = v.regs ∧ t.pc = v.pc ∧ t.psr = v.psr ∧ t.flags = v.flags ∧ ∀ a, inUser a = true → t.memAt a = v.memAt a := by
  have := interrupted_run_eqv outside_GU s n t h u v he hu
  exact ⟨this.regs, this.pc, this.psr, this.flags, fun a ha => this.mem a (by simp [GU, ha])⟩

theorem Eqv.refl_of (s : Sim) (h1 : PSR.privileged s.psr = false) (h2 : s.flags.ignorePriv = false) (h3 : s.flags.strict = false)
    (h4 : s.flags.realTraps = false) (G : W → Bool) : Eqv G s s :=
  ⟨h1, h2, h3, h4, rfl, rfl, rfl, rfl, fun _ _ => rfl⟩

end Lc3V.NI

namespace Lc3V.NI
open Lc3V Sim SimM Rt C10

/-- two equivalent user-mode states that both run the same OS routine to its return (contracts `Rt.Returned`, as proved for
    GETC, OUT, PUTS, IN, PUTSP) are equivalent afterwards — provided the supervisor stacks and what the routine may clobber
    lie outside user space and, for a routine that delivers a result in R0, both got the same result -/
theorem returned_pair (s u fs fu : Sim) (he : Eqv GU s u) (k : Bool) (E E' : W → Prop)
    (r1 : Returned s fs (s.pc + 1) k E) (r2 : Returned u fu (u.pc + 1) k E')
    (s1 : inUser (entrySp s - 1) = false) (s2 : inUser (entrySp s - 2) = false)
    (u1 : inUser (entrySp u - 1) = false) (u2 : inUser (entrySp u - 2) = false)
    (hE : ∀ a, E a → inUser a = false) (hE' : ∀ a, E' a → inUser a = false)
    (hr0 : k = false → fs.reg 0 = fu.reg 0) : Eqv GU fs fu := by
  have huu : PSR.privileged u.psr = false := by rw [← he.psr]; exact he.user
  refine ⟨by rw [r1.psr]; exact he.user, by rw [r1.flags]; exact he.nip, by rw [r1.flags]; exact he.ns, by rw [r1.flags]; exact he.vt,
    by rw [r1.psr, r2.psr]; exact he.psr, by rw [r1.pc, r2.pc, he.pc], ?_, by rw [r1.flags, r2.flags]; exact he.flags, fun a ha => ?_⟩
  · apply Vector.ext
    intro i hi
    have hm : (BitVec.ofNat 3 i).toNat = i := by simp [BitVec.toNat_ofNat]; omega
    have key : fs.reg (BitVec.ofNat 3 i) = fu.reg (BitVec.ofNat 3 i) := by
      by_cases h6 : (BitVec.ofNat 3 i : Reg) = R6
      · rw [h6, r1.r6user he.user, r2.r6user huu]; exact he.reg R6
      · by_cases h0 : k = false ∧ (BitVec.ofNat 3 i : Reg) = 0
        · rw [h0.2]; exact hr0 h0.1
        · have hh : k = false → (BitVec.ofNat 3 i : Reg) ≠ 0 := fun hk e => h0 ⟨hk, e⟩
          rw [r1.regs _ h6 hh, r2.regs _ h6 hh]; exact he.reg _
    simp only [Sim.reg] at key
    simpa only [hm] using key
  · have hu : inUser a = true := by simpa [GU] using ha
    have hlt : a.toNat < IO_START := by
      unfold inUser at hu; unfold IO_START; simp only [Bool.and_eq_true, decide_eq_true_eq] at hu; omega
    have n1 : ∀ c, inUser c = false → a ≠ c := fun c hc e => by rw [e, hc] at hu; cases hu
    rw [r1.mem a hlt (n1 _ s1) (n1 _ s2) (fun h => by rw [hE a h] at hu; cases hu),
      r2.mem a hlt (n1 _ u1) (n1 _ u2) (fun h => by rw [hE' a h] at hu; cases hu)]
    exact he.mem a ha

/-- two runs of the same program side by side: the left one may be interrupted; both may call OS routines -/
inductive PRun : Sim → Sim → Nat → Sim → Sim → Prop
  | done (s u : Sim) : PRun s u 0 s u
  | step (s u s' u' t v : Sim) (n : Nat) : (s.dev.pollInterrupt).1 = none → (u.dev.pollInterrupt).1 = none →
      NoTrapNext (Sim.afterPoll s) → Sim.step s = (.ok (), s') → Sim.step u = (.ok (), u') → PRun s' u' n t v → PRun s u (n + 1) t v
  | intr (s f u t v : Sim) (n : Nat) : Eqv GU s f → PRun f u n t v → PRun s u n t v
  | trap (s u fs fu t v : Sim) (n : Nat) (k : Bool) (E E' : W → Prop) :
      Returned s fs (s.pc + 1) k E → Returned u fu (u.pc + 1) k E' →
      inUser (entrySp s - 1) = false → inUser (entrySp s - 2) = false → inUser (entrySp u - 1) = false → inUser (entrySp u - 2) = false →
      (∀ a, E a → inUser a = false) → (∀ a, E' a → inUser a = false) → (k = false → fs.reg 0 = fu.reg 0) →
      PRun fs fu n t v → PRun s u (n + 1) t v

/-- **interrupts are invisible to programs that also call the OS**: side by side, the interrupted and the uninterrupted run
    of a user program (non-TRAP instructions and calls of OS routines that meet their contracts and, where they read input,
    read the same input) stay equivalent — same registers, PC, PSR, flags and user memory at the end -/
theorem paired_run_eqv : ∀ (s u : Sim) (n : Nat) (t v : Sim), PRun s u n t v → Eqv GU s u → Eqv GU t v := by
  intro s u n t v h
  induction h with
  | done s u => exact fun he => he
  | step s u s' u' t v n q1 q2 hnt h1 h2 _ ih =>
    intro he
    have ho := step_eqv outside_GU s u he q1 q2 hnt
    rw [h1, h2] at ho
    exact ih ho.2
  | intr s f u t v n hj _ ih => exact fun he => ih (hj.symm.trans he)
  | trap s u fs fu t v n k E E' r1 r2 a1 a2 b1 b2 hE hE' hr0 _ ih =>
    exact fun he => ih (returned_pair s u fs fu he k E E' r1 r2 a1 a2 b1 b2 hE hE' hr0)

end Lc3V.NI
