/- Lemmas/IntTransparent.lean — C10's transparency statement as one theorem: an interrupt taken at an instruction boundary
   whose handler (any code, OS or user-installed) leaves R6's value, the other registers, the control state and memory
   as it found them and returns with RTI is invisible to the interrupted program (`interrupt_transparent`), from
   `C10.entry`, `step_rti` and the frame bookkeeping of `Lemmas/OsRoutines` (`Returned`). -/
import Lc3V.Lemmas.OsRoutines
namespace Lc3V.Rt
open Lc3V Sim SimM SimInstr C10

/-- `return_from` without the OS-image hypothesis: any handler (OS or user-installed) whose body kept R6, the saved SP and
    the two stack cells of its entry, ending in an RTI fetched from plain memory -/
theorem handler_returns {Q : DevHandler → Prop} (QS : QuietSet Q) (s x t : Sim) (q_t : Q t.dev) (ret : W) (keepR0 : Bool) (E : W → Prop)
    (h1 : (entrySp s - 1).toNat < IO_START) (h2 : (entrySp s - 2).toNat < IO_START)
    (m2 : x.memAt (entrySp s - 2) = Word.ofData ret) (m1 : x.memAt (entrySp s - 1) = Word.ofData s.psr)
    (mo : ∀ a, a ≠ entrySp s - 1 → a ≠ entrySp s - 2 → x.memAt a = s.memAt a)
    (r6 : (x.reg R6).data = entrySp s - 2) (ro : ∀ r, r ≠ R6 → x.reg r = s.reg r)
    (hss : x.savedSp = (if PSR.privileged s.psr then s.savedSp else s.reg R6))
    (hfn : x.frameNo = s.frameNo + 1) (hf : x.flags = s.flags) (hir : x.iregs = s.iregs) (hmcr : x.mcr = s.mcr)
    (tns : t.flags.strict = false) (tsup : PSR.privileged t.psr = true)
    (tl : t.pc.toNat < IO_START) (hd : SimInstr.decode (t.memAt t.pc).data = .ok .rti)
    (tr6 : (t.reg R6).data = (x.reg R6).data) (tro : ∀ r, r ≠ R6 → (keepR0 = false → r ≠ 0) → t.reg r = x.reg r)
    (tctl : ctl t = ctl x) (tmem : ∀ a : W, a.toNat < IO_START → ¬ E a → t.memAt a = x.memAt a)
    (hE1 : ¬ E (entrySp s - 1)) (hE2 : ¬ E (entrySp s - 2)) :
    ∃ f, Sim.step t = (.ok (), f) ∧ Returned s f ret keepR0 E ∧ f.dev = t.dev ∧ (∀ r, r ≠ R6 → f.reg r = t.reg r) := by
  have e1 : (t.reg R6).data + 1 = entrySp s - 1 := by rw [tr6, r6]; bv_omega
  obtain ⟨f, hx, fpc, fpsr, fmem, ffn, fk, fu, fro, fdev, ffl, fir, fmc, _⟩ := step_rti QS t q_t tns tsup tl hd
    (by rw [tr6, r6]; exact h2) (by rw [e1]; exact h1)
  rw [e1, tmem _ h1 hE1, m1] at fpsr fk fu
  rw [tr6, r6, tmem _ h2 hE2, m2] at fpc
  simp only [Word.ofData_data] at fpc fpsr fk fu
  have tss : t.savedSp = x.savedSp := by have := congrArg (·.2.2.1) tctl; simpa only [ctl] using this
  have tfn : t.frameNo = x.frameNo := by have := congrArg (·.2.2.2.2) tctl; simpa only [ctl] using this
  have tfl : t.flags = x.flags := by have := congrArg (·.1) tctl; simpa only [ctl] using this
  have tir : t.iregs = x.iregs := by have := congrArg (·.2.1) tctl; simpa only [ctl] using this
  have tmc : t.mcr = x.mcr := by have := congrArg (·.2.2.2.1) tctl; simpa only [ctl] using this
  refine ⟨f, hx, ⟨fpc, fpsr, ?_, ?_, ?_, ?_, by rw [ffl, tfl, hf], by rw [ffn, tfn, hfn]; omega,
    fun hp => by rw [(fk hp).2, tss, hss]; simp [hp], by rw [fir, tir, hir], by rw [fmc, tmc, hmcr],
    fun hp => by rw [(fu hp).1, tss, hss]; simp [hp]⟩, fdev, fro⟩
  · intro r hr hr0; rw [fro r hr, tro r hr hr0, ro r hr]
  · cases hp : PSR.privileged s.psr
    · rw [(fu hp).1, tss, hss]; simp [hp]
    · rw [(fk hp).1, C08.add_data, tr6, r6]
      have : entrySp s = (s.reg R6).data := by simp [entrySp, hp]
      rw [this]; simp only [Word.ofData_data]; bv_omega
  · cases hp : PSR.privileged s.psr
    · rw [(fu hp).2, C08.add_data, tr6, r6]
      have : entrySp s = s.savedSp.data := by simp [entrySp, hp]
      rw [this]; simp only [Word.ofData_data]; bv_omega
    · rw [(fk hp).2, tss, hss]; simp [hp]
  · intro a ha n1 n2 ne
    rw [Sim.memAt, fmem]; exact (tmem a ha ne).trans (mo a n1 n2)

/-- **an interrupt whose handler restores what it uses is invisible to the interrupted program.**
    `s` is the machine at an instruction boundary (after the poll) at which the interrupt `(v, p)` is taken
    (`p` above the current priority, C10.gate); `x` is the machine at the handler's first instruction; the handler body
    is any `k` public steps from `x` to `t` (the handler may itself use the devices, as long as their poll stays quiet: `Q`) that leave R6's value, every other register, the control state
    (saved SP, flags, frame depth, internal registers, MCR) and all memory below the I/O page outside `E` as they
    were at `x`, and stop at an `RTI` in plain memory, still in supervisor mode.  Then after the RTI the machine is back
    at the interrupted instruction with PC, PSR (condition codes, privilege, priority), every register, both stack
    pointers, flags and all memory below the I/O page outside `E` and the two supervisor-stack cells exactly as
    at `s` -/
theorem interrupt_transparent {Q : DevHandler → Prop} (QS : QuietSet Q) (s : Sim) (v : BitVec 8) (p : Nat) (E : W → Prop) (k : Nat) (t : Sim)
    (hs : s.flags.strict = false) (hgate : p > PSR.priority s.psr)
    (hvirt : realIntVect (0x100 + v.setWidth 16) = none ∨ s.flags.realTraps = true)
    (h1 : (entrySp s - 1).toNat < IO_START) (h2 : (entrySp s - 2).toNat < IO_START) :
    ∃ x, handleInterrupt (0x100 + v.setWidth 16) (some p) s = (.ok (), x) ∧
      PSR.privileged x.psr = true ∧ PSR.priority x.psr = p % 8 ∧ x.pc = (x.memAt (0x100 + v.setWidth 16)).data ∧
      (feN k x = (.ok (), t) → t.flags.strict = false → PSR.privileged t.psr = true → t.pc.toNat < IO_START →
       SimInstr.decode (t.memAt t.pc).data = .ok .rti → (t.reg R6).data = (x.reg R6).data →
       (∀ r, r ≠ R6 → t.reg r = x.reg r) → ctl t = ctl x →
       (∀ a : W, a.toNat < IO_START → ¬ E a → t.memAt a = x.memAt a) →
       ¬ E (entrySp s - 1) → ¬ E (entrySp s - 2) → Q t.dev →
       ∃ f, feN (k + 1) x = (.ok (), f) ∧ Returned s f s.pc true E ∧ f.dev = t.dev) := by
  have hv : (0x100 + v.setWidth 16 : W).toNat < IO_START := by
    have := v.isLt
    have e : (0x100 + v.setWidth 16 : W).toNat = 256 + v.toNat := by
      have h0 : (0x100 : W).toNat = 256 := rfl
      simp only [BitVec.toNat_add, BitVec.toNat_setWidth, h0]; omega
    rw [e]; unfold IO_START; omega
  obtain ⟨x, he, m2, m1, mo, r6, ro, hpv, _, hprio, _, hpc, hss, hfn, hd, hf, _⟩ :=
    C10.entry s (0x100 + v.setWidth 16) (some p) hs h1 h2 hv
  obtain ⟨hir, hmcr⟩ := enterSupervisor_iregs s (0x100 + v.setWidth 16) (some p) hs h1 h2 hv
  rw [he] at hir hmcr
  have hx : handleInterrupt (0x100 + v.setWidth 16) (some p) s = (.ok (), x) := by
    rw [C08.handle_structure]
    have hg : s.gated (some p) = false := by simp [gated]; omega
    simp only [hg, Bool.false_eq_true, if_false]
    rcases hvirt with h | h
    · rw [h]; simp only [he]; split <;> rfl
    · simp only [h, Bool.not_true, Bool.false_eq_true, if_false, he]
  refine ⟨x, hx, hpv, hprio p rfl, hpc, ?_⟩
  intro ft tns tsup tl hdr tr6 tro tctl tmem hE1 hE2 q_t
  obtain ⟨f, ff, ret, fdev, _⟩ := handler_returns QS s x t q_t s.pc true E h1 h2 m2 m1 mo r6 ro hss hfn hf hir hmcr
    tns tsup tl hdr tr6 (fun r h6 _ => tro r h6) tctl tmem hE1 hE2
  exact ⟨f, by rw [feN_add k 1 ft, feN_succ 0 ff]; rfl, ret, fdev⟩

end Lc3V.Rt
