/- Lemmas/Layout.lean — arbitrary runs of blanks between atoms; alternative spellings of the same token. -/
import Lc3V.Lemmas.PrintParse
set_option linter.unusedSimpArgs false
set_option linter.unusedVariables false
namespace Lc3V

/-- a run of blanks and tabs -/
def IsGap (g : List Char) : Prop := ∀ c ∈ g, c = ' ' ∨ c = '\t'

/-- a piece of text, the token it is lexed as, and what has to follow it for that -/
structure LAtom where
  chars : List Char
  tok : Token
  needs : List Char → Prop

def LAtom.Ok (a : LAtom) : Prop :=
  (∃ c cs, a.chars = c :: cs ∧ c ≠ ' ' ∧ c ≠ '\t') ∧
  ∀ rest, a.needs rest → lexOne (a.chars ++ rest) = ⟨.ok a.tok, a.chars.length⟩

/-- a word-like atom (mnemonic, register, literal, label, directive, string): must be followed by a delimiter or the end -/
def ofAtom (a : Atom) : LAtom := ⟨a.chars, a.tok, Delim⟩

theorem ofAtom_ok (a : Atom) (h : a.Ok) : (ofAtom a).Ok := h

/-- atoms with the blanks written after each of them -/
def renderL : List (LAtom × List Char) → List Char
  | [] => []
  | (a, g) :: rest => a.chars ++ g ++ renderL rest

/-- what follows each atom (its blanks, then the rest of the text) is what the atom needs -/
def LSeqOk : List (LAtom × List Char) → Prop
  | [] => True
  | (a, g) :: rest => a.needs (g ++ renderL rest) ∧ LSeqOk rest

theorem lexAll_skip_gap (g : List Char) (hg : IsGap g) : ∀ (fuel : Nat) (rest : List Char) (off : Nat) (acc : List SpTok),
    g.length ≤ fuel → ∃ off', lexAll fuel (g ++ rest) off acc = lexAll (fuel - g.length) rest off' acc := by
  induction g with
  | nil => intro fuel rest off acc _; exact ⟨off, by simp⟩
  | cons c cs ih =>
    intro fuel rest off acc hf
    obtain ⟨f, rfl⟩ : ∃ f, fuel = f + 1 := ⟨fuel - 1, by simp only [List.length_cons] at hf; omega⟩
    have hc := hg c (by simp)
    obtain ⟨off', h⟩ := ih (fun x hx => hg x (by simp [hx])) f rest (off + 1) acc (by simp only [List.length_cons] at hf; omega)
    refine ⟨off', ?_⟩
    rw [List.cons_append, lexAll, if_pos hc, h]
    simp only [List.length_cons]
    congr 1; omega

theorem delim_gap (g : List Char) (hg : IsGap g) (hne : g ≠ []) (rest : List Char) : Delim (g ++ rest) := by
  cases g with
  | nil => exact absurd rfl hne
  | cons c cs =>
    right
    refine ⟨c, cs ++ rest, rfl, ?_⟩
    rcases hg c (by simp) with rfl | rfl <;> decide

/-- lexing atoms separated by arbitrary runs of blanks and tabs yields exactly the atoms' tokens -/
theorem lexAll_L : ∀ (as : List (LAtom × List Char)) (fuel off : Nat) (acc : List SpTok), LSeqOk as →
    (∀ a ∈ as, a.1.Ok ∧ IsGap a.2) → (renderL as).length < fuel →
    ∃ ts, lexAll fuel (renderL as) off acc = .ok (acc.reverse ++ ts) ∧ ts.map (·.tok) = as.map (·.1.tok) := by
  intro as
  induction as with
  | nil => intro fuel off acc _ _ hf; cases fuel <;> exact ⟨[], by simp [renderL, lexAll], rfl⟩
  | cons x as ih =>
    intro fuel off acc hseq hok hf
    obtain ⟨a, g⟩ := x
    obtain ⟨f, rfl⟩ : ∃ f, fuel = f + 1 := ⟨fuel - 1, by omega⟩
    obtain ⟨⟨⟨c, cs, hc, hns, hnt⟩, hlex⟩, hg⟩ := hok (a, g) (by simp)
    simp only at hc hlex hg
    have hl := hlex _ hseq.1
    have hrender : renderL ((a, g) :: as) = c :: (cs ++ (g ++ renderL as)) := by
      simp only [renderL, hc, List.cons_append, List.append_assoc]
    rw [hrender, lexAll]
    rw [if_neg (by intro h; rcases h with h | h; exact hns h; exact hnt h)]
    have hl' : lexOne (c :: (cs ++ (g ++ renderL as))) = ⟨.ok a.tok, (c :: cs).length⟩ := by
      have := hl; rw [hc] at this; simpa using this
    simp only [hl']
    have hsplit : c :: (cs ++ (g ++ renderL as)) = (c :: cs) ++ (g ++ renderL as) := by simp
    have htake : (c :: (cs ++ (g ++ renderL as))).take (c :: cs).length = c :: cs := by rw [hsplit, List.take_left']; rfl
    have hdrop : (c :: (cs ++ (g ++ renderL as))).drop (c :: cs).length = g ++ renderL as := by rw [hsplit, List.drop_left']; rfl
    rw [htake, hdrop]
    have hlen : (renderL ((a, g) :: as)).length = (c :: cs).length + g.length + (renderL as).length := by
      rw [hrender]; simp [List.length_append]; omega
    obtain ⟨off', hskip⟩ := lexAll_skip_gap g hg f (renderL as) (off + blen (c :: cs)) (⟨a.tok, off, off + blen (c :: cs)⟩ :: acc)
      (by simp only [List.length_cons] at hlen hf; omega)
    rw [hskip]
    obtain ⟨ts, h1, h2⟩ := ih (f - g.length) off' (⟨a.tok, off, off + blen (c :: cs)⟩ :: acc) hseq.2 (fun y hy => hok y (by simp [hy]))
      (by simp only [List.length_cons] at hlen hf; omega)
    exact ⟨⟨a.tok, off, off + blen (c :: cs)⟩ :: ts, by rw [h1]; simp, by simp [h2]⟩

/-- the whole lexer, with leading blanks -/
theorem lex_L (lead : List Char) (hlead : IsGap lead) (as : List (LAtom × List Char)) (hseq : LSeqOk as)
    (hok : ∀ a ∈ as, a.1.Ok ∧ IsGap a.2) :
    ∃ ts, lex (lead ++ renderL as) = .ok ts ∧ ts.map (·.tok) = as.map (·.1.tok) := by
  unfold lex
  obtain ⟨off', hskip⟩ := lexAll_skip_gap lead hlead ((lead ++ renderL as).length + 1) (renderL as) 0 [] (by simp; omega)
  rw [hskip]
  obtain ⟨ts, h1, h2⟩ := lexAll_L as ((lead ++ renderL as).length + 1 - lead.length) off' [] hseq hok (by simp; omega)
  exact ⟨ts, by simpa using h1, h2⟩

/-- **layout insensitivity (one statement)**: any text made of well-behaved atoms whose token values are those of `s`,
    with any blanks and tabs before, between and after them, parses to `s` -/
theorem parse_layout (s : Stmt) (lead : List Char) (hlead : IsGap lead) (as : List (LAtom × List Char)) (hseq : LSeqOk as)
    (hok : ∀ a ∈ as, a.1.Ok ∧ IsGap a.2) (hvals : as.map (·.1.tok) = labelToks s.labels ++ kindToks s.nucleus)
    (hcc : ∀ cc o, s.nucleus = .instr (.br cc o) → cc ≠ 0) (hb : ∀ n, s.nucleus = .directive (.blkw n) → n ≠ 0) :
    ∃ s', parseAst (lead ++ renderL as) = .ok [s'] ∧ s'.labels.map (·.name) = s.labels.map (·.name) ∧ s'.nucleus.erase = s.nucleus.erase := by
  obtain ⟨ts, hlex, hv⟩ := lex_L lead hlead as hseq hok
  exact parse_of_lex s _ ts hlex (by rw [hv, hvals]) hcc hb

/-! ### self-delimiting atoms: comma, line ends, comments -/

def commaL : LAtom := ⟨[','], .comma, fun _ => True⟩
def colonL : LAtom := ⟨[':'], .colon, fun _ => True⟩
def nlL : LAtom := ⟨['\n'], .newline, fun _ => True⟩
def crlfL : LAtom := ⟨['\r', '\n'], .newline, fun _ => True⟩
/-- a comment: `;` and any characters except a line feed; it must be followed by a line feed or the end of the text -/
def commentL (body : List Char) : LAtom := ⟨';' :: body, .comment, fun rest => rest = [] ∨ ∃ r, rest = '\n' :: r⟩

theorem commaL_ok : commaL.Ok := ⟨⟨',', [], rfl, by decide, by decide⟩, fun rest _ => by simp [commaL, lexOne]⟩
theorem colonL_ok : colonL.Ok := ⟨⟨':', [], rfl, by decide, by decide⟩, fun rest _ => by simp [colonL, lexOne]⟩
theorem nlL_ok : nlL.Ok := ⟨⟨'\n', [], rfl, by decide, by decide⟩, fun rest _ => by simp [nlL, lexOne]⟩
theorem crlfL_ok : crlfL.Ok := ⟨⟨'\r', ['\n'], rfl, by decide, by decide⟩, fun rest _ => by simp [crlfL, lexOne]⟩

theorem commentL_ok (body : List Char) (hb : ∀ c ∈ body, c ≠ '\n') : (commentL body).Ok := by
  refine ⟨⟨';', body, rfl, by decide, by decide⟩, ?_⟩
  intro rest hr
  show lexOne (';' :: body ++ rest) = ⟨.ok .comment, (';' :: body).length⟩
  unfold lexOne
  simp (config := {decide := true}) only [if_false, if_true, List.cons_append]
  congr 1
  have hp : ∀ c ∈ body, (decide (c ≠ '\n')) = true := by intro c hc; simpa using hb c hc
  rw [List.takeWhile_append_of_pos hp]
  rcases hr with rfl | ⟨r, rfl⟩
  · simp; omega
  · simp; omega

/-! ### alternative spellings of the same token -/

/-- a mnemonic in any spelling the lexer reads as the keyword (any letter case) -/
def kwAtomS (cs : List Char) (k : Kw) : Atom := ⟨cs, .ident (.kw k), false⟩

theorem kwAtomS_ok (cs : List Char) (k : Kw) (h : kwSpellingOk cs k = true) : (kwAtomS cs k).Ok := by
  refine ⟨?_, fun rest hr => kw_lex _ k h rest hr.endsWord⟩
  cases hc : cs with
  | nil => rw [hc] at h; simp [kwSpellingOk] at h
  | cons c w =>
    rw [hc] at h
    simp only [kwSpellingOk, Bool.and_eq_true, bne_iff_ne, ne_eq] at h
    exact ⟨c, w, by simp [kwAtomS, hc], h.1.2, h.2⟩

/-- a register written with `R` or `r` and any digit string of value `n < 8` (leading zeros allowed) -/
def regAtomS (r : Char) (ds : List Char) (n : Nat) : Atom := ⟨r :: ds, .reg n, false⟩

theorem regAtomS_ok (r : Char) (ds : List Char) (n : Nat) (hr : r = 'R' ∨ r = 'r') (hne : ds ≠ []) (hd : ∀ c ∈ ds, IsDec c)
    (hv : valOf 10 ds = n) (hn : n < 8) : (regAtomS r ds n).Ok := by
  refine ⟨⟨r, ds, rfl, by rcases hr with rfl | rfl <;> decide, by rcases hr with rfl | rfl <;> decide⟩, ?_⟩
  intro rest hrest
  show lexOne (r :: ds ++ rest) = _
  rw [List.cons_append, C05.token_reg r ds rest hr hne hd hrest.endsWord, hv, if_pos hn]
  simp [regAtomS, Nat.add_comm]

/-- an unsigned literal written as plain decimal digits (leading zeros allowed) -/
def decAtomS (ds : List Char) (n : Nat) : Atom := ⟨ds, .unsigned n, false⟩

theorem decAtomS_ok (ds : List Char) (n : Nat) (hne : ds ≠ []) (hd : ∀ c ∈ ds, IsDec c) (hv : valOf 10 ds = n) (hn : n ≤ 65535) :
    (decAtomS ds n).Ok := by
  obtain ⟨c, cs, rfl⟩ : ∃ c cs, ds = c :: cs := by cases ds with | nil => exact absurd rfl hne | cons c cs => exact ⟨c, cs, rfl⟩
  have hc := hd c (by simp)
  refine ⟨⟨c, cs, rfl, by intro e; subst e; have := hc.1; simp at this, by intro e; subst e; have := hc.1; simp at this⟩, ?_⟩
  intro rest hrest
  show lexOne (c :: cs ++ rest) = _
  rw [C05.token_unsigned_dec (c :: cs) rest hne hd hrest.endsWord, hv, if_pos hn]
  rfl

/-- a negative literal written as `-` and decimal digits -/
def negAtomS (ds : List Char) (n : Nat) : Atom := ⟨'-' :: ds, .signed (-(n : Int)), false⟩

theorem negAtomS_ok (ds : List Char) (n : Nat) (hne : ds ≠ []) (hd : ∀ c ∈ ds, IsDec c) (hv : valOf 10 ds = n) (hn : n ≤ 32768) :
    (negAtomS ds n).Ok := by
  refine ⟨⟨'-', ds, rfl, by decide, by decide⟩, ?_⟩
  intro rest hrest
  show lexOne ('-' :: ds ++ rest) = _
  rw [List.cons_append, C05.token_signed_dec ds rest hne hd hrest.endsWord, hv, if_pos hn]
  simp [negAtomS, Nat.add_comm]

end Lc3V
