/- Lemmas/LexAtoms.lean — lexing a text that is a sequence of self-delimiting pieces ("atoms") separated by at most one blank. -/
import Lc3V.Lemmas.LexTok
set_option linter.unusedSimpArgs false
namespace Lc3V

/-- a piece of printed text together with the token it is lexed as -/
structure Atom where
  chars : List Char
  tok : Token
  /-- a blank follows the atom in the text -/
  blank : Bool

/-- characters that end a word-like token without being glued to it: blank, comma, tab, line feed, carriage return, `;` -/
def delimChars : List Char := [' ', ',', '\t', '\n', '\r', ';', ':']

/-- the text after an atom does not continue it: end of text, or one of the delimiter characters -/
def Delim (rest : List Char) : Prop := rest = [] ∨ ∃ d r, rest = d :: r ∧ d ∈ delimChars

theorem delimChar_facts : ∀ d ∈ delimChars, isWordC d = false ∧ d ≠ '-' ∧ isHexStart d = false := by decide

theorem Delim.endsWord {rest : List Char} (h : Delim rest) : EndsWord rest := by
  intro d hd
  rcases h with rfl | ⟨d', r, rfl, hm⟩
  · simp at hd
  · simp at hd; subst hd; exact (delimChar_facts _ hm).1

/-- an atom is well-behaved: not empty, does not start with a blank, and in front of a delimiter it is lexed as its token -/
def Atom.Ok (a : Atom) : Prop :=
  (∃ c cs, a.chars = c :: cs ∧ c ≠ ' ' ∧ c ≠ '\t') ∧
  ∀ rest, Delim rest → lexOne (a.chars ++ rest) = ⟨.ok a.tok, a.chars.length⟩

def renderAtoms : List Atom → List Char
  | [] => []
  | a :: as => a.chars ++ (if a.blank then [' '] else []) ++ renderAtoms as

/-- in a well-formed sequence every atom is followed by a delimiter: its own blank, or a comma atom, or the end -/
def SeqOk : List Atom → Prop
  | [] => True
  | [_] => True
  | a :: b :: rest => (a.blank = true ∨ ∃ cs, b.chars = ',' :: cs) ∧ SeqOk (b :: rest)

theorem delim_after (a : Atom) (as : List Atom) (h : SeqOk (a :: as)) (hok : ∀ x ∈ as, x.Ok) :
    Delim ((if a.blank then [' '] else []) ++ renderAtoms as) := by
  cases hb : a.blank with
  | true => right; exact ⟨' ', renderAtoms as, by simp, by decide⟩
  | false =>
    simp only [Bool.false_eq_true, if_false, List.nil_append]
    cases as with
    | nil => left; rfl
    | cons b bs =>
      rcases h.1 with h1 | ⟨cs, hcs⟩
      · rw [hb] at h1; cases h1
      · right; exact ⟨',', cs ++ ((if b.blank then [' '] else []) ++ renderAtoms bs), by simp [renderAtoms, hcs], by decide⟩

theorem blen_append' (a b : List Char) : blen (a ++ b) = blen a + blen b := by
  induction a with
  | nil => simp [blen]
  | cons c cs ih => simp [blen, ih]; omega

/-- lexing a well-formed atom sequence yields exactly the atoms' tokens, in order -/
theorem lexAll_atoms : ∀ (as : List Atom) (fuel off : Nat) (acc : List SpTok), SeqOk as → (∀ a ∈ as, a.Ok) →
    (renderAtoms as).length < fuel →
    ∃ ts, lexAll fuel (renderAtoms as) off acc = .ok (acc.reverse ++ ts) ∧ ts.map (·.tok) = as.map (·.tok) := by
  intro as
  induction as with
  | nil => intro fuel off acc _ _ hf; cases fuel <;> exact ⟨[], by simp [renderAtoms, lexAll], rfl⟩
  | cons a as ih =>
    intro fuel off acc hseq hok hf
    obtain ⟨f, rfl⟩ : ∃ f, fuel = f + 1 := ⟨fuel - 1, by omega⟩
    have haok := hok a (by simp)
    obtain ⟨⟨c, cs, hc, hns, hnt⟩, hlex⟩ := haok
    have hdel := delim_after a as hseq (fun x hx => hok x (by simp [hx]))
    have hl := hlex _ hdel
    have hseq' : SeqOk as := by
      cases as with
      | nil => trivial
      | cons b bs => exact hseq.2
    -- one token
    have hrender : renderAtoms (a :: as) = c :: (cs ++ ((if a.blank then [' '] else []) ++ renderAtoms as)) := by
      simp only [renderAtoms, hc, List.cons_append, List.append_assoc]
    rw [hrender, lexAll]
    rw [if_neg (by intro h; rcases h with h | h; exact hns h; exact hnt h)]
    have hl' : lexOne (c :: (cs ++ ((if a.blank then [' '] else []) ++ renderAtoms as))) = ⟨.ok a.tok, (c :: cs).length⟩ := by
      have := hl; rw [hc] at this; simpa using this
    simp only [hl']
    have htake : (c :: (cs ++ ((if a.blank then [' '] else []) ++ renderAtoms as))).take (c :: cs).length = c :: cs := by
      have : c :: (cs ++ ((if a.blank then [' '] else []) ++ renderAtoms as)) = (c :: cs) ++ ((if a.blank then [' '] else []) ++ renderAtoms as) := by simp
      rw [this, List.take_left']
      rfl
    have hdrop : (c :: (cs ++ ((if a.blank then [' '] else []) ++ renderAtoms as))).drop (c :: cs).length = (if a.blank then [' '] else []) ++ renderAtoms as := by
      have : c :: (cs ++ ((if a.blank then [' '] else []) ++ renderAtoms as)) = (c :: cs) ++ ((if a.blank then [' '] else []) ++ renderAtoms as) := by simp
      rw [this, List.drop_left']
      rfl
    rw [htake, hdrop]
    -- the optional blank
    have hlen : (renderAtoms as).length + (c :: cs).length + (if a.blank then 1 else 0) = (renderAtoms (a :: as)).length := by
      rw [hrender]; cases a.blank <;> simp <;> omega
    cases hb : a.blank with
    | false =>
      simp only [Bool.false_eq_true, if_false, List.nil_append]
      rw [hb] at hlen; simp only [Bool.false_eq_true, if_false] at hlen
      obtain ⟨ts, h1, h2⟩ := ih f (off + blen (c :: cs)) (⟨a.tok, off, off + blen (c :: cs)⟩ :: acc) hseq' (fun x hx => hok x (by simp [hx]))
        (by simp only [List.length_cons] at hlen hf ⊢; omega)
      exact ⟨⟨a.tok, off, off + blen (c :: cs)⟩ :: ts, by rw [h1]; simp, by simp [h2]⟩
    | true =>
      simp only [if_true, List.singleton_append]
      rw [hb] at hlen; simp only [if_true] at hlen
      obtain ⟨g, rfl⟩ : ∃ g, f = g + 1 := ⟨f - 1, by simp only [List.length_cons] at hlen hf; omega⟩
      rw [lexAll, if_pos (Or.inl rfl)]
      obtain ⟨ts, h1, h2⟩ := ih g (off + blen (c :: cs) + 1) (⟨a.tok, off, off + blen (c :: cs)⟩ :: acc) hseq' (fun x hx => hok x (by simp [hx]))
        (by simp only [List.length_cons] at hlen hf ⊢; omega)
      exact ⟨⟨a.tok, off, off + blen (c :: cs)⟩ :: ts, by rw [h1]; simp, by simp [h2]⟩

/-- the whole lexer on an atom sequence -/
theorem lex_atoms (as : List Atom) (hseq : SeqOk as) (hok : ∀ a ∈ as, a.Ok) :
    ∃ ts, lex (renderAtoms as) = .ok ts ∧ ts.map (·.tok) = as.map (·.tok) := by
  unfold lex
  obtain ⟨ts, h1, h2⟩ := lexAll_atoms as ((renderAtoms as).length + 1) 0 [] hseq hok (by omega)
  exact ⟨ts, by simpa using h1, h2⟩

end Lc3V
