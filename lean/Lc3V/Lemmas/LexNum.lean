/- Lemmas/LexNum.lean — Rust's `from_str_radix` on strings of digits: accepted exactly when the written value is in range. -/
import Lc3V.Model.Lex
namespace Lc3V

/-- value of one digit character (0 for a non-digit) -/
def digitOf (radix : Nat) (c : Char) : Nat := (toDigit c radix).getD 0
/-- the number written by a digit string, most significant digit first, continuing from `acc` -/
def valFrom (radix : Nat) : List Char → Nat → Nat
  | [], acc => acc
  | c :: cs, acc => valFrom radix cs (acc * radix + digitOf radix c)
/-- the number written by a digit string -/
def valOf (radix : Nat) (cs : List Char) : Nat := valFrom radix cs 0

def allDigits (radix : Nat) (cs : List Char) : Prop := ∀ c ∈ cs, (toDigit c radix).isSome = true

theorem valFrom_ge (radix : Nat) (hr : 1 ≤ radix) (cs : List Char) (acc : Nat) : acc ≤ valFrom radix cs acc := by
  induction cs generalizing acc with
  | nil => exact Nat.le_refl _
  | cons c cs ih =>
    unfold valFrom
    have := ih (acc * radix + digitOf radix c)
    have h2 : acc ≤ acc * radix := Nat.le_mul_of_pos_right _ hr
    omega

theorem toDigit_some_digitOf (radix : Nat) (c : Char) (h : (toDigit c radix).isSome = true) :
    toDigit c radix = some (digitOf radix c) := by
  unfold digitOf
  cases hd : toDigit c radix with
  | none => rw [hd] at h; simp at h
  | some d => simp

/-- non-negative accumulation: the result is the written value when it is at most `hi`, else a positive overflow -/
theorem parseDigits_pos (radix : Nat) (hr : 1 ≤ radix) (lo hi : Int) (hlo : lo ≤ 0) (cs : List Char)
    (hd : allDigits radix cs) (acc : Nat) (hacc : (acc : Int) ≤ hi) :
    parseDigits radix false lo hi cs acc =
      if (valFrom radix cs acc : Int) ≤ hi then .ok (valFrom radix cs acc : Int) else .error .posOverflow := by
  induction cs generalizing acc with
  | nil => simp [parseDigits, valFrom, hacc]
  | cons c cs ih =>
    have hc := toDigit_some_digitOf radix c (hd c (by simp))
    have hd' : allDigits radix cs := fun x hx => hd x (by simp [hx])
    unfold parseDigits
    rw [hc]
    have hv : valFrom radix (c :: cs) acc = valFrom radix cs (acc * radix + digitOf radix c) := rfl
    rw [hv]
    simp only [Bool.false_eq_true, if_false]
    have hge := valFrom_ge radix hr cs (acc * radix + digitOf radix c)
    by_cases h1 : ((acc : Int) * radix < lo ∨ (acc : Int) * radix > hi)
    · rw [if_pos h1]
      have : ¬ ((valFrom radix cs (acc * radix + digitOf radix c) : Nat) : Int) ≤ hi := by
        have : (0:Int) ≤ (acc : Int) * radix := Int.mul_nonneg (Int.natCast_nonneg _) (Int.natCast_nonneg _)
        rcases h1 with h | h
        · omega
        · have e : ((acc * radix + digitOf radix c : Nat) : Int) = (acc : Int) * radix + digitOf radix c := by push_cast; rfl
          omega
      rw [if_neg this]
    · rw [if_neg h1]
      by_cases h2 : ((acc : Int) * radix + (digitOf radix c : Int) < lo ∨ (acc : Int) * radix + (digitOf radix c : Int) > hi)
      · rw [if_pos h2]
        have : ¬ ((valFrom radix cs (acc * radix + digitOf radix c) : Nat) : Int) ≤ hi := by
          have e : ((acc * radix + digitOf radix c : Nat) : Int) = (acc : Int) * radix + digitOf radix c := by push_cast; rfl
          have : (0:Int) ≤ (acc : Int) * radix := Int.mul_nonneg (Int.natCast_nonneg _) (Int.natCast_nonneg _)
          rcases h2 with h | h <;> omega
        rw [if_neg this]
      · rw [if_neg h2]
        have e : ((acc : Int) * radix + (digitOf radix c : Int)) = ((acc * radix + digitOf radix c : Nat) : Int) := by push_cast; rfl
        rw [e]
        apply ih hd'
        rw [← e]; omega

/-- negative accumulation (after a leading '-'): the result is minus the written value when that is at least `lo` -/
theorem parseDigits_neg (radix : Nat) (hr : 1 ≤ radix) (lo hi : Int) (hhi : 0 ≤ hi) (cs : List Char)
    (hd : allDigits radix cs) (acc : Nat) (hacc : lo ≤ -(acc : Int)) :
    parseDigits radix true lo hi cs (-(acc : Int)) =
      if lo ≤ -(valFrom radix cs acc : Int) then .ok (-(valFrom radix cs acc : Int)) else .error .negOverflow := by
  induction cs generalizing acc with
  | nil => simp [parseDigits, valFrom, hacc]
  | cons c cs ih =>
    have hc := toDigit_some_digitOf radix c (hd c (by simp))
    have hd' : allDigits radix cs := fun x hx => hd x (by simp [hx])
    unfold parseDigits
    rw [hc]
    have hv : valFrom radix (c :: cs) acc = valFrom radix cs (acc * radix + digitOf radix c) := rfl
    rw [hv]
    simp only [if_true]
    have hge := valFrom_ge radix hr cs (acc * radix + digitOf radix c)
    have em : -(acc : Int) * radix = -((acc * radix : Nat) : Int) := by push_cast; exact Int.neg_mul _ _
    rw [em]
    by_cases h1 : (-((acc * radix : Nat) : Int) < lo ∨ -((acc * radix : Nat) : Int) > hi)
    · rw [if_pos h1]
      have : ¬ lo ≤ -((valFrom radix cs (acc * radix + digitOf radix c) : Nat) : Int) := by omega
      rw [if_neg this]
    · rw [if_neg h1]
      by_cases h2 : (-((acc * radix : Nat) : Int) - (digitOf radix c : Int) < lo ∨ -((acc * radix : Nat) : Int) - (digitOf radix c : Int) > hi)
      · rw [if_pos h2]
        have : ¬ lo ≤ -((valFrom radix cs (acc * radix + digitOf radix c) : Nat) : Int) := by omega
        rw [if_neg this]
      · rw [if_neg h2]
        have e : (-((acc * radix : Nat) : Int) - (digitOf radix c : Int)) = -((acc * radix + digitOf radix c : Nat) : Int) := by omega
        rw [e]
        apply ih hd'
        omega

/-- a string that does not start with a sign is parsed as digits -/
theorem parseInt_nosign (signed : Bool) (radix : Nat) (lo hi : Int) (c : Char) (cs : List Char)
    (h1 : c ≠ '+') (h2 : c ≠ '-') :
    parseInt signed radix lo hi (c :: cs) = parseDigits radix false lo hi (c :: cs) 0 := by
  unfold parseInt
  split <;> simp_all

/-- "-digits" for a signed type -/
theorem parseInt_minus (radix : Nat) (lo hi : Int) (c : Char) (cs : List Char) :
    parseInt true radix lo hi ('-' :: c :: cs) = parseDigits radix true lo hi (c :: cs) 0 := by
  unfold parseInt
  split <;> simp_all

/-- a digit character is not a sign -/
theorem digit_not_sign (radix : Nat) (hr : radix ≤ 36) (c : Char) (h : (toDigit c radix).isSome = true) : c ≠ '+' ∧ c ≠ '-' := by
  constructor <;> (intro e; subst e; simp [toDigit] at h)

end Lc3V
