/- Lemmas/LexTok.lean — how `lexOne` dispatches on the first character, and maximal munch over word characters. -/
import Lc3V.Model.Lex
set_option linter.unusedSimpArgs false
namespace Lc3V

/-- the text after a token does not continue it: it is empty or starts with a non-word character -/
def EndsWord (rest : List Char) : Prop := ∀ d ∈ rest.head?, isWordC d = false

theorem spanW_append (w rest : List Char) (hw : ∀ c ∈ w, isWordC c = true) (hr : EndsWord rest) :
    spanW (w ++ rest) = (w, rest) := by
  unfold spanW
  have h1 : List.takeWhile isWordC rest = [] := by
    cases rest with
    | nil => rfl
    | cons d r => have := hr d (by simp); simp [List.takeWhile, this]
  have h2 : List.dropWhile isWordC rest = rest := by
    cases rest with
    | nil => rfl
    | cons d r => have := hr d (by simp); simp [List.dropWhile, this]
  rw [List.takeWhile_append_of_pos hw, List.dropWhile_append_of_pos hw, h1, h2]
  simp

theorem char_toNat_le {a b : Char} : a ≤ b ↔ a.toNat ≤ b.toNat := by
  rw [Char.le_def]; exact UInt32.le_iff_toNat_le

theorem char_ne_of_toNat {a b : Char} (h : a.toNat ≠ b.toNat) : a ≠ b := fun e => h (by rw [e])

/-- ASCII decimal digit -/
def IsDec (c : Char) : Prop := 48 ≤ c.toNat ∧ c.toNat ≤ 57

theorem IsDec.isDigitC {c : Char} (h : IsDec c) : Lc3V.isDigitC c = true := by
  unfold Lc3V.isDigitC
  have a : ('0' ≤ c) := char_toNat_le.mpr h.1
  have b : (c ≤ '9') := char_toNat_le.mpr h.2
  simp [a, b]

/-- a decimal literal starting with an ASCII digit: the whole run of word characters goes to `lex_unsigned_dec` -/
theorem lexOne_dec (c : Char) (w rest : List Char) (hc : IsDec c) (hw : ∀ x ∈ w, isWordC x = true) (hr : EndsWord rest) :
    lexOne (c :: (w ++ rest)) = ⟨lexUnsignedDec (c :: w), 1 + w.length⟩ := by
  have hd := hc.isDigitC
  have n1 : c ≠ ':' := char_ne_of_toNat (by have := hc.2; simp; omega)
  have n2 : c ≠ ',' := char_ne_of_toNat (by have := hc.1; simp; omega)
  have n3 : c ≠ '\n' := char_ne_of_toNat (by have := hc.1; simp; omega)
  have n4 : c ≠ '\r' := char_ne_of_toNat (by have := hc.1; simp; omega)
  have n5 : c ≠ ';' := char_ne_of_toNat (by have := hc.2; simp; omega)
  have n6 : c ≠ '.' := char_ne_of_toNat (by have := hc.1; simp; omega)
  have n7 : c ≠ '"' := char_ne_of_toNat (by have := hc.1; simp; omega)
  have n8 : c ≠ '#' := char_ne_of_toNat (by have := hc.1; simp; omega)
  have n9 : c ≠ '-' := char_ne_of_toNat (by have := hc.1; simp; omega)
  unfold lexOne
  simp only [n1, n2, n3, n4, n5, n6, n7, n8, n9, if_false, hd, if_true, spanW_append w rest hw hr]

theorem not_word_minus : isWordC '-' = false := by decide
theorem not_word_hash : isWordC '#' = false := by decide

theorem takeWhile_hash_word (d : Char) (r : List Char) (hd : isWordC d = true) :
    (d :: r).takeWhile (· = '#') = [] := by
  have : d ≠ '#' := by intro e; subst e; rw [not_word_hash] at hd; cases hd
  simp [List.takeWhile, this]

/-- `#` followed by word characters (not `#-`, `##`): `lex_unsigned_dec` on the whole run -/
theorem lexOne_hash (d : Char) (w rest : List Char) (hd : isWordC d = true) (hw : ∀ x ∈ w, isWordC x = true)
    (hr : EndsWord rest) :
    lexOne ('#' :: d :: (w ++ rest)) = ⟨lexUnsignedDec ('#' :: d :: w), 2 + w.length⟩ := by
  have n1 : d ≠ '-' := by intro e; subst e; rw [not_word_minus] at hd; cases hd
  have n2 : d ≠ '#' := by intro e; subst e; rw [not_word_hash] at hd; cases hd
  have hw' : ∀ x ∈ d :: w, isWordC x = true := by intro x hx; rcases List.mem_cons.mp hx with h | h; exact h ▸ hd; exact hw x h
  have hs := spanW_append (d :: w) rest hw' hr
  simp only [List.cons_append] at hs
  unfold lexOne
  simp only [show ('#' : Char) ≠ ':' by decide, show ('#' : Char) ≠ ',' by decide, show ('#' : Char) ≠ '\n' by decide,
    show ('#' : Char) ≠ '\r' by decide, show ('#' : Char) ≠ ';' by decide, show ('#' : Char) ≠ '.' by decide,
    show ('#' : Char) ≠ '"' by decide, if_false, if_true]
  split
  · rename_i h; simp at h; exact absurd h.1 n1
  · rename_i h; simp at h; exact absurd h.1 n2
  · rw [hs]; simp only [List.length_cons]; congr 1; omega

/-- `-` followed by word characters: `lex_signed_dec` -/
theorem lexOne_minus (d : Char) (w rest : List Char) (hd : isWordC d = true) (hw : ∀ x ∈ w, isWordC x = true)
    (hr : EndsWord rest) :
    lexOne ('-' :: d :: (w ++ rest)) = ⟨lexSignedDec ('-' :: d :: w), 2 + w.length⟩ := by
  have n2 : d ≠ '#' := by intro e; subst e; rw [not_word_hash] at hd; cases hd
  have hw' : ∀ x ∈ d :: w, isWordC x = true := by intro x hx; rcases List.mem_cons.mp hx with h | h; exact h ▸ hd; exact hw x h
  have hs := spanW_append (d :: w) rest hw' hr
  simp only [List.cons_append] at hs
  unfold lexOne
  simp only [show ('-' : Char) ≠ ':' by decide, show ('-' : Char) ≠ ',' by decide, show ('-' : Char) ≠ '\n' by decide,
    show ('-' : Char) ≠ '\r' by decide, show ('-' : Char) ≠ ';' by decide, show ('-' : Char) ≠ '.' by decide,
    show ('-' : Char) ≠ '"' by decide, show ('-' : Char) ≠ '#' by decide, if_false, if_true]
  split
  · rename_i h; simp at h; exact absurd h.1 n2
  · rw [hs]; simp only [List.length_cons]; congr 1; omega

/-- `#-` followed by word characters: `lex_signed_dec` -/
theorem lexOne_hashminus (w rest : List Char) (hw : ∀ x ∈ w, isWordC x = true) (hr : EndsWord rest) :
    lexOne ('#' :: '-' :: (w ++ rest)) = ⟨lexSignedDec ('#' :: '-' :: w), 2 + w.length⟩ := by
  have hs := spanW_append w rest hw hr
  unfold lexOne
  simp only [show ('#' : Char) ≠ ':' by decide, show ('#' : Char) ≠ ',' by decide, show ('#' : Char) ≠ '\n' by decide,
    show ('#' : Char) ≠ '\r' by decide, show ('#' : Char) ≠ ';' by decide, show ('#' : Char) ≠ '.' by decide,
    show ('#' : Char) ≠ '"' by decide, if_false, if_true, hs]

/-- `.` followed by word characters: a directive token carrying the name as written -/
theorem lexOne_directive (w rest : List Char) (hw : ∀ x ∈ w, isWordC x = true) (hr : EndsWord rest) :
    lexOne ('.' :: (w ++ rest)) = ⟨.ok (.directive w), 1 + w.length⟩ := by
  have hs := spanW_append w rest hw hr
  unfold lexOne
  simp only [show ('.' : Char) ≠ ':' by decide, show ('.' : Char) ≠ ',' by decide, show ('.' : Char) ≠ '\n' by decide,
    show ('.' : Char) ≠ '\r' by decide, show ('.' : Char) ≠ ';' by decide, if_false, if_true, hs]

/-- `x`/`X`, a hex digit or Unicode digit, then word characters: `lex_unsigned_hex` -/
theorem lexOne_hex (x d : Char) (w rest : List Char) (hx : x = 'x' ∨ x = 'X') (hd : isHexStart d = true) (hdw : isWordC d = true)
    (hw : ∀ c ∈ w, isWordC c = true) (hr : EndsWord rest) :
    lexOne (x :: d :: (w ++ rest)) = ⟨lexUnsignedHex (x :: d :: w), 2 + w.length⟩ := by
  have n1 : d ≠ '-' := by intro e; subst e; rw [not_word_minus] at hdw; cases hdw
  have hw' : ∀ c ∈ d :: w, isWordC c = true := by intro c hc; rcases List.mem_cons.mp hc with h | h; exact h ▸ hdw; exact hw c h
  have hs := spanW_append (d :: w) rest hw' hr
  simp only [List.cons_append] at hs
  rcases hx with rfl | rfl <;>
  · unfold lexOne
    simp (config := {decide := true}) only [if_false, if_true, show isDigitC 'x' = false by decide, show isDigitC 'X' = false by decide, true_or, or_true]
    rw [if_pos hd, hs]; simp only [List.length_cons]; congr 1; omega

/-- `x-`/`X-` followed by word characters: `lex_signed_hex` -/
theorem lexOne_hexminus (x : Char) (w rest : List Char) (hx : x = 'x' ∨ x = 'X') (hw : ∀ c ∈ w, isWordC c = true)
    (hr : EndsWord rest) :
    lexOne (x :: '-' :: (w ++ rest)) = ⟨lexSignedHex (x :: '-' :: w), 2 + w.length⟩ := by
  have hs := spanW_append w rest hw hr
  rcases hx with rfl | rfl <;>
  · unfold lexOne
    simp (config := {decide := true}) only [if_false, if_true, isDigitC, Bool.false_and, Bool.or_false, Bool.and_false, true_or, or_true, hs]

/-- `R`/`r` followed by one or more digits (ASCII or not) and nothing else: `lex_reg` -/
theorem lexOne_reg (r : Char) (w rest : List Char) (hx : r = 'R' ∨ r = 'r') (hne : w ≠ []) (hw : ∀ c ∈ w, isDigitC c = true)
    (hww : ∀ c ∈ w, isWordC c = true) (hr : EndsWord rest) :
    lexOne (r :: (w ++ rest)) = ⟨lexReg (r :: w), 1 + w.length⟩ := by
  have hs := spanW_append w rest hww hr
  have hall : w.all isDigitC = true := List.all_eq_true.mpr hw
  rcases hx with rfl | rfl <;>
  · unfold lexOne
    simp (config := {decide := true}) only [if_false, if_true, isDigitC, Bool.false_and, Bool.or_false, Bool.and_false, true_or, or_true, hs]
    rw [if_pos ⟨hne, hall⟩]

/-- an ASCII letter or underscore -/
def IsIdStart (c : Char) : Prop := (97 ≤ c.toNat ∧ c.toNat ≤ 122) ∨ (65 ≤ c.toNat ∧ c.toNat ≤ 90) ∨ c.toNat = 95

theorem IsIdStart.cond {c : Char} (h : IsIdStart c) : (isAsciiAlpha c = true ∨ c = '_') := by
  unfold isAsciiAlpha
  rcases h with h | h | h
  · left; have a : ('a' ≤ c) := char_toNat_le.mpr h.1; have b : (c ≤ 'z') := char_toNat_le.mpr h.2; simp [a, b]
  · left; have a : ('A' ≤ c) := char_toNat_le.mpr h.1; have b : (c ≤ 'Z') := char_toNat_le.mpr h.2; simp [a, b]
  · right; apply Char.ext; apply UInt32.toNat_inj.mp; exact h

theorem IsIdStart.notDigit {c : Char} (h : IsIdStart c) : isDigitC c = false := by
  unfold isDigitC
  have a : ¬ (c ≤ '9') := fun hx => by have := char_toNat_le.mp hx; simp at this; rcases h with h | h | h <;> omega
  have b : ¬ (c.toNat ≥ 128) := by rcases h with h | h | h <;> omega
  simp [a, b]

/-- an identifier that is not of the `x…`/`R…` shapes: one Ident token over the whole run of word characters -/
theorem lexOne_ident (c : Char) (w rest : List Char) (hc : IsIdStart c)
    (hx : c ≠ 'x' ∧ c ≠ 'X' ∧ c ≠ 'R' ∧ c ≠ 'r') (hw : ∀ x ∈ w, isWordC x = true) (hr : EndsWord rest) :
    lexOne (c :: (w ++ rest)) = ⟨.ok (.ident (Ident.ofText (c :: w))), 1 + w.length⟩ := by
  have hs := spanW_append w rest hw hr
  have hnd := hc.notDigit
  have hcond := hc.cond
  have ne : ∀ d : Char, d.toNat < 65 → c ≠ d := fun d hd => char_ne_of_toNat (by rcases hc with h | h | h <;> omega)
  have n1 := ne ':' (by decide); have n2 := ne ',' (by decide); have n3 := ne '\n' (by decide)
  have n4 := ne '\r' (by decide); have n5 := ne ';' (by decide); have n6 := ne '.' (by decide)
  have n7 := ne '"' (by decide); have n8 := ne '#' (by decide); have n9 := ne '-' (by decide)
  unfold lexOne
  simp only [n1, n2, n3, n4, n5, n6, n7, n8, n9, hx.1, hx.2.1, hx.2.2.1, hx.2.2.2, if_false, hnd, Bool.false_eq_true, or_self, hs]
  rw [if_pos hcond]

/-- `R`/`r` followed by word characters that are not all digits (or by nothing): an identifier -/
theorem lexOne_ident_r (r : Char) (w rest : List Char) (hx : r = 'R' ∨ r = 'r') (hnd : ¬ (w ≠ [] ∧ w.all isDigitC = true))
    (hw : ∀ x ∈ w, isWordC x = true) (hr : EndsWord rest) :
    lexOne (r :: (w ++ rest)) = ⟨.ok (.ident (Ident.ofText (r :: w))), 1 + w.length⟩ := by
  have hs := spanW_append w rest hw hr
  rcases hx with rfl | rfl <;>
  · unfold lexOne
    simp (config := {decide := true}) only [if_false, if_true, show isDigitC 'R' = false by decide, show isDigitC 'r' = false by decide, true_or, or_true, hs]
    rw [if_neg hnd]

theorem IsDec.word {c : Char} (h : IsDec c) : isWordC c = true := by
  unfold isWordC
  have a : ('0' ≤ c) := char_toNat_le.mpr h.1
  have b : (c ≤ '9') := char_toNat_le.mpr h.2
  simp [a, b]

theorem IsDec.digit10 {c : Char} (h : IsDec c) : (toDigit c 10).isSome = true := by
  unfold toDigit
  have a : ('0' ≤ c) := char_toNat_le.mpr h.1
  have b : (c ≤ '9') := char_toNat_le.mpr h.2
  have : c.toNat - 48 < 10 := by have := h.1; have := h.2; omega
  simp [a, b, this]

theorem endsWord_nil : EndsWord [] := by intro d hd; simp at hd


end Lc3V
