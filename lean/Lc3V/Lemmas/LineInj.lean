/- Lemmas/LineInj.lean — no address is recorded for two lines: the recorded (line, address) pairs of a structured, accepted
   program, and their pairwise distinct addresses. -/
import Lc3V.Lemmas.CursorAt
import Lc3V.Lemmas.Pass2Iff
set_option linter.unusedSimpArgs false
set_option linter.unusedVariables false
namespace Lc3V

/-- the (line, address) pairs recorded for a block body that starts at address `off` -/
def recsBody (si : SourceInfo) : Nat → List Stmt → List (Nat × Nat)
  | _, [] => []
  | off, s :: r =>
    (if noLine s.nucleus then [] else [(si.getLine s.span.1, off)]) ++ recsBody si (off + s.nucleus.wordLen.toNat) r

def recsBlk (si : SourceInfo) (b : Blk) : List (Nat × Nat) := recsBody si b.a.toNat b.body

/-- every statement that gets a line entry occupies at least one word -/
def Sized (body : List Stmt) : Prop := ∀ s ∈ body, noLine s.nucleus = false → 1 ≤ s.nucleus.wordLen.toNat

theorem natSize_cons (s : Stmt) (r : List Stmt) : natSize (s :: r) = s.nucleus.wordLen.toNat + natSize r := by
  simp [natSize]

/-- recorded addresses lie inside the body's range and strictly increase -/
theorem recsBody_range (si : SourceInfo) : ∀ (body : List Stmt) (off : Nat), Sized body →
    (∀ p ∈ recsBody si off body, off ≤ p.2 ∧ p.2 < off + natSize body) ∧ (recsBody si off body).Pairwise (fun p q => p.2 < q.2) := by
  intro body
  induction body with
  | nil => intro off _; exact ⟨(fun p hp => by cases hp), List.Pairwise.nil⟩
  | cons s r ih =>
    intro off hsz
    obtain ⟨h1, h2⟩ := ih (off + s.nucleus.wordLen.toNat) (fun x hx => hsz x (by simp [hx]))
    rw [natSize_cons]
    unfold recsBody
    by_cases hn : noLine s.nucleus = true
    · simp only [hn, if_true, List.nil_append]
      exact ⟨fun p hp => by have := h1 p hp; omega, h2⟩
    · have hn' : noLine s.nucleus = false := by simpa using hn
      have hs := hsz s (by simp) hn'
      simp only [hn, Bool.false_eq_true, if_false, List.singleton_append]
      refine ⟨fun p hp => ?_, List.pairwise_cons.mpr ⟨fun q hq => ?_, h2⟩⟩
      · rcases List.mem_cons.mp hp with rfl | hp
        · simp only; omega
        · have := h1 p hp; omega
      · have := h1 q hq; simp only; omega

theorem mem_recsBody (si : SourceInfo) : ∀ (pre : List Stmt) (s : Stmt) (post : List Stmt) (off : Nat), noLine s.nucleus = false →
    (si.getLine s.span.1, off + natSize pre) ∈ recsBody si off (pre ++ s :: post) := by
  intro pre
  induction pre with
  | nil => intro s post off hn; simp [recsBody, hn, natSize]
  | cons x xs ih =>
    intro s post off hn
    have := ih s post (off + x.nucleus.wordLen.toNat) hn
    simp only [List.cons_append, recsBody, natSize_cons]
    apply List.mem_append_right
    have e : off + (x.nucleus.wordLen.toNat + natSize xs) = off + x.nucleus.wordLen.toNat + natSize xs := by omega
    rw [e]; exact this

/-- in a list whose entries have pairwise different keys, an entry is determined by its key -/
theorem unique_of_pairwise_ne {α : Type} (f : α → Nat) : ∀ (l : List α), l.Pairwise (fun p q => f p ≠ f q) →
    ∀ p ∈ l, ∀ q ∈ l, f p = f q → p = q := by
  intro l
  induction l with
  | nil => intro _ p hp; cases hp
  | cons z zs ih =>
    intro hpw p hp q hq he
    have hz := List.pairwise_cons.mp hpw
    rcases List.mem_cons.mp hp with hpz | hp' <;> rcases List.mem_cons.mp hq with hqz | hq'
    · rw [hpz, hqz]
    · rw [hpz] at he; exact absurd he (hz.1 q hq')
    · rw [hqz] at he; exact absurd he.symm (hz.1 p hp')
    · exact ih hz.2 p hp' q hq' he

/-- string literals short enough for their size to fit 16 bits (guaranteed by the lexer) -/
def ShortStrings (body : List Stmt) : Prop := ∀ s ∈ body, ∀ x, s.nucleus = .directive (.stringz x) → blen x + 1 < 65536

theorem stmtWords_length (t : SymTab) (lc : W) (s : Stmt) (ws : List (Option W)) (h : stmtWords t lc s = .ok ws)
    (hs : ∀ x, s.nucleus = .directive (.stringz x) → blen x + 1 < 65536) : ws.length = s.nucleus.wordLen.toNat := by
  unfold stmtWords at h
  cases hn : s.nucleus with
  | instr i =>
    rw [hn] at h
    dsimp only at h
    cases hi : intoSimInstr i (lc + 1) t with
    | error e => rw [hi] at h; cases h
    | ok si => rw [hi] at h; cases h; rfl
  | directive d =>
    rw [hn] at h
    exact C01.directive_words_length d t ws h (fun x hx => hs x (by rw [hn, hx]))

theorem bodyWords_length (t : SymTab) : ∀ (body : List Stmt) (lc : W) (ws : List (Option W)), bodyWords t lc body = .ok ws →
    ShortStrings body → ws.length = natSize body := by
  intro body
  induction body with
  | nil => intro lc ws h _; simp only [bodyWords] at h; cases h; rfl
  | cons s r ih =>
    intro lc ws h hs
    simp only [bodyWords] at h
    cases h1 : stmtWords t lc s with
    | error e => rw [h1] at h; cases h
    | ok w1 =>
      rw [h1] at h
      cases h2 : bodyWords t (lc + s.nucleus.wordLen) r with
      | error e => rw [h2] at h; cases h
      | ok w2 =>
        rw [h2] at h
        cases h
        rw [List.length_append, stmtWords_length t lc s w1 h1 (hs s (by simp)), ih _ w2 h2 (fun x hx => hs x (by simp [hx])), natSize_cons]

/-- the recorded pairs of a whole program -/
def recsAll (si : SourceInfo) (blks : List Blk) : List (Nat × Nat) := blks.flatMap (recsBlk si)

/-- **no address is recorded twice**: with non-overlapping blocks, the recorded addresses of a program are pairwise different -/
theorem recsAll_distinct (si : SourceInfo) (t : SymTab) (blks : List Blk) (hws : ∀ b ∈ blks, ∃ ws, bodyWords t b.a b.body = .ok ws)
    (hclear : blks.Pairwise (BlkClear t)) (hsz : ∀ b ∈ blks, Sized b.body) (hstr : ∀ b ∈ blks, ShortStrings b.body) :
    (recsAll si blks).Pairwise (fun p q => p.2 ≠ q.2) := by
  unfold recsAll
  rw [List.pairwise_flatMap]
  constructor
  · intro b hb
    have := (recsBody_range si b.body b.a.toNat (hsz b hb)).2
    exact this.imp (fun h => Nat.ne_of_lt h)
  · refine hclear.imp_of_mem ?_
    intro b1 b2 hb1 hb2 hc p hp q hq
    obtain ⟨ws1, hw1⟩ := hws b1 hb1
    obtain ⟨ws2, hw2⟩ := hws b2 hb2
    have hr1 := (recsBody_range si b1.body b1.a.toNat (hsz b1 hb1)).1 p hp
    have hr2 := (recsBody_range si b2.body b2.a.toNat (hsz b2 hb2)).1 q hq
    have hl1 := bodyWords_length t b1.body b1.a ws1 hw1 (hstr b1 hb1)
    have hl2 := bodyWords_length t b2.body b2.a ws2 hw2 (hstr b2 hb2)
    have hne1 : ws1 ≠ [] := by intro e; rw [e] at hl1; simp at hl1; omega
    have hne2 : ws2 ≠ [] := by intro e; rw [e] at hl2; simp at hl2; omega
    have := hc ws1 ws2 hw1 hw2 hne1 hne2
    simp only [rangesOverlap, Bool.and_eq_false_iff, decide_eq_false_iff_not, Nat.not_lt] at this
    intro e
    rcases this with h | h <;> omega

/-! ### the events of the pass-1 fold are the recorded pairs -/

/-- the line-table events of a run of pass-1 steps -/
def evsFold (si : SourceInfo) : P1 → List Stmt → List (Nat × W)
  | _, [] => []
  | st, s :: r =>
    match pass1Step st s with
    | .error _ => []
    | .ok st' => (lineEvent st s si).toList ++ evsFold si st' r

theorem evsFold_append (si : SourceInfo) : ∀ (pre rest : List Stmt) (st st1 : P1), pre.foldlM pass1Step st = .ok st1 →
    evsFold si st (pre ++ rest) = evsFold si st pre ++ evsFold si st1 rest := by
  intro pre
  induction pre with
  | nil => intro rest st st1 h; simp only [List.foldlM_nil] at h; cases h; simp [evsFold]
  | cons x xs ih =>
    intro rest st st1 h
    rw [List.foldlM_cons] at h
    cases hx : pass1Step st x with
    | error e => rw [hx] at h; cases h
    | ok s' =>
      rw [hx] at h
      simp only [List.cons_append, evsFold, hx]
      rw [ih rest s' st1 h]
      simp

def evNat (e : Nat × W) : Nat × Nat := (e.1, e.2.toNat)

theorem evsFold_body (si : SourceInfo) : ∀ (body : List Stmt) (st st' : P1) (cur : Cursor), body.foldlM pass1Step st = .ok st' →
    st.cursor = some cur → (∀ s ∈ body, isOrigEnd s.nucleus = false) →
    (evsFold si st body).map evNat = recsBody si cur.lc.toNat body := by
  intro body
  induction body with
  | nil => intro st st' cur _ _ _; rfl
  | cons s r ih =>
    intro st st' cur h hc hk
    rw [List.foldlM_cons] at h
    cases hs : pass1Step st s with
    | error e => rw [hs] at h; cases h
    | ok st1 =>
      rw [hs] at h
      obtain ⟨c1, hc1, hshift⟩ := pass1Step_in_block st st1 s cur hs hc (hk s (by simp))
      have hnat := shift_toNat _ _ _ hshift
      have ihh := ih st1 st' c1 h hc1 (fun x hx => hk x (by simp [hx]))
      simp only [evsFold, hs, List.map_append, recsBody]
      rw [ihh, hnat]
      congr 1
      unfold lineEvent
      rw [hc]
      cases hn : noLine s.nucleus <;> simp [evNat]

theorem evsFold_gap (si : SourceInfo) : ∀ (gap : List Stmt) (st st' : P1), gap.foldlM pass1Step st = .ok st' → st.cursor = none →
    (∀ s ∈ gap, isOrigEnd s.nucleus = false) → evsFold si st gap = [] := by
  intro gap
  induction gap with
  | nil => intro _ _ _ _ _; rfl
  | cons s r ih =>
    intro st st' h hc hk
    rw [List.foldlM_cons] at h
    cases hs : pass1Step st s with
    | error e => rw [hs] at h; cases h
    | ok st1 =>
      rw [hs] at h
      have hks := hk s (by simp)
      have hc1 := pass1_gap_cursor [s] st st1 (by simp [List.foldlM_cons, hs]) hc (fun x hx => by simp at hx; rw [hx]; exact hks)
      simp only [evsFold, hs]
      rw [ih st1 st' h hc1 (fun x hx => hk x (by simp [hx]))]
      unfold lineEvent; rw [hc]; rfl

/-- the events of one block are its recorded pairs -/
theorem evsFold_block (si : SourceInfo) (b : Blk) (hb : b.WF) (st st' : P1) (hc : st.cursor = none)
    (h : b.stmts.foldlM pass1Step st = .ok st') : (evsFold si st b.stmts).map evNat = recsBlk si b := by
  unfold Blk.stmts at h ⊢
  obtain ⟨s0, h0, h1⟩ := foldlM_append_ok2 _ _ _ _ _ h
  have hc0 := pass1_gap_cursor b.gap st s0 h0 hc hb.gap
  rw [evsFold_append si b.gap _ st s0 h0, evsFold_gap si b.gap st s0 h0 hc hb.gap, List.nil_append]
  rw [List.foldlM_cons] at h1
  cases ho : pass1Step s0 b.origS with
  | error e => rw [ho] at h1; cases h1
  | ok s1 =>
    rw [ho] at h1
    obtain ⟨_, _, h3⟩ := pass1Step_cursor s0 s1 b.origS ho
    rw [hb.orig, cas_orig] at h3
    obtain ⟨c1, hc1, hlc1⟩ := h3
    have hlc : c1.lc = b.a := by
      rw [hlc1]; show b.a + (0 : W) = b.a; simp
    obtain ⟨s2, h2, h4⟩ := foldlM_append_ok2 _ _ _ _ _ h1
    simp only [evsFold, ho]
    have hev0 : lineEvent s0 b.origS si = none := by unfold lineEvent; rw [hc0]
    rw [hev0]
    simp only [Option.toList_none, List.nil_append]
    rw [evsFold_append si b.body _ s1 s2 h2, List.map_append, evsFold_body si b.body s1 s2 c1 h2 hc1 hb.body, hlc]
    -- the `.end`
    simp only [List.foldlM_cons, List.foldlM_nil] at h4
    cases he : pass1Step s2 b.endS with
    | error e => rw [he] at h4; cases h4
    | ok s3 =>
      simp only [evsFold, he]
      have : lineEvent s2 b.endS si = none := by
        unfold lineEvent
        have hnl : noLine b.endS.nucleus = true := by rw [hb.end_]; rfl
        cases s2.cursor <;> simp [hnl]
      rw [this]
      simp [recsBlk]

theorem evsFold_blocks (si : SourceInfo) : ∀ (blks : List Blk) (tail : List Stmt) (st st' : P1), (∀ b ∈ blks, b.WF) →
    (∀ s ∈ tail, isOrigEnd s.nucleus = false) → st.cursor = none →
    (blks.flatMap Blk.stmts ++ tail).foldlM pass1Step st = .ok st' →
    (evsFold si st (blks.flatMap Blk.stmts ++ tail)).map evNat = recsAll si blks := by
  intro blks
  induction blks with
  | nil =>
    intro tail st st' _ ht hc h
    simp only [List.flatMap_nil, List.nil_append] at h ⊢
    rw [evsFold_gap si tail st st' h hc ht]; rfl
  | cons b rest ih =>
    intro tail st st' hwf ht hc h
    simp only [List.flatMap_cons, List.append_assoc] at h ⊢
    obtain ⟨s1, h1, h2⟩ := foldlM_append_ok2 _ _ _ _ _ h
    have hc1 := pass1_whole_block_cursor b (hwf b (by simp)) st s1 hc h1
    rw [evsFold_append si b.stmts _ st s1 h1, List.map_append, evsFold_block si b (hwf b (by simp)) st s1 hc h1,
      ih tail s1 st' (fun x hx => hwf x (by simp [hx])) ht hc1 h2]
    simp [recsAll]

/-- an answer of `lookup_line` is an event of the pass-1 fold -/
theorem lookup_is_event (prog : List Stmt) (src : List Char) (t : SymTab) (h : pass1 prog (some src) = .ok t)
    (hl : LinesFrom (SourceInfo.ofText src) (SourceInfo.ofText src).countLines 0 prog) (l : Nat) (a : W)
    (hlook : t.lookupLine l = some a) : (l, a) ∈ evsFold (SourceInfo.ofText src) (p1Init (some src)) prog := by
  obtain ⟨lsf, stf, hf, _, hv, hnone, _⟩ := final_vector prog src t h hl
  have hex : ∃ x ∈ prog, (SourceInfo.ofText src).getLine x.span.1 = l := by
    apply Classical.byContradiction
    intro hno
    have hall : ∀ x ∈ prog, (SourceInfo.ofText src).getLine x.span.1 ≠ l := fun x hx e => hno ⟨x, hx, e⟩
    have := hnone l hall
    rw [← hv l, hlook] at this
    cases this
  obtain ⟨x, hx, hlx⟩ := hex
  obtain ⟨pre, post, hsplit⟩ := List.append_of_mem hx
  subst hsplit
  obtain ⟨st_pre, hp1, hp2⟩ := foldlM_append_ok2 _ _ _ _ _ hf
  have hspec := (lookup_line_spec pre post x src t st_pre h hl hp1).1
  rw [hlx, hlook] at hspec
  rw [evsFold_append _ pre _ _ st_pre hp1]
  apply List.mem_append_right
  rw [List.foldlM_cons] at hp2
  cases hs : pass1Step st_pre x with
  | error e => rw [hs] at hp2; cases hp2
  | ok st1 =>
    simp only [evsFold, hs]
    apply List.mem_append_left
    cases hev : lineEvent st_pre x (SourceInfo.ofText src) with
    | none => rw [hev] at hspec; cases hspec
    | some ev =>
      rw [hev] at hspec
      simp only [Option.map_some, Option.some.injEq] at hspec
      have h1 : ev.1 = l := by
        unfold lineEvent at hev
        cases hc : st_pre.cursor with
        | none => rw [hc] at hev; cases hev
        | some cur =>
          rw [hc] at hev
          dsimp only at hev
          split at hev
          · cases hev
          · cases hev; exact hlx
      simp only [Option.toList_some, List.mem_singleton]
      rw [← h1, hspec]

/-- **no address maps to two lines**: in an assembled, structured program (statements on increasing lines, every recorded
    statement at least one word long, string literals below 64 K, non-overlapping blocks), `lookup_line` is injective -/
theorem lookup_line_injective (blks : List Blk) (tail : List Stmt) (src : List Char) (t : SymTab)
    (hwf : ∀ b ∈ blks, b.WF) (ht : ∀ s ∈ tail, isOrigEnd s.nucleus = false)
    (h : pass1 (blks.flatMap Blk.stmts ++ tail) (some src) = .ok t)
    (hl : LinesFrom (SourceInfo.ofText src) (SourceInfo.ofText src).countLines 0 (blks.flatMap Blk.stmts ++ tail))
    (hws : ∀ b ∈ blks, ∃ ws, bodyWords t b.a b.body = .ok ws) (hclear : blks.Pairwise (BlkClear t))
    (hsz : ∀ b ∈ blks, Sized b.body) (hstr : ∀ b ∈ blks, ShortStrings b.body)
    (l1 l2 : Nat) (a : W) (h1 : t.lookupLine l1 = some a) (h2 : t.lookupLine l2 = some a) : l1 = l2 := by
  have e1 := lookup_is_event _ src t h hl l1 a h1
  have e2 := lookup_is_event _ src t h hl l2 a h2
  obtain ⟨stf, hf⟩ : ∃ stf, (blks.flatMap Blk.stmts ++ tail).foldlM pass1Step (p1Init (some src)) = .ok stf := by
    obtain ⟨_, stf, hf, _⟩ := final_vector _ src t h hl
    exact ⟨stf, hf⟩
  have hrec := evsFold_blocks (SourceInfo.ofText src) blks tail _ stf hwf ht rfl hf
  have m1 : evNat (l1, a) ∈ recsAll (SourceInfo.ofText src) blks := by rw [← hrec]; exact List.mem_map_of_mem e1
  have m2 : evNat (l2, a) ∈ recsAll (SourceInfo.ofText src) blks := by rw [← hrec]; exact List.mem_map_of_mem e2
  have hd := recsAll_distinct (SourceInfo.ofText src) t blks hws hclear hsz hstr
  have := unique_of_pairwise_ne (fun p : Nat × Nat => p.2) _ hd _ m1 _ m2 rfl
  simp only [evNat, Prod.mk.injEq] at this
  exact this.1

end Lc3V
