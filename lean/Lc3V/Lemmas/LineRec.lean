/- Lemmas/LineRec.lean — what pass 1 records in the per-line address vector, and hence what `lookup_line` answers. -/
import Lc3V.Lemmas.LineVec
import Lc3V.Lemmas.Structure
set_option linter.unusedSimpArgs false
set_option linter.unusedVariables false
namespace Lc3V

/-- pointwise form of `Asc` -/
def AscP (ls : List (Option W)) : Prop := ∀ k a b, ls[k]? = some (some a) → ls[k + 1]? = some (some b) → a.toNat ≤ b.toNat

theorem asc_of_ascP : ∀ (ls : List (Option W)), AscP ls → Asc ls = true := by
  intro ls
  induction ls with
  | nil => intro _; rfl
  | cons x rest ih =>
    intro h
    have hrest : AscP rest := fun k a b h1 h2 => h (k + 1) a b (by simpa using h1) (by simpa using h2)
    cases x with
    | none => simpa [Asc] using ih hrest
    | some a =>
      cases rest with
      | nil => rfl
      | cons y ys =>
        cases y with
        | none => simpa [Asc] using ih hrest
        | some b =>
          simp only [Asc, Bool.and_eq_true, decide_eq_true_eq]
          exact ⟨h 0 a b rfl rfl, ih hrest⟩

/-- the line-table event of a statement: recorded when it is inside a block and not `.orig`/`.end`/`.external` -/
def lineEvent (st : P1) (s : Stmt) (si : SourceInfo) : Option (Nat × W) :=
  match st.cursor with
  | some cur => if noLine s.nucleus then none else some (si.getLine s.span.1, cur.lc)
  | none => none

def applyEv (ls : List (Option W)) : Option (Nat × W) → List (Option W)
  | none => ls
  | some (l, a) => ls.set l (some a)

/-- the vector after the line-recording part of a pass-1 step -/
def advLines (ls : List (Option W)) (si : SourceInfo) (s : Stmt) : Option Cursor → List (Option W)
  | some cur => if noLine s.nucleus then ls else ls.set (si.getLine s.span.1) (some cur.lc)
  | none => ls

theorem p1Advance_lines (st st' : P1) (s : Stmt) (cursor : Option Cursor) (labels : List (Key × SymData)) (rel : List (W × Key))
    (ls : List (Option W)) (si : SourceInfo) (h : p1Advance st s cursor labels rel = .ok st') (hl : st.lines = some (ls, si)) :
    st'.lines = some (advLines ls si s cursor, si) := by
  unfold p1Advance at h
  cases cursor with
  | none => dsimp only at h; injection h with h; rw [← h]; exact hl
  | some cur =>
    dsimp only at h
    cases hs : cur.shift s.nucleus.wordLen with
    | error k => rw [hs] at h; cases h
    | ok cur' =>
      rw [hs, hl] at h
      unfold advLines
      cases hnl : noLine s.nucleus with
      | true =>
        simp only [hnl, if_true] at h ⊢
        injection h with h; rw [← h]
      | false =>
        simp only [hnl, Bool.false_eq_true, if_false] at h ⊢
        injection h with h; rw [← h]

theorem noLine_orig (a : W) : noLine (.directive (.orig a)) = true := rfl
theorem noLine_end : noLine (.directive .end_) = true := rfl

theorem pass1Step_lines (st st' : P1) (s : Stmt) (ls : List (Option W)) (si : SourceInfo)
    (h : pass1Step st s = .ok st') (hl : st.lines = some (ls, si)) : st'.lines = some (applyEv ls (lineEvent st s si), si) := by
  unfold pass1Step at h
  cases h1 : p1Labels st s with
  | error e => rw [h1] at h; cases h
  | ok labels =>
    rw [h1] at h
    dsimp only at h
    cases h2 : p1Special st s labels with
    | error e => rw [h2] at h; cases h
    | ok r =>
      obtain ⟨cursor, labels', rel⟩ := r
      rw [h2] at h
      dsimp only at h
      obtain ⟨hc, ho, he⟩ := p1Special_cursor st s labels labels' cursor rel h2
      have hadv := p1Advance_lines st st' s cursor labels' rel ls si h hl
      rw [hadv]
      unfold lineEvent
      have same : cursor = st.cursor → advLines ls si s cursor = applyEv ls (match st.cursor with
            | some cur => if noLine s.nucleus = true then none else some (si.getLine s.span.1, cur.lc)
            | none => none) := by
        intro e
        rw [e]
        cases st.cursor with
        | none => rfl
        | some cur => cases hnl : noLine s.nucleus <;> simp [applyEv, advLines, hnl]
      cases hn : s.nucleus with
      | instr i => rw [hn, cas_instr] at hc; rw [← hn, same hc]
      | directive d =>
        cases d with
        | orig a =>
          have hnone := ho a hn
          rw [hn, cas_orig] at hc
          subst hc
          have hnl : noLine s.nucleus = true := by rw [hn]; rfl
          simp only [advLines, hnl, if_true, hnone, applyEv, noLine_orig]
        | end_ =>
          rw [hn, cas_end] at hc
          subst hc
          have hnl : noLine s.nucleus = true := by rw [hn]; rfl
          cases st.cursor <;> simp [advLines, hnl, applyEv, noLine_end]
        | external l => rw [hn, cas_external] at hc; rw [← hn, same hc]
        | fill v => rw [hn, cas_fill] at hc; rw [← hn, same hc]
        | blkw n => rw [hn, cas_blkw] at hc; rw [← hn, same hc]
        | stringz x => rw [hn, cas_stringz] at hc; rw [← hn, same hc]

theorem shift_toNat (c c' : Cursor) (n : W) (h : c.shift n = .ok c') : c'.lc.toNat = c.lc.toNat + n.toNat := by
  unfold Cursor.shift at h
  split at h
  · rename_i hn; cases h; rw [hn]; simp
  · split at h
    · cases h
    · dsimp only at h
      split at h
      · rename_i hlt
        split at h
        · cases h
        · cases h
          simp only [BitVec.toNat_ofNat]
          exact Nat.mod_eq_of_lt hlt
      · split at h <;> cases h

/-- the location counter does not go down over a pass-1 step that stays inside the block -/
theorem pass1Step_lc_mono (st st' : P1) (s : Stmt) (cur : Cursor) (h : pass1Step st s = .ok st') (hc : st.cursor = some cur)
    (hk : isOrigEnd s.nucleus = false) : ∃ c', st'.cursor = some c' ∧ cur.lc.toNat ≤ c'.lc.toNat := by
  unfold pass1Step at h
  cases h1 : p1Labels st s with
  | error e => rw [h1] at h; cases h
  | ok labels =>
    rw [h1] at h
    dsimp only at h
    cases h2 : p1Special st s labels with
    | error e => rw [h2] at h; cases h
    | ok r =>
      obtain ⟨cursor, labels', rel⟩ := r
      rw [h2] at h
      dsimp only at h
      obtain ⟨hcs, _, _⟩ := p1Special_cursor st s labels labels' cursor rel h2
      have hsame : cursor = some cur := by
        rw [hcs, hc]
        cases hn : s.nucleus with
        | instr i => rfl
        | directive d =>
          rw [hn] at hk
          cases d with
          | orig a => cases hk
          | end_ => cases hk
          | external l => rfl
          | fill v => rfl
          | blkw n => rfl
          | stringz x => rfl
      subst hsame
      unfold p1Advance at h
      dsimp only at h
      cases hs : cur.shift s.nucleus.wordLen with
      | error k => rw [hs] at h; cases h
      | ok cur' =>
        rw [hs] at h
        dsimp only at h
        injection h with h
        rw [← h]
        exact ⟨cur', rfl, by have := shift_toNat cur cur' _ hs; omega⟩

theorem isOrigEnd_of_noLine (k : StmtKind) (h : noLine k = false) : isOrigEnd k = false := by
  cases k with
  | instr i => rfl
  | directive d => cases d <;> first | rfl | cases h

/-- the invariant of the per-line vector during pass 1: everything from line `L` on is still empty, runs ascend, and if the
    line just before `L` was recorded, the current location counter is at or above the recorded address -/
structure LInv (si : SourceInfo) (st : P1) (ls : List (Option W)) (L : Nat) : Prop where
  lines : st.lines = some (ls, si)
  empty : ∀ k, L ≤ k → k < ls.length → ls[k]? = some none
  asc : AscP ls
  last : ∀ a, 0 < L → ls[L - 1]? = some (some a) → ∃ cur, st.cursor = some cur ∧ a.toNat ≤ cur.lc.toNat

theorem linv_step (si : SourceInfo) (st st' : P1) (s : Stmt) (ls : List (Option W)) (L : Nat) (hinv : LInv si st ls L)
    (h : pass1Step st s = .ok st') (h1 : L ≤ si.getLine s.span.1) (h2 : si.getLine s.span.1 < ls.length) :
    LInv si st' (applyEv ls (lineEvent st s si)) (si.getLine s.span.1 + 1) ∧
    (applyEv ls (lineEvent st s si)).length = ls.length ∧
    (∀ k, k ≠ si.getLine s.span.1 → (applyEv ls (lineEvent st s si))[k]? = ls[k]?) ∧
    (applyEv ls (lineEvent st s si))[si.getLine s.span.1]? = some ((lineEvent st s si).map (·.2)) := by
  have hlines := pass1Step_lines st st' s ls si h hinv.lines
  generalize hln : si.getLine s.span.1 = ln at *
  have hempty_ln : ls[ln]? = some none := hinv.empty ln h1 h2
  cases hev : lineEvent st s si with
  | none =>
    rw [hev] at hlines
    simp only [applyEv] at hlines ⊢
    refine ⟨⟨hlines, fun k hk hk2 => hinv.empty k (by omega) hk2, hinv.asc, fun a _ ha => ?_⟩, (by first | rfl | trivial),
      (fun _ _ => by first | rfl | trivial), by simpa using hempty_ln⟩
    simp only [Nat.add_sub_cancel] at ha
    rw [hempty_ln] at ha; cases ha
  | some ev =>
    obtain ⟨l, a⟩ := ev
    have hfacts : ∃ cur, st.cursor = some cur ∧ noLine s.nucleus = false ∧ l = ln ∧ a = cur.lc := by
      unfold lineEvent at hev
      cases hcur : st.cursor with
      | none => rw [hcur] at hev; cases hev
      | some cur =>
        rw [hcur] at hev
        dsimp only at hev
        cases hnl : noLine s.nucleus with
        | true => rw [hnl] at hev; simp at hev
        | false =>
          rw [hnl] at hev
          simp only [Bool.false_eq_true, if_false, Option.some.injEq, Prod.mk.injEq] at hev
          exact ⟨cur, rfl, rfl, by rw [← hev.1, hln], hev.2.symm⟩
    obtain ⟨cur, hcur, hnl, hl, ha⟩ := hfacts
    subst hl ha
    rw [hev] at hlines
    simp only [applyEv] at hlines ⊢
    have hget : ∀ k, (ls.set l (some cur.lc))[k]? = if l = k then some (some cur.lc) else ls[k]? := by
      intro k
      rw [List.getElem?_set]
      by_cases e : l = k
      · subst e; simp [h2]
      · simp [e]
    obtain ⟨c', hc', hmono⟩ := pass1Step_lc_mono st st' s cur h hcur (isOrigEnd_of_noLine _ hnl)
    refine ⟨⟨hlines, fun k hk hk2 => ?_, ?_, fun a _ ha => ?_⟩, by simp, fun k hk => ?_, ?_⟩
    · rw [hget]
      have : l ≠ k := by omega
      simp only [this, if_false]
      exact hinv.empty k (by omega) (by simpa using hk2)
    · intro k x y hx hy
      rw [hget] at hx hy
      by_cases e1 : l = k
      · subst e1
        have : ¬ l = l + 1 := by omega
        simp only [this, if_false] at hy
        by_cases hlen : l + 1 < ls.length
        · rw [hinv.empty (l + 1) (by omega) hlen] at hy; cases hy
        · rw [List.getElem?_eq_none (by omega)] at hy; cases hy
      · simp only [e1, if_false] at hx
        by_cases e2 : l = k + 1
        · simp only [e2, if_true, Option.some.injEq] at hy
          subst hy
          by_cases e3 : k + 1 = L
          · have hk : k = L - 1 := by omega
            rw [hk] at hx
            obtain ⟨cur0, hc0, hle⟩ := hinv.last x (by omega) hx
            rw [hcur] at hc0; cases hc0
            exact hle
          · have : L ≤ k := by omega
            rw [hinv.empty k this (by omega)] at hx; cases hx
        · simp only [e2, if_false] at hy
          exact hinv.asc k x y hx hy
    · simp only [Nat.add_sub_cancel] at ha
      rw [hget] at ha
      simp only [if_true, Option.some.injEq] at ha
      subst ha
      exact ⟨c', hc', hmono⟩
    · rw [hget]
      simp only [hk.symm, if_false]
    · rw [hget]; simp

/-- the statements sit on strictly increasing lines, all at or after `L` and inside the vector -/
def LinesFrom (si : SourceInfo) (N : Nat) : Nat → List Stmt → Prop
  | _, [] => True
  | L, s :: rest => L ≤ si.getLine s.span.1 ∧ si.getLine s.span.1 < N ∧ LinesFrom si N (si.getLine s.span.1 + 1) rest

theorem LinesFrom.mono (si : SourceInfo) (N : Nat) : ∀ (stmts : List Stmt) (L L' : Nat), L' ≤ L → LinesFrom si N L stmts → LinesFrom si N L' stmts := by
  intro stmts
  cases stmts with
  | nil => intro _ _ _ _; trivial
  | cons s rest => intro L L' hle h; exact ⟨by have := h.1; omega, h.2.1, h.2.2⟩

theorem LinesFrom.ge (si : SourceInfo) (N : Nat) : ∀ (stmts : List Stmt) (L : Nat), LinesFrom si N L stmts → ∀ s ∈ stmts, L ≤ si.getLine s.span.1 := by
  intro stmts
  induction stmts with
  | nil => intro _ _ s hs; cases hs
  | cons x rest ih =>
    intro L h s hs
    rcases List.mem_cons.mp hs with rfl | hs
    · exact h.1
    · have := ih _ h.2.2 s hs; have := h.1; omega

theorem linv_fold (si : SourceInfo) : ∀ (stmts more : List Stmt) (st st' : P1) (ls : List (Option W)) (L : Nat),
    LInv si st ls L → LinesFrom si ls.length L (stmts ++ more) → stmts.foldlM pass1Step st = .ok st' →
    ∃ ls' L', LInv si st' ls' L' ∧ L ≤ L' ∧ ls'.length = ls.length ∧ LinesFrom si ls.length L' more ∧
      (∀ k, k < L → ls'[k]? = ls[k]?) ∧ (∀ k, (∀ s ∈ stmts, si.getLine s.span.1 ≠ k) → ls'[k]? = ls[k]?) ∧
      (L ≤ ls.length → L' ≤ ls.length) := by
  intro stmts
  induction stmts with
  | nil =>
    intro more st st' ls L hinv hl h
    simp only [List.foldlM_nil] at h
    cases h
    exact ⟨ls, L, hinv, Nat.le_refl _, rfl, by simpa using hl, fun _ _ => rfl, fun _ _ => rfl, fun h => h⟩
  | cons s rest ih =>
    intro more st st' ls L hinv hl h
    rw [List.foldlM_cons] at h
    cases hs : pass1Step st s with
    | error e => rw [hs] at h; cases h
    | ok st1 =>
      rw [hs] at h
      simp only [List.cons_append] at hl
      obtain ⟨a1, a2, a3, a4⟩ := linv_step si st st1 s ls L hinv hs hl.1 hl.2.1
      obtain ⟨ls', L', b1, b2, b3, b4, b5, b6, b7⟩ := ih more st1 st' _ _ a1 (by rw [a2]; exact hl.2.2) h
      refine ⟨ls', L', b1, by have := hl.1; omega, by rw [b3, a2], by rw [a2] at b4; exact b4, fun k hk => ?_, fun k hk => ?_,
        fun _ => by rw [a2] at b7; exact b7 (by have := hl.2.1; omega)⟩
      · rw [b5 k (by have := hl.1; omega), a3 k (by have := hl.1; omega)]
      · rw [b6 k (fun x hx => hk x (by simp [hx])), a3 k (fun e => hk s (by simp) e.symm)]

theorem p1Init_linv (src : List Char) :
    LInv (SourceInfo.ofText src) (p1Init (some src)) (List.replicate (SourceInfo.ofText src).countLines none) 0 := by
  refine ⟨rfl, fun k _ hk => ?_, fun k a b h1 _ => ?_, fun a h _ => absurd h (by omega)⟩
  · simp only [List.length_replicate] at hk
    simp [List.getElem?_replicate, hk]
  · simp only [List.getElem?_replicate] at h1
    split at h1 <;> cases h1

/-- **what `lookup_line` answers after assembling with debug symbols** (statements on strictly increasing lines, as the parser
    produces them): for the statement `s` of the program, the line it starts on maps to the location counter pass 1 had when it
    reached `s` — if `s` is inside a block and is not `.orig`/`.end`/`.external` — and to nothing otherwise; a line on which no
    statement starts maps to nothing -/
theorem lookup_line_spec (pre post : List Stmt) (s : Stmt) (src : List Char) (t : SymTab) (st_pre : P1)
    (h : pass1 (pre ++ s :: post) (some src) = .ok t)
    (hl : LinesFrom (SourceInfo.ofText src) (SourceInfo.ofText src).countLines 0 (pre ++ s :: post))
    (hpre : pre.foldlM pass1Step (p1Init (some src)) = .ok st_pre) :
    t.lookupLine ((SourceInfo.ofText src).getLine s.span.1) = (lineEvent st_pre s (SourceInfo.ofText src)).map (·.2) ∧
    ∀ k, (∀ x ∈ pre ++ s :: post, (SourceInfo.ofText src).getLine x.span.1 ≠ k) → t.lookupLine k = none := by
  generalize hsi : SourceInfo.ofText src = si at *
  have hN : 0 < si.countLines := by rw [← hsi]; simp [SourceInfo.ofText, SourceInfo.countLines]
  unfold pass1 at h
  cases hf : (pre ++ s :: post).foldlM pass1Step (p1Init (some src)) with
  | error e => rw [hf] at h; cases h
  | ok stf =>
    rw [hf] at h
    dsimp only at h
    have hinit : LInv si (p1Init (some src)) (List.replicate si.countLines none) 0 := by rw [← hsi]; exact p1Init_linv src
    have hlen0 : (List.replicate si.countLines (none : Option W)).length = si.countLines := by simp
    -- the whole fold
    obtain ⟨lsf, Lf, c1, _, c3, _, _, c6, c7⟩ := linv_fold si (pre ++ s :: post) [] _ stf _ 0 hinit (by rw [hlen0]; simpa using hl) hf
    -- split at `s`
    obtain ⟨st1, hp1, hp2⟩ := foldlM_append_ok2 pass1Step pre (s :: post) _ _ hf
    rw [hpre] at hp1; cases hp1
    obtain ⟨ls1, L1, d1, _, d3, d4, _, _, _⟩ := linv_fold si pre (s :: post) _ st_pre _ 0 hinit (by rw [hlen0]; exact hl) hpre
    rw [hlen0] at d3 d4
    rw [List.foldlM_cons] at hp2
    cases hs : pass1Step st_pre s with
    | error e => rw [hs] at hp2; cases hp2
    | ok st2 =>
      rw [hs] at hp2
      obtain ⟨e1, e2, _, e4⟩ := linv_step si st_pre st2 s ls1 L1 d1 hs d4.1 (by rw [d3]; exact d4.2.1)
      obtain ⟨ls3, L3, f1, _, f3, _, f5, _, _⟩ := linv_fold si post [] st2 stf _ _ e1 (by rw [e2, d3]; simpa using d4.2.2) hp2
      -- both folds end in the same state, hence the same vector
      have hsame : ls3 = lsf := by
        have := f1.lines; rw [c1.lines] at this; injection this with this; injection this with this; exact this.symm
      subst hsame
      -- the final symbol table
      unfold p1Finish at h
      cases hcur : stf.cursor with
      | some c => rw [hcur] at h; cases h
      | none =>
        rw [hcur] at h
        dsimp only at h
        rw [c1.lines] at h
        injection h with h
        -- the vector ends with an empty line and its runs ascend
        have hlenf : ls3.length = si.countLines := by rw [c3, hlen0]
        have hends : EndsNone ls3 := by
          right
          rw [List.getLast?_eq_getElem?]
          by_cases hk : Lf ≤ ls3.length - 1
          · exact c1.empty _ hk (by omega)
          · have hidx : ls3.length - 1 < ls3.length := by omega
            cases hv : ls3[ls3.length - 1]? with
            | none => rw [List.getElem?_eq_none_iff] at hv; omega
            | some o =>
              cases o with
              | none => rfl
              | some a =>
                have hL : Lf - 1 = ls3.length - 1 ∨ Lf - 1 ≠ ls3.length - 1 := by omega
                rcases hL with hL | hL
                · obtain ⟨cur, hc, _⟩ := c1.last a (by omega) (by rw [hL]; exact hv)
                  rw [hcur] at hc; cases hc
                · -- Lf > length: impossible, all lines are inside the vector
                  exfalso
                  have := c7 (by omega)
                  rw [hlen0] at this
                  omega
        obtain ⟨m, hm1, hm2, _, _⟩ := lineMap_new_spec ls3 hends (asc_of_ascP _ c1.asc)
        have hlook : ∀ k, t.lookupLine k = (ls3[k]?).join := by
          intro k
          rw [← h]
          simp only [SymTab.lookupLine, hm1, Option.getD_some, Option.bind_some]
          exact hm2 k
        constructor
        · rw [hlook, f5 _ (by omega), e4]; simp
        · intro k hk
          rw [hlook, c6 k hk]
          simp only [List.getElem?_replicate]
          split <;> rfl

/-- the final per-line vector of pass 1 and its relation to `lookup_line` (no split of the program needed) -/
theorem final_vector (prog : List Stmt) (src : List Char) (t : SymTab) (h : pass1 prog (some src) = .ok t)
    (hl : LinesFrom (SourceInfo.ofText src) (SourceInfo.ofText src).countLines 0 prog) :
    ∃ lsf stf, prog.foldlM pass1Step (p1Init (some src)) = .ok stf ∧ stf.lines = some (lsf, SourceInfo.ofText src) ∧
      (∀ k, t.lookupLine k = (lsf[k]?).join) ∧
      (∀ k, (∀ x ∈ prog, (SourceInfo.ofText src).getLine x.span.1 ≠ k) → (lsf[k]?).join = none) ∧
      (∃ m, t.debug = some ⟨m, SourceInfo.ofText src⟩ ∧ Chained m 0 ∧ ∀ b ∈ m, sortedLE b.2 = true) := by
  generalize hsi : SourceInfo.ofText src = si at *
  have hN : 0 < si.countLines := by rw [← hsi]; simp [SourceInfo.ofText, SourceInfo.countLines]
  unfold pass1 at h
  cases hf : prog.foldlM pass1Step (p1Init (some src)) with
  | error e => rw [hf] at h; cases h
  | ok stf =>
    rw [hf] at h
    dsimp only at h
    have hinit : LInv si (p1Init (some src)) (List.replicate si.countLines none) 0 := by rw [← hsi]; exact p1Init_linv src
    have hlen0 : (List.replicate si.countLines (none : Option W)).length = si.countLines := by simp
    obtain ⟨lsf, Lf, c1, _, c3, _, _, c6, c7⟩ := linv_fold si prog [] _ stf _ 0 hinit (by rw [hlen0]; simpa using hl) hf
    unfold p1Finish at h
    cases hcur : stf.cursor with
    | some c => rw [hcur] at h; cases h
    | none =>
      rw [hcur] at h
      dsimp only at h
      rw [c1.lines] at h
      injection h with h
      have hlenf : lsf.length = si.countLines := by rw [c3, hlen0]
      have hends : EndsNone lsf := by
        right
        rw [List.getLast?_eq_getElem?]
        by_cases hk : Lf ≤ lsf.length - 1
        · exact c1.empty _ hk (by omega)
        · have hidx : lsf.length - 1 < lsf.length := by omega
          cases hv : lsf[lsf.length - 1]? with
          | none => rw [List.getElem?_eq_none_iff] at hv; omega
          | some o =>
            cases o with
            | none => rfl
            | some a =>
              have hL : Lf - 1 = lsf.length - 1 ∨ Lf - 1 ≠ lsf.length - 1 := by omega
              rcases hL with hL | hL
              · obtain ⟨cur, hc, _⟩ := c1.last a (by omega) (by rw [hL]; exact hv)
                rw [hcur] at hc; cases hc
              · exfalso
                have := c7 (by omega)
                rw [hlen0] at this
                omega
      obtain ⟨m, hm1, hm2, hm3, hm4⟩ := lineMap_new_spec lsf hends (asc_of_ascP _ c1.asc)
      have hsle : ∀ b ∈ m, sortedLE b.2 = true := by
        rw [hm3]
        exact sortedLE_runs lsf 0 none (by simpa using asc_of_ascP _ c1.asc)
      refine ⟨lsf, stf, rfl, c1.lines, fun k => ?_, fun k hk => ?_, ⟨m, ?_, hm4, hsle⟩⟩
      · rw [← h]
        simp only [SymTab.lookupLine, hm1, Option.getD_some, Option.bind_some]
        exact hm2 k
      · rw [c6 k hk]
        simp only [List.getElem?_replicate]
        split <;> rfl
      · rw [← h]
        simp only [hm1, Option.getD_some]

end Lc3V
