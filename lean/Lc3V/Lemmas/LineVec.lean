/- Lemmas/LineVec.lean — `LineSymbolMap::new`: the run-length condensation of the per-line address vector, and what `get`
   answers on the result. -/
import Lc3V.Lemmas.SortedMap
set_option linter.unusedSimpArgs false
set_option linter.unusedVariables false
namespace Lc3V

/-- `condenseLines` without the accumulator -/
def runs : List (Option W) → Nat → Option (List W) → List (Nat × List W)
  | [], _, _ => []
  | some a :: rest, i, cur => runs rest (i + 1) (some (cur.getD [] ++ [a]))
  | none :: rest, i, some bl => (i - bl.length, bl) :: runs rest (i + 1) none
  | none :: rest, i, none => runs rest (i + 1) none

theorem condense_eq_runs : ∀ (ls : List (Option W)) (i : Nat) (cur : Option (List W)) (acc : List (Nat × List W)),
    condenseLines ls i cur acc = acc.reverse ++ runs ls i cur := by
  intro ls
  induction ls with
  | nil => intro i cur acc; simp [condenseLines, runs]
  | cons x rest ih =>
    intro i cur acc
    cases x with
    | some a => simp only [condenseLines, runs]; exact ih _ _ _
    | none =>
      cases cur with
      | none => simp only [condenseLines, runs]; exact ih _ _ _
      | some bl => simp only [condenseLines, runs]; rw [ih]; simp

/-- look a line up in a list of blocks: the first block that contains it -/
def lk (R : List (Nat × List W)) (l : Nat) : Option W :=
  R.findSome? (fun b => if b.1 ≤ l then b.2[l - b.1]? else none)

/-- the vector ends with a line that has no address (or is empty) -/
def EndsNone (ls : List (Option W)) : Prop := ls = [] ∨ ls.getLast? = some none

theorem EndsNone.tail {x : Option W} {rest : List (Option W)} (h : EndsNone (x :: rest)) (hne : rest ≠ []) : EndsNone rest := by
  rcases h with h | h
  · cases h
  · right
    cases rest with
    | nil => exact absurd rfl hne
    | cons y ys => simpa [List.getLast?_cons_cons] using h

theorem EndsNone.rest_ne {a : W} {rest : List (Option W)} (h : EndsNone (some a :: rest)) : rest ≠ [] := by
  intro e
  subst e
  rcases h with h | h
  · cases h
  · simp at h

theorem EndsNone.tail' {rest : List (Option W)} (h : EndsNone (none :: rest)) : EndsNone rest := by
  cases rest with
  | nil => exact Or.inl rfl
  | cons y ys => exact h.tail (by simp)

/-- the entry of the "virtual" vector (the open run followed by the rest) for line `l`, when the open run starts at `o` -/
def vAt (c : List W) (ls : List (Option W)) (o l : Nat) : Option W :=
  if l < o then none else ((c.map some ++ ls)[l - o]?).join

/-- **what the condensed blocks answer**: every line's entry, provided the vector ends with an address-less line -/
theorem lk_runs : ∀ (ls : List (Option W)) (i : Nat) (cur : Option (List W)) (l : Nat), EndsNone ls → (cur.isSome = true → ls ≠ []) →
    (cur.getD []).length ≤ i →
    lk (runs ls i cur) l = vAt (cur.getD []) ls (i - (cur.getD []).length) l := by
  intro ls
  induction ls with
  | nil =>
    intro i cur l _ hc _
    have : cur = none := by
      cases cur with
      | none => rfl
      | some c => exact absurd rfl (hc rfl)
    subst this
    simp [runs, lk, vAt]
  | cons x rest ih =>
    intro i cur l he hc hlen
    cases x with
    | some a =>
      have hrest := he.rest_ne
      have := ih (i + 1) (some (cur.getD [] ++ [a])) l (he.tail hrest) (fun _ => hrest) (by simp; omega)
      simp only [runs]
      rw [this]
      simp only [Option.getD_some, List.length_append, List.length_cons, List.length_nil, vAt, List.map_append, List.map_cons,
        List.map_nil, List.append_assoc, List.cons_append, List.nil_append]
      have e : i + 1 - ((cur.getD []).length + (0 + 1)) = i - (cur.getD []).length := by omega
      rw [e]
    | none =>
      cases cur with
      | none =>
        simp only [runs, Option.getD_none, List.length_nil, Nat.sub_zero, vAt, List.map_nil, List.nil_append]
        rw [ih (i + 1) none l he.tail' (fun h => by cases h) (by simp)]
        simp only [Option.getD_none, List.length_nil, Nat.sub_zero, vAt, List.map_nil, List.nil_append]
        by_cases h1 : l < i
        · have : l < i + 1 := by omega
          simp [h1, this]
        · by_cases h2 : l = i
          · subst h2; simp
          · have h3 : ¬ l < i + 1 := by omega
            have h4 : l - i = (l - (i + 1)) + 1 := by omega
            simp only [h1, h3, if_false]
            rw [h4, List.getElem?_cons_succ]
      | some bl =>
        simp only [Option.getD_some] at hlen ⊢
        simp only [runs, lk, List.findSome?_cons]
        have ihh := ih (i + 1) none l he.tail' (fun h => by cases h) (by simp)
        simp only [Option.getD_none, List.length_nil, Nat.sub_zero, vAt, List.map_nil, List.nil_append] at ihh
        unfold lk at ihh
        simp only [vAt]
        by_cases h1 : l < i - bl.length
        · have h1' : ¬ (i - bl.length ≤ l) := by omega
          have h2 : l < i + 1 := by omega
          simp only [h1, h1', if_true, if_false, ihh, h2]
        · have h1' : i - bl.length ≤ l := by omega
          simp only [h1, h1', if_true, if_false]
          by_cases h2 : l - (i - bl.length) < bl.length
          · have e1 : bl[l - (i - bl.length)]? = some bl[l - (i - bl.length)] := List.getElem?_eq_getElem h2
            rw [e1]
            simp only
            rw [List.getElem?_append_left (by simpa using h2)]
            simp [e1]
          · have e1 : bl[l - (i - bl.length)]? = none := List.getElem?_eq_none (by omega)
            rw [e1]
            simp only
            rw [ihh]
            rw [List.getElem?_append_right (by simp; omega)]
            simp only [List.length_map]
            by_cases h3 : l < i + 1
            · have : l - (i - bl.length) - bl.length = 0 := by omega
              simp [h3, this]
            · have h4 : l - (i - bl.length) - bl.length = (l - (i + 1)) + 1 := by omega
              simp only [h3, if_false]
              rw [h4, List.getElem?_cons_succ]

/-! ### shape of the condensed blocks -/

/-- blocks in ascending order, non-empty, each starting at or after the end of the previous one (and after `lo`) -/
def Chained : List (Nat × List W) → Nat → Prop
  | [], _ => True
  | (st, bl) :: rest, lo => lo ≤ st ∧ bl ≠ [] ∧ Chained rest (st + bl.length)

theorem Chained.mono : ∀ (R : List (Nat × List W)) (lo lo' : Nat), Chained R lo → lo' ≤ lo → Chained R lo' := by
  intro R
  cases R with
  | nil => intro _ _ _ _; trivial
  | cons b rest =>
    obtain ⟨st, bl⟩ := b
    intro lo lo' h hle
    exact ⟨by have := h.1; omega, h.2.1, h.2.2⟩

theorem chained_runs : ∀ (ls : List (Option W)) (i : Nat) (cur : Option (List W)), cur ≠ some [] → (cur.getD []).length ≤ i →
    Chained (runs ls i cur) (i - (cur.getD []).length) := by
  intro ls
  induction ls with
  | nil => intro i cur _ _; trivial
  | cons x rest ih =>
    intro i cur hc hlen
    cases x with
    | some a =>
      simp only [runs]
      have := ih (i + 1) (some (cur.getD [] ++ [a])) (by simp) (by simp; omega)
      simp only [Option.getD_some, List.length_append, List.length_cons, List.length_nil] at this
      have e : i + 1 - ((cur.getD []).length + (0 + 1)) = i - (cur.getD []).length := by omega
      rw [e] at this; exact this
    | none =>
      cases cur with
      | none =>
        simp only [runs, Option.getD_none, List.length_nil, Nat.sub_zero]
        have := ih (i + 1) none (by simp) (by simp)
        simp only [Option.getD_none, List.length_nil, Nat.sub_zero] at this
        exact Chained.mono _ _ _ this (by omega)
      | some bl =>
        simp only [Option.getD_some] at hlen ⊢
        simp only [runs]
        refine ⟨Nat.le_refl _, fun e => hc (by rw [e]), ?_⟩
        have := ih (i + 1) none (by simp) (by simp)
        simp only [Option.getD_none, List.length_nil, Nat.sub_zero] at this
        exact Chained.mono _ _ _ this (by omega)

/-- within a run of consecutive lines the addresses ascend -/
def Asc : List (Option W) → Bool
  | some a :: some b :: rest => decide (a.toNat ≤ b.toNat) && Asc (some b :: rest)
  | _ :: rest => Asc rest
  | [] => true

theorem Asc.tail : ∀ (x : Option W) (rest : List (Option W)), Asc (x :: rest) = true → Asc rest = true := by
  intro x rest h
  cases x with
  | none => simpa [Asc] using h
  | some a =>
    cases rest with
    | nil => rfl
    | cons y ys =>
      cases y with
      | none => simpa [Asc] using h
      | some b => simp only [Asc, Bool.and_eq_true] at h; exact h.2

theorem asc_split : ∀ (bl : List W) (tail : List (Option W)), Asc (bl.map some ++ tail) = true → sortedLE bl = true ∧ Asc tail = true := by
  intro bl
  induction bl with
  | nil => intro tail h; exact ⟨rfl, by simpa using h⟩
  | cons a rest ih =>
    intro tail h
    cases rest with
    | nil =>
      simp only [List.map_cons, List.map_nil, List.cons_append, List.nil_append] at h
      exact ⟨rfl, Asc.tail _ _ h⟩
    | cons b rest2 =>
      simp only [List.map_cons, List.cons_append, Asc, Bool.and_eq_true, decide_eq_true_eq] at h
      obtain ⟨h1, h2⟩ := ih tail (by simpa using h.2)
      exact ⟨by simp only [sortedLE, Bool.and_eq_true, decide_eq_true_eq]; exact ⟨h.1, h1⟩, h2⟩

theorem sortedLE_runs : ∀ (ls : List (Option W)) (i : Nat) (cur : Option (List W)),
    Asc ((cur.getD []).map some ++ ls) = true → ∀ b ∈ runs ls i cur, sortedLE b.2 = true := by
  intro ls
  induction ls with
  | nil => intro i cur _ b hb; cases hb
  | cons x rest ih =>
    intro i cur hasc b hb
    cases x with
    | some a =>
      simp only [runs] at hb
      exact ih (i + 1) (some (cur.getD [] ++ [a])) (by simpa using hasc) b hb
    | none =>
      cases cur with
      | none =>
        simp only [runs] at hb
        exact ih (i + 1) none (by simpa using Asc.tail _ _ (by simpa using hasc)) b hb
      | some bl =>
        simp only [runs, Option.getD_some] at hb hasc
        obtain ⟨h1, h2⟩ := asc_split bl (none :: rest) hasc
        rcases List.mem_cons.mp hb with rfl | hb
        · exact h1
        · exact ih (i + 1) none (by simpa using Asc.tail _ _ h2) b hb

/-! ### `get` on chained blocks -/

theorem chained_sorted : ∀ (R : List (Nat × List W)) (lo : Nat), Chained R lo → SortedKeys R ∧ ∀ b ∈ R, lo ≤ b.1 := by
  intro R
  induction R with
  | nil => intro lo _; exact ⟨by simp [SortedKeys], fun b hb => by cases hb⟩
  | cons x rest ih =>
    obtain ⟨st, bl⟩ := x
    intro lo h
    obtain ⟨h1, h2⟩ := ih (st + bl.length) h.2.2
    have hpos : 0 < bl.length := List.length_pos_iff.mpr h.2.1
    refine ⟨sortedKeys_cons _ _ h1 (fun b hb => by have := h2 b hb; simp only at this ⊢; omega), fun b hb => ?_⟩
    rcases List.mem_cons.mp hb with rfl | hb
    · exact h.1
    · have := h2 b hb; have := h.1; omega

theorem chained_notOverlapping : ∀ (R : List (Nat × List W)) (lo : Nat), Chained R lo → notOverlapping R = true := by
  intro R
  induction R with
  | nil => intro _ _; rfl
  | cons x rest ih =>
    obtain ⟨st, bl⟩ := x
    intro lo h
    cases rest with
    | nil => rfl
    | cons y ys =>
      obtain ⟨st2, bl2⟩ := y
      simp only [notOverlapping, Bool.and_eq_true, decide_eq_true_eq]
      exact ⟨h.2.2.1, ih _ h.2.2⟩

theorem lk_none_of_lt : ∀ (R : List (Nat × List W)) (l : Nat), (∀ b ∈ R, l < b.1) → lk R l = none := by
  intro R l h
  unfold lk
  apply List.findSome?_eq_none_iff.mpr
  intro b hb
  have := h b hb
  simp; omega

/-- `LineSymbolMap::get` (last block starting at or before the line) agrees with the first-containing-block lookup -/
theorem get_eq_lk : ∀ (R : List (Nat × List W)) (lo : Nat), Chained R lo → ∀ l, LineMap.get R l = lk R l := by
  intro R
  induction R with
  | nil => intro _ _ l; simp [LineMap.get, lk]
  | cons x rest ih =>
    obtain ⟨st, bl⟩ := x
    intro lo h l
    have hrest := (chained_sorted rest _ h.2.2).2
    have ihh := ih _ h.2.2 l
    unfold LineMap.get at ihh ⊢
    unfold lk at ihh ⊢
    simp only [List.findSome?_cons, List.filter_cons]
    by_cases h1 : st ≤ l
    · simp only [h1, decide_true, if_true]
      by_cases h2 : l - st < bl.length
      · have hf : rest.filter (fun b => decide (b.1 ≤ l)) = [] := by
          apply List.filter_eq_nil_iff.mpr
          intro b hb; have := hrest b hb; simp; omega
        rw [hf]
        have e1 : bl[l - st]? = some bl[l - st] := List.getElem?_eq_getElem h2
        simp [e1]
      · have e1 : bl[l - st]? = none := List.getElem?_eq_none (by omega)
        rw [e1]
        simp only
        cases hf : rest.filter (fun b => decide (b.1 ≤ l)) with
        | nil =>
          rw [hf] at ihh
          simp only [List.getLast?_singleton, e1]
          simpa using ihh
        | cons y ys =>
          rw [hf] at ihh
          rw [List.getLast?_cons_cons]
          exact ihh
    · simp only [h1, decide_false, Bool.false_eq_true, if_false]
      have hf : rest.filter (fun b => decide (b.1 ≤ l)) = [] := by
        apply List.filter_eq_nil_iff.mpr
        intro b hb; have := hrest b hb; have := h.2.1; have : 0 < bl.length := List.length_pos_iff.mpr h.2.1; simp; omega
      rw [hf] at ihh ⊢
      simpa using ihh

/-- **`LineSymbolMap::new` on a per-line address vector** that ends with an address-less line and whose runs of consecutive
    lines have ascending addresses: construction succeeds, and `get l` is exactly the vector's entry for line `l` -/
theorem lineMap_new_spec (ls : List (Option W)) (he : EndsNone ls) (hasc : Asc ls = true) :
    ∃ m, LineMap.new ls = some m ∧ (∀ l, LineMap.get m l = (ls[l]?).join) ∧ m = runs ls 0 none ∧ Chained m 0 := by
  have hR : condenseLines ls 0 none [] = runs ls 0 none := by rw [condense_eq_runs]; rfl
  have hch : Chained (runs ls 0 none) 0 := by
    have := chained_runs ls 0 none (by simp) (by simp)
    simpa using this
  have hsorted := (chained_sorted _ _ hch).1
  have hfold : (runs ls 0 none).foldl (fun m b => insertSortedBy b.1 b.2 m) [] = runs ls 0 none := insAll_nil _ hsorted
  refine ⟨runs ls 0 none, ?_, fun l => ?_, rfl, hch⟩
  · unfold LineMap.new LineMap.fromBlocks
    rw [hR]
    simp only [hfold, chained_notOverlapping _ _ hch, if_true]
    have hall : (runs ls 0 none).all (fun b => sortedLE b.2) = true := by
      apply List.all_eq_true.mpr
      intro b hb
      exact sortedLE_runs ls 0 none (by simpa using hasc) b hb
    simp [hall]
  · rw [get_eq_lk _ _ hch l, lk_runs ls 0 none l he (fun h => by cases h) (by simp)]
    simp [vAt]

end Lc3V
