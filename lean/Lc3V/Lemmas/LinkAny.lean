/- Lemmas/LinkAny.lean — C17 and C18 without any restriction on symbol tables: link trees whose leaves are object files
   assembled from source, with or without symbol table (`LT2`); `Inv2`: a file either has no symbol table and a well-formed
   block map, or meets `TOk` and `BExtra`; `link_inv2`: `link` keeps it in all four cases (`tOk_rebase`: a symbol table over
   the merged blocks); `roundtrip_assembled_or_linked`. -/
import Lc3V.Lemmas.BinLink
set_option linter.unusedSimpArgs false
set_option linter.unusedVariables false
namespace Lc3V.C20
open Lc3V Txt

/-- a way of linking object files that may or may not carry symbol tables -/
inductive LT2 where
  | leaf (o : ObjFile)
  | node (l r : LT2)

def LT2.eval : LT2 → ARes ObjFile
  | .leaf o => .ok o
  | .node l r =>
    match l.eval with
    | .error e => .error e
    | .ok a =>
      match r.eval with
      | .error e => .error e
      | .ok b => ObjFile.link a b

/-- every leaf is an object file assembled from a source text that parses (with or without debug symbols) -/
def LT2.FromSource : LT2 → Prop
  | .leaf o => ∃ (src : List Char) (stmts : List Stmt) (dbg : Bool), parseAst src = .ok stmts ∧ 12 * blen src < 2 ^ 64 ∧
      assemble stmts (if dbg then some src else none) = .ok o
  | .node l r => l.FromSource ∧ r.FromSource

def dbo (o : ObjFile) : Nat := match o.sym with | some t => db t | none => 0

def LT2.size : LT2 → Nat
  | .leaf o => dbo o
  | .node l r => l.size + r.size

/-- what every object file produced by assembling and linking satisfies -/
def Inv2 (r : ObjFile) : Prop :=
  (r.sym = none ∧ BlocksWF r.blocks ∧ SortedKeys r.blocks ∧ r.blocks.Pairwise BlkBefore) ∨ (∃ t, TOk r t ∧ BExtra t)

theorem union_blocks (a b B : Blocks) (ha : SortedKeys a) (hb : SortedKeys b) (wa : BlocksWF a) (wb : BlocksWF b)
    (h : linkBlocks a b = .ok B) :
    BlocksWF B ∧ SortedKeys B ∧ B.Pairwise BlkBefore ∧ (∀ A w, CellAt B A w ↔ (CellAt a A w ∨ CellAt b A w)) := by
  obtain ⟨hs, hp, _, _, hc⟩ := linkBlocks_cells a b B ha hb h
  have hmem := linkBlocks_members a b B ha hb h
  refine ⟨⟨sortedKeys_pairwise_lt _ hs, fun x hx => ?_⟩, hs, hp, hc⟩
  rcases (hmem x).mp hx with h1 | h1
  · exact wa.2 x h1
  · exact wb.2 x h1

/-- a file's symbol table over a larger block map that contains the file's cells -/
theorem tOk_rebase (o : ObjFile) (t : SymTab) (h : TOk o t) (B : Blocks) (wB : BlocksWF B) (sB : SortedKeys B) (pB : B.Pairwise BlkBefore)
    (hc : ∀ A w, CellAt o.blocks A w → CellAt B A w) : TOk ⟨B, some t⟩ t := by
  refine ⟨rfl, ⟨sB, pB, h.wf.ukeys, h.wf.urel, fun r hr => ?_, h.wf.relExt⟩, wB, h.core, h.dbg⟩
  obtain ⟨w, hw⟩ := (cell_isSome_iff _ h.wf.disj r.1).mp (h.wf.relCell r hr)
  exact (cell_isSome_iff B pB r.1).mpr ⟨w, hc _ _ hw⟩

end Lc3V.C20

namespace Lc3V.C20
open Lc3V Txt

/-- an assembled file meets `Inv2` -/
theorem source_inv2 (src : List Char) (stmts : List Stmt) (dbg : Bool) (o : ObjFile) (hp : parseAst src = .ok stmts)
    (hz : 12 * blen src < 2 ^ 64) (ha : assemble stmts (if dbg then some src else none) = .ok o) : Inv2 o := by
  cases hs : o.sym with
  | none =>
    left
    obtain ⟨hwf, _⟩ := C17.source_roundtrip src stmts dbg o hp hz ha
    have hdisj := (assembled_blocks_disjoint stmts _ o ha).1
    exact ⟨hs, ⟨sortedKeys_pairwise_lt _ hwf.sorted, fun b hb => by have := hwf.fit b hb; omega⟩, hwf.sorted, hdisj⟩
  | some t =>
    right
    exact ⟨t, source_tOk src stmts dbg o hp hz ha t hs, source_bExtra src stmts dbg o hp hz ha t hs⟩

theorem inv2_sorted {r : ObjFile} (h : Inv2 r) : SortedKeys r.blocks ∧ BlocksWF r.blocks ∧ r.blocks.Pairwise BlkBefore := by
  rcases h with ⟨_, h1, h2, h3⟩ | ⟨t, ht, _⟩
  · exact ⟨h2, h1, h3⟩
  · exact ⟨ht.wf.sorted, ht.blocks, ht.wf.disj⟩

/-- **`link` keeps `Inv2`**, whichever of the two operands carry symbol tables -/
theorem link_inv2 (a b r : ObjFile) (ha : Inv2 a) (hb : Inv2 b) (hfit : dbo a + dbo b ≤ 2 ^ 64) (h : ObjFile.link a b = .ok r) :
    Inv2 r ∧ dbo r = dbo a + dbo b := by
  obtain ⟨sa, wa, pa⟩ := inv2_sorted ha
  obtain ⟨sb, wb, pb⟩ := inv2_sorted hb
  rcases ha with ⟨han, _⟩ | ⟨ta, hta, xa⟩
  · -- a has no symbol table: the result keeps b's
    unfold ObjFile.link at h
    cases hbl : linkBlocks a.blocks b.blocks with
    | error e => rw [hbl] at h; cases h
    | ok B =>
      rw [hbl, han] at h
      simp only at h
      cases h
      obtain ⟨wB, sB, pB, hc⟩ := union_blocks a.blocks b.blocks B sa sb wa wb hbl
      rcases hb with ⟨hbn, _⟩ | ⟨tb, htb, xb⟩
      · exact ⟨Or.inl ⟨hbn, wB, sB, pB⟩, by simp [dbo, han, hbn]⟩
      · have := tOk_rebase b tb htb B wB sB pB (fun A w hw => (hc A w).mpr (Or.inr hw))
        rw [htb.sym]
        exact ⟨Or.inr ⟨tb, this, xb⟩, by simp [dbo, han, htb.sym]⟩
  · rcases hb with ⟨hbn, _⟩ | ⟨tb, htb, xb⟩
    · -- b has no symbol table: the result keeps a's
      unfold ObjFile.link at h
      cases hbl : linkBlocks a.blocks b.blocks with
      | error e => rw [hbl] at h; cases h
      | ok B =>
        rw [hbl, hta.sym, hbn] at h
        simp only at h
        cases h
        obtain ⟨wB, sB, pB, hc⟩ := union_blocks a.blocks b.blocks B sa sb wa wb hbl
        have := tOk_rebase a ta hta B wB sB pB (fun A w hw => (hc A w).mpr (Or.inl hw))
        exact ⟨Or.inr ⟨ta, this, xa⟩, by simp [dbo, hta.sym, hbn]⟩
    · -- both carry symbol tables
      have hda : dbo a = db ta := by simp [dbo, hta.sym]
      have hdb : dbo b = db tb := by simp [dbo, htb.sym]
      rw [hda, hdb] at hfit ⊢
      have h1 := dl_le_db a ta hta
      have h2 := dl_le_db b tb htb
      obtain ⟨tr, htr, _⟩ := link_tOk_dl a b r ta tb hta htb (by omega) h
      obtain ⟨xr, hdr⟩ := link_bExtra a b r ta tb hta htb xa xb hfit h tr htr.sym
      have hdr' : dbo r = db tr := by simp [dbo, htr.sym]
      exact ⟨Or.inr ⟨tr, htr, xr⟩, by rw [hdr', hdr]⟩

theorem LT2.inv : ∀ (t : LT2) (r : ObjFile), t.FromSource → t.size ≤ 2 ^ 64 → t.eval = .ok r → Inv2 r ∧ dbo r = t.size
  | .leaf o, r, ⟨src, stmts, dbg, hp, hz, ha⟩, _, he => by
    simp only [LT2.eval, Except.ok.injEq] at he
    subst he
    exact ⟨source_inv2 src stmts dbg o hp hz ha, rfl⟩
  | .node l rt, r, ⟨hl', hr'⟩, hsum, he => by
    simp only [LT2.eval] at he
    simp only [LT2.size] at hsum ⊢
    cases hl : l.eval with
    | error e => rw [hl] at he; cases he
    | ok a =>
      rw [hl] at he
      simp only at he
      cases hr : rt.eval with
      | error e => rw [hr] at he; cases he
      | ok b =>
        rw [hr] at he
        simp only at he
        obtain ⟨ia, hda⟩ := LT2.inv l a hl' (by omega) hl
        obtain ⟨ib, hdb⟩ := LT2.inv rt b hr' (by omega) hr
        obtain ⟨ir, hdr⟩ := link_inv2 a b r ia ib (by omega) he
        exact ⟨ir, by omega⟩

/-- **C17 and C18 as stated, no restriction on symbol tables**: any object file produced by assembling source texts (with or
    without debug symbols, with or without external labels) and linking the results in any order and grouping is read back
    unchanged from the binary format, and from the text format with the same blocks, tables (writer's row order), line
    table and source text (the sources with debug symbols, plus one byte each, fit 2^64 bytes) -/
theorem roundtrip_assembled_or_linked (t : LT2) (r : ObjFile) (hs : t.FromSource) (hsize : t.size ≤ 2 ^ 64) (he : t.eval = .ok r) :
    Bin.deserialize (Bin.serialize r) = some r ∧
    Txt.deserialize (Txt.serialize r) = some ⟨r.blocks, r.sym.map (fun tr => ⟨sortBy symLt tr.labels, sortBy relLt tr.rel, tr.debug⟩)⟩ := by
  obtain ⟨hinv, _⟩ := t.inv r hs hsize he
  rcases hinv with ⟨hn, wB, sB, pB⟩ | ⟨tr, htr, xr⟩
  · have hr : r = ⟨r.blocks, none⟩ := by cases r; simp only at hn; rw [hn]
    constructor
    · exact Bin.deserialize_serialize r ⟨sB, fun b hb => by have := wB.2 b hb; omega, fun t' ht' => by rw [hn] at ht'; cases ht'⟩
    · rw [hn]; simp only [Option.map_none]
      conv => lhs; rw [hr]
      exact text_section_roundtrip _ wB
  · constructor
    · exact Bin.deserialize_serialize r (binWF_of r tr htr xr)
    · rw [htr.sym]; simp only [Option.map_some]
      exact tOk_roundtrip r tr htr

end Lc3V.C20

