/- Lemmas/LinkExternal.lean — C21 after linking any number of files: from `LTree.spec` (Lemmas/LinkTree) — a relocation entry
   whose label some linked file defines is replaced by the defining address and no longer pending; an entry whose label no
   file defines stays pending, the label stays external and loading is refused. -/
import Lc3V.Lemmas.LinkSource
namespace Lc3V.C21
open Lc3V C20

/-- **after linking, every `.fill` of a label some linked file defines holds that label's address** — for any number of
    files assembled from source, linked in any order and grouping: a relocation entry `(X, K)` of one of the files and a
    definition of `K` at `V` in one of the files put `V` at `X` in the result, and the entry is no longer pending -/
theorem tree_fills_external (t : LTree) (r : ObjFile) (hs : t.FromSource) (he : t.eval = .ok r) (X : W) (K : Key) (V : W)
    (hent : EntryIn t.leaves X K) (hdef : DefIn t.leaves K V) :
    cell r.blocks X = some (some V) ∧ ∃ tr, r.sym = some tr ∧ (X, K) ∉ tr.rel ∧ DefAt tr.labels K V := by
  obtain ⟨tr, hsr, N⟩ := t.spec r (LTree.FromSource.wf t hs) he
  refine ⟨N.patched X K V hent hdef, tr, hsr, ?_, (N.defs K V).mpr hdef⟩
  intro hin
  exact ((N.pending X K).mp hin).2 V hdef

/-- **and an external no linked file defines is never silently dropped**: its relocation entries stay pending, the label
    stays external, the file still lists external symbols, and loading it is refused with `UnresolvedExternal` -/
theorem tree_unresolved_refuses_load (t : LTree) (r : ObjFile) (hs : t.FromSource) (he : t.eval = .ok r) (X : W) (K : Key)
    (hent : EntryIn t.leaves X K) (hnodef : ∀ V, ¬ DefIn t.leaves K V) (sim : Sim) (blocks : List (W × List (Option W))) :
    (∃ tr, r.sym = some tr ∧ (X, K) ∈ tr.rel ∧ ExtO (lookupKey tr.labels K)) ∧
    r.externalSymbols ≠ [] ∧ sim.loadObj blocks (!r.externalSymbols.isEmpty) = (.error .unresolvedExternal, sim) := by
  obtain ⟨tr, hsr, N⟩ := t.spec r (LTree.FromSource.wf t hs) he
  have hpend : (X, K) ∈ tr.rel := (N.pending X K).mpr ⟨hent, hnodef⟩
  have hext : ExtO (lookupKey tr.labels K) := N.wf.relExt _ hpend
  obtain ⟨d, hd, hde⟩ := hext
  have hne : r.externalSymbols ≠ [] := external_symbols_nonempty r tr hsr K d (lookupKey_some_mem tr.labels K d hd) hde
  refine ⟨⟨tr, hsr, hpend, ⟨d, hd, hde⟩⟩, hne, ?_⟩
  have : (!r.externalSymbols.isEmpty) = true := by
    cases hx : r.externalSymbols with
    | nil => exact absurd hx hne
    | cons a rest => rfl
  rw [this]
  exact load_refused sim blocks

end Lc3V.C21
