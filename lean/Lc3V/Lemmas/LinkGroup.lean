/- Lemmas/LinkGroup.lean — grouping of nested links (C20): the block part (`linkBlocks_grouping`: `(a ∪ b) ∪ c` and
   `a ∪ (b ∪ c)` succeed together with the same block map), the label tables (`labels_grouping`, `labels_grouping_ok`:
   same address/flag per key, same success), layouts (`skel`: the block part looks at starts and lengths only) and whole
   files (`link_grouping_ok`, `link_grouping_outcome`). -/
import Lc3V.Lemmas.C20Core
set_option linter.unusedSimpArgs false
set_option linter.unusedVariables false
namespace Lc3V.C20
open Lc3V

/-- on a map sorted by start, "pairwise before" is a property of the set of blocks -/
theorem pw_iff_mem : ∀ (l : Blocks), SortedKeys l →
    (l.Pairwise BlkBefore ↔ ∀ x ∈ l, ∀ y ∈ l, x.1 < y.1 → BlkBefore x y) := by
  intro l
  induction l with
  | nil => intro _; simp
  | cons a rest ih =>
    intro hs
    have hlt := hs.head_lt
    rw [List.pairwise_cons, ih hs.tail]
    constructor
    · rintro ⟨h1, h2⟩ x hx y hy hxy
      rcases List.mem_cons.mp hx with rfl | hx'
      · rcases List.mem_cons.mp hy with rfl | hy'
        · omega
        · exact h1 y hy'
      · rcases List.mem_cons.mp hy with rfl | hy'
        · have := hlt x hx'; omega
        · exact h2 x hx' y hy' hxy
    · intro h
      exact ⟨fun y hy => h a (by simp) y (by simp [hy]) (hlt y hy),
        fun x hx y hy hxy => h x (by simp [hx]) y (by simp [hy]) hxy⟩

theorem linkBlocks_eq_insAll (a b r : Blocks) (h : linkBlocks a b = .ok r) : r = insAll a b := by
  have e1 : linkBlocks a b = (if (linkFold a b false).2 then .error ⟨.overlappingBlocks, [(0, 0)]⟩
      else if adjacentOverlap (linkFold a b false).1 then .error ⟨.overlappingBlocks, [(0, 0)]⟩ else .ok (linkFold a b false).1) := rfl
  rw [e1] at h
  split at h
  · cases h
  · split at h
    · cases h
    · rw [linkFold_fst] at h; cases h; rfl

/-- **grouping of the block part**: `(a ∪ b) ∪ c` links exactly when `a ∪ (b ∪ c)` does, with the same block map -/
theorem linkBlocks_assoc (a b c ab r : Blocks) (ha : SortedKeys a) (hb : SortedKeys b) (hc : SortedKeys c)
    (h1 : linkBlocks a b = .ok ab) (h2 : linkBlocks ab c = .ok r) :
    ∃ bc, linkBlocks b c = .ok bc ∧ linkBlocks a bc = .ok r := by
  have eab := linkBlocks_eq_insAll a b ab h1
  have hsab : SortedKeys ab := by rw [eab]; exact sorted_insAll b a ha
  obtain ⟨nab, pab⟩ := (linkBlocks_ok_iff a b ha hb).mp ⟨ab, h1⟩
  obtain ⟨nabc, pabc⟩ := (linkBlocks_ok_iff ab c hsab hc).mp ⟨r, h2⟩
  have mab := linkBlocks_members a b ab ha hb h1
  have mr := linkBlocks_members ab c r hsab hc h2
  have er := linkBlocks_eq_insAll ab c r h2
  have hsr : SortedKeys r := by rw [er]; exact sorted_insAll c ab hsab
  rw [← er] at pabc
  have pr := (pw_iff_mem r hsr).mp pabc
  -- b ∪ c
  have nbc : ¬ CommonKey b c := by
    rintro ⟨x, hx, y, hy, e⟩; exact nabc ⟨x, (mab x).mpr (Or.inr hx), y, hy, e⟩
  have hsbc : SortedKeys (insAll b c) := sorted_insAll c b hb
  have mbc := mem_insAll c b hb hc nbc
  have pbc : (insAll b c).Pairwise BlkBefore := by
    rw [pw_iff_mem _ hsbc]
    intro x hx y hy hxy
    refine pr x ((mr x).mpr ?_) y ((mr y).mpr ?_) hxy
    · rcases (mbc x).mp hx with h | h
      · exact Or.inl ((mab x).mpr (Or.inr h))
      · exact Or.inr h
    · rcases (mbc y).mp hy with h | h
      · exact Or.inl ((mab y).mpr (Or.inr h))
      · exact Or.inr h
  obtain ⟨bc, hbc⟩ := (linkBlocks_ok_iff b c hb hc).mpr ⟨nbc, pbc⟩
  have ebc := linkBlocks_eq_insAll b c bc hbc
  have hsbc' : SortedKeys bc := by rw [ebc]; exact hsbc
  have mbc' : ∀ x, x ∈ bc ↔ x ∈ b ∨ x ∈ c := by rw [ebc]; exact mbc
  -- a ∪ (b ∪ c)
  have nabc' : ¬ CommonKey a bc := by
    rintro ⟨x, hx, y, hy, e⟩
    rcases (mbc' y).mp hy with h | h
    · exact nab ⟨x, hx, y, h, e⟩
    · exact nabc ⟨x, (mab x).mpr (Or.inl hx), y, h, e⟩
  have hsf : SortedKeys (insAll a bc) := sorted_insAll bc a ha
  have mf := mem_insAll bc a ha hsbc' nabc'
  have mem_same : ∀ x, x ∈ insAll a bc ↔ x ∈ r := by
    intro x
    rw [mf x, mr x, mab x, mbc' x]
    constructor
    · rintro (h | h | h)
      · exact Or.inl (Or.inl h)
      · exact Or.inl (Or.inr h)
      · exact Or.inr h
    · rintro ((h | h) | h)
      · exact Or.inl h
      · exact Or.inr (Or.inl h)
      · exact Or.inr (Or.inr h)
  have pf : (insAll a bc).Pairwise BlkBefore := by
    rw [pw_iff_mem _ hsf]
    intro x hx y hy hxy
    exact pr x ((mem_same x).mp hx) y ((mem_same y).mp hy) hxy
  obtain ⟨r', hr'⟩ := (linkBlocks_ok_iff a bc ha hsbc').mpr ⟨nabc', pf⟩
  have er' := linkBlocks_eq_insAll a bc r' hr'
  have : r' = r := by rw [er']; exact sorted_ext _ _ hsf hsr mem_same
  exact ⟨bc, hbc, by rw [hr', this]⟩


/-- the other direction, from commutativity -/
theorem linkBlocks_assoc' (a b c bc r : Blocks) (ha : SortedKeys a) (hb : SortedKeys b) (hc : SortedKeys c)
    (h1 : linkBlocks b c = .ok bc) (h2 : linkBlocks a bc = .ok r) :
    ∃ ab, linkBlocks a b = .ok ab ∧ linkBlocks ab c = .ok r := by
  have ebc := linkBlocks_eq_insAll b c bc h1
  have hsbc : SortedKeys bc := by rw [ebc]; exact sorted_insAll c b hb
  have h1' : linkBlocks c b = .ok bc := by rw [linkBlocks_comm c b hc hb]; exact h1
  have h2' : linkBlocks bc a = .ok r := by rw [linkBlocks_comm bc a hsbc ha]; exact h2
  obtain ⟨ba, hba, hr⟩ := linkBlocks_assoc c b a bc r hc hb ha h1' h2'
  have eba := linkBlocks_eq_insAll b a ba hba
  have hsba : SortedKeys ba := by rw [eba]; exact sorted_insAll a b hb
  exact ⟨ba, by rw [linkBlocks_comm a b ha hb]; exact hba, by rw [linkBlocks_comm ba c hsba hc]; exact hr⟩

/-- **the block part of linking does not depend on the grouping**: `(a ∪ b) ∪ c` and `a ∪ (b ∪ c)` succeed together and
    give the same block map -/
theorem linkBlocks_grouping (a b c r : Blocks) (ha : SortedKeys a) (hb : SortedKeys b) (hc : SortedKeys c) :
    (∃ ab, linkBlocks a b = .ok ab ∧ linkBlocks ab c = .ok r) ↔ (∃ bc, linkBlocks b c = .ok bc ∧ linkBlocks a bc = .ok r) :=
  ⟨fun ⟨ab, h1, h2⟩ => linkBlocks_assoc a b c ab r ha hb hc h1 h2,
   fun ⟨bc, h1, h2⟩ => linkBlocks_assoc' a b c bc r ha hb hc h1 h2⟩


/-! ### grouping of the label tables -/

theorem linkLabel_unique (st st' : LinkSt) (k : Key) (d : SymData) (h : linkLabel st (k, d) = .ok st')
    (hu : st.labels.Pairwise (fun x y => (x.1 == y.1) = false)) :
    st'.labels.Pairwise (fun x y => (x.1 == y.1) = false) := by
  unfold linkLabel at h
  dsimp only at h
  cases hl : lookupKey st.labels k with
  | none =>
    rw [hl] at h
    cases h
    rw [List.pairwise_append]
    refine ⟨hu, by simp, ?_⟩
    intro x hx y hy
    simp only [List.mem_singleton] at hy; subst hy
    exact lookupKey_none_iff _ _ hl x hx
  | some ad =>
    rw [hl] at h
    dsimp only at h
    by_cases h1 : (ad.ext && d.ext) = true
    · simp only [h1, if_true] at h; cases h; exact hu
    · simp only [h1, Bool.false_eq_true, if_false] at h
      by_cases h2 : (ad.ext || d.ext) = true
      · simp only [h2, if_true, List.partition_eq_filter_filter] at h
        cases h
        show (setKey st.labels k _).Pairwise _
        unfold setKey
        rw [List.pairwise_map]
        refine hu.imp ?_
        intro x y hxy
        by_cases hx : (x.1 == k) = true
        · have ex := beq_iff_eq.mp hx
          by_cases hy : (y.1 == k) = true
          · have ey := beq_iff_eq.mp hy
            rw [ex, ey] at hxy; simp at hxy
          · simp only [hx, hy, if_true, Bool.false_eq_true, if_false]
            try (first | (rw [← ex]; exact hxy) | exact hxy)
        · by_cases hy : (y.1 == k) = true
          · have ey := beq_iff_eq.mp hy
            simp only [hx, hy, if_true, Bool.false_eq_true, if_false]
            try (first | (rw [← ey]; exact hxy) | exact hxy)
          · simp only [hx, hy, Bool.false_eq_true, if_false]
            exact hxy
      · simp only [h2, Bool.false_eq_true, if_false] at h
        split at h
        · cases h
        · cases h; exact hu

theorem linkFold_unique (f : Key × SymData → Key × SymData) : ∀ (l : List (Key × SymData)) (st st' : LinkSt),
    l.foldlM (fun s e => linkLabel s (f e)) st = .ok st' →
    st.labels.Pairwise (fun x y => (x.1 == y.1) = false) → st'.labels.Pairwise (fun x y => (x.1 == y.1) = false) := by
  intro l
  induction l with
  | nil => intro st st' h hu; simp only [List.foldlM_nil] at h; cases h; exact hu
  | cons x rest ih =>
    intro st st' h hu
    rw [List.foldlM_cons] at h
    cases h1 : linkLabel st (f x) with
    | error e => rw [h1] at h; cases h
    | ok s1 =>
      rw [h1] at h
      exact ih s1 st' h (linkLabel_unique st s1 (f x).1 (f x).2 h1 hu)


/-- what a key maps to after merging a second table into a first (address and external flag) -/
def comb (x y : Option SymData) : Option SymData :=
  match y with
  | none => x
  | some yd => some (combineSym x yd)

/-- the merged table, key by key -/
theorem linkFold_lookup (f : Key × SymData → Key × SymData) (hf : ∀ e, (f e).1 = e.1 ∧ core (f e).2 = core e.2)
    (la lb : List (Key × SymData)) (hub : lb.Pairwise (fun x y => (x.1 == y.1) = false))
    (ra : List (W × Key)) (rl : List (W × W)) (s : LinkSt)
    (h : lb.foldlM (fun s e => linkLabel s (f e)) ⟨la, ra, rl⟩ = .ok s) (K : Key) :
    (lookupKey s.labels K).map core = (comb (lookupKey la K) (lookupKey lb K)).map core := by
  obtain ⟨p1, p2, _⟩ := linkFold_pointwise f (fun e => (hf e).1) lb _ s hub h
  simp only at p1 p2
  cases hlb : lookupKey lb K with
  | none => rw [p1 K (lookupKey_none_iff lb K hlb)]; rfl
  | some bd =>
    have hm := lookupKey_some_mem lb K bd hlb
    rw [p2 (K, bd) hm]
    simp only [comb, Option.map_some]
    have c := (hf (K, bd)).2
    simp only [core, Prod.mk.injEq] at c
    cases hla : lookupKey la K with
    | none => simp only [combineSym, core, c.1, c.2]
    | some ad =>
      simp only [combineSym, c.2]
      split
      · rfl
      · split
        · split
          · simp only [core, c.1, c.2]
          · rfl
        · rfl

/-- `comb` is associative on addresses and external flags: the result is the leftmost definition if there is one, else the
    leftmost declaration -/
theorem comb_assoc (A B C : Option SymData) :
    (comb (comb A B) C).map core = (comb A (comb B C)).map core := by
  cases A <;> cases B <;> cases C <;> simp only [comb, combineSym, Option.map_some, Option.map_none] <;>
    (try rfl) <;> (repeat' split) <;> simp_all

/-- mapping with `core` commutes with `comb` up to `core` -/
theorem comb_core_congr {A A' B B' : Option SymData} (ha : A.map core = A'.map core) (hb : B.map core = B'.map core) :
    (comb A B).map core = (comb A' B').map core := by
  cases A <;> cases A' <;> cases B <;> cases B' <;> simp only [Option.map_some, Option.map_none, reduceCtorEq] at ha hb <;>
    simp only [comb, combineSym, Option.map_some, Option.map_none] <;> (try rfl)
  all_goals (simp only [core, Option.some.injEq, Prod.mk.injEq] at ha hb ⊢)
  all_goals (repeat' split) <;> simp_all


/-- **grouping of the merged labels**: when the label folds of `(a ∪ b) ∪ c` and of `a ∪ (b ∪ c)` all get through, every
    key has the same address and external flag in both results (tables with unique keys, as in every assembled or linked
    file; the functions are the source-position shifts `link` applies, which leave address and flag alone) -/
theorem labels_grouping (f1 f2 g1 g2 : Key × SymData → Key × SymData)
    (hf1 : ∀ e, (f1 e).1 = e.1 ∧ core (f1 e).2 = core e.2) (hf2 : ∀ e, (f2 e).1 = e.1 ∧ core (f2 e).2 = core e.2)
    (hg1 : ∀ e, (g1 e).1 = e.1 ∧ core (g1 e).2 = core e.2) (hg2 : ∀ e, (g2 e).1 = e.1 ∧ core (g2 e).2 = core e.2)
    (la lb lc : List (Key × SymData))
    (hub : lb.Pairwise (fun x y => (x.1 == y.1) = false)) (huc : lc.Pairwise (fun x y => (x.1 == y.1) = false))
    (r1 r2 r3 r4 : List (W × Key)) (sab sr sbc sr' : LinkSt)
    (hab : lb.foldlM (fun s e => linkLabel s (f1 e)) ⟨la, r1, []⟩ = .ok sab)
    (hr : lc.foldlM (fun s e => linkLabel s (f2 e)) ⟨sab.labels, r2, []⟩ = .ok sr)
    (hbc : lc.foldlM (fun s e => linkLabel s (g1 e)) ⟨lb, r3, []⟩ = .ok sbc)
    (hr' : sbc.labels.foldlM (fun s e => linkLabel s (g2 e)) ⟨la, r4, []⟩ = .ok sr') (K : Key) :
    (lookupKey sr.labels K).map core = (lookupKey sr'.labels K).map core := by
  have usbc := linkFold_unique g1 lc _ sbc hbc hub
  have e1 := linkFold_lookup f1 hf1 la lb hub r1 [] sab hab K
  have e2 := linkFold_lookup f2 hf2 sab.labels lc huc r2 [] sr hr K
  have e3 := linkFold_lookup g1 hg1 lb lc huc r3 [] sbc hbc K
  have e4 := linkFold_lookup g2 hg2 la sbc.labels usbc r4 [] sr' hr' K
  rw [e2, e4, comb_core_congr e1 rfl, comb_core_congr rfl e3]
  exact comb_assoc _ _ _

/-- both sides define the label (neither external) at different addresses -/
def clash (x y : Option SymData) : Bool :=
  match x, y with
  | some a, some b => !a.ext && !b.ext && (a.addr != b.addr)
  | _, _ => false

theorem clash_core_congr {A A' B B' : Option SymData} (ha : A.map core = A'.map core) (hb : B.map core = B'.map core) :
    clash A B = clash A' B' := by
  cases A <;> cases A' <;> cases B <;> cases B' <;> simp only [Option.map_some, Option.map_none, reduceCtorEq] at ha hb <;>
    simp only [clash]
  simp only [core, Option.some.injEq, Prod.mk.injEq] at ha hb
  rw [ha.1, ha.2, hb.1, hb.2]

/-- the label fold succeeds exactly when no key clashes -/
theorem linkFold_ok_iff_clash (f : Key × SymData → Key × SymData) (hf : ∀ e, (f e).1 = e.1 ∧ core (f e).2 = core e.2)
    (la lb : List (Key × SymData)) (hub : lb.Pairwise (fun x y => (x.1 == y.1) = false))
    (ra : List (W × Key)) (rl : List (W × W)) :
    (∃ s, lb.foldlM (fun s e => linkLabel s (f e)) ⟨la, ra, rl⟩ = .ok s) ↔
      ∀ K, clash (lookupKey la K) (lookupKey lb K) = false := by
  rw [linkFold_ok_iff f (fun e => (hf e).1) lb _ hub]
  have key : ∀ e ∈ lb, conflictIn la (f e) = clash (lookupKey la e.1) (lookupKey lb e.1) := by
    intro e he
    rw [lookupKey_of_mem_pw lb hub e he]
    unfold conflictIn clash
    rw [(hf e).1]
    have c := (hf e).2
    simp only [core, Prod.mk.injEq] at c
    cases lookupKey la e.1 with
    | none => rfl
    | some ad => simp only [c.1, c.2]
  constructor
  · intro h K
    cases hlb : lookupKey lb K with
    | none => cases lookupKey la K <;> rfl
    | some bd =>
      have hm := lookupKey_some_mem lb K bd hlb
      have := h (K, bd) hm
      rw [key _ hm] at this
      simp only at this
      rw [hlb] at this
      exact this
  · intro h e he
    show conflictIn la (f e) = false
    rw [key e he]; exact h e.1

/-- pointwise: "no clash when merging left to right" is the same condition in both groupings -/
theorem clash_grouping (A B C : Option SymData) :
    (clash A B = false ∧ clash (comb A B) C = false) ↔ (clash B C = false ∧ clash A (comb B C) = false) := by
  cases A <;> cases B <;> cases C <;> simp only [clash, comb, combineSym]
  all_goals (try simp)
  all_goals (rename_i a b; try rename_i c)
  all_goals (cases ha : SymData.ext a <;> cases hb : SymData.ext b)
  all_goals (try (cases hc : SymData.ext c))
  all_goals simp_all
  constructor <;> (rintro ⟨h1, h2⟩; constructor <;> simp_all)

/-- **grouping of the label merge, success side**: merging b's labels into a's and then c's into the result gets through
    exactly when merging c's into b's and then the result into a's does (tables with unique keys; `f1 … g2` are the
    source-position shifts, `r1 … r4` whatever relocation lists the folds carry) -/
theorem labels_grouping_ok (f1 f2 g1 g2 : Key × SymData → Key × SymData)
    (hf1 : ∀ e, (f1 e).1 = e.1 ∧ core (f1 e).2 = core e.2) (hf2 : ∀ e, (f2 e).1 = e.1 ∧ core (f2 e).2 = core e.2)
    (hg1 : ∀ e, (g1 e).1 = e.1 ∧ core (g1 e).2 = core e.2) (hg2 : ∀ e, (g2 e).1 = e.1 ∧ core (g2 e).2 = core e.2)
    (la lb lc : List (Key × SymData))
    (hub : lb.Pairwise (fun x y => (x.1 == y.1) = false)) (huc : lc.Pairwise (fun x y => (x.1 == y.1) = false))
    (r1 r3 : List (W × Key)) (r2 r4 : LinkSt → List (W × Key)) :
    (∃ sab sr, lb.foldlM (fun s e => linkLabel s (f1 e)) ⟨la, r1, []⟩ = .ok sab ∧
       lc.foldlM (fun s e => linkLabel s (f2 e)) ⟨sab.labels, r2 sab, []⟩ = .ok sr) ↔
    (∃ sbc sr', lc.foldlM (fun s e => linkLabel s (g1 e)) ⟨lb, r3, []⟩ = .ok sbc ∧
       sbc.labels.foldlM (fun s e => linkLabel s (g2 e)) ⟨la, r4 sbc, []⟩ = .ok sr') := by
  constructor
  · rintro ⟨sab, sr, hab, hr⟩
    have c1 := (linkFold_ok_iff_clash f1 hf1 la lb hub r1 []).mp ⟨sab, hab⟩
    have c2 := (linkFold_ok_iff_clash f2 hf2 sab.labels lc huc (r2 sab) []).mp ⟨sr, hr⟩
    have key : ∀ K, clash (lookupKey lb K) (lookupKey lc K) = false ∧
        clash (lookupKey la K) (comb (lookupKey lb K) (lookupKey lc K)) = false := by
      intro K
      refine (clash_grouping _ _ _).mp ⟨c1 K, ?_⟩
      rw [← clash_core_congr (linkFold_lookup f1 hf1 la lb hub r1 [] sab hab K) rfl]; exact c2 K
    obtain ⟨sbc, hbc⟩ := (linkFold_ok_iff_clash g1 hg1 lb lc huc r3 []).mpr (fun K => (key K).1)
    have usbc := linkFold_unique g1 lc _ sbc hbc hub
    obtain ⟨sr', hr'⟩ := (linkFold_ok_iff_clash g2 hg2 la sbc.labels usbc (r4 sbc) []).mpr (fun K => by
      rw [clash_core_congr rfl (linkFold_lookup g1 hg1 lb lc huc r3 [] sbc hbc K)]; exact (key K).2)
    exact ⟨sbc, sr', hbc, hr'⟩
  · rintro ⟨sbc, sr', hbc, hr'⟩
    have usbc := linkFold_unique g1 lc _ sbc hbc hub
    have c1 := (linkFold_ok_iff_clash g1 hg1 lb lc huc r3 []).mp ⟨sbc, hbc⟩
    have c2 := (linkFold_ok_iff_clash g2 hg2 la sbc.labels usbc (r4 sbc) []).mp ⟨sr', hr'⟩
    have key : ∀ K, clash (lookupKey la K) (lookupKey lb K) = false ∧
        clash (comb (lookupKey la K) (lookupKey lb K)) (lookupKey lc K) = false := by
      intro K
      refine (clash_grouping _ _ _).mpr ⟨c1 K, ?_⟩
      rw [← clash_core_congr rfl (linkFold_lookup g1 hg1 lb lc huc r3 [] sbc hbc K)]; exact c2 K
    obtain ⟨sab, hab⟩ := (linkFold_ok_iff_clash f1 hf1 la lb hub r1 []).mpr (fun K => (key K).1)
    obtain ⟨sr, hr⟩ := (linkFold_ok_iff_clash f2 hf2 sab.labels lc huc (r2 sab) []).mpr (fun K => by
      rw [clash_core_congr (linkFold_lookup f1 hf1 la lb hub r1 [] sab hab K) rfl]; exact (key K).2)
    exact ⟨sab, sr, hab, hr⟩

/-- layout of a block map: starts and lengths only -/
def skel (m : Blocks) : Blocks := m.map (fun e => (e.1, List.replicate e.2.length (none : Option W)))

theorem skel_keys (m : Blocks) : (skel m).map (·.1) = m.map (·.1) := by
  unfold skel; rw [List.map_map]; rfl

theorem sortedKeys_of_keys {α β : Type} : ∀ (m : List (Nat × α)) (m' : List (Nat × β)), m.map (·.1) = m'.map (·.1) →
    SortedKeys m → SortedKeys m'
  | [], [], _, _ => trivial
  | [], _ :: _, h, _ => by cases h
  | _ :: _, [], h, _ => by cases h
  | [_], [_], _, _ => trivial
  | [_], _ :: _ :: _, h, _ => by simp at h
  | _ :: _ :: _, [_], h, _ => by simp at h
  | a :: b :: rest, a' :: b' :: rest', h, hs => by
    simp only [List.map_cons, List.cons.injEq] at h
    obtain ⟨h1, h2, h3⟩ := h
    refine ⟨by rw [← h1, ← h2]; exact hs.1, ?_⟩
    exact sortedKeys_of_keys (b :: rest) (b' :: rest') (by simp only [List.map_cons, h2, h3]) hs.2

theorem skel_sorted (m : Blocks) (h : SortedKeys m) : SortedKeys (skel m) :=
  sortedKeys_of_keys m (skel m) (skel_keys m).symm h

theorem sorted_of_skel (m : Blocks) (h : SortedKeys (skel m)) : SortedKeys m :=
  sortedKeys_of_keys (skel m) m (skel_keys m) h

theorem skel_insert (k : Nat) (v : List (Option W)) : ∀ m : Blocks,
    skel (insertSortedBy k v m) = insertSortedBy k (List.replicate v.length none) (skel m) := by
  intro m
  induction m with
  | nil => rfl
  | cons e rest ih =>
    obtain ⟨k', v'⟩ := e
    simp only [insertSortedBy, skel, List.map_cons]
    split
    · rfl
    · split
      · rfl
      · simp only [List.map_cons]; congr 1

theorem skel_any (m : Blocks) (k : Nat) : (skel m).any (fun e => e.1 == k) = m.any (fun e => e.1 == k) := by
  unfold skel; rw [List.any_map]; rfl

theorem skel_adjacent : ∀ m : Blocks, adjacentOverlap (skel m) = adjacentOverlap m
  | [] => rfl
  | [_] => rfl
  | (a, ab) :: (b, bb) :: rest => by
    have ih := skel_adjacent ((b, bb) :: rest)
    simp only [skel, List.map_cons, adjacentOverlap, List.length_replicate] at ih ⊢
    rw [ih]

theorem skel_fold (b : Blocks) : ∀ (a : Blocks) (d : Bool),
    (skel b).foldl (fun (acc : Blocks × Bool) e => ((insertBlockRaw e.1 e.2 acc.1).1, acc.2 || (insertBlockRaw e.1 e.2 acc.1).2)) (skel a, d) =
    (skel (b.foldl (fun (acc : Blocks × Bool) e => ((insertBlockRaw e.1 e.2 acc.1).1, acc.2 || (insertBlockRaw e.1 e.2 acc.1).2)) (a, d)).1,
     (b.foldl (fun (acc : Blocks × Bool) e => ((insertBlockRaw e.1 e.2 acc.1).1, acc.2 || (insertBlockRaw e.1 e.2 acc.1).2)) (a, d)).2) := by
  induction b with
  | nil => intro a d; rfl
  | cons e rest ih =>
    intro a d
    have := ih (insertBlockRaw e.1 e.2 a).1 (d || (insertBlockRaw e.1 e.2 a).2)
    simp only [List.foldl_cons]
    rw [← this]
    simp only [skel, List.map_cons, List.foldl_cons, insertBlockRaw]
    have h1 := skel_insert e.1 e.2 a
    have h2 := skel_any a e.1
    simp only [skel] at h1 h2
    rw [h1, h2]

/-- the block part of linking looks at starts and lengths only -/
theorem linkBlocks_skel (a b : Blocks) :
    linkBlocks (skel a) (skel b) = match linkBlocks a b with
      | .ok r => .ok (skel r)
      | .error e => .error e := by
  unfold linkBlocks
  simp only [skel_fold b a false, skel_adjacent]
  split
  · rfl
  · split <;> rfl

theorem linkBlocks_skel_ok (a b r : Blocks) (h : linkBlocks a b = .ok r) : linkBlocks (skel a) (skel b) = .ok (skel r) := by
  rw [linkBlocks_skel, h]

theorem linkBlocks_of_skel (a b r' : Blocks) (h : linkBlocks (skel a) (skel b) = .ok r') :
    ∃ r, linkBlocks a b = .ok r ∧ skel r = r' := by
  rw [linkBlocks_skel] at h
  cases hr : linkBlocks a b with
  | error e => rw [hr] at h; cases h
  | ok r => rw [hr] at h; cases h; exact ⟨r, rfl, rfl⟩

theorem skel_patchWord (m : Blocks) (x v : W) : skel (patchWord m x v) = skel m := by
  unfold patchWord
  split
  · rfl
  · dsimp only
    split
    · unfold skel
      rw [List.map_map]
      apply List.map_congr_left
      intro e _
      simp only [Function.comp]
      split
      · simp only [List.length_set]
      · rfl
    · rfl

theorem skel_patchFold : ∀ (rl : List (W × W)) (m : Blocks), skel (rl.foldl (fun m r => patchWord m r.1 r.2) m) = skel m := by
  intro rl
  induction rl with
  | nil => intro m; rfl
  | cons r rest ih => intro m; rw [List.foldl_cons, ih, skel_patchWord]

theorem skel_skel (m : Blocks) : skel (skel m) = skel m := by
  unfold skel; rw [List.map_map]; apply List.map_congr_left; intro e _; simp [Function.comp]

/-- the source-position shift `link` applies to the second file's labels -/
def shiftBy (n : Nat) (e : Key × SymData) : Key × SymData := (e.1, { e.2 with srcStart := satAdd e.2.srcStart n })

theorem shiftBy_ok (n : Nat) (e : Key × SymData) : (shiftBy n e).1 = e.1 ∧ core (shiftBy n e).2 = core e.2 := ⟨rfl, rfl⟩

/-- what a successful `link` of two files with symbol tables consists of -/
theorem link_inv (a b r : ObjFile) (ta tb : SymTab) (hsa : a.sym = some ta) (hsb : b.sym = some tb)
    (h : ObjFile.link a b = .ok r) :
    ∃ B st, linkBlocks a.blocks b.blocks = .ok B ∧
      tb.labels.foldlM (fun st e => linkLabel st (shiftBy (linkShift ta tb) e))
        ⟨ta.labels, tb.rel.foldl (fun m e => relInsert m e.1 e.2) ta.rel, []⟩ = .ok st ∧
      r = ⟨st.relocs.foldl (fun m r => patchWord m r.1 r.2) B, some ⟨st.labels, st.rel, linkDebug ta tb⟩⟩ := by
  unfold ObjFile.link at h
  cases hbl : linkBlocks a.blocks b.blocks with
  | error e => rw [hbl] at h; cases h
  | ok B =>
    rw [hbl, hsa, hsb] at h
    dsimp only at h
    unfold linkSyms at h
    dsimp only at h
    cases hf : tb.labels.foldlM (fun st e => linkLabel st (e.1, { e.2 with srcStart := satAdd e.2.srcStart (linkShift ta tb) }))
        ⟨ta.labels, tb.rel.foldl (fun m e => relInsert m e.1 e.2) ta.rel, []⟩ with
    | error e => rw [hf] at h; cases h
    | ok st =>
      rw [hf] at h
      cases h
      exact ⟨B, st, rfl, hf, rfl⟩

theorem link_intro (a b : ObjFile) (ta tb : SymTab) (hsa : a.sym = some ta) (hsb : b.sym = some tb) (B : Blocks) (st : LinkSt)
    (hbl : linkBlocks a.blocks b.blocks = .ok B)
    (hf : tb.labels.foldlM (fun st e => linkLabel st (shiftBy (linkShift ta tb) e))
        ⟨ta.labels, tb.rel.foldl (fun m e => relInsert m e.1 e.2) ta.rel, []⟩ = .ok st) :
    ObjFile.link a b = .ok ⟨st.relocs.foldl (fun m r => patchWord m r.1 r.2) B, some ⟨st.labels, st.rel, linkDebug ta tb⟩⟩ := by
  unfold ObjFile.link
  rw [hbl, hsa, hsb]
  dsimp only
  unfold linkSyms
  dsimp only
  have hf' : tb.labels.foldlM (fun st e => linkLabel st (e.1, { e.2 with srcStart := satAdd e.2.srcStart (linkShift ta tb) }))
        ⟨ta.labels, tb.rel.foldl (fun m e => relInsert m e.1 e.2) ta.rel, []⟩ = .ok st := hf
  rw [hf']

/-- **grouping, success side, whole files**: for three files with symbol tables (block maps sorted by start, label keys
    unique, as in every assembled or linked file), `(a ∪ b) ∪ c` links exactly when `a ∪ (b ∪ c)` does -/
theorem link_grouping_ok (a b c : ObjFile) (ta tb tc : SymTab)
    (hsa : a.sym = some ta) (hsb : b.sym = some tb) (hsc : c.sym = some tc)
    (hka : SortedKeys a.blocks) (hkb : SortedKeys b.blocks) (hkc : SortedKeys c.blocks)
    (hub : tb.labels.Pairwise (fun x y => (x.1 == y.1) = false))
    (huc : tc.labels.Pairwise (fun x y => (x.1 == y.1) = false)) :
    (∃ ab r, ObjFile.link a b = .ok ab ∧ ObjFile.link ab c = .ok r) ↔
    (∃ bc r', ObjFile.link b c = .ok bc ∧ ObjFile.link a bc = .ok r') := by
  have lab := labels_grouping_ok (shiftBy (linkShift ta tb)) (shiftBy (linkShift ⟨[], [], linkDebug ta tb⟩ tc))
    (shiftBy (linkShift tb tc)) (shiftBy (linkShift ta ⟨[], [], linkDebug tb tc⟩))
    (shiftBy_ok _) (shiftBy_ok _) (shiftBy_ok _) (shiftBy_ok _) ta.labels tb.labels tc.labels hub huc
    (tb.rel.foldl (fun m e => relInsert m e.1 e.2) ta.rel) (tc.rel.foldl (fun m e => relInsert m e.1 e.2) tb.rel)
    (fun sab => tc.rel.foldl (fun m e => relInsert m e.1 e.2) sab.rel)
    (fun sbc => sbc.rel.foldl (fun m e => relInsert m e.1 e.2) ta.rel)
  have blk := linkBlocks_grouping (skel a.blocks) (skel b.blocks) (skel c.blocks)
  constructor
  · rintro ⟨ab, r, hab, hr⟩
    obtain ⟨B1, st1, hb1, hf1, rfl⟩ := link_inv a b ab ta tb hsa hsb hab
    obtain ⟨B2, st2, hb2, hf2, rfl⟩ := link_inv _ c r ⟨st1.labels, st1.rel, linkDebug ta tb⟩ tc rfl hsc hr
    have s1 := linkBlocks_skel_ok _ _ _ hb1
    have s2 := linkBlocks_skel_ok _ _ _ hb2
    simp only [skel_patchFold] at s2
    obtain ⟨bc', hbc', habc'⟩ := (blk (skel B2) (skel_sorted _ hka) (skel_sorted _ hkb) (skel_sorted _ hkc)).mp ⟨_, s1, s2⟩
    obtain ⟨B3, hb3, rfl⟩ := linkBlocks_of_skel _ _ _ hbc'
    obtain ⟨sbc, sr', hfbc, hfr'⟩ := lab.mp ⟨st1, st2, hf1, hf2⟩
    have hbc := link_intro b c tb tc hsb hsc B3 sbc hb3 hfbc
    obtain ⟨B4, hb4, _⟩ := linkBlocks_of_skel a.blocks (sbc.relocs.foldl (fun m r => patchWord m r.1 r.2) B3) _
      (by rw [skel_patchFold]; exact habc')
    exact ⟨_, _, hbc, link_intro a _ ta ⟨sbc.labels, sbc.rel, linkDebug tb tc⟩ hsa rfl B4 sr' hb4 hfr'⟩
  · rintro ⟨bc, r', hbc, hr'⟩
    obtain ⟨B3, sbc, hb3, hfbc, rfl⟩ := link_inv b c bc tb tc hsb hsc hbc
    obtain ⟨B4, sr', hb4, hfr', rfl⟩ := link_inv a _ r' ta ⟨sbc.labels, sbc.rel, linkDebug tb tc⟩ hsa rfl hr'
    have s3 := linkBlocks_skel_ok _ _ _ hb3
    have s4 := linkBlocks_skel_ok _ _ _ hb4
    simp only [skel_patchFold] at s4
    obtain ⟨ab', hab', habc'⟩ := (blk (skel B4) (skel_sorted _ hka) (skel_sorted _ hkb) (skel_sorted _ hkc)).mpr ⟨_, s3, s4⟩
    obtain ⟨B1, hb1, rfl⟩ := linkBlocks_of_skel _ _ _ hab'
    obtain ⟨sab, sr, hfab, hfr⟩ := lab.mpr ⟨sbc, sr', hfbc, hfr'⟩
    have hab := link_intro a b ta tb hsa hsb B1 sab hb1 hfab
    obtain ⟨B2, hb2, _⟩ := linkBlocks_of_skel (sab.relocs.foldl (fun m r => patchWord m r.1 r.2) B1) c.blocks _
      (by rw [skel_patchFold]; exact habc')
    exact ⟨_, _, hab, link_intro _ c ⟨sab.labels, sab.rel, linkDebug ta tb⟩ tc rfl hsc B2 sr hb2 hfr⟩

/-- **grouping, outcome**: when both groupings link, the results have the same block layout (starts and lengths) and every
    label has the same address and external flag in both -/
theorem link_grouping_outcome (a b c ab bc r r' : ObjFile) (ta tb tc : SymTab)
    (hsa : a.sym = some ta) (hsb : b.sym = some tb) (hsc : c.sym = some tc)
    (hka : SortedKeys a.blocks) (hkb : SortedKeys b.blocks) (hkc : SortedKeys c.blocks)
    (hub : tb.labels.Pairwise (fun x y => (x.1 == y.1) = false))
    (huc : tc.labels.Pairwise (fun x y => (x.1 == y.1) = false))
    (hab : ObjFile.link a b = .ok ab) (hr : ObjFile.link ab c = .ok r)
    (hbc : ObjFile.link b c = .ok bc) (hr' : ObjFile.link a bc = .ok r') :
    skel r.blocks = skel r'.blocks ∧
    ∃ tr tr', r.sym = some tr ∧ r'.sym = some tr' ∧
      ∀ K, (lookupKey tr.labels K).map core = (lookupKey tr'.labels K).map core := by
  obtain ⟨B1, st1, hb1, hf1, rfl⟩ := link_inv a b ab ta tb hsa hsb hab
  obtain ⟨B2, st2, hb2, hf2, rfl⟩ := link_inv _ c r ⟨st1.labels, st1.rel, linkDebug ta tb⟩ tc rfl hsc hr
  obtain ⟨B3, sbc, hb3, hfbc, rfl⟩ := link_inv b c bc tb tc hsb hsc hbc
  obtain ⟨B4, sr', hb4, hfr', rfl⟩ := link_inv a _ r' ta ⟨sbc.labels, sbc.rel, linkDebug tb tc⟩ hsa rfl hr'
  have s1 := linkBlocks_skel_ok _ _ _ hb1
  have s2 := linkBlocks_skel_ok _ _ _ hb2
  have s3 := linkBlocks_skel_ok _ _ _ hb3
  have s4 := linkBlocks_skel_ok _ _ _ hb4
  simp only [skel_patchFold] at s2 s4
  obtain ⟨bc', hbc', habc'⟩ := (linkBlocks_grouping (skel a.blocks) (skel b.blocks) (skel c.blocks) (skel B2)
    (skel_sorted _ hka) (skel_sorted _ hkb) (skel_sorted _ hkc)).mp ⟨_, s1, s2⟩
  rw [s3] at hbc'
  cases hbc'
  rw [s4] at habc'
  refine ⟨?_, _, _, rfl, rfl, ?_⟩
  · simp only [skel_patchFold]
    injection habc' with h; exact h.symm
  · intro K
    exact labels_grouping (shiftBy (linkShift ta tb)) (shiftBy (linkShift ⟨st1.labels, st1.rel, linkDebug ta tb⟩ tc))
      (shiftBy (linkShift tb tc)) (shiftBy (linkShift ta ⟨sbc.labels, sbc.rel, linkDebug tb tc⟩))
      (shiftBy_ok _) (shiftBy_ok _) (shiftBy_ok _) (shiftBy_ok _) ta.labels tb.labels tc.labels hub huc
      _ _ _ _ st1 st2 sbc sr' hf1 hf2 hfbc hfr' K

end Lc3V.C20
