/- Lemmas/LinkImage.lean — the result of `link` described from its inputs (C20).  `FileWF`: what linking needs of a file
   (sorted disjoint blocks, unique label names and relocation addresses, every relocation entry on a word of the file and
   naming a label the file declares external); `link_spec`: linking two such files gives such a file whose image is the
   union of the images with the entries of resolved labels replaced by the defining address, whose pending relocations
   are the unresolved entries and whose definitions are the union (`LinkSpec`, symmetric in the two files);
   `spec3`/`link3_left`/`link3_right`: two links in a row in either grouping have one and the same description from the
   three inputs (`Link3Spec`); `link_grouping_image`, `link_order_image`: image, pending relocations, definitions and
   external declarations do not depend on grouping or order. -/
import Lc3V.Lemmas.LinkGroup
set_option linter.unusedSimpArgs false
set_option linter.unusedVariables false
namespace Lc3V.C20
open Lc3V

/-- the block map has the (possibly uninitialised) word `w` at address `A` -/
def CellAt (m : Blocks) (A : W) (w : Option W) : Prop := ∃ e ∈ m, e.1 ≤ A.toNat ∧ e.2[A.toNat - e.1]? = some w

/-- on a map of pairwise disjoint blocks in ascending order, `cell` (what `get_mut` finds) is membership in a block -/
theorem cell_iff (m : Blocks) (hp : m.Pairwise BlkBefore) (A : W) (w : Option W) : cell m A = some w ↔ CellAt m A w := by
  unfold cell CellAt
  cases hl : (m.filter (fun e => e.1 ≤ A.toNat)).getLast? with
  | none =>
    simp only [reduceCtorEq, false_iff]
    rintro ⟨e, he, h1, _⟩
    have : e ∈ m.filter (fun e => e.1 ≤ A.toNat) := List.mem_filter.mpr ⟨he, by simpa using h1⟩
    rw [List.getLast?_eq_none_iff] at hl
    rw [hl] at this; cases this
  | some e' =>
    obtain ⟨ys, hys⟩ := List.getLast?_eq_some_iff.mp hl
    have he' : e' ∈ m.filter (fun e => e.1 ≤ A.toNat) := by rw [hys]; simp
    obtain ⟨hm', hle'⟩ := List.mem_filter.mp he'
    simp only [decide_eq_true_eq] at hle'
    obtain ⟨s', b'⟩ := e'
    simp only
    constructor
    · intro h; exact ⟨(s', b'), hm', hle', h⟩
    · rintro ⟨e, he, h1, h2⟩
      have hin : e ∈ m.filter (fun e => e.1 ≤ A.toNat) := List.mem_filter.mpr ⟨he, by simpa using h1⟩
      have hpf : (m.filter (fun e => e.1 ≤ A.toNat)).Pairwise BlkBefore := hp.sublist List.filter_sublist
      rw [hys] at hin hpf
      rcases List.mem_append.mp hin with hy | hy
      · have := (List.pairwise_append.mp hpf).2.2 e hy (s', b') (by simp)
        unfold BlkBefore at this
        have hlt : A.toNat - e.1 < e.2.length := by
          rcases Nat.lt_or_ge (A.toNat - e.1) e.2.length with h | h
          · exact h
          · rw [List.getElem?_eq_none h] at h2; cases h2
        simp only at this hle'
        omega
      · simp only [List.mem_singleton] at hy
        subst hy; exact h2

theorem cellAt_unique (m : Blocks) (hp : m.Pairwise BlkBefore) (A : W) (w w' : Option W) (h : CellAt m A w) (h' : CellAt m A w') : w = w' := by
  have h1 := (cell_iff m hp A w).mpr h
  have h2 := (cell_iff m hp A w').mpr h'
  rw [h1] at h2; injection h2

/-- sub-maps of a disjoint sorted map are disjoint -/
theorem pw_of_subset (a r : Blocks) (ha : SortedKeys a) (hr : SortedKeys r) (hp : r.Pairwise BlkBefore) (hsub : ∀ x ∈ a, x ∈ r) :
    a.Pairwise BlkBefore :=
  (pw_iff_mem a ha).mpr (fun x hx y hy hxy => (pw_iff_mem r hr).mp hp x (hsub x hx) y (hsub y hy) hxy)

/-- what a successful block link gives: each side and the result are disjoint sorted maps and the cells of the result
    are the cells of the two sides -/
theorem linkBlocks_cells (a b r : Blocks) (ha : SortedKeys a) (hb : SortedKeys b) (h : linkBlocks a b = .ok r) :
    SortedKeys r ∧ r.Pairwise BlkBefore ∧ a.Pairwise BlkBefore ∧ b.Pairwise BlkBefore ∧
    ∀ A w, CellAt r A w ↔ (CellAt a A w ∨ CellAt b A w) := by
  have hsr := linkBlocks_sorted a b r ha h
  have hmem := linkBlocks_members a b r ha hb h
  have hok := (linkBlocks_ok_iff a b ha hb).mp ⟨r, h⟩
  have hpr : r.Pairwise BlkBefore := by rw [linkBlocks_eq_insAll a b r h]; exact hok.2
  refine ⟨hsr, hpr, pw_of_subset a r ha hsr hpr (fun x hx => (hmem x).mpr (Or.inl hx)),
    pw_of_subset b r hb hsr hpr (fun x hx => (hmem x).mpr (Or.inr hx)), ?_⟩
  intro A w
  constructor
  · rintro ⟨e, he, h1, h2⟩
    rcases (hmem e).mp he with h | h
    · exact Or.inl ⟨e, h, h1, h2⟩
    · exact Or.inr ⟨e, h, h1, h2⟩
  · rintro (⟨e, he, h1, h2⟩ | ⟨e, he, h1, h2⟩)
    · exact ⟨e, (hmem e).mpr (Or.inl he), h1, h2⟩
    · exact ⟨e, (hmem e).mpr (Or.inr he), h1, h2⟩

/-- well-formedness of an object file with symbol table, as far as linking is concerned (true of every assembled file,
    preserved by `link`: `link_spec`) -/
structure FileWF (blocks : Blocks) (t : SymTab) : Prop where
  sorted : SortedKeys blocks
  disj : blocks.Pairwise BlkBefore
  ukeys : t.labels.Pairwise (fun x y => (x.1 == y.1) = false)
  urel : t.rel.Pairwise (fun x y => x.1 ≠ y.1)
  relCell : ∀ r ∈ t.rel, (cell blocks r.1).isSome = true
  relExt : ∀ r ∈ t.rel, ∃ d, lookupKey t.labels r.2 = some d ∧ d.ext = true

/-- the table defines (not merely declares) `K` at address `x` -/
def DefAt (labels : List (Key × SymData)) (K : Key) (x : W) : Prop := ∃ d, lookupKey labels K = some d ∧ d.ext = false ∧ d.addr = x

theorem cell_isSome_iff (m : Blocks) (hp : m.Pairwise BlkBefore) (A : W) : (cell m A).isSome = true ↔ ∃ w, CellAt m A w := by
  constructor
  · intro h
    obtain ⟨w, hw⟩ := Option.isSome_iff_exists.mp h
    exact ⟨w, (cell_iff m hp A w).mp hw⟩
  · rintro ⟨w, hw⟩
    rw [(cell_iff m hp A w).mpr hw]; rfl

theorem cell_patchFold_isSome (A : W) : ∀ (rl : List (W × W)) (m : Blocks), m.Pairwise (fun x y => x.1 ≠ y.1) →
    (cell (rl.foldl (fun m r => patchWord m r.1 r.2) m) A).isSome = (cell m A).isSome := by
  intro rl
  induction rl with
  | nil => intro m _; rfl
  | cons r rest ih =>
    intro m hu
    rw [List.foldl_cons, ih _ (patchWord_unique m hu r.1 r.2), cell_patchWord m hu]
    split
    · rename_i h; rw [← h.1, h.2]; rfl
    · rfl

theorem pw_of_skel (m m' : Blocks) (h : skel m = skel m') (hp : m.Pairwise BlkBefore) : m'.Pairwise BlkBefore := by
  have e : ∀ l : Blocks, (skel l).Pairwise BlkBefore ↔ l.Pairwise BlkBefore := by
    intro l
    unfold skel
    rw [List.pairwise_map]
    simp only [BlkBefore, List.length_replicate]
    exact Iff.rfl
  rw [← e, ← h, e]; exact hp

/-- two blocks of two files that link cannot both contain an address -/
theorem cells_disjoint (a b r : Blocks) (ha : SortedKeys a) (hb : SortedKeys b) (h : linkBlocks a b = .ok r) (A : W)
    (w w' : Option W) (h1 : CellAt a A w) (h2 : CellAt b A w') : False := by
  have hsr := linkBlocks_sorted a b r ha h
  have hmem := linkBlocks_members a b r ha hb h
  have hok := (linkBlocks_ok_iff a b ha hb).mp ⟨r, h⟩
  have hpr : r.Pairwise BlkBefore := by rw [linkBlocks_eq_insAll a b r h]; exact hok.2
  obtain ⟨e, he, e1, e2⟩ := h1
  obtain ⟨e', he', e1', e2'⟩ := h2
  have l1 : A.toNat - e.1 < e.2.length := by
    rcases Nat.lt_or_ge (A.toNat - e.1) e.2.length with h | h
    · exact h
    · rw [List.getElem?_eq_none h] at e2; cases e2
  have l2 : A.toNat - e'.1 < e'.2.length := by
    rcases Nat.lt_or_ge (A.toNat - e'.1) e'.2.length with h | h
    · exact h
    · rw [List.getElem?_eq_none h] at e2'; cases e2'
  have q := (pw_iff_mem r hsr).mp hpr
  rcases Nat.lt_trichotomy e.1 e'.1 with hlt | heq | hgt
  · have := q e ((hmem e).mpr (Or.inl he)) e' ((hmem e').mpr (Or.inr he')) hlt
    unfold BlkBefore at this; omega
  · exact hok.1 ⟨e, he, e', he', heq⟩
  · have := q e' ((hmem e').mpr (Or.inr he')) e ((hmem e).mpr (Or.inl he)) hgt
    unfold BlkBefore at this; omega

theorem option_ext {α} (o o' : Option α) (h : ∀ w, o = some w ↔ o' = some w) : o = o' := by
  cases o with
  | none => cases o' with
    | none => rfl
    | some w => exact absurd ((h w).mpr rfl) (by simp)
  | some w => exact ((h w).mp rfl).symm

def DefO (o : Option SymData) (x : W) : Prop := ∃ d, o = some d ∧ d.ext = false ∧ d.addr = x
def ExtO (o : Option SymData) : Prop := ∃ d, o = some d ∧ d.ext = true

theorem defAt_eq (labels : List (Key × SymData)) (K : Key) (x : W) : DefAt labels K x ↔ DefO (lookupKey labels K) x := Iff.rfl

theorem defO_core_congr {o o' : Option SymData} (h : o.map core = o'.map core) (x : W) : DefO o x ↔ DefO o' x := by
  cases o <;> cases o' <;> simp only [Option.map_some, Option.map_none, reduceCtorEq] at h
  · exact Iff.rfl
  · rename_i d d'
    simp only [core, Option.some.injEq, Prod.mk.injEq] at h
    unfold DefO
    constructor
    · rintro ⟨_, e, h1, h2⟩; cases e; exact ⟨d', rfl, by rw [← h.2]; exact h1, by rw [← h.1]; exact h2⟩
    · rintro ⟨_, e, h1, h2⟩; cases e; exact ⟨d, rfl, by rw [h.2]; exact h1, by rw [h.1]; exact h2⟩

theorem extO_core_congr {o o' : Option SymData} (h : o.map core = o'.map core) : ExtO o ↔ ExtO o' := by
  cases o <;> cases o' <;> simp only [Option.map_some, Option.map_none, reduceCtorEq] at h
  · exact Iff.rfl
  · rename_i d d'
    simp only [core, Option.some.injEq, Prod.mk.injEq] at h
    unfold ExtO
    constructor
    · rintro ⟨_, e, h1⟩; cases e; exact ⟨d', rfl, by rw [← h.2]; exact h1⟩
    · rintro ⟨_, e, h1⟩; cases e; exact ⟨d, rfl, by rw [h.2]; exact h1⟩

theorem not_def_of_ext {o : Option SymData} (h : ExtO o) (x : W) : ¬ DefO o x := by
  rintro ⟨d, e, h1, _⟩
  obtain ⟨d', e', h2⟩ := h
  rw [e] at e'; cases e'; rw [h1] at h2; cases h2

/-- the merged entry defines `K` at `x` exactly when one of the sides does (no clash) -/
theorem defO_comb (A B : Option SymData) (hc : clash A B = false) (x : W) : DefO (comb A B) x ↔ (DefO A x ∨ DefO B x) := by
  cases A with
  | none =>
    cases B with
    | none => simp [comb, DefO]
    | some b => simp [comb, combineSym, DefO]
  | some a =>
    cases B with
    | none => simp [comb, DefO]
    | some b =>
      simp only [comb, combineSym, DefO, clash, Option.some.injEq] at hc ⊢
      cases hae : a.ext <;> cases hbe : b.ext <;> simp [hae, hbe] at hc ⊢
      · intro h; rw [hc]; exact h

theorem extO_comb_left (A B : Option SymData) (h : ExtO A) (hn : ∀ x, ¬ DefO B x) : ExtO (comb A B) := by
  obtain ⟨a, rfl, hae⟩ := h
  cases B with
  | none => exact ⟨a, rfl, hae⟩
  | some b =>
    cases hbe : b.ext
    · exact absurd ⟨b, rfl, hbe, rfl⟩ (hn b.addr)
    · exact ⟨a, by simp [comb, combineSym, hae, hbe], hae⟩

theorem extO_comb_right (A B : Option SymData) (h : ExtO B) (hn : ∀ x, ¬ DefO A x) : ExtO (comb A B) := by
  obtain ⟨b, rfl, hbe⟩ := h
  cases A with
  | none => exact ⟨b, rfl, hbe⟩
  | some a =>
    cases hae : a.ext
    · exact absurd ⟨a, rfl, hae, rfl⟩ (hn a.addr)
    · exact ⟨a, by simp [comb, combineSym, hae, hbe], hae⟩

/-- an entry whose label is declared external on its own side is resolved exactly when the other side defines it -/
theorem resolved_of_def (la lb : List (Key × SymData)) (K : Key) (x : W)
    (hext : ExtO (lookupKey la K) ∨ ExtO (lookupKey lb K))
    (hdef : DefO (lookupKey la K) x ∨ DefO (lookupKey lb K) x) :
    resolvedKey la lb K = true ∧ definedAddr la lb K = x := by
  unfold resolvedKey definedAddr
  rcases hext with ⟨d, e, he⟩ | ⟨d, e, he⟩
  · rcases hdef with h | ⟨d', e', h1, h2⟩
    · exact absurd h (not_def_of_ext ⟨d, e, he⟩ x)
    · rw [e, e']; simp [he, h1, h2]
  · rcases hdef with ⟨d', e', h1, h2⟩ | h
    · rw [e, e']; simp [he, h1, h2]
    · exact absurd h (not_def_of_ext ⟨d, e, he⟩ x)

theorem def_of_resolved (la lb : List (Key × SymData)) (K : Key) (h : resolvedKey la lb K = true) :
    ∃ x, DefO (lookupKey la K) x ∨ DefO (lookupKey lb K) x := by
  unfold resolvedKey at h
  cases ha : lookupKey la K with
  | none => rw [ha] at h; cases hb : lookupKey lb K <;> rw [hb] at h <;> cases h
  | some ad =>
    cases hb : lookupKey lb K with
    | none => rw [ha, hb] at h; cases h
    | some bd =>
      rw [ha, hb] at h
      simp only at h
      cases hae : ad.ext
      · exact ⟨ad.addr, Or.inl ⟨ad, rfl, hae, rfl⟩⟩
      · cases hbe : bd.ext
        · exact ⟨bd.addr, Or.inr ⟨bd, rfl, hbe, rfl⟩⟩
        · simp [hae, hbe] at h

/-- what linking two well-formed files produces: a well-formed file whose cells, pending relocations and definitions are
    described from the two inputs -/
structure LinkSpec (ab : Blocks) (ta : SymTab) (bb : Blocks) (tb : SymTab) (rb : Blocks) (tr : SymTab) : Prop where
  wf : FileWF rb tr
  none_iff : ∀ A, cell rb A = none ↔ (cell ab A = none ∧ cell bb A = none)
  patched : ∀ A K x, ((A, K) ∈ ta.rel ∨ (A, K) ∈ tb.rel) → (DefAt ta.labels K x ∨ DefAt tb.labels K x) →
    cell rb A = some (some x)
  kept : ∀ A, (∀ K x, ((A, K) ∈ ta.rel ∨ (A, K) ∈ tb.rel) → ¬ (DefAt ta.labels K x ∨ DefAt tb.labels K x)) →
    ∀ w, cell rb A = some w ↔ (CellAt ab A w ∨ CellAt bb A w)
  pending : ∀ A K, (A, K) ∈ tr.rel ↔ (((A, K) ∈ ta.rel ∨ (A, K) ∈ tb.rel) ∧ ∀ x, ¬ (DefAt ta.labels K x ∨ DefAt tb.labels K x))
  defs : ∀ K x, DefAt tr.labels K x ↔ (DefAt ta.labels K x ∨ DefAt tb.labels K x)
  exts : ∀ K, ExtO (lookupKey tr.labels K) ↔
    ((ExtO (lookupKey ta.labels K) ∨ ExtO (lookupKey tb.labels K)) ∧ ∀ x, ¬ (DefAt ta.labels K x ∨ DefAt tb.labels K x))
  uaddr : ∀ A K K', ((A, K) ∈ ta.rel ∨ (A, K) ∈ tb.rel) → ((A, K') ∈ ta.rel ∨ (A, K') ∈ tb.rel) → K = K'
  disjoint : ∀ A w w', CellAt ab A w → CellAt bb A w' → False

theorem extO_comb_iff (A B : Option SymData) : ExtO (comb A B) ↔ ((ExtO A ∨ ExtO B) ∧ ∀ x, ¬ (DefO A x ∨ DefO B x)) := by
  constructor
  · intro h
    cases A with
    | none =>
      cases B with
      | none => obtain ⟨d, e, _⟩ := h; cases e
      | some b =>
        refine ⟨Or.inr h, ?_⟩
        rintro x (⟨_, e, _⟩ | hd)
        · cases e
        · exact not_def_of_ext h x hd
    | some a =>
      cases B with
      | none =>
        refine ⟨Or.inl h, ?_⟩
        rintro x (hd | ⟨_, e, _⟩)
        · exact not_def_of_ext h x hd
        · cases e
      | some b =>
        obtain ⟨d, e, hde⟩ := h
        simp only [comb, combineSym, Option.some.injEq] at e
        cases hae : a.ext <;> cases hbe : b.ext <;> simp [hae, hbe] at e
        · subst e; rw [hae] at hde; cases hde
        · subst e; rw [hae] at hde; cases hde
        · subst e; rw [hbe] at hde; cases hde
        · refine ⟨Or.inl ⟨a, rfl, hae⟩, ?_⟩
          rintro x (⟨_, e', h1, _⟩ | ⟨_, e', h1, _⟩)
          · cases e'; rw [hae] at h1; cases h1
          · cases e'; rw [hbe] at h1; cases h1
  · rintro ⟨h | h, hn⟩
    · exact extO_comb_left A B h (fun x hx => hn x (Or.inr hx))
    · exact extO_comb_right A B h (fun x hx => hn x (Or.inl hx))

theorem shiftBy_ok3 (n : Nat) (e : Key × SymData) :
    (shiftBy n e).1 = e.1 ∧ (shiftBy n e).2.ext = e.2.ext ∧ (shiftBy n e).2.addr = e.2.addr := ⟨rfl, rfl, rfl⟩

/-- **linking two well-formed files, exactly** -/
theorem link_spec (a b r : ObjFile) (ta tb : SymTab) (hsa : a.sym = some ta) (hsb : b.sym = some tb)
    (wa : FileWF a.blocks ta) (wb : FileWF b.blocks tb) (h : ObjFile.link a b = .ok r) :
    ∃ tr, r.sym = some tr ∧ LinkSpec a.blocks ta b.blocks tb r.blocks tr := by
  obtain ⟨B, st, hb, hf, rfl⟩ := link_inv a b r ta tb hsa hsb h
  refine ⟨_, rfl, ?_⟩
  simp only
  obtain ⟨hsB, hpB, _, _, hcells⟩ := linkBlocks_cells a.blocks b.blocks B wa.sorted wb.sorted hb
  have huB := sortedKeys_pairwise_ne B hsB
  -- relocation tables have no address in common
  have hdisj : ∀ x ∈ ta.rel, ∀ y ∈ tb.rel, x.1 ≠ y.1 := by
    intro x hx y hy he
    obtain ⟨w, hw⟩ := (cell_isSome_iff _ wa.disj x.1).mp (wa.relCell x hx)
    obtain ⟨w', hw'⟩ := (cell_isSome_iff _ wb.disj y.1).mp (wb.relCell y hy)
    rw [← he] at hw'
    exact cells_disjoint a.blocks b.blocks B wa.sorted wb.sorted hb x.1 w w' hw hw'
  have hR0 := relMerge_append tb.rel ta.rel wb.urel hdisj
  rw [hR0] at hf
  have hpw : (ta.rel ++ tb.rel).Pairwise (fun x y => x.1 ≠ y.1) := List.pairwise_append.mpr ⟨wa.urel, wb.urel, hdisj⟩
  have hmemR : ∀ A K, (A, K) ∈ ta.rel ++ tb.rel ↔ ((A, K) ∈ ta.rel ∨ (A, K) ∈ tb.rel) := fun A K => List.mem_append
  have hrelocs := relocs_mem (shiftBy (linkShift ta tb)) (shiftBy_ok3 _) ta.labels tb.labels wb.ukeys (ta.rel ++ tb.rel) st hf
  obtain ⟨hrel, _⟩ := linkFold_rel (shiftBy (linkShift ta tb)) (fun _ => rfl) tb.labels _ st wb.ukeys hf
  simp only at hrel
  have hlook := linkFold_lookup (shiftBy (linkShift ta tb)) (shiftBy_ok _) ta.labels tb.labels wb.ukeys (ta.rel ++ tb.rel) [] st hf
  have hclash := (linkFold_ok_iff_clash (shiftBy (linkShift ta tb)) (shiftBy_ok _) ta.labels tb.labels wb.ukeys (ta.rel ++ tb.rel) []).mp ⟨st, hf⟩
  -- the label of an entry is declared external on one side
  have hext : ∀ A K, ((A, K) ∈ ta.rel ∨ (A, K) ∈ tb.rel) → (ExtO (lookupKey ta.labels K) ∨ ExtO (lookupKey tb.labels K)) := by
    rintro A K (hm | hm)
    · exact Or.inl (wa.relExt _ hm)
    · exact Or.inr (wb.relExt _ hm)
  have hsome : ∀ A, (cell (st.relocs.foldl (fun m r => patchWord m r.1 r.2) B) A).isSome = (cell B A).isSome :=
    fun A => cell_patchFold_isSome A st.relocs B huB
  have hskel := skel_patchFold st.relocs B
  have hpR : (st.relocs.foldl (fun m r => patchWord m r.1 r.2) B).Pairwise BlkBefore := pw_of_skel _ _ hskel.symm hpB
  have hcellB : ∀ A, (cell B A).isSome = true ↔ ((cell a.blocks A).isSome = true ∨ (cell b.blocks A).isSome = true) := by
    intro A
    rw [cell_isSome_iff B hpB, cell_isSome_iff _ wa.disj, cell_isSome_iff _ wb.disj]
    constructor
    · rintro ⟨w, hw⟩
      rcases (hcells A w).mp hw with h | h
      · exact Or.inl ⟨w, h⟩
      · exact Or.inr ⟨w, h⟩
    · rintro (⟨w, hw⟩ | ⟨w, hw⟩)
      · exact ⟨w, (hcells A w).mpr (Or.inl hw)⟩
      · exact ⟨w, (hcells A w).mpr (Or.inr hw)⟩
  have hpend : ∀ A K, (A, K) ∈ st.rel ↔ (((A, K) ∈ ta.rel ∨ (A, K) ∈ tb.rel) ∧ ∀ x, ¬ (DefAt ta.labels K x ∨ DefAt tb.labels K x)) := by
    intro A K
    rw [hrel, List.mem_filter, hmemR, any_resolved (shiftBy (linkShift ta tb)) (fun e => ⟨rfl, rfl⟩) ta.labels tb.labels wb.ukeys K]
    constructor
    · rintro ⟨hm, hres⟩
      refine ⟨hm, fun x hd => ?_⟩
      have := (resolved_of_def ta.labels tb.labels K x (hext A K hm) hd).1
      rw [this] at hres; cases hres
    · rintro ⟨hm, hn⟩
      refine ⟨hm, ?_⟩
      cases hres : resolvedKey ta.labels tb.labels K
      · rfl
      · obtain ⟨x, hx⟩ := def_of_resolved ta.labels tb.labels K hres
        exact absurd hx (hn x)
  have hdefs : ∀ K x, DefAt st.labels K x ↔ (DefAt ta.labels K x ∨ DefAt tb.labels K x) := by
    intro K x
    rw [defAt_eq, defO_core_congr (hlook K) x, defO_comb _ _ (hclash K) x]
    exact Iff.rfl
  have hexts : ∀ K, ExtO (lookupKey st.labels K) ↔
      ((ExtO (lookupKey ta.labels K) ∨ ExtO (lookupKey tb.labels K)) ∧ ∀ x, ¬ (DefAt ta.labels K x ∨ DefAt tb.labels K x)) := by
    intro K
    rw [extO_core_congr (hlook K), extO_comb_iff]
    exact Iff.rfl
  refine ⟨⟨?_, hpR, ?_, ?_, ?_, ?_⟩, ?_, ?_, ?_, hpend, hdefs, hexts, ?_, ?_⟩
  · -- sorted
    exact sortedKeys_of_keys B _ ((skel_keys B).symm.trans ((congrArg (List.map (·.1)) hskel.symm).trans (skel_keys _))) hsB
  · exact linkFold_unique (shiftBy (linkShift ta tb)) tb.labels _ st hf wa.ukeys
  · rw [hrel]; exact hpw.sublist List.filter_sublist
  · -- pending entries point at cells
    intro r0 hr0
    rw [hsome, hcellB]
    have := (hpend r0.1 r0.2).mp hr0
    rcases this.1 with hm | hm
    · exact Or.inl (wa.relCell _ hm)
    · exact Or.inr (wb.relCell _ hm)
  · -- and carry labels that are still external
    intro r0 hr0
    obtain ⟨hm, hn⟩ := (hpend r0.1 r0.2).mp hr0
    exact (hexts r0.2).mpr ⟨hext r0.1 r0.2 hm, hn⟩
  · -- none_iff
    intro A
    have e1 : cell (st.relocs.foldl (fun m r => patchWord m r.1 r.2) B) A = none ↔ cell B A = none := by
      have := hsome A
      cases h1 : cell (st.relocs.foldl (fun m r => patchWord m r.1 r.2) B) A <;> cases h2 : cell B A <;> simp [h1, h2] at this ⊢
    rw [e1]
    have := hcellB A
    cases h1 : cell B A <;> cases h2 : cell a.blocks A <;> cases h3 : cell b.blocks A <;> simp [h1, h2, h3] at this ⊢
  · -- patched
    intro A K x hm hd
    obtain ⟨hres, haddr⟩ := resolved_of_def ta.labels tb.labels K x (hext A K hm) hd
    have hin : (A, x) ∈ st.relocs := (hrelocs (A, x)).mpr ⟨(A, K), (hmemR A K).mpr hm, hres, by rw [haddr]⟩
    have hsomeB : (cell B A).isSome = true := by
      rw [hcellB]
      rcases hm with hm | hm
      · exact Or.inl (wa.relCell _ hm)
      · exact Or.inr (wb.relCell _ hm)
    refine patch_fold A x st.relocs B huB hsomeB ?_ (Or.inr hin)
    intro p hp hpa
    obtain ⟨r0, hr0, _, rfl⟩ := (hrelocs p).mp hp
    have : r0 = (A, K) := unique_addr _ hpw r0 hr0 (A, K) ((hmemR A K).mpr hm) hpa
    rw [this]; exact haddr
  · -- kept
    intro A hn w
    have hnone : ∀ p ∈ st.relocs, p.1 ≠ A := by
      intro p hp hpa
      obtain ⟨r0, hr0, hres, rfl⟩ := (hrelocs p).mp hp
      obtain ⟨x, hx⟩ := def_of_resolved ta.labels tb.labels r0.2 hres
      simp only at hpa
      have hm : (A, r0.2) ∈ ta.rel ++ tb.rel := by rw [← hpa]; exact hr0
      exact hn r0.2 x ((hmemR A r0.2).mp hm) hx
    rw [patch_fold_none A st.relocs B huB hnone, cell_iff B hpB]
    exact hcells A w
  · intro A K K' h1 h2
    have := unique_addr _ hpw (A, K) ((hmemR A K).mpr h1) (A, K') ((hmemR A K').mpr h2) rfl
    injection this
  · intro A w w' h1 h2
    exact cells_disjoint a.blocks b.blocks B wa.sorted wb.sorted hb A w w' h1 h2

theorem LinkSpec.symm {ab bb rb : Blocks} {ta tb tr : SymTab} (S : LinkSpec ab ta bb tb rb tr) : LinkSpec bb tb ab ta rb tr where
  wf := S.wf
  none_iff := fun A => (S.none_iff A).trans And.comm
  patched := fun A K x h1 h2 => S.patched A K x h1.symm h2.symm
  kept := fun A hn w => (S.kept A (fun K x h1 h2 => hn K x h1.symm h2.symm) w).trans Or.comm
  pending := fun A K => (S.pending A K).trans
    ⟨fun ⟨h1, h2⟩ => ⟨h1.symm, fun x h => h2 x h.symm⟩, fun ⟨h1, h2⟩ => ⟨h1.symm, fun x h => h2 x h.symm⟩⟩
  defs := fun K x => (S.defs K x).trans Or.comm
  exts := fun K => (S.exts K).trans
    ⟨fun ⟨h1, h2⟩ => ⟨h1.symm, fun x h => h2 x h.symm⟩, fun ⟨h1, h2⟩ => ⟨h1.symm, fun x h => h2 x h.symm⟩⟩
  uaddr := fun A K K' h1 h2 => S.uaddr A K K' h1.symm h2.symm
  disjoint := fun A w w' h1 h2 => S.disjoint A w' w h2 h1

/-- the result of linking three files, described from the three inputs (symmetric in them) -/
structure Link3Spec (ab : Blocks) (ta : SymTab) (bb : Blocks) (tb : SymTab) (cb : Blocks) (tc : SymTab) (rb : Blocks) (tr : SymTab) : Prop where
  none_iff : ∀ A, cell rb A = none ↔ (cell ab A = none ∧ cell bb A = none ∧ cell cb A = none)
  patched : ∀ A K x, ((A, K) ∈ ta.rel ∨ (A, K) ∈ tb.rel ∨ (A, K) ∈ tc.rel) →
    (DefAt ta.labels K x ∨ DefAt tb.labels K x ∨ DefAt tc.labels K x) → cell rb A = some (some x)
  kept : ∀ A, (∀ K x, ((A, K) ∈ ta.rel ∨ (A, K) ∈ tb.rel ∨ (A, K) ∈ tc.rel) →
      ¬ (DefAt ta.labels K x ∨ DefAt tb.labels K x ∨ DefAt tc.labels K x)) →
    ∀ w, cell rb A = some w ↔ (CellAt ab A w ∨ CellAt bb A w ∨ CellAt cb A w)
  pending : ∀ A K, (A, K) ∈ tr.rel ↔ (((A, K) ∈ ta.rel ∨ (A, K) ∈ tb.rel ∨ (A, K) ∈ tc.rel) ∧
    ∀ x, ¬ (DefAt ta.labels K x ∨ DefAt tb.labels K x ∨ DefAt tc.labels K x))
  defs : ∀ K x, DefAt tr.labels K x ↔ (DefAt ta.labels K x ∨ DefAt tb.labels K x ∨ DefAt tc.labels K x)
  exts : ∀ K, ExtO (lookupKey tr.labels K) ↔
    ((ExtO (lookupKey ta.labels K) ∨ ExtO (lookupKey tb.labels K) ∨ ExtO (lookupKey tc.labels K)) ∧
      ∀ x, ¬ (DefAt ta.labels K x ∨ DefAt tb.labels K x ∨ DefAt tc.labels K x))

theorem defAt_fun (labels : List (Key × SymData)) (K : Key) (x x' : W) (h : DefAt labels K x) (h' : DefAt labels K x') : x = x' := by
  obtain ⟨d, e, _, rfl⟩ := h
  obtain ⟨d', e', _, rfl⟩ := h'
  rw [e] at e'; cases e'; rfl

/-- two links in a row, described from the three inputs -/
theorem spec3 {xb yb zb xyb rb : Blocks} {tx ty tz txy tr : SymTab}
    (S1 : LinkSpec xb tx yb ty xyb txy) (S2 : LinkSpec xyb txy zb tz rb tr) (wz : FileWF zb tz) :
    Link3Spec xb tx yb ty zb tz rb tr := by
  have hdefs : ∀ K x, DefAt tr.labels K x ↔ (DefAt tx.labels K x ∨ DefAt ty.labels K x ∨ DefAt tz.labels K x) := by
    intro K x
    rw [S2.defs, S1.defs, or_assoc]
  refine ⟨?_, ?_, ?_, ?_, hdefs, ?_⟩
  · intro A
    rw [S2.none_iff, S1.none_iff, and_assoc]
  · -- patched
    intro A K x he hd
    have hdr : DefAt tr.labels K x := (hdefs K x).mpr hd
    rcases he with he | he | he
    all_goals first
      | -- entry from the first two files
        (have he12 : (A, K) ∈ tx.rel ∨ (A, K) ∈ ty.rel := by first | exact Or.inl he | exact Or.inr he
         by_cases h12 : ∃ x', DefAt tx.labels K x' ∨ DefAt ty.labels K x'
         · obtain ⟨x', hx'⟩ := h12
           have hx : x' = x := defAt_fun tr.labels K x' x ((S2.defs K x').mpr (Or.inl ((S1.defs K x').mpr hx'))) hdr
           subst hx
           have c1 := S1.patched A K x' he12 hx'
           have hat : CellAt xyb A (some x') := (cell_iff xyb S1.wf.disj A _).mp c1
           refine (S2.kept A ?_ (some x')).mpr (Or.inl hat)
           rintro K' y (hm | hm) _
           · obtain ⟨hm', hn⟩ := (S1.pending A K').mp hm
             have : K = K' := S1.uaddr A K K' he12 hm'
             subst this
             exact hn x' hx'
           · obtain ⟨w', hw'⟩ := (cell_isSome_iff zb wz.disj A).mp (wz.relCell _ hm)
             exact S2.disjoint A _ _ hat hw'
         · have hn : ∀ x', ¬ (DefAt tx.labels K x' ∨ DefAt ty.labels K x') := fun x' hx' => h12 ⟨x', hx'⟩
           have hz : DefAt tz.labels K x := by
             rcases hd with h | h | h
             · exact absurd (Or.inl h) (hn x)
             · exact absurd (Or.inr h) (hn x)
             · exact h
           exact S2.patched A K x (Or.inl ((S1.pending A K).mpr ⟨he12, hn⟩)) (Or.inr hz))
      | -- entry from the third file
        (refine S2.patched A K x (Or.inr he) ?_
         rcases hd with h | h | h
         · exact Or.inl ((S1.defs K x).mpr (Or.inl h))
         · exact Or.inl ((S1.defs K x).mpr (Or.inr h))
         · exact Or.inr h)
  · -- kept
    intro A hn w
    have h2 : ∀ K x, ((A, K) ∈ txy.rel ∨ (A, K) ∈ tz.rel) → ¬ (DefAt txy.labels K x ∨ DefAt tz.labels K x) := by
      rintro K x (hm | hm) hd
      · obtain ⟨hm', _⟩ := (S1.pending A K).mp hm
        refine hn K x (by rcases hm' with h | h; exact Or.inl h; exact Or.inr (Or.inl h)) ?_
        rw [S1.defs, or_assoc] at hd; exact hd
      · refine hn K x (Or.inr (Or.inr hm)) ?_
        rw [S1.defs, or_assoc] at hd; exact hd
    have h1 : ∀ K x, ((A, K) ∈ tx.rel ∨ (A, K) ∈ ty.rel) → ¬ (DefAt tx.labels K x ∨ DefAt ty.labels K x) := by
      rintro K x hm hd
      refine hn K x (by rcases hm with h | h; exact Or.inl h; exact Or.inr (Or.inl h)) ?_
      rcases hd with h | h
      · exact Or.inl h
      · exact Or.inr (Or.inl h)
    rw [S2.kept A h2 w, ← cell_iff xyb S1.wf.disj A w, S1.kept A h1 w, or_assoc]
  · -- pending
    intro A K
    rw [S2.pending, S1.pending]
    constructor
    · rintro ⟨(⟨h1, _⟩ | h1), h2⟩
      · refine ⟨by rcases h1 with h | h; exact Or.inl h; exact Or.inr (Or.inl h), fun x hd => h2 x ?_⟩
        rw [S1.defs, or_assoc]; exact hd
      · refine ⟨Or.inr (Or.inr h1), fun x hd => h2 x ?_⟩
        rw [S1.defs, or_assoc]; exact hd
    · rintro ⟨h1, h2⟩
      have h2' : ∀ x, ¬ (DefAt txy.labels K x ∨ DefAt tz.labels K x) := by
        intro x hd; rw [S1.defs, or_assoc] at hd; exact h2 x hd
      refine ⟨?_, h2'⟩
      rcases h1 with h | h | h
      · exact Or.inl ⟨Or.inl h, fun x hd => h2 x (by rcases hd with h | h; exact Or.inl h; exact Or.inr (Or.inl h))⟩
      · exact Or.inl ⟨Or.inr h, fun x hd => h2 x (by rcases hd with h | h; exact Or.inl h; exact Or.inr (Or.inl h))⟩
      · exact Or.inr h
  · -- exts
    intro K
    rw [S2.exts, S1.exts]
    constructor
    · rintro ⟨(⟨h1, _⟩ | h1), h2⟩
      · refine ⟨by rcases h1 with h | h; exact Or.inl h; exact Or.inr (Or.inl h), fun x hd => h2 x ?_⟩
        rw [S1.defs, or_assoc]; exact hd
      · refine ⟨Or.inr (Or.inr h1), fun x hd => h2 x ?_⟩
        rw [S1.defs, or_assoc]; exact hd
    · rintro ⟨h1, h2⟩
      have h2' : ∀ x, ¬ (DefAt txy.labels K x ∨ DefAt tz.labels K x) := by
        intro x hd; rw [S1.defs, or_assoc] at hd; exact h2 x hd
      refine ⟨?_, h2'⟩
      rcases h1 with h | h | h
      · exact Or.inl ⟨Or.inl h, fun x hd => h2 x (by rcases hd with h | h; exact Or.inl h; exact Or.inr (Or.inl h))⟩
      · exact Or.inl ⟨Or.inr h, fun x hd => h2 x (by rcases hd with h | h; exact Or.inl h; exact Or.inr (Or.inl h))⟩
      · exact Or.inr h

theorem or_rot {p q r : Prop} : (p ∨ q ∨ r) ↔ (r ∨ p ∨ q) := by
  constructor
  · rintro (h | h | h); exact Or.inr (Or.inl h); exact Or.inr (Or.inr h); exact Or.inl h
  · rintro (h | h | h); exact Or.inr (Or.inr h); exact Or.inl h; exact Or.inr (Or.inl h)

theorem and_rot {p q r : Prop} : (p ∧ q ∧ r) ↔ (r ∧ p ∧ q) :=
  ⟨fun ⟨a, b, c⟩ => ⟨c, a, b⟩, fun ⟨c, a, b⟩ => ⟨a, b, c⟩⟩

/-- the description does not depend on the order in which the three files are named -/
theorem Link3Spec.rot {ab bb cb rb : Blocks} {ta tb tc tr : SymTab} (S : Link3Spec bb tb cb tc ab ta rb tr) :
    Link3Spec ab ta bb tb cb tc rb tr where
  none_iff := fun A => (S.none_iff A).trans and_rot
  patched := fun A K x h1 h2 => S.patched A K x (or_rot.mpr h1) (or_rot.mpr h2)
  kept := fun A hn w => (S.kept A (fun K x h1 h2 => hn K x (or_rot.mp h1) (or_rot.mp h2)) w).trans or_rot
  pending := fun A K => (S.pending A K).trans
    ⟨fun ⟨h1, h2⟩ => ⟨or_rot.mp h1, fun x h => h2 x (or_rot.mpr h)⟩, fun ⟨h1, h2⟩ => ⟨or_rot.mpr h1, fun x h => h2 x (or_rot.mp h)⟩⟩
  defs := fun K x => (S.defs K x).trans or_rot
  exts := fun K => (S.exts K).trans
    ⟨fun ⟨h1, h2⟩ => ⟨or_rot.mp h1, fun x h => h2 x (or_rot.mpr h)⟩, fun ⟨h1, h2⟩ => ⟨or_rot.mpr h1, fun x h => h2 x (or_rot.mp h)⟩⟩

/-- the description determines image, pending relocations, definitions and external declarations -/
theorem Link3Spec.determines {ab bb cb rb rb' : Blocks} {ta tb tc tr tr' : SymTab}
    (S : Link3Spec ab ta bb tb cb tc rb tr) (S' : Link3Spec ab ta bb tb cb tc rb' tr') :
    (∀ A, cell rb A = cell rb' A) ∧ (∀ A K, (A, K) ∈ tr.rel ↔ (A, K) ∈ tr'.rel) ∧
    (∀ K x, DefAt tr.labels K x ↔ DefAt tr'.labels K x) ∧
    (∀ K, ExtO (lookupKey tr.labels K) ↔ ExtO (lookupKey tr'.labels K)) := by
  refine ⟨?_, fun A K => (S.pending A K).trans (S'.pending A K).symm, fun K x => (S.defs K x).trans (S'.defs K x).symm,
    fun K => (S.exts K).trans (S'.exts K).symm⟩
  intro A
  by_cases hp : ∃ K x, ((A, K) ∈ ta.rel ∨ (A, K) ∈ tb.rel ∨ (A, K) ∈ tc.rel) ∧
      (DefAt ta.labels K x ∨ DefAt tb.labels K x ∨ DefAt tc.labels K x)
  · obtain ⟨K, x, he, hd⟩ := hp
    rw [S.patched A K x he hd, S'.patched A K x he hd]
  · have hn : ∀ K x, ((A, K) ∈ ta.rel ∨ (A, K) ∈ tb.rel ∨ (A, K) ∈ tc.rel) →
        ¬ (DefAt ta.labels K x ∨ DefAt tb.labels K x ∨ DefAt tc.labels K x) := fun K x he hd => hp ⟨K, x, he, hd⟩
    exact option_ext _ _ (fun w => (S.kept A hn w).trans (S'.kept A hn w).symm)

/-- **three files, left to right**: `(a ∪ b) ∪ c` described from `a`, `b`, `c` -/
theorem link3_left (a b c ab r : ObjFile) (ta tb tc : SymTab)
    (hsa : a.sym = some ta) (hsb : b.sym = some tb) (hsc : c.sym = some tc)
    (wa : FileWF a.blocks ta) (wb : FileWF b.blocks tb) (wc : FileWF c.blocks tc)
    (hab : ObjFile.link a b = .ok ab) (hr : ObjFile.link ab c = .ok r) :
    ∃ tr, r.sym = some tr ∧ FileWF r.blocks tr ∧ Link3Spec a.blocks ta b.blocks tb c.blocks tc r.blocks tr := by
  obtain ⟨tab, hsab, S1⟩ := link_spec a b ab ta tb hsa hsb wa wb hab
  obtain ⟨tr, hsr, S2⟩ := link_spec ab c r tab tc hsab hsc S1.wf wc hr
  exact ⟨tr, hsr, S2.wf, spec3 S1 S2 wc⟩

/-- **three files, right to left**: `a ∪ (b ∪ c)` has the same description -/
theorem link3_right (a b c bc r : ObjFile) (ta tb tc : SymTab)
    (hsa : a.sym = some ta) (hsb : b.sym = some tb) (hsc : c.sym = some tc)
    (wa : FileWF a.blocks ta) (wb : FileWF b.blocks tb) (wc : FileWF c.blocks tc)
    (hbc : ObjFile.link b c = .ok bc) (hr : ObjFile.link a bc = .ok r) :
    ∃ tr, r.sym = some tr ∧ FileWF r.blocks tr ∧ Link3Spec a.blocks ta b.blocks tb c.blocks tc r.blocks tr := by
  obtain ⟨tbc, hsbc, S1⟩ := link_spec b c bc tb tc hsb hsc wb wc hbc
  obtain ⟨tr, hsr, S2⟩ := link_spec a bc r ta tbc hsa hsbc wa S1.wf hr
  exact ⟨tr, hsr, S2.wf, (spec3 S1 S2.symm wa).rot⟩

/-- **the outcome of linking does not depend on the grouping**: for three well-formed files, when `(a ∪ b) ∪ c` and
    `a ∪ (b ∪ c)` both link, the results have the same memory image (every cell), the same pending relocation entries,
    the same defined labels with the same addresses and the same external declarations -/
theorem link_grouping_image (a b c ab bc r r' : ObjFile) (ta tb tc : SymTab)
    (hsa : a.sym = some ta) (hsb : b.sym = some tb) (hsc : c.sym = some tc)
    (wa : FileWF a.blocks ta) (wb : FileWF b.blocks tb) (wc : FileWF c.blocks tc)
    (hab : ObjFile.link a b = .ok ab) (hr : ObjFile.link ab c = .ok r)
    (hbc : ObjFile.link b c = .ok bc) (hr' : ObjFile.link a bc = .ok r') :
    ∃ tr tr', r.sym = some tr ∧ r'.sym = some tr' ∧
      (∀ A, cell r.blocks A = cell r'.blocks A) ∧ (∀ A K, (A, K) ∈ tr.rel ↔ (A, K) ∈ tr'.rel) ∧
      (∀ K x, DefAt tr.labels K x ↔ DefAt tr'.labels K x) ∧
      (∀ K, ExtO (lookupKey tr.labels K) ↔ ExtO (lookupKey tr'.labels K)) := by
  obtain ⟨tr, hsr, _, L⟩ := link3_left a b c ab r ta tb tc hsa hsb hsc wa wb wc hab hr
  obtain ⟨tr', hsr', _, R⟩ := link3_right a b c bc r' ta tb tc hsa hsb hsc wa wb wc hbc hr'
  exact ⟨tr, tr', hsr, hsr', L.determines R⟩

/-- the same for the two orders of two files (from the symmetric description, with no extra hypothesis) -/
theorem link_order_image (a b r r' : ObjFile) (ta tb : SymTab) (hsa : a.sym = some ta) (hsb : b.sym = some tb)
    (wa : FileWF a.blocks ta) (wb : FileWF b.blocks tb)
    (hr : ObjFile.link a b = .ok r) (hr' : ObjFile.link b a = .ok r') :
    ∃ tr tr', r.sym = some tr ∧ r'.sym = some tr' ∧
      (∀ A, cell r.blocks A = cell r'.blocks A) ∧ (∀ A K, (A, K) ∈ tr.rel ↔ (A, K) ∈ tr'.rel) ∧
      (∀ K x, DefAt tr.labels K x ↔ DefAt tr'.labels K x) := by
  obtain ⟨tr, hsr, S⟩ := link_spec a b r ta tb hsa hsb wa wb hr
  obtain ⟨tr', hsr', S'⟩ := link_spec b a r' tb ta hsb hsa wb wa hr'
  have S'' := S'.symm
  refine ⟨tr, tr', hsr, hsr', ?_, fun A K => (S.pending A K).trans (S''.pending A K).symm,
    fun K x => (S.defs K x).trans (S''.defs K x).symm⟩
  intro A
  by_cases hp : ∃ K x, ((A, K) ∈ ta.rel ∨ (A, K) ∈ tb.rel) ∧ (DefAt ta.labels K x ∨ DefAt tb.labels K x)
  · obtain ⟨K, x, he, hd⟩ := hp
    rw [S.patched A K x he hd, S''.patched A K x he hd]
  · have hn : ∀ K x, ((A, K) ∈ ta.rel ∨ (A, K) ∈ tb.rel) → ¬ (DefAt ta.labels K x ∨ DefAt tb.labels K x) :=
      fun K x he hd => hp ⟨K, x, he, hd⟩
    exact option_ext _ _ (fun w => (S.kept A hn w).trans (S''.kept A hn w).symm)

/-! ### non-vacuity -/

/-- a file that declares `X` external and fills one word with it, and a file that defines `X` -/
def demoA : ObjFile := ⟨[(0x3000, [some 1, none])], some ⟨[(['X'], ⟨0, 0, true⟩)], [(0x3001, ['X'])], none⟩⟩
def demoB : ObjFile := ⟨[(0x4000, [some 7])], some ⟨[(['X'], ⟨0x4000, 0, false⟩)], [], none⟩⟩

set_option maxRecDepth 100000 in
/-- non-vacuity: both demo files are `FileWF`, they link, and the filled word holds the address of `X` -/
example : FileWF demoA.blocks ⟨[(['X'], ⟨0, 0, true⟩)], [(0x3001, ['X'])], none⟩ ∧
    FileWF demoB.blocks ⟨[(['X'], ⟨0x4000, 0, false⟩)], [], none⟩ ∧
    (∃ r, ObjFile.link demoA demoB = .ok r ∧ cell r.blocks 0x3001 = some (some 0x4000)) := by
  refine ⟨⟨?_, ?_, ?_, ?_, ?_, ?_⟩, ⟨?_, ?_, ?_, ?_, ?_, ?_⟩, ?_⟩
  · exact trivial
  · simp [demoA]
  · simp
  · simp
  · intro r hr; simp at hr; subst hr; decide
  · intro r hr; simp at hr; subst hr; exact ⟨⟨0, 0, true⟩, by decide, rfl⟩
  · exact trivial
  · simp [demoB]
  · simp
  · simp
  · intro r hr; cases hr
  · intro r hr; cases hr
  · exact ⟨⟨[(0x3000, [some 1, some 0x4000]), (0x4000, [some 7])], some ⟨[(['X'], ⟨0x4000, 0, false⟩)], [], none⟩⟩, by rfl, by decide⟩

end Lc3V.C20
