/-
  Lemmas/LinkOk.lean — the label fold of `link` succeeds exactly when no label is defined on both sides at different addresses (C20).
-/
import Lc3V.Lemmas.LinkPatch
set_option linter.unusedSimpArgs false
set_option linter.unusedVariables false
namespace Lc3V

/-- a label conflict: both sides define the label (neither external), at different addresses -/
def conflictIn (labels : List (Key × SymData)) (e : Key × SymData) : Bool :=
  match lookupKey labels e.1 with
  | some ad => !ad.ext && !e.2.ext && (ad.addr != e.2.addr)
  | none => false

theorem linkLabel_ok_iff (st : LinkSt) (k : Key) (d : SymData) :
    (∃ st', linkLabel st (k, d) = .ok st') ↔ conflictIn st.labels (k, d) = false := by
  unfold linkLabel conflictIn
  dsimp only
  cases hl : lookupKey st.labels k with
  | none => simp
  | some ad =>
    dsimp only
    cases hae : ad.ext <;> cases hde : d.ext <;> simp [hae, hde]
    by_cases hne : ad.addr = d.addr
    · simp [hne]
    · simp [hne]

/-- **the label fold succeeds exactly when no label is defined on both sides at different addresses** -/
theorem linkFold_ok_iff (f : Key × SymData → Key × SymData) (hf : ∀ e, (f e).1 = e.1) :
    ∀ (l : List (Key × SymData)) (st : LinkSt), l.Pairwise (fun x y => (x.1 == y.1) = false) →
    ((∃ st', l.foldlM (fun s e => linkLabel s (f e)) st = .ok st') ↔ ∀ e ∈ l, conflictIn st.labels (f e) = false) := by
  intro l
  induction l with
  | nil => intro st _; simp only [List.foldlM_nil, List.not_mem_nil, false_imp_iff, implies_true, iff_true]; exact ⟨st, rfl⟩
  | cons e rest ih =>
    intro st hp
    have hpc := List.pairwise_cons.mp hp
    rw [List.foldlM_cons]
    have hfe : f e = (e.1, (f e).2) := by rw [← hf e]
    cases hs : linkLabel st (f e) with
    | error x =>
      constructor
      · intro ⟨st', h⟩; cases h
      · intro h
        have h0 := h e (by simp)
        have := (linkLabel_ok_iff st e.1 (f e).2).mpr (by rw [← hfe]; exact h0)
        obtain ⟨st', hst'⟩ := this
        rw [← hfe, hs] at hst'; cases hst'
    | ok st1 =>
      have hs' := hs
      rw [hfe] at hs'
      obtain ⟨a1, _, _⟩ := linkLabel_effect st st1 e.1 (f e).2 hs'
      have hok : conflictIn st.labels (f e) = false := by
        have := (linkLabel_ok_iff st e.1 (f e).2).mp ⟨st1, hs'⟩
        rw [← hfe] at this; exact this
      have hsame : ∀ x ∈ rest, conflictIn st1.labels (f x) = conflictIn st.labels (f x) := by
        intro x hx
        unfold conflictIn
        rw [hf x, a1 x.1 (hpc.1 x hx)]
      show (∃ st', rest.foldlM (fun s e => linkLabel s (f e)) st1 = .ok st') ↔ _
      rw [ih st1 hpc.2]
      constructor
      · intro h x hx
        rcases List.mem_cons.mp hx with rfl | hx
        · exact hok
        · rw [← hsame x hx]; exact h x hx
      · intro h x hx
        rw [hsame x hx]; exact h x (by simp [hx])

end Lc3V
