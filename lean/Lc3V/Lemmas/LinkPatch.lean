/- Lemmas/LinkPatch.lean — linking a file that uses an external label with one that defines it: the `.fill` word ends up
   holding the label's address. -/
import Lc3V.Model.Asm
set_option linter.unusedSimpArgs false
set_option linter.unusedVariables false
namespace Lc3V

/-- the word of a block map at an address: the block with the greatest start ≤ addr (what `get_mut` finds) -/
def cell (m : Blocks) (addr : W) : Option (Option W) :=
  match (m.filter (fun e => e.1 ≤ addr.toNat)).getLast? with
  | none => none
  | some (start, block) => block[addr.toNat - start]?

theorem filter_map_set (m : Blocks) (start off n : Nat) (v : W) :
    (m.map (fun e => if e.1 = start then (e.1, e.2.set off (some v)) else e)).filter (fun e => e.1 ≤ n) =
    (m.filter (fun e => e.1 ≤ n)).map (fun e => if e.1 = start then (e.1, e.2.set off (some v)) else e) := by
  induction m with
  | nil => rfl
  | cons x xs ih =>
    simp only [List.map_cons, List.filter_cons]
    by_cases hx : x.1 = start
    · simp only [hx, if_true]
      by_cases hn : start ≤ n <;> simp [hn, ih, hx]
    · simp only [hx, if_false]
      by_cases hn : x.1 ≤ n <;> simp [hn, hx, ih]

theorem unique_key {α : Type} : ∀ (l : List (Nat × α)), l.Pairwise (fun p q => p.1 ≠ q.1) →
    ∀ p ∈ l, ∀ q ∈ l, p.1 = q.1 → p = q := by
  intro l
  induction l with
  | nil => intro _ p hp; cases hp
  | cons z zs ih =>
    intro hpw p hp q hq he
    have hz := List.pairwise_cons.mp hpw
    rcases List.mem_cons.mp hp with hpz | hp' <;> rcases List.mem_cons.mp hq with hqz | hq'
    · rw [hpz, hqz]
    · rw [hpz] at he; exact absurd he (hz.1 q hq')
    · rw [hqz] at he; exact absurd he.symm (hz.1 p hp')
    · exact ih hz.2 p hp' q hq' he

/-- a patch sets the addressed cell (when it lies inside its block) and leaves every other cell alone; keys must be unique -/
theorem cell_patchWord (m : Blocks) (hu : m.Pairwise (fun x y => x.1 ≠ y.1)) (x y v : W) :
    cell (patchWord m x v) y =
      if x = y ∧ (cell m x).isSome then some (some v) else cell m y := by
  unfold patchWord
  cases hl : (m.filter (fun e => e.1 ≤ x.toNat)).getLast? with
  | none =>
    simp only
    have : cell m x = none := by unfold cell; rw [hl]
    simp [this]
  | some sb =>
    obtain ⟨start, block⟩ := sb
    simp only
    have hcx : cell m x = block[x.toNat - start]? := by unfold cell; rw [hl]
    by_cases hoff : x.toNat - start < block.length
    · simp only [hoff, if_true]
      have hsome : (cell m x).isSome = true := by rw [hcx]; simp [hoff]
      unfold cell
      rw [filter_map_set]
      -- the last block at or below y after the map
      have hmem : (start, block) ∈ m := (List.mem_filter.mp (List.mem_of_getLast? hl)).1
      cases hly : (m.filter (fun e => e.1 ≤ y.toNat)).getLast? with
      | none =>
        have hnil : m.filter (fun e => e.1 ≤ y.toNat) = [] := List.getLast?_eq_none_iff.mp hly
        rw [hnil]
        simp only [List.map_nil, List.getLast?_nil]
        have hne : ¬ x = y := by
          intro e; subst e
          rw [hnil] at hl; cases hl
        simp [hne]
      | some sy =>
        obtain ⟨sy0, by0⟩ := sy
        rw [List.getLast?_map, hly]
        simp only [Option.map_some]
        by_cases hxy : x = y
        · subst hxy
          rw [hl] at hly
          cases hly
          simp only [if_true, true_and]
          rw [List.getElem?_set_self hoff, hl]
          simp [hoff]
        · simp only [hxy, false_and, if_false]
          by_cases hs : sy0 = start
          · subst hs
            simp only [if_true]
            -- same block, different offset (the block found for y has the same start, hence is the same block)
            have hmem2 : (sy0, by0) ∈ m := (List.mem_filter.mp (List.mem_of_getLast? hly)).1
            have hsame : by0 = block := by
              have := unique_key m hu _ hmem2 _ hmem rfl
              exact (Prod.mk.inj this).2
            subst hsame
            have hle1 : sy0 ≤ x.toNat := by simpa using (List.mem_filter.mp (List.mem_of_getLast? hl)).2
            have hle2 : sy0 ≤ y.toNat := by simpa using (List.mem_filter.mp (List.mem_of_getLast? hly)).2
            have hne : x.toNat - sy0 ≠ y.toNat - sy0 := by
              intro e
              apply hxy
              apply BitVec.eq_of_toNat_eq
              omega
            rw [List.getElem?_set_ne hne]
          · simp only [hs, if_false]
    · simp only [hoff, if_false]
      have : (cell m x).isSome = false := by rw [hcx]; simp [List.getElem?_eq_none (Nat.le_of_not_lt hoff)]
      simp [this]

theorem patchWord_keys (m : Blocks) (x v : W) : (patchWord m x v).map (·.1) = m.map (·.1) := by
  unfold patchWord
  split
  · rfl
  · dsimp only
    split
    · rw [List.map_map]
      apply List.map_congr_left
      intro e _
      simp only [Function.comp]
      split <;> rfl
    · rfl

theorem patchWord_unique (m : Blocks) (hu : m.Pairwise (fun x y => x.1 ≠ y.1)) (x v : W) :
    (patchWord m x v).Pairwise (fun x y => x.1 ≠ y.1) := by
  have h1 : (m.map (·.1)).Pairwise (· ≠ ·) := List.pairwise_map.mpr hu
  rw [← patchWord_keys m x v] at h1
  exact List.pairwise_map.mp h1

/-- applying the patches of a link: if every patch at address `A` carries the value `V` and there is one, the cell at `A`
    ends up holding `V` -/
theorem patch_fold (A V : W) : ∀ (relocs : List (W × W)) (m : Blocks), m.Pairwise (fun x y => x.1 ≠ y.1) → (cell m A).isSome = true →
    (∀ r ∈ relocs, r.1 = A → r.2 = V) → (cell m A = some (some V) ∨ (A, V) ∈ relocs) →
    cell (relocs.foldl (fun m r => patchWord m r.1 r.2) m) A = some (some V) := by
  intro relocs
  induction relocs with
  | nil =>
    intro m _ _ _ h
    rcases h with h | h
    · exact h
    · cases h
  | cons r rest ih =>
    intro m hu hs hall hex
    obtain ⟨x, v⟩ := r
    simp only [List.foldl_cons]
    have hcell := cell_patchWord m hu x A v
    apply ih (patchWord m x v) (patchWord_unique m hu x v)
    · rw [hcell]
      by_cases hx : x = A
      · subst hx; simp [hs]
      · simp [hx, hs]
    · intro r hr; exact hall r (by simp [hr])
    · by_cases hx : x = A
      · subst hx
        left
        rw [hcell]
        have hv : v = V := hall (x, v) (by simp) rfl
        simp [hs, hv]
      · rcases hex with h | h
        · left; rw [hcell]; simp [hx, h]
        · right
          rcases List.mem_cons.mp h with h | h
          · exact absurd (Prod.mk.inj h).1.symm hx
          · exact h

/-! ### the label fold of `link` -/

theorem lookupKey_setKey_ne (m : List (Key × SymData)) (k K : Key) (d : SymData) (h : (k == K) = false) :
    lookupKey (setKey m k d) K = lookupKey m K := by
  unfold lookupKey setKey
  induction m with
  | nil => rfl
  | cons e rest ih =>
    simp only [List.map_cons, List.find?_cons]
    by_cases he : (e.1 == k) = true
    · have hek : e.1 = k := by simpa using he
      have h2 : (e.1 == K) = false := by rw [hek]; exact h
      simp only [he, if_true, h, h2]
      exact ih
    · simp only [he, Bool.false_eq_true, if_false]
      by_cases h3 : (e.1 == K) = true
      · simp [h3]
      · simp only [h3]
        exact ih

theorem lookupKey_append_ne (m : List (Key × SymData)) (k K : Key) (d : SymData) (h : (k == K) = false) :
    lookupKey (m ++ [(k, d)]) K = lookupKey m K := by
  unfold lookupKey
  rw [List.find?_append]
  cases hf : m.find? (fun e => e.1 == K) with
  | some x => simp
  | none => simp [List.find?, h]

/-- what one `linkLabel` step does: the table entry of every other key is untouched; the relocation list only loses the
    entries of this key; new patches come from exactly those entries -/
theorem linkLabel_effect (st st' : LinkSt) (k : Key) (d : SymData) (h : linkLabel st (k, d) = .ok st') :
    (∀ K, (k == K) = false → lookupKey st'.labels K = lookupKey st.labels K) ∧
    (st'.rel = st.rel ∨ st'.rel = st.rel.filter (fun r => !(r.2 == k))) ∧
    (∃ extra, st'.relocs = st.relocs ++ extra ∧ ∀ r ∈ extra, ∃ e ∈ st.rel, e.2 = k ∧ r.1 = e.1) := by
  unfold linkLabel at h
  dsimp only at h
  cases hl : lookupKey st.labels k with
  | none =>
    rw [hl] at h
    cases h
    exact ⟨fun K hK => lookupKey_append_ne _ _ _ _ hK, Or.inl rfl, [], by simp, fun r hr => by cases hr⟩
  | some ad =>
    rw [hl] at h
    dsimp only at h
    by_cases h1 : (ad.ext && d.ext) = true
    · simp only [h1, if_true] at h
      cases h
      exact ⟨fun _ _ => rfl, Or.inl rfl, [], by simp, fun r hr => by cases hr⟩
    · simp only [h1, Bool.false_eq_true, if_false] at h
      by_cases h2 : (ad.ext || d.ext) = true
      · simp only [h2, if_true, List.partition_eq_filter_filter] at h
        cases h
        refine ⟨fun K hK => lookupKey_setKey_ne _ _ _ _ hK, Or.inr rfl, _, rfl, fun r hr => ?_⟩
        obtain ⟨e, he, rfl⟩ := List.mem_map.mp hr
        have := List.mem_filter.mp he
        exact ⟨e, this.1, by simpa using this.2, rfl⟩
      · simp only [h2, Bool.false_eq_true, if_false] at h
        split at h
        · cases h
        · cases h
          exact ⟨fun _ _ => rfl, Or.inl rfl, [], by simp, fun r hr => by cases hr⟩

/-- folding labels none of which has key `K`: the entry of `K`, the relocation entries of `K` and the old patches stay; new
    patches come from relocation entries of other keys -/
theorem linkFold_other (f : Key × SymData → Key × SymData) (hf : ∀ e, (f e).1 = e.1) (K : Key) :
    ∀ (l : List (Key × SymData)) (st st' : LinkSt), (∀ e ∈ l, (e.1 == K) = false) →
    l.foldlM (fun s e => linkLabel s (f e)) st = .ok st' →
    lookupKey st'.labels K = lookupKey st.labels K ∧
    st'.rel.filter (fun r => r.2 == K) = st.rel.filter (fun r => r.2 == K) ∧ (∀ r ∈ st'.rel, r ∈ st.rel) ∧
    (∃ extra, st'.relocs = st.relocs ++ extra ∧ ∀ r ∈ extra, ∃ e ∈ st.rel, (e.2 == K) = false ∧ r.1 = e.1) := by
  intro l
  induction l with
  | nil =>
    intro st st' _ h
    simp only [List.foldlM_nil] at h
    cases h
    exact ⟨rfl, rfl, fun r hr => hr, [], by simp, fun r hr => by cases hr⟩
  | cons e rest ih =>
    intro st st' hk h
    rw [List.foldlM_cons] at h
    cases hs : linkLabel st (f e) with
    | error x => rw [hs] at h; cases h
    | ok st1 =>
      rw [hs] at h
      have hfe : f e = ((f e).1, (f e).2) := rfl
      rw [hfe, hf e] at hs
      obtain ⟨a1, a2, extra1, a3, a4⟩ := linkLabel_effect st st1 e.1 (f e).2 hs
      have hek := hk e (by simp)
      obtain ⟨b1, b2, b3, extra2, b4, b5⟩ := ih st1 st' (fun x hx => hk x (by simp [hx])) h
      have hsub : ∀ r ∈ st1.rel, r ∈ st.rel := by
        intro r hr
        rcases a2 with a2 | a2
        · rw [a2] at hr; exact hr
        · rw [a2] at hr; exact (List.mem_filter.mp hr).1
      refine ⟨by rw [b1, a1 K hek], ?_, fun r hr => hsub r (b3 r hr), extra1 ++ extra2, by rw [b4, a3, List.append_assoc], ?_⟩
      · rw [b2]
        rcases a2 with a2 | a2
        · rw [a2]
        · rw [a2, List.filter_filter]
          apply List.filter_congr
          intro r _
          by_cases hrK : (r.2 == K) = true
          · have : r.2 = K := by simpa using hrK
            have h3 : (r.2 == e.1) = false := by
              rw [this]
              cases hx : (K == e.1) with
              | false => rfl
              | true => have : K = e.1 := by simpa using hx
                        rw [← this] at hek; simp at hek
            simp [hrK, h3]
          · simp [hrK]
      · intro r hr
        rcases List.mem_append.mp hr with hr | hr
        · obtain ⟨x, hx, hx2, hx3⟩ := a4 r hr
          exact ⟨x, hx, by rw [hx2]; exact hek, hx3⟩
        · obtain ⟨x, hx, hx2, hx3⟩ := b5 r hr
          exact ⟨x, hsub x hx, hx2, hx3⟩

theorem linkFold_any (f : Key × SymData → Key × SymData) (hf : ∀ e, (f e).1 = e.1) :
    ∀ (l : List (Key × SymData)) (st st' : LinkSt), l.foldlM (fun s e => linkLabel s (f e)) st = .ok st' →
    (∀ r ∈ st'.rel, r ∈ st.rel) ∧ (∃ extra, st'.relocs = st.relocs ++ extra ∧ ∀ r ∈ extra, ∃ e ∈ st.rel, r.1 = e.1) := by
  intro l
  induction l with
  | nil =>
    intro st st' h
    simp only [List.foldlM_nil] at h
    cases h
    exact ⟨fun r hr => hr, [], by simp, fun r hr => by cases hr⟩
  | cons e rest ih =>
    intro st st' h
    rw [List.foldlM_cons] at h
    cases hs : linkLabel st (f e) with
    | error x => rw [hs] at h; cases h
    | ok st1 =>
      rw [hs] at h
      have hfe : f e = ((f e).1, (f e).2) := rfl
      rw [hfe, hf e] at hs
      obtain ⟨_, a2, extra1, a3, a4⟩ := linkLabel_effect st st1 e.1 (f e).2 hs
      obtain ⟨b3, extra2, b4, b5⟩ := ih st1 st' h
      have hsub : ∀ r ∈ st1.rel, r ∈ st.rel := by
        intro r hr
        rcases a2 with a2 | a2
        · rw [a2] at hr; exact hr
        · rw [a2] at hr; exact (List.mem_filter.mp hr).1
      refine ⟨fun r hr => hsub r (b3 r hr), extra1 ++ extra2, by rw [b4, a3, List.append_assoc], fun r hr => ?_⟩
      rcases List.mem_append.mp hr with hr | hr
      · obtain ⟨x, hx, _, hx3⟩ := a4 r hr
        exact ⟨x, hx, hx3⟩
      · obtain ⟨x, hx, hx3⟩ := b5 r hr
        exact ⟨x, hsub x hx, hx3⟩

theorem unique_addr (rel : List (W × Key)) (hu : rel.Pairwise (fun x y => x.1 ≠ y.1)) :
    ∀ p ∈ rel, ∀ q ∈ rel, p.1 = q.1 → p = q := by
  induction rel with
  | nil => intro p hp; cases hp
  | cons z zs ih =>
    intro p hp q hq he
    have hz := List.pairwise_cons.mp hu
    rcases List.mem_cons.mp hp with hpz | hp' <;> rcases List.mem_cons.mp hq with hqz | hq'
    · rw [hpz, hqz]
    · rw [hpz] at he; exact absurd he (hz.1 q hq')
    · rw [hqz] at he; exact absurd he.symm (hz.1 p hp')
    · exact ih hz.2 p hp' q hq' he

/-- **the label fold resolves the external**: when file A holds a relocation entry `(A, K)` for a label `K` it declares
    external and file B defines `K` (first occurrence in B's table) at address `V`, the fold produces a patch `(A, V)` and every
    patch it produces at address `A` carries the value `V` -/
theorem linkFold_resolves (f : Key × SymData → Key × SymData) (hf : ∀ e, (f e).1 = e.1)
    (hfe : ∀ e, (f e).2.ext = e.2.ext ∧ (f e).2.addr = e.2.addr)
    (st0 stf : LinkSt) (pre post : List (Key × SymData)) (K : Key) (ad bd : SymData) (A : W)
    (hpre : ∀ e ∈ pre, (e.1 == K) = false) (hl : lookupKey st0.labels K = some ad) (hext : ad.ext = true) (hdef : bd.ext = false)
    (hA : (A, K) ∈ st0.rel) (hUA : st0.rel.Pairwise (fun x y => x.1 ≠ y.1)) (hr0 : ∀ r ∈ st0.relocs, r.1 ≠ A)
    (hfold : (pre ++ (K, bd) :: post).foldlM (fun s e => linkLabel s (f e)) st0 = .ok stf) :
    (A, bd.addr) ∈ stf.relocs ∧ ∀ r ∈ stf.relocs, r.1 = A → r.2 = bd.addr := by
  -- split the fold
  have hsplit : ∃ st1, pre.foldlM (fun s e => linkLabel s (f e)) st0 = .ok st1 ∧
      ((K, bd) :: post).foldlM (fun s e => linkLabel s (f e)) st1 = .ok stf := by
    clear hpre hl hA hUA hr0
    induction pre generalizing st0 with
    | nil => exact ⟨st0, rfl, hfold⟩
    | cons x xs ih =>
      simp only [List.cons_append, List.foldlM_cons] at hfold ⊢
      cases hx : linkLabel st0 (f x) with
      | error e => rw [hx] at hfold; cases hfold
      | ok s' => rw [hx] at hfold; exact ih s' hfold
  obtain ⟨st1, h1, h2⟩ := hsplit
  obtain ⟨p1, p2, p3, extra1, p4, p5⟩ := linkFold_other f hf K pre st0 st1 hpre h1
  rw [List.foldlM_cons] at h2
  -- the step at K
  have hstep : linkLabel st1 (f (K, bd)) = .ok
      ⟨setKey st1.labels K (f (K, bd)).2, st1.rel.filter (fun r => !(r.2 == K)),
       st1.relocs ++ (st1.rel.filter (fun r => r.2 == K)).map (fun r => (r.1, bd.addr))⟩ := by
    have hfk : f (K, bd) = (K, (f (K, bd)).2) := by
      have := hf (K, bd); exact Prod.ext this rfl
    rw [hfk]
    unfold linkLabel
    dsimp only
    rw [p1, hl]
    dsimp only
    have he2 := (hfe (K, bd)).1
    have ha2 := (hfe (K, bd)).2
    simp only at he2 ha2
    rw [he2, hdef, hext]
    simp only [Bool.and_false, Bool.false_eq_true, if_false, Bool.or_false, if_true, List.partition_eq_filter_filter, ha2]
    rfl
  rw [hstep] at h2
  simp only [bind, Except.bind] at h2
  obtain ⟨q3, extra3, q4, q5⟩ := linkFold_any f hf post _ stf h2
  simp only at q3 q4 q5
  have hAK : (A, K) ∈ st1.rel.filter (fun r => r.2 == K) := by rw [p2]; exact List.mem_filter.mpr ⟨hA, by simp⟩
  constructor
  · rw [q4]
    apply List.mem_append_left
    apply List.mem_append_right
    exact List.mem_map.mpr ⟨(A, K), hAK, rfl⟩
  · intro r hr hrA
    rw [q4, p4] at hr
    rcases List.mem_append.mp hr with hr | hr
    · rcases List.mem_append.mp hr with hr | hr
      · rcases List.mem_append.mp hr with hr | hr
        · exact absurd hrA (hr0 r hr)
        · obtain ⟨e, he, hek, hre⟩ := p5 r hr
          have := unique_addr st0.rel hUA e he (A, K) hA (by rw [← hre, hrA])
          rw [this] at hek; simp at hek
      · obtain ⟨e, _, rfl⟩ := List.mem_map.mp hr
        rfl
    · obtain ⟨e, he, hre⟩ := q5 r hr
      have he1 := (List.mem_filter.mp he)
      have he0 : e ∈ st0.rel := p3 e he1.1
      have := unique_addr st0.rel hUA e he0 (A, K) hA (by rw [← hre, hrA])
      rw [this] at he1; simp at he1

/-! ### the merged label table, key by key -/

/-- the entry a key gets when file A has `x` for it and file B has `y` -/
def combineSym (x : Option SymData) (y : SymData) : SymData :=
  match x with
  | none => y
  | some ad => if ad.ext && y.ext then ad else if ad.ext || y.ext then (if ad.ext then y else ad) else ad

theorem lookupKey_setKey_self (m : List (Key × SymData)) (k : Key) (d d0 : SymData) (h : lookupKey m k = some d0) :
    lookupKey (setKey m k d) k = some d := by
  unfold lookupKey setKey at *
  induction m with
  | nil => simp at h
  | cons e rest ih =>
    simp only [List.map_cons, List.find?_cons] at h ⊢
    by_cases he : (e.1 == k) = true
    · simp [he]
    · simp only [he, Bool.false_eq_true, if_false] at h ⊢
      exact ih h

theorem lookupKey_append_self (m : List (Key × SymData)) (k : Key) (d : SymData) (h : lookupKey m k = none) :
    lookupKey (m ++ [(k, d)]) k = some d := by
  unfold lookupKey at *
  rw [List.find?_append]
  cases hf : m.find? (fun e => e.1 == k) with
  | some x => rw [hf] at h; simp at h
  | none => simp [List.find?]

/-- one step at its own key -/
theorem linkLabel_self (st st' : LinkSt) (k : Key) (d : SymData) (h : linkLabel st (k, d) = .ok st') :
    lookupKey st'.labels k = some (combineSym (lookupKey st.labels k) d) := by
  unfold linkLabel at h
  dsimp only at h
  cases hl : lookupKey st.labels k with
  | none =>
    rw [hl] at h
    cases h
    exact lookupKey_append_self _ _ _ hl
  | some ad =>
    rw [hl] at h
    dsimp only at h
    unfold combineSym
    by_cases h1 : (ad.ext && d.ext) = true
    · simp only [h1, if_true] at h ⊢
      cases h; exact hl
    · simp only [h1, Bool.false_eq_true, if_false] at h ⊢
      by_cases h2 : (ad.ext || d.ext) = true
      · simp only [h2, if_true] at h ⊢
        cases h
        exact lookupKey_setKey_self _ _ _ _ hl
      · simp only [h2, Bool.false_eq_true, if_false] at h ⊢
        split at h
        · cases h
        · cases h; exact hl

/-- two definitions of one label must agree on the address -/
theorem linkLabel_defined_same (st st' : LinkSt) (k : Key) (d ad : SymData) (h : linkLabel st (k, d) = .ok st')
    (hl : lookupKey st.labels k = some ad) (h1 : ad.ext = false) (h2 : d.ext = false) : ad.addr = d.addr := by
  unfold linkLabel at h
  dsimp only at h
  rw [hl] at h
  dsimp only at h
  simp only [h1, h2, Bool.and_false, Bool.or_false, Bool.false_eq_true, if_false] at h
  split at h
  · cases h
  · rename_i hne; simpa using hne

/-- **the merged table, key by key**: after folding B's labels (keys unique in B) into A's table, a key that B does not have
    keeps A's entry, and a key that B has gets the combination of A's entry and B's -/
theorem linkFold_pointwise (f : Key × SymData → Key × SymData) (hf : ∀ e, (f e).1 = e.1) :
    ∀ (l : List (Key × SymData)) (st st' : LinkSt), l.Pairwise (fun x y => (x.1 == y.1) = false) →
    l.foldlM (fun s e => linkLabel s (f e)) st = .ok st' →
    (∀ K, (∀ e ∈ l, (e.1 == K) = false) → lookupKey st'.labels K = lookupKey st.labels K) ∧
    (∀ e ∈ l, lookupKey st'.labels e.1 = some (combineSym (lookupKey st.labels e.1) (f e).2)) ∧
    (∀ e ∈ l, ∀ ad, lookupKey st.labels e.1 = some ad → ad.ext = false → (f e).2.ext = false → ad.addr = (f e).2.addr) := by
  intro l
  induction l with
  | nil =>
    intro st st' _ h
    simp only [List.foldlM_nil] at h
    cases h
    exact ⟨fun _ _ => rfl, (fun e he => by cases he), (fun e he => by cases he)⟩
  | cons x rest ih =>
    intro st st' hu h
    have hx := List.pairwise_cons.mp hu
    rw [List.foldlM_cons] at h
    cases hs : linkLabel st (f x) with
    | error e => rw [hs] at h; cases h
    | ok st1 =>
      rw [hs] at h
      have hfx : f x = (x.1, (f x).2) := Prod.ext (hf x) rfl
      rw [hfx] at hs
      obtain ⟨a1, _, _⟩ := linkLabel_effect st st1 x.1 (f x).2 hs
      have aself := linkLabel_self st st1 x.1 (f x).2 hs
      obtain ⟨b1, b2, b3⟩ := ih st1 st' hx.2 h
      refine ⟨?_, ?_, ?_⟩
      · intro K hK
        rw [b1 K (fun e he => hK e (by simp [he])), a1 K (hK x (by simp))]
      rotate_left
      · intro e he ad had hae hfe
        rcases List.mem_cons.mp he with rfl | he
        · exact linkLabel_defined_same st st1 e.1 (f e).2 ad hs had hae hfe
        · have hne : (x.1 == e.1) = false := hx.1 e he
          exact b3 e he ad (by rw [a1 e.1 hne]; exact had) hae hfe
      · intro e he
        rcases List.mem_cons.mp he with rfl | he
        · have hrest : ∀ y ∈ rest, (y.1 == e.1) = false := by
            intro y hy
            have h1 := hx.1 y hy
            cases hc : (y.1 == e.1) with
            | false => rfl
            | true =>
              have h2 : y.1 = e.1 := by simpa using hc
              rw [h2] at h1
              simp at h1
          rw [b1 e.1 hrest, aself]
        · have hne : (x.1 == e.1) = false := hx.1 e he
          rw [b2 e he, a1 e.1 hne]

end Lc3V
