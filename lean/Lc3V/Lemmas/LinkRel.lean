/-
  Lemmas/LinkRel.lean — the relocation table and the patches produced by the label fold of `link`, exactly (C20).

  For a table `lb` with pairwise different keys folded into a state `st0`:
    * a label of `lb` is *resolved* when the table of `st0` has it and exactly one of the two sides is external;
    * the final relocation list is the initial one without the entries of resolved labels (same order);
    * the patches are, label by label, the initial entries of each resolved label with the defining side's address.
  Both descriptions depend only on `st0` and on the set of labels, which gives the order independence of `link`.
-/
import Lc3V.Lemmas.LinkPatch
set_option linter.unusedSimpArgs false
set_option linter.unusedVariables false
namespace Lc3V

/-- exactly one side external -/
def resolvedIn (labels : List (Key × SymData)) (e : Key × SymData) : Bool :=
  match lookupKey labels e.1 with
  | some ad => (ad.ext && !e.2.ext) || (!ad.ext && e.2.ext)
  | none => false

/-- the defining side's address -/
def linkedAddr (labels : List (Key × SymData)) (e : Key × SymData) : W :=
  match lookupKey labels e.1 with
  | some ad => if ad.ext then e.2.addr else ad.addr
  | none => e.2.addr

/-- one step, exactly -/
theorem linkLabel_rel (st st' : LinkSt) (k : Key) (d : SymData) (h : linkLabel st (k, d) = .ok st') :
    st'.rel = (if resolvedIn st.labels (k, d) then st.rel.filter (fun r => !(r.2 == k)) else st.rel) ∧
    st'.relocs = st.relocs ++ (if resolvedIn st.labels (k, d)
      then (st.rel.filter (fun r => r.2 == k)).map (fun r => (r.1, linkedAddr st.labels (k, d))) else []) := by
  unfold linkLabel at h
  dsimp only at h
  unfold resolvedIn linkedAddr
  dsimp only
  cases hl : lookupKey st.labels k with
  | none =>
    rw [hl] at h
    cases h
    simp
  | some ad =>
    rw [hl] at h
    dsimp only at h
    cases hae : ad.ext <;> cases hde : d.ext <;> simp only [hae, hde, Bool.and_self, Bool.or_self, Bool.and_true, Bool.and_false,
      Bool.or_true, Bool.or_false, Bool.true_or, Bool.false_or, Bool.not_true, Bool.not_false, if_true, if_false,
      Bool.false_eq_true, List.partition_eq_filter_filter] at h ⊢
    · -- both defined
      split at h
      · cases h
      · cases h; simp
    · cases h; exact ⟨rfl, rfl⟩
    · cases h; exact ⟨rfl, rfl⟩
    · cases h; simp

theorem resolvedIn_congr (l1 l2 : List (Key × SymData)) (e : Key × SymData) (h : lookupKey l1 e.1 = lookupKey l2 e.1) :
    resolvedIn l1 e = resolvedIn l2 e ∧ linkedAddr l1 e = linkedAddr l2 e := by
  unfold resolvedIn linkedAddr; rw [h]; exact ⟨rfl, rfl⟩

theorem any_congr_mem {α : Type} (p q : α → Bool) : ∀ (l : List α), (∀ x ∈ l, p x = q x) → l.any p = l.any q
  | [], _ => rfl
  | x :: xs, h => by
    simp only [List.any_cons]
    rw [h x (by simp), any_congr_mem p q xs (fun y hy => h y (by simp [hy]))]

theorem flatMap_congr_mem {α β : Type} (f g : α → List β) : ∀ (l : List α), (∀ x ∈ l, f x = g x) → l.flatMap f = l.flatMap g
  | [], _ => rfl
  | x :: xs, h => by
    simp only [List.flatMap_cons]
    rw [h x (by simp), flatMap_congr_mem f g xs (fun y hy => h y (by simp [hy]))]

/-- **the fold, exactly**: relocation list and patches after folding a table with pairwise different keys -/
theorem linkFold_rel (f : Key × SymData → Key × SymData) (hf : ∀ e, (f e).1 = e.1) :
    ∀ (l : List (Key × SymData)) (st st' : LinkSt), l.Pairwise (fun x y => (x.1 == y.1) = false) →
    l.foldlM (fun s e => linkLabel s (f e)) st = .ok st' →
    st'.rel = st.rel.filter (fun r => !(l.any (fun e => e.1 == r.2 && resolvedIn st.labels (f e)))) ∧
    st'.relocs = st.relocs ++ l.flatMap (fun e => if resolvedIn st.labels (f e)
      then (st.rel.filter (fun r => r.2 == e.1)).map (fun r => (r.1, linkedAddr st.labels (f e))) else []) := by
  intro l
  induction l with
  | nil =>
    intro st st' _ h
    simp only [List.foldlM_nil] at h
    cases h
    exact ⟨(List.filter_eq_self.mpr (fun _ _ => rfl)).symm, by simp⟩
  | cons e rest ih =>
    intro st st' hp h
    rw [List.foldlM_cons] at h
    cases hs : linkLabel st (f e) with
    | error x => rw [hs] at h; cases h
    | ok st1 =>
      rw [hs] at h
      have hfe : f e = (e.1, (f e).2) := by rw [← hf e]
      have hs' := hs
      rw [hfe] at hs'
      obtain ⟨r1, r2⟩ := linkLabel_rel st st1 e.1 (f e).2 hs'
      rw [← hfe] at r1 r2
      obtain ⟨a1, _, _⟩ := linkLabel_effect st st1 e.1 (f e).2 hs'
      have hpc := List.pairwise_cons.mp hp
      obtain ⟨b1, b2⟩ := ih st1 st' hpc.2 h
      -- for the labels of `rest` nothing changed in the table
      have hsame : ∀ x ∈ rest, resolvedIn st1.labels (f x) = resolvedIn st.labels (f x) ∧ linkedAddr st1.labels (f x) = linkedAddr st.labels (f x) := by
        intro x hx
        apply resolvedIn_congr
        rw [hf x]
        exact a1 x.1 (hpc.1 x hx)
      constructor
      · rw [b1, r1]
        by_cases hres : resolvedIn st.labels (f e) = true
        · rw [if_pos hres, List.filter_filter]
          refine List.filter_congr (fun r _ => ?_)
          simp only [List.any_cons, hres, Bool.and_true]
          have : (rest.any fun x => x.1 == r.2 && resolvedIn st1.labels (f x)) = (rest.any fun x => x.1 == r.2 && resolvedIn st.labels (f x)) := by
            apply any_congr_mem
            intro x hx; rw [(hsame x hx).1]
          rw [this]
          cases hk : (r.2 == e.1) with
          | true =>
            have : (e.1 == r.2) = true := by rw [beq_iff_eq] at hk ⊢; exact hk.symm
            simp [this]
          | false =>
            have : (e.1 == r.2) = false := by
              cases hx : (e.1 == r.2) with
              | false => rfl
              | true => rw [beq_iff_eq] at hx; rw [hx] at hk; simp at hk
            simp [this]
        · have hres' : resolvedIn st.labels (f e) = false := by simpa using hres
          rw [if_neg hres]
          refine List.filter_congr (fun r _ => ?_)
          simp only [List.any_cons, hres', Bool.and_false, Bool.false_or]
          congr 1
          apply any_congr_mem
          intro x hx; rw [(hsame x hx).1]
      · rw [b2, r2, List.flatMap_cons, List.append_assoc]
        congr 2
        apply flatMap_congr_mem
        intro x hx
        rw [(hsame x hx).1, (hsame x hx).2]
        -- the entries of `x`'s key are not touched by the step on `e`
        have hkeep : st1.rel.filter (fun r => r.2 == x.1) = st.rel.filter (fun r => r.2 == x.1) := by
          rw [r1]
          split
          · rw [List.filter_filter]
            refine List.filter_congr (fun r _ => ?_)
            cases hk : (r.2 == x.1) with
            | false => simp
            | true =>
              have hne := hpc.1 x hx
              have : (r.2 == e.1) = false := by
                rw [beq_iff_eq] at hk
                rw [hk]
                cases hx2 : (x.1 == e.1) with
                | false => rfl
                | true => rw [beq_iff_eq] at hx2; rw [hx2] at hne; simp at hne
              simp [this]
          · rfl
        rw [hkeep]

/-! ### order independence -/

theorem relInsert_fresh (m : List (W × Key)) (a : W) (k : Key) (h : ∀ e ∈ m, e.1 ≠ a) : relInsert m a k = m ++ [(a, k)] := by
  unfold relInsert
  have : m.any (fun e => e.1 == a) = false := by
    rw [List.any_eq_false]
    intro e he; simpa using h e he
  rw [this]; rfl

/-- merging relocation tables without a common address (and without repeated addresses in the second) appends -/
theorem relMerge_append : ∀ (rb ra : List (W × Key)), rb.Pairwise (fun x y => x.1 ≠ y.1) → (∀ x ∈ ra, ∀ y ∈ rb, x.1 ≠ y.1) →
    rb.foldl (fun m e => relInsert m e.1 e.2) ra = ra ++ rb := by
  intro rb
  induction rb with
  | nil => intro ra _ _; simp
  | cons y ys ih =>
    intro ra hp hd
    have hpc := List.pairwise_cons.mp hp
    simp only [List.foldl_cons]
    rw [relInsert_fresh ra y.1 y.2 (fun e he => hd e he y (by simp))]
    rw [ih (ra ++ [(y.1, y.2)]) hpc.2 ?_]
    · simp
    · intro x hx z hz
      rcases List.mem_append.mp hx with h1 | h1
      · exact hd x h1 z (by simp [hz])
      · simp only [List.mem_singleton] at h1
        rw [h1]
        exact hpc.1 z hz

/-- with pairwise different keys, "some entry with key `K` satisfies `P`" is a statement about the lookup of `K` -/
theorem any_key_lookup (P : Key × SymData → Bool) : ∀ (l : List (Key × SymData)), l.Pairwise (fun x y => (x.1 == y.1) = false) →
    ∀ K, l.any (fun e => e.1 == K && P e) = (match lookupKey l K with | some d => P (K, d) | none => false) := by
  intro l
  induction l with
  | nil => intro _ K; rfl
  | cons e rest ih =>
    intro hp K
    have hpc := List.pairwise_cons.mp hp
    simp only [List.any_cons]
    unfold lookupKey
    simp only [List.find?_cons]
    cases hk : (e.1 == K) with
    | true =>
      have hK : e.1 = K := by simpa using hk
      simp only [Bool.true_and, Option.map_some]
      -- no later entry has this key
      have hnone : rest.any (fun x => x.1 == K && P x) = false := by
        rw [List.any_eq_false]
        intro x hx
        have := hpc.1 x hx
        rw [hK] at this
        have hxk : (x.1 == K) = false := by
          cases hh : (x.1 == K) with
          | false => rfl
          | true => rw [beq_iff_eq] at hh; rw [hh] at this; simp at this
        simp [hxk]
      rw [hnone, Bool.or_false]
      obtain ⟨k, d⟩ := e
      simp only at hK
      subst hK
      rfl
    | false =>
      simp only [Bool.false_and, Bool.false_or]
      have := ih hpc.2 K
      unfold lookupKey at this
      exact this

/-- the "resolved" test read off both tables: both have the key and exactly one side is external -/
def resolvedKey (la lb : List (Key × SymData)) (K : Key) : Bool :=
  match lookupKey la K, lookupKey lb K with
  | some ad, some bd => (ad.ext && !bd.ext) || (!ad.ext && bd.ext)
  | _, _ => false

theorem resolvedKey_comm (la lb : List (Key × SymData)) (K : Key) : resolvedKey la lb K = resolvedKey lb la K := by
  unfold resolvedKey
  cases lookupKey la K <;> cases lookupKey lb K <;> simp only
  rename_i ad bd
  cases ad.ext <;> cases bd.ext <;> rfl

theorem any_resolved (f : Key × SymData → Key × SymData) (hf : ∀ e, (f e).1 = e.1 ∧ (f e).2.ext = e.2.ext)
    (la lb : List (Key × SymData)) (hub : lb.Pairwise (fun x y => (x.1 == y.1) = false)) (K : Key) :
    lb.any (fun e => e.1 == K && resolvedIn la (f e)) = resolvedKey la lb K := by
  rw [any_key_lookup (fun e => resolvedIn la (f e)) lb hub K]
  unfold resolvedKey
  cases hb : lookupKey lb K with
  | none => cases lookupKey la K <;> rfl
  | some bd =>
    simp only
    unfold resolvedIn
    rw [(hf (K, bd)).1, (hf (K, bd)).2]
    cases lookupKey la K <;> rfl

/-- **order independence of the pending relocations**: `link a b` and `link b a` leave the same relocation entries -/
theorem rel_order_independent (f g : Key × SymData → Key × SymData)
    (hf : ∀ e, (f e).1 = e.1 ∧ (f e).2.ext = e.2.ext) (hg : ∀ e, (g e).1 = e.1 ∧ (g e).2.ext = e.2.ext)
    (la lb : List (Key × SymData)) (hua : la.Pairwise (fun x y => (x.1 == y.1) = false)) (hub : lb.Pairwise (fun x y => (x.1 == y.1) = false))
    (ra rb : List (W × Key)) (hra : ra.Pairwise (fun x y => x.1 ≠ y.1)) (hrb : rb.Pairwise (fun x y => x.1 ≠ y.1))
    (hdisj : ∀ x ∈ ra, ∀ y ∈ rb, x.1 ≠ y.1) (sab sba : LinkSt)
    (hab : lb.foldlM (fun s e => linkLabel s (f e)) ⟨la, rb.foldl (fun m e => relInsert m e.1 e.2) ra, []⟩ = .ok sab)
    (hba : la.foldlM (fun s e => linkLabel s (g e)) ⟨lb, ra.foldl (fun m e => relInsert m e.1 e.2) rb, []⟩ = .ok sba) :
    ∀ r, r ∈ sab.rel ↔ r ∈ sba.rel := by
  obtain ⟨p1, _⟩ := linkFold_rel f (fun e => (hf e).1) lb _ sab hub hab
  obtain ⟨q1, _⟩ := linkFold_rel g (fun e => (hg e).1) la _ sba hua hba
  simp only at p1 q1
  rw [relMerge_append rb ra hrb hdisj] at p1
  rw [relMerge_append ra rb hra (fun x hx y hy => (hdisj y hy x hx).symm)] at q1
  intro r
  rw [p1, q1, List.mem_filter, List.mem_filter, any_resolved f hf la lb hub r.2, any_resolved g hg lb la hua r.2,
    resolvedKey_comm la lb r.2, List.mem_append, List.mem_append]
  constructor
  · intro ⟨h1, h2⟩; exact ⟨h1.symm, h2⟩
  · intro ⟨h1, h2⟩; exact ⟨h1.symm, h2⟩

/-! ### patches and the patched image -/

theorem lookupKey_of_mem_pw : ∀ (l : List (Key × SymData)), l.Pairwise (fun x y => (x.1 == y.1) = false) →
    ∀ e ∈ l, lookupKey l e.1 = some e.2 := by
  intro l
  induction l with
  | nil => intro _ e he; cases he
  | cons x rest ih =>
    intro hp e he
    have hpc := List.pairwise_cons.mp hp
    unfold lookupKey
    simp only [List.find?_cons]
    rcases List.mem_cons.mp he with rfl | he
    · simp
    · have hne : (x.1 == e.1) = false := hpc.1 e he
      rw [hne]
      have := ih hpc.2 e he
      unfold lookupKey at this
      exact this

/-- the address of the defining side -/
def definedAddr (la lb : List (Key × SymData)) (K : Key) : W :=
  match lookupKey la K, lookupKey lb K with
  | some ad, some bd => if ad.ext then bd.addr else ad.addr
  | _, _ => 0

theorem definedAddr_comm (la lb : List (Key × SymData)) (K : Key) (h : resolvedKey la lb K = true) :
    definedAddr la lb K = definedAddr lb la K := by
  unfold resolvedKey at h
  unfold definedAddr
  cases ha : lookupKey la K with
  | none => rw [ha] at h; cases hb : lookupKey lb K <;> rfl
  | some ad =>
    cases hb : lookupKey lb K with
    | none => rfl
    | some bd =>
      rw [ha, hb] at h
      simp only at h ⊢
      cases hae : ad.ext <;> cases hbe : bd.ext <;> simp [hae, hbe] at h ⊢

/-- the patches of the fold, as a set: one per initial relocation entry of a resolved label, with the defining address -/
theorem relocs_mem (f : Key × SymData → Key × SymData) (hf : ∀ e, (f e).1 = e.1 ∧ (f e).2.ext = e.2.ext ∧ (f e).2.addr = e.2.addr)
    (la lb : List (Key × SymData)) (hub : lb.Pairwise (fun x y => (x.1 == y.1) = false)) (R0 : List (W × Key)) (sab : LinkSt)
    (hab : lb.foldlM (fun s e => linkLabel s (f e)) ⟨la, R0, []⟩ = .ok sab) (p : W × W) :
    p ∈ sab.relocs ↔ ∃ r ∈ R0, resolvedKey la lb r.2 = true ∧ p = (r.1, definedAddr la lb r.2) := by
  obtain ⟨_, p2⟩ := linkFold_rel f (fun e => (hf e).1) lb _ sab hub hab
  simp only [List.nil_append] at p2
  rw [p2, List.mem_flatMap]
  -- for an entry of `lb`: the step's view coincides with the two-table view
  have hview : ∀ e ∈ lb, resolvedIn la (f e) = resolvedKey la lb e.1 ∧
      (resolvedKey la lb e.1 = true → linkedAddr la (f e) = definedAddr la lb e.1) := by
    intro e he
    have hl := lookupKey_of_mem_pw lb hub e he
    unfold resolvedIn linkedAddr resolvedKey definedAddr
    rw [(hf e).1, (hf e).2.1, (hf e).2.2, hl]
    cases lookupKey la e.1 with
    | none => exact ⟨rfl, fun h => by cases h⟩
    | some ad => exact ⟨rfl, fun _ => rfl⟩
  constructor
  · intro ⟨e, he, hp⟩
    obtain ⟨v1, v2⟩ := hview e he
    by_cases hres : resolvedIn la (f e) = true
    · rw [if_pos hres] at hp
      obtain ⟨r, hr, rfl⟩ := List.mem_map.mp hp
      obtain ⟨hr1, hr2⟩ := List.mem_filter.mp hr
      have hk : r.2 = e.1 := by simpa using hr2
      have hrk : resolvedKey la lb e.1 = true := by rw [← v1]; exact hres
      exact ⟨r, hr1, by rw [hk]; exact hrk, by rw [hk, v2 hrk]⟩
    · rw [if_neg hres] at hp; cases hp
  · intro ⟨r, hr, hres, hp⟩
    -- the entry of `lb` with this key
    have hb : ∃ bd, lookupKey lb r.2 = some bd := by
      unfold resolvedKey at hres
      cases h1 : lookupKey la r.2 with
      | none => rw [h1] at hres; cases hres
      | some ad =>
        cases h2 : lookupKey lb r.2 with
        | none => rw [h1, h2] at hres; cases hres
        | some bd => exact ⟨bd, rfl⟩
    obtain ⟨bd, hbd⟩ := hb
    have hmem : (r.2, bd) ∈ lb := by
      unfold lookupKey at hbd
      cases hfnd : lb.find? (fun e => e.1 == r.2) with
      | none => rw [hfnd] at hbd; cases hbd
      | some x =>
        rw [hfnd] at hbd
        simp only [Option.map_some, Option.some.injEq] at hbd
        have h1 := List.find?_some hfnd
        have h2 := List.mem_of_find?_eq_some hfnd
        have : x.1 = r.2 := by simpa using h1
        obtain ⟨xk, xd⟩ := x
        simp only at this hbd
        subst this; subst hbd
        exact h2
    obtain ⟨v1, v2⟩ := hview (r.2, bd) hmem
    refine ⟨(r.2, bd), hmem, ?_⟩
    rw [v1, if_pos hres]
    refine List.mem_map.mpr ⟨r, List.mem_filter.mpr ⟨hr, by simp⟩, ?_⟩
    rw [v2 hres, hp]

/-- patches at other addresses leave the cell alone -/
theorem patch_fold_none (A : W) : ∀ (relocs : List (W × W)) (m : Blocks), m.Pairwise (fun x y => x.1 ≠ y.1) →
    (∀ r ∈ relocs, r.1 ≠ A) → cell (relocs.foldl (fun m r => patchWord m r.1 r.2) m) A = cell m A := by
  intro relocs
  induction relocs with
  | nil => intro m _ _; rfl
  | cons r rest ih =>
    intro m hu h
    simp only [List.foldl_cons]
    rw [ih (patchWord m r.1 r.2) (patchWord_unique m hu r.1 r.2) (fun x hx => h x (by simp [hx]))]
    rw [cell_patchWord m hu r.1 A r.2]
    have : ¬ (r.1 = A ∧ (cell m r.1).isSome = true) := fun hh => h r (by simp) hh.1
    rw [if_neg this]

/-- a cell outside every block stays outside -/
theorem patch_fold_absent (A : W) : ∀ (relocs : List (W × W)) (m : Blocks), m.Pairwise (fun x y => x.1 ≠ y.1) →
    cell m A = none → cell (relocs.foldl (fun m r => patchWord m r.1 r.2) m) A = none := by
  intro relocs
  induction relocs with
  | nil => intro m _ h; exact h
  | cons r rest ih =>
    intro m hu h
    simp only [List.foldl_cons]
    apply ih (patchWord m r.1 r.2) (patchWord_unique m hu r.1 r.2)
    rw [cell_patchWord m hu r.1 A r.2]
    by_cases hx : r.1 = A
    · subst hx
      rw [h]; simp
    · have : ¬ (r.1 = A ∧ (cell m r.1).isSome = true) := fun hh => hx hh.1
      rw [if_neg this]; exact h

/-- **the patched image depends only on the set of patches**, when no address gets two different values -/
theorem patched_image_of_set (m : Blocks) (hu : m.Pairwise (fun x y => x.1 ≠ y.1)) (r1 r2 : List (W × W))
    (hmem : ∀ p, p ∈ r1 ↔ p ∈ r2) (hfun : ∀ p ∈ r1, ∀ q ∈ r1, p.1 = q.1 → p.2 = q.2) (A : W) :
    cell (r1.foldl (fun m r => patchWord m r.1 r.2) m) A = cell (r2.foldl (fun m r => patchWord m r.1 r.2) m) A := by
  cases hc : cell m A with
  | none => rw [patch_fold_absent A r1 m hu hc, patch_fold_absent A r2 m hu hc]
  | some w =>
    have hs : (cell m A).isSome = true := by rw [hc]; rfl
    by_cases hex : ∃ p ∈ r1, p.1 = A
    · obtain ⟨p, hp, hpa⟩ := hex
      have h1 := patch_fold A p.2 r1 m hu hs (fun r hr hra => hfun r hr p hp (by rw [hra, hpa])) (Or.inr (by rw [← hpa]; exact hp))
      have h2 := patch_fold A p.2 r2 m hu hs
        (fun r hr hra => hfun r ((hmem r).mpr hr) p hp (by rw [hra, hpa])) (Or.inr (by rw [← hpa]; exact (hmem p).mp hp))
      rw [h1, h2]
    · have hn1 : ∀ r ∈ r1, r.1 ≠ A := fun r hr hra => hex ⟨r, hr, hra⟩
      have hn2 : ∀ r ∈ r2, r.1 ≠ A := fun r hr hra => hex ⟨r, (hmem r).mpr hr, hra⟩
      rw [patch_fold_none A r1 m hu hn1, patch_fold_none A r2 m hu hn2]

/-- **order independence of the symbol-table part of `link`**: the two orders leave the same pending relocations and
    produce, on the same (order-independent, C20.linkBlocks_comm) block map, the same patched image -/
theorem link_order_independent (f g : Key × SymData → Key × SymData)
    (hf : ∀ e, (f e).1 = e.1 ∧ (f e).2.ext = e.2.ext ∧ (f e).2.addr = e.2.addr)
    (hg : ∀ e, (g e).1 = e.1 ∧ (g e).2.ext = e.2.ext ∧ (g e).2.addr = e.2.addr)
    (la lb : List (Key × SymData)) (hua : la.Pairwise (fun x y => (x.1 == y.1) = false)) (hub : lb.Pairwise (fun x y => (x.1 == y.1) = false))
    (ra rb : List (W × Key)) (hra : ra.Pairwise (fun x y => x.1 ≠ y.1)) (hrb : rb.Pairwise (fun x y => x.1 ≠ y.1))
    (hdisj : ∀ x ∈ ra, ∀ y ∈ rb, x.1 ≠ y.1) (sab sba : LinkSt)
    (hab : lb.foldlM (fun s e => linkLabel s (f e)) ⟨la, rb.foldl (fun m e => relInsert m e.1 e.2) ra, []⟩ = .ok sab)
    (hba : la.foldlM (fun s e => linkLabel s (g e)) ⟨lb, ra.foldl (fun m e => relInsert m e.1 e.2) rb, []⟩ = .ok sba)
    (blocks : Blocks) (hu : blocks.Pairwise (fun x y => x.1 ≠ y.1)) :
    (∀ r, r ∈ sab.rel ↔ r ∈ sba.rel) ∧ (∀ p, p ∈ sab.relocs ↔ p ∈ sba.relocs) ∧
    ∀ A, cell (sab.relocs.foldl (fun m r => patchWord m r.1 r.2) blocks) A =
         cell (sba.relocs.foldl (fun m r => patchWord m r.1 r.2) blocks) A := by
  have h1 := rel_order_independent f g (fun e => ⟨(hf e).1, (hf e).2.1⟩) (fun e => ⟨(hg e).1, (hg e).2.1⟩) la lb hua hub ra rb hra hrb hdisj sab sba hab hba
  have eab := relMerge_append rb ra hrb hdisj
  have eba := relMerge_append ra rb hra (fun x hx y hy => (hdisj y hy x hx).symm)
  rw [eab] at hab
  rw [eba] at hba
  have mab := relocs_mem f hf la lb hub (ra ++ rb) sab hab
  have mba := relocs_mem g hg lb la hua (rb ++ ra) sba hba
  have h2 : ∀ p, p ∈ sab.relocs ↔ p ∈ sba.relocs := by
    intro p
    rw [mab p, mba p]
    constructor
    · intro ⟨r, hr, hres, hp⟩
      exact ⟨r, by rw [List.mem_append] at hr ⊢; exact hr.symm, by rw [resolvedKey_comm]; exact hres,
        by rw [← definedAddr_comm la lb r.2 hres]; exact hp⟩
    · intro ⟨r, hr, hres, hp⟩
      have hres' : resolvedKey la lb r.2 = true := by rw [resolvedKey_comm]; exact hres
      exact ⟨r, by rw [List.mem_append] at hr ⊢; exact hr.symm, hres', by rw [definedAddr_comm la lb r.2 hres']; exact hp⟩
  refine ⟨h1, h2, patched_image_of_set blocks hu sab.relocs sba.relocs h2 ?_⟩
  -- one value per address: addresses of `ra ++ rb` are pairwise different
  have hpw : (ra ++ rb).Pairwise (fun x y => x.1 ≠ y.1) := List.pairwise_append.mpr ⟨hra, hrb, hdisj⟩
  intro p hp q hq hpq
  obtain ⟨r, hr, _, rfl⟩ := (mab p).mp hp
  obtain ⟨r', hr', _, rfl⟩ := (mab q).mp hq
  have : r = r' := unique_addr (ra ++ rb) hpw r hr r' hr' hpq
  rw [this]

end Lc3V
